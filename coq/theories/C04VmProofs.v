(* C04 - "running is total: errors are values, never crashes".  Proofs about the VM model (Vm.v).

   In Vm.v a Rust panic / undefined behaviour / native crash / non-termination / unmodelled native is the result
   [SStop a s] of [step] (a : abort = APanic | AUB | ACrash | ADiverge | AUnmodelled), [RStop] of [loop] and
   [OAbort] of [run].  Everything else ([SNext], [SExit], [SErr e ..]) is a value that `Vm::run` hands back.

   Part A  exhaustion_is_error : resource exhaustion and ill-typed operands are reported as error VALUES
           (Stackoverflow, CallStackOverflow, InvalidArgument, Timeout; i64 arithmetic wraps).
   Part B  step_no_abort_partial : under the invariant [step_pre] one instruction of a covered opcode is never
           [SStop].

   ------------------------------------------------------------------------------------------------------
   ABORT SITES of [step] and its helpers (every SStop / NStop / ClStop / WStop / VPanic / VUb / VCrash /
   JPanic / StrPanic / TCrash / TFuel / CCrash of Vm.v), the Rust cause, the invariant that excludes it, status.

   Invariants (names as used below):
     operands_ok    ip0 + 1 + operand_len(opcode) <= code_len P : the operand bytes lie inside the code
                    (C10 well-formedness / a successful decode)                         [sp_operands]
     valid_opcode   the byte at ip0 is <= 46 (implied by "opcode in covered_opcodes")
     calls_nonempty st_calls s <> []  (run pushes the entry frame, Return pops)          [sp_calls]
     stack_inv      vcount < capacity and capacity >= 3  (C14 invariant of ValueStack)  [sp_stack]
     heap_closed    every VObj a in ANY raw slot of the value stack has a < length heap  [sp_closed]
                    (the full invariant also covers globals, table contents, upvalue lists, st_open and
                     "upvalue addresses point at OUp, open list sorted and acyclic"; only the stack part is
                     needed for the covered opcodes)
     jumps_nonneg   the i32 jump operand of Goto/GotoIf* is >= 0 (C10)                   [sp_jump]
     acyclic        tables reachable by ==/hash are acyclic (otherwise known finding A-37)
     no_open        st_open s = None (no open upvalue)                                   [sp_open]

   site                                         Rust cause                               excluded by     status
   ---- dispatch
   step, `_ => SStop AUB`                       transmute of an invalid opcode byte      valid_opcode    PROVED
   ---- operand reads (slice index past the end of the code = panic)
   i_4,5,6,8,17,18,19,20,28,38,43/44,46 None    read_le None  -> APanic                  operands_ok     PROVED for 5 6 8 17 18 19 20 28 38 46;
                                                                                                         4 43 44 not covered
   i_29_30 op_u32 None                          same                                     operands_ok     PROVED
   i_35 / i_36 / i_37_42 / i_45  `_, _ =>`      same (2, 5, 2, 2 operands)               operands_ok     PROVED for 35 37 42; 36 45 not covered
   i_8 / i_38 StrPanic                          (no longer produced by read_str, A-23)   -               PROVED (read_str_no_panic)
   ---- "Call stack was empty" expect / last().unwrap()
   i_11 go `[] => SStop APanic`                 call_stack.last_mut().expect             calls_nonempty  PROVED
   i_19, i_20, i_21, i_35, i_36, i_46 top_offset None  same                              calls_nonempty  PROVED (36 not covered)
   i_43_44 `[] =>`, i_45 `[] =>`/top_offset     same                                     calls_nonempty  not covered
   ---- dangling heap address (use after free) = UB
   of_vres VUb <- arith_op/div_op cast_match None   len of a dangling object             heap_closed     PROVED (0 1 2 3)
   of_vres VUb <- bool_op as_bool None          same                                     heap_closed     PROVED (24 25 26)
   i_27, i_29_30 as_bool None                   same                                     heap_closed     PROVED
   i_11 hget None                               callee object freed                      heap_closed     PROVED
   i_34 vobj_len None                           same                                     heap_closed     PROVED
   i_35 TblUb                                   same                                     heap_closed     PROVED
   i_32 33 36 39 40 41 TblUb, i_36 to_i64 None  same                                     heap_closed     not covered (see ==/hash)
   i_43_44 / i_45 hget None, `_ => SStop AUB`   closure / upvalue object freed or wrong  heap_closed(upvalues) not covered
   ---- integer overflow
   arith_op VPanic                              i64 overflow in debug builds (A-33,      -               PROVED never produced
                                                repaired: wrapping ops), i64_result is                     (integer_overflow_wraps)
                                                never None
   i_36 i64_result None                         same                                     -               never produced (36 not covered)
   ---- debug_assert
   jump_target JPanic (i_28, i_29_30)           debug_assert!(pos >= 0), Debug build     jumps_nonneg    PROVED
   i_36 `i < 0` in Debug                        debug_assert!(0 <= i)                    loop var >= 0   not covered
   ---- ==, hash, PartialOrd on cyclic tables = unbounded native recursion (ACrash, finding A-37)
   of_vres VCrash <- eq_op veq0 None            Equals / NotEquals                       acyclic         PROVED for operands that are
                                                                                                         not both objects (12 13)
   of_vres VCrash <- less_op vcmp CCrash        Less / LessOrEq (== of two objects,      acyclic +       PROVED for operands that are
                                                or dangling)                             heap_closed     not both objects (14 15)
   i_32 tget None, i_33 tinsert None, i_36 tget, i_39 tget/tinsert, i_40 TCrash, i_41 tpop None
                                                key lookup hashes/compares keys          acyclic         not covered
   i_40 TFuel (ADiverge)                        append: probe for a free integer key     (pigeonhole)    not covered
   ---- SwapLast
   i_23 spush None (x2)                         push after two pops .unwrap()            stack_inv       PROVED
   ---- upvalues
   i_22 / i_46 ClStop (close_upvalues_go)       fuel = ADiverge (cyclic open list), closed   no_open     PROVED for st_open = None
                                                upvalue in the open list / dangling = AUB    (full: heap_closed(upvalues))
   i_45 WStop (walk_open), scount <= loc, "closure not found for capture", index out of range,
        cur = None                              register_upvalue                         heap_closed(upvalues), C10 not covered
   ---- natives (i_4 CallNative, i_11 on ONative): native_step NStop
   call_native_fuel O => ADiverge               native values that call natives, > 8 levels     -        not covered
   native_body NStop AUB                        argument conversion of a dangling object heap_closed     not covered
   native_body / minmax / sorted / to_array NStop ACrash   cyclic table                  acyclic         not covered
   run_function NStop AUB / APanic (code_len = 0) / reenter RStop   callee dangling, empty program,
                                                nested run aborted                       heap_closed, nonempty code, induction over depth   not covered
   ---- loop / run
   loop `O => RStop ADiverge`                   structural fuel (>= st_rem, never exhausted)   VmProofs.loop_paid    not restated here
   run_at `O => RStop ADiverge`                 nesting deeper than 130 (call stack bounds it by 128)   not covered
   no_reenter AUnmodelled                       only in run_flat (re-entry cut off)      -               not part of [run]

   Opcodes NOT covered by step_no_abort_partial (this file) and why:
     4  CallNative, 11 on a native function value : natives (re-entry, conversions, cyclic tables, AUnmodelled/fuel)
     32 GetProperty, 33 SetProperty, 36 ForEach, 39 NthRow, 40 AppendTable, 41 PopTable :
        key lookup = ==/hash of arbitrary keys, needs the acyclic-heap invariant over table CONTENTS (A-37),
        36 also needs "loop variable >= 0" in Debug builds
     43 SetUpvalue, 44 ReadUpvalue, 45 RegisterUpvalue : need heap_closed for closure/upvalue lists and C10 facts
     22 Return / 46 CloseUpvalue are covered only when no upvalue is open.

   ------------------------------------------------------------------------------------------------------
   FINAL STATUS (C04VmProofs2.v .. C04VmProofs9.v, C04VmLink.v; statements in Properties/C04.v).
   Invariants: step_pre2 (C04VmProofs3) = step_pre without the restrictions on comparisons / open upvalues /
   native callees, plus heap_closed over objects and closure frames, open_ok (the open-upvalue list is a
   duplicate-free chain of open upvalue objects), heap_acyclic (ranked tables, depth < eq_fuel - 1),
   "ForEach counter >= 0 in Debug", "RegisterUpvalue captures an existing variable".
   step_pre3 (C04VmProofs7) = vm_inv (the structural invariant, PRESERVED by every instruction:
   step_preserves) + instruction pointer at an instruction start of a code_ok program (follows from C10:
   C04VmLink.wellformed_code_ok) + side (acyclic heap, natives_simple, the two per-opcode conditions).

   site                                              final status
   step `_ => SStop AUB` (invalid opcode)             PROVED unreachable (code_ok: opcode <= 46)
   operand reads None (all opcodes incl. 4 36 43 44 45)   PROVED (code_ok: operands inside the code)
   "Call stack was empty" (11 19 20 21 35 36 43 44 45 46) PROVED (vm_inv: calls <> [], preserved)
   dangling address: of_vres VUb, as_bool / to_i64 / vobj_len / hget None, TblUb, SUb in natives,
        run_function NStop AUB                        PROVED (heap_closed, stack_closed; preserved)
   i_43_44 / i_45 `_ => SStop AUB` (frame closure is not a closure)   PROVED (vm_inv: closure frames alive, preserved)
   i_45 scount <= loc, "closure not found for capture", upvalue index out of range
                                                      excluded by the HYPOTHESIS sd_reg / sq_reg (reg_upvalue_ok:
                                                      a compiler guarantee that C10 wellformed does not state)
   arith_op VPanic, i_36 i64_result None              never produced (wrapping arithmetic)
   jump_target JPanic (28 29 30)                      PROVED (code_ok: jump operands >= 0, from C10)
   i_36 `i < 0` in Debug                              excluded by the HYPOTHESIS sd_foreach / sq_foreach
   ==, hash, PartialOrd: VCrash (12 13 14 15), tget / tinsert / tpop None, TCrash (32 33 36 39 40 41),
        ACrash in make_row / to_array                 PROVED unreachable on heap_acyclic + heap_closed heaps
                                                      (veq0_tot); a cyclic table DOES abort: cyclic_table_aborts (A-37)
   i_40 TFuel (ADiverge)                              PROVED unreachable for every heap (pigeonhole, tappend_idx_not_fuel)
   i_23 spush None                                    PROVED (stack invariant)
   ClStop in close_upvalues_go (22 46): fuel, closed upvalue in the open list, dangling
                                                      PROVED (open_ok + pigeonhole live_nodup_length; preserved,
                                                      incl. the insertion done by RegisterUpvalue)
   WStop in walk_open (45)                            PROVED (same)
   call_native_fuel O => ADiverge                     PROVED unreachable under natives_simple (no native function VALUE
                                                      names call1 try1 call0 rb1 __min __max __sort); without it
                                                      call1(call1, call1) exhausts the 8 levels (the crate reports
                                                      Stackoverflow there: the model is pessimistic)
   native_body NStop AUB (conversions)                PROVED for every native of the menu
   run_function `code_len = 0` APanic                 PROVED (instruction pointer inside the code)
   run_function `reenter` RStop                       for the VM: the HYPOTHESIS reenter_ok (contract of the nested run:
                                                      no abort, ninv again, no object dies).  For the CHECKED VM
                                                      (C04VmChecked.v: the model plus runtime checks that stop with
                                                      AUnmodelled) the contract is PROVED by induction over the
                                                      nesting depth (run_at_c_contract); a run of the VM on which no
                                                      check fails is the checked run (C04VmAgree.run_agrees), so
                                                      C04VmFinal.compiled_run_no_abort_unless_check needs no
                                                      hypothesis about intermediate states or nested runs
   native_minmax / native_sorted / minmax_go / sort_keys NStop (incl. ACrash of vcmp, snapshot, make_row,
        stable_sort, insert_all)                      PROVED unreachable (C04VmProofs6b.call_native_ok0), under
                                                      reenter_ok for the key-function callbacks
   loop `O => RStop ADiverge`                         PROVED (loop_no_abort: fuel >= st_rem, given re_paid; run_no_abort
                                                      uses VmProofs.run_at_paid)
   run_at `O => RStop ADiverge` (depth 130)           inside reenter_ok (hypothesis); in the checked VM a check
                                                      (run_at_c 0 stops with AUnmodelled): that the call stack of 256
                                                      frames keeps the nesting below 130 is NOT proved
   no_reenter AUnmodelled                             not part of [run]

   Preservation of the non-structural condition heap_acyclic: every instruction except SetProperty, AppendTable
   and the natives keeps it (C04VmProofs9.step_keeps_acyclic); those two keep it when key and value are ranked
   below the instance (C04VmProofs8.set_property_ranked, append_table_ranked); the natives other than __min /
   __max / __sort keep it (C04VmProofs6.call_native_ok); for those three it is not shown.  The loop-level theorems take "every dispatched instruction meets [side]" as a
   hypothesis (sides_hold). *)
From Coq Require Import NArith ZArith List Lia Bool.
From Cao Require Import ListUtil Bits Stacks Vm VmProofs.
Import ListNotations.

(* the opcode byte at [ip0]; 255 (an invalid opcode) beyond the end of the code, as in [step] *)
Definition opcode_at (P : program) (ip0 : N) : N := nth (N.to_nat ip0) (p_code P) 255%N.

(* reduce [step] at a known opcode *)
Ltac step_opc H := unfold step; cbv zeta; unfold opcode_at in H; rewrite H; cbv iota.

(* ------------------------------------------------------------------ *)
(* Small facts about the stack helpers                                 *)
(* ------------------------------------------------------------------ *)

(* ValueStack::push fails exactly when count + 1 >= capacity (Stacks.vs_push) *)
Definition stack_full (s : state) : Prop := length (vdata (st_stack s)) <= S (vcount (st_stack s)).

Lemma spush_none_iff s v : spush s v = None <-> stack_full s.
Proof.
  unfold spush, vs_push, stack_full.
  destruct (S (vcount (st_stack s)) <? length (vdata (st_stack s))) eqn:E.
  - apply Nat.ltb_lt in E. split; [discriminate | lia].
  - apply Nat.ltb_ge in E. split; [intros _; exact E | reflexivity].
Qed.

Lemma spop_facts s :
  st_heap (fst (spop s)) = st_heap s /\ st_calls (fst (spop s)) = st_calls s /\
  st_open (fst (spop s)) = st_open s /\
  length (vdata (st_stack (fst (spop s)))) = length (vdata (st_stack s)) /\
  vcount (st_stack (fst (spop s))) = vcount (st_stack s) - 1.
Proof.
  unfold spop, vs_pop.
  destruct (vcount (st_stack s) =? 0) eqn:E;
    cbn [fst set_stack st_heap st_calls st_open st_stack vdata vcount].
  - apply Nat.eqb_eq in E. repeat split; lia.
  - repeat split. apply upd_length.
Qed.

Lemma scount_set_calls s c : scount (set_calls s c) = scount s.
Proof. reflexivity. Qed.

(* ================================================================== *)
(* Part A : exhaustion_is_error                                        *)
(* ================================================================== *)

Section PartA.
Variable F : fops.
Variable bld : build.
Variable P : program.
Variable reenter : N -> state -> rres.

(* ---- A.1 a full value stack is Stackoverflow ---- *)

Theorem full_value_stack_is_stackoverflow : forall ip s v,
  stack_full s -> push_next ip s v = SErr EStackoverflow ip s.
Proof.
  intros ip s v H. unfold push_next. apply (proj2 (spush_none_iff s v)) in H. rewrite H. reflexivity.
Qed.

(* ScalarNil (opcode 7) on a full stack: the error is raised after the opcode was read, the state is untouched *)
Theorem full_value_stack_scalar_nil : forall ip0 s,
  opcode_at P ip0 = 7%N -> stack_full s ->
  step F bld P reenter ip0 s = SErr EStackoverflow (ip0 + 1) s.
Proof.
  intros ip0 s Hop Hf. step_opc Hop. apply full_value_stack_is_stackoverflow; exact Hf.
Qed.

(* CopyLast (opcode 9) *)
Theorem full_value_stack_copy_last : forall ip0 s,
  opcode_at P ip0 = 9%N -> stack_full s ->
  step F bld P reenter ip0 s = SErr EStackoverflow (ip0 + 1) s.
Proof.
  intros ip0 s Hop Hf. step_opc Hop. apply full_value_stack_is_stackoverflow; exact Hf.
Qed.

(* ScalarInt (opcode 5): the error position is behind the 8 operand bytes *)
Theorem full_value_stack_scalar_int : forall ip0 s,
  opcode_at P ip0 = 5%N -> (ip0 + 1 + 8 <= code_len P)%N -> stack_full s ->
  step F bld P reenter ip0 s = SErr EStackoverflow (ip0 + 1 + 8) s.
Proof.
  intros ip0 s Hop Hlen Hf. step_opc Hop. unfold i_5, read_le.
  unfold code_len in Hlen. change (N.of_nat 8) with 8%N.
  apply N.leb_le in Hlen. rewrite Hlen.
  apply full_value_stack_is_stackoverflow; exact Hf.
Qed.

(* ---- A.2 a full call stack is CallStackOverflow ---- *)

Theorem full_call_stack_push_frame : forall s f,
  call_stack_size <= length (st_calls s) -> push_frame s f = None.
Proof.
  intros s f H. unfold push_frame. apply Nat.leb_le in H. rewrite H. reflexivity.
Qed.

Corollary full_call_stack_push_frame_eq : forall s f,
  length (st_calls s) = call_stack_size -> push_frame s f = None.
Proof. intros s f H. apply full_call_stack_push_frame. rewrite H. apply Nat.le_refl. Qed.

(* Vm::run on a VM whose call stack is full: the entry frame cannot be pushed; nothing runs *)
Theorem full_call_stack_is_callstackoverflow : forall N s,
  call_stack_size <= length (st_calls s) ->
  run F bld N P s = (OErr ECallStackOverflow [], s).
Proof.
  intros N s H. unfold run, run_gen. rewrite full_call_stack_push_frame by exact H. reflexivity.
Qed.

(* CallFunction (opcode 11) of a script function or closure with enough arguments on a full call stack:
   the callee was popped, the return address was written into the top frame, no frame is pushed *)
Theorem full_call_stack_call_function : forall ip0 s a h ar top rest,
  opcode_at P ip0 = 11%N ->
  snd (spop s) = VObj a ->
  (hget (st_heap s) a = Some (OFun h ar) \/ exists ups, hget (st_heap s) a = Some (OClo h ar ups)) ->
  st_calls s = top :: rest ->
  call_stack_size <= length (st_calls s) ->
  (ar <= N.of_nat (scount (fst (spop s))))%N ->
  step F bld P reenter ip0 s
  = SErr ECallStackOverflow (ip0 + 1)
      (set_calls (fst (spop s)) (mkFrame (fr_src top) (ip0 + 1) (fr_off top) (fr_clo top) :: rest)).
Proof.
  intros ip0 s a h ar top rest Hop Hv Ho Hc Hfull Har. step_opc Hop. unfold i_11.
  destruct (spop_facts s) as (Hh & Hca & _).
  destruct (spop s) as [s1 fv] eqn:E. cbn [fst snd] in *. subst fv.
  rewrite Hh.
  assert (Hpf : forall clo,
    push_frame (set_calls s1 (mkFrame (fr_src top) (ip0 + 1) (fr_off top) (fr_clo top) :: rest))
               (mkFrame ip0 (ip0 + 1) (N.of_nat (scount s1) - ar) clo) = None).
  { intros clo. apply full_call_stack_push_frame. cbn [st_calls set_calls length].
    rewrite Hc in Hfull. cbn [length] in Hfull. exact Hfull. }
  apply N.ltb_ge in Har.
  destruct Ho as [Ho | [ups Ho]]; rewrite Ho; cbv zeta; rewrite Hca, Hc, scount_set_calls, Har, Hpf; reflexivity.
Qed.

(* ---- A.3 calling something that is not a function is InvalidArgument ---- *)

Definition not_callable (h : heap) (v : value) : Prop :=
  match v with
  | VObj a =>
      match hget h a with
      | Some (OTable _) | Some (OStr _) | Some (OUp _) => True
      | _ => False
      end
  | _ => True      (* nil, integer, real *)
  end.

Theorem call_non_function_is_invalid_argument : forall ip0 s,
  opcode_at P ip0 = 11%N -> not_callable (st_heap s) (snd (spop s)) ->
  step F bld P reenter ip0 s = SErr EInvalidArgument (ip0 + 1) (fst (spop s)).
Proof.
  intros ip0 s Hop Hnc. step_opc Hop. unfold i_11.
  destruct (spop_facts s) as (Hh & _).
  destruct (spop s) as [s1 fv] eqn:E. cbn [fst snd] in *.
  destruct fv as [| z | r | a]; try reflexivity.
  cbn [not_callable] in Hnc. rewrite Hh.
  destruct (hget (st_heap s) a) as [[]|]; try contradiction; reflexivity.
Qed.

(* ---- A.4 i64 overflow wraps (in every build profile), it is never a panic ---- *)

Definition arith_exact (o : arith) (x y : Z) : Z :=
  match o with OpAdd => (x + y)%Z | OpSub => (x - y)%Z | OpMul => (x * y)%Z end.

Theorem integer_overflow_wraps : forall o h x y,
  arith_op F o h (VInt x) (VInt y)
  = VOk (VInt (let r := arith_exact o x y in if in_i64 r then r else wrap_i64 r)).
Proof.
  intros o h x y. unfold arith_op, cast_match.
  cbn [is_real is_int orb to_i64]. cbv zeta. unfold i64_result.
  destruct o; cbn [arith_exact]; destruct (in_i64 _); reflexivity.
Qed.

Corollary integer_arith_never_panics : forall o h x y, arith_op F o h (VInt x) (VInt y) <> VPanic.
Proof. intros o h x y. rewrite integer_overflow_wraps. discriminate. Qed.

(* the wrapped result is an i64 congruent to the exact result modulo 2^64 *)
Lemma wrap_i64_in_range : forall z, in_i64 (wrap_i64 z) = true.
Proof.
  intros z. unfold wrap_i64, u64_to_i64, i64_to_u64, in_i64, i64_min, i64_max, two64. cbv zeta.
  pose proof (Z.mod_pos_bound z 18446744073709551616 ltac:(lia)) as Hm.
  set (m := (z mod 18446744073709551616)%Z) in *.
  rewrite N2Z.inj_mod, Z2N.id by lia.
  change (Z.of_N 18446744073709551616) with 18446744073709551616%Z.
  rewrite Z.mod_small by lia.
  destruct (m <? 9223372036854775808)%Z eqn:E;
    [apply Z.ltb_lt in E | apply Z.ltb_ge in E]; apply andb_true_intro; split; apply Z.leb_le; lia.
Qed.

Lemma wrap_i64_congr : forall z,
  (wrap_i64 z mod 18446744073709551616 = z mod 18446744073709551616)%Z.
Proof.
  intros z. unfold wrap_i64, u64_to_i64, i64_to_u64, two64. cbv zeta.
  pose proof (Z.mod_pos_bound z 18446744073709551616 ltac:(lia)) as Hm.
  rewrite N2Z.inj_mod, Z2N.id by lia.
  change (Z.of_N 18446744073709551616) with 18446744073709551616%Z.
  rewrite (Z.mod_small (z mod 18446744073709551616)) by lia.
  destruct (z mod 18446744073709551616 <? 9223372036854775808)%Z.
  - apply Z.mod_mod. lia.
  - replace (z mod 18446744073709551616 - 18446744073709551616)%Z
      with (z mod 18446744073709551616 + (-1) * 18446744073709551616)%Z by lia.
    rewrite Z_mod_plus_full. apply Z.mod_mod. lia.
Qed.

(* i64::MAX + 1 = i64::MIN, i64::MIN - 1 = i64::MAX, i64::MAX * 2 = -2 *)
Theorem integer_overflow_witness : forall h,
  arith_op F OpAdd h (VInt i64_max) (VInt 1) = VOk (VInt i64_min) /\
  arith_op F OpSub h (VInt i64_min) (VInt 1) = VOk (VInt i64_max) /\
  arith_op F OpMul h (VInt i64_max) (VInt 2) = VOk (VInt (-2)).
Proof. intros h. rewrite !integer_overflow_wraps. vm_compute. repeat split. Qed.

(* ---- A.5 budget 0 (and 1) is Timeout; no instruction is dispatched ---- *)

Theorem budget_zero_is_timeout : forall N s,
  N <= 1 -> (0 < code_len P)%N -> length (st_calls s) < call_stack_size ->
  exists tr, run F bld N P s = (OErr ETimeout tr, set_calls (set_rem s 0) []).
Proof.
  intros N s HN Hc Hl. eexists. unfold run, run_gen, push_frame.
  apply Nat.leb_gt in Hl. rewrite Hl.
  assert (Hd : exists d, max_depth = S d) by (exists 129; reflexivity).
  destruct Hd as [d ->]. cbn [run_at]. unfold run_loop.
  rewrite timeout_reported; [| exact Hc | cbn [st_rem set_rem]; lia].
  reflexivity.
Qed.

Corollary budget_zero_dispatches_nothing : forall N s,
  N <= 1 -> (0 < code_len P)%N -> length (st_calls s) < call_stack_size ->
  st_count (snd (run F bld N P s)) = st_count s /\
  st_stack (snd (run F bld N P s)) = st_stack s /\
  st_globals (snd (run F bld N P s)) = st_globals s /\
  st_heap (snd (run F bld N P s)) = st_heap s.
Proof.
  intros N s HN Hc Hl. destruct (budget_zero_is_timeout N s HN Hc Hl) as [tr ->].
  cbn [snd]. repeat split.
Qed.

(* ---- A.6 an operand of the wrong type is InvalidArgument ---- *)

(* get_table answers TblNot for every scalar and for every live object that is not a table *)
Lemma get_table_scalar : forall h v, (forall a, v <> VObj a) -> get_table h v = TblNot.
Proof. intros h v H. destruct v; try reflexivity. exfalso. apply (H a). reflexivity. Qed.

Lemma get_table_non_table_object : forall h a o,
  hget h a = Some o -> (forall t, o <> OTable t) -> get_table h (VObj a) = TblNot.
Proof.
  intros h a o Ho Hn. cbn [get_table]. rewrite Ho. destruct o; try reflexivity.
  exfalso. apply (Hn t). reflexivity.
Qed.

(* GetProperty (32): key and instance are popped *)
Theorem get_property_wrong_type : forall ip0 s,
  opcode_at P ip0 = 32%N ->
  get_table (st_heap s) (snd (spop (fst (spop s)))) = TblNot ->
  step F bld P reenter ip0 s = SErr EInvalidArgument (ip0 + 1) (fst (spop (fst (spop s)))).
Proof.
  intros ip0 s Hop Ht. step_opc Hop. unfold i_32.
  destruct (spop_facts s) as (Hh & _). destruct (spop_facts (fst (spop s))) as (Hh2 & _).
  destruct (spop s) as [s1 key] eqn:E1. cbn [fst snd] in *.
  destruct (spop s1) as [s2 inst] eqn:E2. cbn [fst snd] in *.
  rewrite Hh2, Hh, Ht. reflexivity.
Qed.

(* SetProperty (33): key, instance, value are peeked and the three slots dropped *)
Theorem set_property_wrong_type : forall ip0 s,
  opcode_at P ip0 = 33%N ->
  get_table (st_heap s) (speek s 1) = TblNot ->
  step F bld P reenter ip0 s = SErr EInvalidArgument (ip0 + 1) (spop_n s 3).
Proof.
  intros ip0 s Hop Ht. step_opc Hop. unfold i_33. cbv zeta.
  change (st_heap (spop_n s 3)) with (st_heap s). rewrite Ht. reflexivity.
Qed.

(* AppendTable (40) *)
Theorem append_table_wrong_type : forall ip0 s,
  opcode_at P ip0 = 40%N ->
  get_table (st_heap s) (speek s 0) = TblNot ->
  step F bld P reenter ip0 s = SErr EInvalidArgument (ip0 + 1) (spop_n s 2).
Proof.
  intros ip0 s Hop Ht. step_opc Hop. unfold i_40. cbv zeta.
  change (st_heap (spop_n s 2)) with (st_heap s). rewrite Ht. reflexivity.
Qed.

(* PopTable (41) *)
Theorem pop_table_wrong_type : forall ip0 s,
  opcode_at P ip0 = 41%N ->
  get_table (st_heap s) (snd (spop s)) = TblNot ->
  step F bld P reenter ip0 s = SErr EInvalidArgument (ip0 + 1) (fst (spop s)).
Proof.
  intros ip0 s Hop Ht. step_opc Hop. unfold i_41.
  destruct (spop_facts s) as (Hh & _).
  destruct (spop s) as [s1 inst] eqn:E1. cbn [fst snd] in *.
  rewrite Hh, Ht. reflexivity.
Qed.

End PartA.

(* ================================================================== *)
(* Part B : step_no_abort_partial                                      *)
(* ================================================================== *)

Definition no_stop (r : sres) : Prop := match r with SStop _ _ => False | _ => True end.

Lemma no_stop_neq r : no_stop r -> forall a s', r <> SStop a s'.
Proof. intros H a s' E. rewrite E in H. exact H. Qed.

(* number of operand bytes behind the opcode byte *)
Definition operand_len (opc : N) : N :=
  match opc with
  | 5 | 6 => 8
  | 4 | 8 | 17 | 18 | 19 | 20 | 28 | 29 | 30 | 38 | 43 | 44 | 46 => 4   (* 46: u32 since d723a2c *)
  | 35 | 36 => 20
  | 37 | 42 => 8
  | 45 => 2
  | _ => 0
  end%N.

(* a value is not dangling *)
Definition val_ok (h : heap) (v : value) : Prop :=
  match v with VObj a => hget h a <> None | _ => True end.

(* heap_closed, value-stack part: every raw slot (dead slots included) holds a live address *)
Definition stack_closed (s : state) : Prop :=
  forall i, val_ok (st_heap s) (nth i (vdata (st_stack s)) VNil).

Definition is_obj (v : value) : bool := match v with VObj _ => true | _ => false end.

(* the operands of a binary instruction: [top1] is popped first (right operand), [top2] second *)
Definition top1 (s : state) : value := snd (spop s).
Definition top2 (s : state) : value := snd (spop (fst (spop s))).

Record step_pre (P : program) (ip0 : N) (s : state) : Prop := mkStepPre {
  (* operands_ok *)
  sp_operands : (ip0 + 1 + operand_len (opcode_at P ip0) <= code_len P)%N;
  (* calls_nonempty *)
  sp_calls : st_calls s <> [];
  (* the ValueStack invariant (C14) and a capacity of at least 3 *)
  sp_stack : vcount (st_stack s) < length (vdata (st_stack s)) /\ 2 < length (vdata (st_stack s));
  (* heap_closed for the value stack *)
  sp_closed : stack_closed s;
  (* jump targets are not negative (C10) *)
  sp_jump : In (opcode_at P ip0) [28; 29; 30]%N ->
            forall raw, op_u32 P (ip0 + 1) = Some raw -> (0 <= u32_to_i32 raw)%Z;
  (* ==, <, <= : not two objects (deep equality of cyclic tables is finding A-37) *)
  sp_cmp : In (opcode_at P ip0) [12; 13; 14; 15]%N -> ~ (is_obj (top1 s) = true /\ is_obj (top2 s) = true);
  (* CallFunction: the callee is not a native function value *)
  sp_call : opcode_at P ip0 = 11%N ->
            forall a h, top1 s = VObj a -> hget (st_heap s) a <> Some (ONative h);
  (* Return / CloseUpvalue: no open upvalue *)
  sp_open : In (opcode_at P ip0) [22; 46]%N -> st_open s = None
}.

Definition covered_opcodes : list N :=
  [0; 1; 2; 3; 5; 6; 7; 8; 9; 10; 11; 12; 13; 14; 15; 16; 17; 18; 19; 20; 21; 22; 23; 24; 25; 26; 27; 28; 29; 30;
   31; 34; 35; 37; 38; 42; 46]%N.

(* ---- helpers ---- *)

Lemma nth_upd_nil (l : list value) c i :
  nth i (upd l c VNil) VNil = VNil \/ nth i (upd l c VNil) VNil = nth i l VNil.
Proof.
  destruct (Nat.eq_dec c i) as [->|Hne].
  - left. destruct (Nat.lt_ge_cases i (length l)) as [Hl|Hl].
    + apply nth_upd_same. exact Hl.
    + apply nth_overflow. rewrite upd_length. exact Hl.
  - right. apply nth_upd_other. exact Hne.
Qed.

Lemma spop_inv s s1 v : spop s = (s1, v) -> stack_closed s ->
  val_ok (st_heap s1) v /\ stack_closed s1 /\ st_heap s1 = st_heap s /\ st_calls s1 = st_calls s /\
  st_open s1 = st_open s /\
  length (vdata (st_stack s1)) = length (vdata (st_stack s)) /\
  vcount (st_stack s1) = vcount (st_stack s) - 1.
Proof.
  intros E Hc. destruct (spop_facts s) as (Hh & Hca & Hop & Hl & Hn). rewrite E in *. cbn [fst] in *.
  repeat split; auto.
  - rewrite Hh. unfold spop, vs_pop in E.
    destruct (vcount (st_stack s) =? 0); inversion E; subst; [exact I | apply Hc].
  - unfold stack_closed. rewrite Hh. intros i. unfold spop, vs_pop in E.
    destruct (vcount (st_stack s) =? 0); inversion E; subst; cbn [st_stack set_stack vdata]; [apply Hc|].
    destruct (nth_upd_nil (vdata (st_stack s)) (vcount (st_stack s) - 1) i) as [-> | ->]; [exact I | apply Hc].
Qed.

Lemma push_next_no_stop ip s v : no_stop (push_next ip s v).
Proof. unfold push_next. destruct (spush s v); exact I. Qed.

Lemma spush_some s v : S (vcount (st_stack s)) < length (vdata (st_stack s)) ->
  exists s', spush s v = Some s' /\ vcount (st_stack s') = S (vcount (st_stack s)) /\
             length (vdata (st_stack s')) = length (vdata (st_stack s)).
Proof.
  intros H. unfold spush, vs_push. apply Nat.ltb_lt in H. rewrite H.
  eexists. split; [reflexivity|]. cbn [st_stack set_stack vcount vdata]. split; [reflexivity|apply upd_length].
Qed.

Lemma read_le_some bytes ip n : (ip + N.of_nat n <= N.of_nat (length bytes))%N ->
  exists x, read_le bytes ip n = Some x.
Proof. intros H. unfold read_le. apply N.leb_le in H. rewrite H. eexists; reflexivity. Qed.

Lemma read_str_no_panic p d : read_str p d <> StrPanic.
Proof.
  unfold read_str. cbv zeta.
  destruct (_ <? _)%N; [discriminate|]. destruct (_ <? _)%N; [discriminate|].
  destruct (read_le d p 4); [|discriminate]. destruct (_ <? _)%N; discriminate.
Qed.

Lemma top_offset_some s : st_calls s <> [] -> exists off, top_offset s = Some off.
Proof. unfold top_offset. destruct (st_calls s); [congruence|]. eexists; reflexivity. Qed.

Lemma close_upvalues_none top s : st_open s = None -> close_upvalues_from top s = ClOk s.
Proof. intros H. unfold close_upvalues_from. cbn [close_upvalues_go]. rewrite H. reflexivity. Qed.

(* finish a goal  no_stop (body)  whose remaining matches all end in SNext / SErr / push_next *)
Ltac crush :=
  repeat first
    [ exact I
    | apply push_next_no_stop
    | match goal with |- no_stop (match ?x with _ => _ end) => destruct x eqn:? end ].

Section PartB.
Variable F : fops.
Variable bld : build.
Variable P : program.
Variable reenter : N -> state -> rres.

Lemma op_u32_some ip : (ip + 4 <= code_len P)%N -> exists x, op_u32 P ip = Some x.
Proof. intros H. unfold op_u32. apply read_le_some. exact H. Qed.

Lemma jump_target_some raw : (0 <= u32_to_i32 raw)%Z -> exists t, jump_target bld raw = JTo t.
Proof.
  intros H. unfold jump_target. cbv zeta.
  destruct (Z.ltb_spec (u32_to_i32 raw) 0); [lia | eexists; reflexivity].
Qed.

(* value-level operators on live values *)
Lemma vobj_len_some h a : hget h a <> None -> exists l, vobj_len h a = Some l.
Proof. intros H. unfold vobj_len. destruct (hget h a); [eexists; reflexivity | congruence]. Qed.

Lemma to_i64_some h v : val_ok h v -> exists x, to_i64 F h v = Some x.
Proof. destruct v; cbn [val_ok to_i64]; intros H; try (eexists; reflexivity). apply vobj_len_some; exact H. Qed.

Lemma to_f64_some h v : val_ok h v -> exists x, to_f64 F h v = Some x.
Proof.
  destruct v; cbn [val_ok to_f64]; intros H; try (eexists; reflexivity).
  destruct (vobj_len_some h a H) as [l ->]. eexists; reflexivity.
Qed.

Lemma as_bool_some h v : val_ok h v -> exists b, as_bool F h v = Some b.
Proof.
  destruct v; cbn [val_ok as_bool]; intros H; try (eexists; reflexivity).
  destruct (hget h a) as [[]|]; try (eexists; reflexivity). congruence.
Qed.

Lemma cast_match_some h a b : val_ok h a -> val_ok h b -> exists p, cast_match F h a b = Some p.
Proof.
  intros Ha Hb. unfold cast_match.
  destruct (to_f64_some h a Ha) as [fa ->]. destruct (to_f64_some h b Hb) as [fb ->].
  destruct (to_i64_some h a Ha) as [ia ->]. destruct (to_i64_some h b Hb) as [ib ->].
  destruct (_ || _); [eexists; reflexivity|]. destruct (_ || _); eexists; reflexivity.
Qed.

Lemma arith_op_ok o h a b : val_ok h a -> val_ok h b -> exists v, arith_op F o h a b = VOk v.
Proof.
  intros Ha Hb. unfold arith_op. destruct (cast_match_some h a b Ha Hb) as [[x y] ->].
  destruct x, y; try (eexists; reflexivity).
  cbv zeta. unfold i64_result. destruct (in_i64 _); eexists; reflexivity.
Qed.

Lemma div_op_ok h a b : val_ok h a -> val_ok h b -> exists v, div_op F h a b = VOk v.
Proof.
  intros Ha Hb. unfold div_op. destruct (cast_match_some h a b Ha Hb) as [[x y] ->].
  destruct x, y; eexists; reflexivity.
Qed.

Lemma bool_op_ok f h a b : val_ok h a -> val_ok h b -> exists v, bool_op F f h a b = VOk v.
Proof.
  intros Ha Hb. unfold bool_op.
  destruct (as_bool_some h a Ha) as [x ->]. destruct (as_bool_some h b Hb) as [y ->]. eexists; reflexivity.
Qed.

Lemma veq0_some h a b : ~ (is_obj b = true /\ is_obj a = true) -> exists r, veq0 F h a b = Some r.
Proof.
  intros H. unfold veq0.
  assert (Hf : exists f, eq_fuel = S f) by (exists 23; reflexivity). destruct Hf as [f ->].
  destruct a, b; cbn [veq]; try (eexists; reflexivity). exfalso. apply H. split; reflexivity.
Qed.

Lemma eq_op_ok neg h a b : ~ (is_obj b = true /\ is_obj a = true) -> exists v, eq_op F neg h a b = VOk v.
Proof. intros H. unfold eq_op. destruct (veq0_some h a b H) as [r ->]. eexists; reflexivity. Qed.

Lemma cmp_int_real_no_crash i r : cmp_int_real F i r <> CCrash.
Proof.
  unfold cmp_int_real. cbv zeta.
  repeat match goal with |- context [match ?x with _ => _ end] => destruct x end; discriminate.
Qed.

Lemma cres_rev_no_crash c : c <> CCrash -> cres_rev c <> CCrash.
Proof. destruct c as [[]| |]; cbn [cres_rev]; congruence. Qed.

Lemma vcmp_no_crash h a b : val_ok h a -> val_ok h b -> ~ (is_obj b = true /\ is_obj a = true) ->
  vcmp F h a b <> CCrash.
Proof.
  intros Ha Hb Hn.
  destruct (to_i64_some h a Ha) as [ia Eia]. destruct (to_i64_some h b Hb) as [ib Eib].
  destruct (to_f64_some h a Ha) as [fa Efa]. destruct (to_f64_some h b Hb) as [fb Efb].
  destruct a, b; unfold vcmp, vcmp_cast, cast_match; cbn [is_real is_int orb];
    rewrite ?Eia, ?Eib, ?Efa, ?Efb;
    try discriminate;
    try (apply cmp_int_real_no_crash);
    try (apply cres_rev_no_crash; apply cmp_int_real_no_crash);
    try (destruct (f_cmp F _ _); discriminate).
  exfalso. apply Hn. split; reflexivity.
Qed.

Lemma less_op_ok or_eq h a b : val_ok h a -> val_ok h b -> ~ (is_obj b = true /\ is_obj a = true) ->
  exists v, less_op F or_eq h a b = VOk v.
Proof.
  intros Ha Hb Hn. unfold less_op. pose proof (vcmp_no_crash h a b Ha Hb Hn) as H.
  destruct (vcmp F h a b) as [[]| |]; try (eexists; reflexivity). congruence.
Qed.

(* Vm::binary_op: both operands are popped, the operator sees live values *)
Lemma binary_op_no_stop ip s op :
  stack_closed s ->
  (forall h a b, b = top1 s -> a = top2 s -> val_ok h a -> val_ok h b -> exists v, op h a b = VOk v) ->
  no_stop (binary_op ip s op).
Proof.
  intros Hcl H. unfold binary_op.
  pose proof (H (st_heap (fst (spop (fst (spop s))))) _ _ eq_refl eq_refl) as H'. unfold top1, top2 in H'.
  revert H'.
  destruct (spop s) as [s1 b] eqn:E1. cbn [fst snd].
  destruct (spop s1) as [s2 a] eqn:E2. cbn [fst snd]. intros H'.
  destruct (spop_inv s s1 b E1 Hcl) as (Hb & Hcl1 & Hh1 & _).
  destruct (spop_inv s1 s2 a E2 Hcl1) as (Ha & _ & Hh2 & _).
  rewrite <- Hh2 in Hb.
  destruct (H' Ha Hb) as [v ->]. cbn [of_vres]. apply push_next_no_stop.
Qed.

Section Opcodes.
Variable ip0 : N.
Variable s : state.
Hypothesis Hpre : step_pre P ip0 s.

Let Hcl : stack_closed s := sp_closed P ip0 s Hpre.
Let Hcalls : st_calls s <> [] := sp_calls P ip0 s Hpre.

Notation STEP := (step F bld P reenter ip0 s).

Lemma operands_4 : forall k, opcode_at P ip0 = k -> (4 <= operand_len k)%N -> exists x, op_u32 P (ip0 + 1) = Some x.
Proof.
  intros k Hk Hl. apply op_u32_some. pose proof (sp_operands P ip0 s Hpre) as H. rewrite Hk in H. lia.
Qed.

Lemma operands_8 : forall k, opcode_at P ip0 = k -> (8 <= operand_len k)%N ->
  exists x, read_le (p_code P) (ip0 + 1) 8 = Some x.
Proof.
  intros k Hk Hl. apply read_le_some. pose proof (sp_operands P ip0 s Hpre) as H. rewrite Hk in H.
  unfold code_len in H. change (N.of_nat 8) with 8%N. lia.
Qed.

Lemma operands_at : forall k d, opcode_at P ip0 = k -> (d + 4 <= operand_len k)%N ->
  exists x, op_u32 P (ip0 + 1 + d) = Some x.
Proof.
  intros k d Hk Hl. apply op_u32_some. pose proof (sp_operands P ip0 s Hpre) as H. rewrite Hk in H. lia.
Qed.

Ltac op4 Hop := let x := fresh "x" in let E := fresh "E" in
  destruct (operands_4 _ Hop ltac:(vm_compute; discriminate)) as [x E]; rewrite E.

(* arithmetic, division, boolean operators *)
Lemma ns_arith : forall k o, opcode_at P ip0 = k ->
  STEP = binary_op (ip0 + 1) s (arith_op F o) -> no_stop STEP.
Proof.
  intros k o _ ->. apply binary_op_no_stop; [exact Hcl|]. intros h a b _ _. apply arith_op_ok.
Qed.

Lemma ns_0 : opcode_at P ip0 = 0%N -> no_stop STEP.
Proof. intros Hop. apply (ns_arith 0%N OpAdd Hop). step_opc Hop. reflexivity. Qed.
Lemma ns_1 : opcode_at P ip0 = 1%N -> no_stop STEP.
Proof. intros Hop. apply (ns_arith 1%N OpSub Hop). step_opc Hop. reflexivity. Qed.
Lemma ns_2 : opcode_at P ip0 = 2%N -> no_stop STEP.
Proof. intros Hop. apply (ns_arith 2%N OpMul Hop). step_opc Hop. reflexivity. Qed.
Lemma ns_3 : opcode_at P ip0 = 3%N -> no_stop STEP.
Proof.
  intros Hop. step_opc Hop. apply binary_op_no_stop; [exact Hcl|]. intros h a b _ _. apply div_op_ok.
Qed.

Lemma ns_bool : forall f, no_stop (binary_op (ip0 + 1) s (bool_op F f)).
Proof. intros f. apply binary_op_no_stop; [exact Hcl|]. intros h a b _ _. apply bool_op_ok. Qed.
Lemma ns_24 : opcode_at P ip0 = 24%N -> no_stop STEP.
Proof. intros Hop. step_opc Hop. apply ns_bool. Qed.
Lemma ns_25 : opcode_at P ip0 = 25%N -> no_stop STEP.
Proof. intros Hop. step_opc Hop. apply ns_bool. Qed.
Lemma ns_26 : opcode_at P ip0 = 26%N -> no_stop STEP.
Proof. intros Hop. step_opc Hop. apply ns_bool. Qed.

(* comparisons *)
Lemma cmp_pre : forall k, opcode_at P ip0 = k -> In k [12; 13; 14; 15]%N ->
  ~ (is_obj (top1 s) = true /\ is_obj (top2 s) = true).
Proof. intros k Hk Hin. apply (sp_cmp P ip0 s Hpre). rewrite Hk. exact Hin. Qed.

Lemma ns_eq : forall k neg, opcode_at P ip0 = k -> In k [12; 13; 14; 15]%N ->
  no_stop (binary_op (ip0 + 1) s (eq_op F neg)).
Proof.
  intros k neg Hk Hin. apply binary_op_no_stop; [exact Hcl|]. intros h a b -> -> _ _.
  apply eq_op_ok. exact (cmp_pre k Hk Hin).
Qed.
Lemma ns_less : forall k or_eq, opcode_at P ip0 = k -> In k [12; 13; 14; 15]%N ->
  no_stop (binary_op (ip0 + 1) s (less_op F or_eq)).
Proof.
  intros k or_eq Hk Hin. apply binary_op_no_stop; [exact Hcl|]. intros h a b -> -> Ha Hb.
  apply less_op_ok; [exact Ha | exact Hb | exact (cmp_pre k Hk Hin)].
Qed.
Lemma ns_12 : opcode_at P ip0 = 12%N -> no_stop STEP.
Proof. intros Hop. pose proof Hop as Hk. step_opc Hop. apply (ns_eq 12%N false Hk). cbn [In]. tauto. Qed.
Lemma ns_13 : opcode_at P ip0 = 13%N -> no_stop STEP.
Proof. intros Hop. pose proof Hop as Hk. step_opc Hop. apply (ns_eq 13%N true Hk). cbn [In]. tauto. Qed.
Lemma ns_14 : opcode_at P ip0 = 14%N -> no_stop STEP.
Proof. intros Hop. pose proof Hop as Hk. step_opc Hop. apply (ns_less 14%N false Hk). cbn [In]. tauto. Qed.
Lemma ns_15 : opcode_at P ip0 = 15%N -> no_stop STEP.
Proof. intros Hop. pose proof Hop as Hk. step_opc Hop. apply (ns_less 15%N true Hk). cbn [In]. tauto. Qed.

(* pushes of constants / copies; Exit; Pop *)
Lemma ns_5 : opcode_at P ip0 = 5%N -> no_stop STEP.
Proof.
  intros Hop. destruct (operands_8 _ Hop ltac:(vm_compute; discriminate)) as [x E].
  step_opc Hop. unfold i_5. rewrite E. crush.
Qed.
Lemma ns_6 : opcode_at P ip0 = 6%N -> no_stop STEP.
Proof.
  intros Hop. destruct (operands_8 _ Hop ltac:(vm_compute; discriminate)) as [x E].
  step_opc Hop. unfold i_6. rewrite E. crush.
Qed.
Lemma ns_7 : opcode_at P ip0 = 7%N -> no_stop STEP.
Proof. intros Hop. step_opc Hop. crush. Qed.
Lemma ns_9 : opcode_at P ip0 = 9%N -> no_stop STEP.
Proof. intros Hop. step_opc Hop. crush. Qed.
Lemma ns_10 : opcode_at P ip0 = 10%N -> no_stop STEP.
Proof. intros Hop. step_opc Hop. crush. Qed.
Lemma ns_16 : opcode_at P ip0 = 16%N -> no_stop STEP.
Proof. intros Hop. step_opc Hop. crush. Qed.
Lemma ns_31 : opcode_at P ip0 = 31%N -> no_stop STEP.
Proof. intros Hop. step_opc Hop. unfold i_31. crush. Qed.

(* string literal / native function pointer *)
Lemma ns_8 : opcode_at P ip0 = 8%N -> no_stop STEP.
Proof.
  intros Hop. pose proof Hop as Hk. step_opc Hop. unfold i_8. op4 Hk.
  pose proof (read_str_no_panic x (p_data P)). destruct (read_str x (p_data P)); try congruence; crush.
Qed.
Lemma ns_38 : opcode_at P ip0 = 38%N -> no_stop STEP.
Proof.
  intros Hop. pose proof Hop as Hk. step_opc Hop. unfold i_38. op4 Hk.
  pose proof (read_str_no_panic x (p_data P)). destruct (read_str x (p_data P)); try congruence; crush.
Qed.

(* variables *)
Lemma ns_17 : opcode_at P ip0 = 17%N -> no_stop STEP.
Proof. intros Hop. pose proof Hop as Hk. step_opc Hop. unfold i_17. op4 Hk. crush. Qed.
Lemma ns_18 : opcode_at P ip0 = 18%N -> no_stop STEP.
Proof. intros Hop. pose proof Hop as Hk. step_opc Hop. unfold i_18. op4 Hk. crush. Qed.
Lemma ns_19 : opcode_at P ip0 = 19%N -> no_stop STEP.
Proof.
  intros Hop. pose proof Hop as Hk. step_opc Hop. unfold i_19. op4 Hk.
  destruct (top_offset_some s Hcalls) as [off ->]. crush.
Qed.
Lemma ns_20 : opcode_at P ip0 = 20%N -> no_stop STEP.
Proof.
  intros Hop. pose proof Hop as Hk. step_opc Hop. unfold i_20. op4 Hk.
  destruct (top_offset_some s Hcalls) as [off ->]. crush.
Qed.
Lemma ns_21 : opcode_at P ip0 = 21%N -> no_stop STEP.
Proof.
  intros Hop. step_opc Hop. unfold i_21. destruct (top_offset_some s Hcalls) as [off ->]. crush.
Qed.

(* SwapLast *)
Lemma ns_23 : opcode_at P ip0 = 23%N -> no_stop STEP.
Proof.
  intros Hop. step_opc Hop. unfold i_23.
  destruct (sp_stack P ip0 s Hpre) as [Hinv Hcap].
  destruct (spop s) as [s1 b] eqn:E1. destruct (spop s1) as [s2 a] eqn:E2.
  destruct (spop_inv s s1 b E1 Hcl) as (_ & Hcl1 & _ & _ & _ & Hl1 & Hn1).
  destruct (spop_inv s1 s2 a E2 Hcl1) as (_ & _ & _ & _ & _ & Hl2 & Hn2).
  destruct (spush_some s2 b) as (s3 & -> & Hn3 & Hl3); [lia|].
  destruct (spush_some s3 a) as (s4 & -> & _); [lia|]. exact I.
Qed.

(* Not, jumps *)
Lemma ns_27 : opcode_at P ip0 = 27%N -> no_stop STEP.
Proof.
  intros Hop. step_opc Hop. unfold i_27. destruct (spop s) as [s1 v] eqn:E1.
  destruct (spop_inv s s1 v E1 Hcl) as (Hv & _).
  destruct (as_bool_some (st_heap s1) v Hv) as [b ->]. crush.
Qed.

Lemma jump_pre : forall k raw, opcode_at P ip0 = k -> In k [28; 29; 30]%N ->
  op_u32 P (ip0 + 1) = Some raw -> exists t, jump_target bld raw = JTo t.
Proof.
  intros k raw Hk Hin E. apply jump_target_some. apply (sp_jump P ip0 s Hpre); [rewrite Hk; exact Hin | exact E].
Qed.

Lemma ns_28 : opcode_at P ip0 = 28%N -> no_stop STEP.
Proof.
  intros Hop. pose proof Hop as Hk. step_opc Hop. unfold i_28.
  destruct (operands_4 _ Hk ltac:(vm_compute; discriminate)) as [raw E]. rewrite E.
  destruct (jump_pre 28%N raw Hk ltac:(cbn [In]; tauto) E) as [t ->]. exact I.
Qed.

Lemma ns_29_30 : forall k, opcode_at P ip0 = k -> In k [29; 30]%N ->
  no_stop (i_29_30 F bld P k ip0 (ip0 + 1) s).
Proof.
  intros k Hk Hin. unfold i_29_30. destruct (spop s) as [s1 c] eqn:E1.
  destruct (spop_inv s s1 c E1 Hcl) as (Hv & _).
  assert (Hl : (4 <= operand_len k)%N) by (destruct Hin as [<-|[<-|[]]]; vm_compute; discriminate).
  destruct (operands_4 _ Hk Hl) as [raw E]. rewrite E.
  assert (Hin' : In k [28; 29; 30]%N) by (cbn [In] in *; tauto).
  destruct (jump_pre k raw Hk Hin' E) as [t ->].
  destruct (as_bool_some (st_heap s1) c Hv) as [b ->]. exact I.
Qed.
Lemma ns_29 : opcode_at P ip0 = 29%N -> no_stop STEP.
Proof. intros Hop. pose proof Hop as Hk. step_opc Hop. apply ns_29_30; [exact Hk | cbn [In]; tauto]. Qed.
Lemma ns_30 : opcode_at P ip0 = 30%N -> no_stop STEP.
Proof. intros Hop. pose proof Hop as Hk. step_opc Hop. apply ns_29_30; [exact Hk | cbn [In]; tauto]. Qed.

(* Len *)
Lemma ns_34 : opcode_at P ip0 = 34%N -> no_stop STEP.
Proof.
  intros Hop. step_opc Hop. unfold i_34. destruct (spop s) as [s1 v] eqn:E1.
  destruct (spop_inv s s1 v E1 Hcl) as (Hv & _).
  destruct v; try apply push_next_no_stop.
  destruct (vobj_len_some (st_heap s1) a Hv) as [l ->]. apply push_next_no_stop.
Qed.

(* FunctionPointer / Closure *)
Lemma ns_37_42 : forall k, opcode_at P ip0 = k -> (8 <= operand_len k)%N ->
  no_stop (i_37_42 P k ip0 (ip0 + 1) s).
Proof.
  intros k Hk Hl. unfold i_37_42.
  destruct (operands_4 _ Hk ltac:(lia)) as [h ->].
  destruct (operands_at k 4%N Hk ltac:(lia)) as [ar ->]. crush.
Qed.
Lemma ns_37 : opcode_at P ip0 = 37%N -> no_stop STEP.
Proof. intros Hop. pose proof Hop as Hk. step_opc Hop. apply ns_37_42; [exact Hk | vm_compute; discriminate]. Qed.
Lemma ns_42 : opcode_at P ip0 = 42%N -> no_stop STEP.
Proof. intros Hop. pose proof Hop as Hk. step_opc Hop. apply ns_37_42; [exact Hk | vm_compute; discriminate]. Qed.

(* CallFunction of a script function or closure *)
Lemma ns_11 : opcode_at P ip0 = 11%N -> no_stop STEP.
Proof.
  intros Hop. pose proof (sp_call P ip0 s Hpre Hop) as Hnat. unfold top1 in Hnat.
  step_opc Hop. unfold i_11. revert Hnat.
  destruct (spop s) as [s1 fv] eqn:E1. cbn [snd]. intros Hnat.
  destruct (spop_inv s s1 fv E1 Hcl) as (Hv & _ & Hh & Hca & _).
  destruct fv as [| z | r | a]; try exact I.
  cbn [val_ok] in Hv. specialize (Hnat a). rewrite <- Hh in Hnat.
  destruct (hget (st_heap s1) a) as [o|]; [|congruence].
  destruct o; cbv zeta; try exact I.
  - destruct (st_calls s1) eqn:Ec; [exfalso; apply Hcalls; rewrite <- Hca; reflexivity|]. crush.
  - exfalso. apply (Hnat h eq_refl). reflexivity.
  - destruct (st_calls s1) eqn:Ec; [exfalso; apply Hcalls; rewrite <- Hca; reflexivity|]. crush.
Qed.

(* Return / CloseUpvalue without open upvalues *)
Lemma ns_22 : opcode_at P ip0 = 22%N -> no_stop STEP.
Proof.
  intros Hop. assert (Hopen : st_open s = None).
  { apply (sp_open P ip0 s Hpre). rewrite Hop. cbn [In]. tauto. }
  step_opc Hop. unfold i_22. clear Hcalls.
  destruct (st_calls s) as [|fr rest]; [exact I|]. cbv zeta.
  rewrite close_upvalues_none by exact Hopen. crush.
Qed.
Lemma ns_46 : opcode_at P ip0 = 46%N -> no_stop STEP.
Proof.
  intros Hop. assert (Hopen : st_open s = None).
  { apply (sp_open P ip0 s Hpre). rewrite Hop. cbn [In]. tauto. }
  pose proof Hop as Hk. step_opc Hop. unfold i_46.
  destruct (operands_4 _ Hk ltac:(vm_compute; discriminate)) as [idx ->].
  destruct (top_offset_some s Hcalls) as [off ->]. cbv zeta.
  rewrite close_upvalues_none by exact Hopen. exact I.
Qed.

(* BeginForEach *)
Lemma slast_ok : val_ok (st_heap s) (slast s).
Proof. unfold slast, vs_last. destruct (0 <? vcount (st_stack s)); [apply Hcl | exact I]. Qed.

Lemma ns_35 : opcode_at P ip0 = 35%N -> no_stop STEP.
Proof.
  intros Hop. pose proof Hop as Hk. step_opc Hop. unfold i_35.
  destruct (operands_at 35%N 0%N Hk ltac:(vm_compute; discriminate)) as [x0 E0].
  rewrite N.add_0_r in E0. rewrite E0.
  destruct (operands_at 35%N 4%N Hk ltac:(vm_compute; discriminate)) as [x1 ->].
  destruct (operands_at 35%N 8%N Hk ltac:(vm_compute; discriminate)) as [x2 ->].
  assert (E3 : exists x, op_u32 P (ip0 + 1 + 8 + 4) = Some x).
  { apply op_u32_some. pose proof (sp_operands P ip0 s Hpre) as H. rewrite Hk in H.
    change (operand_len 35) with 20%N in H. lia. }
  assert (E4 : exists x, op_u32 P (ip0 + 1 + 8 + 8) = Some x).
  { apply op_u32_some. pose proof (sp_operands P ip0 s Hpre) as H. rewrite Hk in H.
    change (operand_len 35) with 20%N in H. lia. }
  destruct E3 as [x3 ->]. destruct E4 as [x4 ->]. cbv zeta.
  pose proof slast_ok as Hv. unfold get_table.
  destruct (slast s) as [| z | r | a]; try exact I.
  cbn [val_ok] in Hv. destruct (hget (st_heap s) a) as [o|]; [|congruence].
  destruct o; try exact I.
  destruct (top_offset_some s Hcalls) as [off ->]. crush.
Qed.

End Opcodes.

Theorem step_no_abort_partial : forall ip0 s,
  step_pre P ip0 s -> In (opcode_at P ip0) covered_opcodes ->
  forall a s', step F bld P reenter ip0 s <> SStop a s'.
Proof.
  intros ip0 s Hpre Hin. apply no_stop_neq.
  unfold covered_opcodes in Hin. cbn [In] in Hin.
  repeat (destruct Hin as [Hin|Hin]; [symmetry in Hin|]); try contradiction.
  all: first
    [ apply ns_0; assumption | apply ns_1; assumption | apply ns_2; assumption | apply ns_3; assumption
    | apply ns_5; assumption | apply ns_6; assumption | apply ns_7; assumption | apply ns_8; assumption
    | apply ns_9; assumption | apply ns_10; assumption | apply ns_11; assumption | apply ns_12; assumption
    | apply ns_13; assumption | apply ns_14; assumption | apply ns_15; assumption | apply ns_16; assumption
    | apply ns_17; assumption | apply ns_18; assumption | apply ns_19; assumption | apply ns_20; assumption
    | apply ns_21; assumption | apply ns_22; assumption | apply ns_23; assumption | apply ns_24; assumption
    | apply ns_25; assumption | apply ns_26; assumption | apply ns_27; assumption | apply ns_28; assumption
    | apply ns_29; assumption | apply ns_30; assumption | apply ns_31; assumption | apply ns_34; assumption
    | apply ns_35; assumption | apply ns_37; assumption | apply ns_38; assumption | apply ns_42; assumption
    | apply ns_46; assumption ].
Qed.

End PartB.

(* ------------------------------------------------------------------ *)
(* The invariant is needed and is satisfiable                          *)
(* ------------------------------------------------------------------ *)

(* valid_opcode is necessary: a byte above 46 (or an instruction pointer behind the code, read as 255) is the
   transmute of an invalid discriminant *)
Theorem invalid_opcode_is_ub : forall F bld P reenter ip0 s,
  (46 < opcode_at P ip0)%N -> step F bld P reenter ip0 s = SStop AUB s.
Proof.
  intros F bld P reenter ip0 s H. unfold step. cbv zeta. unfold opcode_at in H.
  destruct (nth (N.to_nat ip0) (p_code P) 255%N) as [|p]; [lia|].
  do 6 (try destruct p as [p|p|]); try lia; reflexivity.
Qed.

(* calls_nonempty is necessary: ReadLocalVar with an empty call stack is the "Call stack was empty" panic *)
Theorem empty_call_stack_panics : forall F bld P reenter ip0 s,
  opcode_at P ip0 = 20%N -> (ip0 + 1 + 4 <= code_len P)%N -> st_calls s = [] ->
  step F bld P reenter ip0 s = SStop APanic s.
Proof.
  intros F bld P reenter ip0 s Hop Hl Hc. step_opc Hop. unfold i_20, op_u32, read_le.
  unfold code_len in Hl. change (N.of_nat 4) with 4%N. apply N.leb_le in Hl. rewrite Hl.
  unfold top_offset. rewrite Hc. reflexivity.
Qed.

(* step_pre holds of the state in which `run` dispatches the first instruction of a program (new Vm, entry
   frame pushed), for every covered opcode without operands that needs no opcode-specific condition *)
Lemma fresh_stack_closed : forall calls, stack_closed (set_calls fresh_state calls).
Proof.
  intros calls i. cbn [set_calls fresh_state st_stack st_heap vs_new vdata].
  replace (nth i (repeat VNil stack_size) VNil) with VNil; [exact I|].
  symmetry. generalize stack_size. intros n. revert i. induction n as [|n IH]; intros [|i]; cbn [repeat nth]; auto.
Qed.

Theorem step_pre_entry_state : forall P,
  (0 < code_len P)%N -> In (opcode_at P 0) [7; 9; 10; 16; 21; 23; 31; 34]%N ->
  step_pre P 0 (set_calls fresh_state [mkFrame 0 0 0 None]).
Proof.
  intros P Hl Hin.
  assert (Hop : operand_len (opcode_at P 0) = 0%N /\
                ~ In (opcode_at P 0) [28; 29; 30]%N /\ ~ In (opcode_at P 0) [12; 13; 14; 15]%N /\
                opcode_at P 0 <> 11%N /\ ~ In (opcode_at P 0) [22; 46]%N).
  { cbn [In] in Hin. repeat (destruct Hin as [Hin|Hin]; [rewrite <- Hin|]); try contradiction;
      (split; [reflexivity|]); cbn [In]; repeat split; intros H; repeat (destruct H as [H|H]; try discriminate H);
      try discriminate H; try contradiction. }
  destruct Hop as (H0 & Hj & Hc & Hcall & Ho).
  constructor.
  - rewrite H0. lia.
  - cbn [st_calls set_calls]. discriminate.
  - cbn [set_calls fresh_state st_stack vs_new vdata vcount]. rewrite repeat_length. unfold stack_size. lia.
  - apply fresh_stack_closed.
  - intros H. contradiction.
  - intros H. contradiction.
  - intros H. contradiction.
  - intros H. contradiction.
Qed.
