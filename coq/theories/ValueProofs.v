(* Laws of value equality, hashing and ordering (model: Value.v), for all acyclic values. *)
From Coq Require Import ZArith NArith List Bool Lia.
From Coq Require Import Floats.SpecFloat.
From Flocq Require Import IEEE754.Binary IEEE754.Bits.
From Flocq Require IEEE754.BinarySingleNaN.
From Cao Require Import CheckUtil Bits Value.
Import ListNotations.

(* ------------------------------------------------------------------ *)
(* nested induction principle: the entries of a table satisfy P *)
Section TvalInd.
  Variable P : tval -> Prop.
  Hypothesis HNil : P TNil.
  Hypothesis HInt : forall z, P (TInt z).
  Hypothesis HReal : forall f, P (TReal f).
  Hypothesis HStr : forall bs, P (TStr bs).
  Hypothesis HTable : forall l, Forall (fun kv => P (fst kv) /\ P (snd kv)) l -> P (TTable l).
  Hypothesis HFn : forall h a, P (TFn h a).
  Hypothesis HNative : forall h, P (TNative h).
  Hypothesis HClosure : forall i h a, P (TClosure i h a).

  Fixpoint tval_ind' (a : tval) : P a :=
    match a with
    | TNil => HNil
    | TInt z => HInt z
    | TReal f => HReal f
    | TStr bs => HStr bs
    | TTable l =>
        HTable l
          ((fix go (l : list (tval * tval)) : Forall (fun kv => P (fst kv) /\ P (snd kv)) l :=
              match l with
              | [] => Forall_nil _
              | (k, v) :: r => Forall_cons (k, v) (conj (tval_ind' k) (tval_ind' v)) (go r)
              end) l)
    | TFn h a => HFn h a
    | TNative h => HNative h
    | TClosure i h a => HClosure i h a
    end.
End TvalInd.

(* ------------------------------------------------------------------ *)
(* the nested fixpoints as list functions *)
Definition self_entry (kv : tval * tval) : bool := if tself (fst kv) then tself (snd kv) else true.

Lemma tself_table l : tself (TTable l) = forallb self_entry l.
Proof.
  cbn [tself]. induction l as [|[k v] r IH]; [reflexivity|].
  cbn [forallb]. rewrite <- IH. reflexivity.
Qed.

(* zip (stopping at the shorter list) and compare *)
Fixpoint all2 (l1 l2 : list (tval * tval)) : bool :=
  match l1, l2 with
  | (k1, v1) :: r1, (k2, v2) :: r2 => teq k1 k2 && teq v1 v2 && all2 r1 r2
  | _, _ => true
  end.

Fixpoint zipvis (l1 l2 : list (tval * tval)) {struct l1} : bool :=
  match l1 with
  | [] => true
  | (k1, v1) :: r1 =>
      if tself k1 then
        (fix go2 (l2 : list (tval * tval)) : bool :=
           match l2 with
           | [] => true
           | (k2, v2) :: r2 =>
               if tself k2 then teq k1 k2 && teq v1 v2 && zipvis r1 r2
               else go2 r2
           end) l2
      else zipvis r1 l2
  end.

Lemma teq_table_zipvis l1 l2 :
  teq (TTable l1) (TTable l2) = Nat.eqb (length l1) (length l2) && zipvis l1 l2.
Proof. reflexivity. Qed.

Lemma zipvis_all2 l1 l2 : zipvis l1 l2 = all2 (tvis l1) (tvis l2).
Proof.
  revert l2. induction l1 as [|[k1 v1] r1 IH]; intros l2; [reflexivity|].
  cbn [zipvis]. unfold tvis at 1. cbn [filter fst]. fold (tvis r1).
  destruct (tself k1) eqn:E1; [|apply IH].
  induction l2 as [|[k2 v2] r2 IH2]; [reflexivity|].
  unfold tvis at 2. cbn [filter fst]. fold (tvis r2).
  destruct (tself k2) eqn:E2.
  - cbn [all2]. rewrite IH. reflexivity.
  - rewrite IH2. unfold tvis at 3. reflexivity.
Qed.

Lemma teq_table l1 l2 :
  teq (TTable l1) (TTable l2) = Nat.eqb (length l1) (length l2) && all2 (tvis l1) (tvis l2).
Proof. rewrite teq_table_zipvis, zipvis_all2. reflexivity. Qed.

Definition entry_bytes (kv : tval * tval) : list N := thash_bytes (fst kv) ++ thash_bytes (snd kv).

Lemma thash_bytes_table l : thash_bytes (TTable l) = flat_map entry_bytes (tvis l).
Proof.
  cbn [thash_bytes]. induction l as [|[k v] r IH]; [reflexivity|].
  rewrite IH. unfold tvis. cbn [filter fst]. destruct (tself k); reflexivity.
Qed.

Lemma tall_table p l :
  tall p (TTable l) = p (TTable l) && forallb (fun kv => tall p (fst kv) && tall p (snd kv)) l.
Proof.
  cbn [tall]. f_equal. induction l as [|[k v] r IH]; [reflexivity|].
  cbn [forallb fst snd]. rewrite <- IH. reflexivity.
Qed.

(* ------------------------------------------------------------------ *)
(* float laws, proved on spec_float directly (valid or not), hence for every binary64 *)
Lemma SFcompare_swap x y : SFcompare y x = opp_oc (SFcompare x y).
Proof.
  destruct x as [sx|sx| |sx mx ex], y as [sy|sy| |sy my ey]; cbn;
    try destruct sx; try destruct sy; try reflexivity.
  - rewrite (Z.compare_antisym ey ex). destruct (ey ?= ex)%Z; cbn; try reflexivity.
    change (Pos.compare_cont Eq mx my) with (Pos.compare mx my).
    change (Pos.compare_cont Eq my mx) with (Pos.compare my mx).
    rewrite (Pos.compare_antisym my mx). destruct (my ?= mx)%positive; reflexivity.
  - rewrite (Z.compare_antisym ey ex). destruct (ey ?= ex)%Z; cbn; try reflexivity.
    change (Pos.compare_cont Eq mx my) with (Pos.compare mx my).
    change (Pos.compare_cont Eq my mx) with (Pos.compare my mx).
    rewrite (Pos.compare_antisym my mx). destruct (my ?= mx)%positive; reflexivity.
Qed.

Lemma SFcompare_refl x : sf_is_nan x = false -> SFcompare x x = Some Eq.
Proof.
  destruct x as [s|s| |s m e]; cbn; intros H; try discriminate; try (destruct s; reflexivity).
  destruct s; rewrite Z.compare_refl, Pos.compare_refl; reflexivity.
Qed.

(* IEEE equality: both zero (any signs), or the same non-NaN datum *)
Lemma SFcompare_Eq_cases x y :
  SFcompare x y = Some Eq ->
  (sf_is_zero x = true /\ sf_is_zero y = true) \/ (x = y /\ sf_is_nan x = false /\ sf_is_zero x = false).
Proof.
  destruct x as [sx|sx| |sx mx ex], y as [sy|sy| |sy my ey]; cbn; intros H; try discriminate;
    try (left; split; reflexivity);
    try (destruct sx; discriminate); try (destruct sy; discriminate).
  - right. destruct sx, sy; try discriminate; repeat split; reflexivity.
  - right. inversion H as [H']; clear H.
    change (Pos.compare_cont Eq mx my) with (Pos.compare mx my) in H'.
    destruct sx, sy; try discriminate;
      destruct (ex ?= ey)%Z eqn:E; try discriminate;
      destruct (Pos.compare mx my) eqn:M; try discriminate;
      apply Z.compare_eq in E; apply Pos.compare_eq in M; subst; repeat split; reflexivity.
Qed.

Lemma SFeqb_sym x y : SFeqb x y = SFeqb y x.
Proof. unfold SFeqb. rewrite (SFcompare_swap y x). destruct (SFcompare y x) as [[]|]; reflexivity. Qed.

Lemma SFeqb_refl x : SFeqb x x = negb (sf_is_nan x).
Proof.
  destruct (sf_is_nan x) eqn:E.
  - destruct x; try discriminate. reflexivity.
  - unfold SFeqb. rewrite SFcompare_refl by exact E. reflexivity.
Qed.

Lemma SFeqb_true x y : SFeqb x y = true -> SFcompare x y = Some Eq.
Proof. unfold SFeqb. destruct (SFcompare x y) as [[]|]; intros; try discriminate; reflexivity. Qed.

Lemma SFcompare_zero_zero x y : sf_is_zero x = true -> sf_is_zero y = true -> SFcompare x y = Some Eq.
Proof. destruct x, y; cbn; intros; try discriminate; reflexivity. Qed.

Lemma SFeqb_trans x y z : SFeqb x y = true -> SFeqb y z = true -> SFeqb x z = true.
Proof.
  intros H1 H2. apply SFeqb_true in H1. apply SFeqb_true in H2.
  unfold SFeqb.
  destruct (SFcompare_Eq_cases _ _ H1) as [[Zx Zy]|[E [_ Nz]]];
    destruct (SFcompare_Eq_cases _ _ H2) as [[Zy' Zz]|[E' [_ Nz']]]; subst.
  - rewrite (SFcompare_zero_zero _ _ Zx Zz). reflexivity.
  - congruence.
  - congruence.
  - rewrite H2. reflexivity.
Qed.

(* the datum determines the bit pattern, NaNs aside *)
Lemma sf_inj_bits (f g : f64) : sf f = sf g -> sf_is_nan (sf f) = false -> f64_bits f = f64_bits g.
Proof.
  unfold sf, f64_bits, bits_of_b64, bits_of_binary_float.
  destruct f as [s|s|s pl H|s m e H], g as [s'|s'|s' pl' H'|s' m' e' H']; cbn [B2SF]; intros E N;
    try discriminate; try (inversion E; subst; reflexivity).
Qed.

(* connection with Flocq's comparison on binary64 *)
Lemma SFcompare_Bcompare (f g : f64) : SFcompare (sf f) (sf g) = Bcompare 53 1024 f g.
Proof.
  unfold Bcompare, BinarySingleNaN.Bcompare, sf. rewrite !B2SF_B2BSN. reflexivity.
Qed.

(* ------------------------------------------------------------------ *)
(* list helpers *)
Lemma Forall_filter' {A} (P : A -> Prop) f l : Forall P l -> Forall P (filter f l).
Proof.
  induction 1 as [|x l Hx Hl IH]; cbn; [constructor|]. destruct (f x); [constructor|]; assumption.
Qed.

Lemma filter_length_le' {A} (f : A -> bool) l : length (filter f l) <= length l.
Proof. induction l as [|x l IH]; cbn; [lia|]. destruct (f x); cbn; lia. Qed.

Lemma list_eqb_N_eq a b : list_eqb N.eqb a b = true <-> a = b.
Proof. apply list_eqb_spec. intros x y. apply N.eqb_eq. Qed.

Lemma list_eqb_N_sym a b : list_eqb N.eqb a b = list_eqb N.eqb b a.
Proof.
  destruct (list_eqb N.eqb a b) eqn:E.
  - apply list_eqb_N_eq in E. subst. symmetry. apply list_eqb_N_eq. reflexivity.
  - destruct (list_eqb N.eqb b a) eqn:E'; [|reflexivity].
    apply list_eqb_N_eq in E'. subst. rewrite (proj2 (list_eqb_N_eq a a) eq_refl) in E. discriminate.
Qed.

(* ------------------------------------------------------------------ *)
(* symmetry *)
Definition sym_at (a : tval) : Prop := forall b, teq a b = teq b a.

Lemma all2_sym m1 : Forall (fun kv => sym_at (fst kv) /\ sym_at (snd kv)) m1 ->
  forall m2, all2 m1 m2 = all2 m2 m1.
Proof.
  induction 1 as [|[k1 v1] r1 [Hk Hv] _ IH]; intros [|[k2 v2] r2]; cbn [all2]; try reflexivity.
  cbn [fst snd] in Hk, Hv. rewrite Hk, Hv, IH. reflexivity.
Qed.

Theorem teq_sym : forall a b, teq a b = teq b a.
Proof.
  intros a. change (sym_at a). induction a using tval_ind'; intros b; destruct b; try reflexivity.
  - cbn. apply Z.eqb_sym.
  - cbn. apply SFeqb_sym.
  - cbn. apply list_eqb_N_sym.
  - rewrite !teq_table. rewrite Nat.eqb_sym. f_equal.
    apply all2_sym. apply Forall_filter'. assumption.
  - cbn. rewrite (N.eqb_sym h), (N.eqb_sym a). reflexivity.
  - cbn. apply N.eqb_sym.
  - cbn. apply N.eqb_sym.
Qed.

(* ------------------------------------------------------------------ *)
(* a == a is exactly the visibility test; reflexivity off NaN *)
Lemma all2_diag m : all2 m m = forallb (fun kv => teq (fst kv) (fst kv) && teq (snd kv) (snd kv)) m.
Proof. induction m as [|[k v] r IH]; cbn [all2 forallb fst snd]; [reflexivity|]. rewrite IH. reflexivity. Qed.

Theorem teq_self : forall a, teq a a = tself a.
Proof.
  induction a using tval_ind'; try reflexivity.
  - cbn. apply Z.eqb_refl.
  - cbn. apply SFeqb_refl.
  - cbn. apply list_eqb_N_eq. reflexivity.
  - rewrite teq_table, tself_table, Nat.eqb_refl, all2_diag. cbn [andb].
    induction H as [|[k v] r [Hk Hv] _ IH]; [reflexivity|].
    cbn [fst snd] in Hk, Hv. unfold tvis. cbn [filter fst forallb]. unfold self_entry at 1. cbn [fst snd].
    destruct (tself k) eqn:E.
    + cbn [forallb fst snd]. rewrite Hk, Hv. cbn [andb]. f_equal. apply IH.
    + apply IH.
  - cbn. rewrite !N.eqb_refl. reflexivity.
  - cbn. apply N.eqb_refl.
  - cbn. apply N.eqb_refl.
Qed.

Lemma no_nan_self : forall a, no_nan a = true -> tself a = true.
Proof.
  unfold no_nan.
  induction a using tval_ind'; intros C; try reflexivity; try discriminate.
  - cbn in C. cbn. rewrite andb_true_r in C. apply C.
  - rewrite tall_table in C. apply andb_true_iff in C. destruct C as [_ C].
    rewrite tself_table.
    induction H as [|[k v] r [Hk Hv] _ IH]; [reflexivity|].
    cbn [fst snd] in Hk, Hv.
    cbn [forallb fst snd] in C |- *. apply andb_true_iff in C. destruct C as [C1 C2].
    apply andb_true_iff in C1. destruct C1 as [Ck Cv].
    unfold self_entry at 1. cbn [fst snd]. rewrite (Hk Ck), (Hv Cv). cbn [andb]. apply IH, C2.
Qed.

Theorem teq_refl : forall a, no_nan a = true -> teq a a = true.
Proof. intros a C. rewrite teq_self. apply no_nan_self, C. Qed.

(* in a table without NaN every entry is visible *)
Lemma no_nan_entries l : no_nan (TTable l) = true ->
  Forall (fun kv => no_nan (fst kv) = true /\ no_nan (snd kv) = true) l.
Proof.
  unfold no_nan. rewrite tall_table. intros C. apply andb_true_iff in C. destruct C as [_ C].
  rewrite forallb_forall in C. apply Forall_forall. intros kv Hin.
  specialize (C kv Hin). apply andb_true_iff in C. exact C.
Qed.

Lemma no_nan_tvis l : no_nan (TTable l) = true -> tvis l = l.
Proof.
  intros C. apply no_nan_entries in C. unfold tvis.
  induction C as [|kv r [Ck _] _ IH]; [reflexivity|].
  cbn [filter]. rewrite (no_nan_self _ Ck), IH. reflexivity.
Qed.

(* ------------------------------------------------------------------ *)
(* transitivity: the middle value must be free of NaN (see [teq_trans_nan_refuted]) *)
Definition trans_at (b : tval) : Prop :=
  no_nan b = true -> forall a c, teq a b = true -> teq b c = true -> teq a c = true.

Lemma all2_trans mb :
  Forall (fun kv => (trans_at (fst kv) /\ trans_at (snd kv)) /\
                    (no_nan (fst kv) = true /\ no_nan (snd kv) = true)) mb ->
  forall ma mc, length ma <= length mb -> length mc <= length mb ->
    all2 ma mb = true -> all2 mb mc = true -> all2 ma mc = true.
Proof.
  induction 1 as [|[kb vb] rb [[Tk Tv] [Ck Cv]] _ IH]; intros ma mc La Lc Hab Hbc.
  - destruct ma; [reflexivity|cbn in La; lia].
  - destruct ma as [|[ka va] ra]; [reflexivity|].
    destruct mc as [|[kc vc] rc]; [reflexivity|].
    cbn [all2 fst snd length] in *.
    apply andb_true_iff in Hab. destruct Hab as [Hab Hab3].
    apply andb_true_iff in Hab. destruct Hab as [Hab1 Hab2].
    apply andb_true_iff in Hbc. destruct Hbc as [Hbc Hbc3].
    apply andb_true_iff in Hbc. destruct Hbc as [Hbc1 Hbc2].
    rewrite (Tk Ck ka kc Hab1 Hbc1), (Tv Cv va vc Hab2 Hbc2). cbn [andb].
    apply IH; try assumption; lia.
Qed.

Theorem teq_trans : forall a b c,
  no_nan b = true -> teq a b = true -> teq b c = true -> teq a c = true.
Proof.
  intros a b c Cb. revert a c. generalize Cb. change (trans_at b). clear Cb.
  induction b using tval_ind'; intros Cb x y Hab Hbc;
    destruct x; try discriminate; destruct y; try discriminate.
  - reflexivity.
  - cbn in *. apply Z.eqb_eq in Hab. apply Z.eqb_eq in Hbc. apply Z.eqb_eq. congruence.
  - cbn in *. eapply SFeqb_trans; eassumption.
  - cbn in *. apply list_eqb_N_eq in Hab. apply list_eqb_N_eq in Hbc. apply list_eqb_N_eq. congruence.
  - rewrite teq_table in *. rewrite (no_nan_tvis _ Cb) in *.
    apply andb_true_iff in Hab. destruct Hab as [L1 A1].
    apply andb_true_iff in Hbc. destruct Hbc as [L2 A2].
    apply Nat.eqb_eq in L1. apply Nat.eqb_eq in L2.
    apply andb_true_iff. split; [apply Nat.eqb_eq; congruence|].
    eapply all2_trans; try eassumption.
    + pose proof (no_nan_entries _ Cb) as CE.
      rewrite Forall_forall in *. intros kv Hin. split; [apply H, Hin|apply CE, Hin].
    + rewrite <- L1. apply filter_length_le'.
    + rewrite L2. apply filter_length_le'.
  - cbn in *. apply andb_true_iff in Hab. destruct Hab as [H1 H2].
    apply andb_true_iff in Hbc. destruct Hbc as [H3 H4].
    apply N.eqb_eq in H1, H2, H3, H4. subst. rewrite !N.eqb_refl. reflexivity.
  - cbn in *. apply N.eqb_eq in Hab, Hbc. subst. apply N.eqb_refl.
  - cbn in *. apply N.eqb_eq in Hab, Hbc. subst. apply N.eqb_refl.
Qed.

(* ------------------------------------------------------------------ *)
(* equal values feed the same bytes to the hasher (signed zero excepted) *)
Lemma tall_entries p l : tall p (TTable l) = true ->
  Forall (fun kv => tall p (fst kv) = true /\ tall p (snd kv) = true) l.
Proof.
  rewrite tall_table. intros C. apply andb_true_iff in C. destruct C as [_ C].
  rewrite forallb_forall in C. apply Forall_forall. intros kv Hin.
  specialize (C kv Hin). apply andb_true_iff in C. exact C.
Qed.

Lemma tclos_table l : tclos (TTable l) = flat_map (fun kv => tclos (fst kv) ++ tclos (snd kv)) l.
Proof.
  cbn [tclos]. induction l as [|[k v] r IH]; [reflexivity|].
  cbn [flat_map fst snd]. rewrite <- IH. reflexivity.
Qed.

Lemma tclos_entries_incl l C : incl (tclos (TTable l)) C ->
  Forall (fun kv => incl (tclos (fst kv)) C /\ incl (tclos (snd kv)) C) l.
Proof.
  rewrite tclos_table. intros H. apply Forall_forall. intros kv Hin.
  split; intros x Hx; apply H; apply in_flat_map; exists kv; (split; [exact Hin|]);
    apply in_or_app; [left|right]; exact Hx.
Qed.

(* [C]: the closure objects around; an id names one object *)
Definition hash_at (a : tval) : Prop :=
  forall b C, teq a b = true -> no_nan a = true -> no_nan b = true -> no_zero_real a = true ->
    coherent C -> incl (tclos a) C -> incl (tclos b) C ->
    thash_bytes a = thash_bytes b.

Lemma flat_map_all2 C ma : coherent C ->
  Forall (fun kv => (hash_at (fst kv) /\ hash_at (snd kv)) /\
                    (no_nan (fst kv) = true /\ no_nan (snd kv) = true) /\
                    (no_zero_real (fst kv) = true /\ no_zero_real (snd kv) = true) /\
                    (incl (tclos (fst kv)) C /\ incl (tclos (snd kv)) C)) ma ->
  forall mb, length ma = length mb ->
    Forall (fun kv => (no_nan (fst kv) = true /\ no_nan (snd kv) = true) /\
                      (incl (tclos (fst kv)) C /\ incl (tclos (snd kv)) C)) mb ->
    all2 ma mb = true -> flat_map entry_bytes ma = flat_map entry_bytes mb.
Proof.
  intros HC.
  induction 1 as [|[ka va] ra [[Hk Hv] [[Ck Cv] [[Zk Zv] [Ik Iv]]]] _ IH]; intros [|[kb vb] rb] L CB A;
    try discriminate; [reflexivity|].
  inversion CB as [|? ? [[Ckb Cvb] [Ikb Ivb]] CB']; subst.
  cbn [all2 fst snd length flat_map] in *.
  apply andb_true_iff in A. destruct A as [A A3]. apply andb_true_iff in A. destruct A as [A1 A2].
  unfold entry_bytes at 1 3. cbn [fst snd].
  rewrite (Hk kb C A1 Ck Ckb Zk HC Ik Ikb), (Hv vb C A2 Cv Cvb Zv HC Iv Ivb). f_equal.
  apply IH; try assumption. lia.
Qed.

Lemma teq_hash_bytes_in : forall a, hash_at a.
Proof.
  induction a using tval_ind'; intros b C E Ca Cb Za HC Ia Ib; destruct b; try discriminate.
  - reflexivity.
  - cbn in E. apply Z.eqb_eq in E. subst. reflexivity.
  - cbn in E. apply SFeqb_true in E. cbn [thash_bytes]. f_equal.
    destruct (SFcompare_Eq_cases _ _ E) as [[Zf _]|[Efg [Nf _]]].
    + cbn in Za. rewrite Zf in Za. discriminate.
    + apply sf_inj_bits; assumption.
  - cbn in E. apply list_eqb_N_eq in E. subst. reflexivity.
  - rewrite teq_table in E. rewrite (no_nan_tvis _ Ca), (no_nan_tvis _ Cb) in E.
    rewrite !thash_bytes_table, (no_nan_tvis _ Ca), (no_nan_tvis _ Cb).
    apply andb_true_iff in E. destruct E as [L A]. apply Nat.eqb_eq in L.
    apply (flat_map_all2 C); try assumption.
    + pose proof (no_nan_entries _ Ca) as CE. pose proof (tall_entries _ _ Za) as ZE.
      pose proof (tclos_entries_incl _ _ Ia) as IE.
      rewrite Forall_forall in *. intros kv Hin. repeat split;
        try apply H; try apply CE; try apply ZE; try apply IE; assumption.
    + pose proof (no_nan_entries _ Cb) as CE. pose proof (tclos_entries_incl _ _ Ib) as IE.
      rewrite Forall_forall in *. intros kv Hin. split; [apply CE|apply IE]; assumption.
  - cbn in E. apply andb_true_iff in E. destruct E as [E1 E2].
    apply N.eqb_eq in E1, E2. subst. reflexivity.
  - cbn in E. apply N.eqb_eq in E. subst. reflexivity.
  - cbn in E. apply N.eqb_eq in E. subst.
    assert (X : (h, a) = (handle, arity)).
    { apply (HC id); [apply Ia|apply Ib]; left; reflexivity. }
    inversion X; subst. reflexivity.
Qed.

(* equal values feed the same bytes to the hasher: no NaN, no signed zero; function objects
   allowed (closure ids naming one object each) *)
Theorem teq_hash_bytes : forall a b,
  teq a b = true -> no_nan a = true -> no_nan b = true -> no_zero_real a = true ->
  coherent (tclos a ++ tclos b) ->
  thash_bytes a = thash_bytes b.
Proof.
  intros a b E Ca Cb Za HC. apply (teq_hash_bytes_in a b (tclos a ++ tclos b)); try assumption.
  - apply incl_appl, incl_refl.
  - apply incl_appr, incl_refl.
Qed.

Theorem teq_hash : forall a b,
  teq a b = true -> no_nan a = true -> no_nan b = true -> no_zero_real a = true ->
  coherent (tclos a ++ tclos b) ->
  thash a = thash b.
Proof. intros. unfold thash. erewrite teq_hash_bytes; eauto. Qed.

(* the executable test of coherence used by the checker *)
Lemma coherentb_correct c : coherentb c = true -> coherent c.
Proof.
  unfold coherentb, coherent. intros H i x y Hx Hy.
  rewrite forallb_forall in H. specialize (H _ Hx). rewrite forallb_forall in H. specialize (H _ Hy).
  cbn [fst snd] in H. rewrite N.eqb_refl in H. apply andb_true_iff in H. destruct H as [H1 H2].
  apply N.eqb_eq in H1, H2. destruct x, y. cbn [fst snd] in *. congruence.
Qed.

(* ------------------------------------------------------------------ *)
(* cmp_int_real (truncation, tie by the fractional part, range guards) is the exact comparison
   by cross-multiplication, for every i64 *)
Section CmpIntReal.
Local Open Scope Z_scope.
Lemma cmp_tie i w (c : comparison) (x y : Z) :
  (i < w -> x < y) -> (i > w -> x > y) -> (i = w -> (x ?= y) = c) ->
  match i ?= w with Eq => c | c' => c' end = (x ?= y).
Proof.
  intros HL HG HE. destruct (Z.compare_spec i w) as [E|L|G].
  - symmetry. apply HE, E.
  - symmetry. apply Z.compare_lt_iff. apply HL, L.
  - symmetry. apply Z.compare_gt_iff. apply Z.gt_lt, HG. lia.
Qed.

Lemma cmp_int_real_exact i x :
  - two63 <= i < two63 -> cmp_int_real i x = Z_cmp_sf i x.
Proof.
  intros Hi.
  destruct x as [s|s| |s m e]; try reflexivity.
  - cbn. destruct (i ?= 0); reflexivity.
  - unfold cmp_int_real, Z_cmp_sf, sf_trunc_frac.
    assert (HT : 0 < two63) by reflexivity. set (T := two63) in *. clearbody T.
    set (v := if s then Z.neg m else Z.pos m).
    destruct e as [|p|p].
    + destruct (Z.leb_spec T v) as [H1|H1].
      { f_equal. symmetry. apply Z.compare_lt_iff. lia. }
      destruct (Z.ltb_spec v (- T)) as [H2|H2]; cbn [orb].
      { f_equal. symmetry. apply Z.compare_gt_iff. lia. }
      rewrite andb_false_r. f_equal. destruct (i ?= v); reflexivity.
    + set (w := v * 2 ^ Z.pos p).
      destruct (Z.leb_spec T w) as [H1|H1].
      { f_equal. symmetry. apply Z.compare_lt_iff. lia. }
      destruct (Z.ltb_spec w (- T)) as [H2|H2]; cbn [orb].
      { f_equal. symmetry. apply Z.compare_gt_iff. lia. }
      rewrite andb_false_r. f_equal. destruct (i ?= w); reflexivity.
    + assert (HP : 0 < 2 ^ Z.pos p) by (apply Z.pow_pos_nonneg; lia).
      set (P := 2 ^ Z.pos p) in *.
      pose proof (Z.div_mod (Z.pos m) P ltac:(lia)) as DM.
      pose proof (Z.mod_pos_bound (Z.pos m) P HP) as RB.
      set (q := Z.pos m / P) in *. set (r := Z.pos m mod P) in *.
      assert (Hq : 0 <= q) by (apply Z.div_pos; lia).
      destruct s; subst v.
      * (* negative *)
        change (Z.neg m) with (- Z.pos m). 
        destruct (Z.leb_spec T (- q)) as [H1|H1]; [lia|].
        destruct (Z.eqb_spec r 0) as [R0|R0].
        -- destruct (Z.ltb_spec (- q) (- T)) as [H2|H2]; cbn [orb].
           { f_equal. symmetry. apply Z.compare_gt_iff. nia. }
           rewrite andb_false_r. f_equal. cbn [CompOpp]. apply cmp_tie; intros; try nia.
           apply Z.compare_eq_iff. nia.
        -- destruct (Z.ltb_spec (- q) (- T)) as [H2|H2]; cbn [orb].
           { f_equal. symmetry. apply Z.compare_gt_iff. nia. }
           destruct (Z.eqb_spec (- q) (- T)) as [H3|H3]; cbn [andb].
           { f_equal. symmetry. apply Z.compare_gt_iff. nia. }
           f_equal. cbn [CompOpp]. apply cmp_tie; intros; try nia.
           apply Z.compare_gt_iff. nia.
      * destruct (Z.leb_spec T q) as [H1|H1].
        { f_equal. symmetry. apply Z.compare_lt_iff. nia. }
        destruct (Z.ltb_spec q (- T)) as [H2|H2]; [lia|]. cbn [orb].
        destruct (Z.eqb_spec q (- T)) as [H3|H3]; [lia|]. cbn [andb].
        f_equal. destruct (Z.eqb_spec r 0) as [R0|R0]; cbn [CompOpp]; apply cmp_tie; intros; try nia.
        -- apply Z.compare_eq_iff. nia.
        -- apply Z.compare_lt_iff. nia.
Qed.
End CmpIntReal.

(* ------------------------------------------------------------------ *)
(* ordering *)
Lemma opp_oc_invol c : opp_oc (opp_oc c) = c.
Proof. destruct c as [[]|]; reflexivity. Qed.

Theorem tcmp_eq_coherent : forall a b,
  teq a b = true -> tcmp a b <> Some Lt /\ tcmp a b <> Some Gt.
Proof.
  intros a b E.
  assert (H : tcmp a b = None \/ tcmp a b = Some Eq).
  { destruct a, b; try discriminate; cbn [tcmp is_real is_int is_obj orb andb to_sf to_i64].
    all: try (right; unfold obj_cmp; rewrite E; reflexivity).
    - left; reflexivity.
    - right. cbn in E. apply Z.eqb_eq in E. subst. rewrite Z.compare_refl. reflexivity.
    - right. cbn in E. apply SFeqb_true, E. }
  destruct H as [H|H]; rewrite H; split; discriminate.
Qed.

Lemma obj_cmp_swap a b : obj_cmp b a = opp_oc (obj_cmp a b).
Proof.
  unfold obj_cmp. rewrite (teq_sym b a). destruct (teq a b); [reflexivity|].
  rewrite (Nat.compare_antisym (tlen a) (tlen b)). destruct (tlen a ?= tlen b); reflexivity.
Qed.

Lemma Zcmp_swap x y : Some (Z.compare y x) = opp_oc (Some (Z.compare x y)).
Proof. cbn [opp_oc]. rewrite (Z.compare_antisym x y). reflexivity. Qed.

(* PartialOrd is anti-symmetric in the strong sense: swapping the operands mirrors the answer *)
Theorem tcmp_swap : forall a b, tcmp b a = opp_oc (tcmp a b).
Proof.
  intros a b.
  destruct a, b; cbn [tcmp is_real is_int is_obj orb andb];
    try reflexivity; try apply Zcmp_swap; try apply obj_cmp_swap;
    try apply SFcompare_swap; try (symmetry; apply opp_oc_invol).
Qed.

Theorem tcmp_lt_asym : forall a b, tcmp a b = Some Lt -> tcmp b a = Some Gt.
Proof. intros a b H. rewrite tcmp_swap, H. reflexivity. Qed.

Theorem tcmp_int_int : forall i j, tcmp (TInt i) (TInt j) = Some (Z.compare i j).
Proof. reflexivity. Qed.

Theorem tcmp_real_real : forall f g, tcmp (TReal f) (TReal g) = Bcompare 53 1024 f g.
Proof. intros. cbn [tcmp]. apply SFcompare_Bcompare. Qed.

(* Integer against Real: the exact comparison, for every i64 *)
Theorem tcmp_int_real_exact : forall i f, (- two63 <= i < two63)%Z ->
  tcmp (TInt i) (TReal f) = Z_cmp_sf i (sf f) /\ tcmp (TReal f) (TInt i) = opp_oc (Z_cmp_sf i (sf f)).
Proof. intros i f Hi. cbn [tcmp to_i64]. rewrite cmp_int_real_exact by exact Hi. split; reflexivity. Qed.

Theorem teq_real_real : forall f g,
  teq (TReal f) (TReal g) = match Bcompare 53 1024 f g with Some Eq => true | _ => false end.
Proof. intros. cbn [teq]. unfold SFeqb. rewrite SFcompare_Bcompare. reflexivity. Qed.

Definition is_number (a : tval) : bool := is_int a || is_real a.

(* nil counts as the integer 0 against a number *)
Theorem tcmp_nil_as_zero : forall b, is_number b = true ->
  tcmp TNil b = tcmp (TInt 0) b /\ tcmp b TNil = tcmp b (TInt 0).
Proof. intros b H. destruct b; try discriminate; split; reflexivity. Qed.

(* a string or a table counts as its length against a number *)
Theorem tcmp_obj_as_len : forall a b, is_obj a = true -> is_number b = true ->
  tcmp a b = tcmp (TInt (Z.of_nat (tlen a))) b /\ tcmp b a = tcmp b (TInt (Z.of_nat (tlen a))).
Proof. intros a b Ha Hb. destruct a; try discriminate; destruct b; try discriminate; split; reflexivity. Qed.

(* two objects: equal -> Equal; else by length, equal lengths unordered *)
Theorem tcmp_obj_obj : forall a b, is_obj a = true -> is_obj b = true ->
  tcmp a b = if teq a b then Some Eq
             else match Nat.compare (tlen a) (tlen b) with Eq => None | c => Some c end.
Proof. intros a b Ha Hb. destruct a; try discriminate; destruct b; try discriminate; reflexivity. Qed.

Theorem tcmp_str_by_len : forall x y, length x <> length y ->
  tcmp (TStr x) (TStr y) = Some (Nat.compare (length x) (length y)).
Proof.
  intros x y H. rewrite tcmp_obj_obj by reflexivity. cbn [teq tlen].
  destruct (list_eqb N.eqb x y) eqn:E.
  - apply list_eqb_N_eq in E. congruence.
  - destruct (length x ?= length y) eqn:C; try reflexivity. apply Nat.compare_eq in C. contradiction.
Qed.

(* ------------------------------------------------------------------ *)
(* counterexamples, by computation *)
Definition r_zero : f64 := B754_zero 53 1024 false.
Definition r_negzero : f64 := B754_zero 53 1024 true.
Definition r_nan : f64 := B754_nan 53 1024 false 2251799813685248%positive eq_refl.

(* signed zero: equal, hashed differently (the exception stated in the property) *)
Theorem signed_zero_hash_refuted :
  teq (TReal r_zero) (TReal r_negzero) = true /\ thash (TReal r_zero) <> thash (TReal r_negzero).
Proof. split; [reflexivity|]. vm_compute. discriminate. Qed.

Theorem nan_not_reflexive : teq (TReal r_nan) (TReal r_nan) = false.
Proof. reflexivity. Qed.

(* a table with a key that is not equal to itself (NaN): `iter` skips the entry, len() counts
   it.  It is == to tables with other content, with another hash, and == is not transitive
   through it: why [no_nan] is a hypothesis of teq_trans and teq_hash_bytes. *)
Definition t_nankey : tval := TTable [(TReal r_nan, TInt 1); (TInt 2, TInt 3)].
Definition t_23_45 : tval := TTable [(TInt 2, TInt 3); (TInt 4, TInt 5)].
Definition t_23_67 : tval := TTable [(TInt 2, TInt 3); (TInt 6, TInt 7)].

Theorem nan_key_eq_hash_refuted :
  teq t_nankey t_23_45 = true /\ thash t_nankey <> thash t_23_45.
Proof. split; [reflexivity|]. vm_compute. discriminate. Qed.

Theorem teq_trans_nan_refuted :
  teq t_23_45 t_nankey = true /\ teq t_nankey t_23_67 = true /\ teq t_23_45 t_23_67 = false.
Proof. repeat split; reflexivity. Qed.

(* ---- the code before the repair f13cfaa (finding A-40) ---- *)
(* function objects were never equal, not even to themselves *)
Theorem fn_not_reflexive_legacy : forall i h a,
  teq_legacy (TFn h a) (TFn h a) = false /\ teq_legacy (TNative h) (TNative h) = false /\
  teq_legacy (TClosure i h a) (TClosure i h a) = false.
Proof. intros; repeat split. Qed.

(* so a function-keyed entry was skipped like a NaN-keyed one: {f: 1, 2: 3} == {2: 3, 4: 5} *)
Definition t_fnkey : tval := TTable [(TFn 1 0, TInt 1); (TInt 2, TInt 3)].

Theorem fn_key_eq_hash_legacy_refuted :
  teq_legacy t_fnkey t_23_45 = true /\ no_nan t_fnkey = true /\ no_zero_real t_fnkey = true /\
  thash_legacy t_fnkey <> thash_legacy t_23_45.
Proof. repeat split; try reflexivity. vm_compute. discriminate. Qed.

Theorem teq_trans_legacy_refuted :
  teq_legacy t_23_45 t_fnkey = true /\ teq_legacy t_fnkey t_23_67 = true /\
  teq_legacy t_23_45 t_23_67 = false /\ no_nan t_fnkey = true.
Proof. repeat split; reflexivity. Qed.

(* the repaired code tells them apart *)
Theorem fn_key_repaired :
  teq t_fnkey t_23_45 = false /\ teq t_fnkey t_fnkey = true /\ teq t_fnkey t_23_67 = false.
Proof. repeat split; reflexivity. Qed.

(* ------------------------------------------------------------------ *)
(* CaoHasher: successive `write`s (each stores hash & MASK) = one write of the concatenation,
   which is how [thash] is defined *)
Lemma fnv_step_mask x c : fnv_step (N.land x mask32) c = fnv_step x c.
Proof.
  unfold fnv_step. f_equal. apply N.bits_inj. intros n.
  rewrite !N.land_spec, !N.lxor_spec, N.land_spec.
  destruct (N.testbit mask32 n); [rewrite !andb_true_r; reflexivity|rewrite !andb_false_r; reflexivity].
Qed.

Theorem fnv_bytes_app h a b : fnv_bytes h (a ++ b) = fnv_write (fnv_write h a) b.
Proof.
  unfold fnv_write, fnv_bytes. rewrite fold_left_app.
  destruct b as [|c b]; cbn [fold_left].
  - rewrite <- N.land_assoc, N.land_diag. reflexivity.
  - rewrite fnv_step_mask. reflexivity.
Qed.
