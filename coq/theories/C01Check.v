(* Executable checker for C01 (with the closure part C06 and the library part C09): generated
   well-scoped programs, compiled and run by the real crate, against the reference semantics
   [RefSem.eval_program], which IS the specification oracle here.
     code 2: the implementation's observation differs from the reference semantics
     code 3: the case is outside the checker's precondition (not well_scoped, does not compile,
             outside the domain of the semantics, or too long for the evaluation fuel)
   The former classes 10 (R-1), 11 (R-2, RefScope.leaky), 12 (R-3), 13 (R-4, RefScope.shadowing) and
   14 (R-5) were repaired in the crate (662697a, d723a2c, 6d4c9a8, 53336fc, a526e90): a disagreement
   on such a program is an ordinary violation (code 2) now.
   Resource errors of the implementation (Timeout, Stackoverflow, CallStackOverflow,
   OutOfMemory) are not predicted: such cases are skipped (the harness counts them). *)
From Cao Require Export CheckUtil CardAst RefSem RefScope.
Local Open Scope N_scope.

Inductive c01obs :=
| ObsRun (k : okind) (globals : list (str * tree)) (log : list (str * list tree))
| ObsResource (which : N)
| ObsCompileError
| ObsPanic.

Inductive c01case := ProgCase (m : module) (host : list str) (o : c01obs).

(* ---- monomorphic constructors for the generated files ---- *)
Definition mkfn (args : list str) (cards : list card) : function := Build_function args cards.
Definition progcase := ProgCase.
Definition obsrun := ObsRun.
Definition obsres := ObsResource.
Definition obscompile := ObsCompileError.
Definition obspanic := ObsPanic.
Definition kok := KOk.
Definition kerr := KErr.
Definition einvalid := EInvalidArgument.
Definition evarnotfound := EVarNotFound.
Definition eprocnotfound := EProcedureNotFound.
Definition etaskfailure := ETaskFailure.
Definition eother := EOther.
Definition trnil := TrNil.
Definition trint := TrInt.
Definition trreal := TrReal.
Definition trstr := TrStr.
Definition trtable := TrTable.
Definition trfn := TrFn.
Definition trcut := TrCut.

Fixpoint tree_eqb (a b : tree) : bool :=
  match a, b with
  | TrNil, TrNil | TrFn, TrFn | TrCut, TrCut => true
  | TrInt x, TrInt y => Z.eqb x y
  | TrReal x, TrReal y => N.eqb x y
  | TrStr x, TrStr y => list_eqb N.eqb x y
  | TrTable l1, TrTable l2 =>
      (fix go (l1 l2 : list (tree * tree)) : bool :=
         match l1, l2 with
         | [], [] => true
         | (k1, v1) :: r1, (k2, v2) :: r2 => tree_eqb k1 k2 && tree_eqb v1 v2 && go r1 r2
         | _, _ => false
         end) l1 l2
  | _, _ => false
  end.

Definition errkind_eqb (a b : errkind) : bool :=
  match a, b with
  | EInvalidArgument, EInvalidArgument | EVarNotFound, EVarNotFound
  | EProcedureNotFound, EProcedureNotFound | ETaskFailure, ETaskFailure => true
  | EOther x, EOther y => N.eqb x y
  | _, _ => false
  end.
Definition okind_eqb (a b : okind) : bool :=
  match a, b with
  | KOk, KOk => true
  | KErr x, KErr y => errkind_eqb x y
  | _, _ => false
  end.

Definition is_trnil (t : tree) := match t with TrNil => true | _ => false end.
(* the host reads globals by name (Vm::read_var_by_name; the harness prints the names that answer
   Some): since a526e90 a global that was never assigned answers None wherever its slot lies and one
   that holds nil answers Some(nil), so the two sides must agree as sets, nil entries included *)
Definition globals_sub (a b : list (str * tree)) : bool :=
  forallb (fun nv => match assoc (fst nv) b with
                     | Some t => tree_eqb (snd nv) t
                     | None => false
                     end) a.
Definition globals_agree (a b : list (str * tree)) : bool := globals_sub a b && globals_sub b a.

Definition log_eqb : list (str * list tree) -> list (str * list tree) -> bool :=
  list_eqb (pair_eqb (list_eqb N.eqb) (list_eqb tree_eqb)).


Definition check_fuel : nat := N.to_nat 6000.

(* known class 15 (N-C01-1, found while proving C01_compile_correct_f10): the value of a call card in STATEMENT
   position is never popped; inside a loop body one value-stack slot is lost per round, so a loop of more rounds
   than the stack has slots ends in Stackoverflow although the program's live data is a handful of values.  The
   class: the run ended in Stackoverflow (resource 2), the reference semantics (which has no stack bound) ends
   normally, and some loop body of the module contains a call card in statement position. *)
Fixpoint leaks_in_loop (inl : bool) (c : card) : bool :=
  match c with
  | CCall _ _ | CDynamicCall _ _ | CCallNative _ _ => inl
  | CBin BWhile _ b => leaks_in_loop true b
  | CBin BIfTrue _ b | CBin BIfFalse _ b => leaks_in_loop inl b
  | CTri TIfElse _ a b => leaks_in_loop inl a || leaks_in_loop inl b
  | CRepeat _ _ b => leaks_in_loop true b
  | CForEach _ _ _ _ b => leaks_in_loop true b
  | CComposite _ cs => existsb (leaks_in_loop inl) cs
  | _ => false
  end.
Fixpoint module_leaks (m : module) : bool :=
  match m with
  | Module subs funs _ =>
      existsb (fun nf => existsb (leaks_in_loop false) (f_cards (snd nf))) funs ||
      (fix go (l : list (str * module)) : bool :=
         match l with [] => false | (_, sub) :: r => module_leaks sub || go r end) subs
  end.

Definition check1 (c : c01case) : list N :=
  match c with
  | ProgCase m host o =>
      if negb (well_scoped m) then [3] else
      match o with
      | ObsResource 2 =>
          match eval_program check_fuel m host with
          | PObs o' => if okind_eqb KOk (ob_kind o') && module_leaks m then [15] else []
          | _ => []
          end
      | ObsResource _ => []
      | ObsCompileError => [3]
      | ObsPanic => [2]
      | ObsRun k g l =>
          match eval_program check_fuel m host with
          | PObs o' =>
              (if okind_eqb k (ob_kind o') && globals_agree g (ob_globals o') && log_eqb l (ob_log o')
               then [] else [2])
          | PFuel => [3]
          | PUnspec _ => [3]
          end
      end
  end.

Definition check_all := CheckUtil.check_all check1.

(* for debugging a case by hand: what the semantics predicts *)
Definition predict (c : c01case) : presult :=
  match c with ProgCase m host _ => eval_program check_fuel m host end.

(* for debugging: what differs (kinds, the globals that differ with both values, the first log
   entries that differ) *)
Fixpoint first_diff {A} (eqb : A -> A -> bool) (i : nat) (a b : list A) : option (nat * option A * option A) :=
  match a, b with
  | [], [] => None
  | x :: a', y :: b' => if eqb x y then first_diff eqb (S i) a' b' else Some (i, Some x, Some y)
  | x :: _, [] => Some (i, Some x, None)
  | [], y :: _ => Some (i, None, Some y)
  end.
Definition diagnose (c : c01case) :=
  match c with
  | ProgCase m host (ObsRun k g l) =>
      match eval_program check_fuel m host with
      | PObs o' =>
          Some (k, ob_kind o',
                filter (fun nv => negb (is_trnil (snd nv)) &&
                                  negb (match assoc (fst nv) (ob_globals o') with
                                        | Some t => tree_eqb (snd nv) t | None => false end)) g,
                filter (fun nv => negb (is_trnil (snd nv)) &&
                                  negb (match assoc (fst nv) g with
                                        | Some t => tree_eqb (snd nv) t | None => false end)) (ob_globals o'),
                first_diff (pair_eqb (list_eqb N.eqb) (list_eqb tree_eqb)) 0 l (ob_log o'))
      | _ => None
      end
  | _ => None
  end.
