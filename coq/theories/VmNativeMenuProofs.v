(* C18: proofs about the generic typed wrapper (VmNativeMenu.v): Vm.native_body IS the typed wrapper of traits.rs
   applied to the signature table, for every native of the menu; consequences for call_native. *)
From Coq Require Import NArith ZArith List Lia Bool.
From Cao Require Import ListUtil Bits Stacks StacksProofs Vm VmWitness VmProofs VmNativeProofs VmNativeMenu.
Import ListNotations.

Set Implicit Arguments.

(* ------------------------------------------------------------------ *)
(* The peeked arguments                                                *)
(* ------------------------------------------------------------------ *)

Lemma skipn_nth_cons (A : Type) (d : A) (l : list A) i :
  i < length l -> skipn i l = nth i l d :: skipn (S i) l.
Proof.
  revert i. induction l as [|a l IH]; intros i Hi; cbn [length] in Hi; [lia|].
  destruct i as [|i]; [reflexivity|]. cbn [skipn nth]. apply IH. lia.
Qed.

Lemma peek_args_skipn s l vs k :
  stack_ok s -> stack_of s = l ++ vs -> k <= length vs -> peek_args s k = skipn (length vs - k) vs.
Proof.
  intros Hok Hst. induction k as [|k IH]; intros Hk.
  - cbn [peek_args]. rewrite Nat.sub_0_r, skipn_all. reflexivity.
  - cbn [peek_args]. rewrite IH by lia. rewrite (speek_app l vs Hok Hst) by lia.
    rewrite (skipn_nth_cons VNil vs (i := length vs - S k)) by lia.
    replace (length vs - k - 1) with (length vs - S k) by lia.
    replace (S (length vs - S k)) with (length vs - k) by lia. reflexivity.
Qed.

(* the k topmost values, the deepest (= parameter 1) first *)
Lemma peek_args_app s l vs :
  stack_ok s -> stack_of s = l ++ vs -> peek_args s (length vs) = vs.
Proof.
  intros Hok Hst. rewrite (peek_args_skipn l vs Hok Hst) by lia. rewrite Nat.sub_diag. reflexivity.
Qed.

(* ------------------------------------------------------------------ *)
(* conv_args: last parameter first                                     *)
(* ------------------------------------------------------------------ *)

(* every conversion succeeds <-> CaOk with the converted values in declaration order *)
Lemma conv_args_ok F sig : forall vs i h args,
  conv_args F sig vs i h = CaOk args <->
  (length sig = length vs /\ length args = length sig /\
   forall j, j < length sig -> conv F (nth j sig TyValue) h (nth j vs VNil) = CvOk (nth j args ANone)).
Proof.
  induction sig as [|t sig IH]; intros vs i h args.
  - destruct vs as [|v vs]; cbn [conv_args length]; split.
    + intros E. inversion E. cbn. repeat split; auto. intros j Hj. lia.
    + intros (_ & Ha & _). destruct args; [reflexivity|cbn in Ha; lia].
    + intros E. discriminate.
    + intros (Hl & _). lia.
  - destruct vs as [|v vs]; cbn [conv_args length].
    + split; [discriminate|]. intros (Hl & _). lia.
    + split.
      * destruct (conv_args F sig vs (S i) h) as [r| |] eqn:Er; try discriminate.
        destruct (conv F t h v) as [a| |] eqn:Ec; try discriminate.
        intros E. inversion E; subst args. apply IH in Er. destruct Er as (Hl & Ha & Hn).
        cbn [length]. repeat split; try lia.
        intros [|j] Hj; cbn [nth]; [exact Ec|]. apply Hn. lia.
      * intros (Hl & Ha & Hn). destruct args as [|a r]; cbn [length] in Ha; [lia|].
        assert (Er : conv_args F sig vs (S i) h = CaOk r).
        { apply IH. repeat split; try lia. intros j Hj. apply (Hn (S j)). lia. }
        rewrite Er. pose proof (Hn 0 ltac:(lia)) as H0. cbn [nth] in H0. rewrite H0. reflexivity.
Qed.

Lemma conv_args_all_ok F sig : forall vs i h,
  length sig = length vs ->
  (forall j, j < length sig -> exists a, conv F (nth j sig TyValue) h (nth j vs VNil) = CvOk a) ->
  exists r, conv_args F sig vs i h = CaOk r.
Proof.
  induction sig as [|t sig IH]; intros vs i h Hl Hr; destruct vs as [|v vs]; cbn [length] in Hl; try lia.
  - exists []. reflexivity.
  - cbn [conv_args]. destruct (IH vs (S i) h ltac:(lia)) as (r & Er).
    { intros j Hj. apply (Hr (S j)). cbn [length]. lia. }
    rewrite Er. destruct (Hr 0 ltac:(cbn [length]; lia)) as (a & Ea). cbn [nth] in Ea.
    rewrite Ea. eexists. reflexivity.
Qed.

(* CaFail n <-> parameter n fails and every later parameter converts *)
Lemma conv_args_fail F sig : forall vs i h n,
  length sig = length vs ->
  (conv_args F sig vs i h = CaFail n <->
   exists j, n = i + j /\ j < length sig /\ conv F (nth j sig TyValue) h (nth j vs VNil) = CvFail /\
             forall j', j < j' -> j' < length sig ->
                        exists a, conv F (nth j' sig TyValue) h (nth j' vs VNil) = CvOk a).
Proof.
  induction sig as [|t sig IH]; intros vs i h n Hl; destruct vs as [|v vs]; cbn [length] in Hl; try lia.
  - cbn [conv_args length]. split; [discriminate|]. intros (j & _ & Hj & _). lia.
  - cbn [conv_args length]. specialize (IH vs (S i) h n ltac:(lia)). split.
    + destruct (conv_args F sig vs (S i) h) as [r| |] eqn:Er.
      * destruct (conv F t h v) as [a| |] eqn:Ec; try discriminate.
        intros E. inversion E; subst n. exists 0. repeat split; [lia|lia|exact Ec|].
        intros [|j'] H1 H2; [lia|]. cbn [nth].
        apply (conv_args_ok F sig vs (S i) h r) in Er. destruct Er as (_ & _ & Hn).
        eexists. apply Hn. lia.
      * intros E. inversion E; subst n0. destruct IH as [IH _]. destruct (IH eq_refl) as (j & Hn & Hj & Hc & Hr).
        exists (S j). repeat split; [lia|lia|exact Hc|].
        intros [|j'] H1 H2; [lia|]. cbn [nth]. apply Hr; lia.
      * discriminate.
    + intros (j & Hn & Hj & Hc & Hr). destruct j as [|j].
      * assert (Er : exists r, conv_args F sig vs (S i) h = CaOk r).
        { apply conv_args_all_ok; [lia|]. intros j' Hj'. apply (Hr (S j')); lia. }
        destruct Er as (r & Er). rewrite Er. cbn [nth] in Hc. rewrite Hc. f_equal. lia.
      * destruct IH as [_ IH]. rewrite IH; [reflexivity|].
        exists j. repeat split; [lia|lia|exact Hc|]. intros j' H1 H2. apply (Hr (S j')); lia.
Qed.

(* ------------------------------------------------------------------ *)
(* native_body = the typed wrapper over the signature table            *)
(* ------------------------------------------------------------------ *)

Lemma native_sig_arity n : length (native_sig n) = native_arity n.
Proof. destruct n; reflexivity. Qed.

Ltac peek_all Hok Hst l vs :=
  repeat match goal with
  | |- context [speek ?s ?k] =>
      rewrite (speek_app l vs Hok Hst (n := k)) by (cbn [length]; lia)
  end; cbn [length nth Nat.sub].

Theorem native_body_typed : forall F P re self n s l vs,
  stack_ok s -> stack_of s = l ++ vs -> length vs = native_arity n ->
  native_body F P re self n s = typed_call F P re self n s.
Proof.
  intros F P re self n s l vs Hok Hst Hlen. unfold typed_call.
  rewrite <- Hlen, (peek_args_app l vs Hok Hst).
  destruct n; cbn [native_arity] in Hlen;
    repeat (let v := fresh "v" in destruct vs as [|v vs]; cbn [length] in Hlen; try lia);
    cbn [native_body native_sig conv_args conv].
  - (* log1 *) peek_all Hok Hst l [v]. reflexivity.
  - (* sub2 *) peek_all Hok Hst l [v; v0].
    destruct (to_i64 F (st_heap s) v0); [|destruct (to_i64 F (st_heap s) v); reflexivity].
    destruct (to_i64 F (st_heap s) v); reflexivity.
  - (* fail0 *) reflexivity.
  - (* str1 *) peek_all Hok Hst l [v]. destruct (as_str (st_heap s) v); reflexivity.
  - (* mix3 *) peek_all Hok Hst l [v; v0; v1].
    destruct (to_i64 F (st_heap s) v0); [|destruct (to_f64 F (st_heap s) v); reflexivity].
    destruct (to_f64 F (st_heap s) v); reflexivity.
  - (* call1 *) peek_all Hok Hst l [v; v0]. reflexivity.
  - (* try1 *) peek_all Hok Hst l [v; v0]. reflexivity.
  - (* call0 *) peek_all Hok Hst l [v]. reflexivity.
  - (* t4 *) peek_all Hok Hst l [v; v0; v1; v2].
    destruct (as_str (st_heap s) v2); try reflexivity.
    destruct (as_bool F (st_heap s) v1); [|reflexivity].
    destruct (to_f64 F (st_heap s) v0); [|reflexivity].
    destruct (to_i64 F (st_heap s) v); reflexivity.
  - (* nil1 *) peek_all Hok Hst l [v].
    destruct v; try reflexivity; cbn [to_i64]; try reflexivity.
    destruct (vobj_len (st_heap s) a); reflexivity.
  - (* tab1 *) peek_all Hok Hst l [v]. destruct (get_table (st_heap s) v); reflexivity.
  - (* cat2 *) peek_all Hok Hst l [v; v0].
    destruct (as_str (st_heap s) v0); try reflexivity.
    destruct (as_str (st_heap s) v); reflexivity.
  - (* rb1 *) peek_all Hok Hst l [v; v0]. reflexivity.
  - (* __min *) peek_all Hok Hst l [v; v0]. reflexivity.
  - (* __max *) peek_all Hok Hst l [v; v0]. reflexivity.
  - (* __sort *) peek_all Hok Hst l [v; v0]. reflexivity.
  - (* __to_array *) peek_all Hok Hst l [v]. reflexivity.
Qed.
