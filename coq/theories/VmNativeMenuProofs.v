(* C18: proofs about the generic typed wrapper (VmNativeMenu.v): Vm.native_body IS the typed wrapper of traits.rs
   applied to the signature table, for every native of the menu; consequences for call_native. *)
From Coq Require Import NArith ZArith List Lia Bool.
From Cao Require Import ListUtil Bits Stacks StacksProofs Vm VmWitness VmProofs VmNativeProofs VmNativeMenu.
Import ListNotations.

Set Implicit Arguments.

(* ------------------------------------------------------------------ *)
(* The peeked arguments                                                *)
(* ------------------------------------------------------------------ *)

Lemma skipn_nth_cons (A : Type) (d : A) (l : list A) i :
  i < length l -> skipn i l = nth i l d :: skipn (S i) l.
Proof.
  revert i. induction l as [|a l IH]; intros i Hi; cbn [length] in Hi; [lia|].
  destruct i as [|i]; [reflexivity|]. cbn [skipn nth]. apply IH. lia.
Qed.

Lemma peek_args_skipn s l vs k :
  stack_ok s -> stack_of s = l ++ vs -> k <= length vs -> peek_args s k = skipn (length vs - k) vs.
Proof.
  intros Hok Hst. induction k as [|k IH]; intros Hk.
  - cbn [peek_args]. rewrite Nat.sub_0_r, skipn_all. reflexivity.
  - cbn [peek_args]. rewrite IH by lia. rewrite (speek_app l vs Hok Hst) by lia.
    rewrite (skipn_nth_cons VNil vs (i := length vs - S k)) by lia.
    replace (length vs - k - 1) with (length vs - S k) by lia.
    replace (S (length vs - S k)) with (length vs - k) by lia. reflexivity.
Qed.

(* the k topmost values, the deepest (= parameter 1) first *)
Lemma peek_args_app s l vs :
  stack_ok s -> stack_of s = l ++ vs -> peek_args s (length vs) = vs.
Proof.
  intros Hok Hst. rewrite (peek_args_skipn l vs Hok Hst) by lia. rewrite Nat.sub_diag. reflexivity.
Qed.

(* ------------------------------------------------------------------ *)
(* conv_args: last parameter first                                     *)
(* ------------------------------------------------------------------ *)

(* every conversion succeeds <-> CaOk with the converted values in declaration order *)
Lemma conv_args_ok F sig : forall vs i h args,
  conv_args F sig vs i h = CaOk args <->
  (length sig = length vs /\ length args = length sig /\
   forall j, j < length sig -> conv F (nth j sig TyValue) h (nth j vs VNil) = CvOk (nth j args ANone)).
Proof.
  induction sig as [|t sig IH]; intros vs i h args.
  - destruct vs as [|v vs]; cbn [conv_args length]; split.
    + intros E. inversion E. cbn. repeat split; auto. intros j Hj. lia.
    + intros (_ & Ha & _). destruct args; [reflexivity|cbn in Ha; lia].
    + intros E. discriminate.
    + intros (Hl & _). lia.
  - destruct vs as [|v vs]; cbn [conv_args length].
    + split; [discriminate|]. intros (Hl & _). lia.
    + split.
      * destruct (conv_args F sig vs (S i) h) as [r| |] eqn:Er; try discriminate.
        destruct (conv F t h v) as [a| |] eqn:Ec; try discriminate.
        intros E. inversion E; subst args. apply IH in Er. destruct Er as (Hl & Ha & Hn).
        cbn [length]. repeat split; try lia.
        intros [|j] Hj; cbn [nth]; [exact Ec|]. apply Hn. lia.
      * intros (Hl & Ha & Hn). destruct args as [|a r]; cbn [length] in Ha; [lia|].
        assert (Er : conv_args F sig vs (S i) h = CaOk r).
        { apply IH. repeat split; try lia. intros j Hj. apply (Hn (S j)). lia. }
        rewrite Er. pose proof (Hn 0 ltac:(lia)) as H0. cbn [nth] in H0. rewrite H0. reflexivity.
Qed.

Lemma conv_args_all_ok F sig : forall vs i h,
  length sig = length vs ->
  (forall j, j < length sig -> exists a, conv F (nth j sig TyValue) h (nth j vs VNil) = CvOk a) ->
  exists r, conv_args F sig vs i h = CaOk r.
Proof.
  induction sig as [|t sig IH]; intros vs i h Hl Hr; destruct vs as [|v vs]; cbn [length] in Hl; try lia.
  - exists []. reflexivity.
  - cbn [conv_args]. destruct (IH vs (S i) h ltac:(lia)) as (r & Er).
    { intros j Hj. apply (Hr (S j)). cbn [length]. lia. }
    rewrite Er. destruct (Hr 0 ltac:(cbn [length]; lia)) as (a & Ea). cbn [nth] in Ea.
    rewrite Ea. eexists. reflexivity.
Qed.

(* CaFail n <-> parameter n fails and every later parameter converts *)
Lemma conv_args_fail F sig : forall vs i h n,
  length sig = length vs ->
  (conv_args F sig vs i h = CaFail n <->
   exists j, n = i + j /\ j < length sig /\ conv F (nth j sig TyValue) h (nth j vs VNil) = CvFail /\
             forall j', j < j' -> j' < length sig ->
                        exists a, conv F (nth j' sig TyValue) h (nth j' vs VNil) = CvOk a).
Proof.
  induction sig as [|t sig IH]; intros vs i h n Hl; destruct vs as [|v vs]; cbn [length] in Hl; try lia.
  - cbn [conv_args length]. split; [discriminate|]. intros (j & _ & Hj & _). lia.
  - cbn [conv_args length]. specialize (IH vs (S i) h n ltac:(lia)). split.
    + destruct (conv_args F sig vs (S i) h) as [r| |] eqn:Er.
      * destruct (conv F t h v) as [a| |] eqn:Ec; try discriminate.
        intros E. inversion E; subst n. exists 0. repeat split; [lia|lia|exact Ec|].
        intros [|j'] H1 H2; [lia|]. cbn [nth].
        apply (conv_args_ok F sig vs (S i) h r) in Er. destruct Er as (_ & _ & Hn).
        eexists. apply Hn. lia.
      * intros E. inversion E; subst n0. destruct IH as [IH _]. destruct (IH eq_refl) as (j & Hn & Hj & Hc & Hr).
        exists (S j). repeat split; [lia|lia|exact Hc|].
        intros [|j'] H1 H2; [lia|]. cbn [nth]. apply Hr; lia.
      * discriminate.
    + intros (j & Hn & Hj & Hc & Hr). destruct j as [|j].
      * assert (Er : exists r, conv_args F sig vs (S i) h = CaOk r).
        { apply conv_args_all_ok; [lia|]. intros j' Hj'. apply (Hr (S j')); lia. }
        destruct Er as (r & Er). rewrite Er. cbn [nth] in Hc. rewrite Hc. f_equal. lia.
      * destruct IH as [_ IH]. rewrite IH; [reflexivity|].
        exists j. repeat split; [lia|lia|exact Hc|]. intros j' H1 H2. apply (Hr (S j')); lia.
Qed.

(* ------------------------------------------------------------------ *)
(* native_body = the typed wrapper over the signature table            *)
(* ------------------------------------------------------------------ *)

Lemma native_sig_arity n : length (native_sig n) = native_arity n.
Proof. destruct n; reflexivity. Qed.

Ltac peek_all Hok Hst l vs :=
  repeat match goal with
  | |- context [speek ?s ?k] =>
      rewrite (speek_app l vs Hok Hst (n := k)) by (cbn [length]; lia)
  end; cbn [length nth Nat.sub].

Theorem native_body_typed : forall F P re self n s l vs,
  stack_ok s -> stack_of s = l ++ vs -> length vs = native_arity n ->
  native_body F P re self n s = typed_call F P re self n s.
Proof.
  intros F P re self n s l vs Hok Hst Hlen. unfold typed_call.
  rewrite <- Hlen, (peek_args_app l vs Hok Hst).
  destruct n; cbn [native_arity] in Hlen;
    repeat (let v := fresh "v" in destruct vs as [|v vs]; cbn [length] in Hlen; try lia);
    cbn [native_body native_sig conv_args conv].
  - (* log1 *) peek_all Hok Hst l [v]. reflexivity.
  - (* sub2 *) peek_all Hok Hst l [v; v0].
    destruct (to_i64 F (st_heap s) v0); [|destruct (to_i64 F (st_heap s) v); reflexivity].
    destruct (to_i64 F (st_heap s) v); reflexivity.
  - (* fail0 *) reflexivity.
  - (* str1 *) peek_all Hok Hst l [v]. destruct (as_str (st_heap s) v); reflexivity.
  - (* mix3 *) peek_all Hok Hst l [v; v0; v1].
    destruct (to_i64 F (st_heap s) v0); [|destruct (to_f64 F (st_heap s) v); reflexivity].
    destruct (to_f64 F (st_heap s) v); reflexivity.
  - (* call1 *) peek_all Hok Hst l [v; v0]. reflexivity.
  - (* try1 *) peek_all Hok Hst l [v; v0]. reflexivity.
  - (* call0 *) peek_all Hok Hst l [v]. reflexivity.
  - (* t4 *) peek_all Hok Hst l [v; v0; v1; v2].
    destruct (as_str (st_heap s) v2); try reflexivity.
    destruct (as_bool F (st_heap s) v1); [|reflexivity].
    destruct (to_f64 F (st_heap s) v0); [|reflexivity].
    destruct (to_i64 F (st_heap s) v); reflexivity.
  - (* nil1 *) peek_all Hok Hst l [v].
    destruct v; try reflexivity; cbn [to_i64]; try reflexivity.
    destruct (vobj_len (st_heap s) a); reflexivity.
  - (* tab1 *) peek_all Hok Hst l [v]. destruct (get_table (st_heap s) v); reflexivity.
  - (* cat2 *) peek_all Hok Hst l [v; v0].
    destruct (as_str (st_heap s) v0); try reflexivity.
    destruct (as_str (st_heap s) v); reflexivity.
  - (* rb1 *) peek_all Hok Hst l [v; v0]. reflexivity.
  - (* __min *) peek_all Hok Hst l [v; v0]. reflexivity.
  - (* __max *) peek_all Hok Hst l [v; v0]. reflexivity.
  - (* __sort *) peek_all Hok Hst l [v; v0]. reflexivity.
  - (* __to_array *) peek_all Hok Hst l [v]. reflexivity.
Qed.

(* the same with the peeked arguments spelled out *)
Theorem native_wrapper_generic : forall F P re self n s l vs,
  stack_ok s -> stack_of s = l ++ vs -> length vs = native_arity n ->
  native_body F P re self n s =
  match conv_args F (native_sig n) vs 1 (st_heap s) with
  | CaOk args => native_fn F P re self n args s
  | CaFail i => NErr (EConversion (N.of_nat i)) s
  | CaUb => NStop AUB s
  end.
Proof.
  intros F P re self n s l vs Hok Hst Hlen.
  rewrite (native_body_typed F P re self n l vs Hok Hst Hlen). unfold typed_call.
  rewrite <- Hlen, (peek_args_app l vs Hok Hst). reflexivity.
Qed.

(* ------------------------------------------------------------------ *)
(* call_native for every native of the menu                            *)
(* ------------------------------------------------------------------ *)

Lemma all_natives_complete n : In n all_natives.
Proof. destruct n; cbn; tauto. Qed.

Lemma find_native_menu n : find_native (handle_of_bytes (native_name n)) all_natives = Some n.
Proof. destruct n; vm_compute; reflexivity. Qed.

Lemma call_native_typed F P re fuel n s l vs :
  stack_ok s -> stack_of s = l ++ vs -> length vs = native_arity n ->
  call_native_fuel F P re (S fuel) (handle_of_bytes (native_name n)) s
  = native_finish n (typed_call F P re (call_native_fuel F P re fuel) n s).
Proof.
  intros Hok Hst Hlen. cbn [call_native_fuel]. rewrite find_native_menu.
  rewrite (native_body_typed F P re (call_native_fuel F P re fuel) n l vs Hok Hst Hlen). reflexivity.
Qed.

(* every conversion succeeds: the function is called with the converted values in declaration order; afterwards
   pop_n::<k>, and the result is pushed / the error is wrapped as TaskFailure{name} *)
Theorem native_args_menu : forall F P re fuel n s l vs args,
  stack_ok s -> stack_of s = l ++ vs -> length vs = native_arity n -> length args = native_arity n ->
  (forall j, j < native_arity n ->
             conv F (nth j (native_sig n) TyValue) (st_heap s) (nth j vs VNil) = CvOk (nth j args ANone)) ->
  call_native_fuel F P re (S fuel) (handle_of_bytes (native_name n)) s
  = native_finish n (native_fn F P re (call_native_fuel F P re fuel) n args s).
Proof.
  intros F P re fuel n s l vs args Hok Hst Hlen Hargs Hconv.
  rewrite (call_native_typed F P re fuel n l vs Hok Hst Hlen). unfold typed_call.
  rewrite <- Hlen, (peek_args_app l vs Hok Hst).
  assert (E : conv_args F (native_sig n) vs 1 (st_heap s) = CaOk args).
  { apply conv_args_ok. rewrite native_sig_arity. repeat split; auto. }
  rewrite E. reflexivity.
Qed.

(* a conversion fails: the error names the LAST parameter whose conversion fails (= the first in conversion order),
   whatever the parameters before it are; the function does not run (nothing is logged, heap untouched) and all k
   arguments are consumed all the same *)
Theorem native_conversion_error_menu : forall F P re fuel n s l vs j,
  stack_ok s -> stack_of s = l ++ vs -> length vs = native_arity n ->
  j < native_arity n ->
  conv F (nth j (native_sig n) TyValue) (st_heap s) (nth j vs VNil) = CvFail ->
  (forall j', j < j' -> j' < native_arity n ->
              exists a, conv F (nth j' (native_sig n) TyValue) (st_heap s) (nth j' vs VNil) = CvOk a) ->
  exists s',
    call_native_fuel F P re (S fuel) (handle_of_bytes (native_name n)) s
      = NErr (ETaskFailure (native_name n) (EConversion (N.of_nat (S j)))) s' /\
    stack_ok s' /\ stack_of s' = l /\ st_calls s' = st_calls s /\ st_globals s' = st_globals s /\
    st_heap s' = st_heap s /\ st_log s' = st_log s.
Proof.
  intros F P re fuel n s l vs j Hok Hst Hlen Hj Hc Hlater.
  rewrite (call_native_typed F P re fuel n l vs Hok Hst Hlen). unfold typed_call.
  replace (peek_args s (native_arity n)) with vs
    by (rewrite <- Hlen; symmetry; apply (peek_args_app l vs Hok Hst)).
  assert (E : conv_args F (native_sig n) vs 1 (st_heap s) = CaFail (S j)).
  { apply conv_args_fail; [rewrite native_sig_arity; lia|]. rewrite native_sig_arity.
    exists j. repeat split; auto. }
  rewrite E. cbn [native_finish].
  destruct (spop_n_app l vs Hok Hst) as (Hok2 & Hst2 & _). rewrite Hlen in Hok2, Hst2.
  destruct (spop_n_fields s (native_arity n)) as (Fc & Fg & Fh & Fl & _).
  eexists; split; [reflexivity|]. repeat split; auto.
Qed.

(* the natives that neither re-enter nor allocate: result and log entry are [simple_result] of the received
   parameters; exactly the k arguments are replaced by the result *)
Theorem native_args_menu_simple : forall F P re fuel n s l vs args,
  simple_native n = true ->
  stack_ok s -> stack_of s = l ++ vs -> length vs = native_arity n -> length args = native_arity n ->
  (forall j, j < native_arity n ->
             conv F (nth j (native_sig n) TyValue) (st_heap s) (nth j vs VNil) = CvOk (nth j args ANone)) ->
  exists v e s',
    simple_result F n args (length l + native_arity n) (length (st_calls s)) (st_heap s) = Some (v, e) /\
    call_native_fuel F P re (S fuel) (handle_of_bytes (native_name n)) s = NOk v s' /\
    stack_ok s' /\ stack_of s' = l ++ [v] /\ st_log s' = st_log s ++ [e] /\
    st_calls s' = st_calls s /\ st_globals s' = st_globals s /\ st_heap s' = st_heap s.
Proof.
  intros F P re fuel n s l vs args Hs Hok Hst Hlen Hargs Hconv.
  rewrite (native_args_menu F P re fuel n l vs args Hok Hst Hlen Hargs Hconv).
  assert (Hcnt : scount s = length l + native_arity n).
  { rewrite (scount_abs Hok), Hst, app_length, Hlen. reflexivity. }
  assert (Hfn : exists v e, simple_result F n args (length l + native_arity n) (length (st_calls s)) (st_heap s)
                            = Some (v, e) /\
                            native_fn F P re (call_native_fuel F P re fuel) n args s = NOk v (log_push s e)).
  { destruct n; try discriminate Hs; cbn [native_arity] in *;
      repeat (let a := fresh "a" in destruct args as [|a args]; cbn [length] in Hargs; try lia);
      repeat (let v := fresh "v" in destruct vs as [|v vs]; cbn [length] in Hlen; try lia);
      try (pose proof (Hconv 0 ltac:(lia)) as C0; cbn [nth native_sig conv] in C0);
      try (pose proof (Hconv 1 ltac:(lia)) as C1; cbn [nth native_sig conv] in C1);
      try (pose proof (Hconv 2 ltac:(lia)) as C2; cbn [nth native_sig conv] in C2);
      try (pose proof (Hconv 3 ltac:(lia)) as C3; cbn [nth native_sig conv] in C3);
      repeat match goal with
      | H : match ?x with _ => _ end = CvOk _ |- _ => destruct x eqn:?; try discriminate H
      | H : CvOk _ = CvOk _ |- _ => inversion H; clear H; subst
      end;
      cbn [native_fn simple_result]; try rewrite Hcnt; eexists; eexists; split; reflexivity. }
  destruct Hfn as (v & e & Hsr & Hfn). rewrite Hfn. cbn [native_finish].
  assert (H1 : 1 <= length vs) by (rewrite Hlen; destruct n; try discriminate Hs; cbn; lia).
  destruct (@native_return (log_push s e) l vs v Hok Hst H1) as (s' & Hp & Hok' & Hs' & Hc & Hg & Hh & Hl & _).
  rewrite Hlen in Hp. rewrite Hp. exists v, e, s'. repeat split; auto.
Qed.

(* ------------------------------------------------------------------ *)
(* Re-entrant natives: what is handed to run_function / to `_run`      *)
(* ------------------------------------------------------------------ *)

Definition pushes_arg (n : native) : bool :=
  match n with NCall1 | NTry1 | NRb1 => true | _ => false end.

(* call1 / try1 / rb1 (f: Value, x: Value) entered with the stack  l ++ [f; x]: x is pushed once more and
   run_function is called with the callee f they received, on the stack  l ++ [f; x; x]; the result is handed
   back (call1), an error is swallowed (try1), the heights are logged (rb1); then call_native pops the two
   arguments from whatever run_function left *)
Theorem reentrant_args : forall F P re fuel n s l f x,
  pushes_arg n = true ->
  stack_ok s -> stack_of s = l ++ [f; x] ->
  S (length l + 2) < length (vdata (st_stack s)) ->
  let self := call_native_fuel F P re fuel in
  exists s1,
    stack_ok s1 /\ stack_of s1 = l ++ [f; x; x] /\
    st_calls s1 = st_calls s /\ st_globals s1 = st_globals s /\ st_heap s1 = st_heap s /\ st_log s1 = st_log s /\
    call_native_fuel F P re (S fuel) (handle_of_bytes (native_name n)) s
    = native_finish n (reentrant_post n s f (run_function P re self f s1)).
Proof.
  intros F P re fuel n s l f x Hn Hok Hst Hroom self.
  assert (Hfit : S (length (stack_of s)) < length (vdata (st_stack s))).
  { rewrite Hst, app_length. cbn [length]. lia. }
  destruct (spush_abs x Hok Hfit) as (s1 & Hp & Hok1 & Hst1 & Hc & Hg & Hh & Hl & _).
  exists s1. rewrite Hst1, Hst, <- app_assoc. cbn [app]. repeat split; auto.
  assert (Hargs : forall j, j < 2 ->
            conv F (nth j [TyValue; TyValue] TyValue) (st_heap s) (nth j [f; x] VNil)
            = CvOk (nth j [AValue f; AValue x] ANone)).
  { intros [|[|j]] Hj; try lia; reflexivity. }
  destruct n; try discriminate Hn.
  - rewrite (native_args_menu F P re fuel NCall1 l [f; x] [AValue f; AValue x] Hok Hst eq_refl eq_refl Hargs).
    cbn [native_fn reentrant_post]. rewrite Hp. reflexivity.
  - rewrite (native_args_menu F P re fuel NTry1 l [f; x] [AValue f; AValue x] Hok Hst eq_refl eq_refl Hargs).
    cbn [native_fn reentrant_post]. rewrite Hp. fold self. destruct (run_function P re self f s1); reflexivity.
  - rewrite (native_args_menu F P re fuel NRb1 l [f; x] [AValue f; AValue x] Hok Hst eq_refl eq_refl Hargs).
    cbn [native_fn reentrant_post]. rewrite Hp. fold self. destruct (run_function P re self f s1); reflexivity.
Qed.

(* call0(f: Value): run_function on the callee it received, nothing pushed *)
Theorem reentrant_args_call0 : forall F P re fuel s l f,
  stack_ok s -> stack_of s = l ++ [f] ->
  call_native_fuel F P re (S fuel) (handle_of_bytes name_call0) s
  = native_finish NCall0 (run_function P re (call_native_fuel F P re fuel) f s).
Proof.
  intros F P re fuel s l f Hok Hst.
  assert (Hargs : forall j, j < 1 ->
            conv F (nth j [TyValue] TyValue) (st_heap s) (nth j [f] VNil) = CvOk (nth j [AValue f] ANone)).
  { intros [|j] Hj; try lia; reflexivity. }
  exact (native_args_menu F P re fuel NCall0 l [f] [AValue f] Hok Hst eq_refl eq_refl Hargs).
Qed.

(* run_function on a script function / closure of arity |args| with the stack  l ++ args: the nested `_run` is
   entered at the callee's label, with the value stack unchanged (the callee finds its arguments on top) and two
   frames whose stack offset is the height below the arguments *)
Theorem run_function_enters : forall P re cn (a : N) (s : state) (l args : list value) h ar ups (is_clo : bool) src,
  let fr := mkFrame src (last_pos P) (N.of_nat (length l)) (if is_clo then Some a else None) in
  stack_ok s -> stack_of s = l ++ args -> length args = N.to_nat ar ->
  hget (st_heap s) a = Some (callee_obj is_clo h ar ups) ->
  assoc h (p_labels P) = Some src ->
  S (length (st_calls s)) < call_stack_size ->
  (code_len P <> 0)%N ->
  run_function P re cn (VObj a) s
  = after_reenter (length (st_calls s)) (re src (set_calls s (fr :: fr :: st_calls s))).
Proof.
  intros P re cn a s l args h ar ups is_clo src fr Hok Hst Hlen Hobj Hlab Hroom Hcl.
  assert (Hsc : N.of_nat (scount s) = (N.of_nat (length l) + ar)%N).
  { rewrite (scount_abs Hok), Hst, app_length, Hlen. lia. }
  unfold run_function. rewrite Hobj.
  destruct is_clo; cbn [callee_obj];
    replace (code_len P =? 0)%N with false by (symmetry; apply N.eqb_neq; exact Hcl);
    rewrite Hlab; cbv zeta; rewrite Hsc;
    replace (N.of_nat (length l) + ar <? ar)%N with false by (symmetry; apply N.ltb_ge; lia);
    replace (N.of_nat (length l) + ar - ar)%N with (N.of_nat (length l)) by lia;
    fold fr; unfold push_frame;
    replace (call_stack_size <=? length (st_calls s)) with false by (symmetry; apply Nat.leb_gt; lia);
    cbn [st_calls set_calls];
    replace (call_stack_size <=? length (fr :: st_calls s)) with false
      by (symmetry; apply Nat.leb_gt; cbn [length]; lia);
    reflexivity.
Qed.

(* ------------------------------------------------------------------ *)
(* Instances of the generic statement                                  *)
(* ------------------------------------------------------------------ *)

(* the statement of VmProofs.native_args_sub2, now an instance *)
Corollary native_args_sub2_instance : forall F P re fuel s l v1 v2 a b,
  stack_ok s -> stack_of s = l ++ [v1; v2] ->
  to_i64 F (st_heap s) v1 = Some a -> to_i64 F (st_heap s) v2 = Some b ->
  exists s',
    call_native_fuel F P re (S fuel) (handle_of_bytes name_sub2) s = NOk (VInt (wrap_i64 (a - b))) s' /\
    stack_of s' = l ++ [VInt (wrap_i64 (a - b))] /\
    st_log s' = st_log s ++ [[TInt a; TInt b]] /\
    st_calls s' = st_calls s /\ st_globals s' = st_globals s /\ st_heap s' = st_heap s.
Proof.
  intros F P re fuel s l v1 v2 a b Hok Hst Ha Hb.
  destruct (native_args_menu_simple F P re fuel NSub2 l [v1; v2] [AInt a; AInt b] eq_refl Hok Hst eq_refl eq_refl)
    as (v & e & s' & Hr & Hcall & _ & Hs' & Hl & Hc & Hg & Hh).
  { intros [|[|j]] Hj; cbn [native_arity] in Hj; try lia; cbn [nth native_sig conv]; [rewrite Ha|rewrite Hb];
      reflexivity. }
  cbn [simple_result] in Hr. inversion Hr; subst v e. exists s'. repeat split; auto.
Qed.

(* cat2(a: &str, b: &str) *)
Corollary native_args_cat2 : forall F P re fuel s l v1 v2 a b,
  stack_ok s -> stack_of s = l ++ [v1; v2] ->
  as_str (st_heap s) v1 = SIs a -> as_str (st_heap s) v2 = SIs b ->
  exists s',
    call_native_fuel F P re (S fuel) (handle_of_bytes name_cat2) s = NOk (VInt (Z.of_nat (length a + length b))) s' /\
    stack_of s' = l ++ [VInt (Z.of_nat (length a + length b))] /\
    st_log s' = st_log s ++ [[TStr a; TStr b]] /\
    st_calls s' = st_calls s /\ st_globals s' = st_globals s /\ st_heap s' = st_heap s.
Proof.
  intros F P re fuel s l v1 v2 a b Hok Hst Ha Hb.
  destruct (native_args_menu_simple F P re fuel NCat2 l [v1; v2] [AStr a; AStr b] eq_refl Hok Hst eq_refl eq_refl)
    as (v & e & s' & Hr & Hcall & _ & Hs' & Hl & Hc & Hg & Hh).
  { intros [|[|j]] Hj; cbn [native_arity] in Hj; try lia; cbn [nth native_sig conv]; [rewrite Ha|rewrite Hb];
      reflexivity. }
  cbn [simple_result] in Hr. inversion Hr; subst v e. exists s'. repeat split; auto.
Qed.

(* cat2: the second parameter is converted first; a non-string first parameter is only reported when the second
   one is a string *)
Corollary native_conversion_error_cat2 : forall F P re fuel s l v1 v2,
  stack_ok s -> stack_of s = l ++ [v1; v2] ->
  (as_str (st_heap s) v2 = SNot \/ (as_str (st_heap s) v1 = SNot /\ exists b, as_str (st_heap s) v2 = SIs b)) ->
  exists s',
    call_native_fuel F P re (S fuel) (handle_of_bytes name_cat2) s
      = NErr (ETaskFailure name_cat2
                (EConversion (match as_str (st_heap s) v2 with SNot => 2 | _ => 1 end))) s' /\
    stack_of s' = l /\ st_calls s' = st_calls s /\ st_globals s' = st_globals s /\ st_heap s' = st_heap s /\
    st_log s' = st_log s.
Proof.
  intros F P re fuel s l v1 v2 Hok Hst H.
  destruct H as [H2 | (H1 & b & H2)]; rewrite H2.
  - destruct (native_conversion_error_menu F P re fuel NCat2 l [v1; v2] (j := 1) Hok Hst eq_refl)
      as (s' & Hcall & _ & Hs' & Hc & Hg & Hh & Hl).
    + cbn; lia.
    + cbn [nth native_sig conv]. rewrite H2. reflexivity.
    + intros j' H3 H4. cbn [native_arity] in H4. lia.
    + exists s'. repeat split; auto.
  - destruct (native_conversion_error_menu F P re fuel NCat2 l [v1; v2] (j := 0) Hok Hst eq_refl)
      as (s' & Hcall & _ & Hs' & Hc & Hg & Hh & Hl).
    + cbn; lia.
    + cbn [nth native_sig conv]. rewrite H1. reflexivity.
    + intros [|[|j']] H3 H4; cbn [native_arity] in H4; try lia. cbn [nth native_sig conv]. rewrite H2. eauto.
    + exists s'. repeat split; auto.
Qed.

(* tab1(t: &CaoLangTable) *)
Corollary native_args_tab1 : forall F P re fuel s l v a t,
  stack_ok s -> stack_of s = l ++ [v] -> get_table (st_heap s) v = TblOk a t ->
  exists s',
    call_native_fuel F P re (S fuel) (handle_of_bytes name_tab1) s = NOk (VInt (Z.of_nat (length (tkeys t)))) s' /\
    stack_of s' = l ++ [VInt (Z.of_nat (length (tkeys t)))] /\
    st_log s' = st_log s ++ [[TInt (Z.of_nat (length (tkeys t)))]] /\
    st_calls s' = st_calls s /\ st_globals s' = st_globals s /\ st_heap s' = st_heap s.
Proof.
  intros F P re fuel s l v a t Hok Hst Ht.
  destruct (native_args_menu_simple F P re fuel NTab1 l [v] [ATable a t] eq_refl Hok Hst eq_refl eq_refl)
    as (r & e & s' & Hr & Hcall & _ & Hs' & Hl & Hc & Hg & Hh).
  { intros [|j] Hj; cbn [native_arity] in Hj; try lia; cbn [nth native_sig conv]; rewrite Ht; reflexivity. }
  cbn [simple_result] in Hr. inversion Hr; subst r e. exists s'. repeat split; auto.
Qed.

(* log1(v: Value): any value is passed on as it is; the native sees its argument still on the stack *)
Corollary native_args_log1 : forall F P re fuel s l v,
  stack_ok s -> stack_of s = l ++ [v] ->
  exists s',
    call_native_fuel F P re (S fuel) (handle_of_bytes name_log1) s = NOk VNil s' /\
    stack_of s' = l ++ [VNil] /\
    st_log s' = st_log s ++ [[TInt (Z.of_nat (length l + 1)); TInt (Z.of_nat (length (st_calls s)));
                              tree_of F (st_heap s) v]] /\
    st_calls s' = st_calls s /\ st_globals s' = st_globals s /\ st_heap s' = st_heap s.
Proof.
  intros F P re fuel s l v Hok Hst.
  destruct (native_args_menu_simple F P re fuel NLog1 l [v] [AValue v] eq_refl Hok Hst eq_refl eq_refl)
    as (r & e & s' & Hr & Hcall & _ & Hs' & Hl & Hc & Hg & Hh).
  { intros [|j] Hj; cbn [native_arity] in Hj; try lia; reflexivity. }
  cbn [simple_result native_arity] in Hr. inversion Hr; subst r e. exists s'. repeat split; auto.
Qed.
