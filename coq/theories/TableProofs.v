(* CaoLangTable (Table.v) refines an insertion-ordered association list. *)
From Coq Require Import Arith Lia List Bool NArith ZArith FinFun.
Import ListNotations.
From Cao Require Import Table.

Set Implicit Arguments.

Lemma bytes_eqb_spec a b : reflect (a = b) (bytes_eqb a b).
Proof.
  revert b; induction a as [|x a IH]; intros [|y b]; cbn; try (constructor; congruence).
  destruct (N.eqb_spec x y) as [->|Hne]; cbn.
  - destruct (IH b) as [->|Hne]; constructor; congruence.
  - constructor. congruence.
Qed.

Lemma tkey_eqb_spec a b : reflect (a = b) (tkey_eqb a b).
Proof.
  destruct a, b; cbn; try (constructor; congruence).
  - destruct (Z.eqb_spec z z0); constructor; congruence.
  - destruct (N.eqb_spec bits bits0); constructor; congruence.
  - destruct (bytes_eqb_spec s s0); constructor; congruence.
Qed.

Lemma tkey_eqb_refl a : tkey_eqb a a = true.
Proof. destruct (tkey_eqb_spec a a); congruence. Qed.

Lemma tkey_eqb_sym a b : tkey_eqb a b = tkey_eqb b a.
Proof. destruct (tkey_eqb_spec a b), (tkey_eqb_spec b a); congruence. Qed.

Section TP.
  Variable V : Type.
  Variable vnil : V.
  Notation amap := (amap V).
  Notation otable := (otable V).
  Notation ctable := (ctable V).

  (* ---------- association-list facts ---------- *)
  Lemma m_get_del (m : amap) k k' :
    m_get (m_del m k) k' = if tkey_eqb k' k then None else m_get m k'.
  Proof.
    unfold m_del. induction m as [|[k0 v0] r IH]; cbn.
    - destruct (tkey_eqb k' k); reflexivity.
    - destruct (tkey_eqb_spec k k0) as [->|Hne]; cbn.
      + rewrite IH. destruct (tkey_eqb_spec k' k0); reflexivity.
      + rewrite IH. destruct (tkey_eqb_spec k' k0) as [->|H0]; [|reflexivity].
        destruct (tkey_eqb_spec k0 k); congruence.
  Qed.

  Lemma m_get_set (m : amap) k v k' :
    m_get (m_set m k v) k' = if tkey_eqb k' k then Some v else m_get m k'.
  Proof.
    unfold m_set. cbn. destruct (tkey_eqb_spec k' k) as [->|Hne]; [reflexivity|].
    rewrite m_get_del. destruct (tkey_eqb_spec k' k); congruence.
  Qed.

  Lemma m_get_none (s : amap) k : m_get s k = None <-> ~ In k (map fst s).
  Proof.
    induction s as [|[k0 v0] r IH]; cbn; [tauto|].
    destruct (tkey_eqb_spec k k0) as [->|Hne].
    - split; [discriminate|]. intros H. exfalso. apply H. auto.
    - rewrite IH. split; [intros H [E|E]; [congruence|tauto] | tauto].
  Qed.

  Lemma m_get_some_in (s : amap) k v : m_get s k = Some v -> In (k, v) s.
  Proof.
    induction s as [|[k0 v0] r IH]; cbn; [discriminate|].
    destruct (tkey_eqb_spec k k0) as [->|Hne]; [intros H; inversion H; auto|auto].
  Qed.

  Lemma m_get_in (s : amap) k v : NoDup (map fst s) -> In (k, v) s -> m_get s k = Some v.
  Proof.
    induction s as [|[k0 v0] r IH]; cbn; [tauto|]. intros Hnd [E|E].
    - inversion E; subst. rewrite tkey_eqb_refl. reflexivity.
    - inversion Hnd as [|? ? Hnotin Hnd']; subst.
      destruct (tkey_eqb_spec k k0) as [->|Hne]; [|auto].
      exfalso. apply Hnotin. change k0 with (fst (k0, v)). apply in_map. exact E.
  Qed.

  Lemma m_get_app (s1 s2 : amap) k :
    m_get (s1 ++ s2) k = match m_get s1 k with Some v => Some v | None => m_get s2 k end.
  Proof. induction s1 as [|[k0 v0] r IH]; cbn; [reflexivity|]. destruct (tkey_eqb k k0); auto. Qed.

  Lemma s_update_keys (s : otable) k v : map fst (s_update s k v) = map fst s.
  Proof.
    induction s as [|[k0 v0] r IH]; cbn; [reflexivity|].
    destruct (tkey_eqb k k0); cbn; [reflexivity|]. rewrite IH. reflexivity.
  Qed.

  Lemma m_get_update (s : otable) k v k' :
    m_get (s_update s k v) k' =
    if tkey_eqb k' k then match m_get s k with Some _ => Some v | None => None end else m_get s k'.
  Proof.
    induction s as [|[k0 v0] r IH]; cbn.
    - destruct (tkey_eqb k' k); reflexivity.
    - destruct (tkey_eqb_spec k k0) as [->|Hne]; cbn.
      + destruct (tkey_eqb_spec k' k0); reflexivity.
      + rewrite IH. destruct (tkey_eqb_spec k' k0) as [->|H0]; [|reflexivity].
        destruct (tkey_eqb_spec k0 k); congruence.
  Qed.

  Lemma m_get_filter (s : otable) k k' :
    m_get (filter (fun e => negb (tkey_eqb (fst e) k)) s) k' = if tkey_eqb k' k then None else m_get s k'.
  Proof.
    induction s as [|[k0 v0] r IH]; cbn.
    - destruct (tkey_eqb k' k); reflexivity.
    - destruct (tkey_eqb_spec k0 k) as [->|Hne]; cbn.
      + rewrite IH. destruct (tkey_eqb_spec k' k); reflexivity.
      + rewrite IH. destruct (tkey_eqb_spec k' k0) as [->|H0]; [|reflexivity].
        destruct (tkey_eqb_spec k0 k); congruence.
  Qed.

  Lemma map_fst_filter (s : otable) k :
    map fst (filter (fun e => negb (tkey_eqb (fst e) k)) s) = filter (fun k' => negb (tkey_eqb k' k)) (map fst s).
  Proof. induction s as [|[k0 v0] r IH]; cbn; [reflexivity|]. destruct (tkey_eqb k0 k); cbn; rewrite IH; reflexivity. Qed.

  Lemma NoDup_filter {A} (f : A -> bool) l : NoDup l -> NoDup (filter f l).
  Proof.
    induction 1 as [|x l Hx Hnd IH]; cbn; [constructor|].
    destruct (f x); [constructor; [rewrite filter_In; tauto|exact IH]|exact IH].
  Qed.

  Lemma NoDup_app_snoc {A} (l : list A) x : NoDup l -> ~ In x l -> NoDup (l ++ [x]).
  Proof.
    intros Hnd Hx. induction Hnd as [|y l Hy Hnd IH]; cbn.
    - constructor; [tauto|constructor].
    - constructor.
      + rewrite in_app_iff. cbn. intros [H|[H|[]]]; [tauto|]. apply Hx. left. symmetry. exact H.
      + apply IH. intros H. apply Hx. right. exact H.
  Qed.

  Lemma existsb_in (k : tkey) l : existsb (tkey_eqb k) l = true <-> In k l.
  Proof.
    rewrite existsb_exists. split.
    - intros [x [Hx He]]. destruct (tkey_eqb_spec k x); congruence.
    - intros H. exists k. split; [exact H|apply tkey_eqb_refl].
  Qed.

  (* ---------- the refinement relation ---------- *)
  Definition R (t : ctable) (s : otable) : Prop :=
    tb_keys t = map fst s /\ NoDup (map fst s) /\ forall k, m_get (tb_map t) k = m_get s k.

  Lemma R_empty : R (t_empty V) [].
  Proof. unfold R; cbn. repeat split; auto. constructor. Qed.

  Lemma append_search_find (m : amap) : forall fuel i,
    append_search m (Z.of_nat i) fuel =
    option_map Z.of_nat (find (fun j => match m_get m (KInt (Z.of_nat j)) with None => true | Some _ => false end)
                              (seq i fuel)).
  Proof.
    induction fuel as [|f IH]; intros i; cbn; [reflexivity|].
    destruct (m_get m (KInt (Z.of_nat i))); [|reflexivity].
    replace (Z.of_nat i + 1)%Z with (Z.of_nat (S i)) by lia. apply IH.
  Qed.

  Lemma find_ext {A} (f g : A -> bool) l : (forall x, f x = g x) -> find f l = find g l.
  Proof. intros H. induction l as [|x l IH]; cbn; [reflexivity|]. rewrite H, IH. reflexivity. Qed.

  (* pigeonhole: among the len+1 integer keys len .. 2 len one is unused *)
  Lemma append_key_exists (s : otable) : NoDup (map fst s) -> s_append_key s <> None.
  Proof.
    intros Hnd. unfold s_append_key.
    destruct (find _ (seq (length s) (S (length s)))) eqn:E; [discriminate|]. exfalso.
    assert (Hall : forall i, In i (seq (length s) (S (length s))) -> In (KInt (Z.of_nat i)) (map fst s)).
    { intros i Hi. pose proof (find_none _ _ E i Hi) as H. cbn in H.
      destruct (m_get s (KInt (Z.of_nat i))) eqn:G; [|discriminate].
      apply m_get_some_in in G. change (KInt (Z.of_nat i)) with (fst (KInt (Z.of_nat i), v)). apply in_map. exact G. }
    assert (Hincl : incl (map (fun i => KInt (Z.of_nat i)) (seq (length s) (S (length s)))) (map fst s)).
    { intros k Hk. apply in_map_iff in Hk. destruct Hk as [i [<- Hi]]. apply Hall. exact Hi. }
    assert (Hnd2 : NoDup (map (fun i => KInt (Z.of_nat i)) (seq (length s) (S (length s))))).
    { apply Injective_map_NoDup; [|apply seq_NoDup]. intros a b H. inversion H. lia. }
    pose proof (NoDup_incl_length Hnd2 Hincl) as Hlen.
    rewrite !map_length, seq_length in Hlen. lia.
  Qed.

  Lemma iter_is_spec (g : tkey -> option V) (s2 : otable) :
    (forall k v, In (k, v) s2 -> g k = Some v) ->
    flat_map (fun k => match g k with Some v => [(k, v)] | None => [] end) (map fst s2) = s2.
  Proof.
    induction s2 as [|[k v] r IH]; cbn; intros H; [reflexivity|].
    rewrite (H k v (or_introl eq_refl)). cbn. f_equal. apply IH. intros k' v' Hin. apply H. auto.
  Qed.

  Lemma insert_refines t s k v : R t s -> R (t_insert t k v) (s_insert s k v).
  Proof.
    intros (Hk & Hnd & Hg). unfold t_insert, s_insert. rewrite Hg.
    destruct (m_get s k) eqn:E; unfold R; cbn [tb_map tb_keys].
    - rewrite s_update_keys. repeat split; auto.
      intros k'. rewrite m_get_set, m_get_update, E, Hg. reflexivity.
    - rewrite map_app. cbn [map fst]. rewrite Hk. repeat split; auto.
      + apply NoDup_app_snoc. exact Hnd. apply m_get_none. exact E.
      + intros k'. rewrite m_get_set, m_get_app, Hg. cbn.
        destruct (tkey_eqb_spec k' k) as [->|Hne]; [rewrite E; reflexivity|].
        destruct (m_get s k'); reflexivity.
  Qed.

  Lemma remove_refines t s k : R t s -> R (t_remove t k) (s_remove s k).
  Proof.
    intros (Hk & Hnd & Hg). unfold t_remove, s_remove, R. cbn [tb_map tb_keys].
    rewrite map_fst_filter, Hk. split; [reflexivity|]. split; [apply NoDup_filter; exact Hnd|].
    intros k'. rewrite m_get_filter.
    destruct (existsb (tkey_eqb k) (map fst s)) eqn:E.
    - rewrite m_get_del, Hg. reflexivity.
    - rewrite Hg. destruct (tkey_eqb_spec k' k) as [->|Hne]; [|reflexivity].
      apply m_get_none. intros Hin. apply existsb_in in Hin. congruence.
  Qed.

  Lemma append_refines t s v : R t s ->
    exists i, s_append_key s = Some i /\ t_append t v = Some (t_insert t (KInt i) v).
  Proof.
    intros HR. pose proof HR as (Hk & Hnd & Hg).
    destruct (s_append_key s) as [i|] eqn:E; [|exfalso; eapply append_key_exists; eauto].
    exists i. split; [reflexivity|]. unfold t_append, t_len. rewrite Hk, map_length.
    rewrite append_search_find.
    rewrite (find_ext _ (fun j => match m_get s (KInt (Z.of_nat j)) with None => true | Some _ => false end));
      [|intros j; rewrite Hg; reflexivity].
    unfold s_append_key in E. rewrite E. reflexivity.
  Qed.

  Lemma rev_snoc_split {A} (l : list A) x r : rev l = x :: r -> l = rev r ++ [x].
  Proof. intros H. rewrite <- (rev_involutive l), H. reflexivity. Qed.

  Lemma pop_refines t s : R t s ->
    let '(t', v) := t_pop vnil t in
    match rev s with
    | [] => v = vnil /\ R t' s
    | (_, v') :: _ => v = v' /\ R t' (removelast s)
    end.
  Proof.
    intros (Hk & Hnd & Hg). unfold t_pop. rewrite Hk, <- map_rev.
    destruct (rev s) as [|[k v] r] eqn:E; cbn [map fst].
    - split; [reflexivity|]. unfold R. auto.
    - apply rev_snoc_split in E. subst s.
      rewrite map_app in *. cbn [map fst] in *.
      assert (Hkv : m_get (rev r ++ [(k, v)]) k = Some v).
      { apply m_get_in; [rewrite map_app; exact Hnd|]. apply in_or_app. right. left. reflexivity. }
      rewrite Hg, Hkv. split; [reflexivity|].
      rewrite !removelast_last. unfold R. cbn [tb_map tb_keys].
      apply NoDup_remove in Hnd. rewrite app_nil_r in Hnd. destruct Hnd as [Hnd Hnotin].
      split; [reflexivity|]. split; [exact Hnd|].
      intros k'. rewrite m_get_del, Hg, m_get_app. cbn.
      destruct (tkey_eqb_spec k' k) as [->|Hne].
      + symmetry. apply m_get_none. exact Hnotin.
      + destruct (m_get (rev r) k'); reflexivity.
  Qed.

  Theorem tb_step_refines t s o : R t s ->
    let '(t', x) := tb_step vnil t o in
    let '(s', y) := s_step vnil s o in
    x = y /\ R t' s' /\ x <> XDiverge V.
  Proof.
    intros HR. pose proof HR as (Hk & Hnd & Hg). destruct o; cbn [tb_step s_step].
    - split; [reflexivity|]. split; [apply insert_refines; exact HR|discriminate].
    - split; [reflexivity|]. split; [apply remove_refines; exact HR|discriminate].
    - destruct (append_refines v HR) as [i [E1 E2]]. rewrite E1, E2.
      split; [reflexivity|]. split; [apply insert_refines; exact HR|discriminate].
    - pose proof (pop_refines HR) as P. destruct (t_pop vnil t) as [t' v].
      destruct (rev s) as [|[k' v'] r]; destruct P as [-> HR']; (split; [reflexivity|]; split; [exact HR'|discriminate]).
    - unfold t_get. rewrite Hg. split; [reflexivity|]. split; [exact HR|discriminate].
    - unfold t_nth_key. rewrite Hk, nth_error_map. split; [reflexivity|]. split; [exact HR|discriminate].
    - unfold t_len. rewrite Hk, map_length. split; [reflexivity|]. split; [exact HR|discriminate].
    - unfold t_iter. rewrite Hk.
      rewrite (iter_is_spec (m_get (tb_map t)) s).
      + split; [reflexivity|]. split; [exact HR|discriminate].
      + intros k v Hin. rewrite Hg. apply m_get_in; assumption.
    - rewrite Hk. split; [reflexivity|]. split; [exact HR|discriminate].
  Qed.

  (* every history from an empty table *)
  Theorem tb_run_refines : forall ops t s, R t s ->
    let '(t', xs) := tb_run vnil t ops in
    let '(s', ys) := s_run vnil s ops in
    xs = ys /\ R t' s' /\ Forall (fun x => x <> XDiverge V) xs.
  Proof.
    induction ops as [|o r IH]; intros t s HR; cbn [tb_run s_run].
    - split; [reflexivity|]. split; [exact HR|constructor].
    - pose proof (tb_step_refines o HR) as P.
      destruct (tb_step vnil t o) as [t1 x]. destruct (s_step vnil s o) as [s1 y].
      destruct P as (-> & HR1 & Hx). specialize (IH t1 s1 HR1).
      destruct (tb_run vnil t1 r) as [t2 xs]. destruct (s_run vnil s1 r) as [s2 ys].
      destruct IH as (-> & HR2 & Hxs). split; [reflexivity|]. split; [exact HR2|]. constructor; assumption.
  Qed.

  (* the key chosen by append is the least integer >= the length that is not yet a key *)
  Theorem append_key_least (s : otable) i : s_append_key s = Some i ->
    (Z.of_nat (length s) <= i)%Z /\ m_get s (KInt i) = None /\
    forall j, (Z.of_nat (length s) <= j < i)%Z -> m_get s (KInt j) <> None.
  Proof.
    unfold s_append_key. set (P := fun j => match m_get s (KInt (Z.of_nat j)) with None => true | Some _ => false end).
    intros H. destruct (find P (seq (length s) (S (length s)))) as [n|] eqn:E; [|discriminate].
    cbn in H. inversion H; subst i; clear H.
    pose proof (find_some _ _ E) as [Hin Hp]. apply in_seq in Hin.
    split; [lia|]. split.
    - unfold P in Hp. destruct (m_get s (KInt (Z.of_nat n))); [discriminate|reflexivity].
    - intros j Hj.
      (* everything before the first hit fails the test *)
      assert (Hbefore : forall l m, find P l = Some m -> forall x, In x l -> P x = true -> ~ (x < m) \/ True) by (intros; right; exact I).
      clear Hbefore.
      assert (Hfirst : forall len start m, find P (seq start len) = Some m ->
                forall x, start <= x < m -> P x = false).
      { induction len as [|len IHl]; intros start m Hf x Hx; cbn in Hf; [discriminate|].
        destruct (P start) eqn:Ps.
        - inversion Hf; subst. lia.
        - destruct (Nat.eq_dec x start) as [->|Hne]; [exact Ps|]. apply (IHl (S start) m Hf). lia. }
      assert (Hjn : j = Z.of_nat (Z.to_nat j)) by lia.
      specialize (Hfirst _ _ _ E (Z.to_nat j) ltac:(lia)). unfold P in Hfirst. rewrite <- Hjn in Hfirst.
      destruct (m_get s (KInt j)); [discriminate|discriminate].
  Qed.
End TP.
