(* C01, simulation, fragment F9: compile_correct for programs with several functions, static calls with parameters (to
   functions declared later: no recursion) and Return.  Assembled from the compiler half (C01SimComp9: code and labels),
   the reference half (C01SimRef9: eval_program computes run_main9) and the VM half (C01SimF9b: fns_sim9 gives the VM
   meaning of the calls by induction over the function list, body_sim9 runs main's cards).
   Resources are explicit: depth_ok9 (the frames of one chain of calls fit the value stack and the call stack), the
   bytecode is shorter than 2^31, the budget is large enough. *)
From Coq Require Import List NArith ZArith Bool Lia.
From Cao Require Import ListUtil CheckUtil Bits CardAst Bytecode Compiler CompilerProofs CompilerWf CompilerResolve CompilerOk.
From Cao Require Import Stacks Vm VmProofs C04VmProofs C15Link.
From Cao Require RefSem TableProofs CompilerLabels.
From Cao Require Import C01SimKeep C01SimVm C01SimDefs C01SimRef C01SimF1 C01SimDefs2 C01SimF2 C01SimDefs4 C01SimDefs5 C01SimRef5 C01SimF5.
From Cao Require Import C01SimVm9 C01SimDefs9 C01SimF9 C01SimF9b C01SimComp9 C01SimRef9.
Import ListNotations.
Local Open Scope N_scope.

Arguments N.add : simpl never.
Arguments N.of_nat : simpl never.
Arguments N.to_nat : simpl never.

(* ------------------------------------------------------------------ main never returns *)
Section NoRet.
Variable cs : callsem9.
Variable sg : sig9.

Lemma no_ret_stmt9 c : forall Ln R g, stmt9 sg false Ln c = true -> forall w, fst (fst (run9 cs R g c)) <> ORet9 w.
Proof.
  induction c; intros Ln R g Hc w; cbn [stmt9] in Hc; try discriminate Hc; cbn [run9].
  - destruct op; try discriminate Hc; apply andb_true_iff in Hc; destruct Hc as [_ Hb];
      (destruct (ev (R ++ g) c1) as [x|]; [destruct (RefSem.v_bool [] x)|]; cbn [fst]; try discriminate; eapply IHc2; eauto).
  - destruct op; cbn [andb] in Hc; discriminate Hc.
  - destruct op; try discriminate Hc. apply andb_true_iff in Hc. destruct Hc as [Hc Hb].
    apply andb_true_iff in Hc. destruct Hc as [_ Ha].
    destruct (ev (R ++ g) c1) as [x|]; [destruct (RefSem.v_bool [] x)|]; cbn [fst]; try discriminate;
      [eapply IHc2 | eapply IHc3]; eauto.
  - destruct (run_rhs9 cs R g c) as [[x|] g1]; cbn [fst]; discriminate.
  - destruct (run_rhs9 cs R g c) as [[x|] g1]; cbn [fst]; discriminate.
Qed.

Lemma no_ret_top9 c Ln R g : top9 sg false Ln c = true -> forall w, fst (fst (run9 cs R g c)) <> ORet9 w.
Proof.
  destruct c; try (apply no_ret_stmt9).
  intros _ w. cbn [run9]. destruct (run_rhs9 cs R g c) as [[x|] g1]; cbn [fst]; discriminate.
Qed.

Lemma no_ret_cards9 cards : forall Ln R g, cards9 sg false Ln cards = true -> forall v, fst (fst (runs9 cs R g cards)) <> ORet9 v.
Proof.
  induction cards as [|c r IH]; intros Ln R g Hc v; cbn [runs9 cards9] in *; [cbn [fst]; discriminate|].
  apply andb_true_iff in Hc. destruct Hc as [Hc Hr].
  pose proof (no_ret_top9 c Ln R g Hc) as Hn. destruct (run9 cs R g c) as [[o1 R1] g1]. cbn [fst] in Hn.
  destruct o1; [eapply IH; eauto | exfalso; eapply Hn; reflexivity | cbn [fst]; discriminate].
Qed.
End NoRet.

(* ------------------------------------------------------------------ the table of function handles *)
Lemma sm_find_ftab : forall fs i0, snodup (map fst fs) = true -> forall j n f, nth_error fs j = Some (n, f) ->
  sm_find n (ftab_from i0 fs) = Some (handle_from_u64 (i0 + N.of_nat j), N.of_nat (length (f_args f)) mod two32).
Proof.
  induction fs as [|[m fm] r IH]; intros i0 Hnd [|j] n f Hj; cbn [nth_error] in Hj; try discriminate Hj.
  - injection Hj as -> ->. cbn [ftab_from sm_find]. rewrite str_eqb_refl. replace (i0 + N.of_nat 0) with i0 by lia. reflexivity.
  - cbn [map fst snodup] in Hnd. apply andb_true_iff in Hnd. destruct Hnd as [Hm Hr].
    cbn [ftab_from sm_find].
    destruct (str_eqb n m) eqn:E.
    + apply str_eqb_eq in E. subst m. exfalso. apply negb_true_iff in Hm.
      assert (X : smem n (map fst r) = true); [|congruence].
      unfold smem. apply existsb_exists. exists n. split; [|apply str_eqb_refl].
      apply in_map_iff. exists (n, f). split; [reflexivity | eapply nth_error_In; eauto].
    + replace (i0 + N.of_nat (S j)) with (i0 + 1 + N.of_nat j) by lia. exact (IH (i0 + 1) Hr j n f Hj).
Qed.

(* ------------------------------------------------------------------ the calls of a compiled program on the VM *)
Lemma f9_calls_ok F bld M B :
  in_f9 M = true ->
  compile M default_options = COk B ->
  N.of_nat (length (Compiler.p_ids B)) < two32 ->
  N.of_nat (length (Compiler.p_bytecode B)) < 2147483648 ->
  CompilerLabels.label_keys_distinct_module M 64 = true ->
  calls_ok9 F bld (C15Link.to_vm B) (Compiler.p_ids B) (gnames9 M) (ftab_of M)
            (sem9 (other_fns M)) (sig_of (other_fns M)) (need_fs (other_fns M)) (length (other_fns M)).
Proof.
  intros HM HB Hlen Hsmall Hdist.
  destruct (compile_f9_shape_code M B HM HB Hlen) as (rest & Hbc & Hnames & Tinj & Tlt & Hinj).
  pose proof (compile_f9_labels M B HM HB Hlen Hdist) as Hlabels.
  destruct M as [subs funs imps]. cbn [in_f9] in HM.
  destruct subs; [|discriminate]. destruct funs as [|[name f0] others]; [discriminate|]. destruct imps; [|discriminate].
  apply andb_true_iff in HM. destruct HM as [HM Hfns]. apply andb_true_iff in HM. destruct HM as [HM Hcards].
  apply andb_true_iff in HM. destruct HM as [HM Hnd]. apply andb_true_iff in HM. destruct HM as [_ Hargs].
  set (M := Module [] ((name, f0) :: others) []) in *.
  set (T := Compiler.p_ids B) in *. set (names := gnames9 M) in *. set (P := C15Link.to_vm B).
  set (FT := ftab_of M) in *. set (cards := f_cards f0) in *.
  set (cm := code_main9 T FT cards).
  assert (Hcode : p_code P = encode (cm ++ code_fns9 T FT (bytes cm) others ++ rest)).
  { change (p_code P) with (Compiler.p_bytecode B). rewrite Hbc. unfold code_all9. cbn [main_fn other_fns M].
    fold FT cards cm. rewrite <- !app_assoc. reflexivity. }
  assert (Psmall : code_len P < 2147483648) by exact Hsmall.
  assert (Hplaced : placed9 P T names FT others).
  { apply (placed9_intro P T names FT Psmall others 1 cm rest Hcode).
    - exact Hlabels.
    - intros j n f Hj. replace (1 + N.of_nat j) with (0 + N.of_nat (S j)) by lia.
      apply (sm_find_ftab ((name, f0) :: others) 0 Hnd (S j) n f Hj).
    - intros n f Hin x Hx.
      assert (Hxn : In x names).
      { unfold names, gnames9. cbn [m_functions M]. apply in_flat_map. exists (n, f). split; [right; exact Hin | exact Hx]. }
      split; [exact Hxn | apply Hnames, Hxn]. }
  cbn [other_fns M].
  exact (fns_sim9 F bld P T names FT Tlt Tinj Hinj Psmall others Hfns Hplaced).
Qed.

(* at the Return instruction of a callee the caller's part of the stack (and every frame under the callee's) is intact *)
Theorem f9_call_keeps_caller_stack F bld M B :
  in_f9 M = true ->
  compile M default_options = COk B ->
  N.of_nat (length (Compiler.p_ids B)) < two32 ->
  N.of_nat (length (Compiler.p_bytecode B)) < 2147483648 ->
  CompilerLabels.label_keys_distinct_module M 64 = true ->
  forall name n, sm_find name (sig_of (other_fns M)) = Some n ->
  exists h pos,
    sm_find name (ftab_of M) = Some (h, N.of_nat n mod two32) /\ Vm.assoc h (p_labels (C15Link.to_vm B)) = Some pos /\
    forall vals g gv below fr rest hp v g',
      length vals = n -> Forall simple vals -> grel (Compiler.p_ids B) (gnames9 M) g gv -> gsimple g ->
      N.to_nat (fr_off fr) = length below -> (length below + need_fs (other_fns M) < cap)%nat ->
      (length rest + length (other_fns M) < call_stack_size)%nat ->
      sem9 (other_fns M) name vals g = (Some v, g') ->
      exists k gv' fr' hp' ipr mid,
        steps9 F bld (C15Link.to_vm B) cap k (pos, below ++ map to_vm vals, gv, fr :: rest, hp)
               (ipr, below ++ mid ++ [to_vm v], gv', fr' :: rest, hp') /\
        fr_off fr' = fr_off fr /\ code_at (C15Link.to_vm B) ipr IReturn /\
        grel (Compiler.p_ids B) (gnames9 M) g' gv'.
Proof.
  intros HM HB Hlen Hsmall Hdist name n Hfind.
  destruct (f9_calls_ok F bld M B HM HB Hlen Hsmall Hdist name n Hfind) as (h & pos & A & _ & C & D).
  exists h, pos. split; [exact A|]. split; [exact C|].
  intros vals g gv below fr rest hp v g' L1 L2 L3 L4 L5 L6 L7 E.
  specialize (D vals g gv below fr rest hp L1 L2 L3 L4 L5 L6 L7). rewrite E in D.
  destruct D as (k & gv' & fr' & hp' & ipr & mid & D1 & D2 & D3 & D4 & _).
  exists k, gv', fr', hp', ipr, mid. auto.
Qed.

(* ------------------------------------------------------------------ the theorem *)
Theorem compile_correct_f9 F bld M B fuel host o :
  in_f9 M = true ->
  depth_ok9 M = true ->
  compile M default_options = COk B ->
  N.of_nat (length (Compiler.p_ids B)) < two32 ->
  N.of_nat (length (Compiler.p_bytecode B)) < 2147483648 ->
  CompilerLabels.label_keys_distinct_module M 64 = true ->
  RefSem.eval_program fuel M host = RefSem.PObs o ->
  exists N0 : nat, forall budget : nat, (N0 <= budget)%nat ->
    let r := Vm.run F bld budget (C15Link.to_vm B) fresh_state in
    vm_kind (fst r) = Some (RefSem.ob_kind o) /\
    forall n, no_collision (gnames9 M) n ->
      option_map vm_tree (read_var_by_name (C15Link.to_vm B) (snd r) n) = RefSem.assoc n (RefSem.ob_globals o).
Proof.
  intros HM Hdepth HB Hlen Hsmall Hdist Href.
  destruct (compile_f9_shape_code M B HM HB Hlen) as (rest & Hbc & Hnames & Tinj & Tlt & Hinj).
  pose proof (compile_f9_labels M B HM HB Hlen Hdist) as Hlabels.
  destruct (eval_program_f9 fuel M host o HM Href) as (g & Hrun & Hkind & Hgs & Hglob).
  destruct M as [subs funs imps]. cbn [in_f9] in HM.
  destruct subs; [|discriminate]. destruct funs as [|[name f0] others]; [discriminate|]. destruct imps; [|discriminate].
  apply andb_true_iff in HM. destruct HM as [HM Hfns]. apply andb_true_iff in HM. destruct HM as [HM Hcards].
  apply andb_true_iff in HM. destruct HM as [HM Hnd]. apply andb_true_iff in HM. destruct HM as [_ Hargs].
  assert (Ha : f_args f0 = []) by (destruct (f_args f0); [reflexivity | discriminate]).
  set (M := Module [] ((name, f0) :: others) []) in *.
  set (T := Compiler.p_ids B) in *. set (names := gnames9 M) in *. set (P := C15Link.to_vm B).
  set (FT := ftab_of M) in *. set (cards := f_cards f0) in *.
  set (ct := code_top9 T FT [] 0 cards). set (npop := length (names_end [] cards)).
  set (cm := code_main9 T FT cards).
  assert (Ecm : cm = ct ++ repeat IPop npop ++ [IExit]) by reflexivity.
  assert (Hcode : p_code P = encode (cm ++ code_fns9 T FT (bytes cm) others ++ rest)).
  { change (p_code P) with (Compiler.p_bytecode B). rewrite Hbc. unfold code_all9. cbn [main_fn other_fns M].
    fold FT cards cm. rewrite <- !app_assoc. reflexivity. }
  assert (Psmall : code_len P < 2147483648) by exact Hsmall.
  assert (Hnm : forall l, (forall x, In x l -> In x names) ->
                forall x, In x l -> In x names /\ nm_find (handle_of_bytes x) T <> None).
  { intros l Hl x Hx. split; [apply Hl, Hx | apply Hnames, Hl, Hx]. }
  (* the functions are where their handles and labels say *)
  assert (Hplaced : placed9 P T names FT others).
  { apply (placed9_intro P T names FT Psmall others 1 cm rest Hcode).
    - exact Hlabels.
    - intros j n f Hj. replace (1 + N.of_nat j) with (0 + N.of_nat (S j)) by lia.
      apply (sm_find_ftab ((name, f0) :: others) 0 Hnd (S j) n f Hj).
    - intros n f Hin. apply Hnm. intros x Hx. unfold names, gnames9. cbn [m_functions M].
      apply in_flat_map. exists (n, f). split; [right; exact Hin | exact Hx]. }
  pose proof (fns_sim9 F bld P T names FT Tlt Tinj Hinj Psmall others Hfns Hplaced) as Hcalls.
  unfold depth_ok9 in Hdepth. apply andb_true_iff in Hdepth. destruct Hdepth as [Hstack Hcd].
  apply Nat.ltb_lt in Hstack. apply Nat.ltb_lt in Hcd. cbn [m_functions M length] in Hcd.
  unfold stack_need9 in Hstack. cbn [m_functions M fold_right snd] in Hstack. fold (need_fs others) in Hstack.
  unfold frame_need9 in Hstack. rewrite Ha in Hstack. fold cards npop in Hstack.
  set (top0 := mkFrame 0 0 0 None).
  assert (Hdn : (length (@nil frame) + 1 + length others < call_stack_size)%nat) by (cbn [length]; lia).
  unfold run_main9 in Hrun. cbn [main_fn other_fns M] in Hrun. fold cards in Hrun.
  destruct (runs9 (sem9 others) [] [] cards) as [[out R'] g1] eqn:Eruns.
  assert (Hrel0 : grel T names [] []).
  { intros x _. unfold gread. cbn [RefSem.assoc option_map].
    destruct (nm_find (handle_of_bytes x) T) as [id|]; [|reflexivity]. destruct (N.to_nat id); reflexivity. }
  destruct (body_sim9 F bld P T names FT Tlt Tinj Hinj Psmall (sem9 others) (sig_of others) (need_fs others) (length others)
              Hcalls [] [] Hdn false cards [] [] out R' g1 Hcards Eruns [] [] top0 []) as [[_ Hsim] Hln].
  { exists (repeat IPop npop ++ [IExit] ++ code_fns9 T FT (bytes cm) others ++ rest).
    rewrite Hcode, Ecm. cbn [app lnames map bytes]. fold ct. rewrite <- !app_assoc. reflexivity. }
  { apply Hnm. intros x Hx. unfold names, gnames9. cbn [m_functions M flat_map snd]. apply in_or_app. left.
    unfold fn_gnames9. rewrite Ha. exact Hx. }
  { reflexivity. }
  { intros c Hin. pose proof (stmt_depth_le9 P Psmall cards c Hin). cbn [lnames map length Nat.add]. fold npop.
    unfold cap. lia. }
  { exact Hrel0. }
  { constructor. }
  change (bytes []) with 0 in Hsim. change (lnames []) with (@nil str) in *. fold ct in Hsim.
  change (lstack []) with (@nil value) in Hsim. cbn [app] in Hsim.
  assert (Hread : forall s' gv', st_globals s' = gv' -> grel T names g gv' ->
            forall x, no_collision names x ->
            option_map vm_tree (read_var_by_name P (set_calls s' []) x) = RefSem.assoc x (RefSem.ob_globals o)).
  { intros s' gv' Hg' Hrel x Hx. rewrite Hglob, assoc_map_tree, (Hrel x Hx). f_equal.
    unfold read_var_by_name, gread. cbn [st_globals set_calls]. rewrite Hg', assoc_nm_find. reflexivity. }
  assert (Hentry : forall budget re, Vm.run F bld budget P fresh_state =
            finish P (loop F bld P (re budget) budget 0 (set_rem (set_calls fresh_state calls0) (N.of_nat budget))) ->
            True) by (intros; exact I).
  clear Hentry.
  destruct out as [|vret|].
  - (* main ran to its end *)
    injection Hrun as Hb <-.
    assert (Ek : RefSem.ob_kind o = RefSem.KOk) by (destruct (RefSem.ob_kind o); [reflexivity | discriminate Hb]).
    destruct Hsim as (k & gv' & top' & hp' & Hsteps & _ & Hrel).
    specialize (Hln eq_refl).
    assert (Hnp : length (lstack R') = npop) by (rewrite lstack_length, <- (lnames_length R'), Hln; reflexivity).
    assert (Spop : seg P ct (repeat IPop (length (lstack R')))).
    { rewrite Hnp. exists ([IExit] ++ code_fns9 T FT (bytes cm) others ++ rest). rewrite Hcode, Ecm, <- !app_assoc. reflexivity. }
    pose proof (pops9 F bld P (length others) [] [] Hdn (lstack R') ct gv' [top'] hp' Spop) as Hpops. rewrite Hnp in Hpops.
    cbn [app] in Hpops.
    pose proof (steps9_trans F bld P cap _ _ _ _ _ Hsteps Hpops) as Hall.
    exists (k + npop + 2)%nat. intros budget Hbud r.
    set (re := run_at F bld P false (N.of_nat budget) 129).
    set (s2 := set_rem (set_calls fresh_state calls0) (N.of_nat budget)).
    assert (Hr : r = finish P (loop F bld P re budget 0 s2)).
    { subst r. unfold run, run_gen.
      change (push_frame fresh_state (mkFrame 0 0 0 None)) with (Some (set_calls fresh_state calls0)).
      change max_depth with (S 129). cbv beta iota zeta. rewrite run_at_S. cbn [st_rem set_rem]. rewrite Nat2N.id. reflexivity. }
    clearbody r. subst r.
    pose proof (St_entry (N.of_nat budget)) as HS2. fold s2 in HS2.
    destruct (loop_steps9 F bld P cap re _ _ _ Hall (budget - (k + npop)) s2 _ HS2) as (s' & HS' & El); [lia|].
    cbn [ip9 stk9 gl9 calls9 heap9] in HS', El. replace (k + npop + (budget - (k + npop)))%nat with budget in El by lia.
    assert (Hex : code_at P (bytes (ct ++ repeat IPop npop)) IExit).
    { apply (code_at_encode P (ct ++ repeat IPop npop) IExit (code_fns9 T FT (bytes cm) others ++ rest)).
      rewrite Hcode, Ecm, <- !app_assoc. reflexivity. }
    replace (budget - (k + npop))%nat with (S (budget - (k + npop) - 1)) in El by lia.
    destruct (@loop_exit F bld P cap _ _ _ _ re (budget - (k + npop) - 1) _ s' _ _ _ HS' Hex) as (s'' & Eex & _ & Hg''); [lia|].
    rewrite Eex in El.
    rewrite El. cbn [finish outcome_of fst snd vm_kind]. rewrite Ek. split; [reflexivity|].
    eapply Hread; eauto.
  - exfalso. pose proof (no_ret_cards9 (sem9 others) (sig_of others) cards [] [] [] Hcards vret) as X.
    rewrite Eruns in X. apply X. reflexivity.
  - injection Hrun as Hb <-.
    assert (Ek : RefSem.ob_kind o = RefSem.KErr RefSem.EVarNotFound).
    { destruct Hkind as [Hk|Hk]; [rewrite Hk in Hb; discriminate Hb | exact Hk]. }
    destruct Hsim as (k & c1 & Hsteps & Hfail & Hrel).
    exists (k + 2)%nat. intros budget Hbud r.
    set (re := run_at F bld P false (N.of_nat budget) 129).
    set (s2 := set_rem (set_calls fresh_state calls0) (N.of_nat budget)).
    assert (Hr : r = finish P (loop F bld P re budget 0 s2)).
    { subst r. unfold run, run_gen.
      change (push_frame fresh_state (mkFrame 0 0 0 None)) with (Some (set_calls fresh_state calls0)).
      change max_depth with (S 129). cbv beta iota zeta. rewrite run_at_S. cbn [st_rem set_rem]. rewrite Nat2N.id. reflexivity. }
    clearbody r. subst r.
    pose proof (St_entry (N.of_nat budget)) as HS2. fold s2 in HS2.
    destruct (loop_steps9 F bld P cap re _ _ _ Hsteps (budget - k) s2 _ HS2) as (s' & HS' & El); [lia|].
    cbn [ip9 stk9 gl9 calls9 heap9] in El. replace (k + (budget - k))%nat with budget in El by lia.
    replace (budget - k)%nat with (S (budget - k - 1)) in El by lia.
    destruct (loop_fail9 F bld P Psmall re (budget - k - 1) c1 s' _ Hfail HS') as (nm & s'' & Eerr & Hg''); [lia|].
    rewrite Eerr in El.
    rewrite El. cbn [finish outcome_of fst snd vm_kind kind_of_err]. rewrite Ek. split; [reflexivity|].
    eapply Hread; eauto.
Qed.
