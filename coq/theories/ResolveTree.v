(* C08: the flattening front end (into_ir_stream / flatten_module) enumerates exactly the functions of
   the module tree, in the order of ResolveSpec.tree_functions, and numbers them consecutively; hence
   the jump table built by stage 1 matches the tree ([table_matches]), and the meta data returned by
   resolve_function are the position (handle) and the arity of the function the specification
   designates. *)
From Coq Require Import List NArith ZArith Bool Lia.
From Cao Require Import ListUtil CheckUtil Bits CardAst Bytecode Compiler CompilerGen StdlibGen ResolveSpec
  CompilerResolve ResolveProofs.
Import ListNotations.
Local Open Scope N_scope.

(* ------------------------------------------------------------------ induction over module trees *)
Section ModInd.
  Variable P : module -> Prop.
  Hypothesis H : forall subs funs imps, Forall (fun nm => P (snd nm)) subs -> P (Module subs funs imps).
  Fixpoint module_ind' (m : module) : P m :=
    match m with
    | Module subs funs imps =>
        H subs funs imps
          ((fix all (l : list (str * module)) : Forall (fun nm => P (snd nm)) l :=
              match l with
              | [] => Forall_nil _
              | nm :: r => Forall_cons nm (module_ind' (snd nm)) (all r)
              end) subs)
    end.
End ModInd.

(* ------------------------------------------------------------------ sites and IR functions *)
Definition site_of (path : list str) (il : list str) (nf : str * function) : fsite :=
  {| fs_path := path; fs_name := fst nf; fs_fn := snd nf; fs_imports := il |}.

Definition ir_of (k : N) (st : fsite) (f : function_ir) : Prop :=
  fi_name f = fs_name st /\ fi_args f = f_args (fs_fn st) /\ fi_cards f = f_cards (fs_fn st) /\
  fi_ns f = fs_path st /\ execute_imports (fs_imports st) [] = inr (fi_imports f) /\
  fi_handle f = handle_from_u64 k /\ is_name_valid (fs_name st) = true.

Fixpoint irs_from (k : N) (sts : list fsite) (fs : list function_ir) : Prop :=
  match sts, fs with
  | [], [] => True
  | st :: sts', f :: fs' => ir_of k st f /\ irs_from (k + 1) sts' fs'
  | _, _ => False
  end.

Lemma irs_from_length : forall sts k fs, irs_from k sts fs -> length fs = length sts.
Proof.
  induction sts as [|st sts IH]; intros k [|f fs] H; cbn in H; try contradiction; [reflexivity|].
  cbn. f_equal. apply (IH _ _ (proj2 H)).
Qed.
Lemma irs_from_app : forall a k b fa fb,
  irs_from k a fa -> irs_from (k + N.of_nat (length a)) b fb -> irs_from k (a ++ b) (fa ++ fb).
Proof.
  induction a as [|st a IH]; intros k b [|f fa] fb Ha Hb; cbn [irs_from] in Ha; try contradiction.
  - cbn [length N.of_nat app] in *. rewrite N.add_0_r in Hb. exact Hb.
  - cbn [app irs_from]. destruct Ha as [H1 H2]. split; [exact H1|]. apply IH; [exact H2|].
    replace (k + 1 + N.of_nat (length a)) with (k + N.of_nat (length (st :: a))); [exact Hb|].
    cbn [length]. lia.
Qed.
Lemma irs_from_nth : forall sts k fs i st,
  irs_from k sts fs -> nth_error sts i = Some st ->
  exists f, nth_error fs i = Some f /\ ir_of (k + N.of_nat i) st f.
Proof.
  induction sts as [|st0 sts IH]; intros k [|f fs] i st H Hn; cbn [irs_from] in H; try contradiction.
  - destruct i; discriminate.
  - destruct i as [|i]; cbn [nth_error] in *.
    + injection Hn as <-. exists f. rewrite N.add_0_r. split; [reflexivity | exact (proj1 H)].
    + destruct (IH _ _ _ _ (proj2 H) Hn) as (g & Hg & Hi). exists g. split; [exact Hg|].
      replace (k + N.of_nat (S i)) with (k + 1 + N.of_nat i) by lia. exact Hi.
Qed.
Lemma irs_from_nth_rev : forall sts k fs i f,
  irs_from k sts fs -> nth_error fs i = Some f ->
  exists st, nth_error sts i = Some st /\ ir_of (k + N.of_nat i) st f.
Proof.
  induction sts as [|st0 sts IH]; intros k [|f0 fs] i f H Hn; cbn [irs_from] in H; try contradiction.
  - destruct i; discriminate.
  - destruct i as [|i]; cbn [nth_error] in *.
    + injection Hn as <-. exists st0. rewrite N.add_0_r. split; [reflexivity | exact (proj1 H)].
    + destruct (IH _ _ _ _ (proj2 H) Hn) as (g & Hg & Hi). exists g. split; [exact Hg|].
      replace (k + N.of_nat (S i)) with (k + 1 + N.of_nat i) by lia. exact Hi.
Qed.

(* ------------------------------------------------------------------ flatten_functions / flatten_module *)
Lemma flatten_functions_spec il funs : forall fid ns imports out n out' n',
  flatten_functions funs fid ns imports out n = inr (out', n') ->
  execute_imports il [] = inr imports ->
  exists irs, out' = rev irs ++ out /\ n' = n + N.of_nat (length irs) /\
              irs_from n (map (site_of ns il) funs) irs.
Proof.
  induction funs as [|[name f] r IH]; intros fid ns imports out n out' n' H Hi; cbn [flatten_functions] in H.
  - injection H as <- <-. exists []. cbn. split; [reflexivity|]. split; [lia | exact I].
  - destruct (is_name_valid name) eqn:Ev; cbn [negb] in H; [|discriminate].
    destruct (IH _ _ _ _ _ _ _ H Hi) as (irs & -> & -> & Hirs).
    eexists (_ :: irs). cbn [rev]. rewrite <- app_assoc. cbn [app]. split; [reflexivity|].
    split; [cbn [length]; lia|]. cbn [map irs_from]. split; [|exact Hirs].
    unfold ir_of, site_of. cbn. auto 10.
Qed.

Definition tree_subs (path : list str) :=
  fix go (l : list (str * module)) : list fsite :=
    match l with
    | [] => []
    | (n, sub) :: r => tree_functions sub (path ++ [n]) ++ go r
    end.

Lemma tree_functions_eq subs funs imps path :
  tree_functions (Module subs funs imps) path = map (site_of path imps) funs ++ tree_subs path subs.
Proof. reflexivity. Qed.

Lemma flatten_module_spec m : forall limit ns out n out' n',
  flatten_module m limit ns out n = inr (out', n') ->
  exists irs, out' = rev irs ++ out /\ n' = n + N.of_nat (length irs) /\ irs_from n (tree_functions m ns) irs.
Proof.
  induction m as [subs funs imps IHs] using module_ind'. intros limit ns out n out' n' H.
  rewrite tree_functions_eq. cbn [flatten_module] in H.
  destruct (limit <=? N.of_nat (length ns)); [discriminate|].
  destruct (execute_imports imps []) as [e|imports] eqn:Ei; [discriminate|].
  destruct (flatten_functions funs 0 ns imports out n) as [e|[out1 n1]] eqn:Ef; [discriminate|].
  destruct (flatten_functions_spec imps _ _ _ _ _ _ _ _ Ef Ei) as (irs1 & -> & -> & H1).
  assert (Hgo : forall subs0, Forall (fun nm => forall limit ns out n out' n',
                    flatten_module (snd nm) limit ns out n = inr (out', n') ->
                    exists irs, out' = rev irs ++ out /\ n' = n + N.of_nat (length irs) /\
                                irs_from n (tree_functions (snd nm) ns) irs) subs0 ->
            forall out n out' n',
              (fix go (l : list (str * module)) (out : list function_ir) (n : N) : cerr + (list function_ir * N) :=
                 match l with
                 | [] => inr (out, n)
                 | (name, sub) :: r =>
                     match flatten_module sub limit (ns ++ [name]) out n with
                     | inl e => inl e
                     | inr (out', n') => go r out' n'
                     end
                 end) subs0 out n = inr (out', n') ->
              exists irs, out' = rev irs ++ out /\ n' = n + N.of_nat (length irs) /\
                          irs_from n (tree_subs ns subs0) irs).
  { induction 1 as [|[name sub] r Hsub _ IHr]; intros out0 n0 out0' n0' Hg.
    - injection Hg as <- <-. exists []. cbn. split; [reflexivity|]. split; [lia | exact I].
    - cbn [snd] in Hsub. destruct (flatten_module sub limit (ns ++ [name]) out0 n0) as [e|[o1 k1]] eqn:Efm; [discriminate|].
      destruct (Hsub _ _ _ _ _ _ Efm) as (ia & -> & -> & Ha).
      destruct (IHr _ _ _ _ Hg) as (ib & -> & -> & Hb).
      exists (ia ++ ib). rewrite rev_app_distr, <- app_assoc. split; [reflexivity|].
      split; [rewrite app_length; lia|]. cbn [tree_subs]. apply irs_from_app; [exact Ha|].
      rewrite <- (irs_from_length _ _ _ Ha). exact Hb. }
  destruct (Hgo subs IHs _ _ _ _ H) as (irs2 & -> & -> & H2).
  exists (irs1 ++ irs2). rewrite rev_app_distr, <- app_assoc. split; [reflexivity|].
  split; [rewrite app_length; lia|]. apply irs_from_app; [exact H1|].
  rewrite <- (irs_from_length _ _ _ H1). exact H2.
Qed.

(* ------------------------------------------------------------------ the tree: find_module, lookup, positions *)
Definition find_sub (x : str) (p : list str) :=
  fix go (l : list (str * module)) : option module :=
    match l with
    | [] => None
    | (n, sub) :: r => if seq_eqb n x then find_module sub p else go r
    end.
Lemma find_module_cons subs funs imps x p :
  find_module (Module subs funs imps) (x :: p) = find_sub x p subs.
Proof. reflexivity. Qed.

Definition pos_sub (x : str) (p : list str) (name : str) :=
  fix go (l : list (str * module)) (base : nat) : option nat :=
    match l with
    | [] => None
    | (n, sub) :: r =>
        if seq_eqb n x then fn_position sub p name base
        else go r (base + count_functions sub)%nat
    end.
Lemma fn_position_cons subs funs imps x p name base :
  fn_position (Module subs funs imps) (x :: p) name base = pos_sub x p name subs (base + length funs)%nat.
Proof. reflexivity. Qed.

Definition count_subs :=
  fix go (l : list (str * module)) : nat :=
    match l with
    | [] => O
    | (_, sub) :: r => (count_functions sub + go r)%nat
    end.
Lemma count_functions_eq subs funs imps :
  count_functions (Module subs funs imps) = (length funs + count_subs subs)%nat.
Proof. reflexivity. Qed.

Lemma count_functions_length m : forall p, count_functions m = length (tree_functions m p).
Proof.
  induction m as [subs funs imps IHs] using module_ind'. intros p.
  rewrite count_functions_eq, tree_functions_eq, app_length, map_length. f_equal.
  induction IHs as [|[n sub] r Hsub _ IHr]; [reflexivity|]. cbn [count_subs tree_subs].
  rewrite app_length. cbn [snd] in Hsub. rewrite <- (Hsub (p ++ [n])), IHr. reflexivity.
Qed.

Lemma in_tree_subs p subs n sub st :
  In (n, sub) subs -> In st (tree_functions sub (p ++ [n])) -> In st (tree_subs p subs).
Proof.
  induction subs as [|[n0 s0] r IH]; intros Hin Hst; [destruct Hin|]. cbn [tree_subs]. apply in_or_app.
  destruct Hin as [E|Hin]; [injection E as -> ->; left; exact Hst | right; apply IH; assumption].
Qed.
Lemma in_tree_subs_inv p subs st :
  In st (tree_subs p subs) -> exists n sub, In (n, sub) subs /\ In st (tree_functions sub (p ++ [n])).
Proof.
  induction subs as [|[n0 s0] r IH]; intros H; [destruct H|]. cbn [tree_subs] in H. apply in_app_or in H.
  destruct H as [H|H]; [exists n0, s0; split; [left; reflexivity | exact H]|].
  destruct (IH H) as (n & sub & Hin & Hst). exists n, sub. split; [right; exact Hin | exact Hst].
Qed.

Lemma find_sub_in x p subs m' : find_sub x p subs = Some m' -> exists sub, In (x, sub) subs /\ find_module sub p = Some m'.
Proof.
  induction subs as [|[n sub] r IH]; intros H; cbn [find_sub] in H; [discriminate|].
  destruct (seq_eqb n x) eqn:E.
  - apply seq_eqb_eq in E. subst n. exists sub. split; [left; reflexivity | exact H].
  - destruct (IH H) as (s0 & Hin & Hf). exists s0. split; [right; exact Hin | exact Hf].
Qed.
Lemma find_sub_nodup x p subs sub :
  NoDup (map fst subs) -> In (x, sub) subs -> find_sub x p subs = find_module sub p.
Proof.
  induction subs as [|[n s0] r IH]; intros Hnd Hin; [destruct Hin|]. cbn [find_sub].
  cbn [map fst] in Hnd. inversion Hnd as [|? ? Hn Hr]; subst.
  destruct Hin as [E|Hin].
  - injection E as -> ->. rewrite seq_eqb_refl. reflexivity.
  - destruct (seq_eqb n x) eqn:E; [|apply IH; assumption].
    apply seq_eqb_eq in E. subst n. exfalso. apply Hn. apply in_map_iff. exists (x, sub). auto.
Qed.

(* a function that lookup finds is one of the enumerated sites *)
Lemma lookup_in_tree : forall rel m p m' nf,
  find_module m rel = Some m' -> In nf (m_functions m') ->
  In (site_of (p ++ rel) (m_imports m') nf) (tree_functions m p).
Proof.
  induction rel as [|x rel IH]; intros [subs funs imps] p m' nf Hf Hin.
  - cbn in Hf. injection Hf as <-. rewrite app_nil_r, tree_functions_eq. apply in_or_app. left.
    apply in_map. exact Hin.
  - rewrite find_module_cons in Hf. destruct (find_sub_in _ _ _ _ Hf) as (sub & Hs & Hfs).
    rewrite tree_functions_eq. apply in_or_app. right. apply (in_tree_subs p subs x sub); [exact Hs|].
    replace (p ++ x :: rel) with ((p ++ [x]) ++ rel) by (rewrite <- app_assoc; reflexivity).
    apply IH; assumption.
Qed.

(* submodule names pairwise distinct at every level (Module::ensure_invariants) *)
Lemma first_dup_none l : forall seen, first_dup seen l = None -> NoDup l /\ forall x, In x l -> ~ In x seen.
Proof.
  induction l as [|y l IH]; intros seen H; [split; [constructor | intros x []]|]. cbn [first_dup] in H.
  destruct (existsb (str_eqb y) seen) eqn:E; [discriminate|].
  destruct (IH _ H) as [Hnd Hdis]. split.
  - constructor; [|exact Hnd]. intros Hin. apply (Hdis y Hin). left; reflexivity.
  - intros x [<-|Hx] Hs.
    + assert (existsb (str_eqb y) seen = true) by (apply existsb_exists; exists y; split; [exact Hs | apply str_eqb_refl]).
      congruence.
    + apply (Hdis x Hx). right; exact Hs.
Qed.

Definition ensure_subs :=
  fix go (l : list (str * module)) : option str :=
    match l with
    | [] => None
    | (_, sub) :: r =>
        match ensure_invariants sub with
        | Some d => Some d
        | None => go r
        end
    end.
Lemma ensure_invariants_eq subs funs imps :
  ensure_invariants (Module subs funs imps) =
  match first_dup [] (map fst subs) with Some d => Some d | None => ensure_subs subs end.
Proof. reflexivity. Qed.
Lemma ensure_subs_in subs n sub : ensure_subs subs = None -> In (n, sub) subs -> ensure_invariants sub = None.
Proof.
  induction subs as [|[n0 s0] r IH]; intros H Hin; [destruct Hin|]. cbn [ensure_subs] in H.
  destruct (ensure_invariants s0) eqn:E; [discriminate|].
  destruct Hin as [Eq|Hin]; [injection Eq as -> ->; exact E | apply IH; assumption].
Qed.

(* an enumerated site is what lookup finds under its path *)
Lemma site_in_tree m : forall p st,
  ensure_invariants m = None -> In st (tree_functions m p) ->
  exists rel m', fs_path st = p ++ rel /\ find_module m rel = Some m' /\
                 In (fs_name st, fs_fn st) (m_functions m') /\ fs_imports st = m_imports m'.
Proof.
  induction m as [subs funs imps IHs] using module_ind'. intros p st He Hin.
  rewrite ensure_invariants_eq in He. destruct (first_dup [] (map fst subs)) eqn:Ed; [discriminate|].
  destruct (first_dup_none _ _ Ed) as [Hnd _].
  rewrite tree_functions_eq in Hin. apply in_app_or in Hin. destruct Hin as [Hin|Hin].
  - apply in_map_iff in Hin. destruct Hin as ([n f] & <- & Hnf). exists [], (Module subs funs imps).
    cbn. rewrite app_nil_r. auto.
  - destruct (in_tree_subs_inv _ _ _ Hin) as (n & sub & Hs & Hst).
    pose proof (proj1 (Forall_forall _ _) IHs (n, sub) Hs) as IH. cbn [snd] in IH.
    destruct (IH _ _ (ensure_subs_in _ _ _ He Hs) Hst) as (rel & m' & Hp & Hf & Hfn & Hi).
    exists (n :: rel), m'. rewrite Hp, <- app_assoc. split; [reflexivity|]. split; [|auto].
    rewrite find_module_cons, (find_sub_nodup n rel subs sub Hnd Hs). exact Hf.
Qed.

(* module names without dots: the paths of all sites are dot-free *)
Definition any_subs (f : nat -> module -> bool) (d : nat) :=
  fix go (l : list (str * module)) : bool :=
    match l with
    | [] => false
    | (_, sub) :: r => any_module f (S d) sub || go r
    end.
Lemma any_module_eq f d subs funs imps :
  any_module f d (Module subs funs imps) = f d (Module subs funs imps) || any_subs f d subs.
Proof. reflexivity. Qed.
Lemma any_subs_in f d subs n sub : any_subs f d subs = false -> In (n, sub) subs -> any_module f (S d) sub = false.
Proof.
  induction subs as [|[n0 s0] r IH]; intros H Hin; [destruct Hin|]. cbn [any_subs] in H.
  apply orb_false_iff in H. destruct H as [H1 H2].
  destruct Hin as [E|Hin]; [injection E as -> ->; exact H1 | apply IH; assumption].
Qed.

Definition dotted_sub (_ : nat) (m : module) : bool :=
  existsb (fun n => negb (is_dotless n)) (map fst (m_submodules m)).

Lemma site_path_dotfree m : forall d p st,
  any_module dotted_sub d m = false -> Forall dotfree p -> In st (tree_functions m p) -> Forall dotfree (fs_path st).
Proof.
  induction m as [subs funs imps IHs] using module_ind'. intros d p st Ha Hp Hin.
  rewrite any_module_eq in Ha. apply orb_false_iff in Ha. destruct Ha as [Ha1 Ha2].
  rewrite tree_functions_eq in Hin. apply in_app_or in Hin. destruct Hin as [Hin|Hin].
  - apply in_map_iff in Hin. destruct Hin as (nf & <- & _). exact Hp.
  - destruct (in_tree_subs_inv _ _ _ Hin) as (n & sub & Hs & Hst).
    pose proof (proj1 (Forall_forall _ _) IHs (n, sub) Hs) as IH. cbn [snd] in IH.
    apply (IH (S d) (p ++ [n]) st (any_subs_in _ _ _ _ _ Ha2 Hs)); [|exact Hst].
    apply Forall_app. split; [exact Hp|]. constructor; [|constructor].
    apply is_dotless_dotfree. unfold dotted_sub in Ha1. cbn [m_submodules] in Ha1.
    destruct (is_dotless n) eqn:E; [reflexivity|]. exfalso.
    assert (X : existsb (fun n => negb (is_dotless n)) (map fst subs) = true).
    { apply existsb_exists. exists n. split; [apply in_map_iff; exists (n, sub); auto | rewrite E; reflexivity]. }
    congruence.
Qed.

Lemma valid_name_dotfree n : is_name_valid n = true -> dotfree n.
Proof.
  unfold is_name_valid. intros H. apply andb_true_iff in H. destruct H as [H _].
  apply andb_true_iff in H. destruct H as [H _]. intros Hin.
  pose proof (proj1 (forallb_forall _ _) H dot Hin) as Hd. vm_compute in Hd. discriminate.
Qed.

(* ---- positions ---- *)
Lemma find_pos_spec name : forall funs base,
  existsb (fun nf => seq_eqb (fst nf) name) funs = true ->
  exists i fn, find_pos name funs base = Some (base + i)%nat /\
               find (fun nf => seq_eqb (fst nf) name) funs = Some (name, fn) /\
               nth_error funs i = Some (name, fn).
Proof.
  induction funs as [|[n f] r IH]; intros base H; cbn [existsb] in H; [discriminate|].
  cbn [find_pos find fst]. destruct (seq_eqb n name) eqn:E.
  - apply seq_eqb_eq in E. subst n. exists O, f. rewrite Nat.add_0_r. auto.
  - cbn [fst orb] in H. rewrite E in H. cbn [orb] in H. destruct (IH (S base) H) as (i & fn & H1 & H2 & H3).
    exists (S i), fn. rewrite Nat.add_succ_r. auto.
Qed.

Lemma nth_error_app_r {A} (a b : list A) i : nth_error (a ++ b) (length a + i) = nth_error b i.
Proof. rewrite nth_error_app2 by lia. f_equal. lia. Qed.

Lemma fn_position_spec name : forall path m p0 base m',
  find_module m path = Some m' -> has_function m' name = true ->
  exists pos fn, fn_position m path name base = Some (base + pos)%nat /\
                 find (fun nf => seq_eqb (fst nf) name) (m_functions m') = Some (name, fn) /\
                 nth_error (tree_functions m p0) pos = Some (site_of (p0 ++ path) (m_imports m') (name, fn)).
Proof.
  induction path as [|x path IH]; intros [subs funs imps] p0 base m' Hf Hh.
  - cbn in Hf. injection Hf as <-. cbn [fn_position m_functions]. unfold has_function in Hh. cbn [m_functions] in Hh.
    destruct (find_pos_spec name funs base Hh) as (i & fn & H1 & H2 & H3).
    exists i, fn. split; [exact H1|]. split; [exact H2|].
    rewrite tree_functions_eq, app_nil_r. rewrite nth_error_app1 by (rewrite map_length; apply nth_error_Some; congruence).
    rewrite nth_error_map, H3. reflexivity.
  - rewrite find_module_cons in Hf. rewrite fn_position_cons, tree_functions_eq.
    assert (G : forall subs0 b, find_sub x path subs0 = Some m' ->
              exists pos fn, pos_sub x path name subs0 b = Some (b + pos)%nat /\
                find (fun nf => seq_eqb (fst nf) name) (m_functions m') = Some (name, fn) /\
                nth_error (tree_subs p0 subs0) pos = Some (site_of (p0 ++ x :: path) (m_imports m') (name, fn))).
    { induction subs0 as [|[n sub] r IHr]; intros b Hfs; cbn [find_sub] in Hfs; [discriminate|].
      cbn [pos_sub tree_subs]. destruct (seq_eqb n x) eqn:E.
      - apply seq_eqb_eq in E. subst n. destruct (IH sub (p0 ++ [x]) b m' Hfs Hh) as (pos & fn & H1 & H2 & H3).
        exists pos, fn. split; [exact H1|]. split; [exact H2|].
        rewrite nth_error_app1 by (apply nth_error_Some; congruence).
        rewrite H3, <- app_assoc. reflexivity.
      - destruct (IHr (b + count_functions sub)%nat Hfs) as (pos & fn & H1 & H2 & H3).
        exists (count_functions sub + pos)%nat, fn. split; [rewrite H1; f_equal; lia|]. split; [exact H2|].
        rewrite (count_functions_length sub (p0 ++ [n])), nth_error_app_r. exact H3. }
    destruct (G subs (base + length funs)%nat Hf) as (pos & fn & H1 & H2 & H3).
    exists (length funs + pos)%nat, fn. split; [rewrite H1; f_equal; lia|]. split; [exact H2|].
    rewrite <- (map_length (site_of p0 imps) funs) at 1. rewrite nth_error_app_r. exact H3.
Qed.

(* ------------------------------------------------------------------ into_ir_stream *)
Lemma full_name_prefix f : fi_full_name f = ns_prefix (fi_ns f) ++ fi_name f.
Proof.
  unfold fi_full_name. generalize (fi_name f) as name. induction (fi_ns f) as [|x r IH]; intros name; [reflexivity|].
  destruct r as [|y r].
  - cbn [join_dot ns_prefix flat_map]. rewrite app_nil_r, <- app_assoc. reflexivity.
  - specialize (IH name). cbn [join_dot] in IH |- *. cbn [ns_prefix flat_map] in IH |- *.
    rewrite <- !app_assoc. cbn [app]. f_equal. f_equal. rewrite <- !app_assoc in IH. exact IH.
Qed.

Lemma in_upd_swap {A} (v xi : A) : forall t j x, nth_error t j = Some xi ->
  (In x (xi :: upd t j v) <-> In x (v :: t)).
Proof.
  induction t as [|y t IH]; intros j x H; [destruct j; discriminate|].
  destruct j as [|j]; cbn [nth_error upd] in *.
  - injection H as ->. cbn. tauto.
  - specialize (IH j x H). cbn in IH |- *. tauto.
Qed.
Lemma in_swap0 {A} (l : list A) i x : In x (swap0 l i) <-> In x l.
Proof.
  unfold swap0. destruct l as [|x0 t]; [tauto|]. destruct (nth_error (x0 :: t) i) as [xi|] eqn:E; [|tauto].
  destruct i as [|i]; cbn [nth_error] in E.
  - injection E as <-. cbn. tauto.
  - cbn [upd]. apply in_upd_swap, E.
Qed.

Lemma with_std_eq subs funs imps :
  with_std std_module (Module subs funs imps) = Module (subs ++ [(s_std, std_module)]) funs imps.
Proof. reflexivity. Qed.

Theorem into_ir_stream_spec M limit fs :
  into_ir_stream M limit = inr fs ->
  ensure_invariants (with_std std_module M) = None /\
  exists irs i, fs = swap0 irs i /\ irs_from 0 (tree_functions (with_std std_module M) []) irs.
Proof.
  destruct M as [subs funs imps]. rewrite with_std_eq. unfold into_ir_stream. intros H.
  destruct (ensure_invariants (Module (subs ++ [(s_std, std_module)]) funs imps)) eqn:Ee; [discriminate|].
  split; [reflexivity|].
  destruct (find_index (fun nf => str_eqb (fst nf) s_main) funs 0) as [mi|]; [|discriminate].
  destruct (flatten_module _ limit [] [] 0) as [e|[out n]] eqn:Ef; [discriminate|]. injection H as <-.
  destruct (flatten_module_spec _ _ _ _ _ _ _ Ef) as (irs & -> & _ & Hirs).
  exists irs, mi. rewrite app_nil_r, rev_involutive. auto.
Qed.

(* ------------------------------------------------------------------ the jump table matches the tree *)
Lemma lookup_some root p g x : lookup root p g = Some x ->
  exists m', find_module root p = Some m' /\ has_function m' g = true /\ x = (p, g).
Proof.
  unfold lookup. destruct (find_module root p) as [m'|]; [|discriminate].
  destruct (has_function m' g) eqn:E; [|discriminate]. intros H. injection H as <-. eauto.
Qed.

Lemma has_function_in m' name fn : In (name, fn) (m_functions m') -> has_function m' name = true.
Proof.
  intros H. unfold has_function. apply existsb_exists. exists (name, fn). split; [exact H | apply seq_eqb_refl].
Qed.

Theorem tree_table_matches root irs fs jt :
  ensure_invariants root = None -> module_names_dotfree root = true ->
  irs_from 0 (tree_functions root []) irs -> (forall f, In f fs <-> In f irs) ->
  table_of fs jt -> table_matches root jt.
Proof.
  intros He Hd Hirs Hperm (_ & Hin & Hout) key.
  unfold module_names_dotfree in Hd. apply negb_true_iff in Hd.
  split.
  - (* no entry -> not declared *)
    intros Hnone. destruct (declared root key) as [x|] eqn:Ed; [exfalso|reflexivity].
    unfold declared in Ed. destruct (lookup_some _ _ _ _ Ed) as (m' & Hf & Hh & _).
    destruct (fn_position_spec _ _ root [] O m' Hf Hh) as (pos & fn & _ & _ & Hn).
    destruct (irs_from_nth _ _ _ _ _ Hirs Hn) as (f & Hnf & Hir).
    destruct Hir as (E1 & _ & _ & E4 & _). cbn in E1, E4.
    assert (Hk : fi_full_name f = key) by (rewrite full_name_prefix, E1, E4; apply join_segments).
    apply nth_error_In in Hnf. apply Hperm in Hnf. rewrite <- Hk, (Hin f Hnf) in Hnone. discriminate.
  - (* not declared -> no entry *)
    intros Hnd. destruct (sm_find key jt) as [m|] eqn:E; [exfalso|reflexivity].
    destruct (Hout key m E) as (f & Hf & -> & _). apply Hperm in Hf.
    apply In_nth_error in Hf. destruct Hf as [i Hi].
    destruct (irs_from_nth_rev _ _ _ _ _ Hirs Hi) as (st & Hst & (E1 & _ & _ & E4 & _ & _ & Ev)).
    apply nth_error_In in Hst.
    pose proof (site_path_dotfree root O [] st Hd (Forall_nil _) Hst) as Hp.
    destruct (site_in_tree root [] st He Hst) as (rel & m' & Hrel & Hfm & Hfn & _). cbn [app] in Hrel.
    unfold declared in Hnd. rewrite full_name_prefix, E1, E4 in Hnd.
    rewrite segments_ns_prefix in Hnd by exact Hp.
    rewrite (segments_dotfree _ (valid_name_dotfree _ Ev)) in Hnd.
    rewrite removelast_last, last_last in Hnd. unfold lookup in Hnd. rewrite Hrel, Hfm in Hnd.
    rewrite (has_function_in _ _ _ Hfn) in Hnd. discriminate.
Qed.

Theorem compile_table_matches M limit fs d s1 :
  into_ir_stream M limit = inr fs -> module_names_dotfree (with_std std_module M) = true ->
  stage_1 fs (init_state d) = ROk tt s1 ->
  table_matches (with_std std_module M) (cs_jump s1).
Proof.
  intros Hi Hd H1. destruct (into_ir_stream_spec _ _ _ Hi) as (He & irs & i & -> & Hirs).
  eapply tree_table_matches; eauto; [intros f; apply in_swap0 | eapply stage_1_ok_table; eauto].
Qed.

(* ------------------------------------------------------------------ what resolve_function returns *)
Lemma spec_found_lookup root ns il name f : spec_resolve root ns il name = SFound f -> lookup root (fst f) (snd f) = Some f.
Proof.
  unfold spec_resolve. cbv zeta.
  assert (L : forall p g b, or_else (lookup root p g) b = SFound f -> lookup root p g = None -> b = SFound f).
  { intros p g b H E. rewrite E in H. exact H. }
  assert (K : forall p g, lookup root p g = Some f -> lookup root (fst f) (snd f) = Some f).
  { intros p g H. pose proof (lookup_id _ _ _ _ H) as ->. exact H. }
  intros H.
  destruct (lookup root (removelast (segments name)) (last (segments name) [])) eqn:E1.
  { cbn in H. injection H as ->. eapply K; eauto. }
  cbn [or_else] in H.
  destruct (lookup root (ns ++ removelast (segments name)) (last (segments name) [])) eqn:E2.
  { cbn in H. injection H as ->. eapply K; eauto. }
  cbn [or_else] in H.
  destruct (removelast (segments name)) as [|q mrest].
  - destruct (import_for il (last (segments name) [])) as [isegs|]; [|discriminate].
    destruct (strip_supers (removelast isegs)) as [ups mpath]. destruct (Nat.ltb (length ns) ups); [discriminate|].
    match type of H with or_else (lookup root ?p ?g) _ = _ => destruct (lookup root p g) eqn:E3 end; [|discriminate].
    cbn in H. injection H as ->. eapply K; eauto.
  - destruct (import_for il q) as [isegs|]; [|discriminate].
    destruct (strip_supers (removelast isegs)) as [ups mpath]. destruct (Nat.ltb (length ns) ups); [discriminate|].
    match type of H with or_else (lookup root ?p ?g) _ = _ => destruct (lookup root p g) eqn:E3 end; [|discriminate].
    cbn in H. injection H as ->. eapply K; eauto.
Qed.

(* the meta data of the entry of a declared function: its position in the compiler's order (as a
   handle) and its arity *)
Theorem entry_is_position root irs fs jt p g m :
  irs_from 0 (tree_functions root []) irs -> (forall f, In f fs <-> In f irs) -> table_of fs jt ->
  lookup root p g = Some (p, g) -> sm_find (ns_prefix p ++ g) jt = Some m ->
  exists pos fn, fn_position root p g 0 = Some pos /\ function_at root (p, g) = Some fn /\
                 fm_handle m = handle_from_u64 (N.of_nat pos) /\
                 fm_arity m = N.of_nat (length (f_args fn)) mod two32.
Proof.
  intros Hirs Hperm (_ & Hin & _) Hl Hm.
  destruct (lookup_some _ _ _ _ Hl) as (m' & Hf & Hh & _).
  destruct (fn_position_spec g p root [] O m' Hf Hh) as (pos & fn & H1 & H2 & H3).
  exists pos, fn. split; [exact H1|]. split; [unfold function_at; cbn [fst snd]; rewrite Hf, H2; reflexivity|].
  destruct (irs_from_nth _ _ _ _ _ Hirs H3) as (f & Hnf & (E1 & E2 & _ & E4 & _ & E6 & _)). cbn in E1, E2, E4.
  apply nth_error_In in Hnf. apply Hperm in Hnf. specialize (Hin f Hnf).
  rewrite full_name_prefix, E1, E4, Hm in Hin. injection Hin as ->. cbn [meta_of fm_handle fm_arity].
  rewrite E6, E2. auto.
Qed.
