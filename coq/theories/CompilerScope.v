(* C10, scoping of the index operands at the point where the compiler produces them.  The bytecode
   does not declare how many locals a function has, so "the index refers to an existing local of its
   function at that point" is not a property of the output alone; what is proved here, about the
   operations of the model that produce index operands:
   - add_local_unchecked returns the slot it has just created (the old number of locals);
   - resolve_var returns VLocal i / VUpvalue k with i, k inside the locals / upvalues of the function
     being compiled, in the state it returns;
   - resolve_upvalue keeps the upvalue lists linked: an entry (is_local = true, index) of a function
     refers to an existing local of the enclosing function, an entry (false, index) to an existing
     upvalue of the enclosing function (these are the pairs RegisterUpvalue is emitted with);
   - the operand of a CloseUpvalue emitted by scope_end is the slot of one of the locals that go out
     of scope (at least the number of survivors, below the number of locals before).
   Threading these to a statement about every emission inside process_card needs an instrumented copy
   of process_card (the model has no hook at push_instr); that is not done. *)
From Coq Require Import List NArith ZArith Bool Lia.
From Cao Require Import ListUtil CheckUtil Bits CardAst Bytecode Compiler CompilerGen Wellformed
     CompilerProofs CompilerWf CompilerOk.
Import ListNotations.
Local Open Scope N_scope.

Definition nlocals (s : cstate) : N := N.of_nat (length (hd [] (cs_locals s))).
Definition nupvalues (s : cstate) : N := N.of_nat (length (hd [] (cs_upvalues s))).

Lemma add_local_unchecked_slot x s i s' :
  cs_locals s <> [] -> add_local_unchecked x s = ROk i s' ->
  i = nlocals s /\ nlocals s' = nlocals s + 1 /\ i < 255.
Proof.
  intros Hne H. unfold add_local_unchecked in H.
  destruct (Nat.leb_spec locals_cap (length (hd [] (cs_locals s)))) as [Hge|Hlt]; [discriminate|].
  injection H as <- <-. unfold nlocals. cbn [cs_locals set_scopes].
  destruct (cs_locals s) as [|l r]; [contradiction|]. cbn [map_hd hd]. rewrite app_length. cbn [length].
  unfold locals_cap in Hlt. cbn [hd] in Hlt. lia.
Qed.

Lemma add_local_slot x s i s' :
  cs_locals s <> [] -> add_local x s = ROk i s' ->
  i = nlocals s /\ nlocals s' = nlocals s + 1 /\ i < 255.
Proof.
  intros Hne H. unfold add_local, bind, validate_var_name in H.
  destruct (is_empty x); [discriminate|]. cbn in H. apply (add_local_unchecked_slot x s i s' Hne H).
Qed.

(* ---- resolve_upvalue ---- *)
Lemma add_upvalue_index ups idx loc k ups' :
  add_upvalue ups idx loc = Some (k, ups') ->
  (k < N.of_nat (length ups'))%N /\ (length ups <= length ups')%nat /\
  (forall u, In u ups' -> In u ups \/ (u_is_local u = loc /\ u_index u = idx)).
Proof.
  intros H. unfold add_upvalue in H.
  destruct (find_index _ ups 0) as [i|] eqn:E.
  - injection H as <- <-. apply find_index_lt in E. split; [lia|]. split; [lia|]. auto.
  - destruct (Nat.leb upvalues_cap (length ups)); [discriminate|]. injection H as <- <-.
    rewrite app_length. cbn [length]. split; [lia|]. split; [lia|].
    intros u Hu. apply in_app_or in Hu. destruct Hu as [Hu|[<-|[]]]; auto.
Qed.

(* an upvalue entry of a function refers to a slot of the enclosing function *)
Definition link (parent : list local) (uparent : list upvalue) (u : upvalue) : Prop :=
  if u_is_local u then u_index u < N.of_nat (length parent) else u_index u < N.of_nat (length uparent).

Inductive frames_ok : list (list local) -> list (list upvalue) -> Prop :=
| fo_nil : frames_ok [] []
| fo_one l u : frames_ok [l] [u]
| fo_cons cur parent rest ucur uparent urest :
    Forall (link parent uparent) ucur -> frames_ok (parent :: rest) (uparent :: urest) ->
    frames_ok (cur :: parent :: rest) (ucur :: uparent :: urest).

Lemma link_mono parent uparent parent' uparent' u :
  length parent' = length parent -> (length uparent <= length uparent')%nat ->
  link parent uparent u -> link parent' uparent' u.
Proof. unfold link. intros E Hle. destruct (u_is_local u); lia. Qed.

(* the head function's locals can change freely: nothing refers to them *)
Lemma frames_ok_hd l l' r us : frames_ok (l :: r) us -> frames_ok (l' :: r) us.
Proof. intros H. inversion H; subst; constructor; auto. Qed.

Lemma resolve_upvalue_frames name : forall locs ups v locs' ups',
  resolve_upvalue name locs ups = Some (v, locs', ups') -> length locs' = length locs /\ length ups' = length ups.
Proof.
  induction locs as [|cur below IH]; intros ups v locs' ups' H; cbn [resolve_upvalue] in H.
  { injection H as <- <- <-. auto. }
  destruct below as [|parent rest]; [injection H as <- <- <-; auto|].
  destruct ups as [|ucur ubelow]; [injection H as <- <- <-; auto|].
  destruct (rfind_index _ parent 0 None) as [i|].
  - destruct (add_upvalue ucur _ true) as [[k ucur']|]; [|discriminate]. injection H as <- <- <-. auto.
  - destruct (resolve_upvalue name (parent :: rest) ubelow) as [[[v0 below'] ubelow']|] eqn:Er; [|discriminate].
    destruct (IH _ _ _ _ Er) as [L1 L2].
    destruct v0.
    + injection H as <- <- <-. cbn [length]. auto.
    + injection H as <- <- <-. cbn [length]. auto.
    + destruct (add_upvalue ucur _ false) as [[k ucur']|]; [|discriminate]. injection H as <- <- <-.
      cbn [length]. auto.
Qed.

Lemma resolve_upvalue_linked name : forall locs ups v locs' ups',
  frames_ok locs ups -> resolve_upvalue name locs ups = Some (v, locs', ups') ->
  frames_ok locs' ups' /\
  length (hd [] locs') = length (hd [] locs) /\ (length (hd [] ups) <= length (hd [] ups'))%nat /\
  match v with
  | VLocal _ => False
  | VUpvalue k => k < N.of_nat (length (hd [] ups'))
  | VGlobal => True
  end.
Proof.
  induction locs as [|cur below IH]; intros ups v locs' ups' Hf H; cbn [resolve_upvalue] in H.
  { injection H as <- <- <-. auto. }
  destruct below as [|parent rest]; [injection H as <- <- <-; auto|].
  destruct ups as [|ucur ubelow]; [injection H as <- <- <-; auto|].
  inversion Hf as [| |? ? ? ? uparent urest Hl Hbelow]; subst.
  destruct (rfind_index _ parent 0 None) as [i|] eqn:Ef.
  - destruct (add_upvalue ucur (N.of_nat i mod 256) true) as [[k ucur']|] eqn:Ea; [|discriminate].
    injection H as <- <- <-. destruct (add_upvalue_index _ _ _ _ _ Ea) as (Hk & Hlen & Hnew).
    cbn [hd]. split; [|auto].
    apply rfind_index_lt in Ef. destruct Ef as [Ef|Ef]; [|discriminate].
    pose proof (mark_captured_length parent i) as Hm.
    assert (Hb' : frames_ok (mark_captured parent i :: rest) (uparent :: urest)).
    { eapply frames_ok_hd. exact Hbelow. }
    constructor; [|exact Hb'].
    apply Forall_forall. intros u Hu. destruct (Hnew u Hu) as [Hold|[Hloc Hidx]].
    + rewrite Forall_forall in Hl. eapply link_mono; [exact Hm | apply le_n | apply Hl, Hold].
    + unfold link. rewrite Hloc, Hidx, Hm.
      pose proof (N.mod_le (N.of_nat i) 256 ltac:(discriminate)). lia.
  - destruct (resolve_upvalue name (parent :: rest) (uparent :: urest)) as [[[v0 below'] ubelow']|] eqn:Er;
      [|discriminate].
    destruct (IH (uparent :: urest) v0 below' ubelow' Hbelow Er) as (Hb' & Hlp & Hlu & Hv0).
    cbn [hd] in Hlp, Hlu.
    assert (Hshape : exists parent' rest' uparent' urest', below' = parent' :: rest' /\ ubelow' = uparent' :: urest').
    { destruct (resolve_upvalue_frames _ _ _ _ _ _ Er) as [L1 L2].
      destruct below' as [|parent' rest']; [discriminate|]. destruct ubelow' as [|uparent' urest']; [discriminate|].
      do 4 eexists. split; reflexivity. }
    destruct Hshape as (parent' & rest' & uparent' & urest' & -> & ->). cbn [hd] in *.
    assert (Hl' : Forall (link parent' uparent') ucur).
    { eapply Forall_impl; [|exact Hl]. intros u. apply link_mono; auto. }
    destruct v0 as [|i|i]; [| contradiction |].
    + injection H as <- <- <-. cbn [hd]. split; [constructor; auto | auto].
    + destruct (add_upvalue ucur (i mod 256) false) as [[k ucur']|] eqn:Ea; [|discriminate].
      injection H as <- <- <-. destruct (add_upvalue_index _ _ _ _ _ Ea) as (Hk & Hlen & Hnew).
      cbn [hd]. split; [|auto]. constructor; [|exact Hb'].
      apply Forall_forall. intros u Hu. destruct (Hnew u Hu) as [Hold|[Hloc Hidx]].
      * rewrite Forall_forall in Hl'. apply Hl', Hold.
      * unfold link. rewrite Hloc, Hidx.
        pose proof (N.mod_le i 256 ltac:(discriminate)). lia.
Qed.

Theorem resolve_var_in_scope x s v s' :
  frames_ok (cs_locals s) (cs_upvalues s) ->
  resolve_var x s = ROk v s' ->
  frames_ok (cs_locals s') (cs_upvalues s') /\
  match v with
  | VLocal i => i < nlocals s' /\ nlocals s' = nlocals s
  | VUpvalue k => k < nupvalues s' /\ nlocals s' = nlocals s
  | VGlobal => nlocals s' = nlocals s
  end.
Proof.
  intros Hf H. unfold resolve_var, bind, validate_var_name in H.
  destruct (is_empty x); [discriminate|]. cbn [ret] in H.
  destruct (rfind_index _ (hd [] (cs_locals s)) 0 None) as [i|] eqn:E.
  - injection H as <- <-. split; [exact Hf|]. apply rfind_index_lt in E.
    destruct E as [E|E]; [|discriminate]. unfold nlocals. split; [lia | reflexivity].
  - destruct (resolve_upvalue x (cs_locals s) (cs_upvalues s)) as [[[v0 ls] us]|] eqn:Er; [|discriminate].
    injection H as <- <-. destruct (resolve_upvalue_linked _ _ _ _ _ _ Hf Er) as (Hf' & Hl & _ & Hv).
    unfold nlocals, nupvalues. cbn [cs_locals cs_upvalues set_scopes]. split; [exact Hf'|].
    rewrite Hl. destruct v0; [reflexivity | contradiction | auto].
Qed.

(* ---- scope_end ---- *)
Definition close_slot (lo hi : nat) (i : instr) : Prop :=
  match i with ICloseUpvalue x => N.of_nat lo <= x < N.of_nat hi | _ => True end.

Lemma pop_locals_survivors rls d : (length (fst (pop_locals rls d)) <= length rls)%nat.
Proof. apply pop_locals_length. Qed.

Theorem pop_locals_close_slot rls d :
  Forall (close_slot (length (fst (pop_locals rls d))) (length rls)) (snd (pop_locals rls d)).
Proof.
  induction rls as [|l r IH]; cbn [pop_locals]; [constructor|].
  destruct (d <? l_depth l)%Z; [|constructor].
  pose proof (pop_locals_length r d) as Hle.
  destruct (pop_locals r d) as [r' is]. cbn [fst snd length] in *. constructor.
  - destruct (l_captured l); cbn; [lia | exact I].
  - eapply Forall_impl; [|exact IH]. intros i. destruct i; cbn; auto. lia.
Qed.
