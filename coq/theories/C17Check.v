(* C17 correspondence checker: histories of (program, budget, maybe clear, run) on ONE Vm, every step also run on
   a FRESH Vm by the harness (harness/src/c17.rs). The host log is emptied before every step on both sides.
   Codes: 1 = the model Vm.v (state threaded through the history, clear = Vm.clear_state) predicts something else
              than the long-lived Vm did,
          2 = specification oracle on the observations alone: a step that starts with `clear` (or is the first
              step) must give exactly what the fresh Vm gives: outcome, error trace, globals, host log, stack
              heights, number of objects, globals length, remaining budget; and right after every `clear` the
              allocator counters (allocated, next_gc) and the stack heights / object / global counts equal those
              of a new Vm,
          3 = malformed case or not predictable by the model (Diverge / Crash / UB / unmodelled). *)
From Cao Require Export VmCheck C03Check.
Local Open Scope N_scope.

Record hstep := mkStep {
  h_prog : nat;                        (* index into the program list of the case *)
  h_budget : N;
  h_clear : bool;                      (* Vm::clear() before the run *)
  h_after_clear : option (list N);     (* after clear: [allocated; next_gc; stack height; call depth; #objects; #globals] *)
  h_obs : obs;                         (* the long-lived Vm *)
  h_fresh : obs                        (* a new Vm, same program and budget *)
}.

Inductive c17case :=
| Hist (debug : bool) (fresh_counters : list N) (progs : list program) (steps : list hstep).

Definition dummy_program : program := mkProgram [] [] [] [] [] [].

Definition obs_eqb (a b : obs) : bool :=
  oobs_eqb (ob_out a) (ob_out b) && globals_eqb (ob_globals a) (ob_globals b) &&
  list_eqb (list_eqb tval_eqb) (ob_log a) (ob_log b) &&
  opt_eqb (list_eqb N.eqb) (ob_shape a) (ob_shape b).

Fixpoint check_steps (debug : bool) (fresh_counters : list N) (progs : list program) (first : bool)
         (s : state) (steps : list hstep) : list N :=
  match steps with
  | [] => []
  | st :: rest =>
      match nth_error progs (h_prog st) with
      | None => [3]
      | Some P =>
          let cleared := h_clear st in
          let s0 := set_log (if cleared then clear_state s else s) [] in
          let '(m, s1) := run flocq_ops (bld_of debug) (N.to_nat (h_budget st)) P s0 in
          (* oracle *)
          (if (cleared || first)%bool then (if obs_eqb (h_obs st) (h_fresh st) then [] else [2]) else []) ++
          (match h_after_clear st with
           | Some c => if list_eqb N.eqb c fresh_counters then [] else [2]
           | None => if cleared then [3] else []
           end) ++
          (* model *)
          match outcome_matches m (ob_out (h_obs st)) with
          | None => [3]
          | Some false => [1]
          | Some true =>
              match ob_out (h_obs st) with
              | ObPanic => []
              | _ =>
                  (if globals_match P s1 (ob_globals (h_obs st)) then [] else [1]) ++
                  (if log_matches s1 (ob_log (h_obs st)) then [] else [1]) ++
                  (if shape_matches s1 (ob_shape (h_obs st)) then [] else [1]) ++
                  check_steps debug fresh_counters progs false s1 rest
              end
          end
      end
  end.

Definition check1 (c : c17case) : list N :=
  match c with
  | Hist debug fc progs steps => check_steps debug fc progs true fresh_state steps
  end.

Definition check_all := CheckUtil.check_all check1.
