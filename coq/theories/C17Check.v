(* C17 correspondence checker: histories of (program, budget, maybe clear, run) on ONE Vm, every step also run on
   a FRESH Vm by the harness (harness/src/c17.rs). The host log is emptied before every step on both sides.
   Two kinds of case:
   [Hist]    the Vm has a 1 GiB memory limit, no collection runs, the model Vm.v follows every step;
   [HistMem] the Vm has a small memory limit (300 bytes .. 64 KiB): runs end in OutOfMemory at string headers,
             string characters, table headers, table storage (initial and growth), closures, upvalues, function
             and native-function objects, and the host inserts OwnedValues; mixed with Timeout / stack overflow /
             native-error runs. Vm.v has no allocator and no collector, so code 1 does NOT apply to these cases:
             only the fresh-Vm oracle and the allocator-counter oracle (code 2, both independent of the model).
   Codes: 1 = [Hist] the model Vm.v (state threaded through the history, clear = Vm.clear_state) predicts something
              else than the long-lived Vm did,
          2 = specification oracle on the observations alone: a step that starts with `clear` (or is the first
              step) must give exactly what the fresh Vm (same memory limit) gives: outcome, error trace, globals,
              host log, stack heights, number of objects, globals length, remaining budget; no run on either Vm ends in a
              Rust panic (VmCheck.panic_code); for a host insertion:
              Ok / OutOfMemory, allocated bytes and live objects afterwards; and right after every `clear` the
              allocator counters (allocated, next_gc, [HistMem] limit) and the stack heights / object / global
              counts equal those of a new Vm with that limit; [HistMem] the longest string that fits into the
              cleared Vm is as long as the longest that fits into a new Vm (found by bisection, a clear after
              every probe), and the counters are those of a new Vm after the sweep as well,
          3 = malformed case or ([Hist]) not predictable by the model (Diverge / Crash / UB / unmodelled). *)
From Cao Require Export VmCheck C03Check.
Local Open Scope N_scope.

Record hstep := mkStep {
  h_prog : nat;                        (* index into the program list of the case *)
  h_budget : N;
  h_clear : bool;                      (* Vm::clear() before the run *)
  h_after_clear : option (list N);     (* after clear: [allocated; next_gc; stack height; call depth; #objects; #globals] *)
  h_obs : obs;                         (* the long-lived Vm *)
  h_fresh : obs                        (* a new Vm, same program and budget *)
}.

(* a step of a history under a small memory limit *)
Inductive mstep :=
| MRun (prog : nat) (budget : N) (clear : bool) (after_clear : option (list N)) (o fresh : obs)
| MInsert (clear : bool) (after_clear : option (list N))
          (res fresh_res : list N)      (* Vm::insert_value: [1 Ok / 0 OutOfMemory / 2 other; allocated; #objects] *)
| MSweep (cleared after : list N)      (* counters after the clear that starts the sweep / after the sweep *)
         (fit fit_fresh : N).          (* 0 = not even "" fits; L + 1 = the longest string that fits has L bytes *)

Inductive c17case :=
| Hist (debug : bool) (fresh_counters : list N) (progs : list program) (steps : list hstep)
| HistMem (debug : bool) (limit : N) (fresh_counters : list N) (progs : list program) (steps : list mstep).

Definition dummy_program : program := mkProgram [] [] [] [] [] [].

Definition obs_eqb (a b : obs) : bool :=
  oobs_eqb (ob_out a) (ob_out b) && globals_eqb (ob_globals a) (ob_globals b) &&
  list_eqb (list_eqb tval_eqb) (ob_log a) (ob_log b) &&
  opt_eqb (list_eqb N.eqb) (ob_shape a) (ob_shape b).

Fixpoint check_steps (debug : bool) (fresh_counters : list N) (progs : list program) (first : bool)
         (s : state) (steps : list hstep) : list N :=
  match steps with
  | [] => []
  | st :: rest =>
      match nth_error progs (h_prog st) with
      | None => [3]
      | Some P =>
          let cleared := h_clear st in
          let s0 := set_log (if cleared then clear_state s else s) [] in
          let '(m, s1) := run flocq_ops (bld_of debug) (N.to_nat (h_budget st)) P s0 in
          (* oracle *)
          panic_code (h_obs st) ++ panic_code (h_fresh st) ++
          (if (cleared || first)%bool then (if obs_eqb (h_obs st) (h_fresh st) then [] else [2]) else []) ++
          (match h_after_clear st with
           | Some c => if list_eqb N.eqb c fresh_counters then [] else [2]
           | None => if cleared then [3] else []
           end) ++
          (* model *)
          match outcome_matches m (ob_out (h_obs st)) with
          | None => [3]
          | Some false => [1]
          | Some true =>
              match ob_out (h_obs st) with
              | ObPanic => []
              | _ =>
                  (if globals_match P s1 (ob_globals (h_obs st)) then [] else [1]) ++
                  (if log_matches s1 (ob_log (h_obs st)) then [] else [1]) ++
                  (if shape_matches s1 (ob_shape (h_obs st)) then [] else [1]) ++
                  check_steps debug fresh_counters progs false s1 rest
              end
          end
      end
  end.

(* ---- histories under a small memory limit: observations only ---- *)

(* counters = [allocated; next_gc; limit; stack height; call depth; #objects; #globals] *)
Definition counters_ok (fc : list N) (clear : bool) (ac : option (list N)) : list N :=
  match ac with
  | Some c => if clear then (if list_eqb N.eqb c fc then [] else [2]) else [3]
  | None => if clear then [3] else []
  end.

Definition is_panic (o : obs) : bool := match ob_out o with ObPanic => true | _ => false end.

Fixpoint check_msteps (fc : list N) (nprogs : nat) (first : bool) (steps : list mstep) : list N :=
  match steps with
  | [] => []
  | MRun p _ clear ac o f :: rest =>
      (if Nat.ltb p nprogs then [] else [3]) ++
      panic_code o ++ panic_code f ++
      counters_ok fc clear ac ++
      (if (clear || first)%bool then (if obs_eqb o f then [] else [2]) else []) ++
      (if is_panic o then [] else check_msteps fc nprogs false rest)
  | MInsert clear ac r rf :: rest =>
      counters_ok fc clear ac ++
      (if (clear || first)%bool then (if list_eqb N.eqb r rf then [] else [2]) else []) ++
      check_msteps fc nprogs false rest
  | MSweep c0 c1 fit fit_fresh :: rest =>
      (if list_eqb N.eqb c0 fc then [] else [2]) ++
      (if fit =? fit_fresh then [] else [2]) ++
      (if list_eqb N.eqb c1 fc then [] else [2]) ++
      check_msteps fc nprogs false rest
  end.

Definition check1 (c : c17case) : list N :=
  match c with
  | Hist debug fc progs steps => check_steps debug fc progs true fresh_state steps
  | HistMem _ limit fc progs steps =>
      (* the fresh counters themselves: nothing allocated, the configured limit, empty stacks, no objects *)
      (match fc with
       | [0; _; l; 0; 0; 0; 0] => if l =? limit then [] else [3]
       | _ => [3]
       end) ++
      check_msteps fc (length progs) true steps
  end.

Definition check_all := CheckUtil.check_all check1.
