(* C09, part B: the direct definitions of the natives __min / __max / __sort / __to_array in the
   reference semantics (RefSem.eval_native) return what the specification functions of StdSpec.v
   say, for every well-formed table and every PURE key function given by an oracle; inputs that
   are not tables are handed back unchanged. *)
From Coq Require Import List NArith ZArith Bool Arith Lia Permutation.
From Coq Require Import Floats.SpecFloat.
From Cao Require Import CheckUtil Bits CardAst Table TableProofs Value StdlibGen RefSem RefSemProofs
     StdSpec StdRun StdRunProofs C09Proofs SortOrderProofs.
Import ListNotations.

(* ------------------------------------------------------------------------------------------ *)
(* the two insertion sorts agree                                                              *)
(* ------------------------------------------------------------------------------------------ *)
Section SortsAgree.
  Variable K : Type.
  Variable lt : value -> value -> bool.
  Variable D : value -> Prop.
  Hypothesis Hswo : swo_on D lt.
  Notation ent := (value * entry K value)%type.
  Notation DK := (fun x : ent => D (fst x)).

  (* RefSem's insertion (x after everything that is not greater) and the specification's
     (x in front of everything that is not smaller) commute *)
  Lemma insertions_commute (x y : ent) (acc : list ent) :
    D (fst x) -> D (fst y) -> Forall DK acc ->
    sort_insert lt y (ins_sorted lt x acc) = ins_sorted lt x (sort_insert lt y acc).
  Proof.
    intros Dx Dy Da. induction acc as [|z r IH].
    - cbn [ins_sorted sort_insert].
      destruct (lt (fst x) (fst y)); reflexivity.
    - inversion Da as [|? ? Dz Dr]; subst. specialize (IH Dr).
      cbn [ins_sorted sort_insert].
      destruct (lt (fst x) (fst z)) eqn:Exz; destruct (lt (fst z) (fst y)) eqn:Ezy.
      + (* x < z < y *)
        cbn [ins_sorted sort_insert]. rewrite Exz, Ezy.
        rewrite (swo_trans Hswo _ _ _ Dx Dz Dy Exz Ezy). reflexivity.
      + cbn [ins_sorted sort_insert]. rewrite Ezy.
        destruct (lt (fst x) (fst y)) eqn:Exy; [reflexivity|].
        cbn [ins_sorted]. rewrite Exz. reflexivity.
      + cbn [ins_sorted sort_insert]. rewrite Exz, Ezy, IH. reflexivity.
      + (* y <= z <= x *)
        cbn [ins_sorted sort_insert]. rewrite Ezy.
        rewrite (swo_le_trans Hswo _ _ _ Dy Dz Dx Ezy Exz). cbn [ins_sorted]. rewrite Exz. reflexivity.
  Qed.

  Lemma ins_sorted_domain (x : ent) acc : D (fst x) -> Forall DK acc -> Forall DK (ins_sorted lt x acc).
  Proof.
    intros Dx Da. induction acc as [|z r IH]; cbn [ins_sorted]; [repeat constructor; exact Dx|].
    inversion Da; subst. destruct (lt (fst x) (fst z)); repeat constructor; auto.
  Qed.

  Lemma ins_sorted_snoc (l : list ent) (x : ent) :
    D (fst x) -> Forall DK l ->
    ins_sorted lt x (sort_keyed lt l) = sort_keyed lt (l ++ [x]).
  Proof.
    intros Dx Dl. induction l as [|y l IH]; [reflexivity|].
    inversion Dl as [|? ? Dy Dl']; subst.
    cbn [app sort_keyed]. rewrite <- (IH Dl').
    symmetry. apply insertions_commute; auto. apply sort_keyed_domain; exact Dl'.
  Qed.

  Theorem stable_sort_is_sort_keyed (l : list ent) :
    Forall DK l -> stable_sort lt l = sort_keyed lt l.
  Proof.
    unfold stable_sort. induction l as [|x l IH] using rev_ind; intros Dl; [reflexivity|].
    apply Forall_app in Dl. destruct Dl as [Dl Dx]. inversion Dx; subst.
    rewrite fold_left_app. cbn [fold_left]. rewrite (IH Dl). apply ins_sorted_snoc; assumption.
  Qed.
End SortsAgree.

(* ------------------------------------------------------------------------------------------ *)
(* tables                                                                                     *)
(* ------------------------------------------------------------------------------------------ *)
Lemma m_get_none V (l : otable V) k : ~ In k (map fst l) -> m_get l k = None.
Proof.
  induction l as [|[k' v] r IH]; intros H; cbn [m_get]; [reflexivity|].
  destruct (tkey_eqb_spec k k') as [-> | _].
  - exfalso. apply H. left. reflexivity.
  - apply IH. intros Hin. apply H. right. exact Hin.
Qed.

Lemma fold_s_insert V (l acc : otable V) :
  NoDup (map fst (acc ++ l)) ->
  fold_left (fun a e => s_insert a (fst e) (snd e)) l acc = acc ++ l.
Proof.
  revert acc. induction l as [|[k v] r IH]; intros acc H; cbn [fold_left]; [rewrite app_nil_r; reflexivity|].
  assert (E : s_insert acc k v = acc ++ [(k, v)]).
  { unfold s_insert. rewrite m_get_none; [reflexivity|].
    rewrite map_app in H. cbn [map fst] in H. apply NoDup_remove_2 in H.
    intros Hin. apply H. apply in_or_app. left. exact Hin. }
  cbn [fst snd]. rewrite E. rewrite IH; [rewrite <- app_assoc; reflexivity|].
  rewrite <- app_assoc. exact H.
Qed.

Lemma fold_left_map_snd A B C (g : A -> C -> A) (l : list (B * C)) (a : A) :
  fold_left (fun acc kv => g acc (snd kv)) l a = fold_left g (map snd l) a.
Proof. revert a. induction l as [|x r IH]; intros a; cbn [fold_left map]; [reflexivity | apply IH]. Qed.

Lemma list_eqb_tkey_refl l : list_eqb tkey_eqb l l = true.
Proof. induction l as [|k r IH]; cbn [list_eqb]; [reflexivity|]. rewrite tkey_eqb_refl, IH. reflexivity. Qed.

Lemma combine_map_keyed A B (f : A -> B) (l : list A) : combine (map f l) l = map (fun e => (f e, e)) l.
Proof. induction l as [|x r IH]; cbn; [|rewrite IH]; reflexivity. Qed.

(* ------------------------------------------------------------------------------------------ *)
(* min / max: the index RefSem computes designates the entry the specification picks           *)
(* ------------------------------------------------------------------------------------------ *)
Lemma best_index_spec (better : value -> value -> bool) (keyf : tkey * value -> value)
      (full : list (tkey * value)) :
  forall (r pre : list (tkey * value)) (b : tkey * value) (bi : nat),
    full = pre ++ r -> nth_error full bi = Some b ->
    nth_error full (best_index better (map keyf r) (length pre) (keyf b) bi) =
    Some (best_from better keyf (keyf b, b) r).
Proof.
  induction r as [|e r IH]; intros pre b bi Hf Hb; cbn [map best_index best_from fst snd]; [exact Hb|].
  assert (Hf' : full = (pre ++ [e]) ++ r) by (rewrite <- app_assoc; exact Hf).
  assert (Hl : S (length pre) = length (pre ++ [e])) by (rewrite app_length; cbn; lia).
  destruct (better (keyf e) (keyf b)).
  - rewrite Hl. apply IH; [exact Hf'|].
    rewrite Hf. rewrite nth_error_app2 by lia. rewrite Nat.sub_diag. reflexivity.
  - rewrite Hl. apply IH; assumption.
Qed.

(* ------------------------------------------------------------------------------------------ *)
(* the natives                                                                                *)
(* ------------------------------------------------------------------------------------------ *)
Section Natives.
  Variable P : list fentry.
  Variable host : list str.

  Ltac lift E N := rewrite (eval_lift _ _ _ _ _ _ _ _ _ E N) by lia.

  (* the key function sees every entry once, first to last *)
  Lemma pure_cb_two keyfn cb : pure_cb P host keyfn cb -> pure_cb_on P host two_args keyfn cb.
  Proof. intros H args s _. apply H. Qed.

  Lemma keys_run keyfn cb (Hp : pure_cb_on P host two_args keyfn cb) :
    forall entries acc s, exists s',
      runs P host (TkKeys keyfn entries acc) s
           (ok (rev acc ++ map (key_by_cb of_key cb) entries) empty_env s') /\ extends s s'.
  Proof.
    induction entries as [|[k v] r IH]; intros acc s.
    - exists (bump s). split; [|apply extends_bump].
      apply runs_intro with (f := 0) (l := st_steps s); [lia| |discriminate].
      rewrite F_unfold by lia. cbn [map]. rewrite app_nil_r. reflexivity.
    - destruct (Hp [v; of_key k] (bump s) eq_refl) as (s1 & (f1 & l1 & E1 & N1) & X1).
      destruct (IH (cb [v; of_key k] :: acc) s1) as (s2 & (f2 & l2 & E2 & N2) & X2).
      exists s2. split; [|eauto using extends_trans, extends_bump].
      apply runs_intro with (f := max f1 f2) (l := N.max (N.max l1 l2) (st_steps s)); [lia| |discriminate].
      rewrite F_unfold by lia. cbv zeta.
      lift E1 N1. unfold ok at 1. cbn [bnd one]. lift E2 N2.
      cbn [rev map]. rewrite <- app_assoc. reflexivity.
  Qed.

  Definition same_world (s s' : state) : Prop :=
    st_globals s' = st_globals s /\ st_log s' = st_log s.

  (* ---- to_array ---- *)
  Theorem native_to_array_correct s p tb :
    nth_error (st_heap s) p = Some tb ->
    exists s',
      runs P host (TkNative n_to_array [VTable p]) s (ok [VTable (length (st_heap s))] empty_env s') /\
      st_heap s' = st_heap s ++ [spec_to_array k_idx tb] /\ same_world s s'.
  Proof.
    intros Hp.
    eexists. split; [|split].
    - apply runs_intro with (f := 0) (l := st_steps s); [lia| |discriminate].
      rewrite F_unfold by lia. cbv zeta. unfold eval_native.
      change (str_eqb n_to_array n_min) with false. change (str_eqb n_to_array n_max) with false.
      change (str_eqb n_to_array n_sort) with false. change (str_eqb n_to_array n_to_array) with true.
      change (str_eqb n_to_array n_log1) with false. change (str_eqb n_to_array n_add2) with false.
      change (str_eqb n_to_array n_fail0) with false. change (str_eqb n_to_array n_call1) with false.
      cbn [orb negb length Nat.ltb Nat.leb last_n skipn Nat.sub bump st_heap].
      rewrite Hp. unfold alloc_table. cbn [st_heap]. reflexivity.
    - cbn [st_heap set_heap bump]. unfold spec_to_array, k_idx. rewrite map_length. reflexivity.
    - split; reflexivity.
  Qed.

  Theorem native_to_array_passthrough s v :
    (forall p, v <> VTable p) ->
    runs P host (TkNative n_to_array [v]) s (ok [v] empty_env (bump s)).
  Proof.
    intros Hv.
    apply runs_intro with (f := 0) (l := st_steps s); [lia| |discriminate].
    rewrite F_unfold by lia. cbv zeta. unfold eval_native.
    change (str_eqb n_to_array n_min) with false. change (str_eqb n_to_array n_max) with false.
    change (str_eqb n_to_array n_sort) with false. change (str_eqb n_to_array n_to_array) with true.
    change (str_eqb n_to_array n_log1) with false. change (str_eqb n_to_array n_add2) with false.
    change (str_eqb n_to_array n_fail0) with false. change (str_eqb n_to_array n_call1) with false.
    cbn [orb negb length Nat.ltb Nat.leb last_n skipn Nat.sub].
    destruct v; try reflexivity. exfalso. eapply Hv. reflexivity.
  Qed.

  (* the three natives with a key function share their head *)
  Definition is_keyed_native (name : str) : Prop := name = n_min \/ name = n_max \/ name = n_sort.

  Lemma eval_native_keyed rec name a s :
    is_keyed_native name ->
    eval_native host rec name a s =
    if Nat.ltb (length a) 2 then RUnspec 11 else
    match last_n 2 a with
    | [VTable p; keyfn] =>
        match nth_error (st_heap s) p with
        | None => RUnspec 5
        | Some [] => if str_eqb name n_sort
                     then let '(q, s1) := alloc_table [] s in ok [VTable q] empty_env s1
                     else ok [VNil] empty_env s
        | Some tb =>
            match rec (TkKeys keyfn tb []) s with
            | ROk (ONorm keys) _ s1 =>
                let h := st_heap s1 in
                if str_eqb name n_sort then
                  let sorted := stable_sort (sort_lt h) (combine keys tb) in
                  let out := fold_left (fun acc kv => s_insert acc (fst (snd kv)) (snd (snd kv)))
                                       sorted [] in
                  let '(q, s2) := alloc_table out s1 in ok [VTable q] empty_env s2
                else
                  match keys with
                  | [] => RUnspec 5
                  | k0 :: kr =>
                      let i := best_index (cmp_is h (if str_eqb name n_min then Lt else Gt))
                                          kr 1 k0 0 in
                      let '(k, v) := match nth_error tb i with
                                     | Some (k, v) => (of_key k, v)
                                     | None => (VNil, VNil)
                                     end in
                      let '(q, s2) := alloc_table (row_table k v) s1 in ok [VTable q] empty_env s2
                  end
            | ROk (OErr _) _ s1 => err ETaskFailure empty_env s1
            | ROk (ORet _) _ _ => RUnspec 5
            | ROk OAbort _ _ => RUnspec 7
            | other => other
            end
        end
    | [v; _] => ok [v] empty_env s
    | _ => RUnspec 5
    end.
  Proof.
    intros [-> | [-> | ->]]; reflexivity.
  Qed.

  (* inputs that are not tables come back unchanged, the key function is not called *)
  Theorem native_keyed_passthrough name s v keyfn :
    is_keyed_native name -> (forall p, v <> VTable p) ->
    runs P host (TkNative name [v; keyfn]) s (ok [v] empty_env (bump s)).
  Proof.
    intros Hn Hv.
    apply runs_intro with (f := 0) (l := st_steps s); [lia| |discriminate].
    rewrite F_unfold by lia. cbv zeta. rewrite (eval_native_keyed _ _ _ _ Hn).
    cbn [length Nat.ltb Nat.leb last_n skipn Nat.sub].
    destruct v; try reflexivity. exfalso. eapply Hv. reflexivity.
  Qed.

  (* ---- sorted_by_key ---- *)
  Theorem native_sort_correct_on keyfn cb s p tb :
    nth_error (st_heap s) p = Some tb -> wf_table tb ->
    pure_cb_on P host two_args keyfn cb ->
    (forall e, In e tb -> key_valid (key_by_cb of_key cb e) = true) ->
    exists s',
      runs P host (TkNative n_sort [VTable p; keyfn]) s (ok [VTable (length (st_heap s))] empty_env s') /\
      st_heap s' = st_heap s ++ [spec_sorted (sort_lt (st_heap s)) (key_by_cb of_key cb) tb] /\
      same_world s s'.
  Proof.
    intros Hp [Hnd _] Hcb Hval.
    assert (Hn : is_keyed_native n_sort) by (right; right; reflexivity).
    destruct tb as [|e0 tb0].
    { eexists. split; [|split].
      - apply runs_intro with (f := 0) (l := st_steps s); [lia| |discriminate].
        rewrite F_unfold by lia. cbv zeta. rewrite (eval_native_keyed _ _ _ _ Hn).
        cbn [length Nat.ltb Nat.leb last_n skipn Nat.sub bump st_heap]. rewrite Hp.
        change (str_eqb n_sort n_sort) with true. unfold alloc_table. cbn [st_heap]. reflexivity.
      - reflexivity.
      - split; reflexivity. }
    set (tb := e0 :: tb0) in *.
    destruct (keys_run keyfn cb Hcb tb [] (bump s)) as (s1 & (f1 & l1 & E1 & N1) & X1).
    assert (Hh : st_heap s1 = st_heap s) by (rewrite (ext_heap _ _ X1); reflexivity).
    eexists. split; [|split].
    - apply runs_intro with (f := f1) (l := N.max l1 (st_steps s)); [lia| |discriminate].
      rewrite F_unfold by lia. cbv zeta. rewrite (eval_native_keyed _ _ _ _ Hn).
      cbn [length Nat.ltb Nat.leb last_n skipn Nat.sub bump st_heap]. rewrite Hp.
      unfold tb at 1. fold tb.
      lift E1 N1. unfold ok at 1. cbv beta iota zeta. rewrite Hh.
      change (str_eqb n_sort n_sort) with true. cbv iota.
      unfold alloc_table. rewrite Hh. reflexivity.
    - cbn [st_heap set_heap]. f_equal. f_equal.
      cbn [rev app]. rewrite combine_map_keyed.
      rewrite (@stable_sort_is_sort_keyed tkey (sort_lt (st_heap s)) (fun v => key_valid v = true)).
      + unfold spec_sorted, keyed.
        rewrite (fold_left_map_snd _ _ _ (fun acc (e : tkey * value) => s_insert acc (fst e) (snd e))).
        rewrite fold_s_insert; [reflexivity|].
        cbn [app]. eapply Permutation_NoDup; [|exact Hnd].
        apply Permutation_map. apply Permutation_sym.
        eapply perm_trans; [apply Permutation_map, sort_keyed_perm|].
        rewrite map_map. cbn [snd]. rewrite map_id. apply Permutation_refl.
      + split.
        * intros a b Da Db. apply sort_lt_asym; assumption.
        * intros a b c Da Db Dc. apply sort_lt_cotrans; assumption.
      + rewrite Forall_map. apply Forall_forall. intros e He. cbn [fst]. apply Hval. exact He.
    - split; cbn [st_globals st_log set_heap]; [apply (ext_globals _ _ X1) | apply (ext_log _ _ X1)].
  Qed.

  (* ---- min_by_key / max_by_key ---- *)
  Definition want_of (name : str) : comparison := if str_eqb name n_min then Lt else Gt.

  Theorem native_minmax_correct_on name keyfn cb s p tb :
    name = n_min \/ name = n_max ->
    nth_error (st_heap s) p = Some tb ->
    pure_cb_on P host two_args keyfn cb ->
    exists s',
      match spec_best (cmp_is (st_heap s) (want_of name)) (key_by_cb of_key cb) tb with
      | None =>
          runs P host (TkNative name [VTable p; keyfn]) s (ok [VNil] empty_env s') /\
          st_heap s' = st_heap s
      | Some e =>
          runs P host (TkNative name [VTable p; keyfn]) s (ok [VTable (length (st_heap s))] empty_env s') /\
          st_heap s' = st_heap s ++ [row_value_table e]
      end /\ same_world s s'.
  Proof.
    intros Hname Hp Hcb.
    assert (Hn : is_keyed_native name) by (destruct Hname; [left | right; left]; assumption).
    assert (Hns : str_eqb name n_sort = false) by (destruct Hname; subst; reflexivity).
    destruct tb as [|e0 tb0].
    { exists (bump s). cbn [spec_best]. split; [split|split]; try reflexivity.
      apply runs_intro with (f := 0) (l := st_steps s); [lia| |discriminate].
      rewrite F_unfold by lia. cbv zeta. rewrite (eval_native_keyed _ _ _ _ Hn).
      cbn [length Nat.ltb Nat.leb last_n skipn Nat.sub bump st_heap]. rewrite Hp, Hns. reflexivity. }
    set (tb := e0 :: tb0) in *.
    destruct (keys_run keyfn cb Hcb tb [] (bump s)) as (s1 & (f1 & l1 & E1 & N1) & X1).
    assert (Hh : st_heap s1 = st_heap s) by (rewrite (ext_heap _ _ X1); reflexivity).
    unfold tb at 1. cbn [spec_best].
    pose proof (best_index_spec (cmp_is (st_heap s) (want_of name)) (key_by_cb of_key cb) tb tb0 [e0] e0 0
                 eq_refl eq_refl) as Hb.
    cbn [length] in Hb.
    exists (set_heap (st_heap s ++ [row_value_table
              (best_from (cmp_is (st_heap s) (want_of name)) (key_by_cb of_key cb)
                         (key_by_cb of_key cb e0, e0) tb0)]) s1). split; [split|].
    - apply runs_intro with (f := f1) (l := N.max l1 (st_steps s)); [lia| |discriminate].
      rewrite F_unfold by lia. cbv zeta. rewrite (eval_native_keyed _ _ _ _ Hn).
      cbn [length Nat.ltb Nat.leb last_n skipn Nat.sub bump st_heap]. rewrite Hp.
      unfold tb at 1. fold tb.
      lift E1 N1. unfold ok at 1. cbv beta iota zeta. rewrite Hh.
      rewrite Hns. cbv iota.
      cbn [rev app]. unfold tb at 1. cbn [map].
      fold (want_of name).
      unfold entry in *. rewrite Hb. destruct (best_from _ _ _ _) as [bk bv].
      unfold alloc_table. rewrite Hh. reflexivity.
    - cbn [st_heap set_heap]. reflexivity.
    - split; cbn [st_globals st_log set_heap]; [apply (ext_globals _ _ X1) | apply (ext_log _ _ X1)].
  Qed.
  Theorem native_sort_correct keyfn cb s p tb :
    nth_error (st_heap s) p = Some tb -> wf_table tb ->
    pure_cb P host keyfn cb ->
    (forall args, key_valid (cb args) = true) ->
    exists s',
      runs P host (TkNative n_sort [VTable p; keyfn]) s (ok [VTable (length (st_heap s))] empty_env s') /\
      st_heap s' = st_heap s ++ [spec_sorted (sort_lt (st_heap s)) (key_by_cb of_key cb) tb] /\
      same_world s s'.
  Proof. intros Hp Hwf Hcb Hval. apply native_sort_correct_on; auto using pure_cb_two. intros e _. apply Hval. Qed.

  Theorem native_minmax_correct name keyfn cb s p tb :
    name = n_min \/ name = n_max ->
    nth_error (st_heap s) p = Some tb ->
    pure_cb P host keyfn cb ->
    exists s',
      match spec_best (cmp_is (st_heap s) (want_of name)) (key_by_cb of_key cb) tb with
      | None =>
          runs P host (TkNative name [VTable p; keyfn]) s (ok [VNil] empty_env s') /\
          st_heap s' = st_heap s
      | Some e =>
          runs P host (TkNative name [VTable p; keyfn]) s (ok [VTable (length (st_heap s))] empty_env s') /\
          st_heap s' = st_heap s ++ [row_value_table e]
      end /\ same_world s s'.
  Proof. intros Hn Hp Hcb. apply native_minmax_correct_on; auto using pure_cb_two. Qed.

  (* ---- the contracts, read off: what sorted_by_key / min_by_key / max_by_key return ---- *)
  Theorem native_sorted_contract keyfn cb s p tb :
    nth_error (st_heap s) p = Some tb -> wf_table tb ->
    pure_cb P host keyfn cb ->
    (forall args, key_valid (cb args) = true) ->
    let h := st_heap s in
    let keyf := key_by_cb of_key cb in
    exists s' R,
      runs P host (TkNative n_sort [VTable p; keyfn]) s (ok [VTable (length h)] empty_env s') /\
      st_heap s' = h ++ [R] /\
      Permutation R tb /\
      Sorted.StronglySorted (fun e1 e2 => sort_lt h (keyf e2) (keyf e1) = false) R /\
      (forall k, key_valid k = true ->
         filter (fun e => equiv_key (sort_lt h) (keyf e) k) R =
         filter (fun e => equiv_key (sort_lt h) (keyf e) k) tb).
  Proof.
    intros Hp Hwf Hcb Hval h keyf.
    destruct (native_sort_correct keyfn cb s p tb Hp Hwf Hcb Hval) as (s' & Hr & Hh & _).
    assert (Hswo : swo_on (fun v => key_valid v = true) (sort_lt h)).
    { split.
      - intros a b Da Db. apply sort_lt_asym; assumption.
      - intros a b c Da Db Dc. apply sort_lt_cotrans; assumption. }
    assert (Hd : Forall (fun e => key_valid (keyf e) = true) tb).
    { apply Forall_forall. intros e _. apply Hval. }
    exists s', (spec_sorted (sort_lt h) keyf tb). repeat split.
    - exact Hr.
    - exact Hh.
    - apply spec_sorted_perm.
    - exact (@spec_sorted_ordered _ _ (sort_lt h) keyf _ Hswo tb Hd).
    - intros k Dk. exact (@spec_sorted_stable _ _ (sort_lt h) keyf _ Hswo k tb Dk Hd).
  Qed.

  Theorem native_minmax_contract name keyfn cb s p tb :
    name = n_min \/ name = n_max ->
    nth_error (st_heap s) p = Some tb -> tb <> [] ->
    pure_cb P host keyfn cb ->
    (forall args, num_key (cb args) = true) ->
    let h := st_heap s in
    let keyf := key_by_cb of_key cb in
    let better := cmp_is h (want_of name) in
    exists s' e l1 l2,
      runs P host (TkNative name [VTable p; keyfn]) s (ok [VTable (length h)] empty_env s') /\
      st_heap s' = h ++ [row_value_table e] /\
      tb = l1 ++ e :: l2 /\
      Forall (fun e' => better (keyf e) (keyf e') = true) l1 /\
      Forall (fun e' => better (keyf e') (keyf e) = false) l2.
  Proof.
    intros Hname Hp Hne Hcb Hval h keyf better.
    destruct (native_minmax_correct name keyfn cb s p tb Hname Hp Hcb) as (s' & Hm & _).
    fold h keyf better in Hm.
    assert (Hswo : swo_on (fun v => num_key v = true) better).
    { unfold better, want_of. destruct Hname as [-> | ->].
      - change (str_eqb n_min n_min) with true. cbv iota. split.
        + intros a b Da Db. apply cmp_lt_asym; assumption.
        + intros a b c Da Db Dc. apply cmp_lt_cotrans; assumption.
      - change (str_eqb n_max n_min) with false. cbv iota. split.
        + intros a b Da Db. apply cmp_gt_asym; assumption.
        + intros a b c Da Db Dc. apply cmp_gt_cotrans; assumption. }
    assert (Hd : Forall (fun e => num_key (keyf e) = true) tb).
    { apply Forall_forall. intros e _. apply Hval. }
    destruct (spec_best better keyf tb) as [e|] eqn:Eb.
    - destruct Hm as [Hr Hh].
      destruct (@spec_best_first _ _ better keyf _ Hswo tb e Hd Eb) as (l1 & l2 & E & H1 & H2).
      exists s', e, l1, l2. repeat split; assumption.
    - apply spec_best_none in Eb. contradiction.
  Qed.
End Natives.

Print Assumptions stable_sort_is_sort_keyed.
Print Assumptions native_to_array_correct.
Print Assumptions native_sort_correct_on.
Print Assumptions native_minmax_correct_on.
Print Assumptions native_sort_correct.
Print Assumptions native_minmax_correct.
Print Assumptions native_sorted_contract.
Print Assumptions native_minmax_contract.
