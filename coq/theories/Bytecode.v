(* Bytecode of cao-lang (instruction.rs, bytecode.rs): opcodes in enum order, instructions with
   structured operands, the byte codec and the span table.
   Operand widths are the ones the VM decodes (vm.rs / vm/instr_execution.rs decode_value::<T>):
   Handle/u32/VariableId = 4 bytes LE, i32 = 4 bytes LE two's complement, i64/f64 = 8 bytes LE,
   u8 = 1 byte.  Definitions only; proofs are in CompilerProofs.v. *)
From Coq Require Import List NArith ZArith Bool.
From Cao Require Import ListUtil Bits.
Import ListNotations.

(* enum Instruction, #[repr(u8)], in declaration order: the opcode byte is the position *)
Inductive opcode :=
| OpAdd | OpSub | OpMul | OpDiv | OpCallNative | OpScalarInt | OpScalarFloat | OpScalarNil
| OpStringLiteral | OpCopyLast | OpExit | OpCallFunction | OpEquals | OpNotEquals | OpLess
| OpLessOrEq | OpPop | OpSetGlobalVar | OpReadGlobalVar | OpSetLocalVar | OpReadLocalVar
| OpClearStack | OpReturn | OpSwapLast | OpAnd | OpOr | OpXor | OpNot | OpGoto | OpGotoIfTrue
| OpGotoIfFalse | OpInitTable | OpGetProperty | OpSetProperty | OpLen | OpBeginForEach | OpForEach
| OpFunctionPointer | OpNativeFunctionPointer | OpNthRow | OpAppendTable | OpPopTable | OpClosure
| OpSetUpvalue | OpReadUpvalue | OpRegisterUpvalue | OpCloseUpvalue.

Definition all_opcodes : list opcode :=
  [OpAdd; OpSub; OpMul; OpDiv; OpCallNative; OpScalarInt; OpScalarFloat; OpScalarNil;
   OpStringLiteral; OpCopyLast; OpExit; OpCallFunction; OpEquals; OpNotEquals; OpLess;
   OpLessOrEq; OpPop; OpSetGlobalVar; OpReadGlobalVar; OpSetLocalVar; OpReadLocalVar;
   OpClearStack; OpReturn; OpSwapLast; OpAnd; OpOr; OpXor; OpNot; OpGoto; OpGotoIfTrue;
   OpGotoIfFalse; OpInitTable; OpGetProperty; OpSetProperty; OpLen; OpBeginForEach; OpForEach;
   OpFunctionPointer; OpNativeFunctionPointer; OpNthRow; OpAppendTable; OpPopTable; OpClosure;
   OpSetUpvalue; OpReadUpvalue; OpRegisterUpvalue; OpCloseUpvalue].

Definition op_code (o : opcode) : N :=
  (match o with
  | OpAdd => 0 | OpSub => 1 | OpMul => 2 | OpDiv => 3 | OpCallNative => 4 | OpScalarInt => 5
  | OpScalarFloat => 6 | OpScalarNil => 7 | OpStringLiteral => 8 | OpCopyLast => 9 | OpExit => 10
  | OpCallFunction => 11 | OpEquals => 12 | OpNotEquals => 13 | OpLess => 14 | OpLessOrEq => 15
  | OpPop => 16 | OpSetGlobalVar => 17 | OpReadGlobalVar => 18 | OpSetLocalVar => 19
  | OpReadLocalVar => 20 | OpClearStack => 21 | OpReturn => 22 | OpSwapLast => 23 | OpAnd => 24
  | OpOr => 25 | OpXor => 26 | OpNot => 27 | OpGoto => 28 | OpGotoIfTrue => 29
  | OpGotoIfFalse => 30 | OpInitTable => 31 | OpGetProperty => 32 | OpSetProperty => 33
  | OpLen => 34 | OpBeginForEach => 35 | OpForEach => 36 | OpFunctionPointer => 37
  | OpNativeFunctionPointer => 38 | OpNthRow => 39 | OpAppendTable => 40 | OpPopTable => 41
  | OpClosure => 42 | OpSetUpvalue => 43 | OpReadUpvalue => 44 | OpRegisterUpvalue => 45
  | OpCloseUpvalue => 46
  end)%N.

Definition op_of_code (b : N) : option opcode := nth_error all_opcodes (N.to_nat b).

Definition opcode_eqb (a b : opcode) : bool := N.eqb (op_code a) (op_code b).

(* operand layout of every opcode: byte width of each operand, in emission order *)
Definition op_widths (o : opcode) : list nat :=
  match o with
  | OpCallNative => [4]                      (* Handle *)
  | OpScalarInt => [8]                       (* i64 *)
  | OpScalarFloat => [8]                     (* f64 *)
  | OpStringLiteral => [4]                   (* u32 offset into data *)
  | OpNativeFunctionPointer => [4]
  | OpSetGlobalVar | OpReadGlobalVar => [4]  (* VariableId *)
  | OpSetLocalVar | OpReadLocalVar | OpSetUpvalue | OpReadUpvalue => [4]
  | OpCloseUpvalue => [4]                    (* u32 index of the local going out of scope (d723a2c) *)
  | OpGoto | OpGotoIfTrue | OpGotoIfFalse => [4]       (* i32 *)
  | OpBeginForEach | OpForEach => [4; 4; 4; 4; 4]
  | OpFunctionPointer | OpClosure => [4; 4]  (* Handle, arity *)
  | OpRegisterUpvalue => [1; 1]              (* index, is_local *)
  | _ => []
  end.

(* Instruction::span = 1 + data span; hand transcription of instruction.rs:109-163, checked equal to
   the table generated from the source text (CompilerGen.gen_span_table) in C10Check.
   The pinned tree gave NativeFunctionPointer a span of 6 (it added the opcode byte twice) while
   the VM reads one u32 (5 bytes in all): repaired in /repo (d967380).  [op_span] below is what the VM
   decodes; the two tables now agree everywhere (CompilerProofs.span_table_vs_vm).
   d723a2c: CloseUpvalue carries a u32 operand (the index of the local that goes out of scope),
   span 1 -> 5. *)
Definition span_table : list (opcode * nat) :=
  [(OpAdd, 1); (OpSub, 1); (OpMul, 1); (OpDiv, 1); (OpCallNative, 5); (OpScalarInt, 9);
   (OpScalarFloat, 9); (OpScalarNil, 1); (OpStringLiteral, 5); (OpCopyLast, 1); (OpExit, 1);
   (OpCallFunction, 1); (OpEquals, 1); (OpNotEquals, 1); (OpLess, 1); (OpLessOrEq, 1); (OpPop, 1);
   (OpSetGlobalVar, 5); (OpReadGlobalVar, 5); (OpSetLocalVar, 5); (OpReadLocalVar, 5);
   (OpClearStack, 1); (OpReturn, 1); (OpSwapLast, 1); (OpAnd, 1); (OpOr, 1); (OpXor, 1); (OpNot, 1);
   (OpGoto, 5); (OpGotoIfTrue, 5); (OpGotoIfFalse, 5); (OpInitTable, 1); (OpGetProperty, 1);
   (OpSetProperty, 1); (OpLen, 1); (OpBeginForEach, 21); (OpForEach, 21); (OpFunctionPointer, 9);
   (OpNativeFunctionPointer, 5); (OpNthRow, 1); (OpAppendTable, 1); (OpPopTable, 1); (OpClosure, 9);
   (OpSetUpvalue, 5); (OpReadUpvalue, 5); (OpRegisterUpvalue, 3); (OpCloseUpvalue, 5)].

Definition op_span (o : opcode) : nat := S (fold_right Nat.add O (op_widths o)).

(* ---- instructions with structured operands ---- *)
Inductive instr :=
| IAdd | ISub | IMul | IDiv
| ICallNative (h : N)
| IScalarInt (i : Z)
| IScalarFloat (bits : N)
| IScalarNil
| IStringLiteral (off : N)
| ICopyLast | IExit | ICallFunction | IEquals | INotEquals | ILess | ILessOrEq | IPop
| ISetGlobalVar (id : N)
| IReadGlobalVar (id : N)
| ISetLocalVar (i : N)
| IReadLocalVar (i : N)
| IClearStack | IReturn | ISwapLast | IAnd | IOr | IXor | INot
| IGoto (pos : Z)
| IGotoIfTrue (pos : Z)
| IGotoIfFalse (pos : Z)
| IInitTable | IGetProperty | ISetProperty | ILen
| IBeginForEach (loop_var loop_item i k v : N)
| IForEach (loop_var loop_item i k v : N)
| IFunctionPointer (h arity : N)
| INativeFunctionPointer (off : N)
| INthRow | IAppendTable | IPopTable
| IClosure (h arity : N)
| ISetUpvalue (i : N)
| IReadUpvalue (i : N)
| IRegisterUpvalue (index is_local : N)
| ICloseUpvalue (i : N).

Definition instr_op (i : instr) : opcode :=
  match i with
  | IAdd => OpAdd | ISub => OpSub | IMul => OpMul | IDiv => OpDiv | ICallNative _ => OpCallNative
  | IScalarInt _ => OpScalarInt | IScalarFloat _ => OpScalarFloat | IScalarNil => OpScalarNil
  | IStringLiteral _ => OpStringLiteral | ICopyLast => OpCopyLast | IExit => OpExit
  | ICallFunction => OpCallFunction | IEquals => OpEquals | INotEquals => OpNotEquals
  | ILess => OpLess | ILessOrEq => OpLessOrEq | IPop => OpPop | ISetGlobalVar _ => OpSetGlobalVar
  | IReadGlobalVar _ => OpReadGlobalVar | ISetLocalVar _ => OpSetLocalVar
  | IReadLocalVar _ => OpReadLocalVar | IClearStack => OpClearStack | IReturn => OpReturn
  | ISwapLast => OpSwapLast | IAnd => OpAnd | IOr => OpOr | IXor => OpXor | INot => OpNot
  | IGoto _ => OpGoto | IGotoIfTrue _ => OpGotoIfTrue | IGotoIfFalse _ => OpGotoIfFalse
  | IInitTable => OpInitTable | IGetProperty => OpGetProperty | ISetProperty => OpSetProperty
  | ILen => OpLen | IBeginForEach _ _ _ _ _ => OpBeginForEach | IForEach _ _ _ _ _ => OpForEach
  | IFunctionPointer _ _ => OpFunctionPointer | INativeFunctionPointer _ => OpNativeFunctionPointer
  | INthRow => OpNthRow | IAppendTable => OpAppendTable | IPopTable => OpPopTable
  | IClosure _ _ => OpClosure | ISetUpvalue _ => OpSetUpvalue | IReadUpvalue _ => OpReadUpvalue
  | IRegisterUpvalue _ _ => OpRegisterUpvalue | ICloseUpvalue _ => OpCloseUpvalue
  end.

(* raw (unsigned) operand values in emission order *)
Definition instr_args (i : instr) : list N :=
  match i with
  | ICallNative h => [h]
  | IScalarInt z => [i64_to_u64 z]
  | IScalarFloat b => [b]
  | IStringLiteral o | INativeFunctionPointer o => [o]
  | ISetGlobalVar x | IReadGlobalVar x | ISetLocalVar x | IReadLocalVar x
  | ISetUpvalue x | IReadUpvalue x | ICloseUpvalue x => [x]
  | IGoto p | IGotoIfTrue p | IGotoIfFalse p => [i32_to_u32 p]
  | IBeginForEach a b c d e | IForEach a b c d e => [a; b; c; d; e]
  | IFunctionPointer h a | IClosure h a => [h; a]
  | IRegisterUpvalue x l => [x; l]
  | _ => []
  end.

(* rebuild an instruction from its opcode and raw operands *)
Definition instr_of (o : opcode) (args : list N) : option instr :=
  match o, args with
  | OpAdd, [] => Some IAdd | OpSub, [] => Some ISub | OpMul, [] => Some IMul | OpDiv, [] => Some IDiv
  | OpCallNative, [h] => Some (ICallNative h)
  | OpScalarInt, [x] => Some (IScalarInt (u64_to_i64 x))
  | OpScalarFloat, [x] => Some (IScalarFloat x)
  | OpScalarNil, [] => Some IScalarNil
  | OpStringLiteral, [x] => Some (IStringLiteral x)
  | OpCopyLast, [] => Some ICopyLast | OpExit, [] => Some IExit
  | OpCallFunction, [] => Some ICallFunction | OpEquals, [] => Some IEquals
  | OpNotEquals, [] => Some INotEquals | OpLess, [] => Some ILess | OpLessOrEq, [] => Some ILessOrEq
  | OpPop, [] => Some IPop
  | OpSetGlobalVar, [x] => Some (ISetGlobalVar x) | OpReadGlobalVar, [x] => Some (IReadGlobalVar x)
  | OpSetLocalVar, [x] => Some (ISetLocalVar x) | OpReadLocalVar, [x] => Some (IReadLocalVar x)
  | OpClearStack, [] => Some IClearStack | OpReturn, [] => Some IReturn
  | OpSwapLast, [] => Some ISwapLast | OpAnd, [] => Some IAnd | OpOr, [] => Some IOr
  | OpXor, [] => Some IXor | OpNot, [] => Some INot
  | OpGoto, [x] => Some (IGoto (u32_to_i32 x))
  | OpGotoIfTrue, [x] => Some (IGotoIfTrue (u32_to_i32 x))
  | OpGotoIfFalse, [x] => Some (IGotoIfFalse (u32_to_i32 x))
  | OpInitTable, [] => Some IInitTable | OpGetProperty, [] => Some IGetProperty
  | OpSetProperty, [] => Some ISetProperty | OpLen, [] => Some ILen
  | OpBeginForEach, [a; b; c; d; e] => Some (IBeginForEach a b c d e)
  | OpForEach, [a; b; c; d; e] => Some (IForEach a b c d e)
  | OpFunctionPointer, [h; a] => Some (IFunctionPointer h a)
  | OpNativeFunctionPointer, [x] => Some (INativeFunctionPointer x)
  | OpNthRow, [] => Some INthRow | OpAppendTable, [] => Some IAppendTable
  | OpPopTable, [] => Some IPopTable
  | OpClosure, [h; a] => Some (IClosure h a)
  | OpSetUpvalue, [x] => Some (ISetUpvalue x) | OpReadUpvalue, [x] => Some (IReadUpvalue x)
  | OpRegisterUpvalue, [x; l] => Some (IRegisterUpvalue x l)
  | OpCloseUpvalue, [x] => Some (ICloseUpvalue x)
  | _, _ => None
  end.

Definition instr_span (i : instr) : nat := op_span (instr_op i).

(* ---- codec ---- *)
Fixpoint encode_args (ws : list nat) (args : list N) : list N :=
  match ws, args with
  | w :: ws', a :: args' => le_bytes w a ++ encode_args ws' args'
  | _, _ => []
  end.

Definition encode_instr (i : instr) : list N :=
  op_code (instr_op i) :: encode_args (op_widths (instr_op i)) (instr_args i).

Definition encode (is : list instr) : list N := flat_map encode_instr is.

(* positions of the instructions of a program laid out from byte [p] *)
Fixpoint positions_from (p : nat) (is : list instr) : list (nat * instr) :=
  match is with
  | [] => []
  | i :: r => (p, i) :: positions_from (p + instr_span i) r
  end.
Definition positions (is : list instr) : list (nat * instr) := positions_from 0 is.

(* read the operands of given widths; None when the buffer ends inside an operand
   (decode_value would panic "Failed to read data") *)
Fixpoint read_args (ws : list nat) (bs : list N) : option (list N * list N) :=
  match ws with
  | [] => Some ([], bs)
  | w :: ws' =>
      if Nat.ltb (length bs) w then None
      else match read_args ws' (skipn w bs) with
           | Some (args, rest) => Some (le_to_N (firstn w bs) :: args, rest)
           | None => None
           end
  end.

Definition decode1 (bs : list N) : option (instr * list N) :=
  match bs with
  | [] => None
  | b :: r =>
      match op_of_code b with
      | None => None                                   (* unknown opcode: transmute would be UB *)
      | Some o =>
          match read_args (op_widths o) r with
          | None => None
          | Some (args, rest) =>
              match instr_of o args with
              | Some i => Some (i, rest)
              | None => None
              end
          end
      end
  end.

(* front-to-back decoding; fuel = number of bytes (every instruction consumes at least one) *)
Fixpoint decode_from (fuel : nat) (p : nat) (bs : list N) : option (list (nat * instr)) :=
  match bs with
  | [] => Some []
  | _ :: _ =>
      match fuel with
      | O => None
      | S fuel' =>
          match decode1 bs with
          | None => None
          | Some (i, rest) =>
              match decode_from fuel' (p + instr_span i) rest with
              | Some l => Some ((p, i) :: l)
              | None => None
              end
          end
      end
  end.

Definition decode (bs : list N) : option (list (nat * instr)) := decode_from (length bs) 0 bs.

(* operands in the range of their machine type: the domain on which encode is injective *)
Definition fits (w : nat) (v : N) : Prop := (v < 256 ^ N.of_nat w)%N.
Definition instr_ok (i : instr) : Prop :=
  match i with
  | IScalarInt z => (- 9223372036854775808 <= z < 9223372036854775808)%Z
  | IGoto p | IGotoIfTrue p | IGotoIfFalse p => (- 2147483648 <= p < 2147483648)%Z
  | _ => Forall2 fits (op_widths (instr_op i)) (instr_args i)
  end.
