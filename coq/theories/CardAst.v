(* The card AST of cao-lang (compiler/card.rs, function.rs, module.rs): shared by the editing-API
   model (C16), the compiler model (C10/C08/C15) and the reference semantics (C01).
   Kinds that the Rust code treats uniformly in its match arms (all 17 two-child kinds, the four
   one-child kinds, the two three-child kinds) are grouped under one constructor with a tag.
   CardId is not modelled (random, skipped by serde, never compared). *)
From Coq Require Import List NArith ZArith.
Import ListNotations.

Definition str : Type := list N.        (* UTF-8 bytes *)

Inductive binop :=
| BAdd | BSub | BMul | BDiv | BLess | BLessOrEq | BEquals | BNotEquals | BAnd | BOr | BXor
| BGetProperty   (* [table, key] *)
| BIfTrue        (* [condition, then] *)
| BIfFalse       (* [condition, else] *)
| BWhile         (* [condition, body] *)
| BGet           (* [table, index] *)
| BAppendTable.  (* [value, table] *)

Inductive unop := UNot | UReturn | ULen | UPopTable.

Inductive triop :=
| TIfElse        (* [condition, then, else] *)
| TSetProperty.  (* [value, table, key] *)

Inductive card :=
| CBin (op : binop) (a b : card)
| CUn (op : unop) (a : card)
| CTri (op : triop) (a b c : card)
| CScalarNil
| CCreateTable
| CAbort
| CScalarInt (i : Z)                       (* i64 *)
| CScalarFloat (bits : N)                  (* f64, as its IEEE-754 bit pattern (to_bits) *)
| CStringLiteral (s : str)
| CComment (s : str)
| CFunction (name : str)
| CNativeFunction (name : str)
| CReadVar (name : str)
| CCallNative (name : str) (args : list card)
| CCall (name : str) (args : list card)          (* StaticJump { args, function_name } *)
| CDynamicCall (f : card) (args : list card)     (* DynamicJump { args, function } *)
| CSetGlobalVar (name : str) (v : card)
| CSetVar (name : str) (v : card)
| CRepeat (i : option str) (n body : card)
| CForEach (i k v : option str) (iterable body : card)
| CComposite (ty : str) (cards : list card)
| CArray (cards : list card)
| CClosure (args : list str) (cards : list card).  (* Box<Function> *)

Record function := { f_args : list str; f_cards : list card }.

(* struct Module { submodules, functions, imports } *)
Inductive module :=
| Module (submodules : list (str * module)) (functions : list (str * function)) (imports : list str).

Definition m_submodules (m : module) := match m with Module s _ _ => s end.
Definition m_functions (m : module) := match m with Module _ f _ => f end.
Definition m_imports (m : module) := match m with Module _ _ i => i end.

(* struct CardIndex { function: usize, card_index: FunctionCardIndex { indices: SmallVec<u32> } } *)
Record card_index := { ci_function : nat; ci_indices : list nat }.
