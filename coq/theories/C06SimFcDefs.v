(* C06, refinement through the compiler: the fragment FC (closures over the locals of main), the code the
   compiler emits for it and its meaning computed directly.  Executable definitions only.

   Fragment FC: one module, no submodules, no imports, its only function `main` without parameters.  Cards of main
   (Ln = the names of the locals of main declared so far, most recent first; Lc = those that hold a closure):
     SetGlobalVar g e                         g non-empty
     SetVar x e                               x a data local (assigned) or a new name (declared); never a closure name
     SetVar c (Closure [] body)               c a NEW name: declares the local c that holds the closure
     SetGlobalVar r (DynamicCall (ReadVar c) [])     c a closure local: calls it; r := nil (the body returns nothing)
   closure bodies: a list of   SetGlobalVar g e  |  SetVar x e  with x a DATA LOCAL OF MAIN declared before the
   closure (captured by reference: RefSem writes the cell of main's x, the compiled code does SetUpvalue).
   expressions e: those of C01's F1 (ScalarInt, ScalarNil, ReadVar, Not, Add Sub Mul Less ... ) whose ReadVar never
   names a closure local; in a closure body a ReadVar of a data local of main (declared before the closure) is a
   captured variable (ReadUpvalue), any other name a global.  No nesting of closures, no loops, no parameters.
   (The statement form  DynamicCall (ReadVar c) []  directly as a card of main is left out: the compiler leaves the
   returned nil on the value stack there, which shifts nothing - locals are addressed by slot - but makes the stack
   shape depend on the number of calls.)

   The local store of the meaning is that of C01's F5 (list (name, value), data locals only); a closure is kept as
   (name, (body, names of the data locals visible where it was created)): its body runs on main's store restricted
   to the names it could see - a local of main declared AFTER the closure is invisible to it (the name is then a
   global in the body, as in RefSem where cl_up is the scope list of the creation point). *)
From Coq Require Import List NArith ZArith Bool.
From Cao Require Import ListUtil Bits CardAst Bytecode Compiler CompilerWf C01SimDefs C01SimDefs2 C01SimDefs4 C01SimDefs5.
From Cao Require RefSem Vm.
Import ListNotations.
Local Open Scope N_scope.

Definition smem (n : str) (l : list str) : bool := existsb (RefSem.str_eqb n) l.

(* ------------------------------------------------------------------ syntax *)
Fixpoint expr_names_fc (e : card) : list str :=
  match e with
  | CReadVar n => [n]
  | CUn _ a => expr_names_fc a
  | CBin _ a b => expr_names_fc a ++ expr_names_fc b
  | _ => []
  end.
(* an expression: of F1, and no closure local is read *)
Definition expr_fc (Lc : list str) (e : card) : bool :=
  expr_f1 e && forallb (fun n => negb (smem n Lc)) (expr_names_fc e).

(* a statement of a closure body; Ln, Lc: the context of main where the closure is created *)
Definition bstmt_fc (Ln Lc : list str) (c : card) : bool :=
  match c with
  | CSetGlobalVar g e => negb (is_empty g) && expr_fc Lc e
  | CSetVar x e => var_ok x && lmem x Ln && negb (smem x Lc) && expr_fc Lc e
  | _ => false
  end.

Definition top_fc (Ln Lc : list str) (c : card) : bool :=
  match c with
  | CSetVar x (CClosure [] body) => var_ok x && negb (lmem x Ln) && forallb (bstmt_fc Ln Lc) body
  | CSetVar x e => var_ok x && negb (smem x Lc) && expr_fc Lc e
  | CSetGlobalVar r (CDynamicCall (CReadVar x) []) => negb (is_empty r) && var_ok x && smem x Lc
  | CSetGlobalVar g e => negb (is_empty g) && expr_fc Lc e
  | _ => false
  end.
Definition clos_next (Lc : list str) (c : card) : list str :=
  match c with
  | CSetVar x (CClosure _ _) => x :: Lc
  | _ => Lc
  end.
Fixpoint cards_fc (Ln Lc : list str) (cards : list card) : bool :=
  match cards with
  | [] => true
  | c :: r => top_fc Ln Lc c && cards_fc (names_next Ln c) (clos_next Lc c) r
  end.

Definition in_fc (M : module) : bool :=
  match M with
  | Module [] [(name, f)] [] =>
      str_eqb name s_main && (match f_args f with [] => true | _ => false end) &&
      cards_fc [] [] (f_cards f)
  | _ => false
  end.

(* ------------------------------------------------------------------ code *)
(* add_upvalue on the list of captured slots of the closure being compiled (all entries are is_local) *)
Fixpoint index_of (i : nat) (ups : list nat) : option nat :=
  match ups with
  | [] => None
  | u :: r => if Nat.eqb u i then Some 0%nat else match index_of i r with Some k => Some (S k) | None => None end
  end.
Definition add_up (ups : list nat) (i : nat) : nat * list nat :=
  match index_of i ups with
  | Some k => (k, ups)
  | None => (length ups, ups ++ [i])
  end.

(* an expression inside a closure body: a local of main is reached through an upvalue *)
Fixpoint code_expr_cl (T : list (N * N)) (Ln : list str) (ups : list nat) (e : card) : list instr * list nat :=
  match e with
  | CScalarNil => ([IScalarNil], ups)
  | CScalarInt z => ([IScalarInt z], ups)
  | CReadVar n => match slot Ln n with
                  | Some i => let '(k, ups') := add_up ups i in ([IReadUpvalue (N.of_nat k)], ups')
                  | None => ([IReadGlobalVar (idT T n)], ups)
                  end
  | CUn UNot a => let '(ca, u1) := code_expr_cl T Ln ups a in (ca ++ [INot], u1)
  | CBin op a b =>
      let '(ca, u1) := code_expr_cl T Ln ups a in
      let '(cb, u2) := code_expr_cl T Ln u1 b in
      (ca ++ cb ++ [simple_binop op], u2)
  | _ => ([], ups)
  end.
Definition code_bstmt (T : list (N * N)) (Ln : list str) (ups : list nat) (c : card) : list instr * list nat :=
  match c with
  | CSetGlobalVar g e => let '(ce, u1) := code_expr_cl T Ln ups e in (ce ++ [ISetGlobalVar (idT T g)], u1)
  | CSetVar x e =>
      let '(ce, u1) := code_expr_cl T Ln ups e in
      let '(k, u2) := add_up u1 (set_slot Ln x) in
      (ce ++ [ISetUpvalue (N.of_nat k)], u2)
  | _ => ([], ups)
  end.
Fixpoint code_body (T : list (N * N)) (Ln : list str) (ups : list nat) (cs : list card) : list instr * list nat :=
  match cs with
  | [] => ([], ups)
  | c :: r => let '(cc, u1) := code_bstmt T Ln ups c in
              let '(cr, u2) := code_body T Ln u1 r in (cc ++ cr, u2)
  end.

(* the label key of the closure that is the value (sub-card 0) of card [ic] of main; [mainh] = main's handle *)
Definition fc_handle (mainh : N) (ic : N) : N :=
  handle_add (handle_add mainh (handle_of_bytes (le_bytes 4 (ic mod two32) ++ le_bytes 4 0)))
             (handle_from_u64 closure_mask).

(* card number [ic] of main, emitted at byte [base] *)
Definition code_fc (T : list (N * N)) (mainh : N) (Ln : list str) (base : N) (ic : N) (c : card) : list instr :=
  match c with
  | CSetVar x (CClosure _ body) =>
      let '(cb, ups) := code_body T Ln [] body in
      IGoto (u32_to_i32 (base + 5 + bytes cb + 2)) :: cb ++ [IScalarNil; IReturn] ++
      IClosure (fc_handle mainh ic) 0 ::
      flat_map (fun i => [ICopyLast; IRegisterUpvalue (N.of_nat i) 1]) ups ++
      [ISetLocalVar (N.of_nat (length Ln))]
  | CSetGlobalVar r (CDynamicCall (CReadVar x) []) =>
      [IReadLocalVar (N.of_nat (set_slot Ln x)); ICallFunction; ISetGlobalVar (idT T r)]
  | CSetGlobalVar g e => code_expr5 T Ln e ++ [ISetGlobalVar (idT T g)]
  | CSetVar x e => code_expr5 T Ln e ++ [ISetLocalVar (N.of_nat (set_slot Ln x))]
  | _ => []
  end.
Fixpoint code_main_fc (T : list (N * N)) (mainh : N) (Ln : list str) (base : N) (ic : N) (cards : list card) : list instr :=
  match cards with
  | [] => []
  | c :: r => let cc := code_fc T mainh Ln base ic c in
              cc ++ code_main_fc T mainh (names_next Ln c) (base + bytes cc) (ic + 1) r
  end.

(* the slots of main captured by some closure (mark_captured) *)
Definition card_captured (Ln : list str) (c : card) : list nat :=
  match c with
  | CSetVar _ (CClosure _ body) => snd (code_body [] Ln [] body)
  | _ => []
  end.
Fixpoint captured_fc (Ln : list str) (cards : list card) : list nat :=
  match cards with
  | [] => []
  | c :: r => card_captured Ln c ++ captured_fc (names_next Ln c) r
  end.
(* scope_end of main: from the last local down, CloseUpvalue slot for a captured local, Pop for the others *)
Fixpoint pops_fc (cap : list nat) (n : nat) : list instr :=
  match n with
  | O => []
  | S k => (if existsb (Nat.eqb k) cap then ICloseUpvalue (N.of_nat k) else IPop) :: pops_fc cap k
  end.
Definition code_all_fc (T : list (N * N)) (mainh : N) (cards : list card) : list instr :=
  code_main_fc T mainh [] 0 0 cards ++ pops_fc (captured_fc [] cards) (length (names_end [] cards)) ++ [IExit].
(* the labels of the closures: key, address of the first instruction of the body *)
Fixpoint labels_fc (T : list (N * N)) (mainh : N) (Ln : list str) (base : N) (ic : N) (cards : list card) : list (N * N) :=
  match cards with
  | [] => []
  | c :: r =>
      (match c with CSetVar _ (CClosure _ _) => [(fc_handle mainh ic, base + 5)] | _ => [] end) ++
      labels_fc T mainh (names_next Ln c) (base + bytes (code_fc T mainh Ln base ic c)) (ic + 1) r
  end.

(* ------------------------------------------------------------------ meaning *)
Definition cstore : Type := list (str * (list card * list str)).   (* closure local -> body, visible data locals *)

(* main's store seen from a closure that could see the names [vis] *)
Definition restrict (vis : list str) (R : lstore) : lstore := filter (fun nv => smem (fst nv) vis) R.

(* the body of a closure that sees [vis], on main's store R (the writes go to R itself: capture by reference) *)
Fixpoint run_body (vis : list str) (R : lstore) (g : gl) (cs : list card) : bool * lstore * gl :=
  match cs with
  | [] => (true, R, g)
  | c :: r =>
      match c with
      | CSetGlobalVar n e =>
          match ev (restrict vis R ++ g) e with
          | Some v => run_body vis R (RefSem.set_assoc n v g) r
          | None => (false, R, g)
          end
      | CSetVar x e =>
          match ev (restrict vis R ++ g) e with
          | Some v => run_body vis (RefSem.set_assoc x v R) g r
          | None => (false, R, g)
          end
      | _ => run_body vis R g r
      end
  end.

Definition run_top_fc (R : lstore) (C : cstore) (g : gl) (c : card) : bool * lstore * cstore * gl :=
  match c with
  | CSetVar x (CClosure _ body) => (true, R, (x, (body, map fst R)) :: C, g)
  | CSetVar x e =>
      match ev (R ++ g) e with
      | Some v => (true, sets_local x v R, C, g)
      | None => (false, R, C, g)
      end
  | CSetGlobalVar r (CDynamicCall (CReadVar x) []) =>
      match RefSem.assoc x C with
      | Some (body, vis) =>
          match run_body vis R g body with
          | (true, R1, g1) => (true, R1, C, RefSem.set_assoc r RefSem.VNil g1)
          | (false, R1, g1) => (false, R1, C, g1)
          end
      | None => (false, R, C, g)
      end
  | CSetGlobalVar n e =>
      match ev (R ++ g) e with
      | Some v => (true, R, C, RefSem.set_assoc n v g)
      | None => (false, R, C, g)
      end
  | _ => (true, R, C, g)
  end.
Fixpoint run_fc (R : lstore) (C : cstore) (g : gl) (cards : list card) : bool * lstore * cstore * gl :=
  match cards with
  | [] => (true, R, C, g)
  | c :: r =>
      match run_top_fc R C g c with
      | (true, R1, C1, g1) => run_fc R1 C1 g1 r
      | other => other
      end
  end.

(* the observation the meaning predicts: kind and globals (every failure of the fragment is VarNotFound) *)
Definition obs_fc (cards : list card) : RefSem.okind * list (str * RefSem.tree) :=
  let '(ok, _, _, g) := run_fc [] [] [] cards in
  (if ok then RefSem.KOk else RefSem.KErr RefSem.EVarNotFound,
   map (fun nv => (fst nv, vm_tree (to_vm (snd nv)))) g).
