(* Model of cao-lang/src/collections/handle_table.rs (HandleTable), as repaired by the fix:
   commits listed in known_findings.json.  It is the same open-addressing scheme as CaoHashMap
   with the 32-bit handle itself as hash and key, so the model reuses HashMap.v with K := unit:
   an entry (handle, value) is {| e_hash := handle; e_key := tt; e_val := value |}.
   Capacities are powers of two; `& (capacity - 1)` is modelled as `mod capacity`
   (HandleTableProofs.mask_is_mod, under the power-of-two invariant ht_pow2). *)
From Coq Require Import Arith Lia List Bool NArith.
Import ListNotations.
From Cao Require Import Cyc ProbeDefs HashMap.

Set Implicit Arguments.

Section HT.
  Variable V : Type.
  Variable home : nat -> N -> nat.           (* optimal_ind(handle, capacity - 1) *)
  Variable needs_grow : nat -> nat -> bool.  (* count as f32 > capacity as f32 * MAX_LOAD *)
  Variable grow_cap : nat -> nat.            (* (capacity.max(2) * 3) / 2 *)
  Variable min_cap : nat.                    (* 4 *)
  Variable reserve_cap : nat -> nat.         (* (n as f32 * (1.0 + MAX_LOAD)) as usize *)

  Notation htable := (hmap unit V).
  Definition ueqb (_ _ : unit) : bool := true.
  Definition hk (h : N) (v : V) : entry unit V := {| e_hash := h; e_key := tt; e_val := v |}.

  (* pad_pot: 1 for 0 and 1, otherwise the next power of two *)
  Definition pad_pot (c : nat) : nat := if c <=? 1 then 1 else 2 ^ (S (Nat.log2 (c - 1))).
  Definition norm_cap (c : nat) : nat := Nat.max (pad_pot c) min_cap.

  (* with_capacity(capacity) *)
  Definition ht_new (c : nat) : htable := {| hm_slots := repeat None (norm_cap c); hm_count := 0 |}.

  (* adjust_capacity(capacity): pad, allocate keys and values, re-insert in slot order *)
  Definition ht_adjust (m : htable) (c : nat) (ok : bool) : res htable :=
    adjust ueqb home m (norm_cap c) ok.
  Definition ht_grow (m : htable) (ok : bool) : res htable := ht_adjust m (grow_cap (hcap m)) ok.

  (* _insert: no growth *)
  Definition ht_insert_raw (m : htable) (h : N) (v : V) : res htable * list V :=
    match hfind ueqb home (hm_slots m) h tt with
    | None => (Diverge, [])
    | Some i =>
        match get (hm_slots m) i with
        | Some e => (Ok {| hm_slots := set (hm_slots m) i (Some (hk h v)); hm_count := hm_count m |}, [e_val e])
        | None => (Ok {| hm_slots := set (hm_slots m) i (Some (hk h v)); hm_count := S (hm_count m) |}, [])
        end
    end.

  Inductive hterr := EAlloc | EInvalidHandle.

  (* insert(key, value): drop log = values destroyed *)
  Definition ht_insert (m : htable) (h : N) (v : V) (ok : bool) : res htable * option hterr * list V :=
    if N.eqb h 0 then (Ok m, Some EInvalidHandle, [v])
    else
      let grown := if needs_grow (S (hm_count m)) (hcap m) then ht_grow m ok else Ok m in
      match grown with
      | Ok m1 => let '(r, d) := ht_insert_raw m1 h v in (r, None, d)
      | AllocErr => (Ok m, Some EAlloc, [v])
      | Diverge => (Diverge, None, [])
      | Panic => (Panic, None, [])
      end.

  (* entry(key) [+ or_insert_with]: growth failure is an `expect` => Panic *)
  Definition ht_entry (m : htable) (h : N) (ins : option V) (ok : bool) : res (htable * option V) :=
    match hfind ueqb home (hm_slots m) h tt with
    | None => Diverge
    | Some i =>
        match get (hm_slots m) i with
        | Some e => Ok (m, Some (e_val e))
        | None =>
            let grown := if needs_grow (S (hm_count m)) (hcap m) then ht_grow m ok else Ok m in
            match grown with
            | Ok m1 =>
                match ins with
                | None => Ok (m1, None)
                | Some v =>
                    match hfind ueqb home (hm_slots m1) h tt with
                    | None => Diverge
                    | Some i' => Ok ({| hm_slots := set (hm_slots m1) i' (Some (hk h v));
                                        hm_count := S (hm_count m1) |}, Some v)
                    end
                end
            | AllocErr => Panic
            | Diverge => Diverge
            | Panic => Panic
            end
        end
    end.

  (* reserve(additional) *)
  Definition ht_reserve (m : htable) (add : nat) (ok : bool) : res htable :=
    let new_cap := add + hm_count m in
    if hcap m <? new_cap then ht_adjust m (reserve_cap new_cap) ok else Ok m.

  Definition ht_remove (m : htable) (h : N) : res (htable * option V) :=
    fst (remove_h ueqb home m h tt).
  Definition ht_get (m : htable) (h : N) : res (option V) := get_h ueqb home m h tt.
  Definition ht_iter (m : htable) : list (N * V) :=
    map (fun e => (e_hash e, e_val e)) (contents (hm_slots m)).
  Definition ht_clear (m : htable) : htable * list V :=
    ({| hm_slots := repeat None (hcap m); hm_count := 0 |}, map (@e_val unit V) (contents (hm_slots m))).

  Variable clone_v : V -> V.
  Fixpoint ht_clone_fill (es : list (entry unit V)) (m : htable) : res htable :=
    match es with
    | [] => Ok m
    | e :: r =>
        match ht_insert m (e_hash e) (clone_v (e_val e)) true with
        | (Ok m', None, _) => ht_clone_fill r m'
        | (Ok _, Some _, _) => Panic          (* .unwrap() on Err *)
        | (AllocErr, _, _) => Panic
        | (Diverge, _, _) => Diverge
        | (Panic, _, _) => Panic
        end
    end.
  Definition ht_clone (m : htable) : res htable := ht_clone_fill (contents (hm_slots m)) (ht_new (hcap m)).

  Inductive top :=
  | TInsert (h : N) (v : V) (ok : bool)
  | TEntryIns (h : N) (v : V) (ok : bool)
  | TEntryDrop (h : N) (ok : bool)
  | TRemove (h : N) | TGet (h : N) | TContains (h : N)
  | TGetMutSet (h : N) (v : V)
  | TIndex (h : N)
  | TReserve (add : nat) (ok : bool)
  | TClear | TClone | TLen | TCap | TIter.

  Inductive tout :=
  | TOUnit | TOErrAlloc | TOErrInvalid | TOOptV (o : option V) | TOBool (b : bool) | TONat (n : nat)
  | TOList (l : list (N * V)) | TOClone (c : nat) (l : list (N * V)) | TODiverge | TOPanic.

  Definition tlift {A} (r : res A) (m : htable) (f : A -> htable * tout) : htable * tout :=
    match r with
    | Ok a => f a
    | AllocErr => (m, TOErrAlloc)
    | Diverge => (m, TODiverge)
    | Panic => (m, TOPanic)
    end.

  (* state, output, dropped values *)
  Definition ht_step (m : htable) (o : top) : htable * tout * list V :=
    match o with
    | TInsert h v ok =>
        match ht_insert m h v ok with
        | (Ok m', None, d) => (m', TOUnit, d)
        | (Ok m', Some EAlloc, d) => (m', TOErrAlloc, d)
        | (Ok m', Some EInvalidHandle, d) => (m', TOErrInvalid, d)
        | (AllocErr, _, d) => (m, TOErrAlloc, d)
        | (Diverge, _, d) => (m, TODiverge, d)
        | (Panic, _, d) => (m, TOPanic, d)
        end
    | TEntryIns h v ok => (tlift (ht_entry m h (Some v) ok) m (fun p => (fst p, TOOptV (snd p))), [])
    | TEntryDrop h ok => (tlift (ht_entry m h None ok) m (fun p => (fst p, TOUnit)), [])
    | TRemove h => (tlift (ht_remove m h) m (fun p => (fst p, TOOptV (snd p))), [])
    | TGet h => (tlift (ht_get m h) m (fun o => (m, TOOptV o)), [])
    | TContains h =>
        (tlift (ht_get m h) m (fun o => (m, TOBool (match o with Some _ => true | None => false end))), [])
    | TGetMutSet h v =>
        match ht_get m h with
        | Ok (Some old) => let '(r, d) := ht_insert_raw m h v in (tlift r m (fun m' => (m', TOBool true)), d)
        | Ok None => (m, TOBool false, [])
        | AllocErr => (m, TOErrAlloc, []) | Diverge => (m, TODiverge, []) | Panic => (m, TOPanic, [])
        end
    | TIndex h =>
        (tlift (ht_get m h) m (fun o => match o with Some v => (m, TOOptV (Some v)) | None => (m, TOPanic) end), [])
    | TReserve add ok => (tlift (ht_reserve m add ok) m (fun m' => (m', TOUnit)), [])
    | TClear => let '(m', d) := ht_clear m in (m', TOUnit, d)
    | TClone =>
        match ht_clone m with
        | Ok c => (m, TOClone (hcap c) (ht_iter c), snd (ht_clear c))
        | AllocErr => (m, TOErrAlloc, []) | Diverge => (m, TODiverge, []) | Panic => (m, TOPanic, [])
        end
    | TLen => (m, TONat (hm_count m), [])
    | TCap => (m, TONat (hcap m), [])
    | TIter => (m, TOList (ht_iter m), [])
    end.

  Fixpoint ht_run (m : htable) (ops : list top) : htable * list (tout * list V) :=
    match ops with
    | [] => (m, [])
    | o :: r => let '(m1, x, d) := ht_step m o in
                let '(m2, xs) := ht_run m1 r in (m2, (x, d) :: xs)
    end.
End HT.
