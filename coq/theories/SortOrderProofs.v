(* The comparators of the library natives sort / min / max are strict weak orders
   (irreflexive + cotransitive) on keys whose reals are valid binary64 floats.

   Route: every number that is not NaN gets a RANK in a totally ordered domain without real
   numbers: -inf | an integer | +inf (| NaN on top, for sort_lt).  A finite float m * 2^e with
   e >= -1074 (validity) is ranked by the integer m * 2^(e + 1074), an integer i by i * 2^1074.
   [Z_cmp_sf] and [SFcompare] (on valid floats) are the comparison of the ranks. *)
From Coq Require Import List ZArith NArith Bool Lia.
From Coq Require Import Floats.SpecFloat.
From Cao Require Import CheckUtil Bits CardAst Table Value StdlibGen RefSem.
Import ListNotations.

Definition sf_valid (x : spec_float) : bool := valid_binary 53 1024 x.
(* a key is fine when it is not a real, or a valid binary64 *)
Definition key_valid (v : value) : bool := match v with VReal x => sf_valid x | _ => true end.
(* a number that is not NaN *)
Definition num_key (v : value) : bool :=
  match v with VInt _ => true | VReal x => sf_valid x && negb (is_nan v) | _ => false end.

Local Open Scope Z_scope.

(* ------------------------------------------------------------------------------------------ *)
(* ranks                                                                                      *)
(* ------------------------------------------------------------------------------------------ *)
Inductive rank := RNegInf | RFin (z : Z) | RPosInf | RNan.

Definition rank_cls (r : rank) : Z :=
  match r with RNegInf => 0 | RFin _ => 1 | RPosInf => 2 | RNan => 3 end.
Definition rank_val (r : rank) : Z := match r with RFin z => z | _ => 0 end.
Definition rank_cmp (a b : rank) : comparison :=
  match Z.compare (rank_cls a) (rank_cls b) with
  | Eq => Z.compare (rank_val a) (rank_val b)
  | c => c
  end.
Definition is_lt (c : comparison) : bool := match c with Lt => true | _ => false end.
Definition is_gt (c : comparison) : bool := match c with Gt => true | _ => false end.

Lemma rank_cmp_fin : forall a b, rank_cmp (RFin a) (RFin b) = Z.compare a b.
Proof. reflexivity. Qed.

Lemma rank_cmp_spec : forall a b,
  match rank_cmp a b with
  | Lt => rank_cls a < rank_cls b \/ (rank_cls a = rank_cls b /\ rank_val a < rank_val b)
  | Eq => rank_cls a = rank_cls b /\ rank_val a = rank_val b
  | Gt => rank_cls b < rank_cls a \/ (rank_cls a = rank_cls b /\ rank_val b < rank_val a)
  end.
Proof.
  intros a b. unfold rank_cmp.
  destruct (Z.compare_spec (rank_cls a) (rank_cls b));
    destruct (Z.compare_spec (rank_val a) (rank_val b)); lia.
Qed.

Lemma rank_cmp_refl : forall a, rank_cmp a a = Eq.
Proof.
  intros a. unfold rank_cmp. rewrite !Z.compare_refl. reflexivity.
Qed.

Lemma rank_cmp_antisym : forall a b, rank_cmp b a = CompOpp (rank_cmp a b).
Proof.
  intros a b. unfold rank_cmp.
  rewrite (Z.compare_antisym (rank_cls a) (rank_cls b)).
  rewrite (Z.compare_antisym (rank_val a) (rank_val b)).
  destruct (rank_cls a ?= rank_cls b); reflexivity.
Qed.

Lemma rank_cmp_cotrans : forall a b c,
  rank_cmp a b = Lt -> rank_cmp a c = Lt \/ rank_cmp c b = Lt.
Proof.
  intros a b c H.
  pose proof (rank_cmp_spec a b) as Hab. rewrite H in Hab.
  pose proof (rank_cmp_spec a c) as Hac. pose proof (rank_cmp_spec c b) as Hcb.
  destruct (rank_cmp a c); [ | left; reflexivity | ];
    (destruct (rank_cmp c b); [ | right; reflexivity | ]); exfalso; lia.
Qed.

Lemma rank_cmp_asym : forall a b, rank_cmp a b = Lt -> rank_cmp b a <> Lt.
Proof.
  intros a b H. rewrite (rank_cmp_antisym a b), H. discriminate.
Qed.

Lemma is_gt_lt : forall a b, is_gt (rank_cmp a b) = is_lt (rank_cmp b a).
Proof.
  intros a b. rewrite (rank_cmp_antisym a b). destruct (rank_cmp a b); reflexivity.
Qed.

(* ------------------------------------------------------------------------------------------ *)
(* ranks of floats and values                                                                 *)
(* ------------------------------------------------------------------------------------------ *)
Definition sgn_m (s : bool) (m : positive) : Z := if s then Zneg m else Zpos m.

Definition rank_sf (x : spec_float) : rank :=
  match x with
  | S754_zero _ => RFin 0
  | S754_infinity s => if s then RNegInf else RPosInf
  | S754_nan => RNan
  | S754_finite s m e => RFin (sgn_m s m * 2 ^ (e + 1074))
  end.
Definition rank_Z (i : Z) : rank := RFin (i * 2 ^ 1074).
Definition rank_v (v : value) : rank :=
  match v with VInt i => rank_Z i | VReal x => rank_sf x | _ => RNan end.

(* ---- validity of a finite float ---- *)
Lemma digits2_bounds : forall m, 2 ^ (Zpos (digits2_pos m) - 1) <= Zpos m < 2 ^ Zpos (digits2_pos m).
Proof.
  induction m as [m IH | m IH | ].
  - cbn [digits2_pos]. rewrite Pos2Z.inj_succ. unfold Z.succ.
    replace (Zpos (digits2_pos m) + 1 - 1) with (Z.succ (Zpos (digits2_pos m) - 1)) by lia.
    replace (Zpos (digits2_pos m) + 1) with (Z.succ (Zpos (digits2_pos m))) by lia.
    rewrite !Z.pow_succ_r by lia.
    rewrite (Pos2Z.inj_xI m). lia.
  - cbn [digits2_pos]. rewrite Pos2Z.inj_succ. unfold Z.succ.
    replace (Zpos (digits2_pos m) + 1 - 1) with (Z.succ (Zpos (digits2_pos m) - 1)) by lia.
    replace (Zpos (digits2_pos m) + 1) with (Z.succ (Zpos (digits2_pos m))) by lia.
    rewrite !Z.pow_succ_r by lia.
    rewrite (Pos2Z.inj_xO m). lia.
  - cbn [digits2_pos]. split; reflexivity || (vm_compute; congruence).
Qed.

Lemma valid_finite : forall s m e,
  sf_valid (S754_finite s m e) = true ->
  -1074 <= e /\ Zpos m < 2 ^ 53 /\ (-1074 < e -> 2 ^ 52 <= Zpos m).
Proof.
  intros s m e H.
  unfold sf_valid, valid_binary, bounded, canonical_mantissa, fexp, emin in H.
  apply andb_true_iff in H. destruct H as [H _]. apply Zeq_bool_eq in H.
  pose proof (digits2_bounds m) as [Hlo Hhi].
  set (d := Zpos (digits2_pos m)) in *.
  assert (Hd : d <= 53) by lia.
  split; [lia | split].
  - pose proof (Z.pow_le_mono_r 2 d 53 ltac:(lia) Hd). lia.
  - intros He. assert (d = 53) by lia. subst d.
    replace (2 ^ 52) with (2 ^ (Zpos (digits2_pos m) - 1)); [exact Hlo | ].
    f_equal. lia.
Qed.

(* ---- an integer against a float ---- *)
Lemma cross_cmp : forall i v e k, 0 <= k -> - k <= e ->
  match e with
  | Z0 => Z.compare i v
  | Zpos p => Z.compare i (v * 2 ^ Zpos p)
  | Zneg p => Z.compare (i * 2 ^ Zpos p) v
  end = Z.compare (i * 2 ^ k) (v * 2 ^ (e + k)).
Proof.
  intros i v e k Hk He.
  assert (Hpk : 0 < 2 ^ k) by (apply Z.pow_pos_nonneg; lia).
  destruct e as [ | p | p].
  - rewrite Z.add_0_l. apply Zmult_compare_compat_r. lia.
  - rewrite Z.pow_add_r by lia. rewrite Z.mul_assoc.
    apply Zmult_compare_compat_r. lia.
  - assert (Hq : 0 < 2 ^ (Zneg p + k)) by (apply Z.pow_pos_nonneg; lia).
    replace (2 ^ k) with (2 ^ Zpos p * 2 ^ (Zneg p + k)).
    + rewrite Z.mul_assoc. apply Zmult_compare_compat_r. lia.
    + rewrite <- Z.pow_add_r by lia. f_equal. lia.
Qed.

Lemma Z_cmp_sf_rank : forall i x, sf_valid x = true -> x <> S754_nan ->
  Z_cmp_sf i x = Some (rank_cmp (rank_Z i) (rank_sf x)).
Proof.
  intros i x Hv Hn. destruct x as [s | s | | s m e].
  - unfold Z_cmp_sf, rank_Z, rank_sf. rewrite rank_cmp_fin. f_equal.
    rewrite (Zmult_compare_compat_r i 0 (2 ^ 1074)).
    + rewrite Z.mul_0_l. reflexivity.
    + assert (0 < 2 ^ 1074) by (apply Z.pow_pos_nonneg; lia). lia.
  - destruct s; reflexivity.
  - congruence.
  - pose proof (valid_finite _ _ _ Hv) as [He _].
    unfold Z_cmp_sf, rank_Z, rank_sf. rewrite rank_cmp_fin. f_equal.
    fold (sgn_m s m). apply cross_cmp; lia.
Qed.

(* ---- two floats ---- *)
Lemma fin_lt : forall m1 e1 m2 e2,
  sf_valid (S754_finite false m1 e1) = true -> sf_valid (S754_finite false m2 e2) = true ->
  e1 < e2 -> Zpos m1 * 2 ^ (e1 + 1074) < Zpos m2 * 2 ^ (e2 + 1074).
Proof.
  intros m1 e1 m2 e2 H1 H2 Hlt.
  pose proof (valid_finite _ _ _ H1) as [He1 [Hm1 _]].
  pose proof (valid_finite _ _ _ H2) as [He2 [_ Hm2]].
  assert (Hm2' : 2 ^ 52 <= Zpos m2) by (apply Hm2; lia).
  replace (e2 + 1074) with ((e2 - e1) + (e1 + 1074)) by lia.
  rewrite (Z.pow_add_r 2 (e2 - e1) (e1 + 1074)) by lia.
  assert (HP : 0 < 2 ^ (e1 + 1074)) by (apply Z.pow_pos_nonneg; lia).
  assert (Ht : 2 ^ 1 <= 2 ^ (e2 - e1)) by (apply Z.pow_le_mono_r; lia).
  rewrite Z.pow_1_r in Ht.
  set (P := 2 ^ (e1 + 1074)) in *. set (t := 2 ^ (e2 - e1)) in *.
  rewrite Z.mul_assoc.
  apply Z.mul_lt_mono_pos_r; [exact HP | ].
  assert (Zpos m1 < 2 * Zpos m2) by lia.
  assert (2 * Zpos m2 <= Zpos m2 * t) by nia.
  lia.
Qed.

Lemma pos_cmp_cont : forall m1 m2, Pos.compare_cont Eq m1 m2 = Z.compare (Zpos m1) (Zpos m2).
Proof. intros. reflexivity. Qed.

Lemma SFcompare_rank : forall x y,
  sf_valid x = true -> sf_valid y = true -> x <> S754_nan -> y <> S754_nan ->
  SFcompare x y = Some (rank_cmp (rank_sf x) (rank_sf y)).
Proof.
  intros x y Hx Hy Nx Ny.
  destruct x as [s1 | s1 | | s1 m1 e1]; [ | | congruence | ];
    (destruct y as [s2 | s2 | | s2 m2 e2]; [ | | congruence | ]).
  - reflexivity.
  - destruct s2; reflexivity.
  - (* zero, finite *)
    pose proof (valid_finite _ _ _ Hy) as [He _].
    assert (HP : 0 < 2 ^ (e2 + 1074)) by (apply Z.pow_pos_nonneg; lia).
    unfold SFcompare, rank_sf. rewrite rank_cmp_fin. f_equal.
    destruct s2; unfold sgn_m; symmetry.
    + apply Z.compare_gt_iff. pose proof (Pos2Z.neg_is_neg m2). nia.
    + apply Z.compare_lt_iff. pose proof (Pos2Z.pos_is_pos m2). nia.
  - destruct s1; reflexivity.
  - destruct s1, s2; reflexivity.
  - destruct s1; reflexivity.
  - (* finite, zero *)
    pose proof (valid_finite _ _ _ Hx) as [He _].
    assert (HP : 0 < 2 ^ (e1 + 1074)) by (apply Z.pow_pos_nonneg; lia).
    unfold SFcompare, rank_sf. rewrite rank_cmp_fin. f_equal.
    destruct s1; unfold sgn_m; symmetry.
    + apply Z.compare_lt_iff. pose proof (Pos2Z.neg_is_neg m1). nia.
    + apply Z.compare_gt_iff. pose proof (Pos2Z.pos_is_pos m1). nia.
  - destruct s2; reflexivity.
  - (* finite, finite *)
    pose proof (valid_finite _ _ _ Hx) as [He1 _].
    pose proof (valid_finite _ _ _ Hy) as [He2 _].
    assert (HP1 : 0 < 2 ^ (e1 + 1074)) by (apply Z.pow_pos_nonneg; lia).
    assert (HP2 : 0 < 2 ^ (e2 + 1074)) by (apply Z.pow_pos_nonneg; lia).
    unfold SFcompare, rank_sf. rewrite rank_cmp_fin. f_equal.
    rewrite pos_cmp_cont.
    pose proof (Pos2Z.pos_is_pos m1) as Hm1. pose proof (Pos2Z.pos_is_pos m2) as Hm2.
    assert (Hn1 : Zneg m1 = - Zpos m1) by reflexivity.
    assert (Hn2 : Zneg m2 = - Zpos m2) by reflexivity.
    destruct s1, s2; unfold sgn_m; symmetry.
    + (* both negative *)
      rewrite Hn1, Hn2.
      destruct (Z.compare_spec e1 e2) as [E | E | E].
      * subst e2. rewrite <- (Z.compare_antisym (Zpos m1) (Zpos m2)).
        rewrite (Zmult_compare_compat_r (Zpos m2) (Zpos m1) (2 ^ (e1 + 1074))) by lia.
        rewrite !Z.mul_opp_l. apply Z.compare_opp.
      * apply Z.compare_gt_iff.
        assert (Hs : sf_valid (S754_finite false m1 e1) = true) by exact Hx.
        assert (Hs' : sf_valid (S754_finite false m2 e2) = true) by exact Hy.
        pose proof (fin_lt _ _ _ _ Hs Hs' E). lia.
      * apply Z.compare_lt_iff.
        assert (Hs : sf_valid (S754_finite false m1 e1) = true) by exact Hx.
        assert (Hs' : sf_valid (S754_finite false m2 e2) = true) by exact Hy.
        pose proof (fin_lt _ _ _ _ Hs' Hs E). lia.
    + apply Z.compare_lt_iff. nia.
    + apply Z.compare_gt_iff. nia.
    + destruct (Z.compare_spec e1 e2) as [E | E | E].
      * subst e2. symmetry. apply Zmult_compare_compat_r. lia.
      * apply Z.compare_lt_iff. apply fin_lt; assumption.
      * apply Z.compare_gt_iff. apply fin_lt; assumption.
Qed.

(* ---- v_cmp on numbers that are not NaN ---- *)
Lemma num_key_real : forall x, num_key (VReal x) = true -> sf_valid x = true /\ x <> S754_nan.
Proof.
  intros x H. unfold num_key in H. apply andb_true_iff in H. destruct H as [H1 H2].
  split; [exact H1 | ]. intros ->. discriminate H2.
Qed.

Lemma v_cmp_rank : forall h a b, num_key a = true -> num_key b = true ->
  v_cmp h a b = Some (Some (rank_cmp (rank_v a) (rank_v b))).
Proof.
  intros h a b Ha Hb.
  destruct a as [ | i | x | | | | | ]; try discriminate Ha;
    (destruct b as [ | j | y | | | | | ]; try discriminate Hb).
  - unfold v_cmp, rank_v, rank_Z, v_is_int, v_to_i64. rewrite rank_cmp_fin.
    cbn [orb]. do 2 f_equal. apply Zmult_compare_compat_r.
    assert (0 < 2 ^ 1074) by (apply Z.pow_pos_nonneg; lia). lia.
  - apply num_key_real in Hb. destruct Hb as [Hv Hn].
    unfold v_cmp, v_to_i64, rank_v. rewrite (Z_cmp_sf_rank i y Hv Hn). reflexivity.
  - apply num_key_real in Ha. destruct Ha as [Hv Hn].
    unfold v_cmp, v_to_i64, rank_v. rewrite (Z_cmp_sf_rank j x Hv Hn).
    cbn [option_map]. rewrite <- rank_cmp_antisym. reflexivity.
  - apply num_key_real in Ha. destruct Ha as [Hv Hn].
    apply num_key_real in Hb. destruct Hb as [Hv' Hn'].
    unfold v_cmp, rank_v. rewrite (SFcompare_rank x y Hv Hv' Hn Hn'). reflexivity.
Qed.

Lemma cmp_lt_rank : forall h a b, num_key a = true -> num_key b = true ->
  cmp_is h Lt a b = is_lt (rank_cmp (rank_v a) (rank_v b)).
Proof.
  intros h a b Ha Hb. unfold cmp_is. rewrite (v_cmp_rank h a b Ha Hb).
  destruct (rank_cmp (rank_v a) (rank_v b)); reflexivity.
Qed.

Lemma cmp_gt_rank : forall h a b, num_key a = true -> num_key b = true ->
  cmp_is h Gt a b = is_gt (rank_cmp (rank_v a) (rank_v b)).
Proof.
  intros h a b Ha Hb. unfold cmp_is. rewrite (v_cmp_rank h a b Ha Hb).
  destruct (rank_cmp (rank_v a) (rank_v b)); reflexivity.
Qed.

Lemma is_lt_true : forall c, is_lt c = true <-> c = Lt.
Proof. intros c. destruct c; cbn [is_lt]; split; congruence. Qed.

(* ---- irreflexivity of v_cmp, on all values ---- *)
Lemma SFcompare_refl : forall x, SFcompare x x = Some Eq \/ SFcompare x x = None.
Proof.
  intros x. destruct x as [s | s | | s m e].
  - left. reflexivity.
  - left. destruct s; reflexivity.
  - right. reflexivity.
  - left. unfold SFcompare. rewrite Z.compare_refl. rewrite pos_cmp_cont, Z.compare_refl.
    destruct s; reflexivity.
Qed.

Definition not_strict (r : option (option comparison)) : Prop :=
  r = Some (Some Eq) \/ r = Some None \/ r = None.

Lemma v_cmp_refl : forall h a, not_strict (v_cmp h a a).
Proof.
  intros h a.
  assert (Hobj : forall o, v_is_int o = false -> v_is_obj o = true ->
            not_strict
            (if v_is_int o || v_is_int o then Some (Some (Z.compare (v_to_i64 h o) (v_to_i64 h o)))
             else if v_is_obj o && v_is_obj o then
               match v_eq h (eq_depth) o o with
               | None => None
               | Some true => Some (Some Eq)
               | Some false => Some (match Nat.compare (obj_len h o) (obj_len h o) with
                                     | Eq => None | c => Some c end)
               end
             else Some None)).
  { intros o Hi Ho. rewrite Hi, Ho. cbn [orb andb]. unfold not_strict.
    destruct (v_eq h eq_depth o o) as [[ | ] | ].
    - left. reflexivity.
    - right. left. rewrite Nat.compare_refl. reflexivity.
    - right. right. reflexivity. }
  destruct a as [ | i | x | s | p | f | n | c].
  - right. left. reflexivity.
  - left. unfold v_cmp, v_is_int, v_to_i64. cbn [orb]. rewrite Z.compare_refl. reflexivity.
  - unfold v_cmp, not_strict. destruct (SFcompare_refl x) as [E | E]; rewrite E; auto.
  - exact (Hobj (VStr s) eq_refl eq_refl).
  - exact (Hobj (VTable p) eq_refl eq_refl).
  - exact (Hobj (VFn f) eq_refl eq_refl).
  - exact (Hobj (VNative n) eq_refl eq_refl).
  - exact (Hobj (VClosure c) eq_refl eq_refl).
Qed.

(* ------------------------------------------------------------------------------------------ *)
(* sort_lt through ranks                                                                      *)
(* ------------------------------------------------------------------------------------------ *)
Definition srank (h : list (otable value)) (v : value) : rank := rank_v (sort_num h v).

Lemma sort_num_key : forall h v, key_valid v = true -> is_nan v = false ->
  num_key (sort_num h v) = true.
Proof.
  intros h v Hv Hn. destruct v; try reflexivity.
  unfold sort_num, num_key. rewrite Hn. unfold key_valid in Hv. rewrite Hv. reflexivity.
Qed.

Lemma srank_nan : forall h v, is_nan v = true -> srank h v = RNan.
Proof.
  intros h v H. destruct v as [ | | x | | | | | ]; try discriminate H.
  destruct x; try discriminate H. reflexivity.
Qed.

Lemma srank_not_nan : forall h v, key_valid v = true -> is_nan v = false -> srank h v <> RNan.
Proof.
  intros h v Hv Hn. unfold srank.
  destruct v as [ | | x | | | | | ]; try (cbn [sort_num rank_v]; unfold rank_Z; discriminate).
  cbn [sort_num rank_v]. destruct x as [s | s | | s m e]; cbn [rank_sf]; try discriminate.
  destruct s; discriminate.
Qed.

Lemma sort_lt_rank : forall h a b, key_valid a = true -> key_valid b = true ->
  sort_lt h a b = is_lt (rank_cmp (srank h a) (srank h b)).
Proof.
  intros h a b Ha Hb. unfold sort_lt.
  destruct (is_nan a) eqn:Na; destruct (is_nan b) eqn:Nb.
  - rewrite (srank_nan h a Na), (srank_nan h b Nb). reflexivity.
  - rewrite (srank_nan h a Na).
    pose proof (srank_not_nan h b Hb Nb). destruct (srank h b); try reflexivity; try congruence.
  - rewrite (srank_nan h b Nb).
    pose proof (srank_not_nan h a Ha Na). destruct (srank h a); try reflexivity; try congruence.
  - rewrite (v_cmp_rank h _ _ (sort_num_key h a Ha Na) (sort_num_key h b Hb Nb)).
    unfold srank. destruct (rank_cmp (rank_v (sort_num h a)) (rank_v (sort_num h b))); reflexivity.
Qed.

(* ------------------------------------------------------------------------------------------ *)
(* the theorems                                                                               *)
(* ------------------------------------------------------------------------------------------ *)
Theorem sort_lt_irrefl : forall h a, sort_lt h a a = false.
Proof.
  intros h a. unfold sort_lt. destruct (is_nan a); [reflexivity | ].
  destruct (v_cmp_refl h (sort_num h a)) as [E | [E | E]]; rewrite E; reflexivity.
Qed.

Theorem sort_lt_cotrans : forall h a b c,
  key_valid a = true -> key_valid b = true -> key_valid c = true ->
  sort_lt h a b = true -> sort_lt h a c = true \/ sort_lt h c b = true.
Proof.
  intros h a b c Ha Hb Hc H.
  rewrite (sort_lt_rank h a b Ha Hb) in H.
  rewrite (sort_lt_rank h a c Ha Hc), (sort_lt_rank h c b Hc Hb).
  rewrite !is_lt_true in *. apply rank_cmp_cotrans. exact H.
Qed.

Theorem cmp_lt_irrefl : forall h a, cmp_is h Lt a a = false.
Proof.
  intros h a. unfold cmp_is.
  destruct (v_cmp_refl h a) as [E | [E | E]]; rewrite E; reflexivity.
Qed.

Theorem cmp_gt_irrefl : forall h a, cmp_is h Gt a a = false.
Proof.
  intros h a. unfold cmp_is.
  destruct (v_cmp_refl h a) as [E | [E | E]]; rewrite E; reflexivity.
Qed.

Theorem cmp_lt_cotrans : forall h a b c,
  num_key a = true -> num_key b = true -> num_key c = true ->
  cmp_is h Lt a b = true -> cmp_is h Lt a c = true \/ cmp_is h Lt c b = true.
Proof.
  intros h a b c Ha Hb Hc H.
  rewrite (cmp_lt_rank h a b Ha Hb) in H.
  rewrite (cmp_lt_rank h a c Ha Hc), (cmp_lt_rank h c b Hc Hb).
  rewrite !is_lt_true in *. apply rank_cmp_cotrans. exact H.
Qed.

Theorem cmp_gt_cotrans : forall h a b c,
  num_key a = true -> num_key b = true -> num_key c = true ->
  cmp_is h Gt a b = true -> cmp_is h Gt a c = true \/ cmp_is h Gt c b = true.
Proof.
  intros h a b c Ha Hb Hc H.
  rewrite (cmp_gt_rank h a b Ha Hb) in H.
  rewrite (cmp_gt_rank h a c Ha Hc), (cmp_gt_rank h c b Hc Hb).
  rewrite !is_gt_lt in *. rewrite !is_lt_true in *.
  destruct (rank_cmp_cotrans _ _ (rank_v c) H) as [E | E]; [right | left]; exact E.
Qed.

(* on numbers the two comparisons are converse, and sort_lt agrees with < *)
Theorem cmp_gt_lt : forall h a b, num_key a = true -> num_key b = true ->
  cmp_is h Gt a b = cmp_is h Lt b a.
Proof.
  intros h a b Ha Hb.
  rewrite (cmp_gt_rank h a b Ha Hb), (cmp_lt_rank h b a Hb Ha). apply is_gt_lt.
Qed.

Theorem sort_lt_num : forall h a b, num_key a = true -> num_key b = true ->
  sort_lt h a b = cmp_is h Lt a b.
Proof.
  intros h a b Ha Hb.
  assert (Hk : forall v, num_key v = true ->
            key_valid v = true /\ is_nan v = false /\ sort_num h v = v).
  { intros v Hv. destruct v as [ | i | x | | | | | ]; try discriminate Hv.
    - repeat split.
    - unfold num_key in Hv. apply andb_true_iff in Hv. destruct Hv as [H1 H2].
      apply negb_true_iff in H2. repeat split; assumption. }
  destruct (Hk a Ha) as [Ka [Na Sa]]. destruct (Hk b Hb) as [Kb [Nb Sb]].
  rewrite (sort_lt_rank h a b Ka Kb), (cmp_lt_rank h a b Ha Hb).
  unfold srank. rewrite Sa, Sb. reflexivity.
Qed.

(* asymmetry *)
Lemma is_lt_asym : forall a b, is_lt (rank_cmp a b) = true -> is_lt (rank_cmp b a) = false.
Proof.
  intros a b H. apply is_lt_true in H. rewrite (rank_cmp_antisym a b), H. reflexivity.
Qed.

Theorem sort_lt_asym : forall h a b, key_valid a = true -> key_valid b = true ->
  sort_lt h a b = true -> sort_lt h b a = false.
Proof.
  intros h a b Ha Hb H.
  rewrite (sort_lt_rank h a b Ha Hb) in H. rewrite (sort_lt_rank h b a Hb Ha).
  apply is_lt_asym. exact H.
Qed.

Theorem cmp_lt_asym : forall h a b, num_key a = true -> num_key b = true ->
  cmp_is h Lt a b = true -> cmp_is h Lt b a = false.
Proof.
  intros h a b Ha Hb H.
  rewrite (cmp_lt_rank h a b Ha Hb) in H. rewrite (cmp_lt_rank h b a Hb Ha).
  apply is_lt_asym. exact H.
Qed.

Theorem cmp_gt_asym : forall h a b, num_key a = true -> num_key b = true ->
  cmp_is h Gt a b = true -> cmp_is h Gt b a = false.
Proof.
  intros h a b Ha Hb H.
  rewrite (cmp_gt_lt h a b Ha Hb) in H. rewrite (cmp_gt_lt h b a Hb Ha).
  exact (cmp_lt_asym h b a Hb Ha H).
Qed.

Print Assumptions sort_lt_irrefl.
Print Assumptions sort_lt_cotrans.
Print Assumptions cmp_lt_irrefl.
Print Assumptions cmp_gt_irrefl.
Print Assumptions cmp_lt_cotrans.
Print Assumptions cmp_gt_cotrans.
Print Assumptions cmp_gt_lt.
Print Assumptions sort_lt_num.
Print Assumptions sort_lt_asym.
Print Assumptions cmp_lt_asym.
Print Assumptions cmp_gt_asym.
