(* C01, simulation, VM half for fragment F9: a whole static call.  If the code at the callee's label, started in the
   callee's frame on the arguments, reaches a Return instruction with the value v on top of its part of the stack, then the
   pair FunctionPointer h ar; CallFunction, started with the arguments on top of the caller's stack, ends behind the
   CallFunction with the arguments replaced by v, in the caller's frame (whose return address was updated), the frames
   below untouched: [call_return9].  This is the step of the induction over the functions of a module (the callee's run is
   given by the induction hypothesis). *)
From Coq Require Import NArith ZArith List Lia Bool.
From Cao Require Import ListUtil Bits Stacks Bytecode.
From Cao Require Import Vm VmProofs C01SimVm C01SimVm9.
Import ListNotations.
Local Open Scope N_scope.

Arguments N.add : simpl never.
Arguments N.of_nat : simpl never.
Arguments N.to_nat : simpl never.

Section Call9.
Variable F : fops.
Variable bld : build.
Variable P : program.
Variable cap : nat.
Notation steps9' := (steps9 F bld P cap).

Lemma call_return9 ip h ar stk args g top rest hp pos n1 ipr mid v g' hp' :
  code_at P ip (IFunctionPointer h ar) -> code_at P (ip + 9) ICallFunction ->
  h < 4294967296 -> ar = N.of_nat (length args) -> ar < 4294967296 ->
  (S (length (stk ++ args)) < cap)%nat -> (S (length rest) < call_stack_size)%nat ->
  assoc h (p_labels P) = Some pos ->
  let callee := mkFrame (ip + 9) (ip + 10) (N.of_nat (length stk)) None in
  let caller := mkFrame (fr_src top) (ip + 10) (fr_off top) (fr_clo top) in
  steps9' n1 (pos, stk ++ args, g, callee :: caller :: rest, hp ++ [OFun h ar])
             (ipr, stk ++ mid ++ [v], g', callee :: caller :: rest, hp') ->
  code_at P ipr IReturn ->
  steps9' (2 + n1 + 1) (ip, stk ++ args, g, top :: rest, hp) (ip + 10, stk ++ [v], g', caller :: rest, hp').
Proof.
  intros Hc1 Hc2 Hh Har Har' Hroom Hdepth Hlab callee caller Hbody Hret.
  eapply steps9_trans; [eapply steps9_trans; [|exact Hbody]|].
  - exact (ex9_call F bld P cap ip h ar stk args g top rest hp pos Hc1 Hc2 Hh Har Har' Hroom Hdepth Hlab).
  - apply steps9_1.
    pose proof (ex9_return F bld P cap ipr stk mid v g' callee caller rest hp' Hret) as X.
    cbn [fr_off fr_dst callee caller] in X. apply X.
    + apply Nat2N.id.
    + rewrite app_length in Hroom. lia.
Qed.

End Call9.
