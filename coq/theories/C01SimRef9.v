(* C01, simulation, reference half for fragment F9 (several functions, static calls, Return).
   A frame of RefSem is one scope  combine (names of R) cs : the i-th entry of the local store R lives in cell cs_i.
   A callee only allocates cells above those that exist when it is called, and writes only its own cells:
   [keep b]: the cells below b are untouched; the cells of a frame are all >= its base b. *)
From Coq Require Import List NArith ZArith Bool Lia.
From Cao Require Import CheckUtil Bits CardAst Table TableProofs StdlibGen RefSem
     C01SimDefs C01SimRef C01SimDefs2 C01SimRef2 C01SimDefs3 C01SimRef3 C01SimDefs4 C01SimDefs5 C01SimRef5
     C01SimDefs6 C01SimRef6 C01SimDefs7 C01SimRef7 C01SimDefs9.
Import ListNotations.

(* ------------------------------------------------------------------ strings *)
Lemma cstr_eqb_true a b : Compiler.str_eqb a b = true -> a = b.
Proof. intros H. apply (proj1 (list_eqb_spec N.eqb N.eqb_eq a b)) in H. exact H. Qed.
Lemma cstr_eqb_refl a : Compiler.str_eqb a a = true.
Proof. apply (proj2 (list_eqb_spec N.eqb N.eqb_eq a a)). reflexivity. Qed.
Lemma rstr_eqb_refl a : str_eqb a a = true.
Proof. unfold str_eqb. destruct (bytes_eqb_spec a a); [reflexivity | congruence]. Qed.
Lemma rstr_eqb_neq a b : a <> b -> str_eqb a b = false.
Proof. unfold str_eqb. destruct (bytes_eqb_spec a b); [congruence | reflexivity]. Qed.

Lemma smem_false x l : smem x l = false -> ~ In x l.
Proof.
  unfold smem. induction l as [|y l IH]; cbn [existsb]; [intros _ []|].
  intros H. apply orb_false_iff in H. destruct H as [H1 H2]. intros [<-|Hin].
  - rewrite cstr_eqb_refl in H1. discriminate.
  - exact (IH H2 Hin).
Qed.
Lemma snodup_NoDup l : snodup l = true -> NoDup l.
Proof.
  induction l as [|x l IH]; cbn [snodup]; [constructor|]. intros H. apply andb_true_iff in H. destruct H as [H1 H2].
  apply negb_true_iff in H1. constructor; [apply smem_false, H1 | apply IH, H2].
Qed.

(* ------------------------------------------------------------------ the relaxed syntax *)
(* declarations may stand anywhere (as stmtR of F5) *)
Fixpoint stmtR9 (sg : sig9) (ret : bool) (c : card) : bool :=
  match c with
  | CSetGlobalVar g r => negb (is_empty g) && rhs9 sg r
  | CSetVar x r => var_ok x && rhs9 sg r
  | CUn UReturn r => ret && rhs9 sg r
  | CBin BIfTrue e b | CBin BIfFalse e b => expr_f1 e && stmtR9 sg ret b
  | CTri TIfElse e a b => expr_f1 e && stmtR9 sg ret a && stmtR9 sg ret b
  | _ => false
  end.

Lemma stmt9_R sg ret Ln c : stmt9 sg ret Ln c = true -> stmtR9 sg ret c = true.
Proof.
  induction c using CompilerWf.card_ind'; cbn [stmt9 stmtR9]; auto; try discriminate.
  - destruct op; try discriminate; intros H; apply andb_true_iff in H; destruct H as [H1 H2]; rewrite H1, (IHc2 H2); reflexivity.
  - destruct op; try discriminate. intros H. apply andb_true_iff in H. destruct H as [H H3].
    apply andb_true_iff in H. destruct H as [H1 H2]. rewrite H1, (IHc2 H2), (IHc3 H3). reflexivity.
  - intros H. apply andb_true_iff in H. destruct H as [H H3]. apply andb_true_iff in H. destruct H as [H1 _].
    rewrite H1, H3. reflexivity.
Qed.
Lemma top9_R sg ret Ln c : top9 sg ret Ln c = true -> stmtR9 sg ret c = true.
Proof. destruct c; cbn [top9]; try apply stmt9_R. auto. Qed.
Lemma cards9_R sg ret cards : forall Ln, cards9 sg ret Ln cards = true -> forallb (stmtR9 sg ret) cards = true.
Proof.
  induction cards as [|c r IH]; intros Ln H; [reflexivity|]. cbn [cards9 forallb] in *.
  apply andb_true_iff in H. destruct H as [H1 H2]. rewrite (top9_R _ _ _ _ H1), (IH _ H2). reflexivity.
Qed.

(* ------------------------------------------------------------------ the functions of the module *)
Definition mk9 (nf : str * function) : fentry :=
  {| fe_name := fst nf; fe_ns := []; fe_imports := []; fe_fn := snd nf |}.

Lemma flatten_f9 d funs stdl :
  flatten d std_module [s_std] = Some stdl ->
  flatten (S d) (Module [(s_std, std_module)] funs []) [] = Some (map mk9 funs ++ stdl).
Proof.
  intros H. cbn [flatten mk_imports ns_prefix flat_map app]. rewrite H, app_nil_r. reflexivity.
Qed.

Lemma find_index_first {A} (p : A -> bool) l1 x r : Forall (fun y => p y = false) l1 -> p x = true ->
  forall i, find_index p (l1 ++ x :: r) i = Some (i + length l1)%nat.
Proof.
  induction 1 as [|y l1 Hy _ IH]; intros Hx i; cbn [app find_index length].
  - rewrite Hx. f_equal. lia.
  - rewrite Hy, (IH Hx). f_equal. lia.
Qed.

(* a function that may be called: the first one of that name *)
Lemma sm_find_sem9 name later a : Compiler.sm_find name (sig_of later) = Some a ->
  exists pre2 f2 later2, later = pre2 ++ (name, f2) :: later2 /\ length (f_args f2) = a /\
    (forall vals g, sem9 later name vals g = call9 (sem9 later2) f2 vals g) /\
    Forall (fun nf => fst nf <> name) pre2.
Proof.
  induction later as [|[n f] r IH]; cbn [sig_of map Compiler.sm_find fst snd]; [discriminate|].
  destruct (Compiler.str_eqb name n) eqn:E.
  - intros H. injection H as <-. apply cstr_eqb_true in E. subst n.
    exists [], f, r. split; [reflexivity|]. split; [reflexivity|]. split; [|constructor].
    intros vals g. cbn [sem9]. rewrite cstr_eqb_refl. reflexivity.
  - intros H. destruct (IH H) as (pre2 & f2 & later2 & -> & Ha & Hs & Hf).
    exists ((n, f) :: pre2), f2, later2. split; [reflexivity|]. split; [exact Ha|]. split.
    + intros vals g. cbn [sem9]. change (pre2 ++ (name, f2) :: later2) with (pre2 ++ (name, f2) :: later2). rewrite E. apply Hs.
    + constructor; [|exact Hf]. cbn [fst]. intros ->. rewrite cstr_eqb_refl in E. discriminate.
Qed.

Lemma resolve_f9 pre n f pre2 name f2 later2 stdl :
  NoDup (map fst (pre ++ (n, f) :: pre2 ++ (name, f2) :: later2)) ->
  resolve (map mk9 (pre ++ (n, f) :: pre2 ++ (name, f2) :: later2) ++ stdl) (length pre) name =
  Some (length (pre ++ (n, f) :: pre2)).
Proof.
  intros Hnd. unfold resolve.
  assert (Hnth : nth_error (map mk9 (pre ++ (n, f) :: pre2 ++ (name, f2) :: later2) ++ stdl) (length pre) = Some (mk9 (n, f))).
  { rewrite map_app, <- app_assoc. rewrite nth_error_app2 by (rewrite map_length; lia).
    rewrite map_length, Nat.sub_diag. reflexivity. }
  rewrite Hnth.
  assert (Hf : find_fn (map mk9 (pre ++ (n, f) :: pre2 ++ (name, f2) :: later2) ++ stdl) name = Some (length (pre ++ (n, f) :: pre2))).
  { unfold find_fn.
    replace (pre ++ (n, f) :: pre2 ++ (name, f2) :: later2) with ((pre ++ (n, f) :: pre2) ++ (name, f2) :: later2)
      by (rewrite <- app_assoc; reflexivity).
    rewrite map_app, <- app_assoc. cbn [map app].
    rewrite find_index_first.
    - rewrite map_length. reflexivity.
    - apply Forall_forall. intros fe Hin. apply in_map_iff in Hin. destruct Hin as ([m h] & <- & Hin).
      cbn [mk9 fe_name fst]. apply rstr_eqb_neq. intros ->.
      assert (Hnd' : NoDup (map fst ((pre ++ (n, f) :: pre2) ++ (name, f2) :: later2)))
        by (rewrite <- app_assoc; exact Hnd).
      rewrite map_app in Hnd'. cbn [map fst] in Hnd'. apply NoDup_remove_2 in Hnd'. apply Hnd'.
      apply in_or_app. left. apply in_map_iff. exists (name, h). split; [reflexivity | exact Hin].
    - cbn [mk9 fe_name fst]. apply rstr_eqb_refl. }
  rewrite Hf. reflexivity.
Qed.

(* ------------------------------------------------------------------ frames *)
Definition en9 (R : lstore) (cs : list nat) : env := {| e_scopes := [combine (map fst R) cs]; e_up := [] |}.
Definition keep (b : nat) (c c' : list value) : Prop := forall i, (i < b)%nat -> nth_error c' i = nth_error c i.
Definition st9 (cs : list nat) (s : state) (R : lstore) (g : gl) : Prop :=
  st_heap s = [] /\ st_globals s = g /\ Forall2 (cellrel (st_cells s)) R cs /\ NoDup cs /\ simples (R ++ g).
Definition gst (s : state) (g : gl) : Prop := st_heap s = [] /\ st_globals s = g /\ simples g.

Lemma keep_refl b c : keep b c c.
Proof. intros i _. reflexivity. Qed.
Lemma keep_trans b c1 c2 c3 : keep b c1 c2 -> keep b c2 c3 -> keep b c1 c3.
Proof. intros H1 H2 i Hi. rewrite (H2 i Hi). apply H1, Hi. Qed.
Lemma keep_le b b' c1 c2 : (b' <= b)%nat -> keep b c1 c2 -> keep b' c1 c2.
Proof. intros Hle H i Hi. apply H. lia. Qed.
Lemma keep_app c x c2 : keep (length c) (c ++ x) c2 -> keep (length c) c c2.
Proof. intros H i Hi. rewrite (H i Hi). apply nth_error_app1, Hi. Qed.

Lemma st9_gst cs s R g : st9 cs s R g -> gst s g.
Proof. intros (A & B & _ & _ & D). apply simples_app in D. destruct D. repeat split; assumption. Qed.
Lemma st9_bump cs s R g : st9 cs s R g -> st9 cs (bump s) R g.
Proof. unfold st9. cbn. tauto. Qed.
Lemma gst_bump s g : gst s g -> gst (bump s) g.
Proof. unfold gst. cbn. tauto. Qed.

Lemma lookup_en9 R cs n : lookup_var (en9 R cs) n = assoc n (combine (map fst R) cs).
Proof. unfold lookup_var, en9. cbn [e_scopes e_up lookup_scopes]. destruct (assoc n (combine (map fst R) cs)); reflexivity. Qed.

Lemma st9_st6 cs s R g : st9 cs s R g -> st6 (en9 R cs) (st_cells s) s R g.
Proof.
  intros (A & B & C & _ & D). unfold st6. repeat split; auto.
  intros n _. rewrite lookup_en9. pose proof (cellrel_lookup _ _ _ C n) as H.
  destruct (assoc n R); [|exact H]. destruct H as (c & H1 & H2). exists c. split; assumption.
Qed.
Lemma st6_st9 cs s s' R g : st9 cs s R g -> st6 (en9 R cs) (st_cells s) s' R g ->
  st9 cs s' R g /\ st_cells s' = st_cells s.
Proof. intros (_ & _ & C & D & _) (A' & B' & _ & D' & E'). unfold st9. rewrite E'. repeat split; assumption. Qed.

Lemma cellrel_keep c1 c2 (V : lstore) cs : Forall2 (cellrel c1) V cs -> keep (length c1) c1 c2 -> Forall2 (cellrel c2) V cs.
Proof.
  intros H Hk. induction H as [|nv c V cs Hc _ IH]; constructor; [|exact IH].
  unfold cellrel in *. rewrite Hk; [exact Hc|]. apply nth_error_Some. rewrite Hc. discriminate.
Qed.
Lemma st9_keep cs s R g s2 g2 : st9 cs s R g -> keep (length (st_cells s)) (st_cells s) (st_cells s2) -> gst s2 g2 ->
  st9 cs s2 R g2.
Proof.
  intros (_ & _ & C & D & E) Hk (A2 & B2 & C2). apply simples_app in E. destruct E as [E _].
  unfold st9. repeat split; auto; [eapply cellrel_keep; eauto | apply simples_app; split; assumption].
Qed.

Lemma upd_len9 {A} (l : list A) i x : length (upd l i x) = length l.
Proof. revert i. induction l as [|y l IH]; intros [|i]; cbn; auto. Qed.

Lemma evs9_eq g es : evs9 g es = evs g es.
Proof. induction es as [|e r IH]; cbn [evs9 evs]; [reflexivity|]. rewrite IH. reflexivity. Qed.
Lemma evs_simple9 g es vs : simples g -> evs g es = Some vs -> Forall simple vs /\ length vs = length es.
Proof.
  intros Hg. revert vs. induction es as [|e r IH]; intros vs H; cbn [evs] in H.
  - injection H as <-. split; [constructor | reflexivity].
  - destruct (ev g e) as [v|] eqn:E; [|discriminate]. destruct (evs g r) as [ws|]; [|discriminate]. injection H as <-.
    destruct (IH _ eq_refl) as [A B]. split; [constructor; [eapply ev_simple; eauto | exact A] | cbn [length]; congruence].
Qed.

Lemma set_assoc_names9 {V} n (w : V) (R : list (str * V)) old : assoc n R = Some old -> map fst (set_assoc n w R) = map fst R.
Proof.
  induction R as [|[x v] r IH]; cbn [assoc set_assoc]; [discriminate|].
  destruct (str_eqb n x); [reflexivity|]. intros H. cbn [map fst]. rewrite (IH H). reflexivity.
Qed.

(* ------------------------------------------------------------------ the parameters *)
Lemma bind_params_go (l : list (str * value)) : forall sc0 s0,
  exists s1,
    fold_left (fun acc pa => let '(sc, st) := acc in
                             let '(c, st') := alloc_cell (snd pa) st in
                             (sc ++ [(fst pa, c)], st')) l (sc0, s0) =
    (sc0 ++ combine (map fst l) (seq (length (st_cells s0)) (length l)), s1) /\
    st_cells s1 = st_cells s0 ++ map snd l /\ st_heap s1 = st_heap s0 /\ st_globals s1 = st_globals s0.
Proof.
  induction l as [|[p v] l IH]; intros sc0 s0; cbn [fold_left].
  - exists s0. cbn [map length seq combine]. rewrite !app_nil_r. auto.
  - match goal with |- context [fold_left ?F l ?init] =>
      change init with (sc0 ++ [(p, length (st_cells s0))], set_cells (st_cells s0 ++ [v]) s0) end.
    destruct (IH (sc0 ++ [(p, length (st_cells s0))]) (set_cells (st_cells s0 ++ [v]) s0)) as (s1 & E & A & B & C).
    exists s1. rewrite E. cbn [set_cells st_cells st_heap st_globals] in *. rewrite app_length. cbn [length].
    replace (length (st_cells s0) + 1)%nat with (S (length (st_cells s0))) by lia.
    split; [|split; [|split; assumption]].
    + cbn [map fst length seq combine]. rewrite <- app_assoc. reflexivity.
    + rewrite A, <- app_assoc. reflexivity.
Qed.

Lemma cellrel_fresh (l : lstore) : forall c0, Forall2 (cellrel (c0 ++ map snd l)) l (seq (length c0) (length l)).
Proof.
  induction l as [|[p v] l IH]; intros c0; cbn [map snd length seq]; constructor.
  - unfold cellrel. cbn [snd]. rewrite nth_error_app2 by lia. rewrite Nat.sub_diag. reflexivity.
  - specialize (IH (c0 ++ [v])). rewrite app_length, <- app_assoc in IH. cbn [length app] in IH.
    replace (length c0 + 1)%nat with (S (length c0)) in IH by lia. exact IH.
Qed.

Lemma simples_combine (params : list str) vs : Forall simple vs -> simples (combine params vs).
Proof.
  intros H. unfold simples. revert params. induction H as [|v vs Hv _ IH]; intros [|p ps]; cbn [combine]; try (apply Forall_nil).
  apply Forall_cons; [exact Hv | apply IH].
Qed.
Lemma map_fst_combine9 {A B} (a : list A) (b : list B) : length a = length b -> map fst (combine a b) = a.
Proof. revert b. induction a as [|x a IH]; intros [|y b] H; cbn in *; try lia; auto. rewrite IH by lia. reflexivity. Qed.

Section Eval9.
Variable funs : list (str * function).
Variable stdl : list fentry.
Variable host : list str.
Variable limit : N.
Hypothesis Hnd : NoDup (map fst funs).
Hypothesis Hok : forall pre n f later, funs = pre ++ (n, f) :: later -> pre <> [] -> fn_ok9 later f = true.

Notation P := (map mk9 funs ++ stdl).
Notation evalf := (eval P host limit).

Lemma eval_cond9 fi e : expr_f1 e = true -> forall fuel s cs R g, st9 cs s R g ->
  let r := evalf fuel (TkArgs false fi (en9 R cs) [e]) s in
  r = RFuel \/
  (exists v s', r = ok [v] (en9 R cs) s' /\ ev (R ++ g) e = Some v /\ simple v /\ st9 cs s' R g /\ st_cells s' = st_cells s) \/
  (exists s', r = err EVarNotFound (en9 R cs) s' /\ ev (R ++ g) e = None /\ st9 cs s' R g /\ st_cells s' = st_cells s).
Proof.
  intros He fuel s cs R g Hs r.
  pose proof (eval_cond6 P host limit fi e He fuel s (en9 R cs) (st_cells s) R g (st9_st6 _ _ _ _ Hs)) as H.
  cbv zeta in H. fold r in H.
  destruct H as [E|[(v & s1 & E & Hv & Hsv & Hs1)|(s1 & E & Hv & Hs1)]].
  - left; exact E.
  - right; left. exists v, s1. destruct (st6_st9 _ _ _ _ _ Hs Hs1). auto.
  - right; right. exists s1. destruct (st6_st9 _ _ _ _ _ Hs Hs1). auto.
Qed.

Lemma eval_args9 fi es : forallb expr_f1 es = true -> forall fuel s cs R g, st9 cs s R g ->
  let r := evalf fuel (TkArgs false fi (en9 R cs) es) s in
  r = RFuel \/
  (exists vs s', r = ok vs (en9 R cs) s' /\ evs (R ++ g) es = Some vs /\ st9 cs s' R g /\ st_cells s' = st_cells s) \/
  (exists s', r = err EVarNotFound (en9 R cs) s' /\ evs (R ++ g) es = None /\ st9 cs s' R g /\ st_cells s' = st_cells s).
Proof.
  intros He fuel s cs R g Hs r.
  assert (Hgood : Forall (expr_good6 P host limit fi) es).
  { apply Forall_forall. intros e Hin. apply expr_f1_good6. rewrite forallb_forall in He. apply He, Hin. }
  pose proof (eval_args6 P host limit fi es Hgood fuel s (en9 R cs) (st_cells s) R g (st9_st6 _ _ _ _ Hs)) as H.
  fold r in H. destruct H as [E|[(vs & s1 & E & Hv & Hs1)|(s1 & E & Hv & Hs1)]].
  - left; exact E.
  - right; left. exists vs, s1. destruct (st6_st9 _ _ _ _ _ Hs Hs1). auto.
  - right; right. exists s1. destruct (st6_st9 _ _ _ _ _ Hs Hs1). auto.
Qed.

Lemma nth_P pre n f later : funs = pre ++ (n, f) :: later -> nth_error P (length pre) = Some (mk9 (n, f)).
Proof.
  intros ->. rewrite map_app, <- app_assoc. rewrite nth_error_app2 by (rewrite map_length; lia).
  rewrite map_length, Nat.sub_diag. reflexivity.
Qed.

Definition rhs_res9 (b : nat) (cs : list nat) (R : lstore) (s : state) (r : res) (out : option value * gl) : Prop :=
  r = RFuel \/
  exists s', keep b (st_cells s) (st_cells s') /\ (length (st_cells s) <= length (st_cells s'))%nat /\
             st9 cs s' R (snd out) /\
             match fst out with
             | Some v => r = ok [v] (en9 R cs) s' /\ simple v
             | None => exists e', r = err EVarNotFound e' s'
             end.

Definition stmt_res9 (ret : bool) (b : nat) (s : state) (r : res) (out : out9 * lstore * gl) : Prop :=
  r = RFuel \/
  exists s', keep b (st_cells s) (st_cells s') /\ (length (st_cells s) <= length (st_cells s'))%nat /\
             gst s' (snd out) /\
             match fst (fst out) with
             | ONorm9 => exists cs', r = ok [] (en9 (snd (fst out)) cs') s' /\ st9 cs' s' (snd (fst out)) (snd out) /\
                                     Forall (fun c => (b <= c)%nat) cs'
             | ORet9 v => exists e', r = ROk (ORet v) e' s' /\ simple v /\ ret = true
             | OErr9 => exists e', r = err EVarNotFound e' s'
             end.

Definition call_res9 (s : state) (r : res) (out : option value * gl) : Prop :=
  r = RFuel \/
  exists s', keep (length (st_cells s)) (st_cells s) (st_cells s') /\ (length (st_cells s) <= length (st_cells s'))%nat /\
             gst s' (snd out) /\
             match fst out with
             | Some v => r = ok [v] empty_env s' /\ simple v
             | None => r = err EVarNotFound empty_env s'
             end.

Definition all9 (fuel : nat) : Prop :=
  (forall pre n f later vs s g, funs = pre ++ (n, f) :: later -> pre <> [] ->
     gst s g -> Forall simple vs -> length vs = length (f_args f) ->
     call_res9 s (evalf fuel (TkCallFn (length pre) vs) s) (call9 (sem9 later) f vs g)) /\
  (forall pre n f later r b cs R s g, funs = pre ++ (n, f) :: later -> rhs9 (sig_of later) r = true ->
     st9 cs s R g -> (b <= length (st_cells s))%nat ->
     rhs_res9 b cs R s (evalf fuel (TkCard (length pre) (en9 R cs) r) s) (run_rhs9 (sem9 later) R g r)) /\
  (forall pre n f later r b cs R s g, funs = pre ++ (n, f) :: later -> rhs9 (sig_of later) r = true ->
     st9 cs s R g -> (b <= length (st_cells s))%nat ->
     rhs_res9 b cs R s (evalf fuel (TkArgs false (length pre) (en9 R cs) [r]) s) (run_rhs9 (sem9 later) R g r)) /\
  (forall pre n f later ret c b cs R s g, funs = pre ++ (n, f) :: later -> stmtR9 (sig_of later) ret c = true ->
     st9 cs s R g -> Forall (fun c => (b <= c)%nat) cs -> (b <= length (st_cells s))%nat ->
     stmt_res9 ret b s (evalf fuel (TkCard (length pre) (en9 R cs) c) s) (run9 (sem9 later) R g c)) /\
  (forall pre n f later ret l b cs R s g, funs = pre ++ (n, f) :: later -> forallb (stmtR9 (sig_of later) ret) l = true ->
     st9 cs s R g -> Forall (fun c => (b <= c)%nat) cs -> (b <= length (st_cells s))%nat ->
     stmt_res9 ret b s (evalf fuel (TkSeq (length pre) (en9 R cs) l) s) (runs9 (sem9 later) R g l)).

Lemma rhs_cases sg r : rhs9 sg r = true ->
  (exists name args, r = CCall name args) \/
  (expr_f1 r = true /\ forall cs R g, run_rhs9 cs R g r = (ev (R ++ g) r, g)).
Proof.
  intros H. destruct r; try (right; split; [exact H | reflexivity]). left. eauto.
Qed.

(* ---- the five parts, each from the parts at the fuel below ---- *)
Lemma call_step f : all9 f ->
  forall pre n fn later vs s g, funs = pre ++ (n, fn) :: later -> pre <> [] ->
     gst s g -> Forall simple vs -> length vs = length (f_args fn) ->
     call_res9 s (evalf (S f) (TkCallFn (length pre) vs) s) (call9 (sem9 later) fn vs g).
Proof.
  intros (_ & _ & _ & _ & IHB) pre n fn later vs s g Hfuns Hpre Hs Hvs Hlen.
  unfold call_res9. cbn [eval]. unfold F. destruct (limit <? st_steps s)%N; [left; reflexivity|].
  rewrite (nth_P _ _ _ _ Hfuns). cbn [mk9 fe_fn snd]. unfold call_body.
  rewrite Hlen, Nat.ltb_irrefl. unfold bind_params.
  set (R0 := combine (f_args fn) (rev vs)).
  destruct (bind_params_go R0 [] (bump s)) as (s1 & Eb & Hc1 & Hh1 & Hg1). rewrite Eb. cbn [app].
  cbn [bump st_cells st_heap st_globals] in Hc1, Hh1, Hg1.
  change {| e_scopes := [combine (map fst R0) (seq (length (st_cells (bump s))) (length R0))]; e_up := [] |}
    with (en9 R0 (seq (length (st_cells s)) (length R0))).
  pose proof (Hok _ _ _ _ Hfuns Hpre) as Hfn. unfold fn_ok9 in Hfn.
  apply andb_true_iff in Hfn. destruct Hfn as [_ Hcards]. apply cards9_R in Hcards.
  destruct Hs as (Hh & Hg & Hsg).
  assert (Hs1 : st9 (seq (length (st_cells s)) (length R0)) s1 R0 g).
  { unfold st9. rewrite Hc1, Hh1, Hg1. repeat split; auto.
    - apply cellrel_fresh.
    - apply seq_NoDup.
    - apply simples_app. split; [|exact Hsg]. apply simples_combine. apply Forall_rev, Hvs. }
  assert (Hb : Forall (fun c => (length (st_cells s) <= c)%nat) (seq (length (st_cells s)) (length R0))).
  { apply Forall_forall. intros c Hin. apply in_seq in Hin. lia. }
  assert (Hb2 : (length (st_cells s) <= length (st_cells s1))%nat) by (rewrite Hc1, app_length; lia).
  generalize (IHB pre n fn later true (f_cards fn) (length (st_cells s)) _ R0 s1 g Hfuns Hcards Hs1 Hb Hb2).
  unfold call9. fold R0. destruct (runs9 (sem9 later) R0 g (f_cards fn)) as [[o R1] g1]. cbn [fst snd].
  intros [E|(s2 & Hk & Hl & Hg2 & Hm)]; [rewrite E; left; reflexivity|].
  right. exists s2. rewrite Hc1 in Hk. apply keep_app in Hk. split; [exact Hk|]. split; [lia|].
  destruct o; cbn [fst snd].
  - destruct Hm as (cs' & E & _). rewrite E. cbn [finish_call ok]. split; [exact Hg2|]. split; [reflexivity | exact I].
  - destruct Hm as (e' & E & Hsv & _). rewrite E. cbn [finish_call ok]. split; [exact Hg2|]. split; [reflexivity | exact Hsv].
  - destruct Hm as (e' & E). rewrite E. cbn [finish_call err]. split; [exact Hg2|]. reflexivity.
Qed.

Lemma rhs_card_step f : all9 f ->
  forall pre n fn later r b cs R s g, funs = pre ++ (n, fn) :: later -> rhs9 (sig_of later) r = true ->
     st9 cs s R g -> (b <= length (st_cells s))%nat ->
     rhs_res9 b cs R s (evalf (S f) (TkCard (length pre) (en9 R cs) r) s) (run_rhs9 (sem9 later) R g r).
Proof.
  intros (IHC & _) pre n fn later r b cs R s g Hfuns Hr Hs Hb.
  destruct (rhs_cases _ _ Hr) as [(name & args & ->)|[He Hrun]].
  - cbn [rhs9] in Hr. apply andb_true_iff in Hr. destruct Hr as [Hargs Hsig].
    destruct (Compiler.sm_find name (sig_of later)) as [a|] eqn:Esig; [|discriminate].
    apply Nat.eqb_eq in Hsig.
    destruct (sm_find_sem9 _ _ _ Esig) as (pre2 & f2 & later2 & Hlater & Ha & Hsem & _).
    unfold rhs_res9. cbn [eval]. unfold F. destruct (limit <? st_steps s)%N; [left; reflexivity|].
    cbn [eval_card].
    pose proof (eval_args9 (length pre) args Hargs f (bump s) cs R g (st9_bump _ _ _ _ Hs))
      as [E|[(vs & s1 & E & Hv & Hs1 & Hc1)|(s1 & E & Hv & Hs1 & Hc1)]]; cbv zeta in E; rewrite E; cbn [bnd ok err].
    + left; reflexivity.
    + assert (Hfuns2 : funs = (pre ++ (n, fn) :: pre2) ++ (name, f2) :: later2)
        by (rewrite Hfuns, Hlater, <- app_assoc; reflexivity).
      assert (Hres : resolve P (length pre) name = Some (length (pre ++ (n, fn) :: pre2))).
      { rewrite Hfuns, Hlater. apply resolve_f9. rewrite <- Hlater, <- Hfuns. exact Hnd. }
      rewrite Hres.
      assert (Hsim : simples (R ++ g)) by (destruct Hs as (_ & _ & _ & _ & Hsim); exact Hsim).
      destruct (evs_simple9 _ _ _ Hsim Hv) as [Hvs Hlen].
      assert (Hpre2 : pre ++ (n, fn) :: pre2 <> []) by (destruct pre; discriminate).
      assert (Hlen2 : length vs = length (f_args f2)) by congruence.
      generalize (IHC _ name f2 later2 vs s1 g Hfuns2 Hpre2 (st9_gst _ _ _ _ Hs1) Hvs Hlen2).
      cbn [run_rhs9]. rewrite evs9_eq, Hv, Hsem.
      destruct (call9 (sem9 later2) f2 vs g) as [[v|] g2]; cbn [fst snd];
        (intros [E2|(s2 & Hk & Hl & Hg2 & Hm)]; [rewrite E2; left; reflexivity|]);
        pose proof (st9_keep _ _ _ _ _ _ Hs1 Hk Hg2) as Hs2;
        rewrite Hc1 in Hk, Hl; cbn [bump st_cells] in Hk, Hl.
      * destruct Hm as [E2 Hsv]. rewrite E2. cbn [bnd ok]. right. exists s2.
        split; [eapply keep_le; [exact Hb | exact Hk]|]. split; [exact Hl|]. split; [exact Hs2|].
        split; [reflexivity | exact Hsv].
      * rewrite Hm. cbn [bnd err]. right. exists s2.
        split; [eapply keep_le; [exact Hb | exact Hk]|]. split; [exact Hl|]. split; [exact Hs2|].
        exists empty_env. reflexivity.
    + cbn [run_rhs9]. rewrite evs9_eq, Hv. cbn [fst snd]. right. exists s1. rewrite Hc1. cbn [bump st_cells].
      split; [apply keep_refl|]. split; [apply le_n|]. split; [exact Hs1|]. exists (en9 R cs). reflexivity.
  - rewrite Hrun. unfold rhs_res9. cbn [fst snd].
    assert (Hsim : simples (R ++ g)) by (destruct Hs as (_ & _ & _ & _ & Hsim); exact Hsim).
    pose proof (expr_f1_good6 P host limit (length pre) r He (S f) s (en9 R cs) (st_cells s) R g (st9_st6 _ _ _ _ Hs))
      as [E|[(v & s1 & E & Hv & Hs1)|(s1 & E & Hv & Hs1)]].
    + left; exact E.
    + destruct (st6_st9 _ _ _ _ _ Hs Hs1) as [Hs1' Hc1]. right. exists s1. rewrite Hc1.
      split; [apply keep_refl|]. split; [apply le_n|]. split; [exact Hs1'|]. rewrite Hv.
      split; [exact E|]. eapply ev_simple; [exact Hsim | exact Hv].
    + destruct (st6_st9 _ _ _ _ _ Hs Hs1) as [Hs1' Hc1]. right. exists s1. rewrite Hc1.
      split; [apply keep_refl|]. split; [apply le_n|]. split; [exact Hs1'|]. rewrite Hv.
      exists (en9 R cs). exact E.
Qed.

Lemma rhs_arg_step f : all9 f ->
  forall pre n fn later r b cs R s g, funs = pre ++ (n, fn) :: later -> rhs9 (sig_of later) r = true ->
     st9 cs s R g -> (b <= length (st_cells s))%nat ->
     rhs_res9 b cs R s (evalf (S f) (TkArgs false (length pre) (en9 R cs) [r]) s) (run_rhs9 (sem9 later) R g r).
Proof.
  intros (_ & IHE & _) pre n fn later r b cs R s g Hfuns Hr Hs Hb.
  unfold rhs_res9. cbn [eval]. unfold F. destruct (limit <? st_steps s)%N; [left; reflexivity|].
  generalize (IHE pre n fn later r b cs R (bump s) g Hfuns Hr (st9_bump _ _ _ _ Hs) Hb).
  destruct (run_rhs9 (sem9 later) R g r) as [[v|] g1]; cbn [fst snd];
    (intros [E|(s1 & Hk & Hl & Hs1 & Hm)]; [rewrite E; left; reflexivity|]).
  - destruct Hm as [E Hsv]. rewrite E. cbn [bnd ok]. clear E.
    destruct f as [|f']; [left; reflexivity|]. cbn [eval]. unfold F.
    destruct (limit <? st_steps s1)%N; [left; reflexivity|].
    cbn [bnd ok]. right. exists (bump s1). cbn [bump st_cells]. split; [exact Hk|]. split; [exact Hl|].
    split; [apply st9_bump, Hs1|]. split; [reflexivity | exact Hsv].
  - destruct Hm as [e' E]. rewrite E. cbn [bnd err]. right. exists s1. split; [exact Hk|]. split; [exact Hl|].
    split; [exact Hs1|]. exists e'. reflexivity.
Qed.

Lemma stmt_res9_cells ret b s s1 r out : st_cells s1 = st_cells s -> stmt_res9 ret b s1 r out -> stmt_res9 ret b s r out.
Proof. unfold stmt_res9. intros ->. auto. Qed.
Lemma stay_norm ret b s s1 cs R g : st_cells s1 = st_cells s -> st9 cs s1 R g -> Forall (fun c => (b <= c)%nat) cs ->
  stmt_res9 ret b s (ok [] (en9 R cs) s1) (ONorm9, R, g).
Proof.
  intros Hc Hs Hcs. right. exists s1. rewrite Hc. cbn [fst snd]. split; [apply keep_refl|]. split; [apply le_n|].
  split; [eapply st9_gst, Hs|]. exists cs. auto.
Qed.
Lemma stay_err ret b s s1 cs R g e' R' : st_cells s1 = st_cells s -> st9 cs s1 R g ->
  stmt_res9 ret b s (err EVarNotFound e' s1) (OErr9, R', g).
Proof.
  intros Hc Hs. right. exists s1. rewrite Hc. cbn [fst snd]. split; [apply keep_refl|]. split; [apply le_n|].
  split; [eapply st9_gst, Hs|]. exists e'. reflexivity.
Qed.

Lemma stmt_step f : all9 f ->
  forall pre n fn later ret c b cs R s g, funs = pre ++ (n, fn) :: later -> stmtR9 (sig_of later) ret c = true ->
     st9 cs s R g -> Forall (fun c => (b <= c)%nat) cs -> (b <= length (st_cells s))%nat ->
     stmt_res9 ret b s (evalf (S f) (TkCard (length pre) (en9 R cs) c) s) (run9 (sem9 later) R g c).
Proof.
  intros (_ & _ & IHD & IHA & _) pre n fn later ret c b cs R s g Hfuns Hc Hs Hcs Hb.
  pose proof (st9_bump _ _ _ _ Hs) as Hbs.
  destruct c; cbn [stmtR9] in Hc; try discriminate Hc.
  - (* CBin *)
    destruct op; try discriminate Hc; apply andb_true_iff in Hc; destruct Hc as [He Hbd];
      cbn [eval]; unfold F; (destruct (limit <? st_steps s)%N; [left; reflexivity|]); cbn [eval_card run9];
      (pose proof (eval_cond9 (length pre) _ He f (bump s) cs R g Hbs)
         as [E|[(v & s1 & E & Hv & Hsv & Hs1 & Hc1)|(s1 & E & Hv & Hs1 & Hc1)]]; cbv zeta in E; rewrite E; cbn [bnd ok err one];
       [left; reflexivity | | rewrite Hv; eapply stay_err; [exact Hc1 | exact Hs1]]);
      rewrite Hv, (v_bool_simple _ _ Hsv); destruct (v_bool [] v); cbv iota.
    + eapply stmt_res9_cells; [exact Hc1|]. apply (IHA pre n fn later ret c2 b cs R s1 g Hfuns Hbd Hs1 Hcs). rewrite Hc1. exact Hb.
    + eapply stay_norm; [exact Hc1 | exact Hs1 | exact Hcs].
    + eapply stay_norm; [exact Hc1 | exact Hs1 | exact Hcs].
    + eapply stmt_res9_cells; [exact Hc1|]. apply (IHA pre n fn later ret c2 b cs R s1 g Hfuns Hbd Hs1 Hcs). rewrite Hc1. exact Hb.
  - (* CUn UReturn *)
    destruct op; try discriminate Hc. apply andb_true_iff in Hc. destruct Hc as [Hret Hr].
    cbn [eval]; unfold F; (destruct (limit <? st_steps s)%N; [left; reflexivity|]); cbn [eval_card run9].
    generalize (IHD pre n fn later c b cs R (bump s) g Hfuns Hr Hbs Hb). unfold rhs_res9.
    destruct (run_rhs9 (sem9 later) R g c) as [[v|] g1]; cbn [fst snd];
      (intros [E|(s1 & Hk & Hl & Hs1 & Hm)]; [rewrite E; left; reflexivity|]).
    + destruct Hm as [E Hsv]. rewrite E. cbn [bnd ok one]. right. exists s1. cbn [fst snd].
      split; [exact Hk|]. split; [exact Hl|]. split; [eapply st9_gst, Hs1|]. exists (en9 R cs). auto.
    + destruct Hm as [e' E]. rewrite E. cbn [bnd err]. right. exists s1. cbn [fst snd].
      split; [exact Hk|]. split; [exact Hl|]. split; [eapply st9_gst, Hs1|]. exists e'. reflexivity.
  - (* CTri *)
    destruct op; try discriminate Hc. apply andb_true_iff in Hc. destruct Hc as [Hc Hb3].
    apply andb_true_iff in Hc. destruct Hc as [He Hb2].
    cbn [eval]; unfold F; (destruct (limit <? st_steps s)%N; [left; reflexivity|]); cbn [eval_card run9].
    pose proof (eval_cond9 (length pre) _ He f (bump s) cs R g Hbs)
      as [E|[(v & s1 & E & Hv & Hsv & Hs1 & Hc1)|(s1 & E & Hv & Hs1 & Hc1)]]; cbv zeta in E; rewrite E; cbn [bnd ok err one];
      [left; reflexivity | | rewrite Hv; eapply stay_err; [exact Hc1 | exact Hs1]].
    rewrite Hv, (v_bool_simple _ _ Hsv); destruct (v_bool [] v); cbv iota.
    + eapply stmt_res9_cells; [exact Hc1|]. apply (IHA pre n fn later ret c2 b cs R s1 g Hfuns Hb2 Hs1 Hcs). rewrite Hc1. exact Hb.
    + eapply stmt_res9_cells; [exact Hc1|]. apply (IHA pre n fn later ret c3 b cs R s1 g Hfuns Hb3 Hs1 Hcs). rewrite Hc1. exact Hb.
  - (* SetGlobalVar *)
    apply andb_true_iff in Hc. destruct Hc as [Hne Hr]. apply negb_true_iff in Hne.
    assert (Hne' : is_empty name = false) by (destruct name; [discriminate Hne | reflexivity]).
    cbn [eval]; unfold F; (destruct (limit <? st_steps s)%N; [left; reflexivity|]); cbn [eval_card run9].
    generalize (IHD pre n fn later c b cs R (bump s) g Hfuns Hr Hbs Hb). unfold rhs_res9.
    destruct (run_rhs9 (sem9 later) R g c) as [[v|] g1]; cbn [fst snd];
      (intros [E|(s1 & Hk & Hl & Hs1 & Hm)]; [rewrite E; left; reflexivity|]).
    + destruct Hm as [E Hsv]. rewrite E. cbn [bnd ok one]. rewrite Hne'.
      assert (Hs2 : st9 cs (set_globals (set_assoc name v (st_globals s1)) s1) R (set_assoc name v g1)).
      { destruct Hs1 as (A & B & C & D & E'). apply simples_app in E'. destruct E' as [E1 E2].
        unfold st9. cbn [set_globals st_heap st_globals st_cells]. rewrite B.
        split; [exact A|]. split; [reflexivity|]. split; [exact C|]. split; [exact D|].
        apply simples_app. split; [exact E1 | apply set_assoc_simple; assumption]. }
      right. exists (set_globals (set_assoc name v (st_globals s1)) s1). cbn [fst snd].
      split; [exact Hk|]. split; [exact Hl|]. split; [eapply st9_gst, Hs2|].
      exists cs. split; [reflexivity|]. split; [exact Hs2 | exact Hcs].
    + destruct Hm as [e' E]. rewrite E. cbn [bnd err]. right. exists s1. cbn [fst snd].
      split; [exact Hk|]. split; [exact Hl|]. split; [eapply st9_gst, Hs1|]. exists e'. reflexivity.
  - (* SetVar *)
    apply andb_true_iff in Hc. destruct Hc as [Hx Hr].
    unfold var_ok in Hx. apply andb_true_iff in Hx. destruct Hx as [Hne Hdot]. apply negb_true_iff in Hne, Hdot.
    assert (Hne' : is_empty name = false) by (destruct name; [discriminate Hne | reflexivity]).
    cbn [eval]; unfold F; (destruct (limit <? st_steps s)%N; [left; reflexivity|]); cbn [eval_card run9].
    generalize (IHD pre n fn later c b cs R (bump s) g Hfuns Hr Hbs Hb). unfold rhs_res9.
    destruct (run_rhs9 (sem9 later) R g c) as [[v|] g1]; cbn [fst snd];
      (intros [E|(s1 & Hk & Hl & Hs1 & Hm)]; [rewrite E; left; reflexivity|]).
    + destruct Hm as [E Hsv]. rewrite E. cbn [bnd ok one]. rewrite (rsplit_no_dot _ Hdot), Hne', lookup_en9.
      cbn [bump st_cells] in Hk, Hl, Hb.
      destruct Hs1 as (A & B & C & D & E'). pose proof (cellrel_lookup _ _ _ C name) as Hlk.
      pose proof E' as E''. apply simples_app in E''. destruct E'' as [E1 E2].
      unfold sets_local. rewrite lmem_assoc.
      destruct (assoc name R) as [old|] eqn:Ea.
      * destruct Hlk as (c0 & Hl1 & Hl2). rewrite Hl1.
        assert (Hin : In c0 cs) by (eapply assoc_combine_in; eauto).
        assert (Hbc : (b <= c0)%nat) by (rewrite Forall_forall in Hcs; apply Hcs, Hin).
        assert (Hs2 : st9 cs (set_cells (upd (st_cells s1) c0 v) s1) (set_assoc name v R) g1).
        { unfold st9. cbn [set_cells st_heap st_globals st_cells].
          split; [exact A|]. split; [exact B|]. split; [eapply cellrel_assign; eauto|]. split; [exact D|].
          apply simples_app. split; [apply set_assoc_simple; assumption | exact E2]. }
        right. exists (set_cells (upd (st_cells s1) c0 v) s1). cbn [fst snd set_cells st_cells].
        split; [intros i Hi; rewrite nth_error_upd_other7 by lia; apply Hk, Hi|].
        split; [rewrite upd_len9; exact Hl|]. split; [eapply st9_gst, Hs2|].
        exists cs. split; [unfold en9; rewrite (set_assoc_names9 _ v _ _ Ea); reflexivity|].
        split; [exact Hs2 | exact Hcs].
      * rewrite Hlk. unfold declare, alloc_cell. cbn [en9 e_scopes e_up].
        assert (Hs2 : st9 (length (st_cells s1) :: cs) (set_cells (st_cells s1 ++ [v]) s1) ((name, v) :: R) g1).
        { unfold st9. cbn [set_cells st_heap st_globals st_cells].
          split; [exact A|]. split; [exact B|]. split; [|split].
          - constructor; [|apply cellrel_app, C]. unfold cellrel. cbn [snd]. rewrite nth_error_app2 by lia.
            rewrite Nat.sub_diag. reflexivity.
          - constructor; [|exact D]. intros Hin. pose proof (cellrel_bound _ _ _ C _ Hin). lia.
          - cbn [app]. constructor; [exact Hsv | exact E']. }
        right. exists (set_cells (st_cells s1 ++ [v]) s1). cbn [fst snd set_cells st_cells].
        split; [intros i Hi; rewrite nth_error_app1 by lia; apply Hk, Hi|].
        split; [rewrite app_length; cbn [length]; lia|]. split; [eapply st9_gst, Hs2|].
        exists (length (st_cells s1) :: cs). split; [reflexivity|]. split; [exact Hs2|].
        constructor; [lia | exact Hcs].
    + destruct Hm as [e' E]. rewrite E. cbn [bnd err]. right. exists s1. cbn [fst snd].
      split; [exact Hk|]. split; [exact Hl|]. split; [eapply st9_gst, Hs1|]. exists e'. reflexivity.
Qed.

Lemma seq_step f : all9 f ->
  forall pre n fn later ret l b cs R s g, funs = pre ++ (n, fn) :: later -> forallb (stmtR9 (sig_of later) ret) l = true ->
     st9 cs s R g -> Forall (fun c => (b <= c)%nat) cs -> (b <= length (st_cells s))%nat ->
     stmt_res9 ret b s (evalf (S f) (TkSeq (length pre) (en9 R cs) l) s) (runs9 (sem9 later) R g l).
Proof.
  intros (_ & _ & _ & IHA & IHB) pre n fn later ret l b cs R s g Hfuns Hl Hs Hcs Hb.
  pose proof (st9_bump _ _ _ _ Hs) as Hbs.
  cbn [eval]. unfold F. destruct (limit <? st_steps s)%N; [left; reflexivity|].
  destruct l as [|c r].
  - cbn [runs9]. eapply stay_norm; [reflexivity | exact Hbs | exact Hcs].
  - cbn [forallb] in Hl. apply andb_true_iff in Hl. destruct Hl as [Hc Hr]. cbn [runs9].
    generalize (IHA pre n fn later ret c b cs R (bump s) g Hfuns Hc Hbs Hcs Hb). unfold stmt_res9.
    destruct (run9 (sem9 later) R g c) as [[o R1] g1]. cbn [fst snd].
    intros [E|(s1 & Hk & Hl1 & Hg1 & Hm)]; [rewrite E; left; reflexivity|].
    cbn [bump st_cells] in Hk, Hl1.
    destruct o.
    + destruct Hm as (cs1 & E & Hs1 & Hcs1). rewrite E. cbn [bnd ok].
      assert (Hb1 : (b <= length (st_cells s1))%nat) by lia.
      generalize (IHB pre n fn later ret r b cs1 R1 s1 g1 Hfuns Hr Hs1 Hcs1 Hb1). unfold stmt_res9.
      destruct (runs9 (sem9 later) R1 g1 r) as [[o2 R2] g2]. cbn [fst snd].
      intros [E2|(s2 & Hk2 & Hl2 & Hg2 & Hm2)]; [rewrite E2; left; reflexivity|].
      right. exists s2. split; [eapply keep_trans; [exact Hk | exact Hk2]|]. split; [lia|]. split; [exact Hg2|].
      destruct o2.
      * destruct Hm2 as (cs2 & E2 & Hs2 & Hcs2). rewrite E2. cbn [bnd ok app]. exists cs2. auto.
      * destruct Hm2 as (e' & E2 & Hsv & Hret). rewrite E2. cbn [bnd]. exists e'. auto.
      * destruct Hm2 as (e' & E2). rewrite E2. cbn [bnd err]. exists e'. reflexivity.
    + destruct Hm as (e' & E & Hsv & Hret). rewrite E. cbn [bnd]. right. exists s1.
      split; [exact Hk|]. split; [exact Hl1|]. split; [exact Hg1|]. exists e'. auto.
    + destruct Hm as (e' & E). rewrite E. cbn [bnd err]. right. exists s1.
      split; [exact Hk|]. split; [exact Hl1|]. split; [exact Hg1|]. exists e'. reflexivity.
Qed.

Lemma eval9 fuel : all9 fuel.
Proof.
  induction fuel as [|f IH].
  - unfold all9. repeat split; intros; left; reflexivity.
  - split; [exact (call_step f IH)|]. split; [exact (rhs_card_step f IH)|]. split; [exact (rhs_arg_step f IH)|].
    split; [exact (stmt_step f IH) | exact (seq_step f IH)].
Qed.
End Eval9.

(* ------------------------------------------------------------------ the program *)
Lemma fns_ok9_split others : fns_ok9 others = true ->
  forall pre n f later, others = pre ++ (n, f) :: later -> fn_ok9 later f = true.
Proof.
  intros H pre. revert others H. induction pre as [|[m h] pre IH]; intros others H n f later ->;
    cbn [app fns_ok9] in H; apply andb_true_iff in H; destruct H as [H1 H2].
  - exact H1.
  - eapply IH; [exact H2 | reflexivity].
Qed.

Lemma find_main9 f others stdl :
  find_index (fun fe => str_eqb (fe_name fe) s_main) (map mk9 ((s_main, f) :: others) ++ stdl) 0 = Some 0%nat.
Proof. cbn [map app find_index mk9 fe_name fst]. rewrite rstr_eqb_refl. reflexivity. Qed.

Theorem eval_program_f9 fuel M host o :
  in_f9 M = true -> eval_program fuel M host = PObs o ->
  exists g, run_main9 M = (match ob_kind o with KOk => true | _ => false end, g) /\
            (ob_kind o = KOk \/ ob_kind o = KErr EVarNotFound) /\
            simples g /\
            ob_globals o = map (fun nv => (fst nv, vm_tree (to_vm (snd nv)))) g.
Proof.
  intros HM. destruct M as [subs funs imps]. cbn [in_f9] in HM.
  destruct subs; [|discriminate]. destruct funs as [|[name f] others]; [discriminate|].
  destruct imps; [|discriminate].
  apply andb_true_iff in HM. destruct HM as [HM Hfns]. apply andb_true_iff in HM. destruct HM as [HM Hcards].
  apply andb_true_iff in HM. destruct HM as [HM Hnd]. apply andb_true_iff in HM. destruct HM as [Hname _].
  apply str_eqb_main in Hname. subst name. apply cards9_R in Hcards. apply snodup_NoDup in Hnd.
  destruct flatten_std_some as [stdl Hstd].
  unfold eval_program, program_of, add_std. cbn [app].
  change 64%nat with (S 63). rewrite (flatten_f9 63 _ stdl Hstd).
  rewrite find_main9.
  change (nth_error (map mk9 ((s_main, f) :: others) ++ stdl) 0) with (Some (mk9 (s_main, f))). cbv iota.
  cbn [mk9 fe_fn snd]. unfold run_main9. cbn [main_fn other_fns].
  change {| e_scopes := [[]]; e_up := [] |} with (en9 [] []).
  intros H.
  assert (Hnd' : NoDup (map fst ((s_main, f) :: others))) by exact Hnd.
  assert (Hok' : forall pre n f0 later, (s_main, f) :: others = pre ++ (n, f0) :: later -> pre <> [] -> fn_ok9 later f0 = true).
  { intros [|x pre] n f0 later Heq Hpre; [congruence|]. cbn [app] in Heq. injection Heq as _ Heq.
    eapply fns_ok9_split; eauto. }
  destruct (eval9 _ stdl host (step_limit fuel) Hnd' Hok' fuel) as (_ & _ & _ & _ & HB).
  assert (Hst : st9 [] init_state [] []).
  { unfold st9. cbn. repeat split; constructor. }
  pose proof (HB [] s_main f others false (f_cards f) 0%nat [] [] init_state [] eq_refl Hcards Hst (Forall_nil _) (Nat.le_0_l _)) as HB'.
  cbn [length] in HB'. unfold stmt_res9 in HB'. revert HB'.
  destruct (runs9 (sem9 others) [] [] (f_cards f)) as [[o1 R1] g1]. cbn [fst snd].
  intros [E|(s1 & Hk & Hl & Hg & Hm)]; [rewrite E in H; discriminate H|].
  destruct Hg as (Hh & Hgl & Hsg).
  assert (Hobs : map (fun nv => (fst nv, to_tree tree_depth (st_heap s1) (snd nv))) (st_globals s1) =
                 map (fun nv => (fst nv, vm_tree (to_vm (snd nv)))) g1).
  { rewrite Hh, Hgl. apply map_ext_in. intros [x v] Hin.
    unfold simples in Hsg. rewrite Forall_forall in Hsg. pose proof (Hsg _ Hin) as Hv. cbn [snd] in Hv.
    destruct v; try contradiction; reflexivity. }
  destruct o1.
  - destruct Hm as (cs' & E & _). rewrite E in H. cbn [ok] in H. injection H as <-. exists g1.
    cbn [ob_kind ob_globals observe]. auto.
  - destruct Hm as (e' & _ & _ & Hret). discriminate Hret.
  - destruct Hm as (e' & E). rewrite E in H. cbn [err] in H. injection H as <-. exists g1.
    cbn [ob_kind ob_globals observe]. auto.
Qed.
