(* C01, simulation, reference half for fragment F9 (several functions, static calls, Return).
   A frame of RefSem is one scope  combine (names of R) cs : the i-th entry of the local store R lives in cell cs_i.
   A callee only allocates cells above those that exist when it is called, and writes only its own cells:
   [keep b]: the cells below b are untouched; the cells of a frame are all >= its base b. *)
From Coq Require Import List NArith ZArith Bool Lia.
From Cao Require Import CheckUtil Bits CardAst Table TableProofs StdlibGen RefSem
     C01SimDefs C01SimRef C01SimDefs2 C01SimRef2 C01SimDefs3 C01SimRef3 C01SimDefs4 C01SimDefs5 C01SimRef5
     C01SimDefs6 C01SimRef6 C01SimDefs7 C01SimRef7 C01SimDefs9.
Import ListNotations.

(* ------------------------------------------------------------------ strings *)
Lemma cstr_eqb_true a b : Compiler.str_eqb a b = true -> a = b.
Proof. intros H. apply (proj1 (list_eqb_spec N.eqb N.eqb_eq a b)) in H. exact H. Qed.
Lemma cstr_eqb_refl a : Compiler.str_eqb a a = true.
Proof. apply (proj2 (list_eqb_spec N.eqb N.eqb_eq a a)). reflexivity. Qed.
Lemma rstr_eqb_refl a : str_eqb a a = true.
Proof. unfold str_eqb. destruct (bytes_eqb_spec a a); [reflexivity | congruence]. Qed.
Lemma rstr_eqb_neq a b : a <> b -> str_eqb a b = false.
Proof. unfold str_eqb. destruct (bytes_eqb_spec a b); [congruence | reflexivity]. Qed.

Lemma smem_false x l : smem x l = false -> ~ In x l.
Proof.
  unfold smem. induction l as [|y l IH]; cbn [existsb]; [intros _ []|].
  intros H. apply orb_false_iff in H. destruct H as [H1 H2]. intros [<-|Hin].
  - rewrite cstr_eqb_refl in H1. discriminate.
  - exact (IH H2 Hin).
Qed.
Lemma snodup_NoDup l : snodup l = true -> NoDup l.
Proof.
  induction l as [|x l IH]; cbn [snodup]; [constructor|]. intros H. apply andb_true_iff in H. destruct H as [H1 H2].
  apply negb_true_iff in H1. constructor; [apply smem_false, H1 | apply IH, H2].
Qed.

(* ------------------------------------------------------------------ the relaxed syntax *)
(* declarations may stand anywhere (as stmtR of F5) *)
Fixpoint stmtR9 (sg : sig9) (ret : bool) (c : card) : bool :=
  match c with
  | CSetGlobalVar g r => negb (is_empty g) && rhs9 sg r
  | CSetVar x r => var_ok x && rhs9 sg r
  | CUn UReturn r => ret && rhs9 sg r
  | CBin BIfTrue e b | CBin BIfFalse e b => expr_f1 e && stmtR9 sg ret b
  | CTri TIfElse e a b => expr_f1 e && stmtR9 sg ret a && stmtR9 sg ret b
  | _ => false
  end.

Lemma stmt9_R sg ret Ln c : stmt9 sg ret Ln c = true -> stmtR9 sg ret c = true.
Proof.
  induction c using CompilerWf.card_ind'; cbn [stmt9 stmtR9]; auto; try discriminate.
  - destruct op; try discriminate; intros H; apply andb_true_iff in H; destruct H as [H1 H2]; rewrite H1, (IHc2 H2); reflexivity.
  - destruct op; try discriminate. intros H. apply andb_true_iff in H. destruct H as [H H3].
    apply andb_true_iff in H. destruct H as [H1 H2]. rewrite H1, (IHc2 H2), (IHc3 H3). reflexivity.
  - intros H. apply andb_true_iff in H. destruct H as [H H3]. apply andb_true_iff in H. destruct H as [H1 _].
    rewrite H1, H3. reflexivity.
Qed.
Lemma top9_R sg ret Ln c : top9 sg ret Ln c = true -> stmtR9 sg ret c = true.
Proof. destruct c; cbn [top9]; try apply stmt9_R. auto. Qed.
Lemma cards9_R sg ret cards : forall Ln, cards9 sg ret Ln cards = true -> forallb (stmtR9 sg ret) cards = true.
Proof.
  induction cards as [|c r IH]; intros Ln H; [reflexivity|]. cbn [cards9 forallb] in *.
  apply andb_true_iff in H. destruct H as [H1 H2]. rewrite (top9_R _ _ _ _ H1), (IH _ H2). reflexivity.
Qed.

(* ------------------------------------------------------------------ the functions of the module *)
Definition mk9 (nf : str * function) : fentry :=
  {| fe_name := fst nf; fe_ns := []; fe_imports := []; fe_fn := snd nf |}.

Lemma flatten_f9 d funs stdl :
  flatten d std_module [s_std] = Some stdl ->
  flatten (S d) (Module [(s_std, std_module)] funs []) [] = Some (map mk9 funs ++ stdl).
Proof.
  intros H. cbn [flatten mk_imports ns_prefix flat_map app]. rewrite H, app_nil_r. reflexivity.
Qed.

Lemma find_index_first {A} (p : A -> bool) l1 x r : Forall (fun y => p y = false) l1 -> p x = true ->
  forall i, find_index p (l1 ++ x :: r) i = Some (i + length l1)%nat.
Proof.
  induction 1 as [|y l1 Hy _ IH]; intros Hx i; cbn [app find_index length].
  - rewrite Hx. f_equal. lia.
  - rewrite Hy, (IH Hx). f_equal. lia.
Qed.

(* a function that may be called: the first one of that name *)
Lemma sm_find_sem9 name later a : Compiler.sm_find name (sig_of later) = Some a ->
  exists pre2 f2 later2, later = pre2 ++ (name, f2) :: later2 /\ length (f_args f2) = a /\
    (forall vals g, sem9 later name vals g = call9 (sem9 later2) f2 vals g) /\
    Forall (fun nf => fst nf <> name) pre2.
Proof.
  induction later as [|[n f] r IH]; cbn [sig_of map Compiler.sm_find fst snd]; [discriminate|].
  destruct (Compiler.str_eqb name n) eqn:E.
  - intros H. injection H as <-. apply cstr_eqb_true in E. subst n.
    exists [], f, r. split; [reflexivity|]. split; [reflexivity|]. split; [|constructor].
    intros vals g. cbn [sem9]. rewrite cstr_eqb_refl. reflexivity.
  - intros H. destruct (IH H) as (pre2 & f2 & later2 & -> & Ha & Hs & Hf).
    exists ((n, f) :: pre2), f2, later2. split; [reflexivity|]. split; [exact Ha|]. split.
    + intros vals g. cbn [sem9]. change (pre2 ++ (name, f2) :: later2) with (pre2 ++ (name, f2) :: later2). rewrite E. apply Hs.
    + constructor; [|exact Hf]. cbn [fst]. intros ->. rewrite cstr_eqb_refl in E. discriminate.
Qed.

Lemma resolve_f9 pre n f pre2 name f2 later2 stdl :
  NoDup (map fst (pre ++ (n, f) :: pre2 ++ (name, f2) :: later2)) ->
  resolve (map mk9 (pre ++ (n, f) :: pre2 ++ (name, f2) :: later2) ++ stdl) (length pre) name =
  Some (length (pre ++ (n, f) :: pre2)).
Proof.
  intros Hnd. unfold resolve.
  assert (Hnth : nth_error (map mk9 (pre ++ (n, f) :: pre2 ++ (name, f2) :: later2) ++ stdl) (length pre) = Some (mk9 (n, f))).
  { rewrite map_app, <- app_assoc. rewrite nth_error_app2 by (rewrite map_length; lia).
    rewrite map_length, Nat.sub_diag. reflexivity. }
  rewrite Hnth.
  assert (Hf : find_fn (map mk9 (pre ++ (n, f) :: pre2 ++ (name, f2) :: later2) ++ stdl) name = Some (length (pre ++ (n, f) :: pre2))).
  { unfold find_fn.
    replace (pre ++ (n, f) :: pre2 ++ (name, f2) :: later2) with ((pre ++ (n, f) :: pre2) ++ (name, f2) :: later2)
      by (rewrite <- app_assoc; reflexivity).
    rewrite map_app, <- app_assoc. cbn [map app].
    rewrite find_index_first.
    - rewrite map_length. reflexivity.
    - apply Forall_forall. intros fe Hin. apply in_map_iff in Hin. destruct Hin as ([m h] & <- & Hin).
      cbn [mk9 fe_name fst]. apply rstr_eqb_neq. intros ->.
      assert (Hnd' : NoDup (map fst ((pre ++ (n, f) :: pre2) ++ (name, f2) :: later2)))
        by (rewrite <- app_assoc; exact Hnd).
      rewrite map_app in Hnd'. cbn [map fst] in Hnd'. apply NoDup_remove_2 in Hnd'. apply Hnd'.
      apply in_or_app. left. apply in_map_iff. exists (name, h). split; [reflexivity | exact Hin].
    - cbn [mk9 fe_name fst]. apply rstr_eqb_refl. }
  rewrite Hf. reflexivity.
Qed.

(* ------------------------------------------------------------------ frames *)
Definition en9 (R : lstore) (cs : list nat) : env := {| e_scopes := [combine (map fst R) cs]; e_up := [] |}.
Definition keep (b : nat) (c c' : list value) : Prop := forall i, (i < b)%nat -> nth_error c' i = nth_error c i.
Definition st9 (cs : list nat) (s : state) (R : lstore) (g : gl) : Prop :=
  st_heap s = [] /\ st_globals s = g /\ Forall2 (cellrel (st_cells s)) R cs /\ NoDup cs /\ simples (R ++ g).
Definition gst (s : state) (g : gl) : Prop := st_heap s = [] /\ st_globals s = g /\ simples g.

Lemma keep_refl b c : keep b c c.
Proof. intros i _. reflexivity. Qed.
Lemma keep_trans b c1 c2 c3 : keep b c1 c2 -> keep b c2 c3 -> keep b c1 c3.
Proof. intros H1 H2 i Hi. rewrite (H2 i Hi). apply H1, Hi. Qed.
Lemma keep_le b b' c1 c2 : (b' <= b)%nat -> keep b c1 c2 -> keep b' c1 c2.
Proof. intros Hle H i Hi. apply H. lia. Qed.
Lemma keep_app c x c2 : keep (length c) (c ++ x) c2 -> keep (length c) c c2.
Proof. intros H i Hi. rewrite (H i Hi). apply nth_error_app1, Hi. Qed.

Lemma st9_gst cs s R g : st9 cs s R g -> gst s g.
Proof. intros (A & B & _ & _ & D). apply simples_app in D. destruct D. repeat split; assumption. Qed.
Lemma st9_bump cs s R g : st9 cs s R g -> st9 cs (bump s) R g.
Proof. unfold st9. cbn. tauto. Qed.
Lemma gst_bump s g : gst s g -> gst (bump s) g.
Proof. unfold gst. cbn. tauto. Qed.

Lemma lookup_en9 R cs n : lookup_var (en9 R cs) n = assoc n (combine (map fst R) cs).
Proof. unfold lookup_var, en9. cbn [e_scopes e_up lookup_scopes]. destruct (assoc n (combine (map fst R) cs)); reflexivity. Qed.

Lemma st9_st6 cs s R g : st9 cs s R g -> st6 (en9 R cs) (st_cells s) s R g.
Proof.
  intros (A & B & C & _ & D). unfold st6. repeat split; auto.
  intros n _. rewrite lookup_en9. pose proof (cellrel_lookup _ _ _ C n) as H.
  destruct (assoc n R); [|exact H]. destruct H as (c & H1 & H2). exists c. split; assumption.
Qed.
Lemma st6_st9 cs s s' R g : st9 cs s R g -> st6 (en9 R cs) (st_cells s) s' R g ->
  st9 cs s' R g /\ st_cells s' = st_cells s.
Proof. intros (_ & _ & C & D & _) (A' & B' & _ & D' & E'). unfold st9. rewrite E'. repeat split; assumption. Qed.

Lemma cellrel_keep c1 c2 (V : lstore) cs : Forall2 (cellrel c1) V cs -> keep (length c1) c1 c2 -> Forall2 (cellrel c2) V cs.
Proof.
  intros H Hk. induction H as [|nv c V cs Hc _ IH]; constructor; [|exact IH].
  unfold cellrel in *. rewrite Hk; [exact Hc|]. apply nth_error_Some. rewrite Hc. discriminate.
Qed.
Lemma st9_keep cs s R g s2 g2 : st9 cs s R g -> keep (length (st_cells s)) (st_cells s) (st_cells s2) -> gst s2 g2 ->
  st9 cs s2 R g2.
Proof.
  intros (_ & _ & C & D & E) Hk (A2 & B2 & C2). apply simples_app in E. destruct E as [E _].
  unfold st9. repeat split; auto; [eapply cellrel_keep; eauto | apply simples_app; split; assumption].
Qed.

Lemma upd_len9 {A} (l : list A) i x : length (upd l i x) = length l.
Proof. revert i. induction l as [|y l IH]; intros [|i]; cbn; auto. Qed.

Lemma evs9_eq g es : evs9 g es = evs g es.
Proof. induction es as [|e r IH]; cbn [evs9 evs]; [reflexivity|]. rewrite IH. reflexivity. Qed.
Lemma evs_simple9 g es vs : simples g -> evs g es = Some vs -> Forall simple vs /\ length vs = length es.
Proof.
  intros Hg. revert vs. induction es as [|e r IH]; intros vs H; cbn [evs] in H.
  - injection H as <-. split; [constructor | reflexivity].
  - destruct (ev g e) as [v|] eqn:E; [|discriminate]. destruct (evs g r) as [ws|]; [|discriminate]. injection H as <-.
    destruct (IH _ eq_refl) as [A B]. split; [constructor; [eapply ev_simple; eauto | exact A] | cbn [length]; congruence].
Qed.

Lemma set_assoc_names9 {V} n (w : V) (R : list (str * V)) old : assoc n R = Some old -> map fst (set_assoc n w R) = map fst R.
Proof.
  induction R as [|[x v] r IH]; cbn [assoc set_assoc]; [discriminate|].
  destruct (str_eqb n x); [reflexivity|]. intros H. cbn [map fst]. rewrite (IH H). reflexivity.
Qed.

(* ------------------------------------------------------------------ the parameters *)
Lemma bind_params_go (l : list (str * value)) : forall sc0 s0,
  exists s1,
    fold_left (fun acc pa => let '(sc, st) := acc in
                             let '(c, st') := alloc_cell (snd pa) st in
                             (sc ++ [(fst pa, c)], st')) l (sc0, s0) =
    (sc0 ++ combine (map fst l) (seq (length (st_cells s0)) (length l)), s1) /\
    st_cells s1 = st_cells s0 ++ map snd l /\ st_heap s1 = st_heap s0 /\ st_globals s1 = st_globals s0.
Proof.
  induction l as [|[p v] l IH]; intros sc0 s0; cbn [fold_left].
  - exists s0. cbn [map length seq combine]. rewrite !app_nil_r. auto.
  - match goal with |- context [fold_left ?F l ?init] =>
      change init with (sc0 ++ [(p, length (st_cells s0))], set_cells (st_cells s0 ++ [v]) s0) end.
    destruct (IH (sc0 ++ [(p, length (st_cells s0))]) (set_cells (st_cells s0 ++ [v]) s0)) as (s1 & E & A & B & C).
    exists s1. rewrite E. cbn [set_cells st_cells st_heap st_globals] in *. rewrite app_length. cbn [length].
    replace (length (st_cells s0) + 1)%nat with (S (length (st_cells s0))) by lia.
    split; [|split; [|split; assumption]].
    + cbn [map fst length seq combine]. rewrite <- app_assoc. reflexivity.
    + rewrite A, <- app_assoc. reflexivity.
Qed.

Lemma cellrel_fresh (l : lstore) : forall c0, Forall2 (cellrel (c0 ++ map snd l)) l (seq (length c0) (length l)).
Proof.
  induction l as [|[p v] l IH]; intros c0; cbn [map snd length seq]; constructor.
  - unfold cellrel. cbn [snd]. rewrite nth_error_app2 by lia. rewrite Nat.sub_diag. reflexivity.
  - specialize (IH (c0 ++ [v])). rewrite app_length, <- app_assoc in IH. cbn [length app] in IH.
    replace (length c0 + 1)%nat with (S (length c0)) in IH by lia. exact IH.
Qed.

Lemma simples_combine (params : list str) vs : Forall simple vs -> simples (combine params vs).
Proof.
  intros H. revert params. induction H as [|v vs Hv _ IH]; intros [|p ps]; cbn [combine]; try constructor; auto.
Qed.
Lemma map_fst_combine9 {A B} (a : list A) (b : list B) : length a = length b -> map fst (combine a b) = a.
Proof. revert b. induction a as [|x a IH]; intros [|y b] H; cbn in *; try lia; auto. rewrite IH by lia. reflexivity. Qed.
