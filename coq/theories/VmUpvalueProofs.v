(* C06, VM half: the open-upvalue list of the VM model (Vm.v).

   The list is a linked list THROUGH THE HEAP: [st_open] is the address of the first node, every node is an
   [OUp] object whose [u_next] is the address of the next node.  [seg h c l e] says that following the
   links from [c] visits exactly the nodes [l] (address, slot) - all of them open - and ends at [e].

   - [open_ok]   : the list is strictly descending by slot (so there is at most one open upvalue per slot and
                   no address occurs twice), every node is an open upvalue object pointing INSIDE the stack array
                   (slot < capacity; see VmUpvalueSem.open_slot_may_be_dead: "slot < height" is NOT an invariant
                   of the VM), and the list is complete: every open upvalue object of the heap is in it.
   - [vm_ok]     : open_ok + the height of the value stack and every frame offset are below the capacity.
   - [keep s s1] : what the helpers of the instruction functions do to a state: same list head, same capacity, same
                   frames, the upvalue objects are the same objects, every other object is a later state of itself
                   ([heap_mono]), closedness of closures ([clo_ok]) is kept.  vm_ok is closed under keep.
   - [close_from_spec], [walk_open_spec], [link_new_spec]: _close_upvalues and register_upvalue on a good list.
   Files: VmUpvalueStep.v (every instruction keeps vm_ok; RegisterUpvalue), VmUpvalueSem.v (capture semantics on single
   instructions), VmUpvalueFrame.v (the same proofs generic in the invariant: quiet instructions, stability of objects,
   closedness), VmUpvalueWitness.v (compiled witness programs). *)
From Coq Require Import NArith ZArith List Lia Bool Sorted.
From Cao Require Import ListUtil Bits Stacks Vm.
Import ListNotations.



(* ------------------------------------------------------------------ *)
(* 0. heap access                                                      *)
(* ------------------------------------------------------------------ *)

Lemma hget_lt (h : heap) a o : hget h a = Some o -> N.to_nat a < length h.
Proof. unfold hget. intros H. apply nth_error_Some. congruence. Qed.

Lemma hget_app_old (h : heap) o a : N.to_nat a < length h -> hget (h ++ [o]) a = hget h a.
Proof. unfold hget. intros H. apply nth_error_app1. exact H. Qed.

Lemma hget_app_new (h : heap) o : hget (h ++ [o]) (N.of_nat (length h)) = Some o.
Proof. unfold hget. rewrite Nat2N.id, nth_error_app2 by lia. rewrite Nat.sub_diag. reflexivity. Qed.

Lemma hget_app_inv (h : heap) o a ob :
  hget (h ++ [o]) a = Some ob -> hget h a = Some ob \/ (a = N.of_nat (length h) /\ ob = o).
Proof.
  unfold hget. intros H. destruct (Nat.lt_ge_cases (N.to_nat a) (length h)) as [L|G].
  - left. rewrite nth_error_app1 in H by exact L. exact H.
  - right. rewrite nth_error_app2 in H by exact G.
    destruct (N.to_nat a - length h) as [|k] eqn:E; cbn in H.
    + split; [lia|congruence].
    + destruct k; discriminate.
Qed.

Lemma nth_error_upd' {A} (l : list A) i j v :
  nth_error (upd l i v) j = if Nat.eqb i j then (if j <? length l then Some v else None) else nth_error l j.
Proof.
  revert i j. induction l as [|x t IH]; intros [|i] [|j]; cbn; auto.
  - destruct (i =? j); reflexivity.
  - rewrite IH. destruct (i =? j); reflexivity.
Qed.

Lemma hget_hset_eq (h : heap) a o : N.to_nat a < length h -> hget (hset h a o) a = Some o.
Proof.
  unfold hget, hset. intros H. rewrite nth_error_upd', Nat.eqb_refl.
  destruct (Nat.ltb_spec (N.to_nat a) (length h)); [reflexivity|lia].
Qed.

Lemma hget_hset_ne (h : heap) a o x : x <> a -> hget (hset h a o) x = hget h x.
Proof.
  unfold hget, hset. intros H. rewrite nth_error_upd'.
  destruct (Nat.eqb_spec (N.to_nat a) (N.to_nat x)) as [E|E]; [|reflexivity].
  exfalso. apply H. apply N2Nat.inj. symmetry. exact E.
Qed.

Lemma hset_length (h : heap) a o : length (hset h a o) = length h.
Proof. apply upd_length. Qed.

(* ------------------------------------------------------------------ *)
(* 1. what the open list sees of an object                             *)
(* ------------------------------------------------------------------ *)

(* an OPEN upvalue: (slot, next) *)
Definition oview (o : option obj) : option (nat * option N) :=
  match o with
  | Some (OUp u) => match u_loc u with Some l => Some (l, u_next u) | None => None end
  | _ => None
  end.

Lemma oview_some o l nx : oview o = Some (l, nx) -> exists v, o = Some (OUp (mkUp (Some l) v nx)).
Proof.
  destruct o as [[t|b|h ar|h|h ar ups|[ul uv un]]|]; cbn; try discriminate.
  destruct ul; [|discriminate]. intros E. injection E as <- <-. exists uv. reflexivity.
Qed.

Lemma oview_hget_lt (h : heap) a p : oview (hget h a) = Some p -> N.to_nat a < length h.
Proof. destruct (hget h a) eqn:E; [|discriminate]. intros _. eapply hget_lt; eauto. Qed.

(* overwriting a non-open object with a non-open object changes no view *)
Lemma oview_hset_none (h : heap) a o :
  oview (hget h a) = None -> oview (Some o) = None ->
  forall x, oview (hget (hset h a o) x) = oview (hget h x).
Proof.
  intros H1 H2 x. destruct (N.eq_dec x a) as [->|Hn].
  - rewrite H1. unfold hget, hset. rewrite nth_error_upd', Nat.eqb_refl.
    destruct (_ <? _); [exact H2|reflexivity].
  - rewrite hget_hset_ne by exact Hn. reflexivity.
Qed.

(* allocation of a non-open object changes no view *)
Lemma oview_alloc_none (h : heap) o :
  oview (Some o) = None -> forall x, oview (hget (h ++ [o]) x) = oview (hget h x).
Proof.
  intros H x. destruct (hget (h ++ [o]) x) as [ob|] eqn:E.
  - destruct (hget_app_inv _ _ _ _ E) as [E'|[-> ->]].
    + rewrite E'. reflexivity.
    + rewrite H. unfold hget. rewrite Nat2N.id.
      rewrite (proj2 (nth_error_None h (length h))) by lia. reflexivity.
  - unfold hget in *. apply nth_error_None in E. rewrite app_length in E. cbn in E.
    rewrite (proj2 (nth_error_None h (N.to_nat x))) by lia. reflexivity.
Qed.

(* ------------------------------------------------------------------ *)
(* 2. list segments through the heap                                   *)
(* ------------------------------------------------------------------ *)

Inductive seg (h : heap) : option N -> list (N * nat) -> option N -> Prop :=
| seg_nil c : seg h c [] c
| seg_cons a loc nx l e :
    oview (hget h a) = Some (loc, nx) -> seg h nx l e -> seg h (Some a) ((a, loc) :: l) e.

Definition addrs (l : list (N * nat)) : list N := map fst l.
Definition slots (l : list (N * nat)) : list nat := map snd l.
(* strictly descending *)
Definition desc (l : list nat) : Prop := StronglySorted (fun x y => y < x) l.

Lemma seg_app h c l1 m l2 e : seg h c l1 m -> seg h m l2 e -> seg h c (l1 ++ l2) e.
Proof. induction 1; intros H2; cbn; [exact H2|]. econstructor; eauto. Qed.

Lemma seg_split h : forall l1 c l2 e, seg h c (l1 ++ l2) e -> exists m, seg h c l1 m /\ seg h m l2 e.
Proof.
  induction l1 as [|x l1 IH]; intros c l2 e H; cbn in H.
  - exists c. split; [constructor|exact H].
  - inversion H as [|a' loc' nx' l0 e' Hv Hs]; subst. destruct (IH _ _ _ Hs) as (m & A & B).
    exists m. split; [econstructor; eauto|exact B].
Qed.

Lemma seg_view h c l e a k : seg h c l e -> In (a, k) l -> exists nx, oview (hget h a) = Some (k, nx).
Proof.
  induction 1; intros Hin; [destruct Hin|].
  destruct Hin as [E|Hin]; [injection E as <- <-; eauto|auto].
Qed.

Lemma seg_ext h h' c l e :
  (forall a, In a (addrs l) -> oview (hget h' a) = oview (hget h a)) ->
  seg h c l e -> seg h' c l e.
Proof.
  intros Hv H. induction H; [constructor|].
  econstructor.
  - rewrite Hv by (left; reflexivity). eassumption.
  - apply IHseg. intros x Hx. apply Hv. right. exact Hx.
Qed.

Lemma seg_det h c l l' : seg h c l None -> seg h c l' None -> l = l'.
Proof.
  intros H. revert l'. remember None as e eqn:Ee. induction H; intros l' H'; subst.
  - inversion H'; reflexivity.
  - inversion H' as [|a' loc' nx' l0 e' Hv Hs]; subst. rewrite H in Hv. injection Hv as <- <-. f_equal.
    apply IHseg; auto.
Qed.

Lemma seg_head_nil h c e : seg h c [] e -> e = c.
Proof. inversion 1; reflexivity. Qed.

Lemma desc_cons_inv x l : desc (x :: l) -> desc l /\ Forall (fun y => y < x) l.
Proof. apply StronglySorted_inv. Qed.

Lemma desc_app_inv l1 l2 : desc (l1 ++ l2) -> desc l1 /\ desc l2 /\ forall x y, In x l1 -> In y l2 -> y < x.
Proof.
  induction l1 as [|a l1 IH]; cbn; intros H.
  - repeat split; [constructor|exact H|intros ? ? []].
  - apply desc_cons_inv in H. destruct H as [H Ha]. destruct (IH H) as (D1 & D2 & D3).
    rewrite Forall_forall in Ha. repeat split.
    + constructor; [exact D1|]. apply Forall_forall. intros y Hy. apply Ha. apply in_or_app. left. exact Hy.
    + exact D2.
    + intros x y [<-|Hx] Hy; [apply Ha; apply in_or_app; right; exact Hy|auto].
Qed.

Lemma desc_app l1 l2 : desc l1 -> desc l2 -> (forall x y, In x l1 -> In y l2 -> y < x) -> desc (l1 ++ l2).
Proof.
  induction l1 as [|a l1 IH]; cbn; intros D1 D2 H; [exact D2|].
  apply desc_cons_inv in D1. destruct D1 as [D1 Ha]. constructor.
  - apply IH; auto.
  - apply Forall_app. split; [exact Ha|]. apply Forall_forall. intros y Hy. apply H; auto.
Qed.

(* a strictly descending list of slots has no address twice *)
Lemma seg_nodup h c l e : seg h c l e -> desc (slots l) -> NoDup (addrs l).
Proof.
  induction 1; intros D; cbn; [constructor|].
  cbn in D. apply desc_cons_inv in D. destruct D as [D Hlt]. constructor; [|auto].
  intros Hin. unfold addrs in Hin. apply in_map_iff in Hin. destruct Hin as ([a' k] & Ea & Hin). cbn in Ea. subst a'.
  destruct (seg_view _ _ _ _ _ _ H0 Hin) as (nx' & Ev). rewrite H in Ev. injection Ev as -> _.
  rewrite Forall_forall in Hlt. specialize (Hlt k). unfold slots in Hlt.
  assert (k < k); [|lia]. apply Hlt. apply in_map_iff. exists (a, k). split; [reflexivity|exact Hin].
Qed.

(* hence it is not longer than the heap *)
Lemma seg_length h c l e : seg h c l e -> desc (slots l) -> length l <= length h.
Proof.
  intros H D. pose proof (seg_nodup _ _ _ _ H D) as ND.
  assert (Hincl : incl (addrs l) (map N.of_nat (seq 0 (length h)))).
  { intros a Ha. unfold addrs in Ha. apply in_map_iff in Ha. destruct Ha as ([a' k] & <- & Hin). cbn.
    destruct (seg_view _ _ _ _ _ _ H Hin) as (nx & Ev). apply oview_hget_lt in Ev.
    apply in_map_iff. exists (N.to_nat a'). split; [apply N2Nat.id|]. apply in_seq. lia. }
  pose proof (NoDup_incl_length ND Hincl) as L. unfold addrs in L. rewrite !map_length, seq_length in L. exact L.
Qed.

(* ------------------------------------------------------------------ *)
(* 3. the invariant                                                    *)
(* ------------------------------------------------------------------ *)

(* [l] is the open-upvalue list of heap [h] with head [c]; [capn] = capacity of the stack array *)
Definition hopen_ok (h : heap) (c : option N) (capn : nat) (l : list (N * nat)) : Prop :=
  seg h c l None /\ desc (slots l) /\ Forall (fun x => snd x < capn) l /\
  (forall a, oview (hget h a) <> None -> In a (addrs l)).

Definition cap (s : state) : nat := length (vdata (st_stack s)).
Definition open_list (s : state) (l : list (N * nat)) : Prop := seg (st_heap s) (st_open s) l None.
Definition open_ok (s : state) : Prop := exists l, hopen_ok (st_heap s) (st_open s) (cap s) l.

Definition frames_lt (n : nat) (c : list frame) : Prop := Forall (fun f => N.to_nat (fr_off f) < n) c.
Definition vm_ok (s : state) : Prop :=
  open_ok s /\ vcount (st_stack s) < cap s /\ frames_lt (cap s) (st_calls s).

Lemma hopen_ok_ext h h' c n l :
  (forall a, oview (hget h' a) = oview (hget h a)) -> hopen_ok h c n l -> hopen_ok h' c n l.
Proof.
  intros Hv (A & B & C & D). repeat split; auto.
  - eapply seg_ext; [|exact A]. intros; apply Hv.
  - intros a Ha. apply D. rewrite <- Hv. exact Ha.
Qed.

(* [s1] has the same open list, the same upvalue objects, the same capacity, the same frames, and a legal height *)
Definition keep0 (s s1 : state) : Prop :=
  st_open s1 = st_open s /\ cap s1 = cap s /\
  (forall a, oview (hget (st_heap s1) a) = oview (hget (st_heap s) a)) /\
  st_calls s1 = st_calls s /\
  (vcount (st_stack s) < cap s -> vcount (st_stack s1) < cap s1).

Lemma keep0_refl s : keep0 s s.
Proof. repeat split; auto. Qed.
Lemma keep0_trans a b c : keep0 a b -> keep0 b c -> keep0 a c.
Proof.
  intros (A1 & A2 & A3 & A4 & A5) (B1 & B2 & B3 & B4 & B5). unfold keep0.
  split; [congruence|]. split; [congruence|]. split; [intros x; rewrite B3; apply A3|].
  split; [congruence|auto].
Qed.

Lemma keep0_open_ok s s1 : keep0 s s1 -> open_ok s -> open_ok s1.
Proof.
  intros (A1 & A2 & A3 & A4 & A5) (l & H). exists l. rewrite A1, A2. eapply hopen_ok_ext; eauto.
Qed.

Lemma keep0_vm_ok s s1 : keep0 s s1 -> vm_ok s -> vm_ok s1.
Proof.
  intros K (A & B & C). split; [eapply keep0_open_ok; eauto|].
  destruct K as (A1 & A2 & A3 & A4 & A5). split; [auto|]. rewrite A2, A4. exact C.
Qed.

Lemma keep0_open_list s s1 l : keep0 s s1 -> open_list s l -> open_list s1 l.
Proof.
  intros (A1 & A2 & A3 & A4 & A5) H. unfold open_list in *. rewrite A1.
  eapply seg_ext; [|exact H]. intros; apply A3.
Qed.

(* ------------------------------------------------------------------ *)
(* 4. the helpers of the instruction functions keep0 the open list      *)
(* ------------------------------------------------------------------ *)

Ltac kp :=
  unfold keep0, cap;
  cbn [st_open st_heap st_calls st_stack set_stack set_calls set_globals set_heap set_open set_log set_rem tick
       vdata vcount log_push set_table fst snd].

Lemma spush_keep0 s v s1 : spush s v = Some s1 -> keep0 s s1.
Proof.
  unfold spush, vs_push.
  destruct (Nat.ltb_spec (S (vcount (st_stack s))) (length (vdata (st_stack s)))) as [L|L];
    intros H; cbv beta iota zeta in H; [|discriminate].
  injection H as <-. kp. rewrite upd_length. repeat split; auto.
Qed.

Lemma spop_keep0 s s1 v : spop s = (s1, v) -> keep0 s s1.
Proof.
  unfold spop, vs_pop. destruct (vcount (st_stack s) =? 0); intros H; cbv beta iota zeta in H;
    injection H as <- <-; kp; rewrite ?upd_length; repeat split; auto; lia.
Qed.

Lemma sset_keep0 s i v s1 : sset s i v = Some s1 -> keep0 s s1.
Proof.
  unfold sset, vs_step, vs_push.
  destruct (vcount (st_stack s) <? i); [discriminate|].
  destruct (i =? vcount (st_stack s)).
  - destruct (Nat.ltb_spec (S (vcount (st_stack s))) (length (vdata (st_stack s)))) as [L|L];
      intros H; cbv beta iota zeta in H; [|discriminate].
    injection H as <-. kp. rewrite upd_length. repeat split; auto.
  - intros H. injection H as <-. kp. rewrite upd_length. repeat split; auto.
Qed.

Lemma write_local_keep0 s off h v s1 : write_local s off h v = Some s1 -> keep0 s s1.
Proof. apply sset_keep0. Qed.

Lemma sclear_until_keep0 s h s1 v : sclear_until s h = (s1, v) -> h < cap s -> keep0 s s1.
Proof.
  unfold sclear_until, vs_step. intros H L. injection H as <- <-. kp. repeat split; auto.
Qed.

Lemma spop_w_offset_keep0 s off s1 v : spop_w_offset s off = (s1, v) -> keep0 s s1.
Proof.
  unfold spop_w_offset, vs_step, vs_pop. destruct (vcount (st_stack s) <=? off).
  - intros H. injection H as <- <-. destruct s; apply keep0_refl.
  - destruct (vcount (st_stack s) =? 0); intros H; cbv beta iota zeta in H; injection H as <- <-.
    + destruct s; apply keep0_refl.
    + kp. rewrite upd_length. repeat split; auto. lia.
Qed.

Lemma spop_n_keep0 s n : keep0 s (spop_n s n).
Proof. unfold spop_n, vs_pop_n. kp. repeat split; auto. lia. Qed.

Lemma sraw_set_keep0 s i v : keep0 s (sraw_set s i v).
Proof. unfold sraw_set. kp. rewrite upd_length. repeat split; auto. Qed.

Lemma set_globals_keep0 s g : keep0 s (set_globals s g).
Proof. kp. repeat split; auto. Qed.
Lemma set_log_keep0 s g : keep0 s (set_log s g).
Proof. kp. repeat split; auto. Qed.
Lemma log_push_keep0 s e : keep0 s (log_push s e).
Proof. kp. repeat split; auto. Qed.
Lemma set_rem_keep0 s r : keep0 s (set_rem s r).
Proof. kp. repeat split; auto. Qed.
Lemma tick_keep0 s : keep0 s (tick s).
Proof. kp. repeat split; auto. Qed.

Lemma salloc_keep0 s o s1 a : salloc s o = (s1, a) -> oview (Some o) = None -> keep0 s s1.
Proof.
  unfold salloc, halloc. intros H Ho. injection H as <- <-. kp. repeat split; auto.
  apply oview_alloc_none. exact Ho.
Qed.

Lemma salloc_heap s o s1 a : salloc s o = (s1, a) ->
  st_heap s1 = st_heap s ++ [o] /\ a = N.of_nat (length (st_heap s)).
Proof. unfold salloc, halloc. intros H. injection H as <- <-. split; reflexivity. Qed.

Lemma hset_keep0 s a o :
  oview (hget (st_heap s) a) = None -> oview (Some o) = None -> keep0 s (set_heap s (hset (st_heap s) a o)).
Proof. intros H1 H2. kp. repeat split; auto. apply oview_hset_none; assumption. Qed.

Lemma set_table_keep0 s a t t' : hget (st_heap s) a = Some (OTable t) -> keep0 s (set_table s a t').
Proof. intros H. unfold set_table. apply hset_keep0; [rewrite H|]; reflexivity. Qed.


(* ---- what never changes in the heap: [obj_le o o'] = o' is a later state of the object o ---- *)
Definition obj_le (o o' : obj) : Prop :=
  match o, o' with
  | OTable _, OTable _ => True
  | OStr a, OStr b => a = b
  | OFun h a, OFun h' a' => h = h' /\ a = a'
  | ONative h, ONative h' => h = h'
  | OClo h a ups, OClo h' a' ups' => h = h' /\ a = a' /\ exists more, ups' = ups ++ more
  | OUp u, OUp u' => forall l, u_loc u' = Some l -> u_loc u = Some l
  | _, _ => False
  end.

Lemma obj_le_refl o : obj_le o o.
Proof. destruct o; cbn; auto. repeat split. exists []. symmetry. apply app_nil_r. Qed.

Lemma obj_le_trans a b c : obj_le a b -> obj_le b c -> obj_le a c.
Proof.
  destruct a, b; cbn; try contradiction; destruct c; cbn; try contradiction; try congruence; auto.
  - intros [-> ->] [-> ->]. split; reflexivity.
  - intros (-> & -> & m1 & ->) (-> & -> & m2 & ->). repeat split. exists (m1 ++ m2). symmetry. apply app_assoc.
Qed.

(* every object stays, as an object of the same kind: strings, function values and natives are immutable, a closure
   keeps its label and arity and only gains upvalues, an upvalue that is open later was open at the same slot before
   (so a closed upvalue stays closed) *)
Definition heap_mono (h h' : heap) : Prop :=
  forall a o, hget h a = Some o -> exists o', hget h' a = Some o' /\ obj_le o o'.

Lemma heap_mono_refl h : heap_mono h h.
Proof. intros a o H. exists o. split; [exact H|apply obj_le_refl]. Qed.
Lemma heap_mono_trans a b c : heap_mono a b -> heap_mono b c -> heap_mono a c.
Proof.
  intros H1 H2 x o Hx. destruct (H1 _ _ Hx) as (o1 & E1 & L1). destruct (H2 _ _ E1) as (o2 & E2 & L2).
  exists o2. split; [exact E2|eapply obj_le_trans; eauto].
Qed.
Lemma heap_mono_app h o : heap_mono h (h ++ [o]).
Proof.
  intros a ob H. exists ob. split; [|apply obj_le_refl]. rewrite hget_app_old; [exact H|]. eapply hget_lt; eauto.
Qed.
Lemma heap_mono_hset h a old o : hget h a = Some old -> obj_le old o -> heap_mono h (hset h a o).
Proof.
  intros Ha Hle x ob Hx. destruct (N.eq_dec x a) as [->|Hn].
  - rewrite Ha in Hx. injection Hx as <-. exists o. split; [|exact Hle]. apply hget_hset_eq. eapply hget_lt; eauto.
  - exists ob. split; [|apply obj_le_refl]. rewrite hget_hset_ne by exact Hn. exact Hx.
Qed.

(* heap closedness for closures: every upvalue address stored in a closure object is an upvalue object *)
Definition clo_ok (h : heap) : Prop :=
  forall ca lbl ar ups ua, hget h ca = Some (OClo lbl ar ups) -> In ua ups -> exists u, hget h ua = Some (OUp u).

(* an object that can be stored without breaking clo_ok: not a closure, or a closure whose upvalues are upvalues *)
Definition clo_obj_ok (h : heap) (o : obj) : Prop :=
  forall lbl ar ups ua, o = OClo lbl ar ups -> In ua ups -> exists u, hget h ua = Some (OUp u).

(* the heap part of [keep]: monotone, the upvalue objects are exactly the same objects, closedness is kept *)
Definition hkeep (h h1 : heap) : Prop :=
  heap_mono h h1 /\ (forall a u, hget h1 a = Some (OUp u) <-> hget h a = Some (OUp u)) /\
  (clo_ok h -> clo_ok h1).

Lemma hkeep_refl h : hkeep h h.
Proof. split; [apply heap_mono_refl|]. split; [intros; reflexivity|auto]. Qed.
Lemma hkeep_trans a b c : hkeep a b -> hkeep b c -> hkeep a c.
Proof.
  intros (A1 & A2 & A3) (B1 & B2 & B3). split; [eapply heap_mono_trans; eauto|].
  split; [intros x u; rewrite B2; apply A2|auto].
Qed.

(* closedness survives when the upvalue objects survive and every closure of the new heap is a closure of the old
   one or is closed by itself *)
Lemma clo_ok_transfer h h1 :
  (forall a u, hget h a = Some (OUp u) -> exists u', hget h1 a = Some (OUp u')) ->
  (forall a lbl ar ups, hget h1 a = Some (OClo lbl ar ups) ->
     hget h a = Some (OClo lbl ar ups) \/ clo_obj_ok h1 (OClo lbl ar ups)) ->
  clo_ok h -> clo_ok h1.
Proof.
  intros Hup Hclo Hok ca lbl ar ups ua Hca Hin.
  destruct (Hclo _ _ _ _ Hca) as [Hold|Hnew].
  - destruct (Hok _ _ _ _ _ Hold Hin) as (u & Hu). eapply Hup; eauto.
  - eapply Hnew; eauto.
Qed.

Lemma hkeep_app h o : (forall u, o <> OUp u) -> (clo_ok h -> clo_obj_ok (h ++ [o]) o) -> hkeep h (h ++ [o]).
Proof.
  intros Ho Hc. split; [apply heap_mono_app|]. split.
  - intros a u. split; intros H.
    + destruct (hget_app_inv _ _ _ _ H) as [E|[_ E]]; [exact E|]. exfalso. eapply Ho. symmetry. exact E.
    + rewrite hget_app_old; [exact H|]. eapply hget_lt; eauto.
  - intros Hok. apply (clo_ok_transfer h); [| |exact Hok].
    + intros a u H. exists u. rewrite hget_app_old; [exact H|]. eapply hget_lt; eauto.
    + intros a lbl ar ups H. destruct (hget_app_inv _ _ _ _ H) as [E|[_ E]]; [left; exact E|].
      right. rewrite E. apply Hc. exact Hok.
Qed.
Lemma hkeep_hset h a old o :
  hget h a = Some old -> (forall u, old <> OUp u) -> (forall u, o <> OUp u) -> obj_le old o ->
  (clo_ok h -> clo_obj_ok (hset h a o) o) -> hkeep h (hset h a o).
Proof.
  intros Ha Hold Ho Hle Hc.
  assert (Hup : forall x u, hget (hset h a o) x = Some (OUp u) <-> hget h x = Some (OUp u)).
  { intros x u. destruct (N.eq_dec x a) as [->|Hn].
    - rewrite hget_hset_eq by (eapply hget_lt; eauto). rewrite Ha. split; intros E; injection E as E; exfalso.
      + eapply Ho; eauto.
      + eapply Hold; eauto.
    - rewrite hget_hset_ne by exact Hn. reflexivity. }
  split; [eapply heap_mono_hset; eauto|]. split; [exact Hup|].
  intros Hok. apply (clo_ok_transfer h); [| |exact Hok].
  - intros x u H. exists u. apply Hup. exact H.
  - intros x lbl ar ups H. destruct (N.eq_dec x a) as [->|Hn].
    + right. rewrite hget_hset_eq in H by (eapply hget_lt; eauto). injection H as <-. apply Hc. exact Hok.
    + left. rewrite hget_hset_ne in H by exact Hn. exact H.
Qed.

Definition keep (s s1 : state) : Prop := keep0 s s1 /\ hkeep (st_heap s) (st_heap s1).

Lemma keep_refl s : keep s s.
Proof. split; [apply keep0_refl|apply hkeep_refl]. Qed.
Lemma keep_trans a b c : keep a b -> keep b c -> keep a c.
Proof. intros (A & A') (B & B'). split; [eapply keep0_trans; eauto|eapply hkeep_trans; eauto]. Qed.
Lemma keep_open_ok s s1 : keep s s1 -> open_ok s -> open_ok s1.
Proof. intros (K & _). apply keep0_open_ok. exact K. Qed.
Lemma keep_vm_ok s s1 : keep s s1 -> vm_ok s -> vm_ok s1.
Proof. intros (K & _). apply keep0_vm_ok. exact K. Qed.
Lemma keep_open_list s s1 l : keep s s1 -> open_list s l -> open_list s1 l.
Proof. intros (K & _). apply keep0_open_list. exact K. Qed.

Lemma spush_heap s v s1 : spush s v = Some s1 -> st_heap s1 = st_heap s.
Proof. unfold spush. destruct (vs_push _ _) as [k []]; intros H; inversion H; reflexivity. Qed.
Lemma spop_heap s s1 v : spop s = (s1, v) -> st_heap s1 = st_heap s.
Proof. unfold spop. destruct (vs_pop _ _); intros H; inversion H; reflexivity. Qed.
Lemma sset_heap s i v s1 : sset s i v = Some s1 -> st_heap s1 = st_heap s.
Proof. unfold sset. destruct (vs_step _ _ _) as [k []]; intros H; inversion H; reflexivity. Qed.
Lemma sclear_until_heap s h s1 v : sclear_until s h = (s1, v) -> st_heap s1 = st_heap s.
Proof. unfold sclear_until. destruct (vs_step _ _ _) as [k []]; intros H; inversion H; reflexivity. Qed.
Lemma spop_w_offset_heap s h s1 v : spop_w_offset s h = (s1, v) -> st_heap s1 = st_heap s.
Proof. unfold spop_w_offset. destruct (vs_step _ _ _) as [k []]; intros H; inversion H; reflexivity. Qed.

Lemma spush_keep s v s1 : spush s v = Some s1 -> keep s s1.
Proof. intros H. split; [eapply spush_keep0; eauto|rewrite (spush_heap _ _ _ H); apply hkeep_refl]. Qed.
Lemma spop_keep s s1 v : spop s = (s1, v) -> keep s s1.
Proof. intros H. split; [eapply spop_keep0; eauto|rewrite (spop_heap _ _ _ H); apply hkeep_refl]. Qed.
Lemma sset_keep s i v s1 : sset s i v = Some s1 -> keep s s1.
Proof. intros H. split; [eapply sset_keep0; eauto|rewrite (sset_heap _ _ _ _ H); apply hkeep_refl]. Qed.
Lemma write_local_keep s off h v s1 : write_local s off h v = Some s1 -> keep s s1.
Proof. apply sset_keep. Qed.
Lemma sclear_until_keep s h s1 v : sclear_until s h = (s1, v) -> h < cap s -> keep s s1.
Proof.
  intros H L. split; [eapply sclear_until_keep0; eauto|rewrite (sclear_until_heap _ _ _ _ H); apply hkeep_refl].
Qed.
Lemma spop_w_offset_keep s off s1 v : spop_w_offset s off = (s1, v) -> keep s s1.
Proof.
  intros H. split; [eapply spop_w_offset_keep0; eauto|rewrite (spop_w_offset_heap _ _ _ _ H); apply hkeep_refl].
Qed.
Lemma spop_n_keep s n : keep s (spop_n s n).
Proof. split; [apply spop_n_keep0|apply hkeep_refl]. Qed.
Lemma sraw_set_keep s i v : keep s (sraw_set s i v).
Proof. split; [apply sraw_set_keep0|apply hkeep_refl]. Qed.
Lemma set_globals_keep s g : keep s (set_globals s g).
Proof. split; [apply set_globals_keep0|apply hkeep_refl]. Qed.
Lemma set_log_keep s g : keep s (set_log s g).
Proof. split; [apply set_log_keep0|apply hkeep_refl]. Qed.
Lemma log_push_keep s e : keep s (log_push s e).
Proof. split; [apply log_push_keep0|apply hkeep_refl]. Qed.
Lemma set_rem_keep s r : keep s (set_rem s r).
Proof. split; [apply set_rem_keep0|apply hkeep_refl]. Qed.
Lemma tick_keep s : keep s (tick s).
Proof. split; [apply tick_keep0|apply hkeep_refl]. Qed.

Lemma not_up_view o : (forall u, o <> OUp u) -> oview (Some o) = None.
Proof. destruct o; try reflexivity. intros H. exfalso. eapply H. reflexivity. Qed.

(* the objects the instructions allocate: not an upvalue and no closure with upvalues *)
Definition plain_obj (o : obj) : Prop :=
  (forall u, o <> OUp u) /\ (forall lbl ar ups, o = OClo lbl ar ups -> ups = []).

Lemma salloc_keep s o s1 a : salloc s o = (s1, a) -> plain_obj o -> keep s s1.
Proof.
  intros H (Ho & Hc). split; [eapply salloc_keep0; eauto; apply not_up_view; exact Ho|].
  destruct (salloc_heap _ _ _ _ H) as [-> _]. apply hkeep_app; [exact Ho|].
  intros _ lbl ar ups ua E Hin. rewrite (Hc _ _ _ E) in Hin. destruct Hin.
Qed.

(* an object that is not an upvalue is replaced by a later state of itself *)
Lemma hset_keep s a old o :
  hget (st_heap s) a = Some old -> (forall u, old <> OUp u) -> (forall u, o <> OUp u) -> obj_le old o ->
  (clo_ok (st_heap s) -> clo_obj_ok (hset (st_heap s) a o) o) ->
  keep s (set_heap s (hset (st_heap s) a o)).
Proof.
  intros Ha Hold Ho Hle Hc. split.
  - apply hset_keep0; [rewrite Ha|]; apply not_up_view; assumption.
  - cbn [st_heap set_heap]. eapply hkeep_hset; eauto.
Qed.

Lemma set_table_keep s a t t' : hget (st_heap s) a = Some (OTable t) -> keep s (set_table s a t').
Proof.
  intros H. unfold set_table. eapply hset_keep; [exact H| | |exact I|]; try (intros u Hu; discriminate Hu).
  intros _ lbl ar ups ua E. discriminate E.
Qed.

(* RegisterUpvalue appends an upvalue address to a closure *)
Lemma clo_append_keep s ca ch car cups a :
  hget (st_heap s) ca = Some (OClo ch car cups) ->
  (clo_ok (st_heap s) -> exists u, hget (st_heap s) a = Some (OUp u)) ->
  keep s (set_heap s (hset (st_heap s) ca (OClo ch car (cups ++ [a])))).
Proof.
  intros H Ha. eapply hset_keep; [exact H| | | |]; try (intros u Hu; discriminate Hu).
  - cbn. repeat split. eexists. reflexivity.
  - intros Hok lbl ar ups ua E Hin. injection E as <- <- <-.
    assert (Hu : exists u, hget (st_heap s) ua = Some (OUp u)).
    { apply in_app_or in Hin. destruct Hin as [Hin|[<-|[]]]; [eapply Hok; eauto|auto]. }
    destruct Hu as (u & Hu). exists u. rewrite hget_hset_ne; [exact Hu|].
    intros ->. rewrite H in Hu. discriminate Hu.
Qed.

(* SetUpvalue through a CLOSED upvalue: the object's own cell changes (this is not a [keep] step) *)
Definition write_closed (s : state) (ua : N) (u : upval) (wv : value) : state :=
  set_heap s (hset (st_heap s) ua (OUp (mkUp None wv (u_next u)))).

Lemma write_closed_keep0 s ua u wv :
  hget (st_heap s) ua = Some (OUp u) -> u_loc u = None -> keep0 s (write_closed s ua u wv).
Proof. intros H Hl. apply hset_keep0; [rewrite H; cbn; rewrite Hl|]; reflexivity. Qed.

Lemma write_closed_vm_ok s ua u wv :
  hget (st_heap s) ua = Some (OUp u) -> u_loc u = None -> vm_ok s -> vm_ok (write_closed s ua u wv).
Proof. intros H Hl. apply keep0_vm_ok. apply write_closed_keep0; assumption. Qed.

Lemma write_closed_mono s ua u wv :
  hget (st_heap s) ua = Some (OUp u) -> u_loc u = None -> heap_mono (st_heap s) (st_heap (write_closed s ua u wv)).
Proof.
  intros H Hl. unfold write_closed. cbn [st_heap set_heap]. eapply heap_mono_hset; [exact H|].
  cbn. intros l E. discriminate E.
Qed.

Lemma get_table_hget h v a t : get_table h v = TblOk a t -> hget h a = Some (OTable t).
Proof.
  unfold get_table. destruct v; try discriminate. destruct (hget h a0) as [[]|] eqn:E; try discriminate.
  intros H. injection H as <- <-. exact E.
Qed.

(* frames *)
Lemma vm_ok_set_calls s c : vm_ok s -> frames_lt (cap s) c -> vm_ok (set_calls s c).
Proof. intros (A & B & C) H. split; [exact A|]. split; [exact B|exact H]. Qed.

Lemma push_frame_vm_ok s f s1 : push_frame s f = Some s1 -> vm_ok s -> N.to_nat (fr_off f) < cap s -> vm_ok s1.
Proof.
  unfold push_frame. destruct (_ <=? _); [discriminate|]. intros H. injection H as <-. intros Hs Hf.
  apply vm_ok_set_calls; [exact Hs|]. constructor; [exact Hf|apply Hs].
Qed.

Lemma frames_lt_skipn n k c : frames_lt n c -> frames_lt n (skipn k c).
Proof.
  unfold frames_lt. revert c. induction k as [|k IH]; intros c H; cbn [skipn]; [exact H|].
  destruct c as [|x c]; [constructor|]. inversion H; subst. apply IH; assumption.
Qed.

(* ------------------------------------------------------------------ *)
(* 5. results                                                          *)
(* ------------------------------------------------------------------ *)

(* no claim about the state of an abort (panic / UB / crash / divergence) *)
Definition sres_ok (r : sres) : Prop :=
  match r with SNext _ s' | SExit s' | SErr _ _ s' => vm_ok s' | SStop _ _ => True end.
Definition rres_ok (r : rres) : Prop :=
  match r with ROk s' | RErr _ _ s' => vm_ok s' | RStop _ _ => True end.
Definition nres_ok (r : nres) : Prop :=
  match r with NOk _ s' | NErr _ s' => vm_ok s' | NStop _ _ => True end.

Ltac plain_tac :=
  let HE := fresh "HE" in
  split; [intros ? ?; discriminate|intros ? ? ? HE; first [discriminate HE|injection HE as _ _ <-; reflexivity]].

Ltac note_keep :=
  repeat match goal with
         | H : spush _ _ = Some _ |- _ => apply spush_keep in H
         | H : spop _ = (_, _) |- _ => apply spop_keep in H
         | H : sset _ _ _ = Some _ |- _ => apply sset_keep in H
         | H : spop_w_offset _ _ = (_, _) |- _ => apply spop_w_offset_keep in H
         | H : write_local _ _ _ _ = Some _ |- _ => apply write_local_keep in H
         | H : salloc _ _ = (_, _) |- _ => apply salloc_keep in H; [|plain_tac]
         end.

Ltac peel :=
  cbn [sres_ok rres_ok nres_ok];
  repeat first
    [ exact I
    | apply (keep_vm_ok _ _ (set_globals_keep _ _))
    | apply (keep_vm_ok _ _ (set_log_keep _ _))
    | apply (keep_vm_ok _ _ (log_push_keep _ _))
    | apply (keep_vm_ok _ _ (set_rem_keep _ _))
    | apply (keep_vm_ok _ _ (tick_keep _))
    | apply (keep_vm_ok _ _ (spop_n_keep _ _))
    | apply (keep_vm_ok _ _ (sraw_set_keep _ _ _)) ].

Ltac chain_keep :=
  repeat match goal with
         | H : keep ?a ?b, H0 : vm_ok ?a |- _ =>
             let N := fresh "Hok" in pose proof (keep_vm_ok _ _ H H0) as N; clear H
         end.

Ltac ok_close := note_keep; peel; chain_keep; try assumption.


(* ------------------------------------------------------------------ *)
(* 6. _close_upvalues                                                  *)
(* ------------------------------------------------------------------ *)

(* the nodes that stay open / that are closed by _close_upvalues(top) *)
Definition kept_by (top : nat) (l : list (N * nat)) := filter (fun x => snd x <? top) l.
Definition closed_by (top : nat) (l : list (N * nat)) := filter (fun x => top <=? snd x) l.

Lemma kept_all top l : Forall (fun x => snd x < top) l -> kept_by top l = l.
Proof.
  unfold kept_by. induction 1 as [|x l Hx Hl IH]; cbn [filter]; [reflexivity|].
  destruct (Nat.ltb_spec (snd x) top); [|lia]. f_equal. exact IH.
Qed.

Lemma desc_filter (f : N * nat -> bool) l : desc (slots l) -> desc (slots (filter f l)).
Proof.
  induction l as [|x l IH]; cbn; intros D; [constructor|].
  apply desc_cons_inv in D. destruct D as [D Hx]. destruct (f x); cbn; [|apply IH; exact D].
  constructor; [apply IH; exact D|]. rewrite Forall_forall in *. intros y Hy. apply Hx.
  unfold slots in *. apply in_map_iff in Hy. destruct Hy as (z & <- & Hz). apply filter_In in Hz.
  apply in_map. apply Hz.
Qed.

Lemma sraw_get_stack s s' i : st_stack s' = st_stack s -> sraw_get s' i = sraw_get s i.
Proof. unfold sraw_get. intros ->. reflexivity. Qed.

(* the state after _close_upvalues differs from the one before only in the heap and the head of the list *)
Definition same_but_heap_open (s s' : state) : Prop :=
  st_stack s' = st_stack s /\ st_calls s' = st_calls s /\ st_globals s' = st_globals s /\
  st_log s' = st_log s /\ st_count s' = st_count s /\ st_rem s' = st_rem s /\
  length (st_heap s') = length (st_heap s).

Lemma close_go_spec : forall l fuel top s,
  seg (st_heap s) (st_open s) l None -> desc (slots l) -> length l < fuel ->
  exists s', close_upvalues_go fuel top s = ClOk s' /\
    seg (st_heap s') (st_open s') (kept_by top l) None /\
    same_but_heap_open s s' /\
    (forall a loc, In (a, loc) l -> top <= loc ->
       exists nx, hget (st_heap s') a = Some (OUp (mkUp None (sraw_get s loc) nx))) /\
    (forall x, (forall loc, In (x, loc) l -> loc < top) -> hget (st_heap s') x = hget (st_heap s) x).
Proof.
  induction l as [|[a loc] l IH]; intros fuel top s Hseg D Hf.
  - inversion Hseg as [c Hc|]; subst. destruct fuel as [|f]; [cbn in Hf; lia|].
    cbn [close_upvalues_go]. rewrite H. exists s. split; [reflexivity|].
    split; [cbn; rewrite H; constructor|]. split; [repeat split|]. split; [intros ? ? []|reflexivity].
  - inversion Hseg as [|a' loc' nx l0 e' Hv Hs Ho]; subst.
    destruct (oview_some _ _ _ Hv) as (v & Hg).
    destruct fuel as [|f]; [cbn in Hf; lia|]. cbn [length] in Hf.
    cbn [close_upvalues_go]. rewrite <- Ho, Hg. cbn [u_loc u_next].
    pose proof D as D0. cbn in D. apply desc_cons_inv in D. destruct D as [D Hlt].
    destruct (Nat.ltb_spec loc top) as [L|L].
    + exists s. split; [reflexivity|].
      assert (Hall : Forall (fun x => snd x < top) ((a, loc) :: l)).
      { constructor; [exact L|]. rewrite Forall_forall in *. intros x Hx. 
        assert (snd x < loc) by (apply Hlt; unfold slots; apply in_map; exact Hx). lia. }
      rewrite (kept_all _ _ Hall). split; [exact Hseg|]. split; [repeat split|].
      split; [|reflexivity].
      intros a0 loc0 Hin Ht. rewrite Forall_forall in Hall. specialize (Hall _ Hin). cbn in Hall. lia.
    + set (s2 := set_open (set_heap s (hset (st_heap s) a (OUp (mkUp None (sraw_get s loc) nx)))) nx).
      assert (Hna : ~ In a (addrs l)).
      { pose proof (seg_nodup _ _ _ _ Hseg D0) as ND. cbn in ND. inversion ND; assumption. }
      assert (Hseg2 : seg (st_heap s2) (st_open s2) l None).
      { unfold s2. cbn [st_heap st_open set_open set_heap]. eapply seg_ext; [|exact Hs].
        intros x Hx. rewrite hget_hset_ne; [reflexivity|]. intros ->. contradiction. }
      destruct (IH f top s2 Hseg2 D ltac:(lia)) as (s' & E & Hk & Hsame & Hcl & Hun).
      exists s'. split; [exact E|].
      assert (Hkept : kept_by top ((a, loc) :: l) = kept_by top l).
      { unfold kept_by. cbn [filter snd]. destruct (Nat.ltb_spec loc top); [lia|reflexivity]. }
      rewrite Hkept. split; [exact Hk|].
      assert (Hst : st_stack s2 = st_stack s) by reflexivity.
      split.
      { destruct Hsame as (A1 & A2 & A3 & A4 & A5 & A6 & A7). unfold s2 in *.
        cbn [st_stack st_calls st_globals st_log st_count st_rem st_heap set_open set_heap] in *.
        rewrite hset_length in A7. repeat split; assumption. }
      split.
      * intros a0 loc0 [E0|Hin] Ht.
        -- injection E0 as <- <-. exists nx. rewrite Hun.
           ++ unfold s2. cbn [st_heap set_open set_heap]. apply hget_hset_eq. eapply hget_lt; eauto.
           ++ intros k Hk'. exfalso. apply Hna. unfold addrs. apply in_map_iff. exists (a, k). auto.
        -- destruct (Hcl _ _ Hin Ht) as (nx0 & E1). exists nx0.
           rewrite E1. rewrite (sraw_get_stack _ _ loc0 Hst). reflexivity.
      * intros x Hx. rewrite Hun.
        -- unfold s2. cbn [st_heap set_open set_heap]. apply hget_hset_ne.
           intros ->. specialize (Hx loc (or_introl eq_refl)). lia.
        -- intros k Hk'. apply Hx. right. exact Hk'.
Qed.

Lemma in_closed_dec top l (x : N) :
  (exists loc, In (x, loc) l /\ top <= loc) \/ (forall loc, In (x, loc) l -> loc < top).
Proof.
  induction l as [|[a k] l IH].
  - right. intros ? [].
  - destruct IH as [(loc & Hin & Ht)|Hall].
    + left. exists loc. split; [right; exact Hin|exact Ht].
    + destruct (N.eq_dec x a) as [->|Hn].
      * destruct (Nat.le_gt_cases top k) as [Hle|Hgt].
        -- left. exists k. split; [left; reflexivity|exact Hle].
        -- right. intros loc [E|Hin]; [injection E as <-; exact Hgt|auto].
      * right. intros loc [E|Hin]; [injection E as E1 E2; congruence|auto].
Qed.

(* _close_upvalues(top) on a good list: it succeeds, the nodes with slot >= top are closed with the current value of
   their slot, everything else - the rest of the list included - is as before *)
Lemma close_from_spec top s l capn :
  hopen_ok (st_heap s) (st_open s) capn l ->
  exists s', close_upvalues_from top s = ClOk s' /\
    hopen_ok (st_heap s') (st_open s') capn (kept_by top l) /\
    same_but_heap_open s s' /\
    (forall a loc, In (a, loc) l -> top <= loc ->
       exists nx, hget (st_heap s') a = Some (OUp (mkUp None (sraw_get s loc) nx))) /\
    (forall x, (forall loc, In (x, loc) l -> loc < top) -> hget (st_heap s') x = hget (st_heap s) x).
Proof.
  intros (Hseg & D & Hb & Hc).
  pose proof (seg_length _ _ _ _ Hseg D) as HL.
  destruct (close_go_spec l (S (length (st_heap s))) top s Hseg D ltac:(lia)) as (s' & E & Hk & Hsame & Hcl & Hun).
  exists s'. split; [exact E|]. split; [|auto].
  split; [exact Hk|]. split; [apply desc_filter; exact D|].
  split.
  { unfold kept_by. rewrite Forall_forall in *. intros x Hx. apply filter_In in Hx. apply Hb. apply Hx. }
  intros x Hx.
  destruct (in_closed_dec top l x) as [(loc & Hin & Ht)|Hall].
  - exfalso. destruct (Hcl _ _ Hin Ht) as (nx & E1). rewrite E1 in Hx. apply Hx. reflexivity.
  - rewrite (Hun _ Hall) in Hx. specialize (Hc _ Hx). unfold addrs in *.
    apply in_map_iff in Hc. destruct Hc as ([x' k] & Ex & Hin). cbn in Ex. subst x'.
    apply in_map_iff. exists (x, k). split; [reflexivity|]. unfold kept_by. apply filter_In.
    split; [exact Hin|]. cbn. apply Nat.ltb_lt. apply Hall. exact Hin.
Qed.

(* ------------------------------------------------------------------ *)
(* 7. register_upvalue: the walk and the insertion                     *)
(* ------------------------------------------------------------------ *)

Lemma last_cons {A} (x : A) l d : last (x :: l) d = last l x.
Proof.
  revert x d. induction l as [|y l IH]; intros x d; [reflexivity|].
  change (last (x :: y :: l) d) with (last (y :: l) d). rewrite (IH y d), (IH y x). reflexivity.
Qed.

Definition prev_of (l1 : list (N * nat)) (prev : option N) : option N :=
  last (map (fun x => Some (fst x)) l1) prev.

(* the walk stops at the first node whose slot is <= loc; [prev] is the node before it *)
Lemma walk_open_spec h loc : forall l fuel prev cur,
  seg h cur l None -> desc (slots l) -> length l < fuel ->
  exists l1 l2 cur',
    walk_open fuel h loc prev cur = WOk (prev_of l1 prev) cur' /\ l = l1 ++ l2 /\
    seg h cur l1 cur' /\ seg h cur' l2 None /\
    Forall (fun x => loc < snd x) l1 /\ Forall (fun x => snd x <= loc) l2.
Proof.
  induction l as [|[a k] l IH]; intros fuel prev cur Hseg D Hf.
  - inversion Hseg; subst. destruct fuel as [|f]; [cbn in Hf; lia|]. cbn [walk_open].
    exists [], [], None. repeat split; try constructor.
  - inversion Hseg as [|a' loc' nx l0 e' Hv Hs Ho]; subst.
    destruct (oview_some _ _ _ Hv) as (v & Hg).
    destruct fuel as [|f]; [cbn in Hf; lia|]. cbn [length] in Hf.
    cbn [walk_open]. rewrite Hg. cbn [u_loc u_next].
    cbn in D. apply desc_cons_inv in D. destruct D as [D Hlt].
    destruct (Nat.leb_spec k loc) as [L|L].
    + exists [], ((a, k) :: l), (Some a). split; [reflexivity|]. split; [reflexivity|].
      split; [constructor|]. split; [exact Hseg|]. split; [constructor|].
      constructor; [exact L|]. rewrite Forall_forall in *. intros x Hx.
      assert (snd x < k) by (apply Hlt; apply in_map; exact Hx). lia.
    + destruct (IH f (Some a) nx Hs D ltac:(lia)) as (l1 & l2 & cur' & E & El & S1 & S2 & F1 & F2).
      exists ((a, k) :: l1), l2, cur'. split.
      { rewrite E. unfold prev_of. cbn [map fst]. rewrite last_cons. reflexivity. }
      split; [cbn; f_equal; exact El|].
      split; [econstructor; eauto|]. split; [exact S2|]. split; [constructor; [exact L|exact F1]|exact F2].
Qed.

(* insertion in descending order *)
Fixpoint ins_desc (a : N) (loc : nat) (l : list (N * nat)) : list (N * nat) :=
  match l with
  | [] => [(a, loc)]
  | y :: r => if loc <? snd y then y :: ins_desc a loc r else (a, loc) :: l
  end.

Lemma ins_desc_split a loc l1 l2 :
  Forall (fun x => loc < snd x) l1 -> Forall (fun x => snd x <= loc) l2 ->
  ins_desc a loc (l1 ++ l2) = l1 ++ (a, loc) :: l2.
Proof.
  intros F1 F2. induction F1 as [|x l1 Hx F1 IH]; cbn [app ins_desc].
  - destruct F2 as [|y l2 Hy F2]; [reflexivity|]. cbn [ins_desc].
    destruct (Nat.ltb_spec loc (snd y)); [lia|reflexivity].
  - destruct (Nat.ltb_spec loc (snd x)); [|lia]. f_equal. exact IH.
Qed.

(* the code that links the new node [ua] into the list, after [prev] or as the head *)
Definition link_new (s2 : state) (prev : option N) (ua : N) : state :=
  match prev with
  | Some pa =>
      match hget (st_heap s2) pa with
      | Some (OUp pu) =>
          set_heap s2 (hset (st_heap s2) pa (OUp (mkUp (u_loc pu) (u_val pu) (Some ua))))
      | _ => set_open s2 (Some ua)
      end
  | None => set_open s2 (Some ua)
  end.

Lemma link_new_spec s1 capn l1 l2 cur' loc s2 ua :
  hopen_ok (st_heap s1) (st_open s1) capn (l1 ++ l2) ->
  seg (st_heap s1) (st_open s1) l1 cur' -> seg (st_heap s1) cur' l2 None ->
  Forall (fun x => loc < snd x) l1 -> Forall (fun x => snd x < loc) l2 -> loc < capn ->
  salloc s1 (OUp (mkUp (Some loc) VNil cur')) = (s2, ua) ->
  let s3 := link_new s2 (prev_of l1 None) ua in
  ua = N.of_nat (length (st_heap s1)) /\
  hopen_ok (st_heap s3) (st_open s3) capn (l1 ++ (ua, loc) :: l2) /\
  st_stack s3 = st_stack s1 /\ st_calls s3 = st_calls s1 /\ st_globals s3 = st_globals s1 /\
  st_log s3 = st_log s1 /\ st_count s3 = st_count s1 /\ st_rem s3 = st_rem s1 /\
  length (st_heap s3) = S (length (st_heap s1)) /\
  hget (st_heap s3) ua = Some (OUp (mkUp (Some loc) VNil cur')) /\
  (forall x, oview (hget (st_heap s1) x) = None -> x <> ua -> hget (st_heap s3) x = hget (st_heap s1) x).
Proof.
  intros (Hseg & D & Hb & Hc) S1 S2 F1 F2 Hloc Ea. cbv zeta.
  unfold salloc, halloc in Ea. injection Ea as <- <-.
  set (h := st_heap s1) in *. set (new := OUp (mkUp (Some loc) VNil cur')).
  set (ua := N.of_nat (length h)).
  assert (Hnew : hget (h ++ [new]) ua = Some new) by apply hget_app_new.
  assert (Hold : forall x p, oview (hget h x) = Some p -> hget (h ++ [new]) x = hget h x /\ x <> ua).
  { intros x p Hx. apply oview_hget_lt in Hx. split; [apply hget_app_old; exact Hx|]. unfold ua. lia. }
  (* order *)
  assert (Hdesc : desc (slots (l1 ++ (ua, loc) :: l2))).
  { unfold slots in *. rewrite map_app in *. cbn [map snd].
    destruct (desc_app_inv _ _ D) as (D1 & D2 & D3).
    apply desc_app; [exact D1| |].
    - constructor; [exact D2|]. rewrite Forall_forall in *. intros y Hy. apply in_map_iff in Hy.
      destruct Hy as (z & <- & Hz). apply F2. exact Hz.
    - intros x y Hx [<-|Hy]; [|auto]. apply in_map_iff in Hx. destruct Hx as (z & <- & Hz).
      rewrite Forall_forall in F1. apply F1. exact Hz. }
  assert (Hbound : Forall (fun x => snd x < capn) (l1 ++ (ua, loc) :: l2)).
  { apply Forall_app in Hb. destruct Hb as [B1 B2]. apply Forall_app. split; [exact B1|].
    constructor; [exact Hloc|exact B2]. }
  pose proof (seg_nodup _ _ _ _ Hseg D) as ND.
  destruct (rev l1) as [|[pa pk] r1] eqn:Er.
  - (* new head *)
    assert (l1 = []) by (apply (f_equal (@rev _)) in Er; rewrite rev_involutive in Er; exact Er). subst l1.
    cbn [prev_of map last link_new app] in *. apply seg_head_nil in S1. subst cur'.
    cbn [st_heap st_open st_stack st_calls st_globals st_log st_count st_rem set_open set_heap].
    fold h. split; [reflexivity|]. split.
    { split; [|split; [exact Hdesc|split; [exact Hbound|]]].
      - econstructor; [rewrite Hnew; reflexivity|]. eapply seg_ext; [|exact S2].
        intros x Hx. unfold addrs in Hx. apply in_map_iff in Hx. destruct Hx as ([x' k] & <- & Hin). cbn.
        destruct (seg_view _ _ _ _ _ _ S2 Hin) as (nx & Ev). destruct (Hold _ _ Ev) as [-> _]. reflexivity.
      - intros x Hx. destruct (hget (h ++ [new]) x) as [ob|] eqn:E; [|exfalso; apply Hx; reflexivity].
        destruct (hget_app_inv _ _ _ _ E) as [E'|[-> ->]].
        + right. apply Hc. fold h. rewrite E'. exact Hx.
        + left. reflexivity. }
    repeat (split; [reflexivity|]). split; [rewrite app_length; cbn; lia|]. split; [exact Hnew|].
    intros x Hx Hn. destruct (Nat.lt_ge_cases (N.to_nat x) (length h)) as [L|G].
    + apply hget_app_old. exact L.
    + unfold hget. rewrite (proj2 (nth_error_None h _)) by lia. apply nth_error_None. rewrite app_length. cbn.
      assert (N.to_nat x <> length h) by (intros E; apply Hn; unfold ua; rewrite <- E; symmetry; apply N2Nat.id). lia.
  - (* linked after pa *)
    assert (El1 : l1 = rev r1 ++ [(pa, pk)]).
    { apply (f_equal (@rev _)) in Er. rewrite rev_involutive in Er. exact Er. }
    set (l1' := rev r1) in *. clearbody l1'. subst l1. clear Er r1.
    assert (Hprev : prev_of (l1' ++ [(pa, pk)]) None = Some pa).
    { unfold prev_of. rewrite map_app. cbn [map fst]. apply last_last. }
    rewrite Hprev. cbn [link_new st_heap set_heap].
    destruct (seg_split _ _ _ _ _ S1) as (m & Sa & Sb).
    inversion Sb as [|a' loc' nx l0 e' Hv Hs0]; subst. apply seg_head_nil in Hs0. subst nx.
    destruct (oview_some _ _ _ Hv) as (pv & Hg). fold h in Hg, Hv.
    destruct (Hold _ _ Hv) as [Hg2 Hne].
    rewrite Hg2, Hg. cbn [u_loc u_val].
    set (h3 := hset (h ++ [new]) pa (OUp (mkUp (Some pk) pv (Some ua)))).
    cbn [st_heap st_open st_stack st_calls st_globals st_log st_count st_rem set_open set_heap].
    (* pa occurs once *)
    rewrite <- app_assoc in ND. cbn [app] in ND. unfold addrs in ND. rewrite map_app in ND. cbn [map fst] in ND.
    pose proof (NoDup_remove_2 _ _ _ ND) as Hnot.
    assert (Hview : forall x k, In (x, k) (l1' ++ l2) -> oview (hget h3 x) = oview (hget h x)).
    { intros x k Hin. assert (Hxl : In (x, k) ((l1' ++ [(pa, pk)]) ++ l2)).
      { rewrite <- app_assoc. apply in_app_or in Hin. apply in_or_app. destruct Hin; [left|right; right]; assumption. }
      destruct (seg_view _ _ _ _ _ _ Hseg Hxl) as (nx & Ev). fold h in Ev.
      destruct (Hold _ _ Ev) as [E1 _]. unfold h3. rewrite hget_hset_ne; [rewrite E1; reflexivity|].
      intros ->. apply Hnot. rewrite <- map_app. apply in_map_iff. exists (pa, k). split; [reflexivity|exact Hin]. }
    assert (Hpa : hget h3 pa = Some (OUp (mkUp (Some pk) pv (Some ua)))).
    { unfold h3. apply hget_hset_eq. rewrite app_length. apply hget_lt in Hg. lia. }
    assert (Hua : hget h3 ua = Some new).
    { unfold h3. rewrite hget_hset_ne; [exact Hnew|]. intros E. apply Hne. symmetry. exact E. }
    split; [reflexivity|]. split.
    { split; [|split; [exact Hdesc|split; [exact Hbound|]]].
      - rewrite <- app_assoc. eapply seg_app.
        + eapply seg_ext; [|exact Sa]. intros x Hx. unfold addrs in Hx. apply in_map_iff in Hx.
          destruct Hx as ([x' k] & <- & Hin). cbn. apply (Hview x' k). apply in_or_app. left. exact Hin.
        + cbn [app]. econstructor; [rewrite Hpa; reflexivity|].
          econstructor; [rewrite Hua; reflexivity|].
          eapply seg_ext; [|exact S2]. intros x Hx. unfold addrs in Hx. apply in_map_iff in Hx.
          destruct Hx as ([x' k] & <- & Hin). cbn. apply (Hview x' k). apply in_or_app. right. exact Hin.
      - intros x Hx. unfold addrs. rewrite map_app. cbn [map fst].
        destruct (N.eq_dec x pa) as [->|Hn].
        + apply in_or_app. left. rewrite map_app. apply in_or_app. right. left. reflexivity.
        + unfold h3 in Hx. rewrite hget_hset_ne in Hx by exact Hn.
          destruct (hget (h ++ [new]) x) as [ob|] eqn:E; [|exfalso; apply Hx; reflexivity].
          destruct (hget_app_inv _ _ _ _ E) as [E'|[-> ->]].
          * assert (Hin : In x (addrs ((l1' ++ [(pa, pk)]) ++ l2))) by (apply Hc; fold h; rewrite E'; exact Hx).
            unfold addrs in Hin. rewrite map_app in Hin. apply in_app_or in Hin. apply in_or_app.
            destruct Hin; [left|right; right]; assumption.
          * apply in_or_app. right. left. reflexivity. }
    repeat (split; [reflexivity|]).
    split; [unfold h3; rewrite hset_length, app_length; cbn; lia|]. split; [exact Hua|].
    intros x Hx Hn. unfold h3. rewrite hget_hset_ne.
    + destruct (Nat.lt_ge_cases (N.to_nat x) (length h)) as [L|G]; [apply hget_app_old; exact L|].
      unfold hget. rewrite (proj2 (nth_error_None h _)) by lia. apply nth_error_None. rewrite app_length. cbn.
      assert (N.to_nat x <> length h) by (intros E; apply Hn; unfold ua; rewrite <- E; symmetry; apply N2Nat.id). lia.
    + intros ->. fold h in Hx. rewrite Hv in Hx. discriminate.
Qed.

(* the objects survive register_upvalue and _close_upvalues *)
Lemma link_new_mono s1 o s2 ua prev :
  salloc s1 o = (s2, ua) -> heap_mono (st_heap s1) (st_heap (link_new s2 prev ua)).
Proof.
  intros Ea. destruct (salloc_heap _ _ _ _ Ea) as [Eh _].
  assert (M : heap_mono (st_heap s1) (st_heap s2)) by (rewrite Eh; apply heap_mono_app).
  unfold link_new. destruct prev as [pa|]; [|exact M].
  destruct (hget (st_heap s2) pa) as [[t|b|h ar|h|h ar ups|pu]|] eqn:Ep; try exact M.
  cbn [st_heap set_heap]. eapply heap_mono_trans; [exact M|].
  eapply heap_mono_hset; [exact Ep|]. cbn. intros l E. exact E.
Qed.

Lemma close_from_mono top s l capn s' :
  hopen_ok (st_heap s) (st_open s) capn l -> close_upvalues_from top s = ClOk s' ->
  heap_mono (st_heap s) (st_heap s').
Proof.
  intros Hh E. destruct (close_from_spec top s l capn Hh) as (s'' & E' & _ & _ & Hcl & Hun).
  rewrite E in E'. injection E' as <-. destruct Hh as (Hseg & _).
  intros a o Ha. destruct (in_closed_dec top l a) as [(loc & Hin & Ht)|Hall].
  - destruct (Hcl _ _ Hin Ht) as (nx & E1). eexists. split; [exact E1|].
    destruct (seg_view _ _ _ _ _ _ Hseg Hin) as (nx' & Ev). destruct (oview_some _ _ _ Ev) as (v & Hg).
    rewrite Hg in Ha. injection Ha as <-. cbn. intros l0 El0. discriminate El0.
  - exists o. split; [rewrite (Hun _ Hall); exact Ha|apply obj_le_refl].
Qed.

(* ------------------------------------------------------------------ *)
(* 8. reading the list off a concrete heap (for examples)              *)
(* ------------------------------------------------------------------ *)

Fixpoint chain_of (fuel : nat) (h : heap) (c : option N) : option (list (N * nat)) :=
  match fuel with
  | O => None
  | S f =>
      match c with
      | None => Some []
      | Some a =>
          match oview (hget h a) with
          | Some (loc, nx) => option_map (cons (a, loc)) (chain_of f h nx)
          | None => None
          end
      end
  end.

Lemma chain_of_sound : forall fuel h c l, chain_of fuel h c = Some l -> seg h c l None.
Proof.
  induction fuel as [|f IH]; intros h c l H; cbn [chain_of] in H; [discriminate|].
  destruct c as [a|]; [|injection H as <-; constructor].
  destruct (oview (hget h a)) as [[loc nx]|] eqn:Ev; [|discriminate].
  destruct (chain_of f h nx) as [l'|] eqn:E; [|discriminate]. cbn in H. injection H as <-.
  econstructor; [exact Ev|]. apply IH. exact E.
Qed.

(* all closure objects / all upvalue objects of a heap, with their addresses *)
Definition closures_of (h : heap) : list (N * list N) :=
  flat_map (fun p => match snd p with OClo _ _ ups => [(N.of_nat (fst p), ups)] | _ => [] end)
           (combine (seq 0 (length h)) h).
Definition upvalues_of (h : heap) : list (N * upval) :=
  flat_map (fun p => match snd p with OUp u => [(N.of_nat (fst p), u)] | _ => [] end)
           (combine (seq 0 (length h)) h).

(* "every open slot is a live slot" - NOT an invariant, see VmUpvalueSem.open_slot_may_be_dead *)
Definition open_live (s : state) : Prop :=
  forall l, open_list s l -> Forall (fun x => snd x < scount s) l.
