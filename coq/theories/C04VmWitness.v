(* C04, necessity of the acyclic-heap precondition (finding A-37): a program that stores a table into itself and
   compares it with itself.  On the crate this is `main = [t = {}; t[1] = t; t == t]`: PartialEq recurses over
   the heap graph until the native stack overflows (SIGABRT); in the model == runs out of its recursion fuel
   and the instruction is the abort ACrash. *)
From Coq Require Import NArith ZArith List.
From Cao Require Import ListUtil Bits Stacks Vm C04VmProofs C04VmProofs2.
Import ListNotations.

(* InitTable; CopyLast; CopyLast; ScalarInt 1; SetProperty; CopyLast; Equals; Exit *)
Definition cyclic_code : list N := [31; 9; 9; 5; 1; 0; 0; 0; 0; 0; 0; 0; 33; 9; 12; 10]%N.
Definition cyclic_prog : program := mkProgram cyclic_code [] [] [] [] [].

(* the heap after SetProperty: one table that contains itself under the key 1 *)
Definition cyclic_heap : heap := [OTable (mkTable [(VInt 1, VObj 0)] [VInt 1])].

Theorem cyclic_table_aborts : forall F bld,
  fst (run F bld 100 cyclic_prog fresh_state) = OAbort ACrash /\
  st_heap (snd (run F bld 100 cyclic_prog fresh_state)) = cyclic_heap.
Proof. intros F bld. vm_compute. split; reflexivity. Qed.

(* that heap has no rank function *)
Theorem cyclic_heap_not_acyclic : ~ heap_acyclic cyclic_heap.
Proof.
  intros [rk Hr]. destruct (Hr 0%N _ eq_refl) as [_ H].
  specialize (H (VObj 0) (or_intror (or_introl (or_introl eq_refl)))). cbn in H. lia.
Qed.

(* the same program without the comparison runs to its end: building the cycle is harmless *)
Definition cyclic_build_code : list N := [31; 9; 9; 5; 1; 0; 0; 0; 0; 0; 0; 0; 33; 10]%N.
Theorem cyclic_build_only_ok : forall F bld,
  fst (run F bld 100 (mkProgram cyclic_build_code [] [] [] [] []) fresh_state) = OOk.
Proof. intros F bld. vm_compute. reflexivity. Qed.
