(* C04 - "running is total", Part D: step_pre2 and no-abort of one instruction for the opcodes that
   C04VmProofs.step_no_abort_partial leaves out (tables, upvalues, comparisons of two objects, Return /
   CloseUpvalue with open upvalues).  Natives are in C04VmProofs4.v. *)
From Coq Require Import NArith ZArith List Lia Bool.
From Cao Require Import ListUtil Bits Stacks Vm VmProofs C04VmProofs C04VmProofs2.
Import ListNotations.

(* ---- reads of the value stack return live values ---- *)
Lemma speek_ok s n : stack_closed s -> val_ok (st_heap s) (speek s n).
Proof. intros Hc. unfold speek. cbn [vs_step]. destruct (n <? _); [apply Hc | exact I]. Qed.
Lemma sget_ok s i : stack_closed s -> val_ok (st_heap s) (sget s i).
Proof. intros Hc. unfold sget. cbn [vs_step]. destruct (_ <=? i); [exact I | apply Hc]. Qed.

Lemma tnth_key_ok h t i : (forall k, In k (tkeys t) -> val_ok h k) -> val_ok h (tnth_key t i).
Proof.
  intros H. unfold tnth_key. destruct (Nat.leb_spec (length (tkeys t)) i); [exact I|]. apply H. apply nth_In; assumption.
Qed.

Lemma tnth_key_mentions t i : tnth_key t i = VNil \/ tmentions t (tnth_key t i).
Proof.
  unfold tnth_key. destruct (Nat.leb_spec (length (tkeys t)) i); [left; reflexivity|].
  right. right; right. apply nth_In; assumption.
Qed.

(* what get_table finds on a closed heap *)
Lemma get_table_cases h v : val_ok h v -> heap_closed h ->
  match get_table h v with
  | TblUb => False
  | TblNot => True
  | TblOk a t => hget h a = Some (OTable t) /\ v = VObj a /\ keys_in (val_ok h) (tmap t) /\
                 (forall k, In k (tkeys t) -> val_ok h k)
  end.
Proof.
  intros Hv Hc. destruct v as [| | |a]; cbn [get_table]; try exact I. cbn [val_ok] in Hv.
  destruct (hget h a) as [o|] eqn:E; [|congruence]. destruct o; try exact I.
  pose proof (Hc a _ E) as Ho. cbn [obj_closed] in Ho. repeat split; try exact E.
  - intros k Hk. apply Ho. left; exact Hk.
  - intros k Hk. apply Ho. right; right; exact Hk.
Qed.

Section PartD.
Variable F : fops.
Variable bld : build.
Variable P : program.
Variable reenter : N -> state -> rres.

(* RegisterUpvalue (45): what the compiler guarantees about its two operands [index], [is_local]:
   a captured upvalue of the enclosing function exists (the enclosing function runs as a closure with that
   many upvalues).  (A captured local without a slot is an error value since a56dd03, no condition needed.) *)
Definition reg_upvalue_ok (s : state) (index is_local : N) : Prop :=
  if (is_local =? 0)%N then
    match st_calls s with
    | fr :: _ =>
        match fr_clo fr with
        | Some fa =>
            match hget (st_heap s) fa with
            | Some (OClo _ _ fups) => N.to_nat index < length fups
            | _ => True
            end
        | None => False
        end
    | [] => True
    end
  else True.   (* a captured local without a slot is the error InvalidArgument since a56dd03 *)

Record step_pre2 (ip0 : N) (s : state) : Prop := mkStepPre2 {
  (* operands_ok (C10) *)
  sq_operands : (ip0 + 1 + operand_len (opcode_at P ip0) <= code_len P)%N;
  (* calls_nonempty *)
  sq_calls : st_calls s <> [];
  (* the ValueStack invariant (C14) and a capacity of at least 3 *)
  sq_stack : vcount (st_stack s) < length (vdata (st_stack s)) /\ 2 < length (vdata (st_stack s));
  (* heap_closed: value stack, objects, closure frames, open-upvalue list *)
  sq_closed : stack_closed s;
  sq_heap : heap_closed (st_heap s);
  sq_frames : forall fr ca, In fr (st_calls s) -> fr_clo fr = Some ca ->
                exists h ar ups, hget (st_heap s) ca = Some (OClo h ar ups);
  sq_open : open_ok s;
  (* acyclic: tables are ranked (finding A-37 otherwise) *)
  sq_acyclic : heap_acyclic (st_heap s);
  (* jump targets are not negative (C10) *)
  sq_jump : In (opcode_at P ip0) [28; 29; 30]%N ->
            forall raw, op_u32 P (ip0 + 1) = Some raw -> (0 <= u32_to_i32 raw)%Z;
  (* ForEach in a Debug build: the loop counter is not negative (debug_assert!(0 <= i)) *)
  sq_foreach : opcode_at P ip0 = 36%N -> bld = Debug ->
               forall lv off i, op_u32 P (ip0 + 1) = Some lv -> top_offset s = Some off ->
                 to_i64 F (st_heap s) (sget s (off + N.to_nat lv)) = Some i -> (0 <= i)%Z;
  (* RegisterUpvalue: the captured variable exists *)
  sq_reg : opcode_at P ip0 = 45%N ->
           forall index is_local, read_le (p_code P) (ip0 + 1) 1 = Some index ->
             read_le (p_code P) (ip0 + 1 + 1) 1 = Some is_local -> reg_upvalue_ok s index is_local
}.

Lemma binary_op_no_stop2 ip s op :
  stack_closed s ->
  (forall a b, val_ok (st_heap s) a -> val_ok (st_heap s) b -> exists v, op (st_heap s) a b = VOk v) ->
  no_stop (binary_op ip s op).
Proof.
  intros Hcl H. unfold binary_op.
  destruct (spop s) as [s1 b] eqn:E1. destruct (spop s1) as [s2 a] eqn:E2.
  destruct (spop_inv s s1 b E1 Hcl) as (Hb & Hcl1 & Hh1 & _).
  destruct (spop_inv s1 s2 a E2 Hcl1) as (Ha & _ & Hh2 & _).
  rewrite Hh2, Hh1 in *. destruct (H a b Ha Hb) as [v ->]. cbn [of_vres]. apply push_next_no_stop.
Qed.

Lemma vcmp_no_crash2 h a b : heap_acyclic h -> heap_closed h -> val_ok h a -> val_ok h b ->
  vcmp F h a b <> CCrash.
Proof.
  intros Hac Hc Ha Hb. destruct (is_obj b && is_obj a) eqn:E.
  - apply andb_true_iff in E. destruct E as [Eb Ea]. destruct a as [| | |x]; try discriminate.
    destruct b as [| | |y]; try discriminate.
    unfold vcmp, vcmp_cast, cast_match. cbn [is_real is_int orb].
    destruct (veq0_tot F h Hac Hc (VObj x) (VObj y) Ha Hb) as [r ->].
    destruct r; [discriminate|].
    destruct (vobj_len_some h x Ha) as [lx ->]. destruct (vobj_len_some h y Hb) as [ly ->].
    destruct (lx ?= ly)%Z; discriminate.
  - apply vcmp_no_crash; auto. intros [H1 H2]. rewrite H1, H2 in E. discriminate.
Qed.

Section Opcodes.
Variable ip0 : N.
Variable s : state.
Hypothesis Hpre : step_pre2 ip0 s.

Let Hcl : stack_closed s := sq_closed ip0 s Hpre.
Let Hcalls : st_calls s <> [] := sq_calls ip0 s Hpre.
Let Hhc : heap_closed (st_heap s) := sq_heap ip0 s Hpre.
Let Hac : heap_acyclic (st_heap s) := sq_acyclic ip0 s Hpre.

Notation STEP := (step F bld P reenter ip0 s).

(* the old precondition, for the opcodes whose old proof needs none of the dropped restrictions *)
Lemma step_pre2_step_pre : ~ In (opcode_at P ip0) [11; 12; 13; 14; 15; 22; 46]%N -> step_pre P ip0 s.
Proof.
  intros Hn. destruct Hpre. constructor; auto.
  - intros Hin. exfalso. apply Hn. cbn [In] in *. tauto.
  - intros Hop. exfalso. apply Hn. rewrite Hop. cbn [In]. tauto.
  - intros Hin. exfalso. apply Hn. cbn [In] in *. tauto.
Qed.

Lemma operands2_at : forall k d, opcode_at P ip0 = k -> (d + 4 <= operand_len k)%N ->
  exists x, op_u32 P (ip0 + 1 + d) = Some x.
Proof.
  intros k d Hk Hl. apply op_u32_some. pose proof (sq_operands ip0 s Hpre) as H. rewrite Hk in H. lia.
Qed.
Lemma operands2_4 : forall k, opcode_at P ip0 = k -> (4 <= operand_len k)%N -> exists x, op_u32 P (ip0 + 1) = Some x.
Proof.
  intros k Hk Hl. apply op_u32_some. pose proof (sq_operands ip0 s Hpre) as H. rewrite Hk in H. lia.
Qed.

(* ---- comparisons, also of two objects ---- *)
Lemma eq_op_ok2 neg a b : val_ok (st_heap s) a -> val_ok (st_heap s) b ->
  exists v, eq_op F neg (st_heap s) a b = VOk v.
Proof.
  intros Ha Hb. unfold eq_op. destruct (veq0_tot F _ Hac Hhc a b Ha Hb) as [r ->]. eexists; reflexivity.
Qed.
Lemma less_op_ok2 or_eq a b : val_ok (st_heap s) a -> val_ok (st_heap s) b ->
  exists v, less_op F or_eq (st_heap s) a b = VOk v.
Proof.
  intros Ha Hb. unfold less_op. pose proof (vcmp_no_crash2 _ a b Hac Hhc Ha Hb) as H.
  destruct (vcmp F (st_heap s) a b) as [[]| |]; try (eexists; reflexivity). congruence.
Qed.
Lemma ns2_12 : opcode_at P ip0 = 12%N -> no_stop STEP.
Proof. intros Hop. step_opc Hop. apply binary_op_no_stop2; [exact Hcl | apply eq_op_ok2]. Qed.
Lemma ns2_13 : opcode_at P ip0 = 13%N -> no_stop STEP.
Proof. intros Hop. step_opc Hop. apply binary_op_no_stop2; [exact Hcl | apply eq_op_ok2]. Qed.
Lemma ns2_14 : opcode_at P ip0 = 14%N -> no_stop STEP.
Proof. intros Hop. step_opc Hop. apply binary_op_no_stop2; [exact Hcl | apply less_op_ok2]. Qed.
Lemma ns2_15 : opcode_at P ip0 = 15%N -> no_stop STEP.
Proof. intros Hop. step_opc Hop. apply binary_op_no_stop2; [exact Hcl | apply less_op_ok2]. Qed.

(* ---- Return / CloseUpvalue with open upvalues ---- *)
Lemma ns2_22 : opcode_at P ip0 = 22%N -> no_stop STEP.
Proof.
  intros Hop. step_opc Hop. unfold i_22. clear Hcalls.
  destruct (st_calls s) as [|fr rest]; [exact I|]. cbv zeta.
  pose proof (close_upvalues_from_no_stop (N.to_nat (fr_off fr)) (set_calls s rest)) as H.
  destruct (close_upvalues_from _ _); [| exact I | exfalso; apply H; exact (sq_open ip0 s Hpre)]. crush.
Qed.
Lemma ns2_46 : opcode_at P ip0 = 46%N -> no_stop STEP.
Proof.
  intros Hop. pose proof Hop as Hk. step_opc Hop. unfold i_46.
  destruct (operands2_4 _ Hk ltac:(vm_compute; discriminate)) as [idx ->].
  destruct (top_offset_some s Hcalls) as [off ->]. cbv zeta.
  pose proof (close_upvalues_from_no_stop (off + N.to_nat idx) s (sq_open ip0 s Hpre)) as H.
  destruct (close_upvalues_from _ _); [exact I | exact I | exact H].
Qed.

(* ---- CallFunction of a script function or closure ---- *)
Lemma ns2_11 : (forall a h, top1 s = VObj a -> hget (st_heap s) a <> Some (ONative h)) ->
  opcode_at P ip0 = 11%N -> no_stop STEP.
Proof.
  intros Hnat Hop. unfold top1 in Hnat.
  step_opc Hop. unfold i_11. revert Hnat.
  destruct (spop s) as [s1 fv] eqn:E1. cbn [snd]. intros Hnat.
  destruct (spop_inv s s1 fv E1 Hcl) as (Hv & _ & Hh & Hca & _).
  destruct fv as [| z | r | a]; try exact I.
  cbn [val_ok] in Hv. specialize (Hnat a). rewrite <- Hh in Hnat.
  destruct (hget (st_heap s1) a) as [o|]; [|congruence].
  destruct o; cbv zeta; try exact I.
  - destruct (st_calls s1) eqn:Ec; [exfalso; apply Hcalls; rewrite <- Hca; reflexivity|]. crush.
  - exfalso. apply (Hnat h eq_refl). reflexivity.
  - destruct (st_calls s1) eqn:Ec; [exfalso; apply Hcalls; rewrite <- Hca; reflexivity|]. crush.
Qed.

(* ---- tables ---- *)
Let veq_ok := veq0_tot F (st_heap s) Hac Hhc.

Lemma ns2_32 : opcode_at P ip0 = 32%N -> no_stop STEP.
Proof.
  intros Hop. step_opc Hop. unfold i_32.
  destruct (spop s) as [s1 key] eqn:E1. destruct (spop s1) as [s2 inst] eqn:E2.
  destruct (spop_inv s s1 key E1 Hcl) as (Hk & Hcl1 & Hh1 & _).
  destruct (spop_inv s1 s2 inst E2 Hcl1) as (Hi & _ & Hh2 & _).
  rewrite Hh2, Hh1 in *.
  pose proof (get_table_cases _ inst Hi Hhc) as Hg. destruct (get_table (st_heap s) inst) as [a t| |]; [|exact I|contradiction].
  destruct Hg as (_ & _ & Hm & _).
  destruct (tget_tot _ _ veq_ok t key Hk Hm) as [r ->]. apply push_next_no_stop.
Qed.

Lemma ns2_33 : opcode_at P ip0 = 33%N -> no_stop STEP.
Proof.
  intros Hop. step_opc Hop. unfold i_33. cbv zeta. change (st_heap (spop_n s 3)) with (st_heap s).
  pose proof (get_table_cases _ _ (speek_ok s 1 Hcl) Hhc) as Hg.
  destruct (get_table (st_heap s) (speek s 1)) as [a t| |]; [|exact I|contradiction].
  destruct Hg as (_ & _ & Hm & _).
  destruct (tinsert_tot _ _ veq_ok t (speek s 0) (speek s 2) (speek_ok s 0 Hcl) Hm) as [t' ->]. exact I.
Qed.

Lemma ns2_41 : opcode_at P ip0 = 41%N -> no_stop STEP.
Proof.
  intros Hop. step_opc Hop. unfold i_41.
  destruct (spop s) as [s1 inst] eqn:E1.
  destruct (spop_inv s s1 inst E1 Hcl) as (Hi & _ & Hh1 & _). rewrite Hh1 in *.
  pose proof (get_table_cases _ inst Hi Hhc) as Hg. destruct (get_table (st_heap s) inst) as [a t| |]; [|exact I|contradiction].
  destruct Hg as (_ & _ & Hm & Hks).
  destruct (tpop_tot _ _ veq_ok t Hm Hks) as [[t' v] ->]. apply push_next_no_stop.
Qed.

Lemma ns2_40 : opcode_at P ip0 = 40%N -> no_stop STEP.
Proof.
  intros Hop. step_opc Hop. unfold i_40. cbv zeta. change (st_heap (spop_n s 2)) with (st_heap s).
  pose proof (get_table_cases _ _ (speek_ok s 0 Hcl) Hhc) as Hg.
  destruct (get_table (st_heap s) (speek s 0)) as [a t| |]; [|exact I|contradiction].
  destruct Hg as (_ & _ & Hm & _). unfold tappend.
  destruct (tappend_idx_tot _ _ veq_ok (S (length (tmap t))) (tmap t) (Z.of_nat (length (tkeys t))) Hm I (fun _ => I))
    as [r Er].
  pose proof (tappend_idx_not_fuel F (st_heap s) (tmap t) (Z.of_nat (length (tkeys t)))) as Hnf.
  rewrite Er in *. destruct r as [i|]; [|congruence].
  destruct (tinsert_tot _ _ veq_ok t (VInt i) (speek s 1) I Hm) as [t' ->]. exact I.
Qed.

Lemma i64_result_some z : exists r, i64_result z = Some r.
Proof. unfold i64_result. destruct (in_i64 z); eexists; reflexivity. Qed.

Lemma ns2_36 : opcode_at P ip0 = 36%N -> no_stop STEP.
Proof.
  intros Hop. pose proof Hop as Hk. step_opc Hop. unfold i_36.
  destruct (operands2_at 36%N 0%N Hk ltac:(vm_compute; discriminate)) as [lv E0].
  rewrite N.add_0_r in E0. rewrite E0.
  destruct (operands2_at 36%N 4%N Hk ltac:(vm_compute; discriminate)) as [x1 ->].
  destruct (operands2_at 36%N 8%N Hk ltac:(vm_compute; discriminate)) as [x2 ->].
  destruct (operands2_at 36%N 12%N Hk ltac:(vm_compute; discriminate)) as [x3 ->].
  destruct (operands2_at 36%N 16%N Hk ltac:(vm_compute; discriminate)) as [x4 ->].
  destruct (top_offset_some s Hcalls) as [off Eoff]. rewrite Eoff. cbv zeta.
  destruct (to_i64_some F _ _ (sget_ok s (off + N.to_nat lv) Hcl)) as [i Ei]. rewrite Ei.
  pose proof (get_table_cases _ _ (sget_ok s (off + N.to_nat x1) Hcl) Hhc) as Hg.
  destruct (get_table (st_heap s) (sget s (off + N.to_nat x1))) as [a t| |]; [|exact I|contradiction].
  destruct Hg as (_ & _ & Hm & Hks).
  assert (Hdbg : ((i <? 0)%Z && match bld with Debug => true | Release => false end) = false).
  { destruct bld eqn:Eb; [|apply andb_false_r].
    pose proof (sq_foreach ip0 s Hpre Hk Eb lv off i E0 Eoff Ei) as H.
    destruct (Z.ltb_spec i 0); [lia | reflexivity]. }
  rewrite Hdbg. clear Hdbg. destruct ((0 <=? i)%Z && _); [|apply push_next_no_stop].
  destruct (tget_tot _ _ veq_ok t (tnth_key t (Z.to_nat i)) (tnth_key_ok _ t _ Hks) Hm) as [r ->].
  destruct (i64_result_some (i + 1)) as [i1 Ei1].
  repeat match goal with
         | |- no_stop (match write_local ?a ?b ?c ?d with _ => _ end) => destruct (write_local a b c d); [|exact I]
         end.
  rewrite Ei1.
  repeat match goal with
         | |- no_stop (match write_local ?a ?b ?c ?d with _ => _ end) => destruct (write_local a b c d); [|exact I]
         end.
  apply push_next_no_stop.
Qed.

Lemma ns2_39 : opcode_at P ip0 = 39%N -> no_stop STEP.
Proof.
  intros Hop. step_opc Hop. unfold i_39. cbv zeta. change (st_heap (spop_n s 2)) with (st_heap s).
  pose proof (get_table_cases _ _ (speek_ok s 1 Hcl) Hhc) as Hg.
  destruct (get_table (st_heap s) (speek s 1)) as [a t| |]; [|exact I|contradiction].
  destruct Hg as (_ & _ & Hm & Hks).
  destruct (speek s 0) as [|i| |]; try exact I.
  destruct (i <? 0)%Z; [exact I|].
  set (inside := (i <? Z.of_nat (length (tkeys t)))%Z).
  set (key := if inside then tnth_key t (Z.to_nat i) else VNil).
  assert (Hkey : val_ok (st_heap s) key) by (unfold key; destruct inside; [apply tnth_key_ok; exact Hks | exact I]).
  assert (Hr : exists r, (if inside then tget (veq0 F (st_heap s)) t key else Some None) = Some r).
  { destruct inside; [apply (tget_tot _ _ veq_ok t key Hkey Hm) | eexists; reflexivity]. }
  destruct Hr as [r ->].
  unfold salloc, halloc. cbn [st_heap set_heap spop_n set_stack].
  set (h3 := st_heap s ++ [OTable (mkTable [] [])]).
  set (h4 := h3 ++ [OStr str_key]). set (h5 := h4 ++ [OStr str_value]).
  assert (C3 : heap_closed h3) by (apply heap_closed_alloc; [exact Hhc | intros v Hv; destruct (empty_mentions v Hv)]).
  assert (A3 : heap_acyclic h3).
  { apply heap_acyclic_alloc; auto. intros t0 E v. inversion E; subst. apply empty_mentions. }
  assert (C4 : heap_closed h4) by (apply heap_closed_alloc; [exact C3 | exact I]).
  assert (A4 : heap_acyclic h4) by (apply heap_acyclic_alloc; auto; intros t0 E; discriminate).
  assert (C5 : heap_closed h5) by (apply heap_closed_alloc; [exact C4 | exact I]).
  assert (A5 : heap_acyclic h5) by (apply heap_acyclic_alloc; auto; intros t0 E; discriminate).
  pose proof (veq0_tot F h5 A5 C5) as veq5.
  assert (Hka : val_ok h5 (VObj (N.of_nat (length h3)))).
  { cbn [val_ok]. unfold h5. rewrite hget_app_old; unfold h4; rewrite hget_app_new; discriminate. }
  assert (Hva : val_ok h5 (VObj (N.of_nat (length h4)))).
  { cbn [val_ok]. unfold h5. rewrite hget_app_new; discriminate. }
  destruct (tinsert_tot _ _ veq5 (mkTable [] []) (VObj (N.of_nat (length h3))) key Hka) as [t1 E1];
    [intros k Hk; destruct Hk|].
  rewrite E1.
  destruct (tinsert_tot _ _ veq5 t1 (VObj (N.of_nat (length h4)))
              (match r with Some v => v | None => VNil end) Hva) as [t2 ->].
  { eapply tinsert_keys; [exact E1 | exact Hka | intros k Hk; destruct Hk]. }
  apply push_next_no_stop.
Qed.

(* ---- upvalues ---- *)
Lemma top_frame_closure s1 fr ca : In fr (st_calls s) ->
  st_heap s1 = st_heap s -> fr_clo fr = Some ca -> exists h ar ups, hget (st_heap s1) ca = Some (OClo h ar ups).
Proof. intros Hin Hh Hclo. rewrite Hh. apply (sq_frames ip0 s Hpre fr ca); assumption. Qed.

Lemma ns2_43_44 : forall k, opcode_at P ip0 = k -> In k [43; 44]%N -> no_stop (i_43_44 P k ip0 (ip0 + 1) s).
Proof.
  intros k Hk Hin. unfold i_43_44.
  assert (Hl : (4 <= operand_len k)%N) by (destruct Hin as [<-|[<-|[]]]; vm_compute; discriminate).
  destruct (operands2_4 _ Hk Hl) as [idx ->]. cbv zeta.
  assert (Hs1 : forall s1 wv, (if (k =? 43)%N then spop s else (s, VNil)) = (s1, wv) ->
            st_calls s1 = st_calls s /\ st_heap s1 = st_heap s).
  { intros s1 wv E. destruct (k =? 43)%N.
    - destruct (spop_inv s s1 wv E Hcl) as (_ & _ & Hh & Hca & _). split; assumption.
    - inversion E; subst. split; reflexivity. }
  destruct (if (k =? 43)%N then spop s else (s, VNil)) as [s1 wv] eqn:E1.
  destruct (Hs1 s1 wv eq_refl) as [Hca Hh].
  destruct (st_calls s1) as [|fr rest] eqn:Ec; [exfalso; apply Hcalls; rewrite <- Hca; reflexivity|].
  destruct (fr_clo fr) as [ca|] eqn:Eclo; [|exact I].
  destruct (top_frame_closure s1 fr ca ltac:(rewrite <- Hca; left; reflexivity) Hh Eclo) as (h & ar & ups & Eo). rewrite Eo.
  destruct (nth_error ups (N.to_nat idx)) as [ua|] eqn:Eu; [|exact I].
  assert (Hua : hget (st_heap s1) ua <> None).
  { rewrite Hh in *. apply (Hhc ca _ Eo). eapply nth_error_In; eauto. }
  destruct (hget (st_heap s1) ua) as [o|]; [|congruence].
  destruct o; try exact I. destruct (k =? 43)%N; [destruct (u_loc u); exact I | apply push_next_no_stop].
Qed.
Lemma ns2_43 : opcode_at P ip0 = 43%N -> no_stop STEP.
Proof. intros Hop. pose proof Hop as Hk. step_opc Hop. apply ns2_43_44; [exact Hk | cbn [In]; tauto]. Qed.
Lemma ns2_44 : opcode_at P ip0 = 44%N -> no_stop STEP.
Proof. intros Hop. pose proof Hop as Hk. step_opc Hop. apply ns2_43_44; [exact Hk | cbn [In]; tauto]. Qed.

Lemma ns2_45 : opcode_at P ip0 = 45%N -> no_stop STEP.
Proof.
  intros Hop. pose proof Hop as Hk. pose proof (sq_reg ip0 s Hpre Hk) as Hreg.
  step_opc Hop. unfold i_45.
  pose proof (sq_operands ip0 s Hpre) as Hlen. rewrite Hk in Hlen. change (operand_len 45) with 2%N in Hlen.
  unfold code_len in Hlen.
  destruct (read_le_some (p_code P) (ip0 + 1) 1) as [index Ei]; [change (N.of_nat 1) with 1%N; lia|].
  destruct (read_le_some (p_code P) (ip0 + 1 + 1) 1) as [is_local El]; [change (N.of_nat 1) with 1%N; lia|].
  rewrite Ei, El. cbv zeta. specialize (Hreg index is_local Ei El). unfold reg_upvalue_ok in Hreg.
  destruct (spop s) as [s1 cv] eqn:E1.
  destruct (spop_inv s s1 cv E1 Hcl) as (Hv & _ & Hh & Hca & Hopen & _ & Hn).
  destruct cv as [| | |ca]; try exact I. cbn [val_ok] in Hv.
  destruct (hget (st_heap s1) ca) as [o|] eqn:Eca; [|congruence].
  destruct o as [| | | |ch car cups|]; try exact I.
  destruct (is_local =? 0)%N; cbn [negb].
  - (* an upvalue of the enclosing closure *)
    destruct (st_calls s1) as [|fr rest] eqn:Ec; [exfalso; apply Hcalls; rewrite <- Hca; reflexivity|].
    rewrite <- Hca in Hreg. 
    destruct (fr_clo fr) as [fa|] eqn:Eclo; [|contradiction].
    destruct (top_frame_closure s1 fr fa ltac:(rewrite <- Hca; left; reflexivity) Hh Eclo) as (h & ar & fups & Eo).
    rewrite <- Hh in Hreg. rewrite Eo in *.
    destruct (nth_error fups (N.to_nat index)) eqn:En; [exact I|].
    apply nth_error_None in En. lia.
  - (* a local of the current frame *)
    assert (Eto : top_offset s1 = top_offset s) by (unfold top_offset; rewrite Hca; reflexivity).
    rewrite Eto. destruct (top_offset_some s Hcalls) as [off Eoff]. rewrite Eoff in *.
    destruct (scount s1 <=? off + N.to_nat index); [exact I|].
    destruct (sq_open ip0 s Hpre) as (l & Hch & Hnd). rewrite <- Hh, <- Hopen in Hch.
    pose proof (walk_open_no_stop (st_heap s1) (off + N.to_nat index) (S (length (st_heap s1))) None (st_open s1) l Hch) as Hw.
    pose proof (live_nodup_length (st_heap s1) l Hnd (open_chain_live _ _ _ Hch)) as Hll.
    destruct (walk_open _ _ _ _ _) as [prev cur|ab]; [|apply Hw; lia].
    destruct cur as [a|].
    + destruct (match hget (st_heap s1) a with Some (OUp u) => _ | _ => false end); [exact I|].
      unfold salloc, halloc. exact I.
    + unfold salloc, halloc. exact I.
Qed.

End Opcodes.

Definition covered2 : list N := [11; 12; 13; 14; 15; 22; 32; 33; 36; 39; 40; 41; 43; 44; 45; 46]%N.

(* one instruction of every opcode except CallNative (4) does not abort, CallFunction (11) when the callee is
   not a native function value *)
Theorem step_no_abort_no_native : forall ip0 s,
  step_pre2 ip0 s -> (opcode_at P ip0 <= 46)%N -> opcode_at P ip0 <> 4%N ->
  (opcode_at P ip0 = 11%N -> forall a h, top1 s = VObj a -> hget (st_heap s) a <> Some (ONative h)) ->
  forall a s', step F bld P reenter ip0 s <> SStop a s'.
Proof.
  intros ip0 s Hpre Hle Hn4 Hn11.
  destruct (in_dec N.eq_dec (opcode_at P ip0) covered2) as [Hin|Hnin].
  - apply no_stop_neq. unfold covered2 in Hin. cbn [In] in Hin.
    repeat (destruct Hin as [Hin|Hin]; [symmetry in Hin|]); try contradiction.
    all: first
      [ apply ns2_12; assumption | apply ns2_13; assumption | apply ns2_14; assumption
      | apply ns2_15; assumption | apply ns2_22; assumption | apply ns2_32; assumption | apply ns2_33; assumption
      | apply ns2_36; assumption | apply ns2_39; assumption | apply ns2_40; assumption | apply ns2_41; assumption
      | apply ns2_43; assumption | apply ns2_44; assumption | apply ns2_45; assumption | apply ns2_46; assumption | solve [apply ns2_11; auto] ].
  - apply step_no_abort_partial.
    + apply step_pre2_step_pre; [exact Hpre|]. intros Hin. apply Hnin. unfold covered2. cbn [In] in *. tauto.
    + unfold covered2 in Hnin. cbn [In] in Hnin. unfold covered_opcodes.
      set (k := opcode_at P ip0) in *. clearbody k.
      destruct k as [|p]; [cbn [In]; tauto|].
      do 6 (try destruct p as [p|p|]); try lia; cbn [In]; try tauto.
      all: exfalso; first [apply Hn4; reflexivity | apply Hnin; tauto].
Qed.

End PartD.
