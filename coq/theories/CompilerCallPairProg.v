(* C08, the call pair in the returned program: from cards (CompilerCallPair) to functions, stages, compile,
   and from the model's resolve_function to the specification (ResolveSpec.site_target). *)
From Coq Require Import List NArith ZArith Bool Lia.
From Cao Require Import ListUtil CheckUtil Bits CardAst Bytecode Compiler CompilerGen StdlibGen ResolveSpec
  CompilerProofs CompilerWf CompilerResolve ResolveProofs ResolveTree CompilerLabels CompilerCalls CompilerCallPair.
From Cao Require CardEdit.
Import ListNotations.
Local Open Scope N_scope.

(* ------------------------------------------------------------------ functions and stages *)
Lemma Y_process_cards cards : forall ic, Y (flat_map card_pitems cards) (process_cards cards ic).
Proof.
  induction cards as [|c r IH]; intros ic; cbn [process_cards flat_map]; [apply Y_ret|].
  eapply Y_eq.
  - eapply Y_bind; [apply Y_frame, frame4_pop_sub | intros _].
    eapply Y_bind; [apply Y_frame, frame4_push_sub | intros _].
    eapply Y_bind; [apply process_card_Y | intros _; apply IH].
  - reflexivity.
Qed.

(* an item together with the namespace and import table of the function it belongs to *)
Definition fpitem : Type := (list str * list (str * str) * pitem)%type.
Definition seg_ok2 (jt : list (str * fmeta)) (x : fpitem) (seg : list instr) : Prop :=
  seg_ok (jt, fst (fst x), snd (fst x)) (snd x) seg.
Definition fpitems (f : function_ir) : list fpitem :=
  map (fun it => (fi_ns f, fi_imports f, it)) (flat_map card_pitems (fi_cards f)).

Definition Z2 {A} (its : list fpitem) (m : M A) : Prop :=
  forall s, match m s with
            | ROk _ s' => cs_jump s' = cs_jump s /\
                          exists ext, ecode s' = ecode s ++ ext /\ layout (seg_ok2 (cs_jump s)) its ext
            | _ => True
            end.
Lemma Z2_bind {A B} a b (m : M A) (f : A -> M B) : Z2 a m -> (forall x, Z2 b (f x)) -> Z2 (a ++ b) (bind m f).
Proof.
  intros Hm Hf s. unfold bind. specialize (Hm s). destruct (m s) as [x s1|e l| |]; auto.
  destruct Hm as (Hc1 & e1 & Hs1 & Hi1). specialize (Hf x s1). destruct (f x s1) as [y s2|e l| |]; auto.
  destruct Hf as (Hc2 & e2 & Hs2 & Hi2). split; [congruence|].
  exists (e1 ++ e2). split; [rewrite Hs2, Hs1, app_assoc; reflexivity|].
  apply layout_app; [exact Hi1 | rewrite <- Hc1; exact Hi2].
Qed.
Lemma Z2_nil {A} (m : M A) : Y [] m -> Z2 [] m.
Proof.
  intros H s. specialize (H s). destruct (m s) as [x s1|e l| |]; auto.
  destruct H as (Hc & ext & Hs & Hi). split; [unfold cctx in Hc; congruence|].
  exists ext. split; [exact Hs|]. inversion Hi; subst. constructor. assumption.
Qed.
Lemma Z2_eq {A} its its' (m : M A) : Z2 its' m -> its' = its -> Z2 its m.
Proof. intros H <-. exact H. Qed.

Lemma Z2_process_function f : Z2 (fpitems f) (process_function f).
Proof.
  intros s. unfold process_function. unfold bind at 1.
  set (s1 := set_fctx (fi_ns f) (fi_imports f) s).
  assert (HE : Y (flat_map card_pitems (fi_cards f)) (add_locals (rev (fi_args f)) ;; process_cards (fi_cards f) 0)).
  { eapply Y_eq; [eapply Y_bind; [apply Y_frame, frame4_add_locals | intros _; apply Y_process_cards] | reflexivity]. }
  specialize (HE s1). destruct ((add_locals (rev (fi_args f)) ;; process_cards (fi_cards f) 0) s1) as [x s2|e l| |]; auto.
  destruct HE as (Hc & ext & Hs & Hi). split; [unfold cctx in Hc; injection Hc as -> _ _; reflexivity|].
  exists ext. split; [exact Hs|]. unfold fpitems. apply layout_map. exact Hi.
Qed.

Ltac zstep :=
  first [ apply Z2_process_function
        | apply Z2_nil; first [ apply Y_scope_end | apply Y_process_leaf; reflexivity | apply Y_push_other; reflexivity
                              | apply Y_frame; solve [frame4_tac] ]
        | eapply Z2_bind; [|intros ?] ].
Ltac znorm := cbn [app]; rewrite ?app_nil_r, <- ?app_assoc; cbn [app]; reflexivity.

Lemma Z2_compile_main f : Z2 (fpitems f) (compile_main f).
Proof. unfold compile_main. eapply Z2_eq; [repeat zstep | znorm]. Qed.
Lemma Z2_compile_other f : Z2 (fpitems f) (compile_other f).
Proof. unfold compile_other. eapply Z2_eq; [repeat zstep | znorm]. Qed.
Lemma Z2_compile_others fs : Z2 (flat_map fpitems fs) (compile_others fs).
Proof.
  induction fs as [|f r IH]; cbn [compile_others flat_map]; [apply Z2_nil, Y_ret|].
  apply Z2_bind; [apply Z2_compile_other | intros _; exact IH].
Qed.
Lemma Z2_stage_2 fs : Z2 (flat_map fpitems fs) (stage_2 fs).
Proof.
  destruct fs as [|f r]; cbn [stage_2 flat_map]; [apply Z2_nil, Y_ret|].
  apply Z2_bind; [apply Z2_compile_main | intros _; apply Z2_compile_others].
Qed.

(* the layout of the whole code buffer, function by function *)
Theorem compile_ir_layout fs d s_end :
  compile_ir fs (init_state d) = ROk tt s_end ->
  exists s1, stage_1 fs (init_state d) = ROk tt s1 /\
             layout (seg_ok2 (cs_jump s1)) (flat_map fpitems fs) (ecode s_end).
Proof.
  intros H. destruct fs as [|f r]; [discriminate|]. unfold compile_ir in H.
  unfold bind in H.
  pose proof (frame_stage_1 (f :: r) (init_state d)) as F1.
  destruct (stage_1 (f :: r) (init_state d)) as [[] s1| | |]; try discriminate.
  exists s1. split; [reflexivity|].
  pose proof (Z2_stage_2 (f :: r) s1) as G2.
  destruct (stage_2 (f :: r) s1) as [[] s2| | |]; try discriminate.
  rewrite push_instr_eq in H. injection H as <-.
  rewrite ecode_pushed. apply layout_quiet_r; [constructor; [reflexivity | constructor]|].
  change (ecode (set_fctx (cs_ns s2) [] s2)) with (ecode s2).
  destruct G2 as (_ & ext & Hs & Hi). destruct F1 as (Hc & _).
  unfold ecode in Hs at 2. rewrite Hc in Hs. cbn in Hs. rewrite Hs. exact Hi.
Qed.

(* ------------------------------------------------------------------ from the model's resolution to the specification *)
Definition site_pitems (st : fsite) : list (fsite * pitem) :=
  map (fun it => (st, it)) (flat_map card_pitems (f_cards (fs_fn st))).

Definition target_ptr (root : module) (st : fsite) (name : str) (i : instr) : Prop :=
  exists pos ar, site_target root st name = Some (pos, ar) /\
                 i = IFunctionPointer (handle_from_u64 (N.of_nat pos)) (N.of_nat ar mod two32).

Definition site_seg_ok (root : module) (x : fsite * pitem) (seg : list instr) : Prop :=
  match snd x with
  | PPair name => exists i, target_ptr root (fst x) name i /\ seg = [i; ICallFunction]
  | PPtr name => exists i, target_ptr root (fst x) name i /\ seg = [i]
  | PCall => seg = [ICallFunction]
  end.

Lemma seg_to_site root irs fs jt st f p seg :
  table_matches root jt -> irs_from 0 (tree_functions root []) irs -> (forall g, In g fs <-> In g irs) -> table_of fs jt ->
  site_ir st f -> seg_ok2 jt (fi_ns f, fi_imports f, p) seg -> site_seg_ok root (st, p) seg.
Proof.
  intros Ht Hirs Hperm Htab Hsi H. unfold seg_ok2 in H. cbn [fst snd] in H. unfold site_seg_ok. cbn [fst snd].
  assert (Hp : forall name s0 m, cctx s0 = (jt, fi_ns f, fi_imports f) -> resolve_function name s0 = ROk m s0 ->
                 target_ptr root st name (IFunctionPointer (fm_handle m) (fm_arity m))).
  { intros name s0 m Hc Hr.
    assert (Hi : item_ok2 jt (fi_ns f, fi_imports f, CPtr name) (IFunctionPointer (fm_handle m) (fm_arity m))).
    { unfold item_ok2. cbn [fst snd item_ok]. exists s0, m. auto. }
    exact (item_to_site root irs fs jt st f (CPtr name) _ Ht Hirs Hperm Htab Hsi Hi). }
  destruct p as [name|name|]; [| |exact H].
  - destruct H as (s0 & m & Hc & Hr & ->). eexists. split; [eapply Hp; eauto | reflexivity].
  - destruct H as (s0 & m & Hc & Hr & ->). eexists. split; [eapply Hp; eauto | reflexivity].
Qed.

(* items of IR functions vs items of the sites they come from *)
Definition fp_site (x : fpitem) (y : fsite * pitem) : Prop :=
  snd x = snd y /\ exists f, site_ir (fst y) f /\ fst x = (fi_ns f, fi_imports f).

Lemma fpitems_sites : forall sts fl, Forall2 site_ir sts fl ->
  Forall2 fp_site (flat_map fpitems fl) (flat_map site_pitems sts).
Proof.
  induction 1 as [|st f sts fl Hsf _ IH]; cbn [flat_map]; [constructor|].
  apply Forall2_app; [|exact IH].
  unfold fpitems, site_pitems.
  assert (Ec : fi_cards f = f_cards (fs_fn st)) by (destruct Hsf as [[k Hk] _]; apply Hk).
  rewrite <- Ec. induction (flat_map card_pitems (fi_cards f)) as [|it l IHl]; cbn [map]; constructor; [|exact IHl].
  split; [reflexivity|]. exists f. split; [exact Hsf | reflexivity].
Qed.

Lemma layout_to_sites root irs fs jt :
  table_matches root jt -> irs_from 0 (tree_functions root []) irs -> (forall g, In g fs <-> In g irs) -> table_of fs jt ->
  forall sts fl, Forall2 site_ir sts fl ->
  forall e, layout (seg_ok2 jt) (flat_map fpitems fl) e -> layout (site_seg_ok root) (flat_map site_pitems sts) e.
Proof.
  intros Ht Hirs Hperm Htab sts fl HF e H.
  eapply (layout_Forall2 fp_site); [|exact H | apply fpitems_sites, HF].
  intros [[ns imps] p] [st p'] seg [E1 (f & Hsi & E2)] Hok. cbn [fst snd] in *. subst p'. injection E2 as -> ->.
  eapply seg_to_site; eauto.
Qed.

(* ------------------------------------------------------------------ un-erasing *)
Lemma map_erase_split l : forall a seg b, map erase l = a ++ seg ++ b ->
  exists a' seg' b', l = a' ++ seg' ++ b' /\ map erase a' = a /\ map erase seg' = seg /\ map erase b' = b.
Proof.
  intros a seg b H. apply map_eq_app in H. destruct H as (a' & r & -> & Ha & Hr).
  apply map_eq_app in Hr. destruct Hr as (seg' & b' & -> & Hs & Hb).
  exists a', seg', b'. auto.
Qed.
Lemma filter_call_erase l : length (filter is_call_instr (map erase l)) = length (filter is_call_instr l).
Proof.
  induction l as [|i r IH]; [reflexivity|]. cbn [map filter]. rewrite is_call_erase.
  destruct (is_call_instr i); cbn [length]; rewrite IH; reflexivity.
Qed.
Lemma erase_pair seg i : (exists h ar, i = IFunctionPointer h ar) -> map erase seg = [i; ICallFunction] -> seg = [i; ICallFunction].
Proof.
  intros (h & ar & ->) H. destruct seg as [|x [|y [|z r]]]; try discriminate. cbn [map] in H.
  injection H as H1 H2. apply erase_fp in H1. apply erase_cf in H2. subst. reflexivity.
Qed.

(* ------------------------------------------------------------------ indices into the flat item list *)
Definition pw (x : fsite * pitem) : nat := length (pitem_items (snd x)).
Definition expand (x : fsite * pitem) : list (fsite * citem) := map (fun it => (fst x, it)) (pitem_items (snd x)).

Lemma expand_site_pitems st : flat_map expand (site_pitems st) = site_items st.
Proof.
  unfold site_pitems, site_items. rewrite <- cards_pitems_items.
  induction (flat_map card_pitems (f_cards (fs_fn st))) as [|p l IH]; [reflexivity|].
  cbn [map flat_map]. rewrite map_app, IH. reflexivity.
Qed.
Lemma expand_sites sts : flat_map expand (flat_map site_pitems sts) = flat_map site_items sts.
Proof.
  induction sts as [|st r IH]; [reflexivity|]. cbn [flat_map]. rewrite flat_map_app, expand_site_pitems, IH. reflexivity.
Qed.
Lemma nth_flat_map_hd {A B} (f : A -> list B) : forall xs k x y r,
  nth_error xs k = Some x -> f x = y :: r ->
  nth_error (flat_map f xs) (list_sum (map (fun x => length (f x)) (firstn k xs))) = Some y.
Proof.
  induction xs as [|x0 xs IH]; intros k x y r Hk Hf; [destruct k; discriminate|].
  destruct k as [|k]; cbn [nth_error firstn map list_sum fold_right flat_map] in *.
  - injection Hk as ->. rewrite Hf. reflexivity.
  - rewrite nth_error_app2 by lia. fold (list_sum (map (fun x => length (f x)) (firstn k xs))).
    replace (_ + _ - _)%nat with (list_sum (map (fun x => length (f x)) (firstn k xs))) by lia.
    eapply IH; eauto.
Qed.

Lemma site_seg_weight root x seg : site_seg_ok root x seg -> Forall (fun i => is_call_instr i = true) seg /\ length seg = pw x.
Proof.
  unfold site_seg_ok, pw. destruct (snd x) as [name|name|]; cbn [pitem_items length].
  - intros (i & (pos & ar & _ & ->) & ->). split; [repeat constructor | reflexivity].
  - intros (i & (pos & ar & _ & ->) & ->). split; [repeat constructor | reflexivity].
  - intros ->. split; [repeat constructor | reflexivity].
Qed.

(* ------------------------------------------------------------------ sub-cards *)
(* x is c or one of its descendants (Card::iter_children, transitively) *)
Inductive subcard (x : card) : card -> Prop :=
| sc_refl : subcard x x
| sc_child c y : In y (CardEdit.iter_children c) -> subcard x y -> subcard x c.

Lemma incl_flat_pitems y l : In y l -> incl (card_pitems y) (flat_map card_pitems l).
Proof. intros Hin p Hp. apply in_flat_map. exists y. auto. Qed.
Lemma child_pitems c y : In y (CardEdit.iter_children c) -> incl (card_pitems y) (card_pitems c).
Proof.
  destruct c; cbn [CardEdit.iter_children card_pitems In]; intros H p Hp; rewrite ?in_app_iff;
    repeat match goal with H : _ \/ _ |- _ => destruct H as [H|H] end;
    try contradiction; try (subst; tauto);
    try (pose proof (incl_flat_pitems _ _ H p Hp); tauto).
Qed.
Lemma subcard_pitems x c : subcard x c -> incl (card_pitems x) (card_pitems c).
Proof.
  induction 1 as [|c y Hy _ IH]; [apply incl_refl|]. eapply incl_tran; [exact IH | apply child_pitems, Hy].
Qed.
(* a Call card anywhere below one of the cards of a function contributes a PPair item *)
Lemma call_card_pitem name args c cards :
  In c cards -> subcard (CCall name args) c -> In (PPair name) (flat_map card_pitems cards).
Proof.
  intros Hc Hs. apply in_flat_map. exists c. split; [exact Hc|]. apply (subcard_pitems _ _ Hs).
  cbn [card_pitems]. apply in_or_app. right. left. reflexivity.
Qed.

(* ------------------------------------------------------------------ the module-level theorems *)
Lemma compile_sites M o fs :
  into_ir_stream M (o_recursion_limit o) = inr fs ->
  exists mi irs, main_index (m_functions M) 0 = Some mi /\ fs = swap0 irs mi /\
                 irs_from 0 (tree_functions (with_std std_module M) []) irs.
Proof.
  intros Hi. destruct M as [subs funs imps]. unfold into_ir_stream in Hi. rewrite with_std_eq.
  destruct (ensure_invariants _); [discriminate|].
  destruct (find_index _ funs 0) as [mi|] eqn:Em; [|discriminate].
  destruct (flatten_module _ _ [] [] 0) as [e|[out n]] eqn:Ef; [discriminate|]. injection Hi as <-.
  destruct (flatten_module_spec _ _ _ _ _ _ _ Ef) as (irs & -> & _ & Hirs).
  exists mi, irs. rewrite find_index_main in Em. split; [exact Em|].
  rewrite app_nil_r, rev_involutive. auto.
Qed.

(* The instruction list of a compiled module is laid out, function by function in compile order, item by item
   in compile order, as  quiet* seg quiet* seg ... quiet*  where the segment of a Call card of function st is
   [FunctionPointer (Handle pos) ar; CallFunction] with (pos, ar) = site_target root st name; and the call
   skeleton of the same list is C08_call_resolves's. *)
Theorem compile_call_layout M o B :
  compile M o = COk B ->
  module_names_dotfree (with_std std_module M) = true ->
  exists is mi,
    p_bytecode B = encode is /\
    main_index (m_functions M) 0 = Some mi /\
    Forall2 (site_item_ok (with_std std_module M))
            (flat_map site_items (swap0 (tree_functions (with_std std_module M) []) mi))
            (filter is_call_instr is) /\
    layout (site_seg_ok (with_std std_module M))
           (flat_map site_pitems (swap0 (tree_functions (with_std std_module M) []) mi))
           (map erase is).
Proof.
  intros Hc Hd. destruct (compile_ok_inv _ _ _ Hc) as (fs & s & Hi & Hir & ->).
  destruct (compile_ir_calls _ _ _ Hir) as (s1 & H1 & Hit).
  destruct (compile_ir_layout _ _ _ Hir) as (s1' & H1' & Hlay).
  rewrite H1 in H1'. injection H1' as <-.
  pose proof (compile_table_matches _ _ _ _ _ Hi Hd H1) as Ht.
  pose proof (stage_1_ok_table _ _ _ H1) as Htab.
  destruct (compile_sites M o fs Hi) as (mi & irs & Hm & -> & Hirs).
  exists (rev (cs_code s)), mi. split; [reflexivity|]. split; [exact Hm|].
  unfold module_names_dotfree in Hd. pose proof Hd as Hd'. apply negb_true_iff in Hd'.
  assert (Hsi : Forall2 site_ir (tree_functions (with_std std_module M) []) irs).
  { apply (irs_from_site_ir _ 0); [|exact Hirs].
    intros st Hst. apply (site_path_dotfree _ O [] st Hd' (Forall_nil _) Hst). }
  split.
  - eapply items_to_sites; eauto.
    + intros g. apply in_swap0.
    + apply Forall2_swap0, Hsi.
  - eapply layout_to_sites; eauto.
    + intros g. apply in_swap0.
    + apply Forall2_swap0, Hsi.
Qed.

(* the pair of the k-th item, when that item is a Call card *)
Lemma layout_pair root sites is k st name :
  layout (site_seg_ok root) sites (map erase is) ->
  nth_error sites k = Some (st, PPair name) ->
  exists a b pos arn,
    is = a ++ IFunctionPointer (handle_from_u64 (N.of_nat pos)) (N.of_nat arn mod two32) :: ICallFunction :: b /\
    site_target root st name = Some (pos, arn) /\
    nth_error (flat_map expand sites) (length (filter is_call_instr a)) = Some (st, CPtr name).
Proof.
  intros Hl Hk.
  destruct (layout_nth (site_seg_ok root) pw (site_seg_weight root) _ _ Hl _ _ Hk) as (a & seg & b & He & Hok & Hlen).
  destruct (map_erase_split _ _ _ _ He) as (a' & seg' & b' & -> & <- & Hs & <-).
  unfold site_seg_ok in Hok. cbn [fst snd] in Hok. destruct Hok as (i & (pos & arn & Htg & ->) & ->).
  apply erase_pair in Hs; [|eauto]. subst seg'.
  exists a', b', pos, arn. split; [reflexivity|]. split; [exact Htg|].
  rewrite filter_call_erase in Hlen. rewrite Hlen.
  change (map pw (firstn k sites)) with (map (fun x => length (pitem_items (snd x))) (firstn k sites)).
  erewrite <- (map_ext (fun x => length (expand x))) by (intros x; unfold expand; apply map_length).
  eapply nth_flat_map_hd; [exact Hk | reflexivity].
Qed.

(* C08_call_pair_in_program *)
Theorem compile_call_pair_in_program M o B :
  compile M o = COk B ->
  module_names_dotfree (with_std std_module M) = true ->
  let root := with_std std_module M in
  exists is mi,
    p_bytecode B = encode is /\
    main_index (m_functions M) 0 = Some mi /\
    Forall2 (site_item_ok root) (flat_map site_items (swap0 (tree_functions root []) mi)) (filter is_call_instr is) /\
    (* by occurrence, in compile order *)
    (forall k st name,
       nth_error (flat_map site_pitems (swap0 (tree_functions root []) mi)) k = Some (st, PPair name) ->
       exists a b pos arn,
         is = a ++ IFunctionPointer (handle_from_u64 (N.of_nat pos)) (N.of_nat arn mod two32) :: ICallFunction :: b /\
         site_target root st name = Some (pos, arn) /\
         nth_error (flat_map site_items (swap0 (tree_functions root []) mi)) (length (filter is_call_instr a))
           = Some (st, CPtr name)) /\
    (* for every Call card, at any nesting, of every function of the tree *)
    (forall st c name args,
       In st (tree_functions root []) -> In c (f_cards (fs_fn st)) -> subcard (CCall name args) c ->
       exists a b pos arn,
         is = a ++ IFunctionPointer (handle_from_u64 (N.of_nat pos)) (N.of_nat arn mod two32) :: ICallFunction :: b /\
         site_target root st name = Some (pos, arn) /\
         nth_error (flat_map site_items (swap0 (tree_functions root []) mi)) (length (filter is_call_instr a))
           = Some (st, CPtr name)).
Proof.
  intros Hc Hd root. destruct (compile_call_layout M o B Hc Hd) as (is & mi & Henc & Hmi & HF & Hl).
  fold root in HF, Hl.
  assert (Hocc : forall k st name,
       nth_error (flat_map site_pitems (swap0 (tree_functions root []) mi)) k = Some (st, PPair name) ->
       exists a b pos arn,
         is = a ++ IFunctionPointer (handle_from_u64 (N.of_nat pos)) (N.of_nat arn mod two32) :: ICallFunction :: b /\
         site_target root st name = Some (pos, arn) /\
         nth_error (flat_map site_items (swap0 (tree_functions root []) mi)) (length (filter is_call_instr a))
           = Some (st, CPtr name)).
  { intros k st name Hk. destruct (layout_pair _ _ _ _ _ _ Hl Hk) as (a & b & pos & arn & E1 & E2 & E3).
    rewrite expand_sites in E3. exists a, b, pos, arn. auto. }
  exists is, mi. split; [exact Henc|]. split; [exact Hmi|]. split; [exact HF|]. split; [exact Hocc|].
  intros st c name args Hst Hin Hsub.
  assert (Hp : In (st, PPair name) (flat_map site_pitems (swap0 (tree_functions root []) mi))).
  { apply in_flat_map. exists st. split; [apply in_swap0, Hst|]. unfold site_pitems. apply in_map.
    eapply call_card_pitem; eauto. }
  apply In_nth_error in Hp. destruct Hp as (k & Hk). exact (Hocc k st name Hk).
Qed.
