(* C01, simulation, fragment F4: compile_correct for the while-language over integer / nil globals
   (assignment, IfTrue / IfFalse / IfElse, While, Composite, nested at will). *)
From Coq Require Import List NArith ZArith Bool Lia.
From Cao Require Import ListUtil CheckUtil Bits CardAst Bytecode Compiler CompilerProofs CompilerWf CompilerResolve.
From Cao Require Import Stacks Vm VmProofs C04VmProofs C15Link.
From Cao Require RefSem.
From Cao Require Import C01SimKeep C01SimVm C01SimDefs C01SimComp C01SimRef C01SimF1 C01SimDefs2 C01SimComp2 C01SimRef2 C01SimF2.
From Cao Require Import C01SimDefs3 C01SimF3 C01SimDefs4 C01SimComp4 C01SimRef4.
Import ListNotations.
Local Open Scope N_scope.

Section Run4.
Variable F : fops.
Variable bld : build.
Variable P : program.
Variable T : list (N * N).
Variable names : list str.

Hypothesis T_lt : forall h id, nm_find h T = Some id -> id < two32.
Hypothesis T_inj : forall h1 h2 id, nm_find h1 T = Some id -> nm_find h2 T = Some id -> h1 = h2.
Hypothesis names_inj : handles_inj names = true.
Hypothesis P_small : code_len P < 2147483648.

Notation steps' := (steps F bld P cap calls0 (@nil obj) None (@nil (list tval))).
Notation exec_err' := (exec_err F bld P cap calls0 (@nil obj) None (@nil (list tval))).
Notation seg' := (seg P).
Notation grel' := (grel T names).
Notation sim_res' := (sim_res F bld P T names).

(* from address [start] with globals gv (empty stack) to address [endp], or to a failing read *)
Definition cont_res (start endp : N) (okf : bool) (gr' : gl) (gv : list (option value)) : Prop :=
  gsimple gr' /\
  if okf then exists k gv', steps' k (start, [], gv) (endp, [], gv') /\ grel' gr' gv'
  else exists k c1 nm, steps' k (start, [], gv) c1 /\ exec_err' c1 (EVarNotFound nm) /\ grel' gr' (snd c1).

Lemma sim_cont pre code okf gr' gv : cont_res (bytes pre) (bytes (pre ++ code)) okf gr' gv -> sim_res' pre code okf gr' gv.
Proof. unfold sim_res, cont_res. tauto. Qed.
Lemma sim_to_cont pre code okf gr' gv : sim_res' pre code okf gr' gv -> cont_res (bytes pre) (bytes (pre ++ code)) okf gr' gv.
Proof. unfold sim_res, cont_res. tauto. Qed.

Lemma cont_prepend k a b endp okf gr' gv gv1 :
  steps' k (a, [], gv) (b, [], gv1) -> cont_res b endp okf gr' gv1 -> cont_res a endp okf gr' gv.
Proof.
  intros Hst [Hs H]. split; [exact Hs|]. destruct okf.
  - destruct H as (k2 & gv' & H2 & Hr). exists (k + k2)%nat, gv'. split; [eapply steps_trans; eauto | exact Hr].
  - destruct H as (k2 & c1 & nm & H2 & He & Hr). exists (k + k2)%nat, c1, nm. split; [eapply steps_trans; eauto | auto].
Qed.

Lemma cont_done a gr gv : gsimple gr -> grel' gr gv -> cont_res a a true gr gv.
Proof. intros Hs Hr. split; [exact Hs|]. exists 0%nat, gv. split; [constructor | exact Hr]. Qed.

(* a condition and its conditional jump, with what follows in either direction *)
Lemma branch_sim (jump_if : bool) e pre rest tgt gr gv okf gr' :
  let J := (if jump_if then IGotoIfTrue else IGotoIfFalse) (u32_to_i32 tgt) in
  let whole := code_expr T e ++ J :: rest in
  expr_f1 e = true -> seg' pre whole -> tgt < 2147483648 ->
  (forall x, In x (expr_names e) -> In x names /\ nm_find (handle_of_bytes x) T <> None) ->
  (S (depth e) < cap)%nat -> grel' gr gv -> gsimple gr ->
  match ev gr e with
  | None => (okf, gr') = (false, gr)
  | Some v =>
      cont_res (if Bool.eqb (RefSem.v_bool [] v) jump_if then tgt else bytes pre + bytes (code_expr T e) + 5)
               (bytes (pre ++ whole)) okf gr' gv
  end ->
  sim_res' pre whole okf gr' gv.
Proof.
  intros J whole He Hseg Htgt Hn Hd Hrel Hsimp Hk.
  pose proof (cond_sim F bld P T names T_lt names_inj P_small e pre jump_if tgt rest gr gv He Hseg Htgt Hn Hd Hrel Hsimp) as Hcond.
  apply sim_cont. destruct (ev gr e) as [v|].
  - eapply cont_prepend; [exact Hcond | exact Hk].
  - injection Hk as -> ->. split; [exact Hsimp|]. destruct Hcond as (k & c1 & nm & _ & Hst & Herr & Hg).
    exists k, c1, nm. split; [exact Hst|]. split; [exact Herr|]. rewrite Hg; exact Hrel.
Qed.

Definition stmt_sim4 (n : nat) : Prop :=
  forall c gr okf gr', stmt4 c = true -> run4 n gr c = Some (okf, gr') ->
  forall pre gv,
    seg' pre (code4 T (bytes pre) c) ->
    (forall x, In x (stmt_names2 c) -> In x names /\ nm_find (handle_of_bytes x) T <> None) ->
    (S (stmt_depth2 c) < cap)%nat -> grel' gr gv -> gsimple gr ->
    sim_res' pre (code4 T (bytes pre) c) okf gr' gv.

Lemma cards_sim4 n : stmt_sim4 n ->
  forall cs gr okf gr', forallb stmt4 cs = true -> runs4 n gr cs = Some (okf, gr') ->
  forall pre gv,
    seg' pre (code_main4 T (bytes pre) cs) ->
    (forall x, In x (main_names4 cs) -> In x names /\ nm_find (handle_of_bytes x) T <> None) ->
    (forall c, In c cs -> (S (stmt_depth2 c) < cap)%nat) -> grel' gr gv -> gsimple gr ->
    sim_res' pre (code_main4 T (bytes pre) cs) okf gr' gv.
Proof.
  intros Hn. induction cs as [|c r IH]; intros gr okf gr' Hc Hrun pre gv Hseg Hnames Hd Hrel Hsimp.
  - cbn [runs4] in Hrun. injection Hrun as <- <-. cbn [code_main4]. apply sim_cont. rewrite app_nil_r.
    apply cont_done; assumption.
  - cbn [forallb] in Hc. apply andb_true_iff in Hc. destruct Hc as [Hc Hcr].
    cbn [runs4 code_main4 main_names4 flat_map] in *. cbv zeta in *.
    set (cc := code4 T (bytes pre) c) in *.
    assert (Hnc : forall x, In x (stmt_names2 c) -> In x names /\ nm_find (handle_of_bytes x) T <> None)
      by (intros x Hx; apply Hnames, in_or_app; auto).
    assert (Hnr : forall x, In x (main_names4 r) -> In x names /\ nm_find (handle_of_bytes x) T <> None)
      by (intros x Hx; apply Hnames, in_or_app; auto).
    assert (Eb : bytes (pre ++ cc) = bytes pre + bytes cc) by apply bytes_app.
    destruct (run4 n gr c) as [[[|] g1]|] eqn:E1; try discriminate.
    + pose proof (Hn c gr true g1 Hc E1 pre gv (seg_app_l _ _ _ _ Hseg) Hnc (Hd c (or_introl eq_refl)) Hrel Hsimp) as [Hs1 H1].
      fold cc in H1. destruct H1 as (k1 & gv1 & Hst1 & Hr1).
      pose proof (IH g1 okf gr' Hcr Hrun (pre ++ cc) gv1 ltac:(rewrite Eb; apply seg_app_r; exact Hseg) Hnr
                     (fun c0 H0 => Hd c0 (or_intror H0)) Hr1 Hs1) as H2.
      rewrite Eb in H2. apply sim_cont. apply sim_to_cont in H2. rewrite Eb in H2. rewrite <- app_assoc in H2.
      rewrite Eb in Hst1. eapply cont_prepend; [exact Hst1 | exact H2].
    + injection Hrun as <- <-.
      pose proof (Hn c gr false g1 Hc E1 pre gv (seg_app_l _ _ _ _ Hseg) Hnc (Hd c (or_introl eq_refl)) Hrel Hsimp) as [Hs1 H1].
      split; [exact Hs1|]. exact H1.
Qed.

Lemma sim4 n : stmt_sim4 n.
Proof.
  induction n as [|n IH]; intros c gr okf gr' Hc Hrun pre gv Hseg Hnames Hdepth Hrel Hsimp; [discriminate|].
  destruct c; cbn [stmt4] in Hc; try discriminate Hc.
  - (* CBin *)
    destruct op; try discriminate Hc; apply andb_true_iff in Hc; destruct Hc as [He Hb];
      cbn [run4 code4 stmt_names2 stmt_depth2] in *; cbv zeta in *;
      set (ce := code_expr T c1) in *;
      set (cb := code4 T (bytes pre + bytes ce + 5) c2) in *;
      assert (Hne : forall x, In x (expr_names c1) -> In x names /\ nm_find (handle_of_bytes x) T <> None)
        by (intros x Hx; apply Hnames, in_or_app; auto);
      assert (Hnb : forall x, In x (stmt_names2 c2) -> In x names /\ nm_find (handle_of_bytes x) T <> None)
        by (intros x Hx; apply Hnames, in_or_app; auto).
    + (* IfTrue *)
      set (tgt := bytes pre + bytes ce + 5 + bytes cb) in *.
      set (J := IGotoIfFalse (u32_to_i32 tgt)) in *.
      assert (Hend : bytes (pre ++ ce ++ J :: cb) = tgt).
      { rewrite !bytes_app. cbn [bytes]. change (spanN J) with 5. unfold tgt. lia. }
      assert (Hsmall : tgt < 2147483648) by (pose proof (seg_bound P P_small _ _ Hseg) as Hb'; rewrite Hend in Hb'; lia).
      apply (branch_sim false c1 pre cb tgt gr gv okf gr' He Hseg Hsmall Hne ltac:(lia) Hrel Hsimp).
      fold ce. fold J. rewrite Hend. destruct (ev gr c1) as [v|]; [|injection Hrun as <- <-; reflexivity].
      destruct (RefSem.v_bool [] v); cbn [Bool.eqb].
      * destruct (seg_mid P _ _ _ _ Hseg) as (_ & _ & Sb).
        assert (Hpre' : bytes (pre ++ ce ++ [J]) = bytes pre + bytes ce + 5).
        { rewrite !bytes_app. cbn [bytes]. change (spanN J) with 5. lia. }
        pose proof (IH c2 gr okf gr' Hb Hrun (pre ++ ce ++ [J]) gv ltac:(rewrite Hpre'; exact Sb) Hnb ltac:(lia) Hrel Hsimp) as Hbody.
        rewrite Hpre' in Hbody. fold cb in Hbody. apply sim_to_cont in Hbody. rewrite Hpre' in Hbody.
        rewrite <- !app_assoc in Hbody. cbn [app] in Hbody. rewrite Hend in Hbody. exact Hbody.
      * injection Hrun as <- <-. apply cont_done; assumption.
    + (* IfFalse *)
      set (tgt := bytes pre + bytes ce + 5 + bytes cb) in *.
      set (J := IGotoIfTrue (u32_to_i32 tgt)) in *.
      assert (Hend : bytes (pre ++ ce ++ J :: cb) = tgt).
      { rewrite !bytes_app. cbn [bytes]. change (spanN J) with 5. unfold tgt. lia. }
      assert (Hsmall : tgt < 2147483648) by (pose proof (seg_bound P P_small _ _ Hseg) as Hb'; rewrite Hend in Hb'; lia).
      apply (branch_sim true c1 pre cb tgt gr gv okf gr' He Hseg Hsmall Hne ltac:(lia) Hrel Hsimp).
      fold ce. fold J. rewrite Hend. destruct (ev gr c1) as [v|]; [|injection Hrun as <- <-; reflexivity].
      destruct (RefSem.v_bool [] v); cbn [Bool.eqb].
      * injection Hrun as <- <-. apply cont_done; assumption.
      * destruct (seg_mid P _ _ _ _ Hseg) as (_ & _ & Sb).
        assert (Hpre' : bytes (pre ++ ce ++ [J]) = bytes pre + bytes ce + 5).
        { rewrite !bytes_app. cbn [bytes]. change (spanN J) with 5. lia. }
        pose proof (IH c2 gr okf gr' Hb Hrun (pre ++ ce ++ [J]) gv ltac:(rewrite Hpre'; exact Sb) Hnb ltac:(lia) Hrel Hsimp) as Hbody.
        rewrite Hpre' in Hbody. fold cb in Hbody. apply sim_to_cont in Hbody. rewrite Hpre' in Hbody.
        rewrite <- !app_assoc in Hbody. cbn [app] in Hbody. rewrite Hend in Hbody. exact Hbody.
    + (* While *)
      set (tgt := bytes pre + bytes ce + 5 + (bytes cb + 5)) in *.
      set (J := IGotoIfFalse (u32_to_i32 tgt)) in *.
      set (jg := IGoto (u32_to_i32 (bytes pre))) in *.
      assert (Hend : bytes (pre ++ ce ++ J :: cb ++ [jg]) = tgt).
      { rewrite !bytes_app. cbn [bytes]. rewrite bytes_app. cbn [bytes].
        change (spanN J) with 5. change (spanN jg) with 5. unfold tgt. lia. }
      assert (Hsmall : tgt < 2147483648) by (pose proof (seg_bound P P_small _ _ Hseg) as Hb'; rewrite Hend in Hb'; lia).
      assert (Hpre_small : bytes pre < 2147483648) by (unfold tgt in Hsmall; lia).
      apply (branch_sim false c1 pre (cb ++ [jg]) tgt gr gv okf gr' He Hseg Hsmall Hne ltac:(lia) Hrel Hsimp).
      fold ce. fold J. rewrite Hend. destruct (ev gr c1) as [v|]; [|injection Hrun as <- <-; reflexivity].
      destruct (RefSem.v_bool [] v); cbn [Bool.eqb].
      * destruct (seg_mid P _ _ _ _ Hseg) as (_ & _ & Srest).
        assert (Hpre' : bytes (pre ++ ce ++ [J]) = bytes pre + bytes ce + 5).
        { rewrite !bytes_app. cbn [bytes]. change (spanN J) with 5. lia. }
        destruct (run4 n gr c2) as [[[|] g1]|] eqn:Eb; try discriminate.
        -- (* the body ran: back to the start, the rest of the loop with the fuel left *)
           pose proof (IH c2 gr true g1 Hb Eb (pre ++ ce ++ [J]) gv
                          ltac:(rewrite Hpre'; eapply seg_app_l; exact Srest) Hnb ltac:(lia) Hrel Hsimp) as Hbody.
           rewrite Hpre' in Hbody. fold cb in Hbody. destruct Hbody as [Hs1 (kb & gv1 & Hstb & Hr1)]. rewrite Hpre' in Hstb.
           assert (Hcg : code_at P (bytes ((pre ++ ce ++ [J]) ++ cb)) jg).
           { eapply seg_instr. eapply seg_app_r. exact Srest. }
           pose proof (@ex_goto F bld P cap calls0 [] None [] _ (bytes pre) [] gv1 Hcg Hpre_small) as Hgo.
           pose proof (IH (CBin BWhile c1 c2) g1 okf gr' ltac:(cbn [stmt4]; rewrite He, Hb; reflexivity) Hrun pre gv1
                          Hseg Hnames Hdepth Hr1 Hs1) as Hrest.
           cbn [code4] in Hrest. cbv zeta in Hrest. fold ce cb tgt J jg in Hrest.
           apply sim_to_cont in Hrest. rewrite Hend in Hrest.
           eapply cont_prepend; [exact Hstb|]. eapply cont_prepend; [apply steps_1; exact Hgo | exact Hrest].
        -- injection Hrun as <- <-.
           pose proof (IH c2 gr false g1 Hb Eb (pre ++ ce ++ [J]) gv
                          ltac:(rewrite Hpre'; eapply seg_app_l; exact Srest) Hnb ltac:(lia) Hrel Hsimp) as Hbody.
           rewrite Hpre' in Hbody. destruct Hbody as [Hs1 (kb & c1' & nm & Hstb & Herr & Hr1)]. rewrite Hpre' in Hstb.
           split; [exact Hs1|]. exists kb, c1', nm. auto.
      * injection Hrun as <- <-. apply cont_done; assumption.
  - (* IfElse *)
    destruct op; try discriminate Hc. apply andb_true_iff in Hc. destruct Hc as [Hc Hb].
    apply andb_true_iff in Hc. destruct Hc as [He Ha].
    cbn [run4 code4 stmt_names2 stmt_depth2] in *; cbv zeta in *.
    set (ce := code_expr T c1) in *.
    set (ca := code4 T (bytes pre + bytes ce + 5) c2) in *.
    set (else_at := bytes pre + bytes ce + 5 + bytes ca + 5) in *.
    set (cb := code4 T else_at c3) in *.
    set (jf := IGotoIfFalse (u32_to_i32 else_at)) in *.
    set (jg := IGoto (u32_to_i32 (else_at + bytes cb))) in *.
    assert (Hend : bytes (pre ++ ce ++ jf :: ca ++ jg :: cb) = else_at + bytes cb).
    { rewrite !bytes_app. cbn [bytes]. rewrite bytes_app. cbn [bytes].
      change (spanN jf) with 5. change (spanN jg) with 5. unfold else_at. lia. }
    assert (Hsmall : else_at + bytes cb < 2147483648) by (pose proof (seg_bound P P_small _ _ Hseg) as Hb'; rewrite Hend in Hb'; lia).
    assert (Hne : forall x, In x (expr_names c1) -> In x names /\ nm_find (handle_of_bytes x) T <> None)
      by (intros x Hx; apply Hnames, in_or_app; auto).
    assert (Hna : forall x, In x (stmt_names2 c2) -> In x names /\ nm_find (handle_of_bytes x) T <> None)
      by (intros x Hx; apply Hnames, in_or_app; right; apply in_or_app; auto).
    assert (Hnb : forall x, In x (stmt_names2 c3) -> In x names /\ nm_find (handle_of_bytes x) T <> None)
      by (intros x Hx; apply Hnames, in_or_app; right; apply in_or_app; auto).
    apply (branch_sim false c1 pre (ca ++ jg :: cb) else_at gr gv okf gr' He Hseg ltac:(lia) Hne ltac:(lia) Hrel Hsimp).
    fold ce. fold jf. rewrite Hend. destruct (ev gr c1) as [v|]; [|injection Hrun as <- <-; reflexivity].
    destruct (seg_mid P _ _ _ _ Hseg) as (_ & _ & Srest).
    destruct (seg_mid P _ _ _ _ Srest) as (Sa & Hcg & Sb).
    assert (Hpre1 : bytes (pre ++ ce ++ [jf]) = bytes pre + bytes ce + 5).
    { rewrite !bytes_app. cbn [bytes]. change (spanN jf) with 5. lia. }
    assert (Hpre2 : bytes ((pre ++ ce ++ [jf]) ++ ca ++ [jg]) = else_at).
    { rewrite bytes_app, Hpre1, bytes_app. cbn [bytes]. change (spanN jg) with 5. unfold else_at. lia. }
    destruct (RefSem.v_bool [] v); cbn [Bool.eqb].
    + (* then, and the jump over else *)
      pose proof (IH c2 gr okf gr' Ha Hrun (pre ++ ce ++ [jf]) gv ltac:(rewrite Hpre1; exact Sa) Hna ltac:(lia) Hrel Hsimp) as Hbody.
      rewrite Hpre1 in Hbody. fold ca in Hbody. destruct Hbody as [Hs1 Hbody]. rewrite Hpre1 in Hbody.
      split; [exact Hs1|]. destruct okf.
      * destruct Hbody as (k & gv' & Hst & Hr'). exists (k + 1)%nat, gv'. split; [|exact Hr'].
        eapply steps_trans; [exact Hst|]. apply steps_1.
        apply (@ex_goto F bld P cap calls0 [] None [] _ (else_at + bytes cb) [] gv' Hcg Hsmall).
      * exact Hbody.
    + (* else *)
      pose proof (IH c3 gr okf gr' Hb Hrun ((pre ++ ce ++ [jf]) ++ ca ++ [jg]) gv ltac:(rewrite Hpre2; exact Sb) Hnb ltac:(lia) Hrel Hsimp) as Hbody.
      rewrite Hpre2 in Hbody. fold cb in Hbody. apply sim_to_cont in Hbody. rewrite Hpre2 in Hbody.
      replace (((pre ++ ce ++ [jf]) ++ ca ++ [jg]) ++ cb) with (pre ++ ce ++ jf :: ca ++ jg :: cb) in Hbody
        by (rewrite <- ?app_assoc; cbn [app]; rewrite <- ?app_assoc; cbn [app]; reflexivity).
      rewrite Hend in Hbody. exact Hbody.
  - (* Comment *)
    cbn [run4] in Hrun. injection Hrun as <- <-. cbn [code4]. apply sim_cont. rewrite app_nil_r. apply cont_done; assumption.
  - (* SetGlobalVar *)
    pose proof (stmt_sim_any F bld P T names T_lt T_inj names_inj P_small (CSetGlobalVar name c) pre gr gv Hc Hseg Hnames Hdepth Hrel Hsimp) as H.
    cbn [run4] in Hrun. cbn [run_stmt2] in H. destruct (ev gr c); injection Hrun as <- <-; exact H.
  - (* Composite *)
    rewrite code4_composite in *. rewrite run4_composite in Hrun.
    apply (cards_sim4 n IH cards gr okf gr' Hc Hrun pre gv Hseg Hnames); [|exact Hrel | exact Hsimp].
    intros c0 H0. pose proof (stmt_depth2_composite ty cards c0 H0). lia.
Qed.

End Run4.

(* ------------------------------------------------------------------ the theorem *)
Theorem compile_correct_f4 F bld M B fuel host o :
  in_f4 M = true ->
  depth_ok4 (main_cards M) = true ->
  compile M default_options = COk B ->
  N.of_nat (length (Compiler.p_ids B)) < two32 ->
  N.of_nat (length (Compiler.p_bytecode B)) < 2147483648 ->
  RefSem.eval_program fuel M host = RefSem.PObs o ->
  exists N0 : nat, forall budget : nat, (N0 <= budget)%nat ->
    let r := Vm.run F bld budget (C15Link.to_vm B) fresh_state in
    vm_kind (fst r) = Some (RefSem.ob_kind o) /\
    forall n, no_collision (main_names4 (main_cards M)) n ->
      option_map vm_tree (read_var_by_name (C15Link.to_vm B) (snd r) n) = RefSem.assoc n (RefSem.ob_globals o).
Proof.
  intros HM Hdepth HB Hlen Hsmall Href.
  destruct (compile_f4_shape M B HM HB Hlen) as (rest & Hbc & Hnames & Tinj & Tlt & Hinj).
  destruct (eval_program_f4 fuel M host o HM Href) as (nf & g & Hrun & Hkind & Hgs & Hglob).
  pose proof (in_f4_cards M HM) as Hcards.
  set (T := Compiler.p_ids B) in *. set (cards := main_cards M) in *. set (names := main_names4 cards) in *.
  set (P := C15Link.to_vm B).
  assert (Hcode : p_code P = encode (code_main4 T 0 cards ++ IExit :: rest)) by exact Hbc.
  assert (Psmall : code_len P < 2147483648) by exact Hsmall.
  assert (Hseg : seg P [] (code_main4 T (bytes []) cards)) by (exists (IExit :: rest); exact Hcode).
  assert (Hnm : forall x, In x (main_names4 cards) -> In x names /\ nm_find (handle_of_bytes x) T <> None)
    by (intros x Hx; split; [exact Hx | apply Hnames, Hx]).
  assert (Hrel0 : grel T names [] []).
  { intros x _. unfold gread. cbn [RefSem.assoc option_map].
    destruct (nm_find (handle_of_bytes x) T) as [id|]; [|reflexivity]. destruct (N.to_nat id); reflexivity. }
  assert (Hread : forall s' gv', st_globals s' = gv' -> grel T names g gv' ->
            forall x, no_collision names x ->
            option_map vm_tree (read_var_by_name P (set_calls s' []) x) = RefSem.assoc x (RefSem.ob_globals o)).
  { intros s' gv' Hg' Hrel x Hx. rewrite Hglob, assoc_map_tree, (Hrel x Hx). f_equal.
    unfold read_var_by_name, gread. cbn [st_globals set_calls]. rewrite Hg', assoc_nm_find. reflexivity. }
  assert (Hdep : forall c, In c cards -> (S (stmt_depth2 c) < cap)%nat).
  { intros c Hin. unfold depth_ok4 in Hdepth. rewrite forallb_forall in Hdepth. specialize (Hdepth c Hin).
    apply Nat.ltb_lt in Hdepth. exact Hdepth. }
  pose proof (cards_sim4 F bld P T names nf (sim4 F bld P T names Tlt Tinj Hinj Psmall nf)
                         cards [] _ g Hcards Hrun [] [] Hseg Hnm Hdep Hrel0 (Forall_nil _)) as [_ Hsim].
  change (bytes []) with 0 in Hsim.
  destruct (RefSem.ob_kind o) as [|kk] eqn:Ek.
  - destruct Hsim as (k & gv' & Hsteps & Hrel).
    exists (k + 2)%nat. intros budget Hbud r.
    set (re := run_at F bld P false (N.of_nat budget) 129).
    set (s2 := set_rem (set_calls fresh_state calls0) (N.of_nat budget)).
    assert (Hr : r = finish P (loop F bld P re budget 0 s2)).
    { subst r. unfold run, run_gen.
      change (push_frame fresh_state (mkFrame 0 0 0 None)) with (Some (set_calls fresh_state calls0)).
      change max_depth with (S 129). cbv beta iota zeta. rewrite run_at_S. cbn [st_rem set_rem]. rewrite Nat2N.id. reflexivity. }
    clearbody r. subst r.
    pose proof (St_entry (N.of_nat budget)) as HS2. fold s2 in HS2.
    destruct (loop_steps re Hsteps (budget - k) HS2) as (s' & HS' & El); [cbn [fst snd]; lia|].
    cbn [fst snd] in HS', El. replace (k + (budget - k))%nat with budget in El by lia.
    assert (Hex : code_at P (bytes (code_main4 T 0 cards)) IExit) by (eapply code_at_encode; exact Hcode).
    replace (budget - k)%nat with (S (budget - k - 1)) in El by lia.
    destruct (loop_exit F bld re (budget - k - 1) HS' Hex) as (s'' & Eex & _ & Hg''); [lia|].
    cbn [app] in El. rewrite Eex in El.
    rewrite El. cbn [finish outcome_of fst snd vm_kind]. split; [reflexivity|].
    eapply Hread; eauto.
  - destruct Hkind as [Hk|Hk]; [discriminate|]. injection Hk as ->.
    destruct Hsim as (k & c1 & nm & Hsteps & Herr & Hrel).
    exists (k + 2)%nat. intros budget Hbud r.
    set (re := run_at F bld P false (N.of_nat budget) 129).
    set (s2 := set_rem (set_calls fresh_state calls0) (N.of_nat budget)).
    assert (Hr : r = finish P (loop F bld P re budget 0 s2)).
    { subst r. unfold run, run_gen.
      change (push_frame fresh_state (mkFrame 0 0 0 None)) with (Some (set_calls fresh_state calls0)).
      change max_depth with (S 129). cbv beta iota zeta. rewrite run_at_S. cbn [st_rem set_rem]. rewrite Nat2N.id. reflexivity. }
    clearbody r. subst r.
    pose proof (St_entry (N.of_nat budget)) as HS2. fold s2 in HS2.
    destruct (loop_steps re Hsteps (budget - k) HS2) as (s' & HS' & El); [cbn [fst snd]; lia|].
    cbn [fst snd] in El. replace (k + (budget - k))%nat with budget in El by lia.
    replace (budget - k)%nat with (S (budget - k - 1)) in El by lia.
    destruct (@loop_err F bld P _ _ _ _ _ re (budget - k - 1) c1 _ s' _ Herr HS') as (s'' & Eerr & Hg''); [lia|].
    rewrite Eerr in El.
    rewrite El. cbn [finish outcome_of fst snd vm_kind kind_of_err]. split; [reflexivity|].
    eapply Hread; eauto.
Qed.
