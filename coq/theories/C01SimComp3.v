(* C01, simulation, compiler half for fragment F3w: the code of a While loop (a forward jump patched
   with the address behind the loop, a backward jump to the address the loop starts at). *)
From Coq Require Import List NArith ZArith Bool Lia.
From Cao Require Import ListUtil CheckUtil Bits CardAst Bytecode Compiler CompilerGen CompilerProofs CompilerWf
     CompilerResolve StdlibGen C01SimKeep C01SimDefs C01SimComp C01SimDefs2 C01SimComp2 C01SimDefs3.
Import ListNotations.
Local Open Scope N_scope.

Definition while_tail (e b : card) (z : Z) : M unit :=
  with_sub 0 (process_card e) ;;
  push_sub 1 ;;
  encode_if_then IGotoIfFalse (process_card b ;; push_instr (IGoto z)) ;;
  pop_sub.

Definition code_while (T : list (N * N)) (base : N) (e b : card) (z : Z) : list instr :=
  let ce := code_expr T e in
  let cb := code_stmt2 T (base + bytes ce + 5) b in
  ce ++ IGotoIfFalse (u32_to_i32 (base + bytes ce + 5 + (bytes cb + 5))) :: cb ++ [IGoto z].

Lemma emitsB_while_tail e b z :
  expr_f1 e = true -> stmt_f2 b = true ->
  emitsB (while_tail e b z) (expr_names e ++ stmt_names2 b) (fun T base => code_while T base e b z).
Proof.
  intros He Hb. unfold while_tail. eapply emitsB_ext.
  - apply emitsB_seq; [apply emitsB_with_sub, emits_B, emits_expr, He|].
    apply emitsB_seq; [apply emits_B, emits_nop, keep4_push_sub|].
    apply emitsB_seq.
    { apply (emitsB_if_then IGotoIfFalse); [left; reflexivity|].
      apply emitsB_seq; [apply emitsB_stmt, Hb | apply emits_B, emits_push]. }
    apply emits_B, emits_nop, keep4_pop_sub.
  - intros x Hx. cbn [app] in *. rewrite !app_nil_r. exact Hx.
  - intros T base. unfold code_while. cbv zeta. cbn [app bytes]. rewrite ?N.add_0_r, ?app_nil_r.
    rewrite bytes_app. cbn [bytes]. change (spanN (IGoto z)) with 5. rewrite ?N.add_0_r. reflexivity.
Qed.

Lemma emitsB_top c : top_f3 c = true -> emitsB (process_card c) (stmt_names2 c) (fun T b => code_top3 T b c).
Proof.
  intros Hc.
  destruct c; try (apply emitsB_stmt; exact Hc).
  destruct op; try (apply emitsB_stmt; exact Hc).
  (* While *)
  cbn [top_f3] in Hc. apply andb_true_iff in Hc. destruct Hc as [He Hb].
  intros s s' Hcx E. cbn [process_card] in E.
  apply bind_ok in E. destruct E as ([] & s0 & E0 & E).
  apply bind_ok in E. destruct E as (z & s0' & Ez & E). injection Ez as <- <-.
  change (with_sub 0 (process_card c1) ;; push_sub 1 ;; _) with (while_tail c1 c2 (u32_to_i32 (cs_pc s0))) in E.
  destruct (keep4_card_label _ _ E0) as (k1 & k2 & k3 & k4 & k5 & k6).
  assert (Hcx0 : ctx s0) by (destruct Hcx as (A & B & C); repeat split; congruence).
  destruct (emitsB_while_tail c1 c2 (u32_to_i32 (cs_pc s0)) He Hb _ _ Hcx0 E) as (A & B & C & D).
  split; [exact A|]. split; [destruct B as [B1 B2]; split; [rewrite <- k2; exact B1 | rewrite <- k6; exact B2]|]. split; [exact C|].
  intros T HT. rewrite (D T HT), k1, k5. reflexivity.
Qed.

Lemma emitsB_cards3 cards : forallb top_f3 cards = true -> forall ic,
  emitsB (process_cards cards ic) (main_names3 cards) (fun T b => code_main3 T b cards).
Proof.
  induction cards as [|c r IH]; intros Hc ic; cbn [process_cards].
  - apply emits_B, emits_nop. intros s s' E. injection E as <-. repeat split.
  - cbn [forallb] in Hc. apply andb_true_iff in Hc. destruct Hc as [Hc Hr].
    eapply emitsB_ext.
    + apply emitsB_seq; [apply emits_B, emits_nop, keep4_pop_sub|].
      apply emitsB_seq; [apply emits_B, emits_nop, keep4_push_sub|].
      apply emitsB_seq; [apply emitsB_top, Hc | apply IH, Hr].
    + intros x Hx. exact Hx.
    + intros T b. cbn [code_main3 app bytes]. rewrite ?N.add_0_r. reflexivity.
Qed.

Lemma emitsB_main3 name f :
  f_args f = [] -> forallb top_f3 (f_cards f) = true ->
  emitsB (compile_main (main_ir name f)) (main_names3 (f_cards f)) (fun T b => code_main3 T b (f_cards f) ++ [IExit]).
Proof.
  intros Ha Hc. unfold compile_main, process_function, process_leaf. cbn [main_ir fi_index fi_handle fi_args fi_cards fi_ns fi_imports].
  rewrite Ha. cbn [rev add_locals].
  assert (N1 : forall (m : M unit), (forall s s', m s = ROk tt s' -> keep4 s s') -> emitsB m [] (fun _ _ => []))
    by (intros m H; apply emits_B, emits_nop, H).
  eapply emitsB_ext.
  - apply emitsB_seq; [apply N1; intros s s' E; injection E as <-; repeat split|].
    apply emitsB_seq; [apply N1; intros s s' E; injection E as <-; repeat split|].
    apply emitsB_seq; [apply N1; intros s s' E; injection E as <-; repeat split|].
    apply emitsB_seq.
    { apply emitsB_seq; [apply N1; intros s s' E; injection E as <-; repeat split|].
      apply emitsB_seq; [apply N1; intros s s' E; injection E as <-; repeat split|].
      apply emitsB_cards3, Hc. }
    apply emitsB_seq; [apply N1; intros s s' E; injection E as <-; repeat split|].
    apply emitsB_seq; [apply emits_B, emits_scope_end|].
    apply emitsB_seq; [apply emits_B, emits_nop, keep4_card_label | apply emits_B, emits_push].
  - intros x Hx. cbn [app] in *. rewrite !app_nil_r. exact Hx.
  - intros T b. cbn [app bytes]. rewrite ?N.add_0_r. reflexivity.
Qed.

Lemma in_f3_cards M : in_f3 M = true -> forallb top_f3 (main_cards M) = true.
Proof.
  destruct M as [subs funs imps]. cbn [in_f3].
  destruct subs; [|discriminate]. destruct funs as [|[name f] [|]]; try discriminate.
  destruct imps; [|discriminate]. intros H. apply andb_true_iff in H. apply H.
Qed.

Theorem compile_f3_shape M B :
  in_f3 M = true -> compile M default_options = COk B ->
  N.of_nat (length (p_ids B)) < two32 ->
  exists rest,
    p_bytecode B = encode (code_main3 (p_ids B) 0 (main_cards M) ++ IExit :: rest) /\
    (forall n, In n (main_names3 (main_cards M)) -> nm_find (handle_of_bytes n) (p_ids B) <> None) /\
    (forall h1 h2 id, nm_find h1 (p_ids B) = Some id -> nm_find h2 (p_ids B) = Some id -> h1 = h2) /\
    (forall h id, nm_find h (p_ids B) = Some id -> id < two32) /\
    handles_inj (main_names3 (main_cards M)) = true.
Proof.
  intros HM HB Hlen. destruct M as [subs funs imps]. cbn [in_f3] in HM.
  destruct subs; [|discriminate]. destruct funs as [|[name f] [|]]; try discriminate.
  destruct imps; [|discriminate].
  apply andb_true_iff in HM. destruct HM as [HM Hcards]. apply andb_true_iff in HM. destruct HM as [Hname Hargs].
  apply str_eqb_main in Hname. subst name.
  assert (Ha : f_args f = []) by (destruct (f_args f); [reflexivity | discriminate]).
  cbn [main_cards].
  destruct (compile_ok_inv _ _ _ HB) as (fs & s & Hfs & E & ->).
  change (o_recursion_limit default_options) with 64 in Hfs. rewrite ir_stream_f1 in Hfs. injection Hfs as <-.
  set (fm := main_ir s_main f) in *. revert E. generalize std_firs as std. intros std E.
  cbn [finish p_ids p_bytecode] in *.
  set (s0 := init_state (o_debug default_options)) in *.
  unfold compile_ir in E.
  apply bind_ok in E. destruct E as ([] & s1 & E1 & E).
  apply bind_ok in E. destruct E as ([] & s3 & E23 & E4).
  cbn [stage_2] in E23. apply bind_ok in E23. destruct E23 as ([] & s2 & E2 & E3).
  assert (Eafter : after_main std s2 = ROk tt s).
  { unfold after_main, bind. rewrite E3. exact E4. }
  pose proof (frame3_stage_1 (fm :: std) s0) as F1. rewrite E1 in F1.
  destruct F1 as (c1 & p1 & i1 & n1).
  assert (Hctx1 : ctx s1).
  { destruct (stage_1_ctx _ _ _ E1) as [A B]. split; [rewrite A; reflexivity|]. split; [rewrite B; reflexivity|].
    rewrite p1, c1. reflexivity. }
  destruct (emitsB_main3 s_main f Ha Hcards _ _ Hctx1 E2) as (Hctx2 & Hsub12 & Hnames2 & Hcode2).
  assert (G2 : G [] [] s2).
  { assert (S : sp3 [] [] (stage_1 (fm :: std) ;; compile_main fm) (fun _ => True)).
    { eapply sp3_bind; [apply sp3_frame, frame3_stage_1 | intros _ _; apply sp3_compile_main]. }
    specialize (S s0 (G_init _)). unfold bind in S. rewrite E1, E2 in S. apply S. }
  assert (Gs : G (cs_code s2) (cs_ids s2) s).
  { assert (G2' : G (cs_code s2) (cs_ids s2) s2).
    { apply G_here; [apply (g_pc _ _ _ G2)|]. intros Hl. destruct (g_ids _ _ _ G2 Hl) as [I1 I2 I3 _]. auto. }
    pose proof (sp3_after_main (cs_code s2) (cs_ids s2) std s2 G2') as S. rewrite Eafter in S. apply S. }
  destruct (g_ids _ _ _ Gs Hlen) as [Inv Ilt Iinj Iext].
  destruct (g_code _ _ _ Gs) as [l El].
  assert (Hsub : sub (cs_ids s2) (cs_ids s)) by exact Iext.
  exists (rev l). split; [|split; [|split; [|split]]].
  - f_equal. rewrite El, (Hcode2 _ Hsub), c1, p1. cbn [s0 init_state cs_code cs_pc]. rewrite app_nil_r, rev_app_distr, rev_involutive.
    rewrite <- app_assoc. reflexivity.
  - intros n Hin. pose proof (named_found _ _ (Hnames2 n Hin)) as Hnf.
    destruct (nm_find (handle_of_bytes n) (cs_ids s2)) as [id|] eqn:En; [|congruence].
    rewrite (Hsub _ _ En). discriminate.
  - exact Iinj.
  - intros h id Hf. specialize (Ilt _ _ Hf). rewrite Inv in Ilt. lia.
  - apply (named_inj s2 _ eq_refl Hnames2).
Qed.
