(* C01, simulation, reference half for fragment F10 (F9 plus a call in statement position; the value is dropped).
   Everything about frames, right-hand sides and the call protocol is that of C01SimRef9; the result of a statement
   card may now carry values (those of call statements), which a sequence of cards collects and nobody reads. *)
From Coq Require Import List NArith ZArith Bool Lia.
From Cao Require Import CheckUtil Bits CardAst Table TableProofs StdlibGen RefSem
     C01SimDefs C01SimRef C01SimDefs2 C01SimRef2 C01SimDefs3 C01SimRef3 C01SimDefs4 C01SimDefs5 C01SimRef5
     C01SimDefs6 C01SimRef6 C01SimDefs7 C01SimRef7 C01SimDefs9 C01SimRef9 C01SimDefs10.
Import ListNotations.

(* ------------------------------------------------------------------ the relaxed syntax *)
(* declarations may stand anywhere (as stmtR of F5) *)
Fixpoint stmtR10 (sg : sig9) (ret : bool) (c : card) : bool :=
  match c with
  | CSetGlobalVar g r => negb (is_empty g) && rhs9 sg r
  | CSetVar x r => var_ok x && rhs9 sg r
  | CUn UReturn r => ret && rhs9 sg r
  | CCall name args => rhs9 sg (CCall name args)
  | CBin BIfTrue e b | CBin BIfFalse e b => expr_f1 e && stmtR10 sg ret b
  | CTri TIfElse e a b => expr_f1 e && stmtR10 sg ret a && stmtR10 sg ret b
  | _ => false
  end.

Lemma stmt10_R sg ret Ln c : stmt10 sg ret Ln c = true -> stmtR10 sg ret c = true.
Proof.
  induction c using CompilerWf.card_ind'; cbn [stmt10 stmtR10]; auto; try discriminate.
  - destruct op; try discriminate; intros H; apply andb_true_iff in H; destruct H as [H1 H2]; rewrite H1, (IHc2 H2); reflexivity.
  - destruct op; try discriminate. intros H. apply andb_true_iff in H. destruct H as [H H3].
    apply andb_true_iff in H. destruct H as [H1 H2]. rewrite H1, (IHc2 H2), (IHc3 H3). reflexivity.
  - intros H. apply andb_true_iff in H. destruct H as [H H3]. apply andb_true_iff in H. destruct H as [H1 _].
    rewrite H1, H3. reflexivity.
Qed.
Lemma top10_R sg ret Ln c : top10 sg ret Ln c = true -> stmtR10 sg ret c = true.
Proof. destruct c; cbn [top10]; try apply stmt10_R. auto. Qed.
Lemma cards10_R sg ret cards : forall Ln, cards10 sg ret Ln cards = true -> forallb (stmtR10 sg ret) cards = true.
Proof.
  induction cards as [|c r IH]; intros Ln H; [reflexivity|]. cbn [cards10 forallb] in *.
  apply andb_true_iff in H. destruct H as [H1 H2]. rewrite (top10_R _ _ _ _ H1), (IH _ H2). reflexivity.
Qed.

(* a function that may be called: the first one of that name *)
Lemma sm_find_sem10 name later a : Compiler.sm_find name (sig_of later) = Some a ->
  exists pre2 f2 later2, later = pre2 ++ (name, f2) :: later2 /\ length (f_args f2) = a /\
    (forall vals g, sem10 later name vals g = call10 (sem10 later2) f2 vals g) /\
    Forall (fun nf => fst nf <> name) pre2.
Proof.
  induction later as [|[n f] r IH]; cbn [sig_of map Compiler.sm_find fst snd]; [discriminate|].
  destruct (Compiler.str_eqb name n) eqn:E.
  - intros H. injection H as <-. apply cstr_eqb_true in E. subst n.
    exists [], f, r. split; [reflexivity|]. split; [reflexivity|]. split; [|constructor].
    intros vals g. cbn [sem10]. rewrite cstr_eqb_refl. reflexivity.
  - intros H. destruct (IH H) as (pre2 & f2 & later2 & -> & Ha & Hs & Hf).
    exists ((n, f) :: pre2), f2, later2. split; [reflexivity|]. split; [exact Ha|]. split.
    + intros vals g. cbn [sem10]. change (pre2 ++ (name, f2) :: later2) with (pre2 ++ (name, f2) :: later2). rewrite E. apply Hs.
    + constructor; [|exact Hf]. cbn [fst]. intros ->. rewrite cstr_eqb_refl in E. discriminate.
Qed.

Section Eval10.
Variable funs : list (str * function).
Variable stdl : list fentry.
Variable host : list str.
Variable limit : N.
Hypothesis Hnd : NoDup (map fst funs).
Hypothesis Hok : forall pre n f later, funs = pre ++ (n, f) :: later -> pre <> [] -> fn_ok10 later f = true.

Notation P := (map mk9 funs ++ stdl).
Notation evalf := (eval P host limit).


Definition stmt_res10 (ret : bool) (b : nat) (s : state) (r : res) (out : out9 * lstore * gl) : Prop :=
  r = RFuel \/
  exists s', keep b (st_cells s) (st_cells s') /\ (length (st_cells s) <= length (st_cells s'))%nat /\
             gst s' (snd out) /\
             match fst (fst out) with
             | ONorm9 => exists cs' vs, r = ok vs (en9 (snd (fst out)) cs') s' /\ st9 cs' s' (snd (fst out)) (snd out) /\
                                     Forall (fun c => (b <= c)%nat) cs'
             | ORet9 v => exists e', r = ROk (ORet v) e' s' /\ simple v /\ ret = true
             | OErr9 => exists e', r = err EVarNotFound e' s'
             end.

Lemma nth_P10 pre n f later : funs = pre ++ (n, f) :: later -> nth_error P (length pre) = Some (mk9 (n, f)).
Proof.
  intros H. rewrite H, map_app, <- app_assoc. rewrite nth_error_app2 by (rewrite map_length; lia).
  rewrite map_length, Nat.sub_diag. reflexivity.
Qed.

Definition all10 (fuel : nat) : Prop :=
  (forall pre n f later vs s g, funs = pre ++ (n, f) :: later -> pre <> [] ->
     gst s g -> Forall simple vs -> length vs = length (f_args f) ->
     call_res9 s (evalf fuel (TkCallFn (length pre) vs) s) (call10 (sem10 later) f vs g)) /\
  (forall pre n f later r b cs R s g, funs = pre ++ (n, f) :: later -> rhs9 (sig_of later) r = true ->
     st9 cs s R g -> (b <= length (st_cells s))%nat ->
     rhs_res9 b cs R s (evalf fuel (TkCard (length pre) (en9 R cs) r) s) (run_rhs9 (sem10 later) R g r)) /\
  (forall pre n f later r b cs R s g, funs = pre ++ (n, f) :: later -> rhs9 (sig_of later) r = true ->
     st9 cs s R g -> (b <= length (st_cells s))%nat ->
     rhs_res9 b cs R s (evalf fuel (TkArgs false (length pre) (en9 R cs) [r]) s) (run_rhs9 (sem10 later) R g r)) /\
  (forall pre n f later ret c b cs R s g, funs = pre ++ (n, f) :: later -> stmtR10 (sig_of later) ret c = true ->
     st9 cs s R g -> Forall (fun c => (b <= c)%nat) cs -> (b <= length (st_cells s))%nat ->
     stmt_res10 ret b s (evalf fuel (TkCard (length pre) (en9 R cs) c) s) (run10 (sem10 later) R g c)) /\
  (forall pre n f later ret l b cs R s g, funs = pre ++ (n, f) :: later -> forallb (stmtR10 (sig_of later) ret) l = true ->
     st9 cs s R g -> Forall (fun c => (b <= c)%nat) cs -> (b <= length (st_cells s))%nat ->
     stmt_res10 ret b s (evalf fuel (TkSeq (length pre) (en9 R cs) l) s) (runs10 (sem10 later) R g l)).

(* ---- the five parts, each from the parts at the fuel below ---- *)
Lemma call_step10 f : all10 f ->
  forall pre n fn later vs s g, funs = pre ++ (n, fn) :: later -> pre <> [] ->
     gst s g -> Forall simple vs -> length vs = length (f_args fn) ->
     call_res9 s (evalf (S f) (TkCallFn (length pre) vs) s) (call10 (sem10 later) fn vs g).
Proof.
  intros (_ & _ & _ & _ & IHB) pre n fn later vs s g Hfuns Hpre Hs Hvs Hlen.
  unfold call_res9. cbn [eval]. unfold F. destruct (limit <? st_steps s)%N; [left; reflexivity|].
  rewrite (nth_P10 _ _ _ _ Hfuns). cbn [mk9 fe_fn snd]. unfold call_body.
  rewrite Hlen, Nat.ltb_irrefl. unfold bind_params.
  set (R0 := combine (f_args fn) (rev vs)).
  destruct (bind_params_go R0 [] (bump s)) as (s1 & Eb & Hc1 & Hh1 & Hg1). rewrite Eb. cbn [app].
  cbn [bump st_cells st_heap st_globals] in Hc1, Hh1, Hg1.
  change {| e_scopes := [combine (map fst R0) (seq (length (st_cells (bump s))) (length R0))]; e_up := [] |}
    with (en9 R0 (seq (length (st_cells s)) (length R0))).
  pose proof (Hok _ _ _ _ Hfuns Hpre) as Hfn. unfold fn_ok10 in Hfn.
  apply andb_true_iff in Hfn. destruct Hfn as [_ Hcards]. apply cards10_R in Hcards.
  destruct Hs as (Hh & Hg & Hsg).
  assert (Hs1 : st9 (seq (length (st_cells s)) (length R0)) s1 R0 g).
  { unfold st9. rewrite Hc1, Hh1, Hg1. repeat split; auto.
    - apply cellrel_fresh.
    - apply seq_NoDup.
    - apply simples_app. split; [|exact Hsg]. apply simples_combine. apply Forall_rev, Hvs. }
  assert (Hb : Forall (fun c => (length (st_cells s) <= c)%nat) (seq (length (st_cells s)) (length R0))).
  { apply Forall_forall. intros c Hin. apply in_seq in Hin. lia. }
  assert (Hb2 : (length (st_cells s) <= length (st_cells s1))%nat) by (rewrite Hc1, app_length; lia).
  generalize (IHB pre n fn later true (f_cards fn) (length (st_cells s)) _ R0 s1 g Hfuns Hcards Hs1 Hb Hb2).
  unfold call10. fold R0. destruct (runs10 (sem10 later) R0 g (f_cards fn)) as [[o R1] g1]. cbn [fst snd].
  intros [E|(s2 & Hk & Hl & Hg2 & Hm)]; [rewrite E; left; reflexivity|].
  right. exists s2. rewrite Hc1 in Hk. apply keep_app in Hk. split; [exact Hk|]. split; [lia|].
  destruct o; cbn [fst snd].
  - destruct Hm as (cs' & ws & E & _). rewrite E. cbn [finish_call ok]. split; [exact Hg2|]. split; [reflexivity | exact I].
  - destruct Hm as (e' & E & Hsv & _). rewrite E. cbn [finish_call ok]. split; [exact Hg2|]. split; [reflexivity | exact Hsv].
  - destruct Hm as (e' & E). rewrite E. cbn [finish_call err]. split; [exact Hg2|]. reflexivity.
Qed.

Lemma rhs_card_step10 f : all10 f ->
  forall pre n fn later r b cs R s g, funs = pre ++ (n, fn) :: later -> rhs9 (sig_of later) r = true ->
     st9 cs s R g -> (b <= length (st_cells s))%nat ->
     rhs_res9 b cs R s (evalf (S f) (TkCard (length pre) (en9 R cs) r) s) (run_rhs9 (sem10 later) R g r).
Proof.
  intros (IHC & _) pre n fn later r b cs R s g Hfuns Hr Hs Hb.
  destruct (rhs_cases _ _ Hr) as [(name & args & ->)|[He Hrun]].
  - cbn [rhs9] in Hr. apply andb_true_iff in Hr. destruct Hr as [Hargs Hsig].
    destruct (Compiler.sm_find name (sig_of later)) as [a|] eqn:Esig; [|discriminate].
    apply Nat.eqb_eq in Hsig.
    destruct (sm_find_sem10 _ _ _ Esig) as (pre2 & f2 & later2 & Hlater & Ha & Hsem & _).
    unfold rhs_res9. cbn [eval]. unfold F. destruct (limit <? st_steps s)%N; [left; reflexivity|].
    cbn [eval_card].
    pose proof (eval_args9 funs stdl host limit (length pre) args Hargs f (bump s) cs R g (st9_bump _ _ _ _ Hs))
      as [E|[(vs & s1 & E & Hv & Hs1 & Hc1)|(s1 & E & Hv & Hs1 & Hc1)]]; cbv zeta in E; rewrite E; cbn [bnd ok err].
    + left; reflexivity.
    + assert (Hfuns2 : funs = (pre ++ (n, fn) :: pre2) ++ (name, f2) :: later2)
        by (rewrite Hfuns, Hlater, <- app_assoc; reflexivity).
      assert (Hres : resolve P (length pre) name = Some (length (pre ++ (n, fn) :: pre2))).
      { rewrite Hfuns, Hlater. apply resolve_f9. rewrite <- Hlater, <- Hfuns. exact Hnd. }
      rewrite Hres.
      assert (Hsim : simples (R ++ g)) by (destruct Hs as (_ & _ & _ & _ & Hsim); exact Hsim).
      destruct (evs_simple9 _ _ _ Hsim Hv) as [Hvs Hlen].
      assert (Hpre2 : pre ++ (n, fn) :: pre2 <> []) by (destruct pre; discriminate).
      assert (Hlen2 : length vs = length (f_args f2)) by congruence.
      generalize (IHC _ name f2 later2 vs s1 g Hfuns2 Hpre2 (st9_gst _ _ _ _ Hs1) Hvs Hlen2).
      cbn [run_rhs9]. rewrite evs9_eq, Hv, Hsem.
      destruct (call10 (sem10 later2) f2 vs g) as [[v|] g2]; cbn [fst snd];
        (intros [E2|(s2 & Hk & Hl & Hg2 & Hm)]; [rewrite E2; left; reflexivity|]);
        pose proof (st9_keep _ _ _ _ _ _ Hs1 Hk Hg2) as Hs2;
        rewrite Hc1 in Hk, Hl; cbn [bump st_cells] in Hk, Hl.
      * destruct Hm as [E2 Hsv]. rewrite E2. cbn [bnd ok]. right. exists s2.
        split; [eapply keep_le; [exact Hb | exact Hk]|]. split; [exact Hl|]. split; [exact Hs2|].
        split; [reflexivity | exact Hsv].
      * rewrite Hm. cbn [bnd err]. right. exists s2.
        split; [eapply keep_le; [exact Hb | exact Hk]|]. split; [exact Hl|]. split; [exact Hs2|].
        exists empty_env. reflexivity.
    + cbn [run_rhs9]. rewrite evs9_eq, Hv. cbn [fst snd]. right. exists s1. rewrite Hc1. cbn [bump st_cells].
      split; [apply keep_refl|]. split; [apply le_n|]. split; [exact Hs1|]. exists (en9 R cs). reflexivity.
  - rewrite Hrun. unfold rhs_res9. cbn [fst snd].
    assert (Hsim : simples (R ++ g)) by (destruct Hs as (_ & _ & _ & _ & Hsim); exact Hsim).
    pose proof (expr_f1_good6 P host limit (length pre) r He (S f) s (en9 R cs) (st_cells s) R g (st9_st6 _ _ _ _ Hs))
      as [E|[(v & s1 & E & Hv & Hs1)|(s1 & E & Hv & Hs1)]].
    + left; exact E.
    + destruct (st6_st9 _ _ _ _ _ Hs Hs1) as [Hs1' Hc1]. right. exists s1. rewrite Hc1.
      split; [apply keep_refl|]. split; [apply le_n|]. split; [exact Hs1'|]. rewrite Hv.
      split; [exact E|]. eapply ev_simple; [exact Hsim | exact Hv].
    + destruct (st6_st9 _ _ _ _ _ Hs Hs1) as [Hs1' Hc1]. right. exists s1. rewrite Hc1.
      split; [apply keep_refl|]. split; [apply le_n|]. split; [exact Hs1'|]. rewrite Hv.
      exists (en9 R cs). exact E.
Qed.

Lemma rhs_arg_step10 f : all10 f ->
  forall pre n fn later r b cs R s g, funs = pre ++ (n, fn) :: later -> rhs9 (sig_of later) r = true ->
     st9 cs s R g -> (b <= length (st_cells s))%nat ->
     rhs_res9 b cs R s (evalf (S f) (TkArgs false (length pre) (en9 R cs) [r]) s) (run_rhs9 (sem10 later) R g r).
Proof.
  intros (_ & IHE & _) pre n fn later r b cs R s g Hfuns Hr Hs Hb.
  unfold rhs_res9. cbn [eval]. unfold F. destruct (limit <? st_steps s)%N; [left; reflexivity|].
  generalize (IHE pre n fn later r b cs R (bump s) g Hfuns Hr (st9_bump _ _ _ _ Hs) Hb).
  destruct (run_rhs9 (sem10 later) R g r) as [[v|] g1]; cbn [fst snd];
    (intros [E|(s1 & Hk & Hl & Hs1 & Hm)]; [rewrite E; left; reflexivity|]).
  - destruct Hm as [E Hsv]. rewrite E. cbn [bnd ok]. clear E.
    destruct f as [|f']; [left; reflexivity|]. cbn [eval]. unfold F.
    destruct (limit <? st_steps s1)%N; [left; reflexivity|].
    cbn [bnd ok]. right. exists (bump s1). cbn [bump st_cells]. split; [exact Hk|]. split; [exact Hl|].
    split; [apply st9_bump, Hs1|]. split; [reflexivity | exact Hsv].
  - destruct Hm as [e' E]. rewrite E. cbn [bnd err]. right. exists s1. split; [exact Hk|]. split; [exact Hl|].
    split; [exact Hs1|]. exists e'. reflexivity.
Qed.

Lemma stmt_res10_cells ret b s s1 r out : st_cells s1 = st_cells s -> stmt_res10 ret b s1 r out -> stmt_res10 ret b s r out.
Proof. unfold stmt_res10. intros ->. auto. Qed.
Lemma stay_norm10 ret b s s1 cs R g : st_cells s1 = st_cells s -> st9 cs s1 R g -> Forall (fun c => (b <= c)%nat) cs ->
  stmt_res10 ret b s (ok [] (en9 R cs) s1) (ONorm9, R, g).
Proof.
  intros Hc Hs Hcs. right. exists s1. rewrite Hc. cbn [fst snd]. split; [apply keep_refl|]. split; [apply le_n|].
  split; [eapply st9_gst, Hs|]. exists cs, []. auto.
Qed.
Lemma stay_err10 ret b s s1 cs R g e' R' : st_cells s1 = st_cells s -> st9 cs s1 R g ->
  stmt_res10 ret b s (err EVarNotFound e' s1) (OErr9, R', g).
Proof.
  intros Hc Hs. right. exists s1. rewrite Hc. cbn [fst snd]. split; [apply keep_refl|]. split; [apply le_n|].
  split; [eapply st9_gst, Hs|]. exists e'. reflexivity.
Qed.

Lemma stmt_step10 f : all10 f ->
  forall pre n fn later ret c b cs R s g, funs = pre ++ (n, fn) :: later -> stmtR10 (sig_of later) ret c = true ->
     st9 cs s R g -> Forall (fun c => (b <= c)%nat) cs -> (b <= length (st_cells s))%nat ->
     stmt_res10 ret b s (evalf (S f) (TkCard (length pre) (en9 R cs) c) s) (run10 (sem10 later) R g c).
Proof.
  intros Hall. pose proof (rhs_card_step10 f Hall) as IHC0. destruct Hall as (_ & _ & IHD & IHA & _).
  intros pre n fn later ret c b cs R s g Hfuns Hc Hs Hcs Hb.
  pose proof (st9_bump _ _ _ _ Hs) as Hbs.
  destruct c; cbn [stmtR10] in Hc; try discriminate Hc.
  - (* CBin *)
    destruct op; try discriminate Hc; apply andb_true_iff in Hc; destruct Hc as [He Hbd];
      cbn [eval]; unfold F; (destruct (limit <? st_steps s)%N; [left; reflexivity|]); cbn [eval_card run10];
      (pose proof (eval_cond9 funs stdl host limit (length pre) _ He f (bump s) cs R g Hbs)
         as [E|[(v & s1 & E & Hv & Hsv & Hs1 & Hc1)|(s1 & E & Hv & Hs1 & Hc1)]]; cbv zeta in E; rewrite E; cbn [bnd ok err one];
       [left; reflexivity | | rewrite Hv; eapply stay_err10; [exact Hc1 | exact Hs1]]);
      rewrite Hv, (v_bool_simple _ _ Hsv); destruct (v_bool [] v); cbv iota.
    + eapply stmt_res10_cells; [exact Hc1|]. apply (IHA pre n fn later ret c2 b cs R s1 g Hfuns Hbd Hs1 Hcs). rewrite Hc1. exact Hb.
    + eapply stay_norm10; [exact Hc1 | exact Hs1 | exact Hcs].
    + eapply stay_norm10; [exact Hc1 | exact Hs1 | exact Hcs].
    + eapply stmt_res10_cells; [exact Hc1|]. apply (IHA pre n fn later ret c2 b cs R s1 g Hfuns Hbd Hs1 Hcs). rewrite Hc1. exact Hb.
  - (* CUn UReturn *)
    destruct op; try discriminate Hc. apply andb_true_iff in Hc. destruct Hc as [Hret Hr].
    cbn [eval]; unfold F; (destruct (limit <? st_steps s)%N; [left; reflexivity|]); cbn [eval_card run10].
    generalize (IHD pre n fn later c b cs R (bump s) g Hfuns Hr Hbs Hb). unfold rhs_res9.
    destruct (run_rhs9 (sem10 later) R g c) as [[v|] g1]; cbn [fst snd];
      (intros [E|(s1 & Hk & Hl & Hs1 & Hm)]; [rewrite E; left; reflexivity|]).
    + destruct Hm as [E Hsv]. rewrite E. cbn [bnd ok one]. right. exists s1. cbn [fst snd].
      split; [exact Hk|]. split; [exact Hl|]. split; [eapply st9_gst, Hs1|]. exists (en9 R cs). auto.
    + destruct Hm as [e' E]. rewrite E. cbn [bnd err]. right. exists s1. cbn [fst snd].
      split; [exact Hk|]. split; [exact Hl|]. split; [eapply st9_gst, Hs1|]. exists e'. reflexivity.
  - (* CTri *)
    destruct op; try discriminate Hc. apply andb_true_iff in Hc. destruct Hc as [Hc Hb3].
    apply andb_true_iff in Hc. destruct Hc as [He Hb2].
    cbn [eval]; unfold F; (destruct (limit <? st_steps s)%N; [left; reflexivity|]); cbn [eval_card run10].
    pose proof (eval_cond9 funs stdl host limit (length pre) _ He f (bump s) cs R g Hbs)
      as [E|[(v & s1 & E & Hv & Hsv & Hs1 & Hc1)|(s1 & E & Hv & Hs1 & Hc1)]]; cbv zeta in E; rewrite E; cbn [bnd ok err one];
      [left; reflexivity | | rewrite Hv; eapply stay_err10; [exact Hc1 | exact Hs1]].
    rewrite Hv, (v_bool_simple _ _ Hsv); destruct (v_bool [] v); cbv iota.
    + eapply stmt_res10_cells; [exact Hc1|]. apply (IHA pre n fn later ret c2 b cs R s1 g Hfuns Hb2 Hs1 Hcs). rewrite Hc1. exact Hb.
    + eapply stmt_res10_cells; [exact Hc1|]. apply (IHA pre n fn later ret c3 b cs R s1 g Hfuns Hb3 Hs1 Hcs). rewrite Hc1. exact Hb.
  - (* Call as a statement: the value is dropped *)
    generalize (IHC0 pre n fn later (CCall name args) b cs R s g Hfuns Hc Hs Hb). unfold rhs_res9.
    cbn [run10].
    destruct (run_rhs9 (sem10 later) R g (CCall name args)) as [[v|] g1]; cbn [fst snd];
      (intros [E|(s1 & Hk & Hl & Hs1 & Hm)]; [left; exact E|]).
    + destruct Hm as [E Hsv]. right. exists s1. cbn [fst snd].
      split; [exact Hk|]. split; [exact Hl|]. split; [eapply st9_gst, Hs1|]. exists cs, [v]. auto.
    + destruct Hm as [e' E]. right. exists s1. cbn [fst snd].
      split; [exact Hk|]. split; [exact Hl|]. split; [eapply st9_gst, Hs1|]. exists e'. exact E.
  - (* SetGlobalVar *)
    apply andb_true_iff in Hc. destruct Hc as [Hne Hr]. apply negb_true_iff in Hne.
    assert (Hne' : is_empty name = false) by (destruct name; [discriminate Hne | reflexivity]).
    cbn [eval]; unfold F; (destruct (limit <? st_steps s)%N; [left; reflexivity|]); cbn [eval_card run10].
    generalize (IHD pre n fn later c b cs R (bump s) g Hfuns Hr Hbs Hb). unfold rhs_res9.
    destruct (run_rhs9 (sem10 later) R g c) as [[v|] g1]; cbn [fst snd];
      (intros [E|(s1 & Hk & Hl & Hs1 & Hm)]; [rewrite E; left; reflexivity|]).
    + destruct Hm as [E Hsv]. rewrite E. cbn [bnd ok one]. rewrite Hne'.
      assert (Hs2 : st9 cs (set_globals (set_assoc name v (st_globals s1)) s1) R (set_assoc name v g1)).
      { destruct Hs1 as (A & B & C & D & E'). apply simples_app in E'. destruct E' as [E1 E2].
        unfold st9. cbn [set_globals st_heap st_globals st_cells]. rewrite B.
        split; [exact A|]. split; [reflexivity|]. split; [exact C|]. split; [exact D|].
        apply simples_app. split; [exact E1 | apply set_assoc_simple; assumption]. }
      right. exists (set_globals (set_assoc name v (st_globals s1)) s1). cbn [fst snd].
      split; [exact Hk|]. split; [exact Hl|]. split; [eapply st9_gst, Hs2|].
      exists cs, []. split; [reflexivity|]. split; [exact Hs2 | exact Hcs].
    + destruct Hm as [e' E]. rewrite E. cbn [bnd err]. right. exists s1. cbn [fst snd].
      split; [exact Hk|]. split; [exact Hl|]. split; [eapply st9_gst, Hs1|]. exists e'. reflexivity.
  - (* SetVar *)
    apply andb_true_iff in Hc. destruct Hc as [Hx Hr].
    unfold var_ok in Hx. apply andb_true_iff in Hx. destruct Hx as [Hne Hdot]. apply negb_true_iff in Hne, Hdot.
    assert (Hne' : is_empty name = false) by (destruct name; [discriminate Hne | reflexivity]).
    cbn [eval]; unfold F; (destruct (limit <? st_steps s)%N; [left; reflexivity|]); cbn [eval_card run10].
    generalize (IHD pre n fn later c b cs R (bump s) g Hfuns Hr Hbs Hb). unfold rhs_res9.
    destruct (run_rhs9 (sem10 later) R g c) as [[v|] g1]; cbn [fst snd];
      (intros [E|(s1 & Hk & Hl & Hs1 & Hm)]; [rewrite E; left; reflexivity|]).
    + destruct Hm as [E Hsv]. rewrite E. cbn [bnd ok one]. rewrite (rsplit_no_dot _ Hdot), Hne', lookup_en9.
      cbn [bump st_cells] in Hk, Hl, Hb.
      destruct Hs1 as (A & B & C & D & E'). pose proof (cellrel_lookup _ _ _ C name) as Hlk.
      pose proof E' as E''. apply simples_app in E''. destruct E'' as [E1 E2].
      unfold sets_local. rewrite lmem_assoc.
      destruct (assoc name R) as [old|] eqn:Ea.
      * destruct Hlk as (c0 & Hl1 & Hl2). rewrite Hl1.
        assert (Hin : In c0 cs) by (eapply assoc_combine_in; eauto).
        assert (Hbc : (b <= c0)%nat) by (rewrite Forall_forall in Hcs; apply Hcs, Hin).
        assert (Hs2 : st9 cs (set_cells (upd (st_cells s1) c0 v) s1) (set_assoc name v R) g1).
        { unfold st9. cbn [set_cells st_heap st_globals st_cells].
          split; [exact A|]. split; [exact B|]. split; [eapply cellrel_assign; eauto|]. split; [exact D|].
          apply simples_app. split; [apply set_assoc_simple; assumption | exact E2]. }
        right. exists (set_cells (upd (st_cells s1) c0 v) s1). cbn [fst snd set_cells st_cells].
        split; [intros i Hi; rewrite nth_error_upd_other7 by lia; apply Hk, Hi|].
        split; [rewrite upd_len9; exact Hl|]. split; [eapply st9_gst, Hs2|].
        exists cs, []. split; [unfold en9; rewrite (set_assoc_names9 _ v _ _ Ea); reflexivity|].
        split; [exact Hs2 | exact Hcs].
      * rewrite Hlk. unfold declare, alloc_cell. cbn [en9 e_scopes e_up].
        assert (Hs2 : st9 (length (st_cells s1) :: cs) (set_cells (st_cells s1 ++ [v]) s1) ((name, v) :: R) g1).
        { unfold st9. cbn [set_cells st_heap st_globals st_cells].
          split; [exact A|]. split; [exact B|]. split; [|split].
          - constructor; [|apply cellrel_app, C]. unfold cellrel. cbn [snd]. rewrite nth_error_app2 by lia.
            rewrite Nat.sub_diag. reflexivity.
          - constructor; [|exact D]. intros Hin. pose proof (cellrel_bound _ _ _ C _ Hin). lia.
          - cbn [app]. constructor; [exact Hsv | exact E']. }
        right. exists (set_cells (st_cells s1 ++ [v]) s1). cbn [fst snd set_cells st_cells].
        split; [intros i Hi; rewrite nth_error_app1 by lia; apply Hk, Hi|].
        split; [rewrite app_length; cbn [length]; lia|]. split; [eapply st9_gst, Hs2|].
        exists (length (st_cells s1) :: cs), []. split; [reflexivity|]. split; [exact Hs2|].
        constructor; [lia | exact Hcs].
    + destruct Hm as [e' E]. rewrite E. cbn [bnd err]. right. exists s1. cbn [fst snd].
      split; [exact Hk|]. split; [exact Hl|]. split; [eapply st9_gst, Hs1|]. exists e'. reflexivity.
Qed.

Lemma seq_step10 f : all10 f ->
  forall pre n fn later ret l b cs R s g, funs = pre ++ (n, fn) :: later -> forallb (stmtR10 (sig_of later) ret) l = true ->
     st9 cs s R g -> Forall (fun c => (b <= c)%nat) cs -> (b <= length (st_cells s))%nat ->
     stmt_res10 ret b s (evalf (S f) (TkSeq (length pre) (en9 R cs) l) s) (runs10 (sem10 later) R g l).
Proof.
  intros (_ & _ & _ & IHA & IHB) pre n fn later ret l b cs R s g Hfuns Hl Hs Hcs Hb.
  pose proof (st9_bump _ _ _ _ Hs) as Hbs.
  cbn [eval]. unfold F. destruct (limit <? st_steps s)%N; [left; reflexivity|].
  destruct l as [|c r].
  - cbn [runs10]. eapply stay_norm10; [reflexivity | exact Hbs | exact Hcs].
  - cbn [forallb] in Hl. apply andb_true_iff in Hl. destruct Hl as [Hc Hr]. cbn [runs10].
    generalize (IHA pre n fn later ret c b cs R (bump s) g Hfuns Hc Hbs Hcs Hb). unfold stmt_res10.
    destruct (run10 (sem10 later) R g c) as [[o R1] g1]. cbn [fst snd].
    intros [E|(s1 & Hk & Hl1 & Hg1 & Hm)]; [rewrite E; left; reflexivity|].
    cbn [bump st_cells] in Hk, Hl1.
    destruct o.
    + destruct Hm as (cs1 & ws1 & E & Hs1 & Hcs1). rewrite E. cbn [bnd ok].
      assert (Hb1 : (b <= length (st_cells s1))%nat) by lia.
      generalize (IHB pre n fn later ret r b cs1 R1 s1 g1 Hfuns Hr Hs1 Hcs1 Hb1). unfold stmt_res10.
      destruct (runs10 (sem10 later) R1 g1 r) as [[o2 R2] g2]. cbn [fst snd].
      intros [E2|(s2 & Hk2 & Hl2 & Hg2 & Hm2)]; [rewrite E2; left; reflexivity|].
      right. exists s2. split; [eapply keep_trans; [exact Hk | exact Hk2]|]. split; [lia|]. split; [exact Hg2|].
      destruct o2.
      * destruct Hm2 as (cs2 & ws2 & E2 & Hs2 & Hcs2). rewrite E2. cbn [bnd ok]. exists cs2, (ws1 ++ ws2). auto.
      * destruct Hm2 as (e' & E2 & Hsv & Hret). rewrite E2. cbn [bnd]. exists e'. auto.
      * destruct Hm2 as (e' & E2). rewrite E2. cbn [bnd err]. exists e'. reflexivity.
    + destruct Hm as (e' & E & Hsv & Hret). rewrite E. cbn [bnd]. right. exists s1.
      split; [exact Hk|]. split; [exact Hl1|]. split; [exact Hg1|]. exists e'. auto.
    + destruct Hm as (e' & E). rewrite E. cbn [bnd err]. right. exists s1.
      split; [exact Hk|]. split; [exact Hl1|]. split; [exact Hg1|]. exists e'. reflexivity.
Qed.

Lemma eval10 fuel : all10 fuel.
Proof.
  induction fuel as [|f IH].
  - unfold all10. repeat split; intros; left; reflexivity.
  - split; [exact (call_step10 f IH)|]. split; [exact (rhs_card_step10 f IH)|]. split; [exact (rhs_arg_step10 f IH)|].
    split; [exact (stmt_step10 f IH) | exact (seq_step10 f IH)].
Qed.
End Eval10.

(* ------------------------------------------------------------------ the program *)
Lemma fns_ok10_split others : fns_ok10 others = true ->
  forall pre n f later, others = pre ++ (n, f) :: later -> fn_ok10 later f = true.
Proof.
  intros H pre. revert others H. induction pre as [|[m h] pre IH]; intros others H n f later ->;
    cbn [app fns_ok10] in H; apply andb_true_iff in H; destruct H as [H1 H2].
  - exact H1.
  - eapply IH; [exact H2 | reflexivity].
Qed.

Theorem eval_program_f10 fuel M host o :
  in_f10 M = true -> eval_program fuel M host = PObs o ->
  exists g, run_main10 M = (match ob_kind o with KOk => true | _ => false end, g) /\
            (ob_kind o = KOk \/ ob_kind o = KErr EVarNotFound) /\
            simples g /\
            ob_globals o = map (fun nv => (fst nv, vm_tree (to_vm (snd nv)))) g.
Proof.
  intros HM. destruct M as [subs funs imps]. cbn [in_f10] in HM.
  destruct subs; [|discriminate]. destruct funs as [|[name f] others]; [discriminate|].
  destruct imps; [|discriminate].
  apply andb_true_iff in HM. destruct HM as [HM Hfns]. apply andb_true_iff in HM. destruct HM as [HM Hcards].
  apply andb_true_iff in HM. destruct HM as [HM Hnd]. apply andb_true_iff in HM. destruct HM as [Hname _].
  apply str_eqb_main in Hname. subst name. apply cards10_R in Hcards. apply snodup_NoDup in Hnd.
  destruct flatten_std_some as [stdl Hstd].
  unfold eval_program, program_of, add_std. cbn [app].
  change 64%nat with (S 63). rewrite (flatten_f9 63 _ stdl Hstd).
  rewrite find_main9.
  change (nth_error (map mk9 ((s_main, f) :: others) ++ stdl) 0) with (Some (mk9 (s_main, f))). cbv iota.
  cbn [mk9 fe_fn snd]. unfold run_main10. cbn [main_fn other_fns].
  change {| e_scopes := [[]]; e_up := [] |} with (en9 [] []).
  intros H.
  assert (Hnd' : NoDup (map fst ((s_main, f) :: others))) by exact Hnd.
  assert (Hok' : forall pre n f0 later, (s_main, f) :: others = pre ++ (n, f0) :: later -> pre <> [] -> fn_ok10 later f0 = true).
  { intros [|x pre] n f0 later Heq Hpre; [congruence|]. cbn [app] in Heq. injection Heq as _ Heq.
    eapply fns_ok10_split; eauto. }
  destruct (eval10 _ stdl host (step_limit fuel) Hnd' Hok' fuel) as (_ & _ & _ & _ & HB).
  assert (Hst : st9 [] init_state [] []).
  { unfold st9. cbn. repeat split; constructor. }
  pose proof (HB [] s_main f others false (f_cards f) 0%nat [] [] init_state [] eq_refl Hcards Hst (Forall_nil _) (Nat.le_0_l _)) as HB'.
  cbn [length] in HB'. unfold stmt_res10 in HB'. revert HB'.
  destruct (runs10 (sem10 others) [] [] (f_cards f)) as [[o1 R1] g1]. cbn [fst snd].
  intros [E|(s1 & Hk & Hl & Hg & Hm)]; [rewrite E in H; discriminate H|].
  destruct Hg as (Hh & Hgl & Hsg).
  assert (Hobs : map (fun nv => (fst nv, to_tree tree_depth (st_heap s1) (snd nv))) (st_globals s1) =
                 map (fun nv => (fst nv, vm_tree (to_vm (snd nv)))) g1).
  { rewrite Hh, Hgl. apply map_ext_in. intros [x v] Hin.
    unfold simples in Hsg. rewrite Forall_forall in Hsg. pose proof (Hsg _ Hin) as Hv. cbn [snd] in Hv.
    destruct v; try contradiction; reflexivity. }
  destruct o1.
  - destruct Hm as (cs' & ws & E & _). rewrite E in H. cbn [ok] in H. injection H as <-. exists g1.
    cbn [ob_kind ob_globals observe]. auto.
  - destruct Hm as (e' & _ & _ & Hret). discriminate Hret.
  - destruct Hm as (e' & E). rewrite E in H. cbn [err] in H. injection H as <-. exists g1.
    cbn [ob_kind ob_globals observe]. auto.
Qed.
