(* C01, simulation, compiler half (1): what the rest of a compilation leaves alone.

   Fix a point of a compilation: the instructions emitted so far ([old], newest first) and the
   variable-id table at that point ([ids0]).  Whatever is compiled afterwards (any cards, any
   functions - in particular the standard library that every program drags along)
     - keeps [old] as the oldest part of the instruction buffer (back-patching only ever touches
       jumps recorded later),
     - keeps every entry of [ids0], and the id table stays injective with ids below next_var
       (as long as fewer than 2^32 ids exist: next_var is a wrapping u32).
   Same shape as CompilerOk.sp2, with another invariant. *)
From Coq Require Import List NArith ZArith Bool Lia.
From Cao Require Import ListUtil CheckUtil Bits CardAst Bytecode Compiler CompilerGen CompilerProofs CompilerWf
     CompilerResolve.
Import ListNotations.
Local Open Scope N_scope.

Section Keep.
Variable old : list instr.
Variable ids0 : list (N * N).

Record ids_ok (s : cstate) : Prop := {
  io_nv : cs_next_var s = N.of_nat (length (cs_ids s));
  io_lt : forall h id, nm_find h (cs_ids s) = Some id -> id < cs_next_var s;
  io_inj : forall h1 h2 id, nm_find h1 (cs_ids s) = Some id -> nm_find h2 (cs_ids s) = Some id -> h1 = h2;
  io_ext : forall h id, nm_find h ids0 = Some id -> nm_find h (cs_ids s) = Some id
}.

Record G (s : cstate) : Prop := {
  g_code : exists l, cs_code s = l ++ old;
  g_pc : cs_pc s = bytes (cs_code s);
  g_len : (length ids0 <= length (cs_ids s))%nat;
  g_ids : N.of_nat (length (cs_ids s)) < two32 -> ids_ok s
}.

Definition sp3 {A} (m : M A) (Q : A -> Prop) : Prop :=
  forall s, G s -> match m s with ROk a s' => G s' /\ (length (cs_ids s) <= length (cs_ids s'))%nat /\ Q a | _ => True end.

Lemma sp3_ret {A} (a : A) (Q : A -> Prop) : Q a -> sp3 (ret a) Q.
Proof. intros H s HG. cbn. auto. Qed.
Lemma sp3_ret_T {A} (a : A) : sp3 (ret a) (fun _ => True).
Proof. apply sp3_ret. exact I. Qed.

Lemma sp3_bind {A B} (m : M A) (f : A -> M B) Q R :
  sp3 m Q -> (forall a, Q a -> sp3 (f a) R) -> sp3 (bind m f) R.
Proof.
  intros Hm Hf s HG. unfold bind. specialize (Hm s HG). destruct (m s) as [a s1| | |]; auto.
  destruct Hm as (HG1 & Hl1 & Hq). specialize (Hf a Hq s1 HG1). destruct (f a s1) as [b s2| | |]; auto.
  destruct Hf as (HG2 & Hl2 & Hr). split; [exact HG2 | split; [lia | exact Hr]].
Qed.

Lemma sp3_weaken {A} (m : M A) (Q R : A -> Prop) : (forall a, Q a -> R a) -> sp3 m Q -> sp3 m R.
Proof.
  intros H Hm s HG. specialize (Hm s HG). destruct (m s); auto. destruct Hm as (? & ? & ?); auto.
Qed.
Lemma sp3_unit {A} (m : M A) (Q : A -> Prop) : sp3 m Q -> sp3 m (fun _ => True).
Proof. apply sp3_weaken. auto. Qed.

(* ---- operations that leave code and variables alone ---- *)
Definition same3 (s s' : cstate) : Prop :=
  cs_code s' = cs_code s /\ cs_pc s' = cs_pc s /\ cs_ids s' = cs_ids s /\ cs_next_var s' = cs_next_var s.
Lemma G_same s s' : same3 s s' -> G s -> G s'.
Proof.
  intros (a & b & c & d) [H1 H2 H3 H4]. constructor; rewrite ?a, ?b, ?c, ?d; auto.
  intros Hl. destruct (H4 Hl) as [I1 I2 I3 I4]. constructor; rewrite ?a, ?b, ?c, ?d; auto.
Qed.
Ltac same3_tac := unfold same3; cbn; repeat split; reflexivity.

Definition frame3 {A} (m : M A) : Prop :=
  forall s, match m s with ROk _ s' => same3 s s' | _ => True end.
Lemma sp3_frame {A} (m : M A) : frame3 m -> sp3 m (fun _ => True).
Proof.
  intros Hf s HG. specialize (Hf s). destruct (m s); auto. split; [eapply G_same; eauto|].
  destruct Hf as (_ & _ & -> & _). auto.
Qed.
Lemma frame3_ret {A} (a : A) : frame3 (ret a).
Proof. intros s. cbn. same3_tac. Qed.
Lemma frame3_bind {A B} (m : M A) (f : A -> M B) :
  frame3 m -> (forall a, frame3 (f a)) -> frame3 (bind m f).
Proof.
  intros Hm Hf s. unfold bind. specialize (Hm s). destruct (m s) as [a s1| | |]; auto.
  specialize (Hf a s1). destruct (f a s1) as [b s2| | |]; auto.
  destruct Hm as (a1 & a2 & a3 & a4), Hf as (b1 & b2 & b3 & b4).
  repeat split; congruence.
Qed.

Lemma frame3_get : frame3 get. Proof. intros s. cbn. same3_tac. Qed.
Lemma frame3_get_pc_i32 : frame3 get_pc_i32. Proof. intros s. cbn. same3_tac. Qed.
Lemma frame3_panic {A} : frame3 (@panic A). Proof. intros s. exact I. Qed.
Lemma frame3_diverge {A} : frame3 (@diverge A). Proof. intros s. exact I. Qed.
Lemma frame3_error {A} e : frame3 (@error A e). Proof. intros s. exact I. Qed.
Lemma frame3_push_sub i : frame3 (push_sub i). Proof. intros s. cbn. same3_tac. Qed.
Lemma frame3_pop_sub : frame3 pop_sub. Proof. intros s. cbn. same3_tac. Qed.
Lemma frame3_set_index_m f i : frame3 (set_index_m f i). Proof. intros s. cbn. same3_tac. Qed.
Lemma frame3_set_fh_m h : frame3 (set_fh_m h). Proof. intros s. cbn. same3_tac. Qed.
Lemma frame3_scope_begin : frame3 scope_begin. Proof. intros s. cbn. same3_tac. Qed.
Lemma frame3_compile_begin : frame3 compile_begin. Proof. intros s. cbn. same3_tac. Qed.
Lemma frame3_compile_end : frame3 compile_end. Proof. intros s. cbn. same3_tac. Qed.
Lemma frame3_validate n : frame3 (validate_var_name n).
Proof. unfold validate_var_name. destruct (is_empty n); [apply frame3_error | apply frame3_ret]. Qed.
Lemma frame3_add_local_unchecked n : frame3 (add_local_unchecked n).
Proof.
  intros s. unfold add_local_unchecked. destruct (Nat.leb locals_cap (length (hd [] (cs_locals s)))); cbn; [exact I|].
  same3_tac.
Qed.
Lemma frame3_add_local n : frame3 (add_local n).
Proof. unfold add_local. apply frame3_bind; [apply frame3_validate | intros; apply frame3_add_local_unchecked]. Qed.
Lemma frame3_add_locals l : frame3 (add_locals l).
Proof.
  induction l as [|x r IH]; cbn [add_locals]; [apply frame3_ret|].
  apply frame3_bind; [apply frame3_add_local | intros; exact IH].
Qed.
Lemma frame3_handle_from_bytes bs : frame3 (handle_from_bytes_m bs).
Proof. intros s. unfold handle_from_bytes_m. same3_tac. Qed.
Lemma frame3_index_handle : frame3 index_handle.
Proof.
  unfold index_handle. apply frame3_bind; [apply frame3_get|]. intros s.
  apply frame3_bind; [apply frame3_handle_from_bytes | intros; apply frame3_ret].
Qed.
Lemma frame3_resolve_var n : frame3 (resolve_var n).
Proof.
  unfold resolve_var. apply frame3_bind; [apply frame3_validate|]. intros _ s.
  destruct (rfind_index _ _ _ _); cbn; [same3_tac|].
  destruct (resolve_upvalue _ _ _) as [[[v ls] us]|]; cbn; [same3_tac | exact I].
Qed.
Lemma frame3_resolve_function n : frame3 (resolve_function n).
Proof.
  unfold resolve_function. apply frame3_bind; [apply frame3_get|]. intros s.
  apply frame3_bind.
  { destruct (match sm_find n (cs_jump s) with Some m => Some m | None => _ end); [apply frame3_ret|].
    destruct (sm_find n (cs_imports s)); [|apply frame3_ret].
    destruct (super_depth _) as [[cnt sx]|]; [|apply frame3_diverge].
    destruct (take_ns _ _ _); [apply frame3_ret | apply frame3_error]. }
  intros st3. apply frame3_bind.
  { destruct st3; [apply frame3_ret|].
    destruct (split_once_c c_dot n) as [[pre suf]|]; [|apply frame3_ret].
    destruct (sm_find pre (cs_imports s)); [|apply frame3_ret].
    destruct (super_depth _) as [[cnt sx]|]; [|apply frame3_diverge].
    destruct (take_ns _ _ _); [apply frame3_ret | apply frame3_error]. }
  intros st4. destruct st4; [apply frame3_ret | apply frame3_error].
Qed.
Lemma frame3_label_insert h : frame3 (label_insert_here h).
Proof. intros s. unfold label_insert_here. destruct (_ || _); cbn; [exact I | same3_tac]. Qed.
Lemma frame3_label_entry h : frame3 (label_entry_here h).
Proof.
  intros s. unfold label_entry_here. destruct (two32 <=? cs_pc s); [exact I|].
  destruct (h =? 0); [same3_tac|]. destruct (nm_find h (cs_labels s)); cbn; same3_tac.
Qed.
Lemma frame3_card_label : frame3 card_label.
Proof. unfold card_label. apply frame3_bind; [apply frame3_index_handle | intros; apply frame3_label_entry]. Qed.
Lemma frame3_add_function f : frame3 (add_function f).
Proof.
  intros s. unfold add_function, bind, get. destruct (sm_find (fi_full_name f) (cs_jump s)); cbn; [exact I|].
  same3_tac.
Qed.
Lemma frame3_stage_1 fs : frame3 (stage_1 fs).
Proof.
  induction fs as [|f r IH]; cbn [stage_1]; [apply frame3_ret|].
  apply frame3_bind; [apply frame3_add_function | intros; exact IH].
Qed.

(* ---- the position of the buffer's end lies in the new part ---- *)
Definition base : N := bytes old.

Lemma sp3_get_pc : sp3 get_pc (fun q => base <= q).
Proof.
  intros s HG. cbn. split; [exact HG | split; [lia|]].
  destruct (g_code _ HG) as [l El]. rewrite (g_pc _ HG), El, bytes_app. unfold base. lia.
Qed.

(* ---- emission ---- *)
Lemma G_push s i c pc :
  G s -> c = i :: cs_code s -> pc = cs_pc s + N.of_nat (instr_span i) ->
  forall s', cs_code s' = c -> cs_pc s' = pc -> cs_ids s' = cs_ids s -> cs_next_var s' = cs_next_var s -> G s'.
Proof.
  intros [H1 H2 H3 H4] -> -> s' Ec Ep Ei En. constructor; rewrite ?Ec, ?Ep, ?Ei, ?En; auto.
  - destruct H1 as [l El]. exists (i :: l). rewrite El. reflexivity.
  - cbn [bytes]. unfold spanN. rewrite H2. lia.
  - intros Hl. destruct (H4 Hl) as [I1 I2 I3 I4]. constructor; rewrite ?Ei, ?En; auto.
Qed.

Lemma sp3_push_raw i : sp3 (push_raw i) (fun _ => True).
Proof. intros s HG. cbn. split; [eapply G_push; eauto; reflexivity | split; [lia | exact I]]. Qed.
Lemma sp3_push_instr i : sp3 (push_instr i) (fun _ => True).
Proof.
  intros s HG. unfold push_instr.
  apply (sp3_push_raw i (set_trace ((cs_pc s mod two32, cur_loc s) :: cs_trace s) s)).
  eapply G_same; [|exact HG]. same3_tac.
Qed.
Lemma sp3_push_raws is : sp3 (push_raws is) (fun _ => True).
Proof.
  induction is as [|i r IH]; cbn [push_raws]; [apply sp3_ret_T|].
  eapply sp3_bind; [apply sp3_push_instr | intros _ _; exact IH].
Qed.

Lemma set_jump_target_span' i z i' : set_jump_target i z = Some i' -> spanN i' = spanN i.
Proof. intros H. unfold spanN. rewrite (set_jump_target_span _ _ _ H). reflexivity. Qed.

(* patching at or above [base] leaves [old] alone *)
Lemma patch_code_below (o : list instr) cur q z : cur = bytes o -> bytes o <= q -> patch_code o cur q z = None.
Proof.
  intros Hcur Hq. destruct o as [|i r]; cbn [patch_code]; [reflexivity|].
  fold (spanN i). cbn [bytes] in Hcur, Hq. pose proof (spanN_pos i).
  assert (E : cur - spanN i = bytes r) by lia. rewrite E.
  destruct (N.eqb_spec (bytes r) q); [lia|].
  assert (Hlt : (bytes r <? q) = true) by (apply N.ltb_lt; lia). rewrite Hlt. reflexivity.
Qed.
Lemma patch_code_keeps l : forall cur q z c,
  patch_code (l ++ old) cur q z = Some c -> cur = bytes (l ++ old) -> base <= q ->
  exists l', c = l' ++ old /\ bytes l' = bytes l.
Proof.
  induction l as [|i r IH]; intros cur q z c H Hcur Hq; cbn [app] in *.
  - (* inside [old]: every start is below base *)
    exfalso. rewrite (patch_code_below old cur q z Hcur Hq) in H. discriminate.
  - cbn [patch_code] in H. fold (spanN i) in H. cbn [bytes] in Hcur.
    assert (E : cur - spanN i = bytes (r ++ old)) by lia. rewrite E in H.
    destruct (bytes (r ++ old) =? q).
    + destruct (set_jump_target i z) as [i'|] eqn:Ej; [|discriminate]. injection H as <-.
      exists (i' :: r). split; [reflexivity|]. cbn [bytes]. rewrite (set_jump_target_span' _ _ _ Ej). reflexivity.
    + destruct (bytes (r ++ old) <? q); [discriminate|].
      destruct (patch_code (r ++ old) (bytes (r ++ old)) q z) as [r'|] eqn:Er; [|discriminate]. injection H as <-.
      destruct (IH _ _ _ _ Er eq_refl Hq) as (l' & -> & Hb). exists (i :: l'). split; [reflexivity|].
      cbn [bytes]. rewrite Hb. reflexivity.
Qed.

Lemma sp3_patch q : base <= q -> sp3 (patch_jump_here q) (fun _ => True).
Proof.
  intros Hq s HG. unfold patch_jump_here.
  destruct (patch_code (cs_code s) (cs_pc s) q (u32_to_i32 (cs_pc s))) as [c|] eqn:E; [|exact I].
  destruct HG as [[l El] H2 H3 H4]. rewrite El in E.
  destruct (patch_code_keeps l _ _ _ _ E) as (l' & -> & Hb); [rewrite H2, El; reflexivity | exact Hq|].
  split; [|split; [cbn; lia | exact I]]. constructor; cbn; auto.
  - eauto.
  - rewrite H2, El, !bytes_app, Hb. reflexivity.
  - intros Hl. destruct (H4 Hl) as [I1 I2 I3 I4]. constructor; cbn; auto.
Qed.

Lemma sp3_push_string mk st : sp3 (push_string mk st) (fun _ => True).
Proof.
  unfold push_string.
  eapply sp3_bind; [apply sp3_frame, frame3_get | intros s0 _].
  eapply sp3_bind; [apply sp3_push_instr | intros _ _].
  apply sp3_frame. intros s. destruct (two32 <=? N.of_nat (length st)); cbn; [exact I | same3_tac].
Qed.

Lemma sp3_scope_end : sp3 scope_end (fun _ => True).
Proof.
  intros s HG. unfold scope_end.
  match goal with |- match push_raws ?is ?s1 with _ => _ end => apply (sp3_push_raws is s1) end.
  eapply G_same; [|exact HG]. same3_tac.
Qed.

(* ---- the variable table ---- *)
Lemma nm_insert_length {V} k (v : V) m : nm_find k m = None -> length (nm_insert k v m) = S (length m).
Proof.
  induction m as [|[k' v'] r IH]; cbn [nm_find nm_insert length]; [reflexivity|]. intros H.
  destruct (k <? k'); [reflexivity|]. destruct (k =? k'); [discriminate|].
  cbn [length]. rewrite IH; auto.
Qed.

Lemma nm_find_insert {V} k h (v : V) m :
  nm_find h (nm_insert k v m) = if h =? k then Some v else nm_find h m.
Proof.
  destruct (N.eqb_spec h k) as [->|Hne]; [apply nm_find_insert_same | apply nm_find_insert_other; exact Hne].
Qed.

Lemma sp3_global_id n : sp3 (global_id n) (fun _ => True).
Proof.
  unfold global_id. eapply sp3_bind; [apply sp3_frame, frame3_handle_from_bytes | intros h _].
  intros s HG.
  destruct (nm_find h (cs_ids s)) as [id|] eqn:Ef.
  - (* known name: the variable table is unchanged *)
    assert (R : forall nm, G (set_vars (cs_ids s) nm (cs_next_var s) s)).
    { intros nm. eapply G_same; [|exact HG]. same3_tac. }
    destruct (nm_find _ (cs_names s)) as [nm|];
      [unfold name_checked; destruct (global_name_checked && negb (str_eqb nm n)); cbn; auto|].
    destruct (ht_entry_hangs (cs_names s)); cbn; auto.
  - destruct (ht_entry_hangs (cs_ids s)); [exact I|].
    assert (R : forall nm, G (set_vars (nm_insert h (cs_next_var s) (cs_ids s)) nm
                                       ((cs_next_var s + 1) mod two32) s) /\
                           (length (cs_ids s) <= length (nm_insert h (cs_next_var s) (cs_ids s)))%nat).
    { intros nm. pose proof (nm_insert_length h (cs_next_var s) (cs_ids s) Ef) as Hlen.
      split; [|lia]. destruct HG as [H1 H2 H3 H4]. constructor; cbn; auto; [lia|].
      rewrite Hlen. intros Hl. destruct H4 as [I1 I2 I3 I4]; [lia|].
      assert (Hnv : (cs_next_var s + 1) mod two32 = cs_next_var s + 1) by (apply N.mod_small; lia).
      constructor; cbn; rewrite ?Hnv.
      - rewrite Hlen. lia.
      - intros h' id'. rewrite nm_find_insert. destruct (h' =? h).
        + intros E; injection E as <-. lia.
        + intros E. specialize (I2 _ _ E). lia.
      - intros h1 h2 id'. rewrite !nm_find_insert.
        destruct (N.eqb_spec h1 h), (N.eqb_spec h2 h); subst; auto.
        + intros E1 E2. injection E1 as <-. specialize (I2 _ _ E2). lia.
        + intros E1 E2. injection E2 as <-. specialize (I2 _ _ E1). lia.
        + apply I3.
      - intros h' id' E. rewrite nm_find_insert. destruct (N.eqb_spec h' h) as [->|]; [|auto].
        rewrite (I4 _ _ E) in Ef. discriminate. }
    destruct (nm_find _ (cs_names s)) as [nm|];
      [unfold name_checked; destruct (global_name_checked && negb (str_eqb nm n)); cbn; [exact I|]; destruct (R (cs_names s)); auto|].
    destruct (ht_entry_hangs (cs_names s)); cbn; [exact I|].
    destruct (R (nm_insert (handle_from_u32 (cs_next_var s)) n (cs_names s))); auto.
Qed.

(* ------------------------------------------------------------------ composite constructs *)
Lemma sp3_with_sub i m : sp3 m (fun _ => True) -> sp3 (with_sub i m) (fun _ => True).
Proof.
  intros H. unfold with_sub.
  eapply sp3_bind; [apply sp3_frame, frame3_push_sub | intros _ _].
  eapply sp3_bind; [exact H | intros _ _]. apply sp3_frame, frame3_pop_sub.
Qed.

Lemma sp3_encode_if_then skip body :
  sp3 body (fun _ => True) -> sp3 (encode_if_then skip body) (fun _ => True).
Proof.
  intros Hb. unfold encode_if_then.
  eapply sp3_bind; [apply sp3_get_pc | intros q Hq].
  eapply sp3_bind; [apply sp3_push_instr | intros _ _].
  eapply sp3_bind; [exact Hb | intros _ _]. apply sp3_patch, Hq.
Qed.

Lemma sp3_read_props props : sp3 (read_props props) (fun _ => True).
Proof.
  induction props as [|x r IH]; cbn [read_props]; [apply sp3_ret_T|].
  eapply sp3_bind; [|intros _ _; exact IH].
  destruct (is_empty x); [apply sp3_ret_T|].
  eapply sp3_bind; [apply sp3_push_string | intros _ _; apply sp3_push_instr].
Qed.

Lemma sp3_read_var_card v : sp3 (read_var_card v) (fun _ => True).
Proof.
  unfold read_var_card.
  destruct (match split_once_c c_dot v with Some (v0, p0) => (v0, p0) | None => (v, []) end) as [v0 props].
  eapply sp3_bind; [apply sp3_frame, frame3_resolve_var | intros scope _].
  eapply sp3_bind; [|intros _ _; apply sp3_read_props].
  destruct scope.
  - eapply sp3_bind; [apply sp3_global_id | intros id _; apply sp3_push_instr].
  - apply sp3_push_instr.
  - apply sp3_push_instr.
Qed.

Lemma sp3_bind_loop_var o src : sp3 (bind_loop_var o src) (fun _ => True).
Proof.
  destruct o; cbn [bind_loop_var]; [|apply sp3_ret_T].
  eapply sp3_bind; [apply sp3_frame, frame3_add_local | intros x _].
  eapply sp3_bind; [apply sp3_push_instr | intros _ _; apply sp3_push_instr].
Qed.

Lemma sp3_emit_upvalues ups : sp3 (emit_upvalues ups) (fun _ => True).
Proof.
  induction ups as [|u r IH]; cbn [emit_upvalues]; [apply sp3_ret_T|].
  eapply sp3_bind; [apply sp3_push_instr | intros _ _].
  eapply sp3_bind; [apply sp3_push_instr | intros _ _; exact IH].
Qed.

Lemma sp3_process_leaf i : sp3 (process_leaf i) (fun _ => True).
Proof.
  unfold process_leaf.
  eapply sp3_bind; [apply sp3_frame, frame3_card_label | intros _ _; apply sp3_push_instr].
Qed.

Definition card_ok3 (c : card) : Prop := sp3 (process_card c) (fun _ => True).

Lemma sp3_subexpr l : Forall card_ok3 l -> forall i,
  sp3 ((fix subexpr (l : list card) (i : N) {struct l} : M unit :=
          match l with
          | [] => ret tt
          | x :: r => with_sub i (process_card x) ;; subexpr r (i + 1)
          end) l i) (fun _ => True).
Proof.
  induction 1 as [|x r Hx _ IH]; intros i; [apply sp3_ret_T|].
  eapply sp3_bind; [apply sp3_with_sub, Hx | intros _ _; apply IH].
Qed.

Lemma sp3_array_items tv l :
  Forall card_ok3 l -> forall i,
  sp3 ((fix items (l : list card) (i : N) {struct l} : M unit :=
         match l with
         | [] => ret tt
         | x :: r =>
             push_instr IScalarNil ;;
             with_sub i (process_card x) ;;
             read_local tv ;;
             push_instr IAppendTable ;;
             items r (i + 1)
         end) l i) (fun _ => True).
Proof.
  induction 1 as [|x r Hx _ IH]; intros i; [apply sp3_ret_T|].
  eapply sp3_bind; [apply sp3_push_instr | intros _ _].
  eapply sp3_bind; [apply sp3_with_sub, Hx | intros _ _].
  eapply sp3_bind; [apply sp3_push_instr | intros _ _].
  eapply sp3_bind; [apply sp3_push_instr | intros _ _; apply IH].
Qed.

Ltac frame3_tac :=
  repeat first
    [ apply frame3_ret | apply frame3_get | apply frame3_get_pc_i32 | apply frame3_push_sub | apply frame3_pop_sub
    | apply frame3_set_index_m | apply frame3_scope_begin | apply frame3_error | apply frame3_validate
    | apply frame3_handle_from_bytes | apply frame3_label_insert | apply frame3_card_label
    | apply frame3_compile_begin | apply frame3_compile_end | apply frame3_index_handle
    | apply frame3_add_local_unchecked | apply frame3_add_local | apply frame3_add_locals
    | apply frame3_resolve_var | apply frame3_resolve_function
    | match goal with |- frame3 (bind _ _) => apply frame3_bind; [|intros ?] end ].

Ltac step3 :=
  first
    [ apply sp3_ret_T
    | apply sp3_scope_end
    | apply sp3_read_var_card
    | apply sp3_bind_loop_var
    | apply sp3_push_instr
    | apply sp3_push_string
    | apply sp3_process_leaf
    | apply sp3_emit_upvalues
    | apply sp3_patch; assumption
    | match goal with H : card_ok3 ?c |- sp3 (process_card ?c) _ => exact H end
    | apply sp3_with_sub
    | apply sp3_subexpr; assumption
    | apply sp3_array_items; assumption
    | apply sp3_encode_if_then
    | apply sp3_frame; solve [frame3_tac]
    | eapply sp3_bind; [apply sp3_get_pc | intros ? ?]
    | eapply sp3_bind; [apply sp3_global_id | intros ? ?]
    | match goal with |- sp3 (bind _ _) _ => eapply sp3_bind; [|intros ? ?] end ].

Lemma process_card_ok3 c : card_ok3 c.
Proof.
  induction c using card_ind'; unfold card_ok3; cbn [process_card].
  - (* CBin *) destruct op; repeat step3.
  - destruct op; repeat step3.
  - destruct op; repeat step3.
  - repeat step3.
  - repeat step3.
  - repeat step3.
  - repeat step3.
  - repeat step3.
  - repeat step3.
  - repeat step3.
  - repeat step3.
  - repeat step3.
  - repeat step3.
  - repeat step3.
  - repeat step3.
  - repeat step3.
  - (* CSetGlobalVar *)
    eapply sp3_bind; [step3 | intros _ _]. eapply sp3_bind; [repeat step3 | intros _ _].
    destruct (is_empty n); [intros s _; exact I|]. repeat step3.
  - (* CSetVar *)
    eapply sp3_bind; [step3 | intros _ _]. eapply sp3_bind; [repeat step3 | intros _ _].
    destruct (rsplit_once_c c_dot n) as [[rp sp]|]; [repeat step3|].
    eapply sp3_bind; [apply sp3_frame, frame3_resolve_var | intros var _]. destruct var; repeat step3.
  - repeat step3.
  - repeat step3.
  - repeat step3.
  - repeat step3.
  - (* CClosure *)
    repeat step3.
Qed.

(* ------------------------------------------------------------------ functions and stages *)
Lemma sp3_process_cards cards : forall ic, sp3 (process_cards cards ic) (fun _ => True).
Proof.
  induction cards as [|c r IH]; intros ic; cbn [process_cards]; [apply sp3_ret_T|].
  eapply sp3_bind; [apply sp3_frame, frame3_pop_sub | intros _ _].
  eapply sp3_bind; [apply sp3_frame, frame3_push_sub | intros _ _].
  eapply sp3_bind; [apply process_card_ok3 | intros _ _; apply IH].
Qed.

Lemma sp3_process_function f : sp3 (process_function f) (fun _ => True).
Proof.
  unfold process_function.
  eapply sp3_bind; [apply sp3_frame; intros s; cbn; same3_tac | intros _ _].
  eapply sp3_bind; [apply sp3_frame, frame3_add_locals | intros _ _]. apply sp3_process_cards.
Qed.

Lemma sp3_compile_other f : sp3 (compile_other f) (fun _ => True).
Proof.
  unfold compile_other.
  eapply sp3_bind; [apply sp3_frame, frame3_set_index_m | intros _ _].
  eapply sp3_bind; [apply sp3_frame, frame3_set_fh_m | intros _ _].
  eapply sp3_bind; [apply sp3_frame, frame3_label_insert | intros _ _].
  eapply sp3_bind; [apply sp3_frame, frame3_scope_begin | intros _ _].
  eapply sp3_bind; [apply sp3_process_function | intros _ _].
  eapply sp3_bind; [apply sp3_scope_end | intros _ _].
  eapply sp3_bind; [apply sp3_push_instr | intros _ _].
  apply sp3_push_instr.
Qed.

Lemma sp3_compile_others fs : sp3 (compile_others fs) (fun _ => True).
Proof.
  induction fs as [|f r IH]; cbn [compile_others]; [apply sp3_ret_T|].
  eapply sp3_bind; [apply sp3_compile_other | intros _ _; apply IH].
Qed.

(* what follows `main` in compile_ir *)
Definition after_main (fs : list function_ir) : M unit :=
  compile_others fs ;; (fun s => ROk tt (set_fctx (cs_ns s) [] s)) ;; push_instr IExit.

Lemma sp3_after_main fs : sp3 (after_main fs) (fun _ => True).
Proof.
  unfold after_main.
  eapply sp3_bind; [apply sp3_compile_others | intros _ _].
  eapply sp3_bind; [apply sp3_frame; intros s; cbn; same3_tac | intros _ _].
  apply sp3_push_instr.
Qed.

End Keep.

(* the invariant holds at the chosen point itself *)
Lemma G_here s :
  cs_pc s = bytes (cs_code s) ->
  (N.of_nat (length (cs_ids s)) < two32 ->
   cs_next_var s = N.of_nat (length (cs_ids s)) /\
   (forall h id, nm_find h (cs_ids s) = Some id -> id < cs_next_var s) /\
   (forall h1 h2 id, nm_find h1 (cs_ids s) = Some id -> nm_find h2 (cs_ids s) = Some id -> h1 = h2)) ->
  G (cs_code s) (cs_ids s) s.
Proof.
  intros Hpc Hids. constructor; auto.
  - exists []. reflexivity.
  - intros Hl. destruct (Hids Hl) as (A & B & C). constructor; auto.
Qed.

Lemma sp3_compile_main old ids0 f : sp3 old ids0 (compile_main f) (fun _ => True).
Proof.
  unfold compile_main.
  eapply sp3_bind; [apply sp3_frame, frame3_set_index_m | intros _ _].
  eapply sp3_bind; [apply sp3_frame, frame3_set_fh_m | intros _ _].
  eapply sp3_bind; [apply sp3_frame, frame3_scope_begin | intros _ _].
  eapply sp3_bind; [apply sp3_process_function | intros _ _].
  eapply sp3_bind; [apply sp3_frame, frame3_set_index_m | intros _ _].
  eapply sp3_bind; [apply sp3_scope_end | intros _ _].
  apply sp3_process_leaf.
Qed.

Lemma G_init d : G [] [] (init_state d).
Proof.
  constructor; cbn; auto.
  - exists []. reflexivity.
  - intros _. constructor; cbn; auto; intros; discriminate.
Qed.
