(* Executable correspondence checker for C10: the compiler model against what
   cao_lang::compiler::compile returned, and the well-formedness oracle on the crate's output. *)
From Cao Require Export CheckUtil CardAst Bytecode Compiler Wellformed.
From Cao Require Import Bits CompilerGen WellformedSide.
Local Open Scope N_scope.

(* [disasm] = the instruction starts listed by CaoCompiledProgram::disassemble_string, when the harness
   could run it (no NativeFunctionPointer in the program, see Bytecode.span_table) *)
Inductive c10case :=
| C10Case (m : module) (recursion_limit : N) (debug : bool) (obs : cresult) (disasm : option (list N)).
Definition mkcase := C10Case.

Definition str_list_eqb : list str -> list str -> bool := list_eqb str_eqb.
Definition loc_eqb (a b : loc) : bool :=
  str_list_eqb (fst a) (fst b)
  && Nat.eqb (ci_function (snd a)) (ci_function (snd b))
  && list_eqb Nat.eqb (ci_indices (snd a)) (ci_indices (snd b)).

Definition cerr_eqb (a b : cerr) : bool :=
  match a, b with
  | ENoMain, ENoMain | EEmptyProgram, EEmptyProgram | ETooManyLocals, ETooManyLocals
  | EEmptyVariable, EEmptyVariable => true
  | ETooManyCards x, ETooManyCards y | ERecursionLimitReached x, ERecursionLimitReached y => x =? y
  | EDuplicateName x, EDuplicateName y | EDuplicateModule x, EDuplicateModule y
  | EInvalidJump x, EInvalidJump y | EBadFunctionName x, EBadFunctionName y
  | EBadImport x, EBadImport y | EAmbigousImport x, EAmbigousImport y
  | EBadVariableName x, EBadVariableName y => str_eqb x y
  | ESuperLimitReached, ESuperLimitReached | ETooManyUpvalues, ETooManyUpvalues => true
  | _, _ => false
  end.

Definition nn_eqb : list (N * N) -> list (N * N) -> bool := list_eqb (pair_eqb N.eqb N.eqb).

(* which components of two programs differ: 101 bytecode, 102 data, 103 labels, 104 ids, 105 names, 106 trace *)
Definition compiled_diff (a b : compiled) : list N :=
  (if list_eqb N.eqb (p_bytecode a) (p_bytecode b) then [] else [101]) ++
  (if list_eqb N.eqb (p_data a) (p_data b) then [] else [102]) ++
  (if nn_eqb (p_labels a) (p_labels b) then [] else [103]) ++
  (if nn_eqb (p_ids a) (p_ids b) then [] else [104]) ++
  (if list_eqb (pair_eqb N.eqb str_eqb) (p_names a) (p_names b) then [] else [105]) ++
  (if list_eqb (pair_eqb N.eqb loc_eqb) (p_trace a) (p_trace b) then [] else [106]).

Definition cresult_diff (a b : cresult) : list N :=
  match a, b with
  | COk p, COk q => compiled_diff p q
  | CErr e l, CErr e' l' => if cerr_eqb e e' && opt_eqb loc_eqb l l' then [] else [107]
  | CPanic, CPanic => []
  | CDiverge, CDiverge => []
  | _, _ => [108]
  end.

(* the modelled domain: ASCII function names (is_name_valid is Unicode-aware) *)
Fixpoint module_in_domain (m : module) : bool :=
  match m with
  | Module subs funs _ =>
      forallb (fun nf => name_in_domain (fst nf)) funs &&
      (fix go (l : list (str * module)) : bool :=
         match l with
         | [] => true
         | (_, sub) :: r => module_in_domain sub && go r
         end) subs
  end.

Definition model_diff (c : c10case) : list N :=
  match c with
  | C10Case m limit debug obs _ =>
      cresult_diff (compile m {| o_recursion_limit := limit; o_debug := debug |}) obs
  end.

(* the specification oracle on the crate's output, independent of the compiler model.
   2  = not well-formed for a reason outside the known classes;
   10 = (A-23) well-formed except that some string operand is complete and valid in `data` but longer
        than read_str's MAX_STR_LEN window;
   11 = (A-24) some CloseUpvalue (emitted by scope_end) has no trace entry.
   The disassembler must list the same instruction starts as the decoder (part of code 2). *)
Definition is_close_upvalue (i : instr) : bool := match i with ICloseUpvalue _ => true | _ => false end.
Definition disasm_ok (B : compiled) (disasm : option (list N)) : bool :=
  match disasm, decode (p_bytecode B) with
  | None, _ => true
  | Some l, Some is => list_eqb N.eqb l (map (fun pi => N.of_nat (fst pi)) is)
  | Some _, None => false
  end.
Definition spec_codes (obs : cresult) (disasm : option (list N)) : list N :=
  match obs with
  | COk B =>
      if negb (wf_check_gen false B) || negb (disasm_ok B disasm) then [2]
      else
        (* every instruction has a trace entry (A-24, the untraced CloseUpvalue of scope_end, is repaired
           in /repo: it is an ordinary violation again); the legacy MAX_STR_LEN window (A-23, repaired)
           is no longer part of the specification *)
        match untraced B with [] => [] | _ => [2] end
  | _ => []
  end.

(* the three instruction tables: hand-written span_table = Instruction::span as read from the source;
   the VM's operand widths agree with it except for NativeFunctionPointer (finding, see Bytecode.v) *)
Definition span_tables_agree : bool :=
  list_eqb (pair_eqb opcode_eqb Nat.eqb) span_table gen_span_table
  && list_eqb opcode_eqb (map fst span_table) all_opcodes.
Example instr_table_matches_source : span_tables_agree = true.
Proof. reflexivity. Qed.

Definition check1 (c : c10case) : list N :=
  match c with
  | C10Case m limit debug obs disasm =>
      (* the side conditions of Properties/C10.C10_compile_wellformed are re-checked on every case *)
      if negb (module_in_domain m
               && program_in_range m {| o_recursion_limit := limit; o_debug := debug |}
               && program_utf8 m {| o_recursion_limit := limit; o_debug := debug |}) then [3]
      else
        let sp := spec_codes obs disasm in
        match model_diff c with
        | [] => sp
        | _ => 1 :: (if existsb (N.eqb 2) sp then [2] else [])
        end
  end.

Definition check_all := CheckUtil.check_all check1.
