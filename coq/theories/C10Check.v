(* Executable correspondence checker for C10: the compiler model against what
   cao_lang::compiler::compile returned, and the well-formedness oracle on the crate's output. *)
From Cao Require Export CheckUtil CardAst Bytecode Compiler.
From Cao Require Import Bits CompilerGen.
Local Open Scope N_scope.

Inductive c10case :=
| C10Case (m : module) (recursion_limit : N) (debug : bool) (obs : cresult).
Definition mkcase := C10Case.

Definition str_list_eqb : list str -> list str -> bool := list_eqb str_eqb.
Definition loc_eqb (a b : loc) : bool :=
  str_list_eqb (fst a) (fst b)
  && Nat.eqb (ci_function (snd a)) (ci_function (snd b))
  && list_eqb Nat.eqb (ci_indices (snd a)) (ci_indices (snd b)).

Definition cerr_eqb (a b : cerr) : bool :=
  match a, b with
  | ENoMain, ENoMain | EEmptyProgram, EEmptyProgram | ETooManyLocals, ETooManyLocals
  | EEmptyVariable, EEmptyVariable => true
  | ETooManyCards x, ETooManyCards y | ERecursionLimitReached x, ERecursionLimitReached y => x =? y
  | EDuplicateName x, EDuplicateName y | EDuplicateModule x, EDuplicateModule y
  | EInvalidJump x, EInvalidJump y | EBadFunctionName x, EBadFunctionName y
  | EBadImport x, EBadImport y | EAmbigousImport x, EAmbigousImport y => str_eqb x y
  | _, _ => false
  end.

Definition nn_eqb : list (N * N) -> list (N * N) -> bool := list_eqb (pair_eqb N.eqb N.eqb).

(* which components of two programs differ: 101 bytecode, 102 data, 103 labels, 104 ids, 105 names, 106 trace *)
Definition compiled_diff (a b : compiled) : list N :=
  (if list_eqb N.eqb (p_bytecode a) (p_bytecode b) then [] else [101]) ++
  (if list_eqb N.eqb (p_data a) (p_data b) then [] else [102]) ++
  (if nn_eqb (p_labels a) (p_labels b) then [] else [103]) ++
  (if nn_eqb (p_ids a) (p_ids b) then [] else [104]) ++
  (if list_eqb (pair_eqb N.eqb str_eqb) (p_names a) (p_names b) then [] else [105]) ++
  (if list_eqb (pair_eqb N.eqb loc_eqb) (p_trace a) (p_trace b) then [] else [106]).

Definition cresult_diff (a b : cresult) : list N :=
  match a, b with
  | COk p, COk q => compiled_diff p q
  | CErr e l, CErr e' l' => if cerr_eqb e e' && opt_eqb loc_eqb l l' then [] else [107]
  | CPanic, CPanic => []
  | CDiverge, CDiverge => []
  | _, _ => [108]
  end.

(* the modelled domain: ASCII function names (is_name_valid is Unicode-aware) *)
Fixpoint module_in_domain (m : module) : bool :=
  match m with
  | Module subs funs _ =>
      forallb (fun nf => name_in_domain (fst nf)) funs &&
      (fix go (l : list (str * module)) : bool :=
         match l with
         | [] => true
         | (_, sub) :: r => module_in_domain sub && go r
         end) subs
  end.

Definition model_diff (c : c10case) : list N :=
  match c with
  | C10Case m limit debug obs =>
      cresult_diff (compile m {| o_recursion_limit := limit; o_debug := debug |}) obs
  end.

Definition check1 (c : c10case) : list N :=
  match c with
  | C10Case m limit debug obs =>
      if negb (module_in_domain m) then [3]
      else match model_diff c with [] => [] | _ => [1] end
  end.

Definition check_all := CheckUtil.check_all check1.
