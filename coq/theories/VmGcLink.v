(* C02, link between the VM model (Vm.v) and the proved collector (Gc.v, GcProofs.v), part 4: the abstraction of a
   VM state as a collector heap, and the theorem that a collection at an instruction boundary keeps everything the
   program can still reach.

   [vm_abs F s] : every cell of [st_heap s] as a White collector object whose references are [vm_kids F s] (the
   addresses RuntimeData::gc traces from it); [vm_roots s] are the collector's roots (VmGcRoots.v).
   [state_closed s] (an invariant of the VM model, VmGcClosed.v) gives Gc.closed of the abstraction. *)
From stdpp Require Import gmap list.
From Cao Require Import Gc GcProofs.
From Cao Require Import Vm VmGcRoots VmGcClosed VmGcReach.

Definition abs_obj (F : fops) (s : state) (o : Vm.obj) : Gc.obj := Gc.Obj White (vm_kids F s o).

Fixpoint abs_from (F : fops) (s : state) (i : N) (l : list Vm.obj) : gmap N Gc.obj :=
  match l with
  | [] => ∅
  | o :: r => <[i := abs_obj F s o]> (abs_from F s (N.succ i) r)
  end.

Definition vm_abs (F : fops) (s : state) : gmap N Gc.obj := abs_from F s 0%N (st_heap s).

Lemma abs_from_lookup F s : forall l i a,
  abs_from F s i l !! a =
  if (a <? i)%N then None else abs_obj F s <$> nth_error l (N.to_nat (a - i)).
Proof.
  induction l as [|o r IH]; intros i a; cbn [abs_from].
  - rewrite lookup_empty. destruct (a <? i)%N; [reflexivity|]. destruct (N.to_nat (a - i)); reflexivity.
  - destruct (decide (a = i)) as [->|Hne].
    + rewrite lookup_insert, N.ltb_irrefl, N.sub_diag. reflexivity.
    + rewrite lookup_insert_ne by auto. rewrite IH.
      destruct (N.ltb_spec a (N.succ i)), (N.ltb_spec a i); try lia; [reflexivity|].
      replace (N.to_nat (a - i)) with (S (N.to_nat (a - N.succ i))) by lia. reflexivity.
Qed.

Lemma vm_abs_lookup F s a : vm_abs F s !! a = abs_obj F s <$> hget (st_heap s) a.
Proof.
  unfold vm_abs. rewrite abs_from_lookup. replace (a <? 0)%N with false by (symmetry; apply N.ltb_ge; lia).
  rewrite N.sub_0_r. reflexivity.
Qed.

Lemma vm_abs_dom F s a : is_Some (vm_abs F s !! a) <-> aok (hl s) a.
Proof.
  rewrite vm_abs_lookup. unfold hget, aok, hl. split.
  - intros [x Hx]. destruct (nth_error (st_heap s) (N.to_nat a)) eqn:E; [|discriminate].
    apply nth_error_Some. congruence.
  - intros H. apply nth_error_Some in H. destruct (nth_error (st_heap s) (N.to_nat a)); [eauto|congruence].
Qed.

Lemma vm_abs_closed F s : state_closed s -> closed (vm_abs F s).
Proof.
  intros Hs a o c Ha Hc. rewrite vm_abs_lookup in Ha.
  destruct (hget (st_heap s) a) as [ob|] eqn:E; [|discriminate]. cbn in Ha. injection Ha as <-. cbn in Hc.
  apply vm_abs_dom. eapply vm_kids_ok; [exact Hs|exact E|]. apply elem_of_list_In. exact Hc.
Qed.

Lemma vm_abs_white F s a o : vm_abs F s !! a = Some o -> col o = White.
Proof.
  rewrite vm_abs_lookup. destruct (hget (st_heap s) a); [|discriminate]. cbn. intros H. injection H as <-. reflexivity.
Qed.

Lemma vm_abs_no_gray F s : no_gray (vm_abs F s).
Proof. intros a o Ha. rewrite (vm_abs_white _ _ _ _ Ha). discriminate. Qed.

Lemma vm_abs_no_prot F s : protected_of (vm_abs F s) = [].
Proof.
  destruct (protected_of (vm_abs F s)) as [|x l] eqn:E; [reflexivity|].
  assert (Hx : x ∈ protected_of (vm_abs F s)) by (rewrite E; left).
  apply elem_of_protected_of in Hx. destruct Hx as (o & Ho & Hc). rewrite (vm_abs_white _ _ _ _ Ho) in Hc. discriminate.
Qed.

(* A collection run on the abstraction of a closed state - i.e. at any instruction boundary - terminates, keeps
   every object that is reachable from the roots of the VM exactly as it was (same cell, same references, marker
   reset to White), frees only what is not reachable, and leaves a closed heap. *)
Theorem collection_keeps_reachable F s : state_closed s ->
  exists h', gc (vm_abs F s) (vm_roots s) = Some h' /\
    (forall a, reach (vm_abs F s) (vm_roots s) a ->
       exists o, hget (st_heap s) a = Some o /\ h' !! a = Some (abs_obj F s o)) /\
    (forall a, is_Some (h' !! a) -> reach (vm_abs F s) (vm_roots s) a) /\
    closed h' /\ no_gray h'.
Proof.
  intros Hs. pose proof (vm_abs_closed F s Hs) as Hcl. pose proof (vm_abs_no_gray F s) as Hng.
  destruct (gc_spec (vm_abs F s) (vm_roots s) Hcl Hng) as (h' & Hgc & Hdom & Hobj & Hng').
  rewrite vm_abs_no_prot in Hdom. cbn [app] in Hdom.
  exists h'. split; [exact Hgc|]. split; [|split; [|split]].
  - intros a Hr.
    assert (Hin : is_Some (vm_abs F s !! a)).
    { eapply reach_in_heap; [exact Hcl| |exact Hr]. intros r Hrt. apply vm_abs_dom.
      apply vm_roots_ok; [exact Hs|]. apply elem_of_list_In. exact Hrt. }
    destruct (proj2 (Hdom a) (conj Hin Hr)) as [o' Ho'].
    destruct (Hobj a o' Ho') as (o & Ho & Hk & Hc).
    rewrite vm_abs_lookup in Ho. destruct (hget (st_heap s) a) as [ob|] eqn:E; [|discriminate].
    cbn in Ho. injection Ho as <-. exists ob. split; [reflexivity|]. rewrite Ho'. f_equal.
    destruct o' as [c k]. cbn in *. subst. reflexivity.
  - intros a Ha. apply Hdom. exact Ha.
  - eapply gc_closed; eauto.
  - exact Hng'.
Qed.

(* the addresses the next instruction can dereference are reachable from the roots: operands on the value stack,
   locals, globals, the closure of the running frame, the upvalues reached through it and the values they designate *)
Section Operands.
  Variable F : fops.
  Variable s : state.
  Notation R := (reach (vm_abs F s) (vm_roots s)).

  Lemma root_reach a : In a (vm_roots s) -> R a.
  Proof. intros H. apply reach_root. apply elem_of_list_In. exact H. Qed.

  Lemma kid_reach a o c : R a -> hget (st_heap s) a = Some o -> In c (vm_kids F s o) -> R c.
  Proof.
    intros Hr Ha Hc. eapply reach_kid; [exact Hr| |].
    - rewrite vm_abs_lookup, Ha. reflexivity.
    - cbn. apply elem_of_list_In. exact Hc.
  Qed.

  Theorem operands_reachable :
    (forall k a, speek s k = VObj a -> R a) /\
    (forall a, snd (spop s) = VObj a -> R a) /\
    (forall a, slast s = VObj a -> R a) /\
    (forall i a, sget s i = VObj a -> R a) /\
    (forall i a, nth_error (st_globals s) i = Some (Some (VObj a)) -> R a) /\
    (forall a, st_open s = Some a -> R a) /\
    (forall f ca, In f (st_calls s) -> fr_clo f = Some ca ->
       R ca /\
       forall h ar ups ua, hget (st_heap s) ca = Some (OClo h ar ups) -> In ua ups ->
         R ua /\
         forall u b, hget (st_heap s) ua = Some (OUp u) ->
           match u_loc u with Some l => sraw_get s l | None => u_val u end = VObj b -> R b).
  Proof.
    repeat split.
    - intros k a H. apply root_reach. eapply speek_root; eauto.
    - intros a H. apply root_reach. apply spop_root; exact H.
    - intros a H. apply root_reach. apply slast_root; exact H.
    - intros i a H. apply root_reach. eapply sget_root; eauto.
    - intros i a H. apply root_reach. eapply global_root; eauto.
    - intros a H. apply root_reach. apply open_head_root; exact H.
    - apply root_reach. eapply frame_closure_root; eauto.
    - eapply kid_reach; [apply root_reach; eapply frame_closure_root; eauto|eassumption|exact H2].
    - intros u b Hu Hb. eapply kid_reach; [|exact Hu|].
      + eapply kid_reach; [apply root_reach; eapply frame_closure_root; eauto|eassumption|exact H2].
      + cbn [vm_kids]. destruct (u_loc u); rewrite Hb; left; reflexivity.
  Qed.
End Operands.

(* a collection at ANY instruction boundary of ANY execution that starts in a closed state (the fresh VM, a cleared
   VM, the state a previous run left behind) *)
Theorem collection_between_instructions F bld P max_instr s0 s :
  state_closed s0 -> boundary F bld P max_instr s0 s ->
  exists h', gc (vm_abs F s) (vm_roots s) = Some h' /\
    (forall a, reach (vm_abs F s) (vm_roots s) a ->
       exists o, hget (st_heap s) a = Some o /\ h' !! a = Some (Gc.Obj White (vm_kids F s o))) /\
    (forall a, is_Some (h' !! a) -> reach (vm_abs F s) (vm_roots s) a) /\
    closed h' /\ no_gray h'.
Proof.
  intros H0 Hb. destruct (boundary_closed _ _ _ _ _ _ Hb H0) as [Hs _]. exact (collection_keeps_reachable F s Hs).
Qed.

(* ... and when a run has ended (normally or with an error) *)
Theorem collection_after_run F bld budget P s0 o s :
  state_closed s0 -> run F bld budget P s0 = (o, s) -> (forall a, o <> OAbort a) ->
  exists h', gc (vm_abs F s) (vm_roots s) = Some h' /\
    (forall a, reach (vm_abs F s) (vm_roots s) a ->
       exists ob, hget (st_heap s) a = Some ob /\ h' !! a = Some (Gc.Obj White (vm_kids F s ob))) /\
    (forall a, is_Some (h' !! a) -> reach (vm_abs F s) (vm_roots s) a) /\
    closed h' /\ no_gray h'.
Proof.
  intros H0 Hr Hna. destruct (run_closed _ _ _ _ _ _ _ H0 Hr Hna) as [Hs _]. exact (collection_keeps_reachable F s Hs).
Qed.
