(* C01, simulation: the fragments for which `compile_correct` is proved, the instruction list the
   compiler emits for them, their meaning computed directly, and the observation functions.
   Executable definitions only.

   Fragment F1 - expressions and global assignments:
     one module, no submodules, no imports, its only function `main` without parameters; every card
     of main is  SetGlobalVar g e  (g non-empty)  or a Comment; e is built from
       ScalarInt (in i64), ScalarNil, ReadVar n (n non-empty, without '.': a global),
       Add Sub Mul Less LessOrEq Equals NotEquals And Or Xor, Not.
   Reading a global that was never assigned is part of the fragment (the error VarNotFound).
   Div and ScalarFloat are left out: they produce reals, and the VM model is generic in the float
   instance while the reference semantics uses Coq's SpecFloat. *)
From Coq Require Import List NArith ZArith Bool.
From Cao Require Import ListUtil Bits CardAst Bytecode Compiler.
From Cao Require RefSem Vm.
Import ListNotations.

(* ------------------------------------------------------------------ syntax *)
Definition lit_ok (z : Z) : bool := ((- 9223372036854775808 <=? z) && (z <? 9223372036854775808))%Z.
Definition var_ok (n : str) : bool := negb (is_empty n) && negb (existsb (N.eqb c_dot) n).

Definition op_f1 (op : binop) : bool :=
  match op with
  | BAdd | BSub | BMul | BLess | BLessOrEq | BEquals | BNotEquals | BAnd | BOr | BXor => true
  | _ => false
  end.

Fixpoint expr_f1 (c : card) : bool :=
  match c with
  | CScalarNil => true
  | CScalarInt z => lit_ok z
  | CReadVar n => var_ok n
  | CUn UNot a => expr_f1 a
  | CBin op a b => op_f1 op && expr_f1 a && expr_f1 b
  | _ => false
  end.

Definition stmt_f1 (c : card) : bool :=
  match c with
  | CSetGlobalVar g e => negb (is_empty g) && expr_f1 e
  | CComment _ => true
  | _ => false
  end.

Definition main_cards (M : module) : list card :=
  match M with
  | Module _ ((_, f) :: _) _ => f_cards f
  | _ => []
  end.

Definition in_f1 (M : module) : bool :=
  match M with
  | Module [] [(name, f)] [] =>
      str_eqb name s_main && (match f_args f with [] => true | _ => false end) &&
      forallb stmt_f1 (f_cards f)
  | _ => false
  end.

(* ------------------------------------------------------------------ the emitted instructions *)
(* [T]: a variable-id table (name handle -> id) that extends the one the compiler had *)
Definition idT (T : list (N * N)) (n : str) : N :=
  match nm_find (handle_of_bytes n) T with Some id => id | None => 0%N end.

Fixpoint code_expr (T : list (N * N)) (e : card) : list instr :=
  match e with
  | CScalarNil => [IScalarNil]
  | CScalarInt z => [IScalarInt z]
  | CReadVar n => [IReadGlobalVar (idT T n)]
  | CUn UNot a => code_expr T a ++ [INot]
  | CBin op a b => code_expr T a ++ code_expr T b ++ [simple_binop op]
  | _ => []
  end.

Definition code_stmt (T : list (N * N)) (c : card) : list instr :=
  match c with
  | CSetGlobalVar g e => code_expr T e ++ [ISetGlobalVar (idT T g)]
  | _ => []
  end.

Definition code_main (T : list (N * N)) (cards : list card) : list instr := flat_map (code_stmt T) cards.

(* value-stack slots an expression needs *)
Fixpoint depth (e : card) : nat :=
  match e with
  | CUn _ a => depth a
  | CBin _ a b => Nat.max (depth a) (S (depth b))
  | _ => 1
  end.
Definition stmt_depth (c : card) : nat := match c with CSetGlobalVar _ e => depth e | _ => 0 end.
Definition depth_ok (cards : list card) : bool :=
  forallb (fun c => Nat.ltb (S (stmt_depth c)) Vm.stack_size) cards.

(* dispatches of a complete run: every instruction of main once, and Exit *)
Definition needed_f1 (M : module) : nat := S (S (length (code_main [] (main_cards M)))).

(* the global names a program mentions *)
Fixpoint expr_names (e : card) : list str :=
  match e with
  | CReadVar n => [n]
  | CUn _ a => expr_names a
  | CBin _ a b => expr_names a ++ expr_names b
  | _ => []
  end.
Definition stmt_names (c : card) : list str :=
  match c with CSetGlobalVar g e => expr_names e ++ [g] | _ => [] end.
Definition main_names (cards : list card) : list str := flat_map stmt_names cards.

(* no two of the names share their 32-bit handle (the VM knows a global by the handle of its name) *)
Definition handles_inj (names : list str) : bool :=
  forallb (fun a => forallb (fun b => implb (N.eqb (handle_of_bytes a) (handle_of_bytes b)) (str_eqb a b)) names) names.
(* a name whose handle is not that of a different name of the program *)
Definition no_collision (names : list str) (n : str) : Prop :=
  forall g, In g names -> handle_of_bytes n = handle_of_bytes g -> n = g.

(* ------------------------------------------------------------------ the meaning, computed directly *)
(* on the values of the fragment (nil and integers) with the operators of RefSem, no heap *)
Definition simple (v : RefSem.value) : Prop :=
  match v with RefSem.VNil | RefSem.VInt _ => True | _ => False end.

Definition binval (op : binop) (x y : RefSem.value) : RefSem.value :=
  let cmp (f : option comparison -> bool) :=
    match RefSem.v_cmp [] x y with Some c => RefSem.v_of_bool (f c) | None => RefSem.VNil end in
  let eq (neg : bool) :=
    match RefSem.v_eq [] RefSem.eq_depth x y with
    | Some r => RefSem.v_of_bool (xorb neg r) | None => RefSem.VNil end in
  match op with
  | BAdd => RefSem.arith [] Z.add RefSem.fadd x y
  | BSub => RefSem.arith [] Z.sub RefSem.fsub x y
  | BMul => RefSem.arith [] Z.mul RefSem.fmul x y
  | BLess => cmp (fun c => match c with Some Lt => true | _ => false end)
  | BLessOrEq => cmp (fun c => match c with Some Lt | Some Eq => true | _ => false end)
  | BEquals => eq false
  | BNotEquals => eq true
  | BAnd => RefSem.v_of_bool (RefSem.v_bool [] x && RefSem.v_bool [] y)
  | BOr => RefSem.v_of_bool (RefSem.v_bool [] x || RefSem.v_bool [] y)
  | BXor => RefSem.v_of_bool (xorb (RefSem.v_bool [] x) (RefSem.v_bool [] y))
  | _ => RefSem.VNil
  end.

(* None = VarNotFound *)
Fixpoint ev (g : list (str * RefSem.value)) (e : card) : option RefSem.value :=
  match e with
  | CScalarNil => Some RefSem.VNil
  | CScalarInt z => Some (RefSem.VInt z)
  | CReadVar n => RefSem.assoc n g
  | CUn UNot a =>
      match ev g a with
      | Some v => Some (RefSem.v_of_bool (negb (RefSem.v_bool [] v)))
      | None => None
      end
  | CBin op a b =>
      match ev g a with
      | None => None
      | Some x => match ev g b with
                  | None => None
                  | Some y => Some (binval op x y)
                  end
      end
  | _ => None
  end.

(* the globals after the cards, and whether all of them ran *)
Fixpoint run_cards (g : list (str * RefSem.value)) (cards : list card) : bool * list (str * RefSem.value) :=
  match cards with
  | [] => (true, g)
  | CSetGlobalVar n e :: r =>
      match ev g e with
      | Some v => run_cards (RefSem.set_assoc n v g) r
      | None => (false, g)
      end
  | _ :: r => run_cards g r
  end.

(* ------------------------------------------------------------------ observations *)
Definition to_vm (v : RefSem.value) : Vm.value :=
  match v with RefSem.VInt z => Vm.VInt z | _ => Vm.VNil end.

(* a global of the fragment as the host sees it (the deep copy of a scalar) *)
Definition vm_tree (v : Vm.value) : RefSem.tree :=
  match v with
  | Vm.VNil => RefSem.TrNil
  | Vm.VInt z => RefSem.TrInt z
  | Vm.VReal b => RefSem.TrReal b
  | Vm.VObj _ => RefSem.TrFn
  end.

(* success or the kind of the error, as the harness of C01 classifies ExecutionErrorPayload *)
Definition kind_of_err (e : Vm.err) : RefSem.errkind :=
  match e with
  | Vm.EInvalidArgument | Vm.EConversion _ => RefSem.EInvalidArgument
  | Vm.EVarNotFound _ => RefSem.EVarNotFound
  | Vm.EProcedureNotFound _ => RefSem.EProcedureNotFound
  | Vm.ETaskFailure _ _ => RefSem.ETaskFailure
  | Vm.EMissingArgument => RefSem.EOther 1
  | Vm.EBadReturn => RefSem.EOther 2
  | Vm.EAssertionError => RefSem.EOther 3
  | Vm.EInvalidUpvalue => RefSem.EOther 4
  | Vm.ENotClosure => RefSem.EOther 5
  | Vm.EUnexpectedEndOfInput => RefSem.EOther 6
  | _ => RefSem.EOther 9
  end.
Definition vm_kind (o : Vm.outcome) : option RefSem.okind :=
  match o with
  | Vm.OOk => Some RefSem.KOk
  | Vm.OErr e _ => Some (RefSem.KErr (kind_of_err e))
  | Vm.OAbort _ => None
  end.
