(* C18: theorems about the typed native wrappers of arity 1, 3, 4 (traits.rs VmFunction1/3/4 as modelled by
   Vm.native_body / call_native_fuel) and about Vm::run_function (reentry_balanced).
   Generic in the float instance and in the build profile. *)
From Coq Require Import NArith ZArith List Lia Bool.
From Cao Require Import ListUtil Bits Stacks StacksProofs Vm VmWitness VmProofs.
Import ListNotations.

Set Implicit Arguments.

(* ------------------------------------------------------------------ *)
(* The value stack seen as a list                                      *)
(* ------------------------------------------------------------------ *)

(* the n-th value from the top of  l ++ r  when it lies in r *)
Lemma speek_app s l r n :
  stack_ok s -> stack_of s = l ++ r -> n < length r ->
  speek s n = nth (length r - n - 1) r VNil.
Proof.
  intros Hok Hst Hn. rewrite (speek_abs n Hok), Hst, app_length.
  replace (n <? length l + length r) with true by (symmetry; apply Nat.ltb_lt; lia).
  rewrite app_nth2 by lia. f_equal. lia.
Qed.

(* pop_n::<k>() removes exactly r when |r| = k *)
Lemma spop_n_app s l r :
  stack_ok s -> stack_of s = l ++ r ->
  stack_ok (spop_n s (length r)) /\ stack_of (spop_n s (length r)) = l /\
  length (vdata (st_stack (spop_n s (length r)))) = length (vdata (st_stack s)).
Proof.
  intros Hok Hst. destruct (spop_n_abs (length r) Hok) as (Hok2 & Hst2 & Hcap).
  repeat split; auto. rewrite Hst2, Hst, app_length.
  replace (length l + length r - Nat.min (length l + length r) (length r)) with (length l) by lia.
  rewrite firstn_app, firstn_all, Nat.sub_diag. cbn [firstn]. apply app_nil_r.
Qed.

Lemma spop_n_fields s n :
  st_calls (spop_n s n) = st_calls s /\ st_globals (spop_n s n) = st_globals s /\
  st_heap (spop_n s n) = st_heap s /\ st_log (spop_n s n) = st_log s /\ st_open (spop_n s n) = st_open s.
Proof. unfold spop_n. cbn. auto. Qed.

(* the tail of call_native: pop the k >= 1 arguments, push the result *)
Lemma native_return s l r v :
  stack_ok s -> stack_of s = l ++ r -> 1 <= length r ->
  exists s',
    spush (spop_n s (length r)) v = Some s' /\ stack_ok s' /\ stack_of s' = l ++ [v] /\
    st_calls s' = st_calls s /\ st_globals s' = st_globals s /\ st_heap s' = st_heap s /\
    st_log s' = st_log s /\ st_open s' = st_open s.
Proof.
  intros Hok Hst Hk.
  destruct (spop_n_app l r Hok Hst) as (Hok2 & Hst2 & Hcap).
  assert (Hfit : S (length (stack_of (spop_n s (length r)))) < length (vdata (st_stack (spop_n s (length r))))).
  { rewrite Hst2, Hcap. pose proof (abs_length Hok) as HL. fold (stack_of s) in HL.
    rewrite Hst, app_length in HL. unfold stack_ok, vs_inv in Hok. lia. }
  destruct (spush_abs v Hok2 Hfit) as (s' & Hp & Hok' & Hs' & Hc & Hg & Hh & Hl & Ho).
  destruct (spop_n_fields s (length r)) as (Fc & Fg & Fh & Fl & Fo).
  exists s'. rewrite Hs', Hst2. repeat split; auto; congruence.
Qed.

Lemma log_push_stack s e : stack_ok (log_push s e) = stack_ok s /\ stack_of (log_push s e) = stack_of s.
Proof. split; reflexivity. Qed.

Lemma find_native_nil1 : find_native (handle_of_bytes name_nil1) all_natives = Some NNil1.
Proof. vm_compute. reflexivity. Qed.
Lemma find_native_mix3 : find_native (handle_of_bytes name_mix3) all_natives = Some NMix3.
Proof. vm_compute. reflexivity. Qed.
Lemma find_native_t4 : find_native (handle_of_bytes name_t4) all_natives = Some NT4.
Proof. vm_compute. reflexivity. Qed.

(* ------------------------------------------------------------------ *)
(* Arity 1: str1(s: &str) and nil1(a: Nilable<i64>)                    *)
(* ------------------------------------------------------------------ *)

Theorem native_args_str1 : forall F P re fuel s l v b,
  stack_ok s -> stack_of s = l ++ [v] -> as_str (st_heap s) v = SIs b ->
  exists s',
    call_native_fuel F P re (S fuel) (handle_of_bytes name_str1) s = NOk (VInt (Z.of_nat (length b))) s' /\
    stack_of s' = l ++ [VInt (Z.of_nat (length b))] /\
    st_log s' = st_log s ++ [[TStr b]] /\
    st_calls s' = st_calls s /\ st_globals s' = st_globals s /\ st_heap s' = st_heap s.
Proof.
  intros F P re fuel s l v b Hok Hst Hv.
  cbn [call_native_fuel]. rewrite find_native_str1. cbn [native_body].
  rewrite (speek_app l [v] Hok Hst) by (cbn; lia). cbn [length nth Nat.sub]. rewrite Hv. cbn [native_arity].
  set (s1 := log_push s [TStr b]).
  destruct (@native_return s1 l [v] (VInt (Z.of_nat (length b))) Hok Hst) as (s' & Hp & _ & Hs' & Hc & Hg & Hh & Hl & _);
    [cbn; lia|].
  cbn [length] in Hp. cbv zeta. rewrite Hp. exists s'. repeat split; auto.
Qed.

(* Nilable<i64>: None exactly for nil, otherwise the i64 conversion of the value *)
Theorem native_args_nil1 : forall F P re fuel s l v,
  stack_ok s -> stack_of s = l ++ [v] ->
  (v = VNil \/ exists i, v <> VNil /\ to_i64 F (st_heap s) v = Some i) ->
  exists s' res entry,
    call_native_fuel F P re (S fuel) (handle_of_bytes name_nil1) s = NOk res s' /\
    stack_of s' = l ++ [res] /\
    st_log s' = st_log s ++ [[entry]] /\
    (v = VNil -> res = VInt (-1) /\ entry = TNil) /\
    (forall i, v <> VNil -> to_i64 F (st_heap s) v = Some i -> res = VInt i /\ entry = TInt i) /\
    st_calls s' = st_calls s /\ st_globals s' = st_globals s /\ st_heap s' = st_heap s.
Proof.
  intros F P re fuel s l v Hok Hst Hv.
  assert (Hpk : speek s 0 = v).
  { rewrite (speek_app l [v] Hok Hst) by (cbn; lia). reflexivity. }
  cbn [call_native_fuel]. rewrite find_native_nil1. cbn [native_arity].
  destruct Hv as [-> | (i & Hn & Hi)].
  - assert (Hb : native_body F P re (call_native_fuel F P re fuel) NNil1 s = NOk (VInt (-1)) (log_push s [TNil])).
    { cbn [native_body]. rewrite Hpk. reflexivity. }
    rewrite Hb.
    set (s1 := log_push s [TNil]).
    destruct (@native_return s1 l [VNil] (VInt (-1)) Hok Hst) as (s' & Hp & _ & Hs' & Hc & Hg & Hh & Hl & _);
      [cbn; lia|].
    cbn [length] in Hp. cbv zeta. rewrite Hp. exists s', (VInt (-1)), TNil.
    repeat split; auto; intros; congruence.
  - assert (Hb : native_body F P re (call_native_fuel F P re fuel) NNil1 s = NOk (VInt i) (log_push s [TInt i])).
    { cbn [native_body]. rewrite Hpk. destruct v; try congruence; rewrite Hi; reflexivity. }
    rewrite Hb.
    set (s1 := log_push s [TInt i]).
    destruct (@native_return s1 l [v] (VInt i) Hok Hst) as (s' & Hp & _ & Hs' & Hc & Hg & Hh & Hl & _);
      [cbn; lia|].
    cbn [length] in Hp. cbv zeta. rewrite Hp. exists s', (VInt i), (TInt i).
    repeat split; auto; intros; congruence.
Qed.

(* ------------------------------------------------------------------ *)
(* Arity 3: mix3(a: f64, b: i64, c: Value)                             *)
(* ------------------------------------------------------------------ *)

Theorem native_args_mix3 : forall F P re fuel s l v1 v2 v3 a b,
  stack_ok s -> stack_of s = l ++ [v1; v2; v3] ->
  to_f64 F (st_heap s) v1 = Some a -> to_i64 F (st_heap s) v2 = Some b ->
  exists s',
    call_native_fuel F P re (S fuel) (handle_of_bytes name_mix3) s = NOk VNil s' /\
    stack_of s' = l ++ [VNil] /\
    st_log s' = st_log s ++ [[TReal (canon_real F a); TInt b; tree_of F (st_heap s) v3]] /\
    st_calls s' = st_calls s /\ st_globals s' = st_globals s /\ st_heap s' = st_heap s.
Proof.
  intros F P re fuel s l v1 v2 v3 a b Hok Hst Ha Hb.
  cbn [call_native_fuel]. rewrite find_native_mix3. cbn [native_body].
  rewrite (speek_app l [v1; v2; v3] Hok Hst (n := 0)) by (cbn; lia).
  rewrite (speek_app l [v1; v2; v3] Hok Hst (n := 1)) by (cbn; lia).
  rewrite (speek_app l [v1; v2; v3] Hok Hst (n := 2)) by (cbn; lia).
  cbn [length nth Nat.sub]. rewrite Hb, Ha. cbn [native_arity].
  set (s1 := log_push s _).
  destruct (@native_return s1 l [v1; v2; v3] VNil Hok Hst) as (s' & Hp & _ & Hs' & Hc & Hg & Hh & Hl & _);
    [cbn; lia|].
  cbn [length] in Hp. cbv zeta. rewrite Hp. exists s'. repeat split; auto.
Qed.

(* ------------------------------------------------------------------ *)
(* Arity 4: t4(a: i64, b: f64, c: bool, d: &str)                       *)
(* ------------------------------------------------------------------ *)

Theorem native_args_t4 : forall F P re fuel s l v1 v2 v3 v4 a b c d,
  stack_ok s -> stack_of s = l ++ [v1; v2; v3; v4] ->
  to_i64 F (st_heap s) v1 = Some a -> to_f64 F (st_heap s) v2 = Some b ->
  as_bool F (st_heap s) v3 = Some c -> as_str (st_heap s) v4 = SIs d ->
  exists s',
    call_native_fuel F P re (S fuel) (handle_of_bytes name_t4) s = NOk VNil s' /\
    stack_of s' = l ++ [VNil] /\
    st_log s' = st_log s ++ [[TInt a; TReal (canon_real F b); TInt (if c then 1 else 0); TStr d]] /\
    st_calls s' = st_calls s /\ st_globals s' = st_globals s /\ st_heap s' = st_heap s.
Proof.
  intros F P re fuel s l v1 v2 v3 v4 a b c d Hok Hst Ha Hb Hc Hd.
  cbn [call_native_fuel]. rewrite find_native_t4. cbn [native_body].
  rewrite (speek_app l [v1; v2; v3; v4] Hok Hst (n := 0)) by (cbn; lia).
  rewrite (speek_app l [v1; v2; v3; v4] Hok Hst (n := 1)) by (cbn; lia).
  rewrite (speek_app l [v1; v2; v3; v4] Hok Hst (n := 2)) by (cbn; lia).
  rewrite (speek_app l [v1; v2; v3; v4] Hok Hst (n := 3)) by (cbn; lia).
  cbn [length nth Nat.sub]. rewrite Hd, Hc, Hb, Ha. cbn [native_arity].
  set (s1 := log_push s _).
  destruct (@native_return s1 l [v1; v2; v3; v4] VNil Hok Hst) as (s' & Hp & _ & Hs' & Hcs & Hg & Hh & Hl & _);
    [cbn; lia|].
  cbn [length] in Hp. cbv zeta. rewrite Hp. exists s'. repeat split; auto.
Qed.

(* the last parameter is converted first: a non-string there is InvalidArgument naming parameter 4, whatever the
   other three are; all four arguments are consumed and the body does not run (nothing is logged) *)
Theorem native_conversion_error_t4 : forall F P re fuel s l v1 v2 v3 v4,
  stack_ok s -> stack_of s = l ++ [v1; v2; v3; v4] -> as_str (st_heap s) v4 = SNot ->
  exists s',
    call_native_fuel F P re (S fuel) (handle_of_bytes name_t4) s
      = NErr (ETaskFailure name_t4 (EConversion 4)) s' /\
    stack_of s' = l /\ st_calls s' = st_calls s /\ st_globals s' = st_globals s /\ st_heap s' = st_heap s /\
    st_log s' = st_log s.
Proof.
  intros F P re fuel s l v1 v2 v3 v4 Hok Hst Hv.
  assert (Hb : native_body F P re (call_native_fuel F P re fuel) NT4 s = NErr (EConversion 4) s).
  { cbn [native_body]. rewrite (speek_app l [v1; v2; v3; v4] Hok Hst (n := 0)) by (cbn; lia).
    cbn [length nth Nat.sub]. rewrite Hv. reflexivity. }
  rewrite (@native_error_wrapped F P re fuel _ NT4 s _ s find_native_t4 Hb). cbn [native_arity native_name].
  destruct (spop_n_app l [v1; v2; v3; v4] Hok Hst) as (_ & Hst2 & _). cbn [length] in Hst2.
  eexists; split; [reflexivity|]. repeat split; auto.
Qed.

(* ------------------------------------------------------------------ *)
(* run_function: the caller's stack and frames after a script callee   *)
(* ------------------------------------------------------------------ *)

Lemma close_upvalues_go_frame fuel top s :
  match close_upvalues_go fuel top s with
  | ClOk s' | ClErr _ s' | ClStop _ s' =>
      st_stack s' = st_stack s /\ st_calls s' = st_calls s /\ st_globals s' = st_globals s /\
      st_log s' = st_log s /\ cr s' = cr s
  end.
Proof.
  revert s. induction fuel as [|f IH]; intros s; cbn [close_upvalues_go]; [repeat split|].
  destruct (st_open s) as [a|]; [|repeat split].
  destruct (hget (st_heap s) a) as [[t|b|h ar|h|h ar ups|u]|]; try (repeat split; reflexivity).
  destruct (u_loc u) as [l|]; [|repeat split].
  destruct (l <? top); [repeat split|].
  match goal with |- match close_upvalues_go f top ?s1 with _ => _ end => specialize (IH s1) end.
  destruct (close_upvalues_go f top _); cbn in IH; exact IH.
Qed.

Lemma sclear_until_abs s h :
  stack_ok s -> h <= length (stack_of s) ->
  exists s1, sclear_until s h = (s1, last (stack_of s) VNil) /\ stack_ok s1 /\
             stack_of s1 = firstn h (stack_of s) /\
             length (vdata (st_stack s1)) = length (vdata (st_stack s)) /\
             st_calls s1 = st_calls s /\ st_globals s1 = st_globals s /\ st_heap s1 = st_heap s /\
             st_log s1 = st_log s /\ st_open s1 = st_open s /\ cr s1 = cr s.
Proof.
  intros Hok Hh. unfold sclear_until, stack_of, stack_ok in *.
  assert (Hsp : sp_step VNil (length (vdata (st_stack s))) (vs_abs (st_stack s)) (VClearUntil value h)
                = Some (firstn h (vs_abs (st_stack s)), OVal (last (vs_abs (st_stack s)) VNil))).
  { cbn [sp_step]. replace (h <=? length (vs_abs (st_stack s))) with true by (symmetry; apply Nat.leb_le; lia).
    reflexivity. }
  pose proof (@vs_step_refines value VNil (st_stack s) (VClearUntil value h) _ _ Hok Hsp) as R.
  destruct (vs_step VNil (st_stack s) (VClearUntil value h)) as [k o]. destruct R as (-> & Ha & Hi & Hl).
  eexists; split; [reflexivity|]. cbn [st_stack set_stack st_calls st_globals st_heap st_log st_open].
  repeat split; auto.
Qed.

Lemma spop_abs s :
  stack_ok s ->
  exists s1, spop s = (s1, last (stack_of s) VNil) /\ stack_ok s1 /\ stack_of s1 = removelast (stack_of s) /\
             st_calls s1 = st_calls s /\ st_globals s1 = st_globals s /\ st_heap s1 = st_heap s /\
             st_log s1 = st_log s.
Proof.
  intros Hok. unfold spop, stack_of, stack_ok in *.
  pose proof (@vs_step_refines value VNil (st_stack s) (VPop value) _ _ Hok eq_refl) as R.
  cbn [vs_step] in R. destruct (vs_pop VNil (st_stack s)) as [k v]. destruct R as (E & Ha & Hi & Hl).
  inversion E; subst. eexists; split; [reflexivity|].
  cbn [st_stack set_stack st_calls st_globals st_heap st_log]. repeat split; auto.
Qed.

Lemma scount_abs s : stack_ok s -> scount s = length (stack_of s).
Proof. intros H. unfold scount, stack_of. symmetry. apply abs_length. exact H. Qed.

(* Return executed in a callee frame [fr] above [prev]: the frame is dropped, everything above the frame's offset
   is dropped, the returned value (the top of the stack) is pushed, execution continues at prev's destination *)
Lemma return_step : forall x fr prev rest ip,
  st_calls x = fr :: prev :: rest -> stack_ok x ->
  N.to_nat (fr_off fr) < length (stack_of x) ->
  (exists xc, close_upvalues_from (N.to_nat (fr_off fr)) (set_calls x (prev :: rest)) = ClOk xc) ->
  exists x',
    i_22 22%N ip (ip + 1)%N x = SNext (fr_dst prev) x' /\
    stack_ok x' /\ stack_of x' = firstn (N.to_nat (fr_off fr)) (stack_of x) ++ [last (stack_of x) VNil] /\
    st_calls x' = prev :: rest /\ cr x' = cr x.
Proof.
  intros x fr prev rest ip Hc Hok Hoff (xc & Hcl).
  unfold i_22. rewrite Hc. rewrite Hcl.
  pose proof (close_upvalues_go_frame (S (length (st_heap (set_calls x (prev :: rest)))))
                (N.to_nat (fr_off fr)) (set_calls x (prev :: rest))) as Hf.
  unfold close_upvalues_from in Hcl. rewrite Hcl in Hf. cbn [st_stack st_calls set_calls] in Hf.
  destruct Hf as (Hs & Hcs & _ & _ & Hcr).
  assert (Hokc : stack_ok xc) by (unfold stack_ok; rewrite Hs; exact Hok).
  assert (Hstc : stack_of xc = stack_of x) by (unfold stack_of; rewrite Hs; reflexivity).
  destruct (@sclear_until_abs xc (N.to_nat (fr_off fr)) Hokc) as (s3 & E3 & Hok3 & Hst3 & Hcap3 & Hc3 & _ & _ & _ & _ & Hcr3);
    [rewrite Hstc; lia|].
  rewrite E3.
  assert (Hfit : S (length (stack_of s3)) < length (vdata (st_stack s3))).
  { rewrite Hst3, Hcap3, firstn_length, Hstc, Hs.
    pose proof (abs_length Hok) as HL. fold (stack_of x) in HL. unfold stack_ok, vs_inv in Hok. lia. }
  destruct (spush_abs (last (stack_of xc) VNil) Hok3 Hfit) as (x' & Hp & Hok' & Hs' & Hc' & _).
  unfold push_next. rewrite Hp. exists x'. split; [reflexivity|].
  repeat split; auto.
  - rewrite Hs', Hst3, Hstc. reflexivity.
  - rewrite Hc', Hc3, Hcs. reflexivity.
  - apply spush_cnt in Hp. rewrite Hp, Hcr3, Hcr. reflexivity.
Qed.

Definition callee_obj (is_clo : bool) (h ar : N) (ups : list N) : obj :=
  if is_clo then OClo h ar ups else OFun h ar.

(* reentry_balanced, PARTIAL. A host function calls run_function on a script function / closure of arity |args|
   with the stack  l ++ args. If the nested `_run` (the real dispatch loop, any nesting below it) reaches the
   callee's Return at [ipr] in a state [x] in which the two trap frames and the caller's frames are still in place
   and the caller's part [l] of the value stack is unchanged below the callee's frame, then run_function returns
   the callee's result and leaves exactly  l  on the value stack and exactly the caller's frames on the call stack.
   MISSING for the full statement: that the callee's body keeps  l  and the frames below its own intact up to its
   Return (frame discipline of compiled code: no instruction of a compiled function pops below the frame offset);
   that needs the compiler invariants and a per-instruction analysis. *)
Theorem reentry_balanced_partial :
  forall F bld P re0 cn (a : N) (s : state) (l args : list value) h ar ups (is_clo : bool) src fuel1 fuel2 ipr (x : state),
  let re := fun ip st => loop F bld P re0 fuel1 ip st in
  let f := mkFrame src (last_pos P) (N.of_nat (length l)) (if is_clo then Some a else None) in
  stack_ok s -> stack_of s = l ++ args -> length args = N.to_nat ar ->
  hget (st_heap s) a = Some (callee_obj is_clo h ar ups) ->
  assoc h (p_labels P) = Some src ->
  S (length (st_calls s)) < call_stack_size ->
  (code_len P <> 0)%N ->
  nth (N.to_nat (last_pos P)) (p_code P) 255%N = 10%N ->          (* the program ends with Exit *)
  (* the nested run reaches the callee's Return *)
  loop F bld P re0 fuel1 src (set_calls s (f :: f :: st_calls s)) = loop F bld P re0 (S (S fuel2)) ipr x ->
  (ipr < code_len P)%N -> nth (N.to_nat ipr) (p_code P) 255%N = 22%N ->
  (3 <= st_rem x)%N ->
  st_calls x = f :: f :: st_calls s -> stack_ok x ->
  firstn (length l) (stack_of x) = l -> length l < length (stack_of x) ->
  (exists xc, close_upvalues_from (length l)
                (set_calls (tick (set_rem x (N.pred (st_rem x)))) (f :: st_calls s)) = ClOk xc) ->
  exists s',
    run_function P re cn (VObj a) s = NOk (last (stack_of x) VNil) s' /\
    stack_ok s' /\ stack_of s' = l /\ st_calls s' = st_calls s.
Proof.
  intros F bld P re0 cn a s l args h ar ups is_clo src fuel1 fuel2 ipr x re f
         Hok Hst Hlen Hobj Hlab Hroom Hcl Hexit Hreach Hipr Hret Hrem Hcx Hokx Hpre Hh Hclose.
  assert (Hoff : N.to_nat (N.of_nat (length l)) = length l) by apply Nat2N.id.
  (* the nested run from the Return on *)
  assert (Hrun : exists s3, loop F bld P re0 (S (S fuel2)) ipr x = ROk s3 /\ stack_ok s3 /\
                            stack_of s3 = l ++ [last (stack_of x) VNil] /\ st_calls s3 = f :: st_calls s).
  { cbn [loop]. replace (code_len P <=? ipr)%N with false by (symmetry; apply N.leb_gt; exact Hipr).
    cbn [st_rem set_rem]. replace (N.pred (st_rem x) =? 0)%N with false by (symmetry; apply N.eqb_neq; lia).
    unfold step at 1. cbv zeta. rewrite Hret.
    set (x0 := tick (set_rem x (N.pred (st_rem x)))).
    assert (Hc0 : st_calls x0 = f :: f :: st_calls s) by exact Hcx.
    assert (Hok0 : stack_ok x0) by exact Hokx.
    assert (Hst0 : stack_of x0 = stack_of x) by reflexivity.
    destruct (@return_step x0 f f (st_calls s) ipr Hc0 Hok0) as (x' & Hi & Hok' & Hst' & Hc' & Hcr').
    { cbn [fr_off f]. rewrite Hoff, Hst0. exact Hh. }
    { cbn [fr_off f]. rewrite Hoff. exact Hclose. }
    rewrite Hi. cbn [fr_dst f].
    cbn [fr_off f] in Hst'. rewrite Hoff, Hst0, Hpre in Hst'.
    (* Exit at the trap frame's destination *)
    assert (Hlast : (last_pos P < code_len P)%N) by (unfold last_pos; lia).
    replace (code_len P <=? last_pos P)%N with false by (symmetry; apply N.leb_gt; exact Hlast).
    cbn [st_rem set_rem].
    assert (Hr' : st_rem x' = N.pred (st_rem x)).
    { unfold cr in Hcr'. inversion Hcr'. reflexivity. }
    replace (N.pred (st_rem x') =? 0)%N with false by (symmetry; apply N.eqb_neq; lia).
    unfold step. cbv zeta. rewrite Hexit.
    eexists; split; [reflexivity|]. repeat split; auto. }
  destruct Hrun as (s3 & Hs3 & Hok3 & Hst3 & Hc3).
  (* run_function up to the nested run *)
  unfold run_function. rewrite Hobj.
  assert (Hsc : N.of_nat (scount s) = (N.of_nat (length l) + ar)%N).
  { rewrite (scount_abs Hok), Hst, app_length, Hlen. lia. }
  assert (Hgo :
    (if (code_len P =? 0)%N then NStop APanic s
     else match assoc h (p_labels P) with
          | None => NErr (EProcedureNotFound h) s
          | Some src =>
              let len := N.of_nat (scount s) in
              if (len <? ar)%N then NErr EMissingArgument s
              else
                let f := mkFrame src (last_pos P) (len - ar) (if is_clo then Some a else None) in
                match push_frame s f with
                | None => NErr ECallStackOverflow s
                | Some s1 =>
                    match push_frame s1 f with
                    | None => NErr ECallStackOverflow s
                    | Some s2 =>
                        let depth := length (st_calls s) in
                        let unwind (x : state) :=
                          set_calls x (skipn (length (st_calls x) - depth) (st_calls x)) in
                        match re src s2 with
                        | ROk s3 => let '(s5, v) := spop (unwind s3) in NOk v s5
                        | RErr e _ s3 => NErr e (unwind s3)
                        | RStop ab s3 => NStop ab s3
                        end
                    end
                end
          end)
    = let '(s5, v) := spop (set_calls s3 (st_calls s)) in NOk v s5).
  { replace (code_len P =? 0)%N with false by (symmetry; apply N.eqb_neq; exact Hcl).
    rewrite Hlab. cbv zeta. rewrite Hsc.
    replace (N.of_nat (length l) + ar <? ar)%N with false by (symmetry; apply N.ltb_ge; lia).
    replace (N.of_nat (length l) + ar - ar)%N with (N.of_nat (length l)) by lia.
    fold f. unfold push_frame.
    replace (call_stack_size <=? length (st_calls s)) with false by (symmetry; apply Nat.leb_gt; lia).
    cbn [st_calls set_calls].
    replace (call_stack_size <=? length (f :: st_calls s)) with false
      by (symmetry; apply Nat.leb_gt; cbn [length]; lia).
    match goal with |- context [re src ?st] => change st with (set_calls s (f :: f :: st_calls s)) end.
    unfold re. rewrite Hreach, Hs3. rewrite Hc3. cbn [length].
    replace (S (length (st_calls s)) - length (st_calls s)) with 1 by lia. reflexivity. }
  assert (Hfinal : exists s', (let '(s5, v) := spop (set_calls s3 (st_calls s)) in NOk v s5)
                              = NOk (last (stack_of x) VNil) s' /\
                              stack_ok s' /\ stack_of s' = l /\ st_calls s' = st_calls s).
  { destruct (@spop_abs (set_calls s3 (st_calls s)) Hok3) as (s5 & E5 & Hok5 & Hst5 & Hc5 & _).
    rewrite E5. change (stack_of (set_calls s3 (st_calls s))) with (stack_of s3) in *.
    rewrite Hst3 in *. rewrite last_last. rewrite removelast_last in Hst5.
    exists s5. repeat split; auto. }
  destruct Hfinal as (s' & E & H1 & H2 & H3).
  exists s'. split; [|auto].
  destruct is_clo; cbn [callee_obj]; rewrite <- E; exact Hgo.
Qed.
