(* C10: structural validity of a compiled program, as a Prop ([wellformed]) and as an executable
   checker ([wf_check]) that is independent of the compiler model: it only uses the decoder of
   Bytecode.v (operand widths as the VM reads them), read_str's window (vm/instr_execution.rs)
   and the handle hashes.  Definitions only; soundness is in CompilerProofs.v. *)
From Coq Require Import List NArith ZArith Bool.
From Cao Require Import ListUtil CheckUtil Bits CardAst Bytecode Compiler CompilerGen.
Import ListNotations.
Local Open Scope N_scope.

(* ---- UTF-8 as core::str::from_utf8 accepts it (Unicode 15, table 3-7) ---- *)
Definition in_rng (lo hi b : N) : bool := (lo <=? b) && (b <=? hi).
Definition cont (b : N) : bool := in_rng 128 191 b.
Fixpoint utf8_valid (bs : list N) : bool :=
  match bs with
  | [] => true
  | b0 :: r =>
      if b0 <? 128 then utf8_valid r
      else if in_rng 194 223 b0 then
        match r with b1 :: r1 => cont b1 && utf8_valid r1 | _ => false end
      else if in_rng 224 239 b0 then
        match r with
        | b1 :: b2 :: r2 =>
            (if b0 =? 224 then in_rng 160 191 b1 else if b0 =? 237 then in_rng 128 159 b1 else cont b1)
            && cont b2 && utf8_valid r2
        | _ => false
        end
      else if in_rng 240 244 b0 then
        match r with
        | b1 :: b2 :: b3 :: r3 =>
            (if b0 =? 240 then in_rng 144 191 b1 else if b0 =? 244 then in_rng 128 143 b1 else cont b1)
            && cont b2 && cont b3 && utf8_valid r3
        | _ => false
        end
      else false
  end.

(* ---- read_str(&mut p, data) of the VM: Some s iff it returns Some.
   limit = min(len, p + MAX_STR_LEN); `&data[p..limit]` panics when p > len;
   decode_str needs 4 length bytes and `window - 4 >= len` bytes in the window.
   [window = false] drops the MAX_STR_LEN restriction (the string is complete in data). *)
Definition read_str (window : bool) (data : list N) (p : N) : option str :=
  let len := N.of_nat (length data) in
  if len <? p then None
  else
    let limit := if window then N.min len (p + max_str_len) else len in
    let w := limit - p in
    if w <? 4 then None
    else
      let body := skipn (N.to_nat p) data in
      let n := le_to_N (firstn 4 body) in
      if w - 4 <? n then None
      else
        let s := firstn (N.to_nat n) (skipn 4 body) in
        if utf8_valid s then Some s else None.

(* ---- per-instruction conditions ---- *)
Definition jump_target (i : instr) : option Z :=
  match i with
  | IGoto z | IGotoIfTrue z | IGotoIfFalse z => Some z
  | _ => None
  end.
Definition str_operand (i : instr) : option N :=
  match i with
  | IStringLiteral o | INativeFunctionPointer o => Some o
  | _ => None
  end.

Definition max_locals : N := 255.     (* ArrayVec<Local, 255>, ArrayVec<Upvalue, 255> *)
(* local / upvalue / global indices within the ranges the compiler declares *)
Definition index_ok (nvars : N) (i : instr) : bool :=
  match i with
  | ISetGlobalVar id | IReadGlobalVar id => id <? nvars
  | ISetLocalVar x | IReadLocalVar x | ISetUpvalue x | IReadUpvalue x => x <? max_locals
  | IBeginForEach a b c d e | IForEach a b c d e =>
      (a <? max_locals) && (b <? max_locals) && (c <? max_locals) && (d <? max_locals) && (e <? max_locals)
  | IRegisterUpvalue x l => (x <? max_locals) && (l <=? 1)
  (* d723a2c: the operand of CloseUpvalue is the slot of the local that goes out of scope, i.e.
     `locals.len()` read after the pop from an ArrayVec<Local, 255>: the compiler guarantees
     0 <= x <= 254 (CompilerOk.pop_locals_close_small); like the other local indices it is an index
     into the locals of the function the instruction belongs to, which this checker does not
     track per function *)
  | ICloseUpvalue x => x <? max_locals
  | _ => true
  end.

(* membership of a position in the list of instruction starts, on binary numbers (the positions of
   [decode] are unary; comparing those would dominate the running time of the checker) *)
Definition mem_N (x : N) (l : list N) : bool := existsb (N.eqb x) l.

Definition jump_ok (starts : list N) (i : instr) : bool :=
  match jump_target i with
  | Some z => (0 <=? z)%Z && mem_N (Z.to_N z) starts
  | None => true
  end.
Definition string_ok (window : bool) (data : list N) (i : instr) : bool :=
  match str_operand i with
  | Some off => match read_str window data off with Some _ => true | None => false end
  | None => true
  end.

Definition is_exit (i : instr) : bool := match i with IExit => true | _ => false end.
Definition ends_with_exit (is : list (nat * instr)) : bool :=
  match rev is with
  | (_, i) :: _ => is_exit i
  | [] => false
  end.

(* variables.ids (name handle -> id) and variables.names (from_u32 id -> name) are mutually inverse
   and the ids are exactly 0..n-1 *)
Definition nodup_N (l : list N) : bool :=
  (fix go (l : list N) : bool :=
     match l with
     | [] => true
     | x :: r => negb (existsb (N.eqb x) r) && go r
     end) l.
Definition vars_ok (ids : list (N * N)) (names : list (N * str)) : bool :=
  let n := N.of_nat (length ids) in
  Nat.eqb (length names) (length ids)
  && nodup_N (map fst ids) && nodup_N (map snd ids) && nodup_N (map fst names)
  && forallb (fun hi => (snd hi <? n)
                        && match nm_find (handle_from_u32 (snd hi)) names with
                           | Some name => handle_of_bytes name =? fst hi
                           | None => false
                           end) ids
  && forallb (fun kn => match nm_find (handle_of_bytes (snd kn)) ids with
                        | Some id => handle_from_u32 id =? fst kn
                        | None => false
                        end) names.

(* ---- the checker ---- *)
Definition wf_check_gen (window : bool) (B : compiled) : bool :=
  match decode (p_bytecode B) with
  | None => false
  | Some is =>
      let starts := map (fun pi => N.of_nat (fst pi)) is in
      let nvars := N.of_nat (length (p_ids B)) in
      ends_with_exit is
      && forallb (fun pi => jump_ok starts (snd pi) && string_ok window (p_data B) (snd pi)
                            && index_ok nvars (snd pi)) is
      && forallb (fun hp => mem_N (snd hp) starts) (p_labels B)
      && vars_ok (p_ids B) (p_names B)
      && forallb (fun al => mem_N (fst al) starts) (p_trace B)
  end.
(* the window of the VM's reader at /repo HEAD (CompilerGen.read_str_windowed, read from the source) *)
Definition wf_check : compiled -> bool := wf_check_gen read_str_windowed.

(* ---- the Prop ---- *)
Definition wellformed_gen (window : bool) (B : compiled) : Prop :=
  exists is : list (nat * instr),
    (* decodes front to back into known instructions with complete operands *)
    decode (p_bytecode B) = Some is /\
    (* the last instruction is Exit *)
    (exists is' p, is = is' ++ [(p, IExit)]) /\
    (* every jump operand is the first byte of an instruction of the program *)
    (forall p i z, In (p, i) is -> jump_target i = Some z ->
                   (0 <= z)%Z /\ In (Z.to_nat z) (map fst is)) /\
    (* every label lands on an instruction start *)
    (forall h pos, In (h, pos) (p_labels B) -> In (N.to_nat pos) (map fst is)) /\
    (* every string operand is the offset of a complete length-prefixed valid UTF-8 string that
       read_str returns *)
    (forall p i off, In (p, i) is -> str_operand i = Some off ->
                     exists s, read_str window (p_data B) off = Some s) /\
    (* local / upvalue / global indices are in range *)
    (forall p i, In (p, i) is -> index_ok (N.of_nat (length (p_ids B))) i = true) /\
    (* global ids and names correspond one to one *)
    (length (p_names B) = length (p_ids B) /\
     NoDup (map fst (p_ids B)) /\ NoDup (map snd (p_ids B)) /\ NoDup (map fst (p_names B)) /\
     (forall h id, In (h, id) (p_ids B) ->
                   id < N.of_nat (length (p_ids B)) /\
                   exists name, nm_find (handle_from_u32 id) (p_names B) = Some name /\
                                handle_of_bytes name = h) /\
     (forall k name, In (k, name) (p_names B) ->
                     exists id, nm_find (handle_of_bytes name) (p_ids B) = Some id /\
                                handle_from_u32 id = k)) /\
    (* every trace entry is keyed by an instruction start *)
    (forall a l, In (a, l) (p_trace B) -> In (N.to_nat a) (map fst is)).
Definition wellformed : compiled -> Prop := wellformed_gen read_str_windowed.

(* "every instruction that can fail has a trace entry": Pop is the only instruction of the VM
   that cannot return an error (CloseUpvalue can: OutOfMemory from the closed cell's allocation) *)
Definition needs_trace (i : instr) : bool := match i with IPop => false | _ => true end.
Definition untraced (B : compiled) : list (nat * instr) :=
  match decode (p_bytecode B) with
  | None => []
  | Some is =>
      let keys := map fst (p_trace B) in
      filter (fun pi => needs_trace (snd pi) && negb (mem_N (N.of_nat (fst pi)) keys)) is
  end.
Definition trace_complete (B : compiled) : Prop :=
  forall is p i, decode (p_bytecode B) = Some is -> In (p, i) is -> needs_trace i = true ->
                 exists l, In (N.of_nat p, l) (p_trace B).
Definition trace_complete_check (B : compiled) : bool :=
  match untraced B with [] => true | _ => false end.

(* ---- the modelled domain of literals: integer / float literals fit i64 / 64 bits (true for every
   module that comes from the Rust types), function handles are 32-bit ---- *)
Fixpoint card_rng (c : card) : bool :=
  match c with
  | CScalarInt z => ((- 9223372036854775808 <=? z) && (z <? 9223372036854775808))%Z
  | CScalarFloat b => b <? 18446744073709551616
  | CBin _ a b => card_rng a && card_rng b
  | CUn _ a => card_rng a
  | CTri _ a b c => card_rng a && card_rng b && card_rng c
  | CCallNative _ args | CCall _ args | CComposite _ args | CArray args | CClosure _ args =>
      forallb card_rng args
  | CDynamicCall f args => card_rng f && forallb card_rng args
  | CSetGlobalVar _ v | CSetVar _ v => card_rng v
  | CRepeat _ n b => card_rng n && card_rng b
  | CForEach _ _ _ it b => card_rng it && card_rng b
  | _ => true
  end.

Definition fir_rng (f : function_ir) : bool :=
  (fi_handle f <? two32) && forallb card_rng (fi_cards f).

(* all integer / float literals of the flattened program fit i64 / 64 bits (true for every module that
   comes from the Rust types) and the function handles are 32-bit *)
Definition program_in_range (M : module) (o : options) : bool :=
  match into_ir_stream M (o_recursion_limit o) with
  | inr fs => forallb fir_rng fs
  | inl _ => true
  end.
