(* C04 - "running is total", Part E.3: the natives.
   [ninv] = vm_inv + acyclic heap + every native function VALUE in the heap names a native that does not call
   back into the VM (otherwise call1(call1, call1) nests natives until the model's fuel of 8 levels is gone:
   ADiverge in the model, Stackoverflow in the crate).
   The menu natives log1 sub2 fail0 str1 mix3 t4 nil1 tab1 cat2 and the stdlib native __to_array never abort and
   preserve ninv.  call1 try1 call0 rb1 re-enter the interpreter: they never abort and preserve ninv when the
   nested run does ([reenter_ok]).  The stdlib natives __min __max __sort are in C04VmProofs6b.v. *)
From Coq Require Import NArith ZArith List Lia Bool.
From Cao Require Import ListUtil Bits Stacks Vm VmProofs C04VmProofs C04VmProofs2 C04VmProofs3 C04VmProofs4 C04VmProofs5.
Import ListNotations.

Definition simple (n : native) : bool :=
  match n with NCall1 | NTry1 | NCall0 | NRb1 | NStdMin | NStdMax | NStdSort => false | _ => true end.
Definition covered_native (n : native) : bool :=
  match n with NStdMin | NStdMax | NStdSort => false | _ => true end.

Definition natives_simple (h : heap) : Prop :=
  forall a hd n, hget h a = Some (ONative hd) -> find_native hd all_natives = Some n -> simple n = true.

Lemma natives_simple_alloc h o : natives_simple h -> (forall hd, o <> ONative hd) -> natives_simple (h ++ [o]).
Proof.
  intros Hn Ho a hd n Ha. destruct (hget_app_inv _ _ _ _ Ha) as [H|[_ E]]; [eapply Hn; eauto|].
  exfalso. eapply Ho; eauto.
Qed.
Lemma natives_simple_hset h a o : natives_simple h -> (forall hd, o <> ONative hd) -> natives_simple (hset h a o).
Proof.
  intros Hn Ho b hd n Hb. destruct (N.eq_dec a b) as [<-|Hne].
  - destruct (hget h a) eqn:E.
    + rewrite hget_hset_same in Hb by congruence. inversion Hb. exfalso. eapply Ho; eauto.
    + exfalso. assert (H : hget (hset h a o) a <> None) by congruence.
      rewrite hget_lt, hset_length, <- hget_lt in H. congruence.
  - rewrite hget_hset_other in Hb by exact Hne. eapply Hn; eauto.
Qed.

(* ---- ranks under a table write ---- *)
Lemma vdepth_hset_table h rk a t t' v : hget h a = Some (OTable t) ->
  vdepth (hset h a (OTable t')) rk v = vdepth h rk v.
Proof.
  intros Ha. destruct v as [| | |b]; cbn [vdepth]; auto. destruct (N.eq_dec a b) as [<-|Hne].
  - rewrite hget_hset_same by congruence. rewrite Ha. reflexivity.
  - rewrite hget_hset_other by exact Hne. reflexivity.
Qed.

Lemma ranked_set_table h rk a t t' : ranked h rk -> hget h a = Some (OTable t) ->
  (forall v, tmentions t' v -> vdepth h rk v <= rk a) -> ranked (hset h a (OTable t')) rk.
Proof.
  intros Hr Ha Ht b tb Hb. destruct (N.eq_dec a b) as [<-|Hne].
  - rewrite hget_hset_same in Hb by congruence. inversion Hb; subst tb. split; [apply (Hr a t Ha)|].
    intros v Hv. rewrite (vdepth_hset_table h rk a t t' v Ha). apply Ht; exact Hv.
  - rewrite hget_hset_other in Hb by exact Hne. destruct (Hr b tb Hb) as [R1 R2]. split; [exact R1|].
    intros v Hv. rewrite (vdepth_hset_table h rk a t t' v Ha). apply R2; exact Hv.
Qed.

(* a write of an object that is not a table over an object that is not a table *)
Lemma ranked_hset_other h rk a o o' : ranked h rk -> hget h a = Some o ->
  (forall t, o <> OTable t) -> (forall t, o' <> OTable t) -> ranked (hset h a o') rk.
Proof.
  intros Hr Ha Ho Ho' b tb Hb.
  assert (Hd : forall v, vdepth (hset h a o') rk v = vdepth h rk v).
  { intros [| | |c]; cbn [vdepth]; auto. destruct (N.eq_dec a c) as [<-|Hne].
    - rewrite hget_hset_same by congruence. rewrite Ha. destruct o' as [t'| | | | |]; [exfalso; eapply Ho'; eauto| | | | |];
        (destruct o as [t0| | | | |]; [exfalso; eapply Ho; eauto| | | | |]; reflexivity).
    - rewrite hget_hset_other by exact Hne. reflexivity. }
  destruct (N.eq_dec a b) as [<-|Hne].
  - rewrite hget_hset_same in Hb by congruence. inversion Hb. exfalso. eapply Ho'; eauto.
  - rewrite hget_hset_other in Hb by exact Hne. destruct (Hr b tb Hb) as [R1 R2]. split; [exact R1|].
    intros v Hv. rewrite Hd. apply R2; exact Hv.
Qed.

Lemma to_array_go_mentions eq l : forall t0 i t', to_array_go eq t0 i l = Some t' ->
  forall x, tmentions t' x -> tmentions t0 x \/ (exists j, x = VInt j) \/ In x (map snd l).
Proof.
  induction l as [|[k v] r IH]; intros t0 i t' H x Hx; cbn [to_array_go] in H.
  - inversion H; subst. left; exact Hx.
  - destruct (tinsert eq t0 (VInt i) v) as [t1|] eqn:E; [|discriminate].
    destruct (IH _ _ _ H x Hx) as [H1|[H1|H1]].
    + destruct (tinsert_mentions _ _ _ _ _ E x H1) as [H2|[->| ->]]; [left; exact H2 | right; left; eauto | right; right; left; reflexivity].
    + right; left; exact H1.
    + right; right; right; exact H1.
Qed.

Section Natives.
Variable F : fops.
Variable bld : build.
Variable P : program.
Variable reenter : N -> state -> rres.
Variable start : N -> Prop.
(* the aborts that count as acceptable: none for the VM itself (fun _ => False); the check failure AUnmodelled
   for the checked VM of C04VmChecked.v *)
Variable OKA : abort -> Prop.

Notation ipok := (ipok P start).
Notation vm_inv0 := (vm_inv0 P start).
Notation vm_inv := (vm_inv P start).

Definition ninv (s : state) : Prop :=
  vm_inv s /\ heap_acyclic (st_heap s) /\ natives_simple (st_heap s).
Definition nst_ok (s s' : state) : Prop := ninv s' /\ length (st_heap s) <= length (st_heap s').
Definition nres_ok (s : state) (r : nres) : Prop :=
  match r with
  | NStop a _ => OKA a
  | NOk v s' => nst_ok s s' /\ val_ok (st_heap s') v
  | NErr _ s' => nst_ok s s'
  end.

(* the contract of the nested run *)
Definition reenter_ok : Prop := forall ip s, ninv s -> ipok ip ->
  match reenter ip s with
  | RStop a _ => OKA a
  | ROk s' | RErr _ _ s' => nst_ok s s'
  end.

Lemma nst_ok_refl s : ninv s -> nst_ok s s.
Proof. intros H. split; [exact H | apply Nat.le_refl]. Qed.
Lemma nst_ok_trans s s1 s2 : nst_ok s s1 -> nst_ok s1 s2 -> nst_ok s s2.
Proof. intros [_ A] [B C]. split; [exact B | lia]. Qed.
Lemma nres_ok_mono s s1 r : length (st_heap s) <= length (st_heap s1) -> nres_ok s1 r -> nres_ok s r.
Proof.
  intros Hl. destruct r; cbn [nres_ok]; try tauto.
  - intros [[A B] C]. split; [split; [exact A | lia] | exact C].
  - intros [A B]. split; [exact A | lia].
Qed.

(* a state with the same heap *)
Lemma ninv_same_heap s s' : ninv s -> vm_inv0 s' -> st_calls s' <> [] -> st_heap s' = st_heap s -> ninv s'.
Proof. intros (_ & A & B) I1 Hc Hh. split; [split; assumption|]. rewrite Hh. split; assumption. Qed.

Lemma ninv_log_push s e : ninv s -> nst_ok s (log_push s e).
Proof.
  intros Hn. split; [|apply Nat.le_refl]. apply (ninv_same_heap s); [exact Hn | apply inv_log_push; apply Hn | apply Hn | reflexivity].
Qed.

Lemma ninv_spush s v s1 : ninv s -> spush s v = Some s1 -> val_ok (st_heap s) v -> ninv s1 /\ st_heap s1 = st_heap s.
Proof.
  intros Hn E Hv.
  destruct (inv_spush P start _ _ _ E (proj1 (proj1 Hn)) Hv) as (I1 & Hh & Hca & _).
  split; [|exact Hh]. apply (ninv_same_heap s); [exact Hn | exact I1 | rewrite Hca; apply Hn | exact Hh].
Qed.

Section Bodies.
Variable s : state.
Hypothesis Hn : ninv s.
Let Hi : vm_inv0 s := proj1 (proj1 Hn).
Let Hcl : stack_closed s := vi_closed P start s Hi.

Lemma peek_ok n : val_ok (st_heap s) (speek s n).
Proof. apply speek_ok. exact Hcl. Qed.

Lemma ok_log v e : val_ok (st_heap s) v -> nres_ok s (NOk v (log_push s e)).
Proof. intros Hv. split; [apply ninv_log_push; exact Hn | exact Hv]. Qed.
Lemma ok_err e : nres_ok s (NErr e s).
Proof. apply nst_ok_refl; exact Hn. Qed.

Lemma as_str_cases v : val_ok (st_heap s) v -> as_str (st_heap s) v <> SUb.
Proof.
  destruct v as [| | |a]; cbn [as_str val_ok]; try discriminate. intros H.
  destruct (hget (st_heap s) a) as [[]|]; try discriminate. congruence.
Qed.

(* __to_array *)
Lemma to_array_ok self : nres_ok s (native_body F P reenter self NStdToArray s).
Proof.
  cbn [native_body]. cbv zeta. pose proof (peek_ok 0) as Hv.
  destruct (speek s 0) as [| | |a] eqn:Epk; try (split; [apply nst_ok_refl; exact Hn | exact I]).
  cbn [val_ok] in Hv. destruct (hget (st_heap s) a) as [o|] eqn:Ea; [|congruence].
  destruct o as [t| | | | |]; try (split; [apply nst_ok_refl; exact Hn | cbn [val_ok]; congruence]).
  pose proof Hn as ([_ Hc] & [rk Hr] & Hsimple).
  pose proof (vi_heap P start s Hi) as Hhc.
  destruct (salloc s (OTable (mkTable [] []))) as [s2 out] eqn:E2.
  destruct (inv_salloc P start _ _ _ _ E2 Hi) as (I2 & Hh2 & Hout & Hc2 & _); [intros v Hv'; destruct (empty_mentions v Hv')|].
  set (rk2 := rk_set rk out (rk a)).
  assert (Hr2 : ranked (st_heap s2) rk2).
  { rewrite Hh2. unfold rk2. rewrite Hout. apply ranked_alloc; [exact Hr | exact Hhc | apply (Hr a t Ea) |].
    intros t0 E v. inversion E; subst. apply empty_mentions. }
  pose proof (vi_heap P start s2 I2) as Hhc2.
  pose proof (veq0_tot F (st_heap s2) (ex_intro _ rk2 Hr2) Hhc2) as veq2.
  assert (Ht2 : forall v, tmentions t v -> val_ok (st_heap s2) v).
  { intros v Hv'. rewrite Hh2. apply val_ok_app. apply (Hhc a _ Ea). exact Hv'. }
  destruct (titer_go_tot _ _ veq2 (tmap t) (tkeys t)) as [l El].
  { intros k Hk. apply Ht2. left; exact Hk. } { intros k Hk. apply Ht2. right; right; exact Hk. }
  unfold titer. rewrite El.
  destruct (to_array_go_tot _ _ veq2 l (mkTable [] []) 0%Z) as [t' Et']; [intros k Hk; destruct Hk | intros j; exact I|].
  rewrite Et'.
  assert (Hout2 : hget (st_heap s2) out = Some (OTable (mkTable [] []))) by (rewrite Hh2, Hout; apply hget_app_new).
  assert (Hm : forall x, tmentions t' x -> (exists j, x = VInt j) \/ tmentions t x).
  { intros x Hx. destruct (to_array_go_mentions _ _ _ _ _ Et' x Hx) as [H|[H|H]]; [destruct (empty_mentions x H) | left; exact H | right].
    apply in_map_iff in H. destruct H as (kv & <- & Hkv). apply (titer_mentions _ t l El kv Hkv). }
  split; [split|].
  - split; [split|split].
    + apply (inv_set_table P start s2 out _ t' I2 Hout2). intros x Hx. destruct (Hm x Hx) as [[j ->]|H]; [exact I | apply Ht2; exact H].
    + cbn [set_heap st_calls]. rewrite Hc2. exact Hc.
    + exists rk2. apply (ranked_set_table _ _ _ _ _ Hr2 Hout2). intros x Hx.
      destruct (Hm x Hx) as [[j ->]|H]; [cbn [vdepth]; lia|].
      unfold rk2 at 2. unfold rk_set. rewrite N.eqb_refl.
      rewrite Hh2. unfold rk2. rewrite Hout. rewrite vdepth_alloc; [apply (Hr a t Ea); exact H | apply (Hhc a _ Ea); exact H].
    + apply natives_simple_hset; [|intros; discriminate]. rewrite Hh2. apply natives_simple_alloc; [exact Hsimple | intros; discriminate].
  - cbn [set_heap st_heap]. rewrite hset_length, Hh2, app_length. lia.
  - cbn [val_ok set_heap st_heap]. rewrite hget_hset_same; congruence.
Qed.

Lemma body_simple_ok self n : simple n = true -> nres_ok s (native_body F P reenter self n s).
Proof.
  intros Hs. destruct n; try discriminate; try apply to_array_ok; cbn [native_body]; cbv zeta.
  - (* log1 *) apply ok_log. exact I.
  - (* sub2 *) destruct (to_i64_some F _ _ (peek_ok 0)) as [b ->]. destruct (to_i64_some F _ _ (peek_ok 1)) as [a ->].
    apply ok_log. exact I.
  - (* fail0 *) apply ok_err.
  - (* str1 *) pose proof (as_str_cases _ (peek_ok 0)) as H. destruct (as_str _ _); [apply ok_log; exact I | apply ok_err | congruence].
  - (* mix3 *) destruct (to_i64_some F _ _ (peek_ok 1)) as [b ->]. destruct (to_f64_some F _ _ (peek_ok 2)) as [a ->].
    apply ok_log. exact I.
  - (* t4 *) pose proof (as_str_cases _ (peek_ok 0)) as H. destruct (as_str _ _); [| apply ok_err | congruence].
    destruct (as_bool_some F _ _ (peek_ok 1)) as [c ->]. destruct (to_f64_some F _ _ (peek_ok 2)) as [b' ->].
    destruct (to_i64_some F _ _ (peek_ok 3)) as [a ->]. apply ok_log. exact I.
  - (* nil1 *) pose proof (peek_ok 0) as Hv. destruct (speek s 0) as [| | |a] eqn:E; try (apply ok_log; exact I).
    destruct (to_i64_some F _ _ Hv) as [i ->]. apply ok_log. exact I.
  - (* tab1 *) pose proof (get_table_cases _ _ (peek_ok 0) (vi_heap P start s Hi)) as H.
    destruct (get_table _ _); [apply ok_log; exact I | apply ok_err | contradiction].
  - (* cat2 *) pose proof (as_str_cases _ (peek_ok 0)) as H0. destruct (as_str _ (speek s 0)); [| apply ok_err | congruence].
    pose proof (as_str_cases _ (peek_ok 1)) as H1. destruct (as_str _ (speek s 1)); [apply ok_log; exact I | apply ok_err | congruence].
Qed.

End Bodies.

(* the wrapper of call_native: pop the arguments, push the result *)
Lemma ninv_spop_n s n : ninv s -> ninv (spop_n s n).
Proof.
  intros Hn. apply (ninv_same_heap s); [exact Hn | apply inv_spop_n; apply Hn | apply Hn | reflexivity].
Qed.

Lemma wrap_ok s n (r : nres) : nres_ok s r ->
  nres_ok s (match r with
             | NOk v s1 => let s1 := spop_n s1 (native_arity n) in
                           match spush s1 v with Some s2 => NOk v s2 | None => NErr EStackoverflow s1 end
             | NErr e s1 => NErr (ETaskFailure (native_name n) e) (spop_n s1 (native_arity n))
             | NStop a s1 => NStop a s1
             end).
Proof.
  destruct r as [v s1|e s1|]; cbn [nres_ok]; [| |tauto].
  - intros [[Hn1 Hl] Hv]. cbv zeta. pose proof (ninv_spop_n s1 (native_arity n) Hn1) as Hn2.
    destruct (spush _ v) as [s2|] eqn:E; cbn [nres_ok].
    + destruct (ninv_spush _ _ _ Hn2 E Hv) as [Hn3 Hh]. split; [split; [exact Hn3 | rewrite Hh; exact Hl] | rewrite Hh; exact Hv].
    + split; [exact Hn2 | exact Hl].
  - intros [Hn1 Hl]. split; [apply ninv_spop_n; exact Hn1 | exact Hl].
Qed.

Lemma call_native_fuel_S f h s :
  call_native_fuel F P reenter (S f) h s =
  match find_native h all_natives with
  | None => NErr (EProcedureNotFound h) s
  | Some n =>
      match native_body F P reenter (call_native_fuel F P reenter f) n s with
      | NOk v s1 =>
          let s1 := spop_n s1 (native_arity n) in
          match spush s1 v with
          | Some s2 => NOk v s2
          | None => NErr EStackoverflow s1
          end
      | NErr e s1 => NErr (ETaskFailure (native_name n) e) (spop_n s1 (native_arity n))
      | NStop a s1 => NStop a s1
      end
  end.
Proof. reflexivity. Qed.

(* a native that does not call back is fine at every fuel above 0, whatever [self] is *)
Lemma call_simple_ok f h s : ninv s ->
  (forall n, find_native h all_natives = Some n -> simple n = true) ->
  nres_ok s (call_native_fuel F P reenter (S f) h s).
Proof.
  intros Hn Hs. rewrite call_native_fuel_S. destruct (find_native h all_natives) as [n|] eqn:E; [|apply nst_ok_refl; exact Hn].
  apply wrap_ok. apply body_simple_ok; [exact Hn | apply Hs; reflexivity].
Qed.

Hypothesis Hcode : code_ok P start.
Hypothesis Hre : reenter_ok.
Hypothesis Hlen : (0 < code_len P)%N.

Lemma skipn_nonempty {A} (l : list A) d : l <> [] -> 0 < d -> skipn (length l - d) l <> [].
Proof.
  intros Hl Hd H. apply (f_equal (@length A)) in H. rewrite skipn_length in H. cbn [length] in H.
  destruct l; [congruence|]. cbn [length] in H. lia.
Qed.
Lemma in_skipn {A} (l : list A) n x : In x (skipn n l) -> In x l.
Proof. revert l; induction n as [|n IH]; intros [|y l] H; cbn [skipn] in H; auto. right. apply IH; exact H. Qed.

Lemma ninv_unwind x d : ninv x -> 0 < d -> ninv (set_calls x (skipn (length (st_calls x) - d) (st_calls x))).
Proof.
  intros Hx Hd. apply (ninv_same_heap x); [exact Hx | | | reflexivity].
  - apply inv_set_calls; [apply Hx|]. intros fr Hfr. apply (vi_frames P start x (proj1 (proj1 Hx))). eapply in_skipn; eauto.
  - cbn [set_calls st_calls]. apply skipn_nonempty; [apply Hx | exact Hd].
Qed.

(* Vm::run_function on a closed acyclic heap, [self] = call_native with fuel left *)
Lemma run_function_ok f fv s : ninv s -> val_ok (st_heap s) fv ->
  nres_ok s (run_function P reenter (call_native_fuel F P reenter (S f)) fv s).
Proof.
  intros Hn Hv. unfold run_function. destruct fv as [| | |a]; try (apply nst_ok_refl; exact Hn).
  cbn [val_ok] in Hv. destruct (hget (st_heap s) a) as [o|] eqn:Ea; [|congruence].
  pose proof Hn as ([Hi Hc] & Hac & Hsimple).
  assert (Hgo : forall arity label clo, (clo = None \/ exists hd ar ups, clo = Some a /\ o = OClo hd ar ups) ->
    nres_ok s (if (code_len P =? 0)%N then NStop APanic s
      else match assoc label (p_labels P) with
           | None => NErr (EProcedureNotFound label) s
           | Some src =>
               let len := N.of_nat (scount s) in
               if (len <? arity)%N then NErr EMissingArgument s
               else let f := mkFrame src (last_pos P) (len - arity) clo in
                    match push_frame s f with
                    | None => NErr ECallStackOverflow s
                    | Some s1 =>
                        match push_frame s1 f with
                        | None => NErr ECallStackOverflow s
                        | Some s2 =>
                            let depth := length (st_calls s) in
                            let unwind (x : state) := set_calls x (skipn (length (st_calls x) - depth) (st_calls x)) in
                            match reenter src s2 with
                            | ROk s3 => let '(s5, v) := spop (unwind s3) in NOk v s5
                            | RErr e _ s3 => NErr e (unwind s3)
                            | RStop ab s3 => NStop ab s3
                            end
                        end
                    end
           end)).
  { intros arity label clo Hclo. destruct (N.eqb_spec (code_len P) 0); [lia|].
    destruct (assoc label (p_labels P)) as [src|] eqn:El; [|apply nst_ok_refl; exact Hn]. cbv zeta.
    destruct (_ <? arity)%N; [apply nst_ok_refl; exact Hn|].
    set (fr := mkFrame src (last_pos P) (N.of_nat (scount s) - arity) clo).
    assert (Hfr : forall x, cap x = cap s -> st_heap x = st_heap s -> frame_ok P start x fr).
    { intros x Hcap Hh. split; [|split; [apply (co_last P start Hcode)|]].
      - rewrite Hcap. cbn [fr fr_off]. unfold scount. destruct (vi_stack P start s Hi). unfold cap in *. lia.
      - intros ca Eca. cbn [fr fr_clo] in Eca. destruct Hclo as [->|(hd & ar & ups & -> & ->)]; [discriminate|].
        inversion Eca; subst. rewrite Hh. eauto. }
    destruct (push_frame s fr) as [s1|] eqn:E1; [|apply nst_ok_refl; exact Hn].
    destruct (inv_push_frame P start _ _ _ E1 Hi (Hfr s eq_refl eq_refl)) as (I1 & Hh1 & Hc1 & Hs1).
    destruct (push_frame s1 fr) as [s2|] eqn:E2; [|apply nst_ok_refl; exact Hn].
    assert (Hcap1 : cap s1 = cap s) by (unfold cap; rewrite Hs1; reflexivity).
    destruct (inv_push_frame P start _ _ _ E2 I1 (Hfr s1 Hcap1 Hh1)) as (I2 & Hh2 & Hc2 & Hs2).
    assert (Hn2 : ninv s2).
    { apply (ninv_same_heap s); [exact Hn | exact I2 | rewrite Hc2; discriminate | rewrite Hh2, Hh1; reflexivity]. }
    assert (Hl2 : length (st_heap s) <= length (st_heap s2)) by (rewrite Hh2, Hh1; apply Nat.le_refl).
    pose proof (Hre src s2 Hn2 (co_labels P start Hcode _ _ El)) as Hr.
    assert (Hd : 0 < length (st_calls s)) by (destruct (st_calls s); [congruence | cbn; lia]).
    destruct (reenter src s2) as [s3|e ip3 s3|]; [| |exact Hr].
    - destruct Hr as [Hn3 Hl3]. pose proof (ninv_unwind s3 _ Hn3 Hd) as Hn4.
      destruct (spop _) as [s5 v] eqn:E5.
      destruct (inv_spop P start _ _ _ E5 (proj1 (proj1 Hn4))) as (I5 & Hv5 & Hh5 & Hc5 & _).
      split; [split|exact Hv5].
      + apply (ninv_same_heap _ s5 Hn4 I5); [rewrite Hc5; apply Hn4 | exact Hh5].
      + rewrite Hh5. cbn [set_calls st_heap]. lia.
    - destruct Hr as [Hn3 Hl3]. split; [apply ninv_unwind; assumption | cbn [set_calls st_heap]; lia]. }
  destruct o; try (apply nst_ok_refl; exact Hn).
  - apply Hgo. left; reflexivity.
  - (* a native function value: it names a native that does not call back *)
    pose proof (call_simple_ok f h s Hn (fun n E => Hsimple a h n Ea E)) as Hr.
    destruct (call_native_fuel F P reenter (S f) h s) as [v s1|e s1|]; [| exact Hr | exact Hr].
    destruct Hr as [[Hn1 Hl1] _]. destruct (spop s1) as [s2 w] eqn:E2.
    destruct (inv_spop P start _ _ _ E2 (proj1 (proj1 Hn1))) as (I2 & Hw & Hh2 & Hc2 & _).
    split; [split|exact Hw].
    + apply (ninv_same_heap _ s2 Hn1 I2); [rewrite Hc2; apply Hn1 | exact Hh2].
    + rewrite Hh2. exact Hl1.
  - apply Hgo. right. eauto 6.
Qed.

(* the natives that call back once *)
Lemma body_reentrant_ok f n s : ninv s -> covered_native n = true ->
  nres_ok s (native_body F P reenter (call_native_fuel F P reenter (S f)) n s).
Proof.
  intros Hn Hcov. destruct (simple n) eqn:Es; [apply body_simple_ok; assumption|].
  pose proof (vi_closed P start s (proj1 (proj1 Hn))) as Hcl.
  assert (Hpush : forall (k : state -> nres),
    (forall s1, ninv s1 -> st_heap s1 = st_heap s -> nres_ok s1 (k s1)) ->
    nres_ok s (match spush s (speek s 0) with None => NErr EStackoverflow s | Some s1 => k s1 end)).
  { intros k Hk. destruct (spush s (speek s 0)) as [s1|] eqn:E; [|apply nst_ok_refl; exact Hn].
    destruct (ninv_spush _ _ _ Hn E (speek_ok s 0 Hcl)) as [Hn1 Hh1].
    apply (nres_ok_mono s s1); [rewrite Hh1; apply Nat.le_refl | apply Hk; assumption]. }
  destruct n; try discriminate; cbn [native_body]; cbv zeta.
  - (* call1 *) apply Hpush. intros s1 Hn1 Hh1. apply run_function_ok; [exact Hn1 | rewrite Hh1; apply speek_ok; exact Hcl].
  - (* try1 *) apply Hpush. intros s1 Hn1 Hh1.
    pose proof (run_function_ok f (speek s 1) s1 Hn1 ltac:(rewrite Hh1; apply speek_ok; exact Hcl)) as Hr.
    destruct (run_function _ _ _ _ _) as [v s2|e s2|]; [exact Hr | | exact Hr].
    cbn [nres_ok] in *. split; [|exact I]. eapply nst_ok_trans; [exact Hr | apply ninv_log_push; apply Hr].
  - (* call0 *) apply run_function_ok; [exact Hn | apply speek_ok; exact Hcl].
  - (* rb1 *) apply Hpush. intros s1 Hn1 Hh1.
    pose proof (run_function_ok f (speek s 1) s1 Hn1 ltac:(rewrite Hh1; apply speek_ok; exact Hcl)) as Hr.
    destruct (run_function _ _ _ _ _) as [v s2|e s2|]; [| | exact Hr]; cbn [nres_ok] in *.
    + destruct Hr as [Hr Hv]. split; [eapply nst_ok_trans; [exact Hr | apply ninv_log_push; apply Hr] | exact Hv].
    + eapply nst_ok_trans; [exact Hr | apply ninv_log_push; apply Hr].
Qed.

Theorem call_native_ok h s : ninv s ->
  (forall n, find_native h all_natives = Some n -> covered_native n = true) ->
  nres_ok s (call_native F P reenter h s).
Proof.
  intros Hn Hcov. unfold call_native. rewrite (call_native_fuel_S 7).
  destruct (find_native h all_natives) as [n|] eqn:E; [|apply nst_ok_refl; exact Hn].
  apply wrap_ok. apply (body_reentrant_ok 6); [exact Hn | apply Hcov; reflexivity].
Qed.

End Natives.
