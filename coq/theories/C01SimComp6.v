(* C01, simulation, compiler half for fragment F6r (Repeat without a loop variable).
   The compile context now records the scope depth of every local ([ctx6 Ld d]: the locals are the
   (name, depth) pairs Ld, most recent first; d is the current scope depth): a Repeat opens a scope for
   its two hidden locals and another one for its body, and scope_end pops the locals of the scope it
   closes.  The combinators are those of C01SimComp5 for this context. *)
From Cao Require TableProofs.
From Coq Require Import List NArith ZArith Bool Lia.
From Cao Require Import ListUtil CheckUtil Bits CardAst Bytecode Compiler CompilerGen CompilerProofs CompilerWf
     CompilerResolve StdlibGen C01SimKeep C01SimDefs C01SimComp C01SimDefs2 C01SimComp2 C01SimDefs4 C01SimDefs5 C01SimComp5 C01SimDefs6.
Import ListNotations.
Local Open Scope N_scope.

Definition mkl2 (nd : str * Z) : local := {| l_name := fst nd; l_depth := snd nd; l_captured := false |}.

Definition ctx6 (Ld : list (str * Z)) (d : Z) (s : cstate) : Prop :=
  (cs_locals s = [map mkl2 (rev Ld)] /\ scope_depth s = d) /\ cs_upvalues s = [[]] /\ cs_pc s = bytes (cs_code s).

Definition emits6 (Ld : list (str * Z)) (d : Z) (Ld' : list (str * Z)) (d' : Z)
           (m : M unit) (names : list str) (code : list (N * N) -> N -> list instr) : Prop :=
  forall s s', ctx6 Ld d s -> m s = ROk tt s' ->
    ctx6 Ld' d' s' /\ sub2 s s' /\
    (forall n, In n names -> named s' n) /\
    (forall T, sub (cs_ids s') T -> cs_code s' = rev (code T (cs_pc s)) ++ cs_code s).

Lemma emits6_pc_gen L0 d0 L1 d1 m n c s s' T :
  emits6 L0 d0 L1 d1 m n c -> ctx6 L0 d0 s -> m s = ROk tt s' -> sub (cs_ids s') T ->
  cs_pc s' = cs_pc s + bytes (c T (cs_pc s)).
Proof.
  intros H Hc E HT. destruct (H _ _ Hc E) as ((_ & _ & Hp') & _ & _ & D).
  destruct Hc as (_ & _ & Hp). rewrite Hp', (D T HT), bytes_app, bytes_rev, <- Hp. lia.
Qed.

Lemma emits6_seq_gen L0 d0 L1 d1 L2 d2 m1 m2 n1 n2 c1 c2 :
  emits6 L0 d0 L1 d1 m1 n1 c1 -> emits6 L1 d1 L2 d2 m2 n2 c2 ->
  emits6 L0 d0 L2 d2 (m1 ;; m2) (n1 ++ n2) (fun T b => c1 T b ++ c2 T (b + bytes (c1 T b))).
Proof.
  intros H1 H2 s s' Hc H. apply bind_ok in H. destruct H as ([] & s1 & E1 & E2).
  destruct (H1 _ _ Hc E1) as (Hc1 & Hs1 & Hn1 & Hk1).
  destruct (H2 _ _ Hc1 E2) as (Hc2 & Hs2 & Hn2 & Hk2).
  split; [exact Hc2|]. split; [eapply sub2_trans; eauto|]. split.
  - intros n Hin. apply in_app_or in Hin. destruct Hin as [Hin|Hin]; [|auto].
    eapply named_sub2; [apply Hn1, Hin | exact Hs2].
  - intros T HT.
    rewrite (Hk2 T HT), (Hk1 T (sub_trans _ _ _ (proj1 Hs2) HT)).
    rewrite (emits6_pc_gen _ _ _ _ _ _ _ _ _ T H1 Hc E1 (sub_trans _ _ _ (proj1 Hs2) HT)).
    rewrite rev_app_distr, app_assoc. reflexivity.
Qed.

Section Fixed.
Variable Ld : list (str * Z).
Variable dp : Z.
Let Ln : list str := map fst Ld.

Lemma emits6_nop m : (forall s s', m s = ROk tt s' -> keepL s s') -> emits6 Ld dp Ld dp m [] (fun _ _ => []).
Proof.
  intros H s s' ((Hl & Hd) & Hu & Hp) E. destruct (H _ _ E) as ((a & b & c & d & e & f) & g).
  split; [unfold ctx6, scope_depth; rewrite c, d, e, a, g; repeat split; auto|].
  split; [unfold sub2; rewrite b, f; apply sub2_refl|]. split; [intros n []|].
  intros T _. rewrite a. reflexivity.
Qed.

Lemma emits6_push i : emits6 Ld dp Ld dp (push_instr i) [] (fun _ _ => [i]).
Proof.
  intros s s' ((Hl & Hd) & Hu & Hp) E. rewrite push_instr_eq in E. injection E as <-.
  split; [repeat split; [exact Hl | exact Hd | exact Hu | cbn [pushed cs_pc cs_code set_code set_trace bytes]; unfold spanN; rewrite Hp; lia]|].
  split; [split; intros ? ? H; exact H|]. split; [intros n []|].
  intros T _. reflexivity.
Qed.

Lemma emits6_global n (k : N -> instr) :
  emits6 Ld dp Ld dp (do id <- global_id n ;; push_instr (k id)) [n] (fun T _ => [k (idT T n)]).
Proof.
  intros s s' ((Hl & Hd) & Hu & Hp) E. apply bind_ok in E. destruct E as (id & s1 & E1 & E2).
  destruct (global_id_spec _ _ _ _ E1) as (A & B & C & D & S1 & Pc1 & Sn & Nm).
  assert (Hd1 : scope_depth s1 = scope_depth s).
  { revert E1. unfold global_id, bind, handle_from_bytes_m, name_checked.
    destruct (nm_find _ (cs_ids s)); [|destruct (ht_entry_hangs (cs_ids s)); [discriminate|]];
      (destruct (nm_find _ (cs_names s)); [destruct (_ && _); [discriminate|] | destruct (ht_entry_hangs (cs_names s)); [discriminate|]]);
      intros E; injection E as _ <-; reflexivity. }
  rewrite push_instr_eq in E2. injection E2 as <-.
  split.
  { split; [split|split].
    - cbn. congruence.
    - change (scope_depth s1 = dp). rewrite Hd1. exact Hd.
    - cbn. congruence.
    - cbn [pushed cs_pc cs_code set_code set_trace bytes]. unfold spanN. rewrite Pc1, Hp, A. lia. }
  split; [split; [exact S1 | exact Sn]|]. split.
  - intros x [<-|[]]. exists id. split; [exact D | exact Nm].
  - intros T HT. cbn. unfold idT. rewrite (HT _ _ D), A. reflexivity.
Qed.

Lemma emits6_ext m n n' c c' :
  emits6 Ld dp Ld dp m n c -> (forall x, In x n' -> In x n) -> (forall T b, c' T b = c T b) -> emits6 Ld dp Ld dp m n' c'.
Proof.
  intros H Hn Hcc s s' Hc E. destruct (H _ _ Hc E) as (A & B & C & D).
  split; [exact A|]. split; [exact B|]. split; [intros x Hx; apply C, Hn, Hx|].
  intros T HT. rewrite Hcc. apply D, HT.
Qed.

(* the address after the emitted code *)
Lemma emits6_pc m n c s s' T :
  emits6 Ld dp Ld dp m n c -> ctx6 Ld dp s -> m s = ROk tt s' -> sub (cs_ids s') T ->
  cs_pc s' = cs_pc s + bytes (c T (cs_pc s)).
Proof.
  intros H Hc E HT. destruct (H _ _ Hc E) as ((_ & _ & Hp') & _ & _ & D).
  destruct Hc as (_ & _ & Hp). rewrite Hp', (D T HT), bytes_app, bytes_rev, <- Hp. lia.
Qed.

Lemma emits6_seq m1 m2 n1 n2 c1 c2 :
  emits6 Ld dp Ld dp m1 n1 c1 -> emits6 Ld dp Ld dp m2 n2 c2 ->
  emits6 Ld dp Ld dp (m1 ;; m2) (n1 ++ n2) (fun T b => c1 T b ++ c2 T (b + bytes (c1 T b))).
Proof.
  intros H1 H2 s s' Hc H. apply bind_ok in H. destruct H as ([] & s1 & E1 & E2).
  destruct (H1 _ _ Hc E1) as (Hc1 & Hs1 & Hn1 & Hk1).
  destruct (H2 _ _ Hc1 E2) as (Hc2 & Hs2 & Hn2 & Hk2).
  split; [exact Hc2|]. split; [eapply sub2_trans; eauto|]. split.
  - intros n Hin. apply in_app_or in Hin. destruct Hin as [Hin|Hin]; [|auto].
    eapply named_sub2; [apply Hn1, Hin | exact Hs2].
  - intros T HT.
    rewrite (Hk2 T HT), (Hk1 T (sub_trans _ _ _ (proj1 Hs2) HT)).
    rewrite (emits6_pc _ _ _ _ _ T H1 Hc E1 (sub_trans _ _ _ (proj1 Hs2) HT)).
    rewrite rev_app_distr, app_assoc. reflexivity.
Qed.

Lemma ctx6_set_code s c : cs_pc s = bytes c -> ctx6 Ld dp s -> ctx6 Ld dp (set_code c (cs_pc s) s).
Proof. intros Hp ((A & A') & B & _). repeat split; auto. Qed.

(* encode_if_then: the skip instruction, the body, the patch *)
Lemma emits6_if_then (skip : Z -> instr) body n c :
  skip = IGotoIfFalse \/ skip = IGotoIfTrue ->
  emits6 Ld dp Ld dp body n c ->
  emits6 Ld dp Ld dp (encode_if_then skip body) n
         (fun T b => skip (u32_to_i32 (b + 5 + bytes (c T (b + 5)))) :: c T (b + 5)).
Proof.
  intros Hskip Hb s s' Hc E. unfold encode_if_then in E.
  apply bind_ok in E. destruct E as (p & sa & Ea & E). injection Ea as <- <-.
  apply bind_ok in E. destruct E as ([] & s1 & E1 & E).
  apply bind_ok in E. destruct E as ([] & s2 & E2 & E3).
  rewrite push_instr_eq in E1. injection E1 as <-.
  assert (Hspan : spanN (skip 0%Z) = 5) by (destruct Hskip; subst; reflexivity).
  assert (Hc1 : ctx6 Ld dp (pushed s (skip 0%Z))).
  { destruct Hc as ((A & A') & B & C). repeat split; auto.
    cbn [pushed cs_pc cs_code set_code set_trace bytes]. rewrite Hspan, C. unfold spanN in Hspan. rewrite Hspan. lia. }
  assert (Hpc1 : cs_pc (pushed s (skip 0%Z)) = cs_pc s + 5).
  { cbn [pushed cs_pc set_code set_trace]. unfold spanN in Hspan. rewrite Hspan. reflexivity. }
  destruct (Hb _ _ Hc1 E2) as (Hc2 & Hs2 & Hn2 & Hk2).
  unfold patch_jump_here in E3.
  destruct (patch_code (cs_code s2) (cs_pc s2) (cs_pc s) (u32_to_i32 (cs_pc s2))) as [cc|] eqn:Ep; [|discriminate].
  injection E3 as <-.
  assert (Hfinal : forall T, sub (cs_ids s2) T ->
            cc = rev (skip (u32_to_i32 (cs_pc s + 5 + bytes (c T (cs_pc s + 5)))) :: c T (cs_pc s + 5)) ++ cs_code s).
  { intros T HT. pose proof (Hk2 T HT) as Hcode. rewrite Hpc1 in Hcode.
    cbn [pushed cs_code set_code set_trace] in Hcode.
    pose proof (emits6_pc _ _ _ _ _ T Hb Hc1 E2 HT) as Hpc2. rewrite Hpc1 in Hpc2.
    destruct Hc as (_ & _ & Hp). destruct Hc2 as (_ & _ & Hp2).
    assert (Hpa : patch_code (rev (c T (cs_pc s + 5)) ++ skip 0%Z :: cs_code s) (cs_pc s2) (cs_pc s) (u32_to_i32 (cs_pc s2))
                  = Some (rev (c T (cs_pc s + 5)) ++ skip (u32_to_i32 (cs_pc s2)) :: cs_code s)).
    { rewrite Hp at 2. apply patch_code_at; [rewrite Hp2, Hcode; reflexivity | destruct Hskip; subst; reflexivity]. }
    rewrite Hcode, Hpa in Ep. injection Ep as <-. rewrite Hpc2. cbn [rev]. rewrite <- app_assoc. reflexivity. }
  split.
  { apply ctx6_set_code; [|exact Hc2]. destruct Hc2 as (_ & _ & Hp2). rewrite Hp2.
    assert (Hsp : forall z, spanN (skip z) = 5) by (intros; destruct Hskip; subst; reflexivity).
    rewrite (Hfinal _ (sub_refl _)), (Hk2 _ (sub_refl _)), Hpc1. cbn [rev pushed cs_code set_code set_trace].
    rewrite !bytes_app. cbn [bytes]. rewrite !Hsp. lia. }
  split; [exact Hs2|]. split; [exact Hn2|]. intros T HT. cbn [cs_code set_code]. apply Hfinal, HT.
Qed.

Lemma emits6_if_else A Bb na nb ca cb :
  emits6 Ld dp Ld dp A na ca -> emits6 Ld dp Ld dp Bb nb cb ->
  emits6 Ld dp Ld dp (if_else_tail A Bb) (na ++ nb) (code_if_else ca cb).
Proof.
  intros HA HB s s' Hc E. unfold if_else_tail in E.
  apply bind_ok in E. destruct E as (p & sa & Ea & E). injection Ea as <- <-.
  apply bind_ok in E. destruct E as ([] & s1 & E1 & E).
  apply bind_ok in E. destruct E as ([] & s2 & E2 & E).
  apply bind_ok in E. destruct E as (p2 & sb & Eb & E). injection Eb as <- <-.
  apply bind_ok in E. destruct E as ([] & s3 & E3 & E).
  apply bind_ok in E. destruct E as ([] & s4 & E4 & E).
  apply bind_ok in E. destruct E as ([] & s4' & E4' & E).
  apply bind_ok in E. destruct E as ([] & s5 & E5 & E6).
  rewrite push_instr_eq in E1. injection E1 as <-.
  rewrite push_instr_eq in E3. injection E3 as <-.
  injection E4' as <-.
  pose proof Hc as ((Hl & Hd) & Hu & Hp).
  (* after the conditional jump *)
  assert (Hc1 : ctx6 Ld dp (pushed s (IGotoIfFalse 0%Z))).
  { repeat split; auto. cbn [pushed cs_pc cs_code set_code set_trace bytes]. rewrite Hp. unfold spanN. lia. }
  assert (Hpc1 : cs_pc (pushed s (IGotoIfFalse 0%Z)) = cs_pc s + 5) by reflexivity.
  destruct (HA _ _ Hc1 E2) as (Hc2 & Hs2 & Hn2 & Hk2).
  pose proof Hc2 as ((Hl2 & Hd2) & Hu2 & Hp2).
  (* after the Goto over the else branch *)
  set (s3 := pushed s2 (IGoto placeholder)) in *.
  assert (Hpc3 : cs_pc s3 = cs_pc s2 + 5) by reflexivity.
  assert (Hcode3 : cs_code s3 = IGoto placeholder :: cs_code s2) by reflexivity.
  assert (Hp3 : cs_pc s3 = bytes (cs_code s3)).
  { rewrite Hpc3, Hcode3. cbn [bytes]. rewrite Hp2. change (spanN (IGoto placeholder)) with 5. lia. }
  (* the first patch *)
  assert (Hcode2 : cs_code s2 = rev (ca (cs_ids s2) (cs_pc s + 5)) ++ IGotoIfFalse 0%Z :: cs_code s).
  { rewrite (Hk2 _ (sub_refl _)), Hpc1. reflexivity. }
  assert (E4b : patch_jump_here (bytes (cs_code s)) s3 =
                ROk tt (set_code ((IGoto placeholder :: rev (ca (cs_ids s2) (cs_pc s + 5))) ++
                                  IGotoIfFalse (u32_to_i32 (cs_pc s3)) :: cs_code s) (cs_pc s3) s3)).
  { apply (patch_here_spec s3 (IGoto placeholder :: rev (ca (cs_ids s2) (cs_pc s + 5))) (IGotoIfFalse 0%Z) (cs_code s)
                            (IGotoIfFalse (u32_to_i32 (cs_pc s3))));
      [exact Hp3 | rewrite Hcode3, Hcode2; reflexivity | reflexivity]. }
  rewrite Hp in E4. rewrite E4b in E4. injection E4 as <-.
  set (s4 := set_code _ (cs_pc s3) s3) in *.
  assert (Hc4 : ctx6 Ld dp (set_index (cs_fn s4) (tl (cs_idx s4)) s4)).
  { repeat split; auto. cbn [cs_pc cs_code set_index s4 set_code]. rewrite Hp3, Hcode3, Hcode2.
    cbn [app bytes]. rewrite !bytes_app. cbn [bytes]. change (spanN (IGotoIfFalse _)) with 5. reflexivity. }
  (* the else branch *)
  assert (HB' : emits6 Ld dp Ld dp (with_sub 2 Bb) nb cb).
  { unfold with_sub. eapply emits6_ext.
    - apply emits6_seq; [apply emits6_nop, keepL_push_sub|].
      apply emits6_seq; [exact HB | apply emits6_nop, keepL_pop_sub].
    - intros x Hx. cbn [app]. rewrite app_nil_r. exact Hx.
    - intros T b. cbn [app bytes]. rewrite N.add_0_r, app_nil_r. reflexivity. }
  destruct (HB' _ _ Hc4 E5) as (Hc5 & Hs5 & Hn5 & Hk5).
  pose proof Hc5 as ((Hl5 & Hd5) & Hu5 & Hp5).
  assert (Hids4 : cs_ids (set_index (cs_fn s4) (tl (cs_idx s4)) s4) = cs_ids s2) by reflexivity.
  assert (Hs25 : sub2 s2 s5) by exact Hs5. clear Hs5. pose proof (proj1 Hs25) as Hs5.
  assert (Hpc4 : cs_pc (set_index (cs_fn s4) (tl (cs_idx s4)) s4) = cs_pc s2 + 5) by reflexivity.
  (* the second patch *)
  assert (Hshape : forall T, sub (cs_ids s5) T ->
            cs_code s5 = rev (cb T (cs_pc s2 + 5)) ++ IGoto placeholder ::
                         (rev (ca T (cs_pc s + 5)) ++ IGotoIfFalse (u32_to_i32 (cs_pc s2 + 5)) :: cs_code s) /\
            cs_pc s2 = cs_pc s + 5 + bytes (ca T (cs_pc s + 5)) /\
            cs_pc s5 = cs_pc s2 + 5 + bytes (cb T (cs_pc s2 + 5))).
  { intros T HT. pose proof (sub_trans _ _ _ Hs5 HT) as HT2.
    rewrite (Hk5 T HT), Hpc4. cbn [cs_code set_index s4 set_code app]. rewrite Hpc3.
    pose proof (Hk2 T HT2) as Hk2T. rewrite Hpc1 in Hk2T. cbn [pushed cs_code set_code set_trace] in Hk2T.
    assert (Hca : ca (cs_ids s2) (cs_pc s + 5) = ca T (cs_pc s + 5)).
    { rewrite Hcode2 in Hk2T. apply app_inv_tail in Hk2T. apply (f_equal (@rev instr)) in Hk2T.
      rewrite !rev_involutive in Hk2T. exact Hk2T. }
    rewrite Hca. split; [reflexivity|]. split.
    - rewrite (emits6_pc _ _ _ _ _ T HA Hc1 E2 HT2), Hpc1. reflexivity.
    - rewrite (emits6_pc _ _ _ _ _ T HB' Hc4 E5 HT), Hpc4. reflexivity. }
  assert (Hs' : forall T, sub (cs_ids s5) T ->
            s' = set_code (rev (cb T (cs_pc s2 + 5)) ++ IGoto (u32_to_i32 (cs_pc s5)) ::
                           (rev (ca T (cs_pc s + 5)) ++ IGotoIfFalse (u32_to_i32 (cs_pc s2 + 5)) :: cs_code s))
                          (cs_pc s5) s5).
  { intros T HT. destruct (Hshape T HT) as (HcT & HpT2 & HpT5). pose proof E6 as E6'.
    assert (Hat : cs_pc s2 = bytes (rev (ca T (cs_pc s + 5)) ++ IGotoIfFalse (u32_to_i32 (cs_pc s2 + 5)) :: cs_code s)).
    { rewrite bytes_app, bytes_rev. cbn [bytes]. change (spanN (IGotoIfFalse _)) with 5. rewrite HpT2 at 1. rewrite Hp. lia. }
    rewrite Hat in E6'.
    rewrite (patch_here_spec s5 _ _ _ (IGoto (u32_to_i32 (cs_pc s5))) Hp5 HcT eq_refl) in E6'. injection E6' as <-.
    reflexivity. }
  assert (Hids' : cs_ids s' = cs_ids s5) by (rewrite (Hs' _ (sub_refl _)); reflexivity).
  split.
  { rewrite (Hs' _ (sub_refl _)). apply ctx6_set_code; [|exact Hc5].
    destruct (Hshape _ (sub_refl _)) as (HcT & _ & _). rewrite Hp5, HcT, !bytes_app. cbn [bytes].
    change (spanN (IGoto _)) with 5. reflexivity. }
  assert (Hs5' : sub2 s5 s') by (rewrite (Hs' _ (sub_refl _)); split; intros ? ? H; exact H).
  split; [eapply sub2_trans; [|exact Hs5']; eapply sub2_trans; [exact Hs2 | exact Hs25]|]. split.
  { intros n Hin. eapply named_sub2; [|exact Hs5']. apply in_app_or in Hin. destruct Hin as [Hin|Hin]; [|auto].
    eapply named_sub2; [apply Hn2, Hin | exact Hs25]. }
  rewrite Hids'. intros T HT5.
  rewrite (Hs' T HT5). cbn [cs_code set_code]. destruct (Hshape T HT5) as (_ & HpT2 & HpT5).
  unfold code_if_else. cbv zeta.
  replace (cs_pc s + 5 + bytes (ca T (cs_pc s + 5)) + 5) with (cs_pc s2 + 5) by (rewrite HpT2; reflexivity).
  replace (cs_pc s2 + 5 + bytes (cb T (cs_pc s2 + 5))) with (cs_pc s5) by (rewrite HpT5; reflexivity).
  cbn [rev]. rewrite rev_app_distr. cbn [rev app]. rewrite <- !app_assoc. cbn [app]. reflexivity.
Qed.

Lemma emits6_with_sub i m n c : emits6 Ld dp Ld dp m n c -> emits6 Ld dp Ld dp (with_sub i m) n c.
Proof.
  intros H. unfold with_sub. eapply emits6_ext.
  - apply emits6_seq; [apply emits6_nop, keepL_push_sub|].
    apply emits6_seq; [exact H | apply emits6_nop, keepL_pop_sub].
  - intros x Hx. cbn [app]. rewrite app_nil_r. exact Hx.
  - intros T b. cbn [app bytes]. rewrite N.add_0_r, app_nil_r. reflexivity.
Qed.



(* ---- resolving a name against the locals ---- *)







Lemma rfind_slot6 (L : list (str * Z)) n :
  rfind_index (fun l => str_eqb (l_name l) n) (map mkl2 (rev L)) 0 None = slot (map fst L) n.
Proof.
  induction L as [|[x dx] r IH]; [reflexivity|].
  cbn [rev]. rewrite map_app. cbn [map fst]. rewrite rfind_app. cbn [mkl2 l_name fst].
  rewrite str_eqb_conv, str_eqb_sym. unfold slot in *. cbn [find_first length].
  destruct (RefSem.str_eqb n x).
  - rewrite !map_length, rev_length. f_equal. lia.
  - rewrite IH. destruct (find_first n (map fst r)) as [q|] eqn:Eq; [|reflexivity].
    pose proof (find_first_lt _ _ _ Eq). rewrite map_length in *. f_equal. lia.
Qed.



Lemma resolve_var_6 n s :
  ctx6 Ld dp s -> is_empty n = false ->
  exists s1, resolve_var n s = ROk (match slot Ln n with Some i => VLocal (N.of_nat i) | None => VGlobal end) s1 /\
             keepL s s1.
Proof.
  intros ((Hl & Hd) & Hu & _) Hn. unfold resolve_var, bind, validate_var_name. rewrite Hn. cbn [ret].
  rewrite Hl. cbn [hd]. rewrite rfind_slot6. fold Ln. destruct (slot Ln n) as [i|].
  - exists s. split; [reflexivity|]. repeat split.
  - rewrite Hu. cbn [resolve_upvalue]. eexists. split; [reflexivity|]. repeat split; cbn; auto.
Qed.

Lemma emits6_bind_resolve n (k : variable -> M unit) names code :
  is_empty n = false ->
  emits6 Ld dp Ld dp (k (match slot Ln n with Some i => VLocal (N.of_nat i) | None => VGlobal end)) names code ->
  emits6 Ld dp Ld dp (do v <- resolve_var n ;; k v) names code.
Proof.
  intros Hn Hk s s' Hc E. apply bind_ok in E. destruct E as (v & s1 & E1 & E2).
  destruct (resolve_var_6 n s Hc Hn) as (s1' & E1' & K). rewrite E1' in E1. injection E1 as <- <-.
  destruct K as ((a & b & c & d & e & f) & g).
  assert (Hc1 : ctx6 Ld dp s1').
  { destruct Hc as ((Hl & Hd) & Hu & Hp). unfold ctx6, scope_depth in *. rewrite c, d, e, a, g. repeat split; auto. }
  destruct (Hk _ _ Hc1 E2) as (A & B & C & D).
  split; [exact A|]. split; [unfold sub2 in *; rewrite <- b, <- f; exact B|]. split; [exact C|].
  intros T HT. rewrite (D T HT), e, a. reflexivity.
Qed.

(* ---- expressions ---- *)
Lemma emits6_read_var n :
  var_ok n = true ->
  emits6 Ld dp Ld dp (read_var_card n) (if lmem n Ln then [] else [n])
         (fun T _ => match slot Ln n with Some i => [IReadLocalVar (N.of_nat i)] | None => [IReadGlobalVar (idT T n)] end).
Proof.
  intros Hn. unfold var_ok in Hn. apply andb_true_iff in Hn. destruct Hn as [Hne Hdot].
  apply negb_true_iff in Hne, Hdot.
  unfold read_var_card. rewrite (split_no_dot _ Hdot).
  assert (Hprops : emits6 Ld dp Ld dp (read_props (split_c c_dot [])) [] (fun _ _ => [])).
  { apply emits6_nop. cbn. intros s0 s0' E0. injection E0 as <-. repeat split. }
  change (do scope <- resolve_var n ;; _) with
    (do v <- resolve_var n ;; (fun scope => match scope with
                                            | VLocal i => read_local i
                                            | VUpvalue i => read_upvalue i
                                            | VGlobal => do id <- global_id n ;; push_instr (IReadGlobalVar id)
                                            end ;; read_props (split_c c_dot [])) v).
  apply emits6_bind_resolve; [exact Hne|]. cbv beta. unfold lmem, slot.
  destruct (find_first n Ln) as [p|].
  - eapply emits6_ext.
    + apply emits6_seq; [apply emits6_push | exact Hprops].
    + intros x [].
    + intros T b. reflexivity.
  - eapply emits6_ext.
    + apply emits6_seq; [apply emits6_global | exact Hprops].
    + intros x Hx. exact Hx.
    + intros T b. reflexivity.
Qed.

Lemma emits6_expr e : expr_f1 e = true ->
  emits6 Ld dp Ld dp (process_card e) (expr_gnames Ln e) (fun T _ => code_expr5 T Ln e).
Proof.
  induction e; intros He; cbn [expr_f1] in He; try discriminate He.
  - apply andb_true_iff in He. destruct He as [He He2]. apply andb_true_iff in He. destruct He as [Hop He1].
    rewrite process_card_binop by exact Hop.
    eapply emits6_ext.
    + apply emits6_seq; [apply emits6_nop, keepL_card_label|].
      apply emits6_seq; [apply emits6_with_sub, IHe1, He1|].
      apply emits6_seq; [apply emits6_with_sub, IHe2, He2 | apply emits6_push].
    + intros x Hx. cbn [expr_gnames app] in *. rewrite app_nil_r. exact Hx.
    + intros T b. cbn [code_expr5 app]. reflexivity.
  - destruct op; try discriminate He. cbn [process_card unop_instr].
    eapply emits6_ext.
    + apply emits6_seq; [apply emits6_nop, keepL_card_label|].
      apply emits6_seq; [apply emits6_with_sub, IHe, He | apply emits6_push].
    + intros x Hx. cbn [expr_gnames app] in *. rewrite app_nil_r. exact Hx.
    + intros T b. cbn [code_expr5 app]. reflexivity.
  - cbn [process_card]. eapply emits6_ext.
    + apply emits6_seq; [apply emits6_nop, keepL_card_label | apply emits6_push].
    + intros x [].
    + reflexivity.
  - cbn [process_card]. eapply emits6_ext.
    + apply emits6_seq; [apply emits6_nop, keepL_card_label | apply emits6_push].
    + intros x [].
    + reflexivity.
  - cbn [process_card]. eapply emits6_ext.
    + apply emits6_seq; [apply emits6_nop, keepL_card_label | apply emits6_read_var, He].
    + intros x Hx. exact Hx.
    + reflexivity.
Qed.

(* ---- statements in a fixed local context ---- *)



Lemma emits6_set_local x e i :
  var_ok x = true -> expr_f1 e = true -> slot Ln x = Some i ->
  emits6 Ld dp Ld dp (process_card (CSetVar x e)) (expr_gnames Ln e)
         (fun T _ => code_expr5 T Ln e ++ [ISetLocalVar (N.of_nat i)]).
Proof.
  intros Hx He Hi. unfold var_ok in Hx. apply andb_true_iff in Hx. destruct Hx as [Hne Hdot].
  apply negb_true_iff in Hne, Hdot. cbn [process_card]. rewrite (rsplit_no_dot _ Hdot).
  eapply emits6_ext.
  - apply emits6_seq; [apply emits6_nop, keepL_card_label|].
    apply emits6_seq; [apply emits6_with_sub, emits6_expr, He|].
    apply emits6_bind_resolve; [exact Hne|]. rewrite Hi. apply emits6_push.
  - intros y Hy. cbn [app] in *. rewrite app_nil_r. exact Hy.
  - intros T b. cbn [app]. reflexivity.
Qed.

Lemma emits6_while_gen e body nb cb z :
  expr_f1 e = true -> emits6 Ld dp Ld dp body nb cb ->
  emits6 Ld dp Ld dp (with_sub 0 (process_card e) ;; push_sub 1 ;;
          encode_if_then IGotoIfFalse (body ;; push_instr (IGoto z)) ;; pop_sub)
         (expr_gnames Ln e ++ nb)
         (fun T base =>
            let ce := code_expr5 T Ln e in
            let b' := cb T (base + bytes ce + 5) in
            ce ++ IGotoIfFalse (u32_to_i32 (base + bytes ce + 5 + (bytes b' + 5))) :: b' ++ [IGoto z]).
Proof.
  intros He Hb. eapply emits6_ext.
  - apply emits6_seq; [apply emits6_with_sub, emits6_expr, He|].
    apply emits6_seq; [apply emits6_nop, keepL_push_sub|].
    apply emits6_seq.
    { apply (emits6_if_then IGotoIfFalse); [left; reflexivity|].
      apply emits6_seq; [exact Hb | apply emits6_push]. }
    apply emits6_nop, keepL_pop_sub.
  - intros x Hx. cbn [app] in *. rewrite !app_nil_r. exact Hx.
  - intros T base. cbv zeta. cbn [app bytes]. rewrite ?N.add_0_r, ?app_nil_r.
    rewrite bytes_app. cbn [bytes]. change (spanN (IGoto z)) with 5. rewrite ?N.add_0_r. reflexivity.
Qed.


End Fixed.

(* ------------------------------------------------------------------ scopes *)
Definition wfd (Ld : list (str * Z)) (d : Z) : Prop := Forall (fun nd => (snd nd <= d)%Z) Ld.

Lemma ctx6_keep Ld d s s1 : keepL s s1 -> ctx6 Ld d s -> ctx6 Ld d s1.
Proof.
  intros ((a & b & c & e0 & e & f) & g) ((Hl & Hd) & Hu & Hp). unfold ctx6, scope_depth in *.
  rewrite c, e0, e, a, g. repeat split; auto.
Qed.

Lemma depth_cons s d : scope_depth s = d -> (1 <= d)%Z -> exists r, cs_depth s = d :: r.
Proof. unfold scope_depth. destruct (cs_depth s) as [|x r]; cbn [hd]; intros H H1; [lia | subst; eauto]. Qed.

Lemma emits6_scope_begin Ld d : (1 <= d)%Z -> emits6 Ld d Ld (d + 1) scope_begin [] (fun _ _ => []).
Proof.
  intros Hd1 s s' ((Hl & Hd) & Hu & Hp) E. destruct (depth_cons _ _ Hd Hd1) as [r Hr].
  unfold scope_begin in E. injection E as <-.
  split; [split; [split|split]; cbn; auto; unfold scope_depth; cbn; rewrite Hr; reflexivity|].
  split; [split; intros ? ? H; exact H|]. split; [intros n []|]. intros T _. reflexivity.
Qed.

Lemma pop_locals_split Lpop Lkeep d0 :
  Forall (fun nd => (d0 < snd nd)%Z) Lpop ->
  (match Lkeep with [] => True | nd :: _ => (snd nd <= d0)%Z end) ->
  pop_locals (map mkl2 (Lpop ++ Lkeep)) d0 = (map mkl2 Lkeep, repeat IPop (length Lpop)).
Proof.
  intros Hp Hk. induction Hp as [|nd r Hnd _ IH]; cbn [app length repeat].
  - destruct Lkeep as [|nd r]; [reflexivity|]. cbn [map pop_locals mkl2 l_depth].
    assert (E : (d0 <? snd nd)%Z = false) by (apply Z.ltb_ge; exact Hk). rewrite E. reflexivity.
  - cbn [map pop_locals mkl2 l_depth l_captured].
    assert (E : (d0 <? snd nd)%Z = true) by (apply Z.ltb_lt; exact Hnd). rewrite E, IH. reflexivity.
Qed.

Lemma push_raws_depth is : forall s0 s', push_raws is s0 = ROk tt s' -> cs_depth s' = cs_depth s0.
Proof.
  induction is as [|i is IH]; intros s0 s' E; cbn [push_raws] in E; [injection E as <-; reflexivity|].
  apply bind_ok in E. destruct E as ([] & s1 & E1 & E2). rewrite push_instr_eq in E1. injection E1 as <-.
  rewrite (IH _ _ E2). reflexivity.
Qed.

Lemma emits6_scope_end Lpop Lkeep d :
  (1 <= d)%Z ->
  Forall (fun nd => (d - 1 < snd nd)%Z) Lpop ->
  (match Lkeep with [] => True | nd :: _ => (snd nd <= d - 1)%Z end) ->
  emits6 (Lpop ++ Lkeep) d Lkeep (d - 1) scope_end [] (fun _ _ => repeat IPop (length Lpop)).
Proof.
  intros Hd1 Hpop Hkeep s s' ((Hl & Hd) & Hu & Hp) E. destruct (depth_cons _ _ Hd Hd1) as [r Hr].
  unfold scope_end in E. rewrite Hl, Hr in E. cbn [hd map_hd] in E.
  rewrite <- map_rev, rev_involutive, (pop_locals_split _ _ _ Hpop Hkeep) in E. cbn [fst snd] in E.
  destruct (push_raws_spec _ _ _ E) as (Fc & Fi & Fn & Fp & Fl & Fu).
  cbn [cs_code cs_ids cs_names cs_pc cs_locals cs_upvalues set_scopes map_hd] in Fc, Fi, Fn, Fp, Fl, Fu.
  assert (Fd : cs_depth s' = (d - 1)%Z :: r) by (rewrite (push_raws_depth _ _ _ E); reflexivity).
  split.
  { split; [split|split].
    - rewrite Fl, map_rev. reflexivity.
    - unfold scope_depth. rewrite Fd. reflexivity.
    - rewrite Fu. exact Hu.
    - rewrite Fp, Fc, bytes_app, bytes_rev, Hp. lia. }
  split; [split; [rewrite Fi | rewrite Fn]; intros ? ? H; exact H|]. split; [intros n []|].
  intros T _. rewrite Fc, rev_repeat. reflexivity.
Qed.


(* ------------------------------------------------------------------ Repeat *)
Lemma add_local_unchecked_spec Ld d nm s i s' :
  ctx6 Ld d s -> add_local_unchecked nm s = ROk i s' ->
  i = N.of_nat (length Ld) /\ ctx6 ((nm, d) :: Ld) d s' /\
  cs_code s' = cs_code s /\ cs_ids s' = cs_ids s /\ cs_names s' = cs_names s /\ cs_pc s' = cs_pc s.
Proof.
  intros ((Hl & Hd) & Hu & Hp) E. unfold add_local_unchecked in E. rewrite Hl in E. cbn [hd] in E.
  rewrite map_length, rev_length in E. destruct (Nat.leb locals_cap (length Ld)); [discriminate|].
  injection E as <- <-. split; [reflexivity|]. split.
  { split; [split|split]; cbn [cs_locals cs_upvalues cs_pc cs_code set_scopes]; auto.
    cbn [map_hd]. rewrite Hd. cbn [rev]. rewrite map_app. reflexivity. }
  repeat split.
Qed.

Lemma emits6_bind_alu L d L' d' nm (K : N -> M unit) names code :
  emits6 ((nm, d) :: L) d L' d' (K (N.of_nat (length L))) names code ->
  emits6 L d L' d' (do i <- add_local_unchecked nm ;; K i) names code.
Proof.
  intros HK s s' Hc E. apply bind_ok in E. destruct E as (i & s1 & E1 & E2).
  destruct (add_local_unchecked_spec _ _ _ _ _ _ Hc E1) as (-> & Hc1 & A & B & C & D).
  destruct (HK _ _ Hc1 E2) as (X & Y & Z & W). split; [exact X|].
  split; [unfold sub2 in *; rewrite <- B, <- C; exact Y|]. split; [exact Z|].
  intros T HT. rewrite (W T HT), D, A. reflexivity.
Qed.

Lemma emits6_bind_pc L d L' d' (K : Z -> M unit) names (code : Z -> list (N * N) -> N -> list instr) :
  (forall z, emits6 L d L' d' (K z) names (code z)) ->
  emits6 L d L' d' (do z <- get_pc_i32 ;; K z) names (fun T b => code (u32_to_i32 b) T b).
Proof.
  intros HK s s' Hc E. apply bind_ok in E. destruct E as (z & s1 & E1 & E2). injection E1 as <- <-.
  apply (HK _ _ _ Hc E2).
Qed.

Definition repeat_code (cn : list instr) (cbf : N -> list instr) (k : N) (base : N) : list instr :=
  let b0 := base + bytes cn + 19 in
  let cbb := cbf (b0 + 16) in
  cn ++ [ISetLocalVar k; IScalarInt 0; ISetLocalVar (k + 1)] ++
  [IReadLocalVar (k + 1); IReadLocalVar k; ILess; IGotoIfFalse (u32_to_i32 (b0 + 16 + bytes cbb + 25))] ++
  cbb ++ [IScalarInt 1; IReadLocalVar (k + 1); IAdd; ISetLocalVar (k + 1); IGoto (u32_to_i32 b0)] ++
  [IPop; IPop].

Lemma emits6_repeat Ld d n b nb cb :
  (1 <= d)%Z -> wfd Ld d -> expr_f1 n = true ->
  emits6 (([], d + 1) :: ([], d + 1) :: Ld)%Z (d + 2) (([], d + 1) :: ([], d + 1) :: Ld)%Z (d + 2) (process_card b) nb cb ->
  emits6 Ld d Ld d (process_card (CRepeat None n b)) (expr_gnames (map fst Ld) n ++ nb)
         (fun T base => repeat_code (code_expr5 T (map fst Ld) n) (cb T) (N.of_nat (length Ld)) base).
Proof.
  intros Hd1 Hwf Hn Hb.
  set (Ld2 := (([], d + 1) :: ([], d + 1) :: Ld)%Z) in *.
  set (k := N.of_nat (length Ld)).
  assert (Hd2 : (1 <= d + 1)%Z) by lia. assert (Hd3 : (1 <= d + 2)%Z) by lia.
  (* the body of the loop: its scope holds no local of its own *)
  assert (Hend_in : emits6 Ld2 (d + 2) Ld2 (d + 1) scope_end [] (fun _ _ => [])).
  { pose proof (emits6_scope_end [] Ld2 (d + 2) Hd3 (Forall_nil _)) as H. cbn [app length repeat] in H.
    replace (d + 2 - 1)%Z with (d + 1)%Z in H by lia. apply H. cbn. lia. }
  assert (Hend_out : emits6 Ld2 (d + 1) Ld d scope_end [] (fun _ _ => [IPop; IPop])).
  { pose proof (emits6_scope_end [([], d + 1); ([], d + 1)]%Z Ld (d + 1) Hd2) as H. cbn [app length repeat] in H.
    replace (d + 1 - 1)%Z with d in H by lia. apply H.
    - repeat constructor; cbn; lia.
    - destruct Ld as [|nd r]; [exact I|]. inversion Hwf; assumption. }
  cbn [process_card]. eapply emits6_ext.
  - apply emits6_seq_gen with (L1 := Ld) (d1 := d); [apply emits6_nop, keepL_card_label|].
    apply emits6_seq_gen with (L1 := Ld) (d1 := d); [apply emits6_with_sub, emits6_expr, Hn|].
    apply emits6_seq_gen with (L1 := Ld) (d1 := (d + 1)%Z); [apply emits6_scope_begin, Hd1|].
    apply emits6_bind_alu. apply emits6_bind_alu. fold Ld2. cbn [length]. fold k.
    replace (N.of_nat (S (length Ld))) with (k + 1) by (unfold k; lia).
    apply emits6_seq_gen with (L1 := Ld2) (d1 := (d + 1)%Z); [apply emits6_push|].
    apply emits6_seq_gen with (L1 := Ld2) (d1 := (d + 1)%Z).
    { apply emits6_seq; [apply emits6_nop, keepL_card_label | apply emits6_push]. }
    apply emits6_seq_gen with (L1 := Ld2) (d1 := (d + 1)%Z); [apply emits6_push|].
    apply emits6_bind_pc. intros z.
    apply emits6_seq_gen with (L1 := Ld2) (d1 := (d + 1)%Z); [apply emits6_push|].
    apply emits6_seq_gen with (L1 := Ld2) (d1 := (d + 1)%Z); [apply emits6_push|].
    apply emits6_seq_gen with (L1 := Ld2) (d1 := (d + 1)%Z); [apply emits6_push|].
    apply emits6_seq_gen with (L1 := Ld2) (d1 := (d + 1)%Z); [|exact Hend_out].
    apply (emits6_if_then Ld2 (d + 1) IGotoIfFalse); [left; reflexivity|].
    apply emits6_seq_gen with (L1 := Ld2) (d1 := (d + 1 + 1)%Z); [apply emits6_scope_begin, Hd2|].
    replace (d + 1 + 1)%Z with (d + 2)%Z by lia.
    apply emits6_seq_gen with (L1 := Ld2) (d1 := (d + 2)%Z).
    { cbn [bind_loop_var]. apply emits6_nop. intros s0 s0' E0. injection E0 as <-. repeat split. }
    apply emits6_seq_gen with (L1 := Ld2) (d1 := (d + 2)%Z); [apply emits6_with_sub, Hb|].
    apply emits6_seq_gen with (L1 := Ld2) (d1 := (d + 1)%Z); [exact Hend_in|].
    apply emits6_seq_gen with (L1 := Ld2) (d1 := (d + 1)%Z).
    { apply emits6_seq; [apply emits6_nop, keepL_card_label | apply emits6_push]. }
    apply emits6_seq_gen with (L1 := Ld2) (d1 := (d + 1)%Z); [apply emits6_push|].
    apply emits6_seq_gen with (L1 := Ld2) (d1 := (d + 1)%Z); [apply emits6_push|].
    apply emits6_seq_gen with (L1 := Ld2) (d1 := (d + 1)%Z); [apply emits6_push|].
    apply emits6_push.
  - intros x Hx. cbn [app] in *. rewrite ?app_nil_r. exact Hx.
  - intros T base. unfold repeat_code. cbv zeta. cbn [app bytes]. rewrite ?N.add_0_r, ?app_nil_r.
    change (spanN (ISetLocalVar k)) with 5. change (spanN (ISetLocalVar (k + 1))) with 5.
    change (spanN (IReadLocalVar k)) with 5. change (spanN (IReadLocalVar (k + 1))) with 5.
    change (spanN (IScalarInt 0)) with 9. change (spanN ILess) with 1.
    set (bn := bytes (code_expr5 T (map fst Ld) n)).
    replace (base + bn + 5 + 9 + 5 + 5 + 5 + 1 + 5) with (base + bn + 19 + 16) by lia.
    replace (base + bn + 5 + 9 + 5) with (base + bn + 19) by lia.
    set (cbb := cb T (base + bn + 19 + 16)).
    rewrite bytes_app. cbn [bytes].
    change (spanN (IScalarInt 1)) with 9. change (spanN (IReadLocalVar (k + 1))) with 5. change (spanN IAdd) with 1.
    change (spanN (ISetLocalVar (k + 1))) with 5. change (spanN (IGoto _)) with 5.
    replace (base + bn + 19 + 16 + (bytes cbb + (9 + (5 + (1 + (5 + (5 + 0))))))) with (base + bn + 19 + 16 + bytes cbb + 25) by lia.
    rewrite <- app_assoc. cbn [app]. reflexivity.
Qed.
Definition stmt_ok6 (c : card) : Prop :=
  forall Ld d, (1 <= d)%Z -> wfd Ld d -> stmt6 (map fst Ld) c = true ->
    emits6 Ld d Ld d (process_card c) (stmt_gnames6 (map fst Ld) c) (fun T b => code6 T (map fst Ld) b c).

Lemma emits6_subexpr Ld d l :
  (1 <= d)%Z -> wfd Ld d -> Forall stmt_ok6 l ->
  forallb (stmt6 (map fst Ld)) l = true -> forall i,
  emits6 Ld d Ld d ((fix subexpr (l : list card) (i : N) {struct l} : M unit :=
             match l with
             | [] => ret tt
             | x :: r => with_sub i (process_card x) ;; subexpr r (i + 1)
             end) l i) (flat_map (stmt_gnames6 (map fst Ld)) l) (fun T b => code_seq6 T (map fst Ld) b l).
Proof.
  intros Hd1 Hwf. induction 1 as [|x r Hx _ IH]; intros Hc i.
  - apply emits6_nop. intros s s' E. injection E as <-. repeat split.
  - cbn [forallb] in Hc. apply andb_true_iff in Hc. destruct Hc as [H1 H2].
    eapply emits6_ext.
    + apply emits6_seq; [apply emits6_with_sub, (Hx Ld d Hd1 Hwf H1) | apply (IH H2 (i + 1))].
    + intros y Hy. exact Hy.
    + intros T b. reflexivity.
Qed.

Lemma emits6_stmt6 c : stmt_ok6 c.
Proof.
  induction c using card_ind'; intros Ld d Hd1 Hwf Hc; cbn [stmt6] in Hc; try discriminate Hc.
  - (* IfTrue / IfFalse / While *)
    destruct op; try discriminate Hc; apply andb_true_iff in Hc; destruct Hc as [He Hb].
    + cbn [process_card]. eapply emits6_ext.
      * apply emits6_seq; [apply emits6_nop, keepL_card_label|].
        apply emits6_seq; [apply emits6_with_sub, emits6_expr, He|].
        apply emits6_seq; [apply emits6_nop, keepL_push_sub|].
        apply emits6_seq; [apply (emits6_if_then Ld d IGotoIfFalse); [left; reflexivity | apply (IHc2 Ld d Hd1 Hwf Hb)]|].
        apply emits6_nop, keepL_pop_sub.
      * intros x Hx. cbn [stmt_gnames6 app] in *. rewrite app_nil_r. exact Hx.
      * intros T b. cbn [code6 app bytes]. rewrite ?N.add_0_r, ?app_nil_r. reflexivity.
    + cbn [process_card]. eapply emits6_ext.
      * apply emits6_seq; [apply emits6_nop, keepL_card_label|].
        apply emits6_seq; [apply emits6_with_sub, emits6_expr, He|].
        apply emits6_seq; [apply emits6_nop, keepL_push_sub|].
        apply emits6_seq; [apply (emits6_if_then Ld d IGotoIfTrue); [right; reflexivity | apply (IHc2 Ld d Hd1 Hwf Hb)]|].
        apply emits6_nop, keepL_pop_sub.
      * intros x Hx. cbn [stmt_gnames6 app] in *. rewrite app_nil_r. exact Hx.
      * intros T b. cbn [code6 app bytes]. rewrite ?N.add_0_r, ?app_nil_r. reflexivity.
    + (* While *)
      intros s s' Hcx E. cbn [process_card] in E.
      apply bind_ok in E. destruct E as ([] & s0 & E0 & E).
      apply bind_ok in E. destruct E as (z & s0' & Ez & E). injection Ez as <- <-.
      destruct (keepL_card_label _ _ E0) as ((k1 & k2 & k3 & k4 & k5 & k6) & k7).
      assert (Hcx0 : ctx6 Ld d s0).
      { eapply ctx6_keep; [|exact Hcx]. repeat split; auto. }
      destruct (emits6_while_gen Ld d c1 _ _ _ (u32_to_i32 (cs_pc s0)) He (IHc2 Ld d Hd1 Hwf Hb) _ _ Hcx0 E) as (A & B & C & D).
      split; [exact A|]. split; [destruct B as [B1 B2]; split; [rewrite <- k2; exact B1 | rewrite <- k6; exact B2]|].
      split; [exact C|].
      intros T HT. rewrite (D T HT), k1, k5. reflexivity.
  - (* IfElse *)
    destruct op; try discriminate Hc. apply andb_true_iff in Hc. destruct Hc as [Hc Hb].
    apply andb_true_iff in Hc. destruct Hc as [He Ha]. cbn [process_card].
    change (with_sub 0 (process_card c1) ;; push_sub 1 ;; _)
      with (with_sub 0 (process_card c1) ;; push_sub 1 ;; if_else_tail (process_card c2) (process_card c3)).
    eapply emits6_ext.
    + apply emits6_seq; [apply emits6_nop, keepL_card_label|].
      apply emits6_seq; [apply emits6_with_sub, emits6_expr, He|].
      apply emits6_seq; [apply emits6_nop, keepL_push_sub|].
      apply emits6_if_else; [apply (IHc2 Ld d Hd1 Hwf Ha) | apply (IHc3 Ld d Hd1 Hwf Hb)].
    + intros x Hx. cbn [stmt_gnames6 app] in *. exact Hx.
    + intros T b. cbn [code6 app bytes]. unfold code_if_else. rewrite ?N.add_0_r. reflexivity.
  - (* Comment *)
    cbn [process_card]. eapply emits6_ext.
    + apply emits6_seq; [apply emits6_nop, keepL_card_label|]. apply emits6_nop.
      intros s0 s0' E. injection E as <-. repeat split.
    + intros x [].
    + reflexivity.
  - (* SetGlobalVar *)
    apply andb_true_iff in Hc. destruct Hc as [Hne He]. apply negb_true_iff in Hne.
    cbn [process_card]. rewrite Hne. eapply emits6_ext.
    + apply emits6_seq; [apply emits6_nop, keepL_card_label|].
      apply emits6_seq; [apply emits6_with_sub, emits6_expr, He | apply (emits6_global Ld d n ISetGlobalVar)].
    + intros x Hx. exact Hx.
    + reflexivity.
  - (* SetVar of an existing local *)
    apply andb_true_iff in Hc. destruct Hc as [Hc He]. apply andb_true_iff in Hc. destruct Hc as [Hx Hm].
    unfold lmem in Hm. destruct (find_first n (map fst Ld)) as [p|] eqn:Ef; [|discriminate].
    eapply emits6_ext.
    + apply (emits6_set_local Ld d n c (length (map fst Ld) - 1 - p) Hx He). unfold slot. rewrite Ef. reflexivity.
    + intros x Hx'. exact Hx'.
    + intros T b. cbn [code6 stmt_gnames6]. unfold set_slot, slot. rewrite Ef. reflexivity.
  - (* Repeat *)
    destruct i; [discriminate Hc|]. apply andb_true_iff in Hc. destruct Hc as [Hn Hb].
    assert (Hwf2 : wfd (([], d + 1) :: ([], d + 1) :: Ld)%Z (d + 2)).
    { repeat constructor; cbn [snd]; try lia. eapply Forall_impl; [|exact Hwf]. cbn. intros; lia. }
    eapply emits6_ext.
    + assert (Hd2 : (1 <= d + 2)%Z) by lia.
      apply (emits6_repeat Ld d c1 c2 _ _ Hd1 Hwf Hn (IHc2 ((([] : str), d + 1) :: ([], d + 1) :: Ld)%Z (d + 2)%Z Hd2 Hwf2 Hb)).
    + intros x Hx. exact Hx.
    + intros T base. cbn [code6 map fst]. unfold repeat_code. rewrite map_length. reflexivity.
  - (* Composite *)
    cbn [process_card]. eapply emits6_ext.
    + apply emits6_seq; [apply emits6_nop, keepL_card_label|].
      apply emits6_subexpr; [exact Hd1 | exact Hwf | eassumption | exact Hc].
    + intros x Hx. exact Hx.
    + intros T b. rewrite code6_composite. cbn [app bytes]. rewrite N.add_0_r. reflexivity.
Qed.


(* ------------------------------------------------------------------ the cards of main *)
Definition ld1 (Ln : list str) : list (str * Z) := map (fun x => (x, 1%Z)) Ln.
Lemma ld1_fst Ln : map fst (ld1 Ln) = Ln.
Proof. unfold ld1. rewrite map_map. cbn [fst]. apply map_id. Qed.
Lemma ld1_length Ln : length (ld1 Ln) = length Ln.
Proof. apply map_length. Qed.
Lemma ld1_wfd Ln : wfd (ld1 Ln) 1.
Proof. unfold wfd, ld1. apply Forall_forall. intros nd H. apply in_map_iff in H. destruct H as (x & <- & _). cbn. lia. Qed.

Lemma emits6_declare_tail Ld d x :
  is_empty x = false -> lmem x (map fst Ld) = false ->
  emits6 Ld d ((x, d) :: Ld) d
         (do var <- resolve_var x ;;
          match var with
          | VLocal i => write_local i
          | VGlobal => do i <- add_local x ;; write_local i
          | VUpvalue i => write_upvalue i
          end) [] (fun _ _ => [ISetLocalVar (N.of_nat (length Ld))]).
Proof.
  intros Hne Hm s s' Hc E. apply bind_ok in E. destruct E as (v & s1 & E1 & E2).
  destruct (resolve_var_6 Ld d x s Hc Hne) as (s1' & E1' & K). rewrite E1' in E1.
  unfold lmem, slot in *. destruct (find_first x (map fst Ld)); [discriminate|]. injection E1 as <- <-.
  pose proof (ctx6_keep _ _ _ _ K Hc) as Hc1.
  destruct K as ((a & b & c & e0 & e & f) & g).
  assert (E3 : (do i <- add_local_unchecked x ;; write_local i) s1' = ROk tt s').
  { unfold add_local, bind, validate_var_name in E2. rewrite Hne in E2. cbn [ret] in E2. exact E2. }
  destruct (emits6_bind_alu Ld d _ d x write_local [] (fun _ _ => [ISetLocalVar (N.of_nat (length Ld))])
              (emits6_push ((x, d) :: Ld) d (ISetLocalVar (N.of_nat (length Ld)))) _ _ Hc1 E3) as (X & Y & Z & W).
  split; [exact X|]. split; [unfold sub2 in *; rewrite <- b, <- f; exact Y|]. split; [intros n []|].
  intros T HT. rewrite (W T HT), a. reflexivity.
Qed.

Lemma emits6_declare Ld d x e :
  var_ok x = true -> expr_f1 e = true -> lmem x (map fst Ld) = false ->
  emits6 Ld d ((x, d) :: Ld) d (process_card (CSetVar x e)) (expr_gnames (map fst Ld) e)
         (fun T _ => code_expr5 T (map fst Ld) e ++ [ISetLocalVar (N.of_nat (length Ld))]).
Proof.
  intros Hx He Hm. unfold var_ok in Hx. apply andb_true_iff in Hx. destruct Hx as [Hne Hdot].
  apply negb_true_iff in Hne, Hdot. cbn [process_card]. rewrite (rsplit_no_dot _ Hdot).
  intros s s' Hc E.
  pose proof (emits6_seq_gen Ld d Ld d ((x, d) :: Ld) d _ _ _ _ _ _
                (emits6_nop Ld d _ keepL_card_label)
                (emits6_seq_gen Ld d Ld d ((x, d) :: Ld) d _ _ _ _ _ _
                   (emits6_with_sub Ld d 0 _ _ _ (emits6_expr Ld d e He))
                   (emits6_declare_tail Ld d x Hne Hm))) as H.
  destruct (H s s' Hc E) as (A & B & C & D). split; [exact A|]. split; [exact B|]. split.
  - intros n Hn. apply C. cbn [app]. rewrite app_nil_r. exact Hn.
  - intros T HT. rewrite (D T HT). cbn [app]. reflexivity.
Qed.

Lemma emits6_top Ln c : top6 Ln c = true ->
  emits6 (ld1 Ln) 1 (ld1 (names_next Ln c)) 1 (process_card c) (stmt_gnames6 Ln c) (fun T b => code6 T Ln b c).
Proof.
  intros Hc.
  assert (Hs : stmt6 Ln c = true -> emits6 (ld1 Ln) 1 (ld1 Ln) 1 (process_card c) (stmt_gnames6 Ln c) (fun T b => code6 T Ln b c)).
  { intros H. pose proof (emits6_stmt6 c (ld1 Ln) 1%Z ltac:(lia) (ld1_wfd Ln)) as H1. rewrite ld1_fst in H1. apply H1, H. }
  destruct c; try (apply Hs; exact Hc).
  cbn [top6] in Hc. apply andb_true_iff in Hc. destruct Hc as [Hx He].
  cbn [names_next stmt_gnames6 code6]. unfold set_slot, slot, lmem. destruct (find_first name Ln) as [p|] eqn:Ef.
  - pose proof (emits6_set_local (ld1 Ln) 1%Z name c (length Ln - 1 - p) Hx He) as H. rewrite ld1_fst in H.
    apply H. unfold slot. rewrite Ef. reflexivity.
  - pose proof (emits6_declare (ld1 Ln) 1%Z name c Hx He) as H. rewrite ld1_fst, ld1_length in H.
    apply H. unfold lmem. rewrite Ef. reflexivity.
Qed.

Lemma emits6_cards cards : forall Ln ic, cards6 Ln cards = true ->
  emits6 (ld1 Ln) 1 (ld1 (names_end Ln cards)) 1 (process_cards cards ic) (main_gnames6 Ln cards) (fun T b => code_main6 T Ln b cards).
Proof.
  induction cards as [|c r IH]; intros Ln ic Hc; cbn [process_cards names_end main_gnames6].
  - apply emits6_nop. intros s s' E. injection E as <-. repeat split.
  - cbn [cards6] in Hc. apply andb_true_iff in Hc. destruct Hc as [Hc Hr].
    intros s s' Hcx E.
    pose proof (emits6_seq_gen _ _ _ _ _ _ _ _ _ _ _ _ (emits6_nop (ld1 Ln) 1 _ keepL_pop_sub)
                 (emits6_seq_gen _ _ _ _ _ _ _ _ _ _ _ _ (emits6_nop (ld1 Ln) 1 _ (keepL_push_sub ic))
                    (emits6_seq_gen _ _ _ _ _ _ _ _ _ _ _ _ (emits6_top Ln c Hc) (IH (names_next Ln c) (ic + 1) Hr)))) as H.
    destruct (H s s' Hcx E) as (A & B & C & D). split; [exact A|]. split; [exact B|]. split.
    + intros n Hn. apply C. exact Hn.
    + intros T HT. rewrite (D T HT). cbn [code_main6 app bytes]. rewrite ?N.add_0_r. reflexivity.
Qed.

Lemma main6_shape name f s s' :
  f_args f = [] -> cards6 [] (f_cards f) = true ->
  ctx s -> cs_depth s = [0%Z] -> cs_pc s = 0 ->
  compile_main (main_ir name f) s = ROk tt s' ->
  sub2 s s' /\
  (forall n, In n (main_gnames6 [] (f_cards f)) -> named s' n) /\
  (forall T, sub (cs_ids s') T -> cs_code s' = rev (code_all6 T (f_cards f)) ++ cs_code s) /\
  cs_pc s' = bytes (cs_code s').
Proof.
  intros Ha Hcards (Hl & Hu & Hp) Hd Hpc0 E.
  unfold compile_main, process_function, process_leaf in E.
  cbn [main_ir fi_index fi_handle fi_args fi_cards fi_ns fi_imports] in E. rewrite Ha in E. cbn [rev add_locals] in E.
  apply bind_ok in E. destruct E as ([] & sa & Ea & E). injection Ea as <-.
  apply bind_ok in E. destruct E as ([] & sb & Eb & E). injection Eb as <-.
  apply bind_ok in E. destruct E as ([] & sc & Ec & E). injection Ec as <-.
  apply bind_ok in E. destruct E as ([] & sd & Ed & E).
  apply bind_ok in Ed. destruct Ed as ([] & sd0 & Ed0 & Ed). injection Ed0 as <-.
  apply bind_ok in Ed. destruct Ed as ([] & sd1 & Ed1 & Ed). injection Ed1 as <-.
  match type of Ed with process_cards _ _ ?st = _ => set (s0 := st) in * end.
  assert (Hc0 : ctx6 (ld1 []) 1 s0).
  { subst s0. split; [split|split]; cbn; [rewrite Hl; reflexivity | rewrite Hd; reflexivity | exact Hu | exact Hp]. }
  destruct (emits6_cards (f_cards f) [] 0 Hcards s0 sd Hc0 Ed) as (Hcd & Bd & Cd & Dd).
  set (Lf := names_end [] (f_cards f)) in *.
  apply bind_ok in E. destruct E as ([] & se & Ee & E). injection Ee as <-.
  apply bind_ok in E. destruct E as ([] & sf & Ef & E).
  (* scope_end *)
  match type of Ef with scope_end ?st = _ => set (se := st) in * end.
  assert (Hce : ctx6 (ld1 Lf ++ []) 1 se).
  { rewrite app_nil_r. destruct Hcd as ((A1 & A2) & A3 & A4). subst se. split; [split|split]; cbn; auto. }
  assert (Hpop : Forall (fun nd : str * Z => (1 - 1 < snd nd)%Z) (ld1 Lf)).
  { unfold ld1. apply Forall_forall. intros nd H. apply in_map_iff in H. destruct H as (x & <- & _). cbn. lia. }
  destruct (emits6_scope_end (ld1 Lf) [] 1 ltac:(lia) Hpop I se sf Hce Ef) as ((_ & _ & Hpf) & Ssf & _ & Fc).
  rewrite ld1_length in Fc.
  (* Exit *)
  apply bind_ok in E. destruct E as ([] & sg & Eg & E).
  destruct (keep4_card_label _ _ Eg) as (g1 & g2 & g3 & g4 & g5 & g6).
  rewrite push_instr_eq in E. injection E as <-.
  assert (Hpc0' : cs_pc s0 = 0) by exact Hpc0.
  assert (Hcode0 : cs_code s0 = cs_code s) by reflexivity.
  assert (Hcodee : cs_code se = cs_code sd) by reflexivity.
  assert (S0 : sub2 s s0) by (split; intros ? ? H; exact H).
  assert (Sde : sub2 sd se) by (split; intros ? ? H; exact H).
  assert (Sfg : sub2 sf (pushed sg IExit)).
  { split; cbn [pushed cs_ids cs_names set_code set_trace]; [rewrite g2 | rewrite g6]; intros ? ? H; exact H. }
  assert (Sdg : sub2 sd (pushed sg IExit)) by (eapply sub2_trans; [exact Sde|]; eapply sub2_trans; [exact Ssf | exact Sfg]).
  split; [eapply sub2_trans; [exact S0|]; eapply sub2_trans; [exact Bd | exact Sdg]|]. split.
  { intros n Hn. eapply named_sub2; [apply (Cd n Hn) | exact Sdg]. }
  split.
  { intros T HT.
    assert (HTf : sub (cs_ids sf) T) by (eapply sub_trans; [apply Sfg | exact HT]).
    assert (HTd : sub (cs_ids sd) T).
    { eapply sub_trans; [apply Sde|]. eapply sub_trans; [apply Ssf | exact HTf]. }
    cbn [pushed cs_code set_code set_trace]. rewrite g1, (Fc T HTf), Hcodee, (Dd T HTd), Hpc0', Hcode0.
    unfold code_all6. fold Lf.
    rewrite !rev_app_distr. cbn [rev app]. rewrite rev_repeat. rewrite <- !app_assoc. cbn [app]. reflexivity. }
  cbn [pushed cs_pc cs_code set_code set_trace bytes]. rewrite g5, g1, Hpf. unfold spanN. lia.
Qed.

Lemma in_f6_cards M : in_f6 M = true -> cards6 [] (main_cards M) = true.
Proof.
  destruct M as [subs funs imps]. cbn [in_f6].
  destruct subs; [|discriminate]. destruct funs as [|[name f] [|]]; try discriminate.
  destruct imps; [|discriminate]. intros H. apply andb_true_iff in H. apply H.
Qed.

Theorem compile_f6_shape M B :
  in_f6 M = true -> compile M default_options = COk B ->
  N.of_nat (length (p_ids B)) < two32 ->
  exists rest,
    p_bytecode B = encode (code_all6 (p_ids B) (main_cards M) ++ rest) /\
    (forall n, In n (main_gnames6 [] (main_cards M)) -> nm_find (handle_of_bytes n) (p_ids B) <> None) /\
    (forall h1 h2 id, nm_find h1 (p_ids B) = Some id -> nm_find h2 (p_ids B) = Some id -> h1 = h2) /\
    (forall h id, nm_find h (p_ids B) = Some id -> id < two32) /\
    handles_inj (main_gnames6 [] (main_cards M)) = true.
Proof.
  intros HM HB Hlen. destruct M as [subs funs imps]. cbn [in_f6] in HM.
  destruct subs; [|discriminate]. destruct funs as [|[name f] [|]]; try discriminate.
  destruct imps; [|discriminate].
  apply andb_true_iff in HM. destruct HM as [HM Hcards]. apply andb_true_iff in HM. destruct HM as [Hname Hargs].
  apply str_eqb_main in Hname. subst name.
  assert (Ha : f_args f = []) by (destruct (f_args f); [reflexivity | discriminate]).
  cbn [main_cards].
  destruct (compile_ok_inv _ _ _ HB) as (fs & s & Hfs & E & ->).
  change (o_recursion_limit default_options) with 64 in Hfs. rewrite ir_stream_f1 in Hfs. injection Hfs as <-.
  set (fm := main_ir s_main f) in *. revert E. generalize std_firs as std. intros std E.
  cbn [finish p_ids p_bytecode] in *.
  set (s0 := init_state (o_debug default_options)) in *.
  unfold compile_ir in E.
  apply bind_ok in E. destruct E as ([] & s1 & E1 & E).
  apply bind_ok in E. destruct E as ([] & s3 & E23 & E4).
  cbn [stage_2] in E23. apply bind_ok in E23. destruct E23 as ([] & s2 & E2 & E3).
  assert (Eafter : after_main std s2 = ROk tt s).
  { unfold after_main, bind. rewrite E3. exact E4. }
  pose proof (frame3_stage_1 (fm :: std) s0) as F1. rewrite E1 in F1.
  destruct F1 as (c1 & p1 & i1 & n1).
  assert (Hctx1 : ctx s1).
  { destruct (stage_1_ctx _ _ _ E1) as [A B]. split; [rewrite A; reflexivity|]. split; [rewrite B; reflexivity|].
    rewrite p1, c1. reflexivity. }
  assert (Hd1 : cs_depth s1 = [0%Z]).
  { clear - E1. assert (Hg : forall fs sa sb, stage_1 fs sa = ROk tt sb -> cs_depth sb = cs_depth sa).
    { induction fs as [|x r IH]; intros sa sb H; cbn [stage_1] in H; [injection H as <-; reflexivity|].
      apply bind_ok in H. destruct H as ([] & sx & Hx & Hr). rewrite (IH _ _ Hr).
      unfold add_function, bind, get in Hx. destruct (sm_find _ _); [discriminate|]. injection Hx as <-. reflexivity. }
    rewrite (Hg _ _ _ E1). reflexivity. }
  destruct (main6_shape s_main f s1 s2 Ha Hcards Hctx1 Hd1 ltac:(rewrite p1; reflexivity) E2) as (Hsub12 & Hnames2 & Hcode2 & Hpc2).
  assert (G2 : G [] [] s2).
  { assert (S : sp3 [] [] (stage_1 (fm :: std) ;; compile_main fm) (fun _ => True)).
    { eapply sp3_bind; [apply sp3_frame, frame3_stage_1 | intros _ _; apply sp3_compile_main]. }
    specialize (S s0 (G_init _)). unfold bind in S. rewrite E1, E2 in S. apply S. }
  assert (Gs : G (cs_code s2) (cs_ids s2) s).
  { assert (G2' : G (cs_code s2) (cs_ids s2) s2).
    { apply G_here; [apply (g_pc _ _ _ G2)|]. intros Hl. destruct (g_ids _ _ _ G2 Hl) as [I1 I2 I3 _]. auto. }
    pose proof (sp3_after_main (cs_code s2) (cs_ids s2) std s2 G2') as S. rewrite Eafter in S. apply S. }
  destruct (g_ids _ _ _ Gs Hlen) as [Inv Ilt Iinj Iext].
  destruct (g_code _ _ _ Gs) as [l El].
  assert (Hsub : sub (cs_ids s2) (cs_ids s)) by exact Iext.
  exists (rev l). split; [|split; [|split; [|split]]].
  - f_equal. rewrite El, (Hcode2 _ Hsub), c1. cbn [s0 init_state cs_code]. rewrite app_nil_r, rev_app_distr, rev_involutive.
    reflexivity.
  - intros n Hin. pose proof (named_found _ _ (Hnames2 n Hin)) as Hnf.
    destruct (nm_find (handle_of_bytes n) (cs_ids s2)) as [id|] eqn:En; [|congruence].
    rewrite (Hsub _ _ En). discriminate.
  - exact Iinj.
  - intros h id Hf. specialize (Ilt _ _ Hf). rewrite Inv in Ilt. lia.
  - apply (named_inj s2 _ eq_refl Hnames2).
Qed.
