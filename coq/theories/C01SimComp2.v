(* C01, simulation, compiler half for fragment F2a: the code of conditionals, whose jump operands are
   back-patched with the absolute address of the end of the branch. *)
From Coq Require Import List NArith ZArith Bool Lia.
From Cao Require Import ListUtil CheckUtil Bits CardAst Bytecode Compiler CompilerGen CompilerProofs CompilerWf
     CompilerResolve StdlibGen C01SimKeep C01SimDefs C01SimComp C01SimDefs2.
Import ListNotations.
Local Open Scope N_scope.

(* like [emits], with code that depends on the address it starts at *)
Definition emitsB (m : M unit) (names : list str) (code : list (N * N) -> N -> list instr) : Prop :=
  forall s s', ctx s -> m s = ROk tt s' ->
    ctx s' /\ sub2 s s' /\
    (forall n, In n names -> named s' n) /\
    (forall T, sub (cs_ids s') T -> cs_code s' = rev (code T (cs_pc s)) ++ cs_code s).

Lemma emits_B m n c : emits m n c -> emitsB m n (fun T _ => c T).
Proof. intros H s s' Hc E. apply (H s s' Hc E). Qed.

Lemma emitsB_ext m n n' c c' :
  emitsB m n c -> (forall x, In x n' -> In x n) -> (forall T b, c' T b = c T b) -> emitsB m n' c'.
Proof.
  intros H Hn Hcc s s' Hc E. destruct (H _ _ Hc E) as (A & B & C & D).
  split; [exact A|]. split; [exact B|]. split; [intros x Hx; apply C, Hn, Hx|].
  intros T HT. rewrite Hcc. apply D, HT.
Qed.

Lemma bytes_rev l : bytes (rev l) = bytes l.
Proof. rewrite !bytes_nbytes, nbytes_rev. reflexivity. Qed.

(* the address after the emitted code *)
Lemma emitsB_pc m n c s s' T :
  emitsB m n c -> ctx s -> m s = ROk tt s' -> sub (cs_ids s') T ->
  cs_pc s' = cs_pc s + bytes (c T (cs_pc s)).
Proof.
  intros H Hc E HT. destruct (H _ _ Hc E) as ((_ & _ & Hp') & _ & _ & D).
  destruct Hc as (_ & _ & Hp). rewrite Hp', (D T HT), bytes_app, bytes_rev, <- Hp. lia.
Qed.

Lemma emitsB_seq m1 m2 n1 n2 c1 c2 :
  emitsB m1 n1 c1 -> emitsB m2 n2 c2 ->
  emitsB (m1 ;; m2) (n1 ++ n2) (fun T b => c1 T b ++ c2 T (b + bytes (c1 T b))).
Proof.
  intros H1 H2 s s' Hc H. apply bind_ok in H. destruct H as ([] & s1 & E1 & E2).
  destruct (H1 _ _ Hc E1) as (Hc1 & Hs1 & Hn1 & Hk1).
  destruct (H2 _ _ Hc1 E2) as (Hc2 & Hs2 & Hn2 & Hk2).
  split; [exact Hc2|]. split; [eapply sub2_trans; eauto|]. split.
  - intros n Hin. apply in_app_or in Hin. destruct Hin as [Hin|Hin]; [|auto].
    eapply named_sub2; [apply Hn1, Hin | exact Hs2].
  - intros T HT.
    rewrite (Hk2 T HT), (Hk1 T (sub_trans _ _ _ (proj1 Hs2) HT)).
    rewrite (emitsB_pc _ _ _ _ _ T H1 Hc E1 (sub_trans _ _ _ (proj1 Hs2) HT)).
    rewrite rev_app_distr, app_assoc. reflexivity.
Qed.

(* ---- back-patching ---- *)
Lemma patch_code_at l1 : forall j l0 cur z j',
  cur = bytes (l1 ++ j :: l0) -> set_jump_target j z = Some j' ->
  patch_code (l1 ++ j :: l0) cur (bytes l0) z = Some (l1 ++ j' :: l0).
Proof.
  induction l1 as [|i r IH]; intros j l0 cur z j' Hcur Hj; cbn [app] in *.
  - cbn [patch_code]. fold (spanN j). cbn [bytes] in Hcur.
    replace (cur - spanN j) with (bytes l0) by lia. rewrite N.eqb_refl, Hj. reflexivity.
  - cbn [patch_code]. fold (spanN i). cbn [bytes] in Hcur.
    replace (cur - spanN i) with (bytes (r ++ j :: l0)) by lia.
    pose proof (spanN_pos j). rewrite bytes_app. cbn [bytes].
    destruct (N.eqb_spec (bytes r + (spanN j + bytes l0)) (bytes l0)); [lia|].
    destruct (N.ltb_spec (bytes r + (spanN j + bytes l0)) (bytes l0)); [lia|].
    rewrite <- (bytes_app r (j :: l0)) at 1. cbn [bytes].
    replace (bytes r + (spanN j + bytes l0)) with (bytes (r ++ j :: l0)) by (rewrite bytes_app; reflexivity).
    rewrite (IH j l0 _ z j' eq_refl Hj). reflexivity.
Qed.

Lemma ctx_set_code s c : cs_pc s = bytes c -> ctx s -> ctx (set_code c (cs_pc s) s).
Proof. intros Hp (A & B & _). repeat split; auto. Qed.

(* encode_if_then: the skip instruction, the body, the patch *)
Lemma emitsB_if_then (skip : Z -> instr) body n c :
  skip = IGotoIfFalse \/ skip = IGotoIfTrue ->
  emitsB body n c ->
  emitsB (encode_if_then skip body) n
         (fun T b => skip (u32_to_i32 (b + 5 + bytes (c T (b + 5)))) :: c T (b + 5)).
Proof.
  intros Hskip Hb s s' Hc E. unfold encode_if_then in E.
  apply bind_ok in E. destruct E as (p & sa & Ea & E). injection Ea as <- <-.
  apply bind_ok in E. destruct E as ([] & s1 & E1 & E).
  apply bind_ok in E. destruct E as ([] & s2 & E2 & E3).
  rewrite push_instr_eq in E1. injection E1 as <-.
  assert (Hspan : spanN (skip 0%Z) = 5) by (destruct Hskip; subst; reflexivity).
  assert (Hc1 : ctx (pushed s (skip 0%Z))).
  { destruct Hc as (A & B & C). repeat split; auto.
    cbn [pushed cs_pc cs_code set_code set_trace bytes]. rewrite Hspan, C. unfold spanN in Hspan. rewrite Hspan. lia. }
  assert (Hpc1 : cs_pc (pushed s (skip 0%Z)) = cs_pc s + 5).
  { cbn [pushed cs_pc set_code set_trace]. unfold spanN in Hspan. rewrite Hspan. reflexivity. }
  destruct (Hb _ _ Hc1 E2) as (Hc2 & Hs2 & Hn2 & Hk2).
  unfold patch_jump_here in E3.
  destruct (patch_code (cs_code s2) (cs_pc s2) (cs_pc s) (u32_to_i32 (cs_pc s2))) as [cc|] eqn:Ep; [|discriminate].
  injection E3 as <-.
  assert (Hfinal : forall T, sub (cs_ids s2) T ->
            cc = rev (skip (u32_to_i32 (cs_pc s + 5 + bytes (c T (cs_pc s + 5)))) :: c T (cs_pc s + 5)) ++ cs_code s).
  { intros T HT. pose proof (Hk2 T HT) as Hcode. rewrite Hpc1 in Hcode.
    cbn [pushed cs_code set_code set_trace] in Hcode.
    pose proof (emitsB_pc _ _ _ _ _ T Hb Hc1 E2 HT) as Hpc2. rewrite Hpc1 in Hpc2.
    destruct Hc as (_ & _ & Hp). destruct Hc2 as (_ & _ & Hp2).
    assert (Hpa : patch_code (rev (c T (cs_pc s + 5)) ++ skip 0%Z :: cs_code s) (cs_pc s2) (cs_pc s) (u32_to_i32 (cs_pc s2))
                  = Some (rev (c T (cs_pc s + 5)) ++ skip (u32_to_i32 (cs_pc s2)) :: cs_code s)).
    { rewrite Hp at 2. apply patch_code_at; [rewrite Hp2, Hcode; reflexivity | destruct Hskip; subst; reflexivity]. }
    rewrite Hcode, Hpa in Ep. injection Ep as <-. rewrite Hpc2. cbn [rev]. rewrite <- app_assoc. reflexivity. }
  split.
  { apply ctx_set_code; [|exact Hc2]. destruct Hc2 as (_ & _ & Hp2). rewrite Hp2.
    assert (Hsp : forall z, spanN (skip z) = 5) by (intros; destruct Hskip; subst; reflexivity).
    rewrite (Hfinal _ (sub_refl _)), (Hk2 _ (sub_refl _)), Hpc1. cbn [rev pushed cs_code set_code set_trace].
    rewrite !bytes_app. cbn [bytes]. rewrite !Hsp. lia. }
  split; [exact Hs2|]. split; [exact Hn2|]. intros T HT. cbn [cs_code set_code]. apply Hfinal, HT.
Qed.

Lemma patch_here_spec s l1 j l0 j' :
  cs_pc s = bytes (cs_code s) -> cs_code s = l1 ++ j :: l0 ->
  set_jump_target j (u32_to_i32 (cs_pc s)) = Some j' ->
  patch_jump_here (bytes l0) s = ROk tt (set_code (l1 ++ j' :: l0) (cs_pc s) s).
Proof.
  intros Hp Hc Hj. unfold patch_jump_here. rewrite Hc.
  rewrite (patch_code_at l1 j l0 (cs_pc s) _ j'); [reflexivity | rewrite Hp, Hc; reflexivity | exact Hj].
Qed.

(* IfElse after its condition *)
Definition if_else_tail (A Bb : M unit) : M unit :=
  do p_if <- get_pc ;;
  push_instr (IGotoIfFalse 0%Z) ;;
  A ;;
  do p_goto <- get_pc ;;
  push_instr (IGoto placeholder) ;;
  patch_jump_here p_if ;;
  pop_sub ;;
  with_sub 2 Bb ;;
  patch_jump_here p_goto.

Definition code_if_else (ca cb : list (N * N) -> N -> list instr) (T : list (N * N)) (b : N) : list instr :=
  let a := ca T (b + 5) in
  let else_at := b + 5 + bytes a + 5 in
  let bb := cb T else_at in
  IGotoIfFalse (u32_to_i32 else_at) :: a ++ IGoto (u32_to_i32 (else_at + bytes bb)) :: bb.

Lemma emitsB_if_else A Bb na nb ca cb :
  emitsB A na ca -> emitsB Bb nb cb ->
  emitsB (if_else_tail A Bb) (na ++ nb) (code_if_else ca cb).
Proof.
  intros HA HB s s' Hc E. unfold if_else_tail in E.
  apply bind_ok in E. destruct E as (p & sa & Ea & E). injection Ea as <- <-.
  apply bind_ok in E. destruct E as ([] & s1 & E1 & E).
  apply bind_ok in E. destruct E as ([] & s2 & E2 & E).
  apply bind_ok in E. destruct E as (p2 & sb & Eb & E). injection Eb as <- <-.
  apply bind_ok in E. destruct E as ([] & s3 & E3 & E).
  apply bind_ok in E. destruct E as ([] & s4 & E4 & E).
  apply bind_ok in E. destruct E as ([] & s4' & E4' & E).
  apply bind_ok in E. destruct E as ([] & s5 & E5 & E6).
  rewrite push_instr_eq in E1. injection E1 as <-.
  rewrite push_instr_eq in E3. injection E3 as <-.
  injection E4' as <-.
  pose proof Hc as (Hl & Hu & Hp).
  (* after the conditional jump *)
  assert (Hc1 : ctx (pushed s (IGotoIfFalse 0%Z))).
  { repeat split; auto. cbn [pushed cs_pc cs_code set_code set_trace bytes]. rewrite Hp. unfold spanN. lia. }
  assert (Hpc1 : cs_pc (pushed s (IGotoIfFalse 0%Z)) = cs_pc s + 5) by reflexivity.
  destruct (HA _ _ Hc1 E2) as (Hc2 & Hs2 & Hn2 & Hk2).
  pose proof Hc2 as (Hl2 & Hu2 & Hp2).
  (* after the Goto over the else branch *)
  set (s3 := pushed s2 (IGoto placeholder)) in *.
  assert (Hpc3 : cs_pc s3 = cs_pc s2 + 5) by reflexivity.
  assert (Hcode3 : cs_code s3 = IGoto placeholder :: cs_code s2) by reflexivity.
  assert (Hp3 : cs_pc s3 = bytes (cs_code s3)).
  { rewrite Hpc3, Hcode3. cbn [bytes]. rewrite Hp2. change (spanN (IGoto placeholder)) with 5. lia. }
  (* the first patch *)
  assert (Hcode2 : cs_code s2 = rev (ca (cs_ids s2) (cs_pc s + 5)) ++ IGotoIfFalse 0%Z :: cs_code s).
  { rewrite (Hk2 _ (sub_refl _)), Hpc1. reflexivity. }
  assert (E4b : patch_jump_here (bytes (cs_code s)) s3 =
                ROk tt (set_code ((IGoto placeholder :: rev (ca (cs_ids s2) (cs_pc s + 5))) ++
                                  IGotoIfFalse (u32_to_i32 (cs_pc s3)) :: cs_code s) (cs_pc s3) s3)).
  { apply (patch_here_spec s3 (IGoto placeholder :: rev (ca (cs_ids s2) (cs_pc s + 5))) (IGotoIfFalse 0%Z) (cs_code s)
                            (IGotoIfFalse (u32_to_i32 (cs_pc s3))));
      [exact Hp3 | rewrite Hcode3, Hcode2; reflexivity | reflexivity]. }
  rewrite Hp in E4. rewrite E4b in E4. injection E4 as <-.
  set (s4 := set_code _ (cs_pc s3) s3) in *.
  assert (Hc4 : ctx (set_index (cs_fn s4) (tl (cs_idx s4)) s4)).
  { repeat split; auto. cbn [cs_pc cs_code set_index s4 set_code]. rewrite Hp3, Hcode3, Hcode2.
    cbn [app bytes]. rewrite !bytes_app. cbn [bytes]. change (spanN (IGotoIfFalse _)) with 5. reflexivity. }
  (* the else branch *)
  assert (HB' : emitsB (with_sub 2 Bb) nb cb).
  { unfold with_sub. eapply emitsB_ext.
    - apply emitsB_seq; [apply emits_B, emits_nop, keep4_push_sub|].
      apply emitsB_seq; [exact HB | apply emits_B, emits_nop, keep4_pop_sub].
    - intros x Hx. cbn [app]. rewrite app_nil_r. exact Hx.
    - intros T b. cbn [app bytes]. rewrite N.add_0_r, app_nil_r. reflexivity. }
  destruct (HB' _ _ Hc4 E5) as (Hc5 & Hs5 & Hn5 & Hk5).
  pose proof Hc5 as (Hl5 & Hu5 & Hp5).
  assert (Hids4 : cs_ids (set_index (cs_fn s4) (tl (cs_idx s4)) s4) = cs_ids s2) by reflexivity.
  assert (Hs25 : sub2 s2 s5) by exact Hs5. clear Hs5. pose proof (proj1 Hs25) as Hs5.
  assert (Hpc4 : cs_pc (set_index (cs_fn s4) (tl (cs_idx s4)) s4) = cs_pc s2 + 5) by reflexivity.
  (* the second patch *)
  assert (Hshape : forall T, sub (cs_ids s5) T ->
            cs_code s5 = rev (cb T (cs_pc s2 + 5)) ++ IGoto placeholder ::
                         (rev (ca T (cs_pc s + 5)) ++ IGotoIfFalse (u32_to_i32 (cs_pc s2 + 5)) :: cs_code s) /\
            cs_pc s2 = cs_pc s + 5 + bytes (ca T (cs_pc s + 5)) /\
            cs_pc s5 = cs_pc s2 + 5 + bytes (cb T (cs_pc s2 + 5))).
  { intros T HT. pose proof (sub_trans _ _ _ Hs5 HT) as HT2.
    rewrite (Hk5 T HT), Hpc4. cbn [cs_code set_index s4 set_code app]. rewrite Hpc3.
    pose proof (Hk2 T HT2) as Hk2T. rewrite Hpc1 in Hk2T. cbn [pushed cs_code set_code set_trace] in Hk2T.
    assert (Hca : ca (cs_ids s2) (cs_pc s + 5) = ca T (cs_pc s + 5)).
    { rewrite Hcode2 in Hk2T. apply app_inv_tail in Hk2T. apply (f_equal (@rev instr)) in Hk2T.
      rewrite !rev_involutive in Hk2T. exact Hk2T. }
    rewrite Hca. split; [reflexivity|]. split.
    - rewrite (emitsB_pc _ _ _ _ _ T HA Hc1 E2 HT2), Hpc1. reflexivity.
    - rewrite (emitsB_pc _ _ _ _ _ T HB' Hc4 E5 HT), Hpc4. reflexivity. }
  assert (Hs' : forall T, sub (cs_ids s5) T ->
            s' = set_code (rev (cb T (cs_pc s2 + 5)) ++ IGoto (u32_to_i32 (cs_pc s5)) ::
                           (rev (ca T (cs_pc s + 5)) ++ IGotoIfFalse (u32_to_i32 (cs_pc s2 + 5)) :: cs_code s))
                          (cs_pc s5) s5).
  { intros T HT. destruct (Hshape T HT) as (HcT & HpT2 & HpT5). pose proof E6 as E6'.
    assert (Hat : cs_pc s2 = bytes (rev (ca T (cs_pc s + 5)) ++ IGotoIfFalse (u32_to_i32 (cs_pc s2 + 5)) :: cs_code s)).
    { rewrite bytes_app, bytes_rev. cbn [bytes]. change (spanN (IGotoIfFalse _)) with 5. rewrite HpT2 at 1. rewrite Hp. lia. }
    rewrite Hat in E6'.
    rewrite (patch_here_spec s5 _ _ _ (IGoto (u32_to_i32 (cs_pc s5))) Hp5 HcT eq_refl) in E6'. injection E6' as <-.
    reflexivity. }
  assert (Hids' : cs_ids s' = cs_ids s5) by (rewrite (Hs' _ (sub_refl _)); reflexivity).
  split.
  { rewrite (Hs' _ (sub_refl _)). apply ctx_set_code; [|exact Hc5].
    destruct (Hshape _ (sub_refl _)) as (HcT & _ & _). rewrite Hp5, HcT, !bytes_app. cbn [bytes].
    change (spanN (IGoto _)) with 5. reflexivity. }
  assert (Hs5' : sub2 s5 s') by (rewrite (Hs' _ (sub_refl _)); split; intros ? ? H; exact H).
  split; [eapply sub2_trans; [|exact Hs5']; eapply sub2_trans; [exact Hs2 | exact Hs25]|]. split.
  { intros n Hin. eapply named_sub2; [|exact Hs5']. apply in_app_or in Hin. destruct Hin as [Hin|Hin]; [|auto].
    eapply named_sub2; [apply Hn2, Hin | exact Hs25]. }
  rewrite Hids'. intros T HT5.
  rewrite (Hs' T HT5). cbn [cs_code set_code]. destruct (Hshape T HT5) as (_ & HpT2 & HpT5).
  unfold code_if_else. cbv zeta.
  replace (cs_pc s + 5 + bytes (ca T (cs_pc s + 5)) + 5) with (cs_pc s2 + 5) by (rewrite HpT2; reflexivity).
  replace (cs_pc s2 + 5 + bytes (cb T (cs_pc s2 + 5))) with (cs_pc s5) by (rewrite HpT5; reflexivity).
  cbn [rev]. rewrite rev_app_distr. cbn [rev app]. rewrite <- !app_assoc. cbn [app]. reflexivity.
Qed.

Lemma emitsB_with_sub i m n c : emitsB m n c -> emitsB (with_sub i m) n c.
Proof.
  intros H. unfold with_sub. eapply emitsB_ext.
  - apply emitsB_seq; [apply emits_B, emits_nop, keep4_push_sub|].
    apply emitsB_seq; [exact H | apply emits_B, emits_nop, keep4_pop_sub].
  - intros x Hx. cbn [app]. rewrite app_nil_r. exact Hx.
  - intros T b. cbn [app bytes]. rewrite N.add_0_r, app_nil_r. reflexivity.
Qed.

Lemma emitsB_subexpr l :
  Forall (fun c => stmt_f2 c = true -> emitsB (process_card c) (stmt_names2 c) (fun T b => code_stmt2 T b c)) l ->
  forallb stmt_f2 l = true -> forall i,
  emitsB ((fix subexpr (l : list card) (i : N) {struct l} : M unit :=
             match l with
             | [] => ret tt
             | x :: r => with_sub i (process_card x) ;; subexpr r (i + 1)
             end) l i) (main_names2 l) (fun T b => code_main2 T b l).
Proof.
  induction 1 as [|x r Hx _ IH]; intros Hc i.
  - apply emits_B, emits_nop. intros s s' E. injection E as <-. repeat split.
  - cbn [forallb] in Hc. apply andb_true_iff in Hc. destruct Hc as [H1 H2].
    eapply emitsB_ext.
    + apply emitsB_seq; [apply emitsB_with_sub, Hx, H1 | apply (IH H2 (i + 1))].
    + intros y Hy. exact Hy.
    + intros T b. reflexivity.
Qed.

Lemma emitsB_stmt c : stmt_f2 c = true -> emitsB (process_card c) (stmt_names2 c) (fun T b => code_stmt2 T b c).
Proof.
  induction c using card_ind'; intros Hc; cbn [stmt_f2] in Hc; try discriminate Hc.
  - (* IfTrue / IfFalse *)
    destruct op; try discriminate Hc; apply andb_true_iff in Hc; destruct Hc as [He Hb]; cbn [process_card].
    + eapply emitsB_ext.
      * apply emitsB_seq; [apply emits_B, emits_nop, keep4_card_label|].
        apply emitsB_seq; [apply emitsB_with_sub, emits_B, emits_expr, He|].
        apply emitsB_seq; [apply emits_B, emits_nop, keep4_push_sub|].
        apply emitsB_seq; [apply (emitsB_if_then IGotoIfFalse); [left; reflexivity | apply IHc2, Hb]|].
        apply emits_B, emits_nop, keep4_pop_sub.
      * intros x Hx. cbn [stmt_names2 app] in *. rewrite app_nil_r. exact Hx.
      * intros T b. cbn [code_stmt2 app bytes]. rewrite ?N.add_0_r, ?app_nil_r. reflexivity.
    + eapply emitsB_ext.
      * apply emitsB_seq; [apply emits_B, emits_nop, keep4_card_label|].
        apply emitsB_seq; [apply emitsB_with_sub, emits_B, emits_expr, He|].
        apply emitsB_seq; [apply emits_B, emits_nop, keep4_push_sub|].
        apply emitsB_seq; [apply (emitsB_if_then IGotoIfTrue); [right; reflexivity | apply IHc2, Hb]|].
        apply emits_B, emits_nop, keep4_pop_sub.
      * intros x Hx. cbn [stmt_names2 app] in *. rewrite app_nil_r. exact Hx.
      * intros T b. cbn [code_stmt2 app bytes]. rewrite ?N.add_0_r, ?app_nil_r. reflexivity.
  - (* IfElse *)
    destruct op; try discriminate Hc. apply andb_true_iff in Hc. destruct Hc as [Hc Hb].
    apply andb_true_iff in Hc. destruct Hc as [He Ha]. cbn [process_card].
    change (with_sub 0 (process_card c1) ;; push_sub 1 ;; _)
      with (with_sub 0 (process_card c1) ;; push_sub 1 ;; if_else_tail (process_card c2) (process_card c3)).
    eapply emitsB_ext.
    + apply emitsB_seq; [apply emits_B, emits_nop, keep4_card_label|].
      apply emitsB_seq; [apply emitsB_with_sub, emits_B, emits_expr, He|].
      apply emitsB_seq; [apply emits_B, emits_nop, keep4_push_sub|].
      apply emitsB_if_else; [apply IHc2, Ha | apply IHc3, Hb].
    + intros x Hx. cbn [stmt_names2 app] in *. exact Hx.
    + intros T b. cbn [code_stmt2 app bytes]. unfold code_if_else. rewrite ?N.add_0_r. reflexivity.
  - (* Comment *)
    apply (emits_B _ _ _ (emits_stmt (CComment _) eq_refl)).
  - (* SetGlobalVar *)
    apply (emits_B _ _ _ (emits_stmt (CSetGlobalVar _ _) Hc)).
  - (* Composite *)
    cbn [process_card]. eapply emitsB_ext.
    + apply emitsB_seq; [apply emits_B, emits_nop, keep4_card_label|].
      apply emitsB_subexpr; [eassumption | exact Hc].
    + intros x Hx. exact Hx.
    + intros T b. rewrite code_stmt2_composite. cbn [app bytes]. rewrite N.add_0_r. reflexivity.
Qed.

Lemma emitsB_cards cards : forallb stmt_f2 cards = true -> forall ic,
  emitsB (process_cards cards ic) (main_names2 cards) (fun T b => code_main2 T b cards).
Proof.
  induction cards as [|c r IH]; intros Hc ic; cbn [process_cards].
  - apply emits_B, emits_nop. intros s s' E. injection E as <-. repeat split.
  - cbn [forallb] in Hc. apply andb_true_iff in Hc. destruct Hc as [Hc Hr].
    eapply emitsB_ext.
    + apply emitsB_seq; [apply emits_B, emits_nop, keep4_pop_sub|].
      apply emitsB_seq; [apply emits_B, emits_nop, keep4_push_sub|].
      apply emitsB_seq; [apply emitsB_stmt, Hc | apply IH, Hr].
    + intros x Hx. exact Hx.
    + intros T b. cbn [code_main2 app bytes]. rewrite ?N.add_0_r. reflexivity.
Qed.

Lemma emitsB_main name f :
  f_args f = [] -> forallb stmt_f2 (f_cards f) = true ->
  emitsB (compile_main (main_ir name f)) (main_names2 (f_cards f)) (fun T b => code_main2 T b (f_cards f) ++ [IExit]).
Proof.
  intros Ha Hc. unfold compile_main, process_function, process_leaf. cbn [main_ir fi_index fi_handle fi_args fi_cards fi_ns fi_imports].
  rewrite Ha. cbn [rev add_locals].
  assert (N1 : forall (m : M unit), (forall s s', m s = ROk tt s' -> keep4 s s') -> emitsB m [] (fun _ _ => []))
    by (intros m H; apply emits_B, emits_nop, H).
  eapply emitsB_ext.
  - apply emitsB_seq; [apply N1; intros s s' E; injection E as <-; repeat split|].
    apply emitsB_seq; [apply N1; intros s s' E; injection E as <-; repeat split|].
    apply emitsB_seq; [apply N1; intros s s' E; injection E as <-; repeat split|].
    apply emitsB_seq.
    { apply emitsB_seq; [apply N1; intros s s' E; injection E as <-; repeat split|].
      apply emitsB_seq; [apply N1; intros s s' E; injection E as <-; repeat split|].
      apply emitsB_cards, Hc. }
    apply emitsB_seq; [apply N1; intros s s' E; injection E as <-; repeat split|].
    apply emitsB_seq; [apply emits_B, emits_scope_end|].
    apply emitsB_seq; [apply emits_B, emits_nop, keep4_card_label | apply emits_B, emits_push].
  - intros x Hx. cbn [app] in *. rewrite !app_nil_r. exact Hx.
  - intros T b. cbn [app bytes]. rewrite ?N.add_0_r. reflexivity.
Qed.

Lemma in_f2_cards M : in_f2 M = true -> forallb stmt_f2 (main_cards M) = true.
Proof.
  destruct M as [subs funs imps]. cbn [in_f2].
  destruct subs; [|discriminate]. destruct funs as [|[name f] [|]]; try discriminate.
  destruct imps; [|discriminate]. intros H. apply andb_true_iff in H. apply H.
Qed.

Theorem compile_f2_shape M B :
  in_f2 M = true -> compile M default_options = COk B ->
  N.of_nat (length (p_ids B)) < two32 ->
  exists rest,
    p_bytecode B = encode (code_main2 (p_ids B) 0 (main_cards M) ++ IExit :: rest) /\
    (forall n, In n (main_names2 (main_cards M)) -> nm_find (handle_of_bytes n) (p_ids B) <> None) /\
    (forall h1 h2 id, nm_find h1 (p_ids B) = Some id -> nm_find h2 (p_ids B) = Some id -> h1 = h2) /\
    (forall h id, nm_find h (p_ids B) = Some id -> id < two32) /\
    handles_inj (main_names2 (main_cards M)) = true.
Proof.
  intros HM HB Hlen. destruct M as [subs funs imps]. cbn [in_f2] in HM.
  destruct subs; [|discriminate]. destruct funs as [|[name f] [|]]; try discriminate.
  destruct imps; [|discriminate].
  apply andb_true_iff in HM. destruct HM as [HM Hcards]. apply andb_true_iff in HM. destruct HM as [Hname Hargs].
  apply str_eqb_main in Hname. subst name.
  assert (Ha : f_args f = []) by (destruct (f_args f); [reflexivity | discriminate]).
  cbn [main_cards].
  destruct (compile_ok_inv _ _ _ HB) as (fs & s & Hfs & E & ->).
  change (o_recursion_limit default_options) with 64 in Hfs. rewrite ir_stream_f1 in Hfs. injection Hfs as <-.
  set (fm := main_ir s_main f) in *. revert E. generalize std_firs as std. intros std E.
  cbn [finish p_ids p_bytecode] in *.
  set (s0 := init_state (o_debug default_options)) in *.
  unfold compile_ir in E.
  apply bind_ok in E. destruct E as ([] & s1 & E1 & E).
  apply bind_ok in E. destruct E as ([] & s3 & E23 & E4).
  cbn [stage_2] in E23. apply bind_ok in E23. destruct E23 as ([] & s2 & E2 & E3).
  assert (Eafter : after_main std s2 = ROk tt s).
  { unfold after_main, bind. rewrite E3. exact E4. }
  pose proof (frame3_stage_1 (fm :: std) s0) as F1. rewrite E1 in F1.
  destruct F1 as (c1 & p1 & i1 & n1).
  assert (Hctx1 : ctx s1).
  { destruct (stage_1_ctx _ _ _ E1) as [A B]. split; [rewrite A; reflexivity|]. split; [rewrite B; reflexivity|].
    rewrite p1, c1. reflexivity. }
  destruct (emitsB_main s_main f Ha Hcards _ _ Hctx1 E2) as (Hctx2 & Hsub12 & Hnames2 & Hcode2).
  assert (G2 : G [] [] s2).
  { assert (S : sp3 [] [] (stage_1 (fm :: std) ;; compile_main fm) (fun _ => True)).
    { eapply sp3_bind; [apply sp3_frame, frame3_stage_1 | intros _ _; apply sp3_compile_main]. }
    specialize (S s0 (G_init _)). unfold bind in S. rewrite E1, E2 in S. apply S. }
  assert (Gs : G (cs_code s2) (cs_ids s2) s).
  { assert (G2' : G (cs_code s2) (cs_ids s2) s2).
    { apply G_here; [apply (g_pc _ _ _ G2)|]. intros Hl. destruct (g_ids _ _ _ G2 Hl) as [I1 I2 I3 _]. auto. }
    pose proof (sp3_after_main (cs_code s2) (cs_ids s2) std s2 G2') as S. rewrite Eafter in S. apply S. }
  destruct (g_ids _ _ _ Gs Hlen) as [Inv Ilt Iinj Iext].
  destruct (g_code _ _ _ Gs) as [l El].
  assert (Hsub : sub (cs_ids s2) (cs_ids s)) by exact Iext.
  exists (rev l). split; [|split; [|split; [|split]]].
  - f_equal. rewrite El, (Hcode2 _ Hsub), c1, p1. cbn [s0 init_state cs_code cs_pc]. rewrite app_nil_r, rev_app_distr, rev_involutive.
    rewrite <- app_assoc. reflexivity.
  - intros n Hin. pose proof (named_found _ _ (Hnames2 n Hin)) as Hnf.
    destruct (nm_find (handle_of_bytes n) (cs_ids s2)) as [id|] eqn:En; [|congruence].
    rewrite (Hsub _ _ En). discriminate.
  - exact Iinj.
  - intros h id Hf. specialize (Ilt _ _ Hf). rewrite Inv in Ilt. lia.
  - apply (named_inj s2 _ eq_refl Hnames2).
Qed.
