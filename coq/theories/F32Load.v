(* The one f32 computation the tables depend on:  count as f32 > capacity as f32 * MAX_LOAD
   modelled with integers: MAX_LOAD = num / 2^shift exactly (the f32 constant), the product is
   rounded to 24 significant bits (round to nearest, ties to even).  Exact for count, capacity
   < 2^24, where `usize as f32` is exact. *)
From Coq Require Import NArith Lia.
Local Open Scope N_scope.

(* round m / 2^e to the nearest integer, ties to even *)
Definition rne_shift (m e : N) : N :=
  if e =? 0 then m
  else let q := m / 2 ^ e in
       let r := m mod 2 ^ e in
       let half := 2 ^ (e - 1) in
       if r <? half then q
       else if half <? r then q + 1
       else if N.even q then q else q + 1.

Definition needs_grow_N (num shift : N) (count cap : N) : bool :=
  let m := cap * num in
  let e := N.size m - 24 in
  let q := rne_shift m e in
  q * 2 ^ e <? count * 2 ^ shift.

Definition needs_grow_nat (num shift : N) (count cap : nat) : bool :=
  needs_grow_N num shift (N.of_nat count) (N.of_nat cap).

(* (n as f32 * c) as usize  for c = num / 2^shift: product rounded to 24 bits, then truncated *)
Definition f32_mul_trunc_N (num shift n : N) : N :=
  let m := n * num in
  let e := N.size m - 24 in
  (rne_shift m e * 2 ^ e) / 2 ^ shift.
