(* C04: do compiled programs pass the STRUCTURAL checks of the checked VM (C04VmChecked.v)?  Two of them can fail
   on a program that COMPILES but is NOT well-scoped (RefScope.well_scoped = false: both programs are outside the
   run-time domain of property C04, "every compiled well-scoped program"; neither is a defect of the crate):

   chk_return  main = [Return 1] compiles (a Return card in main is accepted); the VM runs Return with the single
               frame of `run` and reports the ERROR BadReturn ("Failed to find return address"; the crate does the
               same: instr_return returns Err(BadReturn)) - an error value, no abort.  The checked VM stops there
               with AUnmodelled: the check is stronger than what the VM needs in a top-level run
               (return_one_frame_is_error below: with one frame Return never aborts and never continues).

               Not well-scoped: rule 4, main does not Return at its own level.

   chk_foreach needs well-scopedness (observed on the crate in a debug build: panic "for_each overflow",
               vm/instr_execution.rs:397 debug_assert!(0 <= i); release build: Ok).  Not well-scoped: rule 1,
               a SetVar card (no value) stands in the operand slots of Add (and rule 2: the Array iterable).
               A SetVar card leaves no value on the stack, so
               Add(SetVar x -5, SetVar x -5) pops two slots that it did not push.  In the body of a ForEach five
               of them eat the five hidden locals of the loop (i, k, v, item, counter); the next two cards of the
               body put -5 into the slot of the counter and a new table into the slot of the item.  The next round
               of ForEach reads the counter -5: debug_assert panic (Debug), Ok (Release).
               So "the hidden loop variables of a compiled ForEach are only written by the ForEach sequence" is
               false for compiled programs in general: locals live in value-stack slots (offset + index) that
               expression temporaries share; it can only hold for programs whose operand slots hold value cards
               (well_scoped).  NOT PROVED: that well_scoped programs never fail chk_foreach. *)
From Coq Require Import NArith ZArith List Lia Bool.
From Cao Require Import ListUtil Bits CardAst Bytecode Compiler CompilerProofs Wellformed WellformedSide C15Link RefScope
  Stacks Vm VmProofs C04VmProofs C04VmProofs2 C04VmProofs3 C04VmProofs4 C04VmProofs5 C04VmProofs6 C04VmProofs6b
  C04VmProofs7 C04VmChecked.
Import ListNotations.

Definition w_x : str := [120%N].

(* main = [Return 1] *)
Definition return_main_module : module := main_module [CUn UReturn (CScalarInt 1)].

(* main = [x = 0; for _ in [1, 2, 3] { S; S; S; S; S; -5; {} }]   with S = (x = -5) + (x = -5) *)
Definition eat2 : card := CBin BAdd (CSetVar w_x (CScalarInt (-5))) (CSetVar w_x (CScalarInt (-5))).
Definition foreach_neg_body (m : nat) : card := CComposite [] (repeat eat2 m ++ [CScalarInt (-5); CCreateTable]).
Definition foreach_neg_module (m : nat) : module :=
  main_module [CSetVar w_x (CScalarInt 0);
               CForEach None None None (CArray [CScalarInt 1; CScalarInt 2; CScalarInt 3]) (foreach_neg_body m)].

Definition in_c04_domain (M : module) (o : options) (B : compiled) : bool :=
  program_in_range M o && program_utf8 M o
  && (N.of_nat (length (p_bytecode B)) <? 2147483648)%N && (N.of_nat (length (Compiler.p_data B)) <? 4294967296)%N.

Theorem return_in_main_is_bad_return :
  exists B, compile return_main_module default_options = COk B /\
    in_c04_domain return_main_module default_options B = true /\
    well_scoped return_main_module = false /\
    forall F bld,
      (exists t, fst (run F bld 100 (to_vm B) fresh_state) = OErr EBadReturn t) /\
      fst (run_c F bld (to_vm B) 100 fresh_state) = OAbort AUnmodelled.
Proof.
  destruct (compile return_main_module default_options) as [B| | |] eqn:E; try (vm_compute in E; discriminate).
  exists B. split; [reflexivity|]. vm_compute in E. injection E as <-.
  split; [vm_compute; reflexivity|]. split; [vm_compute; reflexivity|].
  intros F bld. destruct bld; (split; [eexists; vm_compute; reflexivity | vm_compute; reflexivity]).
Qed.

Theorem foreach_counter_needs_well_scoped :
  exists B, compile (foreach_neg_module 5) default_options = COk B /\
    in_c04_domain (foreach_neg_module 5) default_options B = true /\
    well_scoped (foreach_neg_module 5) = false /\
    forall F,
      fst (run F Debug 3000 (to_vm B) fresh_state) = OAbort APanic /\
      fst (run_c F Debug (to_vm B) 3000 fresh_state) = OAbort AUnmodelled /\
      fst (run F Release 3000 (to_vm B) fresh_state) = OOk /\
      fst (run_c F Release (to_vm B) 3000 fresh_state) = OOk.
Proof.
  destruct (compile (foreach_neg_module 5) default_options) as [B| | |] eqn:E; try (vm_compute in E; discriminate).
  exists B. split; [reflexivity|]. vm_compute in E. injection E as <-.
  split; [vm_compute; reflexivity|]. split; [vm_compute; reflexivity|].
  intros F. repeat split; vm_compute; reflexivity.
Qed.

(* one copy of S less or more: the item slot holds no table when the counter is read - an error value *)
Theorem foreach_counter_neighbours :
  forall F bld,
    (forall m B, In m [4; 6] -> compile (foreach_neg_module m) default_options = COk B ->
       exists t, fst (run F bld 3000 (to_vm B) fresh_state) = OErr EAssertionError t).
Proof.
  intros F bld m B [<-|[<-|[]]] E; vm_compute in E; injection E as <-; destruct bld; eexists; vm_compute; reflexivity.
Qed.
