(* C08, run-time half, link to the compiler model:
   A. how process_function lays the declared parameters out as locals (add_locals (rev args)) and what
      resolve_var / ReadVar answer for a parameter name;
   B. the two instructions of a static call site, FunctionPointer h ar; CallFunction, executed on the VM model at
      the place where they lie in the program;
   C. for a compiled module: the pair is the compilation of a call site whose name the specification
      (ResolveSpec.spec_resolve) resolves to the function at position pos, h = Handle(pos), and the CallFunction
      continues at labels[h] = the first byte of the code compile_other produced for that function
      (every function but `main`, under label_keys_distinct_module);
   D. declared parameter m of an n-ary function = local n - 1 - m = argument number k - 1 - m of the k supplied. *)
From Coq Require Import NArith ZArith List Lia Bool.
From Cao Require Import ListUtil Bits BitsProofs CardAst Bytecode Compiler StdlibGen ResolveSpec.
From Cao Require Import CompilerProofs CompilerWf CompilerOk CompilerResolve ResolveProofs ResolveTree CompilerLabels
  CompilerCalls C15Link.
From Cao Require Vm VmProofs VmNativeProofs VmUpvalueProofs C04VmProofs C01SimVm VmCallProofs.
Import ListNotations.
Local Open Scope N_scope.

Arguments N.add : simpl never.
Arguments N.sub : simpl never.
Arguments N.of_nat : simpl never.
Arguments N.to_nat : simpl never.

(* ------------------------------------------------------------------ *)
(* A. parameters are the first locals, in reverse declaration order    *)
(* ------------------------------------------------------------------ *)
Definition mk_local (d : Z) (n : str) : local := {| l_name := n; l_depth := d; l_captured := false |}.

Lemma add_locals_spec : forall names s s',
  cs_locals s <> [] -> add_locals names s = ROk tt s' ->
  cs_locals s' = (hd [] (cs_locals s) ++ map (mk_local (scope_depth s)) names) :: tl (cs_locals s) /\
  cs_depth s' = cs_depth s /\ cs_code s' = cs_code s /\ cs_pc s' = cs_pc s /\ cs_upvalues s' = cs_upvalues s /\
  Forall (fun n => n <> []) names /\
  (names <> [] -> length (hd [] (cs_locals s)) + length names <= locals_cap)%nat.
Proof.
  induction names as [|n r IH]; intros s s' Hne H; cbn [add_locals] in H.
  - injection H as <-. cbn [map]. rewrite app_nil_r. destruct (cs_locals s) as [|l t]; [contradiction|].
    cbn [hd tl]. repeat split; auto. intros C; contradiction.
  - unfold add_local, validate_var_name in H.
    destruct n as [|c n]; [discriminate H|]. cbn [is_empty] in H. unfold bind, ret in H.
    unfold add_local_unchecked in H.
    destruct (Nat.leb_spec locals_cap (length (hd [] (cs_locals s)))) as [Hge|Hlt]; [unfold error in H; discriminate H|].
    match type of H with add_locals r ?t = _ => set (s1 := t) in * end.
    destruct (cs_locals s) as [|l t] eqn:El; [contradiction|].
    assert (Hne1 : cs_locals s1 <> []) by (unfold s1; cbn; discriminate).
    destruct (IH s1 s' Hne1 H) as (A1 & A2 & A3 & A4 & A5 & A6 & A7).
    unfold s1 in A1, A2, A3, A4, A5, A7. cbn [cs_locals set_scopes map_hd hd tl cs_depth cs_code cs_pc cs_upvalues] in A1, A2, A3, A4, A5, A7.
    cbn [hd tl map length]. cbn [hd] in Hlt.
    split.
    { rewrite A1. unfold scope_depth at 2. cbn [cs_depth set_scopes]. fold (scope_depth s).
      rewrite <- app_assoc. reflexivity. }
    repeat (split; [assumption|]). split.
    { constructor; [discriminate|exact A6]. }
    intros _. destruct r as [|n' r']; [cbn [length]; lia|].
    rewrite app_length in A7. cbn [length] in A7 |- *. specialize (A7 ltac:(discriminate)). lia.
Qed.

(* rfind_index: the last index whose element satisfies p *)
Lemma rfind_index_none {A} (p : A -> bool) l : (forall y, In y l -> p y = false) ->
  forall base acc, rfind_index p l base acc = acc.
Proof.
  induction l as [|x r IH]; intros Hf base acc; cbn [rfind_index]; [reflexivity|].
  rewrite (Hf x (or_introl eq_refl)). apply IH. intros y Hy. apply Hf. right. exact Hy.
Qed.

Lemma rfind_index_unique {A} (p : A -> bool) : forall l i x,
  nth_error l i = Some x -> p x = true ->
  (forall j y, nth_error l j = Some y -> p y = true -> j = i) ->
  forall base acc, rfind_index p l base acc = Some (base + i)%nat.
Proof.
  induction l as [|x0 r IH]; intros i x Hn Hp Hu base acc; [destruct i; discriminate|].
  cbn [rfind_index]. destruct i as [|i]; cbn [nth_error] in Hn.
  - injection Hn as ->. rewrite Hp. rewrite rfind_index_none; [f_equal; lia|].
    intros y Hy. destruct (p y) eqn:Ey; [|reflexivity].
    destruct (In_nth_error _ _ Hy) as (j & Hj). specialize (Hu (S j) y Hj Ey). discriminate.
  - destruct (p x0) eqn:E0; [specialize (Hu O x0 eq_refl E0); discriminate|].
    rewrite (IH i x Hn Hp); [f_equal; lia|].
    intros j y Hj Hy. specialize (Hu (S j) y Hj Hy). lia.
Qed.

(* the parameter named p_m (declared m-th of n, names pairwise distinct) is local n - 1 - m *)
Lemma resolve_param : forall d args m s,
  hd [] (cs_locals s) = map (mk_local d) (rev args) -> NoDup args -> (m < length args)%nat ->
  nth m args [] <> [] ->
  resolve_var (nth m args []) s = ROk (VLocal (N.of_nat (length args - 1 - m))) s.
Proof.
  intros d args m s Hl Hnd Hm Hne. unfold resolve_var, bind, validate_var_name.
  destruct (nth m args []) as [|c nm] eqn:En; [contradiction|]. cbn [is_empty]. unfold ret. rewrite Hl, <- En.
  assert (Hnth : nth_error (map (mk_local d) (rev args)) (length args - 1 - m) = Some (mk_local d (nth m args []))).
  { rewrite nth_error_map. rewrite (nth_error_nth' (rev args) []) by (rewrite rev_length; lia).
    rewrite rev_nth by lia. cbn [option_map]. do 3 f_equal. lia. }
  rewrite (rfind_index_unique _ _ _ _ Hnth); [reflexivity | apply str_eqb_refl |].
  intros j y Hj Hy. rewrite nth_error_map in Hj.
  destruct (nth_error (rev args) j) as [nm'|] eqn:Ej; [|discriminate]. injection Hj as <-. cbn [mk_local l_name] in Hy.
  apply str_eqb_eq in Hy. subst nm'.
  assert (Hjl : (j < length args)%nat) by (rewrite <- rev_length; apply nth_error_Some; congruence).
  apply (nth_error_nth _ _ []) in Ej. rewrite rev_nth in Ej by lia.
  apply (proj1 (NoDup_nth args []) Hnd) in Ej; lia.
Qed.

Lemma split_once_c_dotless c x : ~ In c x -> split_once_c c x = None.
Proof.
  induction x as [|y r IH]; intros H; cbn [split_once_c]; [reflexivity|].
  destruct (N.eqb_spec y c) as [->|_]; [exfalso; apply H; left; reflexivity|].
  rewrite IH; [reflexivity|]. intros Hin. apply H. right. exact Hin.
Qed.

(* ReadVar p_m is compiled to ReadLocalVar (n - 1 - m) when the name contains no '.' *)
Lemma read_var_param : forall d args m s,
  hd [] (cs_locals s) = map (mk_local d) (rev args) -> NoDup args -> (m < length args)%nat ->
  nth m args [] <> [] -> ~ In c_dot (nth m args []) ->
  read_var_card (nth m args []) s = push_instr (IReadLocalVar (N.of_nat (length args - 1 - m))) s.
Proof.
  intros d args m s Hl Hnd Hm Hne Hdot. unfold read_var_card.
  rewrite (split_once_c_dotless _ _ Hdot). unfold bind. rewrite (resolve_param d args m s Hl Hnd Hm Hne).
  unfold read_local. destruct (push_instr _ s) as [[] s1| | |] eqn:E; try reflexivity.
Qed.

(* ------------------------------------------------------------------ *)
(* B'. how a Call card ends                                            *)
(* ------------------------------------------------------------------ *)
(* process_card (Call name args): whatever the arguments compile to, the last two instructions appended are
   FunctionPointer (handle, arity of what resolve_function answers for `name` in the state s0 reached after the
   arguments) and CallFunction, next to each other.  (That the rest of the compilation only prepends newer
   instructions and patches operands of jumps - so that the pair is still adjacent in the returned program - is
   not proved in this form; C08_call_resolves has the two adjacent in the call skeleton.) *)
Lemma call_card_emits_pair : forall name args s s',
  process_card (CCall name args) s = ROk tt s' ->
  exists s0 m,
    resolve_function name s0 = ROk m s0 /\
    cs_code s' = ICallFunction :: IFunctionPointer (fm_handle m) (fm_arity m) :: cs_code s0 /\
    cs_pc s' = cs_pc s0 + 9 + 1.
Proof.
  intros name args s s' H. cbn [process_card] in H. unfold bind at 1 in H.
  destruct (card_label s) as [[] sa| | |]; try discriminate H.
  unfold bind at 1 in H.
  match type of H with match ?sub sa with _ => _ end = _ => destruct (sub sa) as [[] s0| | |]; try discriminate H end.
  unfold bind at 1 in H.
  destruct (resolve_function name s0) as [m s1| | |] eqn:Er; try discriminate H.
  pose proof (resolve_function_state _ _ _ _ Er) as ->.
  unfold bind in H. rewrite !push_instr_eq in H. injection H as <-.
  exists s0, m. split; [exact Er|]. unfold pushed. cbn [cs_code cs_pc set_code set_trace]. split; reflexivity.
Qed.

(* ------------------------------------------------------------------ *)
(* C. the call site of a compiled module                               *)
(* ------------------------------------------------------------------ *)
Lemma assoc_nm_find {V} k (l : list (N * V)) : Vm.assoc k l = nm_find k l.
Proof. induction l as [|[k' v] r IH]; cbn; [reflexivity|]. rewrite IH. reflexivity. Qed.

Lemma Forall2_nth_r {A B} (R : A -> B -> Prop) : forall xs ys k y,
  Forall2 R xs ys -> nth_error ys k = Some y -> exists x, nth_error xs k = Some x /\ R x y.
Proof.
  intros xs ys k y H. revert k. induction H as [|x0 y0 xs ys H0 _ IH]; intros k Hk; [destruct k; discriminate|].
  destruct k as [|k]; cbn [nth_error] in *.
  - injection Hk as <-. exists x0. auto.
  - apply IH. exact Hk.
Qed.

Lemma nth_error_app_len {A} (a : list A) x b : nth_error (a ++ x :: b) (length a) = Some x.
Proof. rewrite nth_error_app2 by lia. rewrite Nat.sub_diag. reflexivity. Qed.

(* the position spec_resolve's answer has in the tree is the index of its site in tree_functions *)
Lemma site_target_site root st name pos arn :
  site_target root st name = Some (pos, arn) ->
  exists fid fn imps,
    spec_resolve root (fs_path st) (fs_imports st) name = SFound fid /\
    function_at root fid = Some fn /\ arn = length (f_args fn) /\
    nth_error (tree_functions root []) pos =
      Some {| fs_path := fst fid; fs_name := snd fid; fs_fn := fn; fs_imports := imps |}.
Proof.
  unfold site_target. intros H.
  destruct (spec_resolve root (fs_path st) (fs_imports st) name) as [fid| |] eqn:Es; try discriminate.
  destruct (fn_position root (fst fid) (snd fid) 0) as [p|] eqn:Ep; [|discriminate].
  destruct (function_at root fid) as [fn|] eqn:Ef; [|discriminate].
  injection H as -> <-. exists fid, fn.
  unfold function_at in Ef. destruct (find_module root (fst fid)) as [m'|] eqn:Em; [|discriminate].
  destruct (find (fun nf => seq_eqb (fst nf) (snd fid)) (m_functions m')) as [[n0 fn0]|] eqn:Efi; [|discriminate].
  injection Ef as ->.
  assert (Hh : has_function m' (snd fid) = true).
  { unfold has_function. apply existsb_exists. apply find_some in Efi. exists (n0, fn). exact Efi. }
  destruct (fn_position_spec (snd fid) (fst fid) root [] 0 m' Em Hh) as (pos' & fn' & H1 & H2 & H3).
  rewrite Ep in H1. injection H1 as ->. rewrite Efi in H2. injection H2 as -> <-.
  exists (m_imports m'). split; [reflexivity|]. split; [unfold function_at; rewrite Em, Efi; reflexivity|].
  split; [reflexivity|]. cbn [Nat.add app] in H3. exact H3.
Qed.

Section Site.
Variable F : Vm.fops.
Variable bld : Vm.build.
Variable reenter : N -> Vm.state -> Vm.rres.

(* the statement of call_executes_designated_body for ANY instruction list whose encoding is the program and whose
   call skeleton is C08_call_resolves's (CompilerCallPairProg exhibits the pairs of the Call cards in such a list) *)
Lemma call_pair_executes : forall M o B is mi,
  compile M o = COk B ->
  module_names_dotfree (with_std std_module M) = true ->
  let root := with_std std_module M in
  let P := to_vm B in
  p_bytecode B = encode is -> main_index (m_functions M) 0 = Some mi ->
  Forall2 (site_item_ok root) (flat_map site_items (swap0 (tree_functions root []) mi)) (filter is_call_instr is) ->
    forall a b h ar, is = a ++ IFunctionPointer h ar :: ICallFunction :: b ->
      let ip := bytes a in
      exists st name pos arn,
        (* (i) the pair is the compilation of the reference to [name] made at site [st] (program order) *)
        nth_error (flat_map site_items (swap0 (tree_functions root []) mi)) (length (filter is_call_instr a))
          = Some (st, CPtr name) /\
        site_target root st name = Some (pos, arn) /\
        h = handle_from_u64 (N.of_nat pos) /\ ar = N.of_nat arn mod two32 /\
        (* (ii) the two dispatches *)
        (forall s top rest,
           VmProofs.stack_ok s -> (S (length (VmProofs.stack_of s)) < VmUpvalueProofs.cap s)%nat ->
           Vm.st_calls s = top :: rest ->
           let n := length (VmProofs.stack_of s) in
           let fa := N.of_nat (length (Vm.st_heap s)) in
           let s1 := VmCallProofs.pushed (Vm.set_heap s (Vm.st_heap s ++ [Vm.OFun h ar])) (Vm.VObj fa) in
           let s2 := VmCallProofs.popped s1 n in
           Vm.step F bld P reenter ip s = Vm.SNext (ip + 9) s1 /\
           Vm.step F bld P reenter (ip + 9) s1 = VmCallProofs.call_result P (ip + 9) s2 n h ar None top rest /\
           VmProofs.stack_ok s2 /\ VmProofs.stack_of s2 = VmProofs.stack_of s) /\
        (* (iii) for every target but `main`: labels[h] is the first byte of the code of the designated function *)
        (pos <> mi -> label_keys_distinct_module M (o_recursion_limit o) = true ->
         exists fid tgt f before body rest',
           spec_resolve root (fs_path st) (fs_imports st) name = SFound fid /\
           nth_error (tree_functions root []) pos = Some tgt /\
           fs_path tgt = fst fid /\ fs_name tgt = snd fid /\ function_at root fid = Some (fs_fn tgt) /\
           ir_of (N.of_nat pos) tgt f /\
           p_bytecode B = encode before ++ encode body ++ encode rest' /\
           (exists c1 c2, compile_other f c1 = ROk tt c2 /\ rev (cs_code c1) = before /\
                          rev (cs_code c2) = before ++ body) /\
           Vm.assoc h (Vm.p_labels P) = Some (N.of_nat (length (encode before))) /\
           forall s top rest,
             VmProofs.stack_ok s -> (S (length (VmProofs.stack_of s)) < VmUpvalueProofs.cap s)%nat ->
             Vm.st_calls s = top :: rest ->
             (ar <= N.of_nat (length (VmProofs.stack_of s)))%N -> (S (length rest) < Vm.call_stack_size)%nat ->
             let n := length (VmProofs.stack_of s) in
             let fa := N.of_nat (length (Vm.st_heap s)) in
             let s1 := VmCallProofs.pushed (Vm.set_heap s (Vm.st_heap s ++ [Vm.OFun h ar])) (Vm.VObj fa) in
             Vm.step F bld P reenter (ip + 9) s1 =
               Vm.SNext (N.of_nat (length (encode before)))
                 (Vm.set_calls (VmCallProofs.popped s1 n)
                    (VmCallProofs.callee_frame (ip + 9) n ar None :: VmCallProofs.caller_frame (ip + 9) top :: rest))).
Proof.
  intros M o B is mi Hc Hd root P Henc Hmi HF2.
  intros a b h ar His ip.
  assert (Hk : nth_error (filter is_call_instr is) (length (filter is_call_instr a)) = Some (IFunctionPointer h ar)).
  { rewrite His, filter_app. cbn [filter is_call_instr]. apply nth_error_app_len. }
  destruct (Forall2_nth_r _ _ _ _ _ HF2 Hk) as ([st it] & Hx & Hok).
  unfold site_item_ok in Hok. cbn [fst snd] in Hok. destruct it as [name|]; [|discriminate Hok].
  destruct Hok as (pos & arn & Htgt & Ei). injection Ei as -> ->.
  exists st, name, pos, arn. split; [exact Hx|]. split; [exact Htgt|]. split; [reflexivity|]. split; [reflexivity|].
  (* where the two instructions lie *)
  assert (Hc1 : C01SimVm.code_at P ip (IFunctionPointer (handle_from_u64 (N.of_nat pos)) (N.of_nat arn mod two32))).
  { apply (C01SimVm.code_at_encode P a _ (ICallFunction :: b)). unfold P. cbn [to_vm Vm.p_code]. rewrite Henc, His. reflexivity. }
  assert (Hc2 : C01SimVm.code_at P (ip + 9) ICallFunction).
  { replace (ip + 9) with (bytes (a ++ [IFunctionPointer (handle_from_u64 (N.of_nat pos)) (N.of_nat arn mod two32)]))
      by (rewrite bytes_app; reflexivity).
    apply (C01SimVm.code_at_encode P _ _ b). unfold P. cbn [to_vm Vm.p_code]. rewrite Henc, His, <- app_assoc. reflexivity. }
  assert (Hh : handle_from_u64 (N.of_nat pos) < 4294967296) by apply handle_from_u64_lt.
  assert (Har : N.of_nat arn mod two32 < 4294967296) by (apply N.mod_lt; discriminate).
  split.
  { intros s top rest Hok Hroom Hcs n fa s1 s2.
    destruct (VmCallProofs.vm_static_call F bld P reenter ip s _ _ top rest Hc1 Hc2 Hh Har Hok Hroom Hcs)
      as (E1 & E2 & Hok2 & Hst2 & _).
    split; [exact E1|]. split; [exact E2|]. split; [exact Hok2 | exact Hst2]. }
  intros Hne Hdist.
  destruct (site_target_site root st name pos arn Htgt) as (fid & fn & imps & Es & Ef & -> & Hn).
  assert (Hm : main_index (m_functions M) 0 <> Some pos) by (rewrite Hmi; intros E; injection E as ->; contradiction).
  destruct (compile_label_of_position M o B pos _ Hc Hdist Hn Hm) as (f & before & body & rest' & Hir & Hb & Hlab & Hco).
  exists fid, {| fs_path := fst fid; fs_name := snd fid; fs_fn := fn; fs_imports := imps |}, f, before, body, rest'.
  split; [exact Es|]. split; [exact Hn|]. cbn [fs_path fs_name fs_fn].
  split; [reflexivity|]. split; [reflexivity|]. split; [exact Ef|]. split; [exact Hir|]. split; [exact Hb|].
  split; [exact Hco|].
  assert (Hl : Vm.assoc (handle_from_u64 (N.of_nat pos)) (Vm.p_labels P) = Some (N.of_nat (length (encode before)))).
  { unfold P. cbn [to_vm Vm.p_labels]. rewrite assoc_nm_find. exact Hlab. }
  split; [exact Hl|].
  intros s top rest Hok Hroom Hcs Hargs Hdepth.
  destruct (VmCallProofs.vm_static_call F bld P reenter ip s _ _ top rest Hc1 Hc2 Hh Har Hok Hroom Hcs)
    as (_ & E2 & _).
  rewrite E2. unfold VmCallProofs.call_result.
  destruct (N.ltb_spec (N.of_nat (length (VmProofs.stack_of s))) (N.of_nat (length (f_args fn)) mod two32)); [lia|].
  destruct (Nat.leb_spec Vm.call_stack_size (S (length rest))); [lia|].
  rewrite Hl. reflexivity.
Qed.


Theorem call_executes_designated_body : forall M o B,
  compile M o = COk B ->
  module_names_dotfree (with_std std_module M) = true ->
  let root := with_std std_module M in
  let P := to_vm B in
  exists is mi,
    p_bytecode B = encode is /\ main_index (m_functions M) 0 = Some mi /\
    forall a b h ar, is = a ++ IFunctionPointer h ar :: ICallFunction :: b ->
      let ip := bytes a in
      exists st name pos arn,
        (* (i) the pair is the compilation of the reference to [name] made at site [st] (program order) *)
        nth_error (flat_map site_items (swap0 (tree_functions root []) mi)) (length (filter is_call_instr a))
          = Some (st, CPtr name) /\
        site_target root st name = Some (pos, arn) /\
        h = handle_from_u64 (N.of_nat pos) /\ ar = N.of_nat arn mod two32 /\
        (* (ii) the two dispatches *)
        (forall s top rest,
           VmProofs.stack_ok s -> (S (length (VmProofs.stack_of s)) < VmUpvalueProofs.cap s)%nat ->
           Vm.st_calls s = top :: rest ->
           let n := length (VmProofs.stack_of s) in
           let fa := N.of_nat (length (Vm.st_heap s)) in
           let s1 := VmCallProofs.pushed (Vm.set_heap s (Vm.st_heap s ++ [Vm.OFun h ar])) (Vm.VObj fa) in
           let s2 := VmCallProofs.popped s1 n in
           Vm.step F bld P reenter ip s = Vm.SNext (ip + 9) s1 /\
           Vm.step F bld P reenter (ip + 9) s1 = VmCallProofs.call_result P (ip + 9) s2 n h ar None top rest /\
           VmProofs.stack_ok s2 /\ VmProofs.stack_of s2 = VmProofs.stack_of s) /\
        (* (iii) for every target but `main`: labels[h] is the first byte of the code of the designated function *)
        (pos <> mi -> label_keys_distinct_module M (o_recursion_limit o) = true ->
         exists fid tgt f before body rest',
           spec_resolve root (fs_path st) (fs_imports st) name = SFound fid /\
           nth_error (tree_functions root []) pos = Some tgt /\
           fs_path tgt = fst fid /\ fs_name tgt = snd fid /\ function_at root fid = Some (fs_fn tgt) /\
           ir_of (N.of_nat pos) tgt f /\
           p_bytecode B = encode before ++ encode body ++ encode rest' /\
           (exists c1 c2, compile_other f c1 = ROk tt c2 /\ rev (cs_code c1) = before /\
                          rev (cs_code c2) = before ++ body) /\
           Vm.assoc h (Vm.p_labels P) = Some (N.of_nat (length (encode before))) /\
           forall s top rest,
             VmProofs.stack_ok s -> (S (length (VmProofs.stack_of s)) < VmUpvalueProofs.cap s)%nat ->
             Vm.st_calls s = top :: rest ->
             (ar <= N.of_nat (length (VmProofs.stack_of s)))%N -> (S (length rest) < Vm.call_stack_size)%nat ->
             let n := length (VmProofs.stack_of s) in
             let fa := N.of_nat (length (Vm.st_heap s)) in
             let s1 := VmCallProofs.pushed (Vm.set_heap s (Vm.st_heap s ++ [Vm.OFun h ar])) (Vm.VObj fa) in
             Vm.step F bld P reenter (ip + 9) s1 =
               Vm.SNext (N.of_nat (length (encode before)))
                 (Vm.set_calls (VmCallProofs.popped s1 n)
                    (VmCallProofs.callee_frame (ip + 9) n ar None :: VmCallProofs.caller_frame (ip + 9) top :: rest))).
Proof.
  intros M o B Hc Hd root P.
  destruct (compile_calls M o B Hc Hd) as (is & mi & Henc & Hmi & HF2).
  exists is, mi. split; [exact Henc|]. split; [exact Hmi|].
  exact (call_pair_executes M o B is mi Hc Hd Henc Hmi HF2).
Qed.

End Site.

(* ------------------------------------------------------------------ *)
(* D. declared parameter m <-> argument number k - 1 - m               *)
(* ------------------------------------------------------------------ *)
(* Compiler side: process_function f starts with add_locals (rev (fi_args f)); when the innermost locals list is
   empty at that point (it is [[]] in init_state and every function's scope_end pops what the function declared),
   declared parameter m of n (names pairwise distinct) becomes local n - 1 - m: resolve_var answers VLocal (n-1-m)
   and a ReadVar of the name is compiled to ReadLocalVar (n-1-m).
   VM side: a call of a function object of arity n with the k >= n values vals[0..k-1] on top of the stack (pushed in
   this order: a Call card compiles its arguments first to last) makes ReadLocalVar (n-1-m), executed anywhere in the
   callee's frame while the stack still begins with low ++ vals, push vals[k-1-m]: the LAST supplied value is the
   first declared parameter. *)
Theorem param_binding : forall (f : function_ir) c0 c1 m,
  cs_locals c0 <> [] -> hd [] (cs_locals c0) = [] -> NoDup (fi_args f) ->
  add_locals (rev (fi_args f)) c0 = ROk tt c1 -> (m < length (fi_args f))%nat ->
  let n := length (fi_args f) in
  let p := nth m (fi_args f) [] in
  let j := N.of_nat (n - 1 - m) in
  N.of_nat n mod two32 = N.of_nat n /\
  resolve_var p c1 = ROk (VLocal j) c1 /\
  (~ In c_dot p -> read_var_card p c1 = push_instr (IReadLocalVar j) c1) /\
  forall F bld P reenter ip0 s low vals a (is_clo : bool) h ups top rest pos,
    C04VmProofs.opcode_at P ip0 = 11 -> VmProofs.stack_ok s ->
    VmProofs.stack_of s = (low ++ vals) ++ [Vm.VObj a] ->
    Vm.hget (Vm.st_heap s) a = Some (VmNativeProofs.callee_obj is_clo h (N.of_nat n) ups) ->
    Vm.st_calls s = top :: rest ->
    (n <= length vals)%nat -> (S (length rest) < Vm.call_stack_size)%nat -> Vm.assoc h (Vm.p_labels P) = Some pos ->
    let fr := VmCallProofs.callee_frame ip0 (length (low ++ vals)) (N.of_nat n) (if is_clo then Some a else None) in
    Vm.step F bld P reenter ip0 s =
      Vm.SNext pos (Vm.set_calls (VmCallProofs.popped s (length (low ++ vals)))
                      (fr :: VmCallProofs.caller_frame ip0 top :: rest)) /\
    forall x cs tmp ip,
      Vm.st_calls x = fr :: cs -> VmProofs.stack_ok x -> VmProofs.stack_of x = low ++ vals ++ tmp ->
      (S (length (VmProofs.stack_of x)) < VmUpvalueProofs.cap x)%nat ->
      C01SimVm.code_at P ip (IReadLocalVar j) ->
      Vm.step F bld P reenter ip x =
        Vm.SNext (ip + 5) (VmCallProofs.pushed x (nth (length vals - 1 - m) vals Vm.VNil)).
Proof.
  intros f c0 c1 m Hne Hemp Hnd Hadd Hm n p j.
  destruct (add_locals_spec _ _ _ Hne Hadd) as (Hl & _ & _ & _ & _ & Hnames & Hcap).
  rewrite Hemp in Hl. cbn [app] in Hl.
  assert (Hl1 : hd [] (cs_locals c1) = map (mk_local (scope_depth c0)) (rev (fi_args f))) by (rewrite Hl; reflexivity).
  assert (Hpne : p <> []).
  { rewrite Forall_forall in Hnames. apply Hnames. apply -> in_rev. apply nth_In. exact Hm. }
  assert (Hn255 : (n <= 255)%nat).
  { unfold n. rewrite Hemp, rev_length in Hcap. cbn [length Nat.add] in Hcap. unfold locals_cap in Hcap.
    apply Hcap. intros E. apply (f_equal (@length _)) in E. rewrite rev_length in E. cbn in E. lia. }
  split; [apply N.mod_small; unfold two32; lia|].
  split; [exact (resolve_param _ _ _ _ Hl1 Hnd Hm Hpne)|].
  split; [intros Hdot; exact (read_var_param _ _ _ _ Hl1 Hnd Hm Hpne Hdot)|].
  intros F bld P reenter ip0 s low vals a is_clo h ups top rest pos Hop Hok Hst Ha Hcs Hk Hdepth Hlab fr.
  assert (Hk' : (N.to_nat (N.of_nat n) <= length vals)%nat) by lia.
  destruct (VmCallProofs.vm_params_are_locals F bld P reenter ip0 s low vals a is_clo h (N.of_nat n) ups top rest pos
              Hop Hok Hst Ha Hcs Hk' Hdepth Hlab) as (E & _ & _ & Hloc).
  split; [exact E|].
  intros x cs tmp ip Hcx Hokx Hstx Hroom Hcode.
  assert (Hj : (n - 1 - m < N.to_nat (N.of_nat n))%nat) by lia.
  assert (Hop' : C04VmProofs.opcode_at P ip = 20) by exact (C01SimVm.code_at_opcode Hcode).
  assert (Ej : Vm.op_u32 P (ip + 1) = Some (N.of_nat (n - 1 - m))).
  { apply (C01SimVm.code_at_operand1 (w := 4) Hcode eq_refl eq_refl). apply C01SimVm.fits4_lt. lia. }
  destruct (Hloc x cs tmp (n - 1 - m)%nat ip Hcx Hokx Hj Ej) as (Hr & _).
  destruct (Hr Hop' Hstx Hroom) as (E1 & _).
  rewrite Nat2N.id in E1.
  replace (length vals - n + (n - 1 - m))%nat with (length vals - 1 - m)%nat in E1 by lia.
  replace (ip + 5) with (ip + 1 + 4) by lia. exact E1.
Qed.

(* ------------------------------------------------------------------ *)
(* E. examples: compile (the compiler model) and run (the VM model)    *)
(* ------------------------------------------------------------------ *)
Definition x_f : str := [102].
Definition x_g : str := [103].
Definition x_h : str := [104].
Definition x_x : str := [120].
Definition x_pa : str := [97].
Definition x_pb : str := [98].
Definition x_ga : str := [103; 97].
Definition x_gb : str := [103; 98].
Definition x_r : str := [114].
Definition x_gx : str := [103; 120].
Definition fn_ab (cards : list card) : function := {| f_args := [x_pa; x_pb]; f_cards := cards |}.
Definition fn_a (cards : list card) : function := {| f_args := [x_pa]; f_cards := cards |}.
Definition f_body : list card :=
  [CSetGlobalVar x_ga (CReadVar x_pa); CSetGlobalVar x_gb (CReadVar x_pb);
   CUn UReturn (CBin BSub (CReadVar x_pa) (CReadVar x_pb))].

(* f(a, b) = [ga := a; gb := b; return a - b];  main = [x := 7; r := f(1, 2); gx := x] *)
Definition ex_bind_module : module :=
  Module [] [(s_main, fn0 [CSetVar x_x (CScalarInt 7);
                           CSetGlobalVar x_r (CCall x_f [CScalarInt 1; CScalarInt 2]);
                           CSetGlobalVar x_gx (CReadVar x_x)]);
             (x_f, fn_ab f_body)] [].
(* g() = [];  main = [r := g()] *)
Definition ex_nil_module : module :=
  Module [] [(s_main, fn0 [CSetGlobalVar x_r (CCall x_g [])]); (x_g, fn0 [])] [].
(* the same f called with three arguments: main = [x := 7; r := f(5, 1, 2); gx := x] *)
Definition ex_surplus_module : module :=
  Module [] [(s_main, fn0 [CSetVar x_x (CScalarInt 7);
                           CSetGlobalVar x_r (CCall x_f [CScalarInt 5; CScalarInt 1; CScalarInt 2]);
                           CSetGlobalVar x_gx (CReadVar x_x)]);
             (x_f, fn_ab f_body)] [].
(* h(a) = [ga := a; a := 99; return 5] called WITHOUT an argument by a caller that has one local:
   main = [x := 7; r := h(); gx := x] *)
Definition ex_short_module : module :=
  Module [] [(s_main, fn0 [CSetVar x_x (CScalarInt 7);
                           CSetGlobalVar x_r (CCall x_h []);
                           CSetGlobalVar x_gx (CReadVar x_x)]);
             (x_h, fn_a [CSetGlobalVar x_ga (CReadVar x_pa); CSetVar x_pa (CScalarInt 99); CUn UReturn (CScalarInt 5)])] [].
(* h(a) called without an argument on an empty stack: main = [r := h()] *)
Definition ex_missing_module : module :=
  Module [] [(s_main, fn0 [CSetGlobalVar x_r (CCall x_h [])]); (x_h, fn_a [])] [].
(* main = [r := main()] : finding N-C08-3 at run time *)
Definition ex_callmain_module : module :=
  Module [] [(s_main, fn0 [CSetGlobalVar x_r (CCall s_main [])])] [].

(* outcome, the globals ga gb r gx, and the live value stack at the end of Vm::run *)
Definition run_example (F : Vm.fops) (bld : Vm.build) (M : module)
  : option (Vm.outcome * list (option Vm.value) * list Vm.value) :=
  match compile M default_options with
  | COk B =>
      let P := to_vm B in
      let r := Vm.run F bld 2000 P Vm.fresh_state in
      Some (fst r, map (Vm.read_var_by_name P (snd r)) [x_ga; x_gb; x_r; x_gx], VmProofs.stack_of (snd r))
  | _ => None
  end.

(* the last argument is the first parameter; the caller gets the returned value; its local is intact *)
Lemma ex_call_binding : forall F bld,
  run_example F bld ex_bind_module =
    Some (Vm.OOk, [Some (Vm.VInt 2); Some (Vm.VInt 1); Some (Vm.VInt 1); Some (Vm.VInt 7)], []).
Proof. intros F bld. destruct bld; vm_compute; reflexivity. Qed.

(* a function without Return yields nil *)
Lemma ex_call_nil : forall F bld,
  run_example F bld ex_nil_module = Some (Vm.OOk, [None; None; Some Vm.VNil; None], []).
Proof. intros F bld. destruct bld; vm_compute; reflexivity. Qed.

(* surplus arguments: the callee sees the LAST two (a = 2, b = 1); the first one (5) is not consumed by the
   call: it is still on the caller's stack afterwards (main's closing Pop removes it instead of x's slot, and
   the run ends with one value left on the stack) *)
Lemma ex_call_surplus : forall F bld,
  run_example F bld ex_surplus_module =
    Some (Vm.OOk, [Some (Vm.VInt 2); Some (Vm.VInt 1); Some (Vm.VInt 1); Some (Vm.VInt 7)], [Vm.VInt 7]).
Proof. intros F bld. destruct bld; vm_compute; reflexivity. Qed.

(* too few arguments while the caller has a slot on the stack: no MissingArgument; the callee's parameter a IS
   the caller's local x (ga = 7), and after the Return the caller's local is gone (gx = nil, not 7) *)
Lemma ex_short_call : forall F bld,
  run_example F bld ex_short_module =
    Some (Vm.OOk, [Some (Vm.VInt 7); None; Some (Vm.VInt 5); Some Vm.VNil], []).
Proof. intros F bld. destruct bld; vm_compute; reflexivity. Qed.

(* too few arguments and nothing else on the stack: MissingArgument *)
Lemma ex_missing_argument : forall F bld,
  exists tr, run_example F bld ex_missing_module = Some (Vm.OErr Vm.EMissingArgument tr, [None; None; None; None], []).
Proof. intros F bld. eexists. destruct bld; vm_compute; reflexivity. Qed.

(* a static call of main: ProcedureNotFound(Handle(position of main)) at run time (N-C08-3) *)
Lemma ex_call_main_not_found : forall F bld,
  exists tr, run_example F bld ex_callmain_module =
    Some (Vm.OErr (Vm.EProcedureNotFound (handle_from_u64 0)) tr, [None; None; None; None], []).
Proof. intros F bld. eexists. destruct bld; vm_compute; reflexivity. Qed.

(* the static side of ex_bind_module: the hypotheses of call_executes_designated_body hold, the call site of main
   resolves to function 1 (f, two parameters), the pair FunctionPointer; CallFunction lies at bytes 32 / 41, and
   labels[Handle(1)] = 59 is where f's code starts: ReadLocalVar 1 = parameter a (local n - 1 - m = 2 - 1 - 0) *)
Lemma ex_bind_static :
  module_names_dotfree (with_std std_module ex_bind_module) = true /\
  label_keys_distinct_module ex_bind_module 64 = true /\
  spec_resolve (with_std std_module ex_bind_module) [] [] x_f = SFound ([], x_f) /\
  fn_position (with_std std_module ex_bind_module) [] x_f 0 = Some 1%nat /\
  exists B, compile ex_bind_module default_options = COk B /\
    nm_find (handle_from_u64 1) (p_labels B) = Some 59 /\
    match decode (p_bytecode B) with
    | Some l => In (32%nat, IFunctionPointer (handle_from_u64 1) 2) l /\ In (41%nat, ICallFunction) l /\
                In (59%nat, IReadLocalVar 1) l
    | None => False
    end.
Proof.
  split; [vm_compute; reflexivity|]. split; [vm_compute; reflexivity|].
  split; [vm_compute; reflexivity|]. split; [vm_compute; reflexivity|].
  destruct (compile ex_bind_module default_options) as [B| | |] eqn:Ec; try (vm_compute in Ec; discriminate).
  exists B. split; [reflexivity|]. vm_compute in Ec. injection Ec as <-.
  split; [vm_compute; reflexivity|]. vm_compute. repeat split; tauto.
Qed.
