(* C08, run-time half, link to the compiler model:
   A. how process_function lays the declared parameters out as locals (add_locals (rev args)) and what
      resolve_var / ReadVar answer for a parameter name;
   B. the two instructions of a static call site, FunctionPointer h ar; CallFunction, executed on the VM model at
      the place where they lie in the program;
   C. for a compiled module: the pair is the compilation of a call site whose name the specification
      (ResolveSpec.spec_resolve) resolves to the function at position pos, h = Handle(pos), and the CallFunction
      continues at labels[h] = the first byte of the code compile_other produced for that function
      (every function but `main`, under label_keys_distinct_module);
   D. declared parameter m of an n-ary function = local n - 1 - m = argument number k - 1 - m of the k supplied. *)
From Coq Require Import NArith ZArith List Lia Bool.
From Cao Require Import ListUtil Bits BitsProofs CardAst Bytecode Compiler StdlibGen ResolveSpec.
From Cao Require Import CompilerProofs CompilerWf CompilerOk CompilerResolve ResolveProofs ResolveTree CompilerLabels
  CompilerCalls C15Link.
From Cao Require Vm VmProofs VmNativeProofs VmUpvalueProofs C04VmProofs C01SimVm VmCallProofs.
Import ListNotations.

Arguments N.add : simpl never.
Arguments N.sub : simpl never.
Arguments N.of_nat : simpl never.
Arguments N.to_nat : simpl never.

(* ------------------------------------------------------------------ *)
(* A. parameters are the first locals, in reverse declaration order    *)
(* ------------------------------------------------------------------ *)
Definition mk_local (d : Z) (n : str) : local := {| l_name := n; l_depth := d; l_captured := false |}.

Lemma add_locals_spec : forall names s s',
  cs_locals s <> [] -> add_locals names s = ROk tt s' ->
  cs_locals s' = (hd [] (cs_locals s) ++ map (mk_local (scope_depth s)) names) :: tl (cs_locals s) /\
  cs_depth s' = cs_depth s /\ cs_code s' = cs_code s /\ cs_pc s' = cs_pc s /\ cs_upvalues s' = cs_upvalues s /\
  Forall (fun n => n <> []) names /\
  (names <> [] -> length (hd [] (cs_locals s)) + length names <= locals_cap)%nat.
Proof.
  induction names as [|n r IH]; intros s s' Hne H; cbn [add_locals] in H.
  - injection H as <-. cbn [map]. rewrite app_nil_r. destruct (cs_locals s) as [|l t]; [contradiction|].
    cbn [hd tl]. repeat split; auto. intros C; contradiction.
  - unfold add_local, validate_var_name in H.
    destruct n as [|c n]; [discriminate H|]. cbn [is_empty] in H. unfold bind, ret in H.
    unfold add_local_unchecked in H.
    destruct (Nat.leb_spec locals_cap (length (hd [] (cs_locals s)))) as [Hge|Hlt]; [unfold error in H; discriminate H|].
    match type of H with add_locals r ?t = _ => set (s1 := t) in * end.
    destruct (cs_locals s) as [|l t] eqn:El; [contradiction|].
    assert (Hne1 : cs_locals s1 <> []) by (unfold s1; cbn; discriminate).
    destruct (IH s1 s' Hne1 H) as (A1 & A2 & A3 & A4 & A5 & A6 & A7).
    unfold s1 in A1, A2, A3, A4, A5, A7. cbn [cs_locals set_scopes map_hd hd tl cs_depth cs_code cs_pc cs_upvalues] in A1, A2, A3, A4, A5, A7.
    cbn [hd tl map length]. cbn [hd] in Hlt.
    split.
    { rewrite A1. unfold scope_depth at 2. cbn [cs_depth set_scopes]. fold (scope_depth s).
      rewrite <- app_assoc. reflexivity. }
    repeat (split; [assumption|]). split.
    { constructor; [discriminate|exact A6]. }
    intros _. destruct r as [|n' r']; [cbn [length]; lia|].
    rewrite app_length in A7. cbn [length] in A7 |- *. specialize (A7 ltac:(discriminate)). lia.
Qed.

(* rfind_index: the last index whose element satisfies p *)
Lemma rfind_index_none {A} (p : A -> bool) l : (forall y, In y l -> p y = false) ->
  forall base acc, rfind_index p l base acc = acc.
Proof.
  induction l as [|x r IH]; intros Hf base acc; cbn [rfind_index]; [reflexivity|].
  rewrite (Hf x (or_introl eq_refl)). apply IH. intros y Hy. apply Hf. right. exact Hy.
Qed.

Lemma rfind_index_unique {A} (p : A -> bool) : forall l i x,
  nth_error l i = Some x -> p x = true ->
  (forall j y, nth_error l j = Some y -> p y = true -> j = i) ->
  forall base acc, rfind_index p l base acc = Some (base + i)%nat.
Proof.
  induction l as [|x0 r IH]; intros i x Hn Hp Hu base acc; [destruct i; discriminate|].
  cbn [rfind_index]. destruct i as [|i]; cbn [nth_error] in Hn.
  - injection Hn as ->. rewrite Hp. rewrite rfind_index_none; [f_equal; lia|].
    intros y Hy. destruct (p y) eqn:Ey; [|reflexivity].
    destruct (In_nth_error _ _ Hy) as (j & Hj). specialize (Hu (S j) y Hj Ey). discriminate.
  - destruct (p x0) eqn:E0; [specialize (Hu O x0 eq_refl E0); discriminate|].
    rewrite (IH i x Hn Hp); [f_equal; lia|].
    intros j y Hj Hy. specialize (Hu (S j) y Hj Hy). lia.
Qed.

(* the parameter named p_m (declared m-th of n, names pairwise distinct) is local n - 1 - m *)
Lemma resolve_param : forall d args m s,
  hd [] (cs_locals s) = map (mk_local d) (rev args) -> NoDup args -> (m < length args)%nat ->
  nth m args [] <> [] ->
  resolve_var (nth m args []) s = ROk (VLocal (N.of_nat (length args - 1 - m))) s.
Proof.
  intros d args m s Hl Hnd Hm Hne. unfold resolve_var, bind, validate_var_name.
  destruct (nth m args []) as [|c nm] eqn:En; [contradiction|]. cbn [is_empty]. unfold ret. rewrite Hl, <- En.
  assert (Hnth : nth_error (map (mk_local d) (rev args)) (length args - 1 - m) = Some (mk_local d (nth m args []))).
  { rewrite nth_error_map. rewrite (nth_error_nth' (rev args) []) by (rewrite rev_length; lia).
    rewrite rev_nth by lia. cbn [option_map]. do 3 f_equal. lia. }
  rewrite (rfind_index_unique _ _ _ _ Hnth); [reflexivity | apply str_eqb_refl |].
  intros j y Hj Hy. rewrite nth_error_map in Hj.
  destruct (nth_error (rev args) j) as [nm'|] eqn:Ej; [|discriminate]. injection Hj as <-. cbn [mk_local l_name] in Hy.
  apply str_eqb_eq in Hy. subst nm'.
  assert (Hjl : (j < length args)%nat) by (rewrite <- rev_length; apply nth_error_Some; congruence).
  apply (nth_error_nth _ _ []) in Ej. rewrite rev_nth in Ej by lia.
  apply (proj1 (NoDup_nth args []) Hnd) in Ej; lia.
Qed.

Lemma split_once_c_dotless c x : ~ In c x -> split_once_c c x = None.
Proof.
  induction x as [|y r IH]; intros H; cbn [split_once_c]; [reflexivity|].
  destruct (N.eqb_spec y c) as [->|_]; [exfalso; apply H; left; reflexivity|].
  rewrite IH; [reflexivity|]. intros Hin. apply H. right. exact Hin.
Qed.

(* ReadVar p_m is compiled to ReadLocalVar (n - 1 - m) when the name contains no '.' *)
Lemma read_var_param : forall d args m s,
  hd [] (cs_locals s) = map (mk_local d) (rev args) -> NoDup args -> (m < length args)%nat ->
  nth m args [] <> [] -> ~ In c_dot (nth m args []) ->
  read_var_card (nth m args []) s = push_instr (IReadLocalVar (N.of_nat (length args - 1 - m))) s.
Proof.
  intros d args m s Hl Hnd Hm Hne Hdot. unfold read_var_card.
  rewrite (split_once_c_dotless _ _ Hdot). unfold bind. rewrite (resolve_param d args m s Hl Hnd Hm Hne).
  unfold read_local. destruct (push_instr _ s) as [[] s1| | |] eqn:E; try reflexivity.
Qed.
