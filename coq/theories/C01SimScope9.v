(* C01, simulation: every program of the fragment F9 (several functions, static calls with parameters, Return)
   whose function names contain no '.' is well-scoped (RefScope.well_scoped).
   The hypothesis about the names is needed: the program table contains the functions of the standard library
   under their full names "std.xxx", and well_scoped demands that all full names are pairwise distinct; a user
   function of F9 may be called "std.xxx" (in_f9 does not forbid it). *)
From Coq Require Import List NArith ZArith Bool Arith Lia.
From Cao Require Import CheckUtil CardAst Table RefSem RefScope StdlibGen C01SimDefs C01SimRef C01SimDefs2 C01SimDefs3 C01SimDefs4 C01SimDefs5 C01SimRef5 C01SimDefs6 C01SimDefs7 C01SimScope C01SimDefs9.
From Cao Require Compiler TableProofs C01SimComp C01SimComp5.
Import ListNotations.

(* ------------------------------------------------------------------ the two equalities of names *)
Lemma ceqb_conv a b : Compiler.str_eqb a b = str_eqb a b.
Proof. apply C01SimComp5.str_eqb_conv. Qed.
Lemma reqb_true a b : str_eqb a b = true -> a = b.
Proof. unfold str_eqb. destruct (TableProofs.bytes_eqb_spec a b) as [E|E]; [auto | discriminate]. Qed.
Lemma reqb_refl a : str_eqb a a = true.
Proof. unfold str_eqb. destruct (TableProofs.bytes_eqb_spec a a) as [E|E]; [reflexivity | contradiction]. Qed.

Lemma smem_mem x l : smem x l = mem x l.
Proof.
  unfold smem, mem. induction l as [|y r IH]; cbn [existsb]; [reflexivity|]. rewrite ceqb_conv, IH. reflexivity.
Qed.
Lemma snodup_nodup l : snodup l = nodup l.
Proof. induction l as [|y r IH]; cbn [snodup nodup]; [reflexivity|]. rewrite smem_mem, IH. reflexivity. Qed.

(* ------------------------------------------------------------------ the scoping rules *)
Section Ws9.
Variable P : list fentry.
Variable fi : nat.
Variable sg : sig9.
Hypothesis Hsg : forall name n, Compiler.sm_find name sg = Some n ->
  exists i fe, resolve P fi name = Some i /\ nth_error P i = Some fe /\ length (f_args (fe_fn fe)) = n.

Lemma rhs_ws r : rhs9 sg r = true ->
  forall ret decl loc up, ws P fi ret decl loc up r = Some loc /\ yields r = Some 1.
Proof.
  intros Hr ret decl loc up.
  destruct r; try (apply expr_ws; exact Hr).
  cbn [rhs9] in Hr. apply andb_true_iff in Hr. destruct Hr as [Hargs Hn].
  destruct (Compiler.sm_find name sg) as [n|] eqn:Ef; [|discriminate Hn].
  apply Nat.eqb_eq in Hn. subst n.
  destruct (Hsg _ _ Ef) as (i & fe & Hres & Hnth & Hlen).
  split; [|reflexivity]. cbn [ws]. rewrite Hres, Hnth, Hlen, Nat.eqb_refl.
  match goal with |- (if ?G args && true then _ else _) = _ => assert (HG : G args = true) end.
  { clear - Hargs. induction args as [|a r IH]; [reflexivity|]. cbn [forallb] in Hargs.
    apply andb_true_iff in Hargs. destruct Hargs as [Ha Hr].
    destruct (expr_ws P fi a Ha ret false loc up) as [A B]. rewrite A, B. cbn [andb]. apply IH, Hr. }
  rewrite HG. reflexivity.
Qed.

Lemma stmt_ws9 ret Ln c : stmt9 sg ret Ln c = true -> forall decl up, ws P fi ret decl Ln up c = Some Ln.
Proof.
  induction c using CompilerWf.card_ind'; intros Hc; cbn [stmt9] in Hc; try discriminate Hc; intros decl up.
  - (* IfTrue / IfFalse *)
    destruct op; try discriminate Hc; apply andb_true_iff in Hc; destruct Hc as [He Hb];
      destruct (expr_ws P fi c1 He ret false Ln up) as [A1 B1]; cbn [ws];
      rewrite A1, B1, (IHc2 Hb false up); reflexivity.
  - (* Return *)
    destruct op; try discriminate Hc. apply andb_true_iff in Hc. destruct Hc as [Hret He]. subst ret.
    destruct (rhs_ws c He true false Ln up) as [A1 B1]. cbn [ws andb].
    destruct c; try discriminate He; rewrite A1, B1; reflexivity.
  - (* IfElse *)
    destruct op; try discriminate Hc. apply andb_true_iff in Hc. destruct Hc as [Hc Hb].
    apply andb_true_iff in Hc. destruct Hc as [He Ha].
    destruct (expr_ws P fi c1 He ret false Ln up) as [A1 B1]. cbn [ws].
    rewrite A1, B1, (IHc2 Ha false up), (IHc3 Hb false up). reflexivity.
  - (* SetGlobalVar *)
    apply andb_true_iff in Hc. destruct Hc as [Hne He].
    destruct (rhs_ws c He ret false Ln up) as [A1 B1]. rewrite is_empty_conv in Hne. cbn [ws]. rewrite Hne.
    destruct c; try discriminate He; rewrite A1, B1; reflexivity.
  - (* SetVar of a local *)
    apply andb_true_iff in Hc. destruct Hc as [Hc He]. apply andb_true_iff in Hc. destruct Hc as [Hx Hm].
    unfold var_ok in Hx. apply andb_true_iff in Hx. destruct Hx as [Hne Hdot].
    apply negb_true_iff in Hne, Hdot. rewrite is_empty_conv in Hne.
    destruct (rhs_ws c He ret false Ln up) as [A1 B1]. cbn [ws].
    rewrite (rsplit_no_dot _ Hdot), Hne, mem_lmem, Hm. cbn [orb].
    destruct c; try discriminate He; rewrite A1, B1; reflexivity.
Qed.

Lemma top_ws9 ret Ln c : top9 sg ret Ln c = true -> ws P fi ret true Ln [] c = Some (names_next Ln c).
Proof.
  intros Hc.
  assert (Hstmt : stmt9 sg ret Ln c = true -> names_next Ln c = Ln -> ws P fi ret true Ln [] c = Some (names_next Ln c)).
  { intros H5 Hn. rewrite Hn. apply stmt_ws9, H5. }
  destruct c; try (apply Hstmt; [exact Hc | reflexivity]).
  cbn [top9] in Hc. apply andb_true_iff in Hc. destruct Hc as [Hx He].
  unfold var_ok in Hx. apply andb_true_iff in Hx. destruct Hx as [Hne Hdot].
  apply negb_true_iff in Hne, Hdot. rewrite is_empty_conv in Hne.
  destruct (rhs_ws c He ret false Ln []) as [A1 B1]. cbn [ws names_next].
  rewrite (rsplit_no_dot _ Hdot), Hne, mem_lmem. cbn [mem existsb orb]. rewrite orb_false_r.
  destruct c; try discriminate He; rewrite A1, B1; cbn [negb]; destruct (lmem name Ln); reflexivity.
Qed.

Lemma cards_ws9 ret cards : forall Ln, cards9 sg ret Ln cards = true -> ws_seq P fi ret Ln cards = true.
Proof.
  induction cards as [|c r IH]; intros Ln; cbn [cards9 ws_seq]; [reflexivity|]. intros H.
  apply andb_true_iff in H. destruct H as [H1 H2]. rewrite (top_ws9 ret Ln c H1). apply IH, H2.
Qed.
End Ws9.

(* ------------------------------------------------------------------ the program table *)
Definition ent (nf : str * function) : fentry :=
  {| fe_name := fst nf; fe_ns := []; fe_imports := []; fe_fn := snd nf |}.

Lemma flatten_f9 d funs sl :
  flatten d std_module [s_std] = Some sl ->
  flatten (S d) (Module [(s_std, std_module)] funs []) [] = Some (map ent funs ++ sl).
Proof.
  intros H. cbn [flatten mk_imports ns_prefix flat_map fst snd app]. rewrite H, app_nil_r. reflexivity.
Qed.

(* a name of the signature is found in the table, at the entry of its function *)
Lemma find_sig name n rest : forall funs k, Compiler.sm_find name (sig_of funs) = Some n ->
  exists j fe, find_index (fun fe => str_eqb (fe_name fe) name) (map ent funs ++ rest) k = Some (k + j)%nat /\
               nth_error (map ent funs ++ rest) j = Some fe /\ length (f_args (fe_fn fe)) = n.
Proof.
  induction funs as [|[nm f] r IH]; intros k H; [discriminate H|].
  cbn [sig_of map Compiler.sm_find fst snd] in H. cbn [map app find_index ent fe_name fst].
  rewrite ceqb_conv, C01SimComp5.str_eqb_sym in H.
  destruct (str_eqb nm name).
  - exists 0%nat, (ent (nm, f)). injection H as <-. rewrite Nat.add_0_r. repeat split.
  - fold (sig_of r) in H. destruct (IH (S k) H) as (j & fe & A & B & C). exists (S j), fe.
    rewrite A. split; [f_equal; lia|]. split; assumption.
Qed.

Lemma sig_smem name n : forall l, Compiler.sm_find name (sig_of l) = Some n -> smem name (map fst l) = true.
Proof.
  induction l as [|[nm f] r IH]; intros H; [discriminate H|].
  cbn [sig_of map Compiler.sm_find fst snd] in H. cbn [map fst smem existsb].
  destruct (Compiler.str_eqb name nm); [reflexivity|]. apply IH, H.
Qed.

Lemma sig_app name n later : forall pre, snodup (map fst (pre ++ later)) = true ->
  Compiler.sm_find name (sig_of later) = Some n -> Compiler.sm_find name (sig_of (pre ++ later)) = Some n.
Proof.
  induction pre as [|[nm f] r IH]; intros Hnd H; [exact H|].
  cbn [app map fst snodup] in Hnd. apply andb_true_iff in Hnd. destruct Hnd as [Hnm Hnd].
  cbn [app sig_of map Compiler.sm_find fst snd]. fold (sig_of (r ++ later)).
  destruct (Compiler.str_eqb name nm) eqn:E; [|apply IH; assumption].
  rewrite ceqb_conv in E. apply reqb_true in E. subst nm.
  pose proof (sig_smem _ _ _ (IH Hnd H)) as Hm. rewrite Hm in Hnm. discriminate Hnm.
Qed.

Lemma resolve_sig pre later sl fi fe0 :
  nth_error (map ent (pre ++ later) ++ sl) fi = Some fe0 ->
  snodup (map fst (pre ++ later)) = true ->
  forall name n, Compiler.sm_find name (sig_of later) = Some n ->
  exists i fe, resolve (map ent (pre ++ later) ++ sl) fi name = Some i /\
               nth_error (map ent (pre ++ later) ++ sl) i = Some fe /\ length (f_args (fe_fn fe)) = n.
Proof.
  intros Hfi Hnd name n H.
  destruct (find_sig name n sl (pre ++ later) 0 (sig_app _ _ _ _ Hnd H)) as (j & fe & A & B & C).
  exists j, fe. split; [|split; assumption].
  unfold resolve. rewrite Hfi. unfold find_fn at 1. rewrite A. reflexivity.
Qed.

(* ------------------------------------------------------------------ the functions *)
Lemma forallb_named l : forallb var_ok l = true -> forallb (fun x => negb (is_empty x)) l = true.
Proof.
  apply forallb_impl. intros x H. unfold var_ok in H. apply andb_true_iff in H. destruct H as [H _].
  rewrite is_empty_conv in H. exact H.
Qed.

Lemma fns_ws P sl : forall later pre, P = map ent (pre ++ later) ++ sl -> pre <> [] ->
  snodup (map fst (pre ++ later)) = true -> fns_ok9 later = true ->
  forallb (fun ife => is_std (snd ife) || ws_function P 0 (fst ife) (snd ife))
          (combine (seq (length pre) (length later)) (map ent later)) = true.
Proof.
  induction later as [|[nm f] r IH]; intros pre HP Hpre Hnd Hok; [reflexivity|].
  cbn [fns_ok9] in Hok. apply andb_true_iff in Hok. destruct Hok as [Hf Hok].
  cbn [length seq map combine forallb fst snd].
  assert (Eapp : pre ++ (nm, f) :: r = (pre ++ [(nm, f)]) ++ r) by (rewrite <- app_assoc; reflexivity).
  rewrite andb_true_iff. split.
  - unfold is_std, ws_function. cbn [ent fe_ns fe_fn snd orb].
    unfold fn_ok9 in Hf. apply andb_true_iff in Hf. destruct Hf as [Hf Hcards].
    apply andb_true_iff in Hf. destruct Hf as [Hvar Hpnd].
    assert (Hz : Nat.eqb (length pre) 0 = false) by (destruct pre; [contradiction | reflexivity]).
    rewrite Hz, <- snodup_nodup, Hpnd, (forallb_named _ Hvar). cbn [andb negb].
    apply (cards_ws9 P (length pre) (sig_of r)); [|exact Hcards].
    subst P. rewrite Eapp. apply (resolve_sig _ _ _ _ (ent (nm, f))); [|rewrite <- Eapp; exact Hnd].
    rewrite <- Eapp, map_app, <- app_assoc, nth_error_app2; rewrite map_length; [|lia].
    rewrite Nat.sub_diag. reflexivity.
  - replace (S (length pre)) with (length (pre ++ [(nm, f)])) by (rewrite app_length; cbn [length]; lia).
    apply IH; [rewrite <- Eapp; exact HP | destruct pre; discriminate | rewrite <- Eapp; exact Hnd | exact Hok].
Qed.

(* ------------------------------------------------------------------ the names *)
Lemma stdl_dots : nodup (map fe_name stdl) = true /\ forallb (fun fe => existsb (N.eqb 46) (fe_name fe)) stdl = true.
Proof. vm_compute. split; reflexivity. Qed.

Lemma mem_app x a b : mem x (a ++ b) = mem x a || mem x b.
Proof. unfold mem. apply existsb_app. Qed.

Lemma nodup_app a : forall b, nodup a = true -> nodup b = true ->
  forallb (fun x => negb (mem x b)) a = true -> nodup (a ++ b) = true.
Proof.
  induction a as [|x r IH]; intros b Ha Hb Hd; [exact Hb|].
  cbn [nodup forallb app] in *. apply andb_true_iff in Ha. destruct Ha as [Hx Ha].
  apply andb_true_iff in Hd. destruct Hd as [Hxb Hd].
  rewrite mem_app. apply negb_true_iff in Hx, Hxb. rewrite Hx, Hxb. cbn [orb negb andb]. apply IH; assumption.
Qed.

Lemma mem_dots x : existsb (N.eqb 46) x = false -> forall l,
  forallb (fun fe => existsb (N.eqb 46) (fe_name fe)) l = true -> mem x (map fe_name l) = false.
Proof.
  intros Hx. induction l as [|fe r IH]; intros H; [reflexivity|]. cbn [forallb] in H.
  apply andb_true_iff in H. destruct H as [H1 H2]. cbn [map mem existsb]. fold (mem x (map fe_name r)).
  rewrite (IH H2), orb_false_r. destruct (str_eqb x (fe_name fe)) eqn:E; [|reflexivity].
  apply reqb_true in E. subst x. rewrite H1 in Hx. discriminate Hx.
Qed.

Lemma combine_app {A B} (a1 : list A) (b1 : list B) a2 b2 : length a1 = length b1 ->
  combine (a1 ++ a2) (b1 ++ b2) = combine a1 b1 ++ combine a2 b2.
Proof.
  revert b1. induction a1 as [|x r IH]; intros [|y s] H; try discriminate H; [reflexivity|].
  cbn [app combine]. rewrite IH; [reflexivity|]. cbn [length] in H. lia.
Qed.

(* ------------------------------------------------------------------ the theorem *)
Theorem f9_well_scoped M :
  forallb (fun nf => negb (existsb (N.eqb 46) (fst nf))) (m_functions M) = true ->
  in_f9 M = true -> well_scoped M = true.
Proof.
  intros Hdots HM. destruct M as [subs funs imps]. cbn [in_f9] in HM. cbn [m_functions] in Hdots.
  destruct subs; [|discriminate]. destruct funs as [|[name f] others]; [discriminate|].
  destruct imps; [|discriminate].
  apply andb_true_iff in HM. destruct HM as [HM Hok]. apply andb_true_iff in HM. destruct HM as [HM Hcards].
  apply andb_true_iff in HM. destruct HM as [HM Hnd]. apply andb_true_iff in HM. destruct HM as [Hname Hargs].
  apply str_eqb_main in Hname. subst name.
  assert (Ha : f_args f = []) by (destruct (f_args f); [reflexivity | discriminate]).
  unfold well_scoped, program_of, add_std. cbn [app].
  change 64%nat with (S 63). rewrite (flatten_f9 63 _ stdl stdl_eq).
  cbn [map app find_index ent fe_name fst]. change (str_eqb s_main s_main) with true. cbv iota.
  destruct stdl_dots as [Hsnd Hsdots].
  apply andb_true_iff. split.
  - (* the names are pairwise distinct *)
    change (nodup (map fe_name (map ent ((s_main, f) :: others) ++ stdl)) = true).
    rewrite map_app, map_map. cbn [ent fe_name].
    apply nodup_app; [rewrite <- snodup_nodup; exact Hnd | exact Hsnd |].
    rewrite forallb_forall. intros x Hx. apply in_map_iff in Hx. destruct Hx as (nf & <- & Hin).
    rewrite forallb_forall in Hdots. pose proof (Hdots _ Hin) as Hd. apply negb_true_iff in Hd.
    apply negb_true_iff. apply (mem_dots _ Hd _ Hsdots).
  - (* the functions *)
    change (forallb (fun ife => is_std (snd ife) || ws_function (map ent ((s_main, f) :: others) ++ stdl) 0 (fst ife) (snd ife))
              (combine (seq 0 (length (map ent ((s_main, f) :: others) ++ stdl))) (map ent ((s_main, f) :: others) ++ stdl)) = true).
    rewrite app_length, seq_app, combine_app by (rewrite seq_length; reflexivity).
    set (P := map ent ((s_main, f) :: others) ++ stdl).
    rewrite forallb_app. apply andb_true_iff. split.
    + cbn [map length seq combine forallb fst snd]. apply andb_true_iff. split.
      * unfold is_std, ws_function. cbn [ent fe_ns fe_fn snd orb]. rewrite Ha. cbn [nodup forallb andb Nat.eqb negb].
        apply (cards_ws9 P 0 (sig_of others)); [|exact Hcards].
        apply (resolve_sig [(s_main, f)] others stdl 0 (ent (s_main, f))); [reflexivity | exact Hnd].
      * rewrite map_length.
        apply (fns_ws P stdl others [(s_main, f)]); [reflexivity | discriminate | exact Hnd | exact Hok].
    + apply forallb_std_combine. apply (proj2 stdl_facts).
Qed.
