(* Correctness of the generic linear-probing table (ProbeDefs.v): probing finds present keys and
   the first empty slot otherwise; insertion into that slot and Knuth's backward-shift deletion
   preserve the chain and distinctness invariants.  Stdlib + lia only. *)
From Coq Require Import Arith Lia List Bool.
Import ListNotations.
From Cao Require Import Cyc ProbeDefs.

Set Implicit Arguments.

Section ListArr.
Variable A : Type.
Lemma set_length (t : list (option A)) i v : length (set t i v) = length t.
Proof. revert i; induction t as [|x r IH]; intros [|i]; simpl; auto. Qed.
Lemma get_set_eq (t : list (option A)) i v : i < length t -> get (set t i v) i = v.
Proof. revert i; induction t as [|x r IH]; intros [|i] H; simpl in *; try lia; auto.
  apply IH. lia. Qed.
Lemma get_set_ne (t : list (option A)) i j v : i <> j -> get (set t i v) j = get t j.
Proof. revert i j; induction t as [|x r IH]; intros [|i] [|j] H; simpl in *; auto; try lia.
  apply IH. lia. Qed.
End ListArr.

Section Probe.
Variables (K E : Type) (keqb : K -> K -> bool) (ek : E -> K) (home : nat -> K -> nat).
Hypothesis keqb_spec : forall a b, reflect (a = b) (keqb a b).
Hypothesis home_lt : forall n k, 0 < n -> home n k < n.

Notation tbl := (list (option E)).

Section Fixed.
Variable n : nat.
Hypothesis Hn : 0 < n.
Notation d := (dist n).
Notation hm e := (home n (ek e)).
Notation probe := (ProbeDefs.probe keqb ek n).
Notation find := (ProbeDefs.find keqb ek home n).
Notation backshift := (ProbeDefs.backshift ek home n).

Definition Chain (t : tbl) : Prop :=
  forall p e, p < n -> get t p = Some e ->
  forall s, s < d (hm e) p -> get t ((hm e + s) mod n) <> None.

Definition ChainH (t : tbl) (i : nat) : Prop :=
  forall p e, p < n -> get t p = Some e ->
  forall s, s < d (hm e) p ->
    (hm e + s) mod n = i \/ get t ((hm e + s) mod n) <> None.

Definition Distinct (t : tbl) : Prop :=
  forall p q e1 e2, p < n -> q < n -> get t p = Some e1 -> get t q = Some e2 ->
    ek e1 = ek e2 -> p = q.

Definition In_tbl (t : tbl) (e : E) : Prop := exists p, p < n /\ get t p = Some e.

Definition stops (t : tbl) (k : K) (q : nat) : Prop :=
  match get t q with None => True | Some e => k = ek e end.

Lemma succ_mod_add h s : (S ((h + s) mod n)) mod n = (h + S s) mod n.
Proof.
  replace (S ((h + s) mod n)) with ((h + s) mod n + 1) by lia.
  rewrite Nat.add_mod_idemp_l by lia. f_equal. lia.
Qed.

Lemma probe_spec t k h : forall dd s, s <= dd -> dd < n ->
  (forall s', s <= s' -> s' < dd -> exists e, get t ((h + s') mod n) = Some e /\ k <> ek e) ->
  stops t k ((h + dd) mod n) ->
  probe t k ((h + s) mod n) (n - s) = Some ((h + dd) mod n).
Proof.
  intros dd s Hs. remember (dd - s) as m eqn:Hm. revert s Hs Hm.
  induction m as [|m IH]; intros s Hs Hm Hdd Hocc Hstop.
  - assert (s = dd) by lia. subst s.
    destruct (n - dd) as [|f] eqn:Hf; [lia|]. simpl.
    unfold stops in Hstop. destruct (get t ((h + dd) mod n)) as [e|]; auto.
    subst k. destruct (keqb_spec (ek e) (ek e)); congruence.
  - destruct (n - s) as [|f] eqn:Hf; [lia|]. simpl.
    destruct (Hocc s) as [e [He Hne]]; try lia. rewrite He.
    destruct (keqb_spec k (ek e)); [congruence|].
    rewrite succ_mod_add. replace f with (n - S s) by lia.
    apply IH; try lia; auto. intros s' H1 H2. apply Hocc; lia.
Qed.


Lemma find_offset t k dd : dd < n ->
  (forall s', s' < dd -> exists e, get t ((home n k + s') mod n) = Some e /\ k <> ek e) ->
  stops t k ((home n k + dd) mod n) ->
  find t k = Some ((home n k + dd) mod n).
Proof.
  intros Hdd Hocc Hstop. unfold find.
  pose proof (home_lt k Hn) as Hh.
  pose proof (@probe_spec t k (home n k) dd 0 ltac:(lia) Hdd) as P.
  rewrite Nat.add_0_r, Nat.sub_0_r in P. rewrite (Nat.mod_small _ _ Hh) in P.
  apply P; [intros s' _ H; apply Hocc; assumption | assumption].
Qed.

(* key present => found at its slot *)
Lemma find_present t p e : Chain t -> Distinct t -> p < n -> get t p = Some e ->
  find t (ek e) = Some p.
Proof.
  intros HC HD Hp He.
  pose proof (home_lt (ek e) Hn) as Hh.
  pose proof (@add_dist n Hn _ _ Hh Hp) as Had.
  rewrite <- Had. apply find_offset.
  - apply dist_lt; lia.
  - intros s' Hs'.
    destruct (get t ((hm e + s') mod n)) as [e'|] eqn:He'.
    + exists e'. split; auto. intro Heq.
      assert (Hq : (hm e + s') mod n < n) by (apply Nat.mod_upper_bound; lia).
      pose proof (HD _ _ _ _ Hp Hq He He' Heq) as Hpq.
      pose proof (@dist_lt n Hn (hm e) p) as Hlt.
      pose proof (@dist_add n Hn _ s' Hh ltac:(lia)) as Hda.
      rewrite <- Hpq in Hda. lia.
    + exfalso. exact (HC p e Hp He s' Hs' He').
  - unfold stops. rewrite Had, He. reflexivity.
Qed.

(* key absent and some empty slot => returns an empty slot, everything before it occupied *)
Lemma find_absent t k : (forall e, In_tbl t e -> ek e <> k) ->
  (exists z, z < n /\ get t z = None) ->
  exists q, q < n /\ find t k = Some q /\ get t q = None /\
    forall s, s < d (home n k) q -> get t ((home n k + s) mod n) <> None.
Proof.
  intros Habs [z [Hz Hez]].
  pose proof (home_lt k Hn) as Hh.
  (* the first empty offset <= dist home z *)
  set (h := home n k) in *.
  assert (Hex : exists dd, dd < n /\ get t ((h + dd) mod n) = None).
  { exists (d h z). split; [apply dist_lt; lia|]. rewrite add_dist; auto. }
  destruct Hex as [dd0 Hdd0].
  assert (Hmin : exists dd, (dd < n /\ get t ((h + dd) mod n) = None) /\
             forall s, s < dd -> get t ((h + s) mod n) <> None).
  { revert Hdd0. induction dd0 as [dd0 IH] using lt_wf_ind. intros [H1 H2].
    destruct (existsb (fun s => match get t ((h + s) mod n) with None => true | _ => false end)
                (seq 0 dd0)) eqn:Hb.
    - apply existsb_exists in Hb. destruct Hb as [s [Hin Hs]].
      apply in_seq in Hin. destruct (get t ((h + s) mod n)) eqn:Hg; [discriminate|].
      apply (IH s); [lia|]. split; [lia|auto].
    - exists dd0. split; [auto|]. intros s Hs Hg.
      assert (existsb (fun s => match get t ((h + s) mod n) with None => true | _ => false end)
                (seq 0 dd0) = true).
      { apply existsb_exists. exists s. split; [apply in_seq; lia|]. rewrite Hg. reflexivity. }
      congruence. }
  destruct Hmin as [dd [[Hdd Hnone] Hocc]].
  exists ((h + dd) mod n).
  assert (Hq : (h + dd) mod n < n) by (apply Nat.mod_upper_bound; lia).
  split; [auto|]. split; [|split; [auto|]].
  - subst h. apply find_offset; auto.
    + intros s' Hs'. destruct (get t ((home n k + s') mod n)) as [e'|] eqn:He'.
      * exists e'. split; auto. intro Heq. eapply Habs; [|symmetry; exact Heq].
        exists ((home n k + s') mod n). split; auto. apply Nat.mod_upper_bound; lia.
      * exfalso. eapply Hocc; eauto.
    + unfold stops. rewrite Hnone. exact I.
  - intros s Hs. rewrite (@dist_add n Hn) in Hs by assumption. apply Hocc. assumption.
Qed.

(* ---------- insertion into an empty slot found by probing ---------- *)
Lemma insert_new_chain t q e : Chain t -> q < n -> get t q = None -> length t = n ->
  (forall s, s < d (hm e) q -> get t ((hm e + s) mod n) <> None) ->
  Chain (set t q (Some e)).
Proof.
  intros HC Hq Hnone Hlen Hocc p e' Hp He' s Hs.
  destruct (Nat.eq_dec q p) as [->|Hqp].
  - rewrite get_set_eq in He' by lia. inversion He'; subst e'.
    destruct (Nat.eq_dec p ((hm e + s) mod n)) as [Heq|Hne].
    + rewrite <- Heq, get_set_eq by lia. discriminate.
    + rewrite get_set_ne by assumption. apply Hocc. assumption.
  - rewrite get_set_ne in He' by assumption.
    destruct (Nat.eq_dec q ((hm e' + s) mod n)) as [Heq|Hne].
    + rewrite <- Heq, get_set_eq by lia. discriminate.
    + rewrite get_set_ne by assumption. eapply HC; eauto.
Qed.

(* ---------- backward-shift deletion (Knuth 6.4 Algorithm R) ---------- *)
Record BInv (t : tbl) (i j z : nat) : Prop := {
  bi_len : length t = n;
  bi_i : i < n; bi_j : j < n; bi_zn : z < n;
  bi_hole : get t i = None;
  bi_z : get t z = None;
  bi_zi : z <> i;
  bi_ij : 0 < d i j;
  bi_jz : d i j <= d i z;
  bi_region : forall q, q < n -> 0 < d i q -> d i q < d i j ->
      exists e, get t q = Some e /\ 0 < d i (hm e) /\ d i (hm e) <= d i q;
  bi_chain : ChainH t i;
  bi_distinct : Distinct t }.

Lemma binv_final t i j z : BInv t i j z -> get t j = None -> Chain t.
Proof.
  intros [Hlen Hi Hj Hz Hhole Hez Hzi Hij Hjz Hreg HCH HD] Hj0 p e Hp He s Hs.
  pose proof (home_lt (ek e) Hn) as Hh.
  destruct (HCH p e Hp He s Hs) as [Hq|Hq]; [|exact Hq]. exfalso.
  (* the probe path of e passes through the hole i *)
  assert (Hsd : d (hm e) i = s).
  { rewrite <- Hq. apply dist_add; auto. pose proof (@dist_lt n Hn (hm e) p). lia. }
  assert (Hpi : p <> i) by (intro; subst p; congruence).
  assert (Hsplit : d (hm e) i + d i p = d (hm e) p).
  { apply dist_split; auto; lia. }
  assert (Hip : 0 < d i p).
  { destruct (d i p) eqn:Hd0; [|lia]. apply dist_zero in Hd0; auto. congruence. }
  destruct (lt_dec (d i p) (d i j)) as [Hin|Hout].
  - (* p in the already-checked region: its home lies in (i, p] *)
    destruct (Hreg p Hp Hip Hin) as [e' [He' [Hh1 Hh2]]].
    rewrite He in He'. inversion He'; subst e'.
    assert (d i (hm e) + d (hm e) p = d i p) by (apply dist_split; auto).
    lia.
  - (* p beyond j: the path also crosses j, which is empty and is not the hole *)
    assert (Hpj : p <> j) by (intro; subst p; congruence).
    assert (Hlt : d i j < d i p).
    { destruct (Nat.eq_dec (d i j) (d i p)) as [Heq|]; [|lia].
      apply dist_inj in Heq; auto. congruence. }
    assert (Hs2 : s + d i j < d (hm e) p) by lia.
    destruct (HCH p e Hp He (s + d i j) Hs2) as [Hq2|Hq2].
    + rewrite (add_mod_shift n Hn (hm e) s (d i j) i Hq) in Hq2. rewrite add_dist in Hq2; auto.
      subst j. rewrite dist_self in Hij; auto. lia.
    + apply Hq2. rewrite (add_mod_shift n Hn (hm e) s (d i j) i Hq). rewrite add_dist; auto.
Qed.

Lemma succ_lt j : S j mod n < n.
Proof. apply Nat.mod_upper_bound. lia. Qed.

Lemma binv_keep t i j z e : BInv t i j z -> get t j = Some e ->
  in_cyc i j (hm e) = true -> BInv t i (S j mod n) z /\ d (S j mod n) z + 1 = d j z.
Proof.
  intros [Hlen Hi Hj Hz Hhole Hez Hzi Hij Hjz Hreg HCH HD] He Hin.
  pose proof (home_lt (ek e) Hn) as Hh.
  assert (Hji : j <> i) by (intro; subst j; rewrite dist_self in Hij; auto; lia).
  assert (Hjzne : j <> z) by (intro; subst j; congruence).
  apply (in_cyc_spec n Hn i j (hm e) Hi Hj Hh (not_eq_sym Hji)) in Hin.
  assert (Hlt : d i j < d i z).
  { destruct (Nat.eq_dec (d i j) (d i z)) as [Heq|]; [|lia]. apply dist_inj in Heq; auto. congruence. }
  assert (Hsi : S j mod n <> i).
  { intro Hc. apply succ_eq_dist in Hc; auto. pose proof (@dist_lt n Hn i z). lia. }
  pose proof (succ_lt j) as Hsj.
  assert (Hds : d i (S j mod n) = d i j + 1) by (apply dist_succ_r; auto).
  split.
  - constructor; auto; try lia.
    intros q Hq H0 H1.
    destruct (lt_dec (d i q) (d i j)) as [Hl|Hl]; [apply Hreg; auto|].
    assert (Heq : d i q = d i j) by lia. apply dist_inj in Heq; auto. subst q.
    exists e. tauto.
  - apply dist_succ; auto.
Qed.

Lemma binv_move t i j z e : BInv t i j z -> get t j = Some e ->
  in_cyc i j (hm e) = false ->
  let t' := set (set t i (Some e)) j None in
  BInv t' j (S j mod n) z /\ d (S j mod n) z + 1 = d j z /\
  (forall e', In_tbl t' e' <-> In_tbl t e').
Proof.
  intros [Hlen Hi Hj Hz Hhole Hez Hzi Hij Hjz Hreg HCH HD] He Hin t'.
  pose proof (home_lt (ek e) Hn) as Hh.
  assert (Hji : j <> i) by (intro; subst j; rewrite dist_self in Hij; auto; lia).
  assert (Hjzne : j <> z) by (intro; subst j; congruence).
  assert (Hn2 : 2 <= n) by lia.
  pose proof (succ_lt j) as Hsj.
  assert (Hlen1 : length (set t i (Some e)) = n) by (rewrite set_length; auto).
  assert (Hg : forall q, get t' q = if Nat.eq_dec q j then None else if Nat.eq_dec q i then Some e else get t q).
  { intro q. unfold t'. destruct (Nat.eq_dec q j) as [->|Hqj].
    - apply get_set_eq. lia.
    - rewrite get_set_ne by auto. destruct (Nat.eq_dec q i) as [->|Hqi].
      + apply get_set_eq. lia.
      + apply get_set_ne. auto. }
  assert (Hnin : ~ (0 < d i (hm e) /\ d i (hm e) <= d i j)).
  { intro Hc. apply (in_cyc_spec n Hn i j (hm e) Hi Hj Hh (not_eq_sym Hji)) in Hc. congruence. }
  split; [|split].
  - constructor; auto.
    + unfold t'. rewrite !set_length. auto.
    + rewrite Hg. destruct (Nat.eq_dec j j); congruence.
    + rewrite Hg. destruct (Nat.eq_dec z j); [congruence|]. destruct (Nat.eq_dec z i); congruence.
    + rewrite dist_one; auto.
    + rewrite dist_one; auto. destruct (d j z) eqn:Hd0; [|lia]. apply dist_zero in Hd0; auto. congruence.
    + intros q Hq H0 H1. rewrite dist_one in H1; auto. lia.
    + (* ChainH t' j *)
      intros p e' Hp He' s Hs. rewrite Hg in He'.
      destruct (Nat.eq_dec p j) as [|Hpj]; [discriminate|].
      destruct (Nat.eq_dec p i) as [->|Hpi].
      * inversion He'; subst e'. right.
        (* path of e to its new slot i is a prefix of its old path to j *)
        destruct (Nat.eq_dec (d i (hm e)) 0) as [H0|H0].
        { apply dist_zero in H0; auto. rewrite <- H0, dist_self in Hs; auto. lia. }
        assert (Hrev : d (hm e) i + d i j = d (hm e) j) by (apply dist_rev; auto; lia).
        assert (Hq : (hm e + s) mod n < n) by (apply Nat.mod_upper_bound; lia).
        assert (Hdq : d (hm e) ((hm e + s) mod n) = s).
        { apply dist_add; auto. pose proof (@dist_lt n Hn (hm e) i). lia. }
        rewrite Hg.
        destruct (Nat.eq_dec ((hm e + s) mod n) j) as [Hc|_].
        { rewrite Hc in Hdq. lia. }
        destruct (Nat.eq_dec ((hm e + s) mod n) i) as [Hc|_].
        { rewrite Hc in Hdq. lia. }
        destruct (HCH j e Hj He s ltac:(lia)) as [Hc|Hc]; [|exact Hc].
        rewrite Hc in Hdq. lia.
      * destruct (HCH p e' Hp He' s Hs) as [Hc|Hc].
        -- right. rewrite Hg. rewrite Hc.
           destruct (Nat.eq_dec i j); [congruence|]. destruct (Nat.eq_dec i i); congruence.
        -- destruct (Nat.eq_dec ((hm e' + s) mod n) j) as [Hqj|Hqj]; [left; exact Hqj|].
           right. rewrite Hg. destruct (Nat.eq_dec ((hm e' + s) mod n) j); [congruence|].
           destruct (Nat.eq_dec ((hm e' + s) mod n) i); [discriminate|exact Hc].
    + (* Distinct t' *)
      intros p q e1 e2 Hp Hq H1 H2 Hk. rewrite Hg in H1, H2.
      destruct (Nat.eq_dec p j); [discriminate|]. destruct (Nat.eq_dec q j); [discriminate|].
      destruct (Nat.eq_dec p i) as [->|]; destruct (Nat.eq_dec q i) as [->|]; auto.
      * inversion H1; subst e1. pose proof (HD j q e e2 Hj Hq He H2 Hk). congruence.
      * inversion H2; subst e2. pose proof (HD p j e1 e Hp Hj H1 He Hk). congruence.
      * eapply HD; eauto.
  - apply dist_succ; auto.
  - intros e'. split; intros [p [Hp Hgp]].
    + rewrite Hg in Hgp. destruct (Nat.eq_dec p j); [discriminate|].
      destruct (Nat.eq_dec p i).
      * inversion Hgp; subst e'. exists j. auto.
      * exists p. auto.
    + destruct (Nat.eq_dec p j) as [->|Hpj].
      * rewrite He in Hgp. inversion Hgp; subst e'. exists i. split; auto.
        rewrite Hg. destruct (Nat.eq_dec i j); [congruence|]. destruct (Nat.eq_dec i i); congruence.
      * exists p. split; auto. rewrite Hg. destruct (Nat.eq_dec p j); [congruence|].
        destruct (Nat.eq_dec p i) as [->|]; [congruence|auto].
Qed.

Theorem backshift_correct : forall fuel t i j z, BInv t i j z -> d j z < fuel ->
  exists t', backshift t i j fuel = Some t' /\
  Chain t' /\ Distinct t' /\ length t' = n /\ (forall e, In_tbl t' e <-> In_tbl t e).
Proof.
  induction fuel as [|f IH]; intros t i j z HI Hf; [lia|]. simpl.
  destruct (get t j) as [e|] eqn:He.
  - destruct (in_cyc i j (hm e)) eqn:Hin.
    + destruct (binv_keep HI He Hin) as [HI' Hd]. apply (IH _ _ _ z); auto. lia.
    + destruct (binv_move HI He Hin) as [HI' [Hd Hsame]].
      destruct (IH _ _ _ z HI' ltac:(lia)) as [t' [Hb [H1 [H2 [H3 H4]]]]].
      exists t'. repeat split; auto; intros; [apply Hsame, H4 | apply H4, Hsame]; auto.
  - exists t. repeat split; try tauto.
    + eapply binv_final; eauto.
    + apply HI.
    + apply HI.
Qed.

(* ---------- facts about In_tbl, uniqueness, and single-slot updates ---------- *)

Lemma in_tbl_unique t e1 e2 : Distinct t -> In_tbl t e1 -> In_tbl t e2 -> ek e1 = ek e2 -> e1 = e2.
Proof.
  intros HD [p [Hp H1]] [q [Hq H2]] Hk.
  pose proof (HD p q e1 e2 Hp Hq H1 H2 Hk). subst q. congruence.
Qed.

Lemma in_tbl_set_some t q e : length t = n -> q < n -> get t q = None ->
  forall e', In_tbl (set t q (Some e)) e' <-> e' = e \/ In_tbl t e'.
Proof.
  intros Hlen Hq Hnone e'. split.
  - intros [p [Hp Hg]]. destruct (Nat.eq_dec q p) as [->|Hne].
    + rewrite get_set_eq in Hg by lia. left. congruence.
    + rewrite get_set_ne in Hg by assumption. right. exists p. auto.
  - intros [->|[p [Hp Hg]]].
    + exists q. split; auto. apply get_set_eq. lia.
    + exists p. split; auto. rewrite get_set_ne; auto. intro; subst p. congruence.
Qed.

Lemma insert_new_distinct t q e : length t = n -> q < n -> get t q = None ->
  Distinct t -> (forall e', In_tbl t e' -> ek e' <> ek e) -> Distinct (set t q (Some e)).
Proof.
  intros Hlen Hq Hnone HD Habs p1 p2 e1 e2 Hp1 Hp2 H1 H2 Hk.
  destruct (Nat.eq_dec q p1) as [E1|E1]; destruct (Nat.eq_dec q p2) as [E2|E2]; try congruence.
  - subst p1. rewrite get_set_eq in H1 by lia. rewrite get_set_ne in H2 by assumption.
    inversion H1; subst e1. exfalso. apply (Habs e2); [exists p2; auto|congruence].
  - subst p2. rewrite get_set_eq in H2 by lia. rewrite get_set_ne in H1 by assumption.
    inversion H2; subst e2. exfalso. apply (Habs e1); [exists p1; auto|congruence].
  - rewrite get_set_ne in H1, H2 by assumption. eapply HD; eauto.
Qed.

(* overwrite an occupied slot by an entry with the same probe key *)
Lemma replace_chain t p e0 e : length t = n -> p < n -> get t p = Some e0 -> ek e = ek e0 ->
  Chain t -> Chain (set t p (Some e)).
Proof.
  intros Hlen Hp H0 Hk HC q e' Hq He' s Hs.
  assert (Hocc : forall x, get t x <> None -> get (set t p (Some e)) x <> None).
  { intros x Hx. destruct (Nat.eq_dec p x) as [->|Hne].
    - rewrite get_set_eq by lia. discriminate.
    - rewrite get_set_ne by assumption. exact Hx. }
  destruct (Nat.eq_dec p q) as [->|Hne].
  - rewrite get_set_eq in He' by lia. inversion He'; subst e'. apply Hocc.
    rewrite Hk in *. eapply HC; eauto.
  - rewrite get_set_ne in He' by assumption. apply Hocc. eapply HC; eauto.
Qed.

Lemma replace_distinct t p e0 e : length t = n -> p < n -> get t p = Some e0 -> ek e = ek e0 ->
  Distinct t -> Distinct (set t p (Some e)).
Proof.
  intros Hlen Hp H0 Hk HD p1 p2 e1 e2 Hp1 Hp2 H1 H2 Hk12.
  destruct (Nat.eq_dec p p1) as [E1|E1]; destruct (Nat.eq_dec p p2) as [E2|E2]; try congruence.
  - subst p1. rewrite get_set_eq in H1 by lia. rewrite get_set_ne in H2 by assumption.
    inversion H1; subst e1. apply (HD p p2 e0 e2); auto. congruence.
  - subst p2. rewrite get_set_eq in H2 by lia. rewrite get_set_ne in H1 by assumption.
    inversion H2; subst e2. apply (HD p1 p e1 e0); auto. congruence.
  - rewrite get_set_ne in H1, H2 by assumption. eapply HD; eauto.
Qed.

Lemma in_tbl_replace t p e0 e : length t = n -> p < n -> get t p = Some e0 -> ek e = ek e0 ->
  Distinct t ->
  forall e', In_tbl (set t p (Some e)) e' <-> e' = e \/ (In_tbl t e' /\ ek e' <> ek e0).
Proof.
  intros Hlen Hp H0 Hk HD e'. split.
  - intros [q [Hq Hg]]. destruct (Nat.eq_dec p q) as [->|Hne].
    + rewrite get_set_eq in Hg by lia. left. congruence.
    + rewrite get_set_ne in Hg by assumption. right. split; [exists q; auto|].
      intro Hc. apply Hne. apply (HD p q e0 e'); auto.
  - intros [->|[[q [Hq Hg]] Hne]].
    + exists p. split; auto. apply get_set_eq. lia.
    + exists q. split; auto. rewrite get_set_ne; auto. intro; subst q. congruence.
Qed.

(* ---------- removal: clear the slot, then shift back ---------- *)

Lemma in_tbl_set_none t i e0 : length t = n -> i < n -> get t i = Some e0 -> Distinct t ->
  forall e, In_tbl (set t i None) e <-> (In_tbl t e /\ ek e <> ek e0).
Proof.
  intros Hlen Hi H0 HD e. split.
  - intros [q [Hq Hg]]. destruct (Nat.eq_dec i q) as [->|Hne].
    + rewrite get_set_eq in Hg by lia. discriminate.
    + rewrite get_set_ne in Hg by assumption. split; [exists q; auto|].
      intro Hc. apply Hne. apply (HD i q e0 e); auto.
  - intros [[q [Hq Hg]] Hne]. exists q. split; auto.
    rewrite get_set_ne; auto. intro; subst q. congruence.
Qed.

Theorem remove_at_correct t i e0 z : length t = n -> Chain t -> Distinct t ->
  i < n -> get t i = Some e0 -> z < n -> get t z = None ->
  exists t', backshift (set t i None) i (S i mod n) n = Some t' /\
  Chain t' /\ Distinct t' /\ length t' = n /\
  (forall e, In_tbl t' e <-> (In_tbl t e /\ ek e <> ek e0)).
Proof.
  intros Hlen HC HD Hi H0 Hz Hez.
  assert (Hzi : z <> i) by (intro; subst z; congruence).
  assert (Hn2 : 2 <= n) by lia.
  set (t1 := set t i None).
  assert (Hlen1 : length t1 = n) by (unfold t1; rewrite set_length; auto).
  assert (Hg : forall q, get t1 q = if Nat.eq_dec q i then None else get t q).
  { intro q. unfold t1. destruct (Nat.eq_dec q i) as [->|Hq].
    - apply get_set_eq. lia.
    - apply get_set_ne. auto. }
  pose proof (succ_lt i) as Hsi.
  assert (BI : BInv t1 i (S i mod n) z).
  { constructor; auto.
    - rewrite Hg. destruct (Nat.eq_dec i i); congruence.
    - rewrite Hg. destruct (Nat.eq_dec z i); congruence.
    - rewrite dist_one; auto.
    - rewrite dist_one; auto. destruct (d i z) eqn:Hd0; [|lia]. apply dist_zero in Hd0; auto. congruence.
    - intros q Hq H1 H2. rewrite dist_one in H2; auto. lia.
    - intros p e Hp He s Hs. rewrite Hg in He. destruct (Nat.eq_dec p i); [discriminate|].
      destruct (Nat.eq_dec ((hm e + s) mod n) i) as [Hq|Hq]; [left; exact Hq|].
      right. rewrite Hg. destruct (Nat.eq_dec ((hm e + s) mod n) i); [congruence|].
      eapply HC; eauto.
    - intros p q e1 e2 Hp Hq H1 H2 Hk. rewrite Hg in H1, H2.
      destruct (Nat.eq_dec p i); [discriminate|]. destruct (Nat.eq_dec q i); [discriminate|].
      eapply HD; eauto. }
  assert (Hf : d (S i mod n) z < n) by (apply dist_lt; lia).
  destruct (backshift_correct BI Hf) as [t' [Hb [H1 [H2 [H3 H4]]]]].
  exists t'. split; [exact Hb|]. split; [exact H1|]. split; [exact H2|]. split; [exact H3|].
  intros e. rewrite H4. apply (in_tbl_set_none Hlen Hi H0 HD).
Qed.

(* ---------- lookup ---------- *)

Definition has_empty (t : tbl) : Prop := exists z, z < n /\ get t z = None.

Lemma present_or_absent t k :
  (exists p e, p < n /\ get t p = Some e /\ ek e = k) \/ (forall e, In_tbl t e -> ek e <> k).
Proof.
  assert (H : forall m, m <= n ->
    (exists p e, p < m /\ get t p = Some e /\ ek e = k) \/
    (forall p e, p < m -> get t p = Some e -> ek e <> k)).
  { induction m as [|m IH]; intros Hm.
    - right. intros p e Hp. lia.
    - destruct (IH ltac:(lia)) as [[p [e [Hp [Hg Hk]]]]|Hno].
      + left. exists p, e. repeat split; auto.
      + destruct (get t m) as [e|] eqn:Hgm.
        * destruct (keqb_spec (ek e) k) as [Heq|Hne].
          -- left. exists m, e. repeat split; auto.
          -- right. intros p e' Hp Hg. destruct (Nat.eq_dec p m) as [->|Hpm].
             ++ rewrite Hgm in Hg. inversion Hg; subst e'. exact Hne.
             ++ apply (Hno p e'); auto. lia.
        * right. intros p e' Hp Hg. destruct (Nat.eq_dec p m) as [->|Hpm]; [congruence|].
          apply (Hno p e'); auto. lia. }
  destruct (H n (le_n n)) as [[p [e [Hp [Hg Hk]]]]|Hno].
  - left. exists p, e. auto.
  - right. intros e [p [Hp Hg]]. eapply Hno; eauto.
Qed.

Lemma find_spec t k : Chain t -> Distinct t -> has_empty t ->
  exists q, q < n /\ find t k = Some q /\
    ((exists e, get t q = Some e /\ ek e = k) \/
     (get t q = None /\ (forall e, In_tbl t e -> ek e <> k) /\
      forall s, s < d (home n k) q -> get t ((home n k + s) mod n) <> None)).
Proof.
  intros HC HD HE.
  destruct (present_or_absent t k) as [[p [e [Hp [Hg Hk]]]]|Habs].
  - exists p. split; auto. split.
    + rewrite <- Hk. apply find_present; auto.
    + left. exists e. auto.
  - destruct (find_absent Habs HE) as [q [Hq [Hf [Hnone Hocc]]]].
    exists q. split; [exact Hq|]. split; [exact Hf|]. right. split; [exact Hnone|]. split; [exact Habs|exact Hocc].
Qed.

Definition lk (t : tbl) (k : K) : option E :=
  match find t k with Some q => get t q | None => None end.

Lemma lk_spec t k : Chain t -> Distinct t -> has_empty t ->
  forall e, lk t k = Some e <-> (In_tbl t e /\ ek e = k).
Proof.
  intros HC HD HE e. unfold lk.
  destruct (find_spec k HC HD HE) as [q [Hq [Hf [[e0 [Hg Hk]]|[Hnone [Habs _]]]]]]; rewrite Hf.
  - rewrite Hg. split.
    + intros H. inversion H; subst e0. split; auto. exists q. auto.
    + intros [Hin Hke]. f_equal. apply (in_tbl_unique HD); auto.
      * exists q. auto.
      * congruence.
  - rewrite Hnone. split; [discriminate|]. intros [Hin Hke]. exfalso. eapply Habs; eauto.
Qed.

Lemma lk_none t k : Chain t -> Distinct t -> has_empty t ->
  lk t k = None <-> (forall e, In_tbl t e -> ek e <> k).
Proof.
  intros HC HD HE. split.
  - intros Hn0 e Hin Hk. assert (lk t k = Some e) by (apply lk_spec; auto). congruence.
  - intros Habs. destruct (lk t k) as [e|] eqn:Hl; auto.
    apply lk_spec in Hl; auto. destruct Hl as [Hin Hk]. exfalso. eapply Habs; eauto.
Qed.

End Fixed.

(* ---------- contents and occupancy (independent of n) ---------- *)

Lemma occ_le (t : tbl) : occ t <= length t.
Proof.
  unfold occ, contents. induction t as [|x r IH]; cbn; auto.
  destruct x; cbn; lia.
Qed.

Lemma occ_lt_has_none (t : tbl) : occ t < length t -> exists z, z < length t /\ get t z = None.
Proof.
  unfold occ, contents. induction t as [|x r IH]; cbn; intros H; [lia|].
  destruct x as [e|].
  - cbn in H. destruct IH as [z [Hz Hg]]; [lia|]. exists (S z). split; [lia|exact Hg].
  - exists 0. split; [lia|reflexivity].
Qed.

Lemma in_contents (t : tbl) e : In e (contents t) <-> exists p, p < length t /\ get t p = Some e.
Proof.
  unfold contents. induction t as [|x r IH]; cbn.
  - split; [tauto|]. intros [p [Hp _]]. lia.
  - rewrite in_app_iff, IH. split.
    + intros [H|[p [Hp Hg]]].
      * destruct x as [e'|]; cbn in H; [|tauto]. destruct H as [->|[]]. exists 0. split; [lia|reflexivity].
      * exists (S p). split; [lia|exact Hg].
    + intros [[|p] [Hp Hg]].
      * left. cbn in Hg. subst x. cbn. auto.
      * right. exists p. split; [lia|exact Hg].
Qed.

Lemma contents_set_some (t : tbl) i e : i < length t -> get t i = None ->
  exists l1 l2, contents t = l1 ++ l2 /\ contents (set t i (Some e)) = l1 ++ e :: l2.
Proof.
  unfold contents. revert i; induction t as [|x r IH]; intros [|i] Hi Hg; cbn in *; try lia.
  - subst x. exists [], (flat_map (fun s => match s with Some e0 => [e0] | None => [] end) r). auto.
  - destruct (IH i ltac:(lia) Hg) as [l1 [l2 [H1 H2]]].
    exists (match x with Some e0 => [e0] | None => [] end ++ l1), l2.
    rewrite H1, H2, !app_assoc. auto.
Qed.

Lemma contents_set_replace (t : tbl) i e0 v : i < length t -> get t i = Some e0 ->
  exists l1 l2, contents t = l1 ++ e0 :: l2 /\
    contents (set t i v) = l1 ++ match v with Some e => [e] | None => [] end ++ l2.
Proof.
  unfold contents. revert i; induction t as [|x r IH]; intros [|i] Hi Hg; cbn in *; try lia.
  - subst x. exists [], (flat_map (fun s => match s with Some e1 => [e1] | None => [] end) r). auto.
  - destruct (IH i ltac:(lia) Hg) as [l1 [l2 [H1 H2]]].
    exists (match x with Some e1 => [e1] | None => [] end ++ l1), l2.
    rewrite H1, H2, !app_assoc. auto.
Qed.

Lemma occ_set_some (t : tbl) i e : i < length t -> get t i = None ->
  occ (set t i (Some e)) = S (occ t).
Proof.
  intros Hi Hg. unfold occ. destruct (@contents_set_some t i e Hi Hg) as [l1 [l2 [-> ->]]].
  rewrite !app_length. cbn. lia.
Qed.

Lemma occ_set_replace (t : tbl) i e0 e : i < length t -> get t i = Some e0 ->
  occ (set t i (Some e)) = occ t.
Proof.
  intros Hi Hg. unfold occ. destruct (@contents_set_replace t i e0 (Some e) Hi Hg) as [l1 [l2 [-> ->]]].
  rewrite !app_length. cbn. lia.
Qed.

Lemma occ_set_none (t : tbl) i e0 : i < length t -> get t i = Some e0 ->
  S (occ (set t i None)) = occ t.
Proof.
  intros Hi Hg. unfold occ. destruct (@contents_set_replace t i e0 None Hi Hg) as [l1 [l2 [-> ->]]].
  rewrite !app_length. cbn. lia.
Qed.

Lemma contents_repeat_none c : contents (repeat (@None E) c) = [].
Proof. unfold contents. induction c; cbn; auto. Qed.

Lemma get_repeat_none c i : get (repeat (@None E) c) i = None.
Proof. unfold get. revert i; induction c; intros [|i]; cbn; auto. Qed.

(* no two occupied slots with the same key => the listed keys are duplicate free *)
Lemma distinct_nodup (t : tbl) :
  (forall p q e1 e2, p < length t -> q < length t -> get t p = Some e1 -> get t q = Some e2 ->
     ek e1 = ek e2 -> p = q) ->
  NoDup (map ek (contents t)).
Proof.
  unfold contents. induction t as [|x r IH]; intros HD; cbn; [constructor|].
  assert (HDr : forall p q e1 e2, p < length r -> q < length r -> get r p = Some e1 ->
                 get r q = Some e2 -> ek e1 = ek e2 -> p = q).
  { intros p q e1 e2 Hp Hq H1 H2 Hk.
    assert (S p = S q) by (apply (HD (S p) (S q) e1 e2); cbn; auto; lia). lia. }
  destruct x as [e|]; cbn; [|apply IH; exact HDr].
  constructor; [|apply IH; exact HDr].
  intros Hin. apply in_map_iff in Hin. destruct Hin as [e' [Hk Hin']].
  apply (in_contents r e') in Hin'. destruct Hin' as [p [Hp Hg]].
  assert (0 = S p) by (apply (HD 0 (S p) e e'); cbn; auto; lia). lia.
Qed.

End Probe.
