(* C04: C10's [wellformed] (Wellformed.v, proved for every compiled program: C10_compile_wellformed) gives the
   VM-level [code_ok] that the no-abort theorems of C04VmProofs7.v assume: the instruction starts of the decoded
   program, operands inside the code, jump targets and labels at instruction starts. *)
From Coq Require Import NArith ZArith List Lia Bool.
From Cao Require Import ListUtil Bits Bytecode CardAst Compiler Wellformed C15Link.
From Cao Require Vm C04VmProofs C04VmProofs4 C04VmProofs5 C04VmProofs6 C04VmProofs7 CompilerFull.
Import ListNotations.

Lemma skipn_skipn' {A} x y (l : list A) : skipn x (skipn y l) = skipn (x + y) l.
Proof.
  revert l; induction y as [|y IH]; intros l; [rewrite Nat.add_0_r; reflexivity|].
  destruct l; [rewrite !skipn_nil; reflexivity|]. rewrite Nat.add_succ_r. cbn [skipn]. apply IH.
Qed.

Lemma op_of_code_inv b o : op_of_code b = Some o -> b = op_code o /\ (b <= 46)%N.
Proof.
  unfold op_of_code. intros H.
  assert (Hl : N.to_nat b < length all_opcodes) by (apply nth_error_Some; rewrite H; discriminate).
  change (length all_opcodes) with 47 in Hl.
  assert (Hb : (b < 47)%N) by lia. clear Hl.
  destruct b as [|p]; [|do 6 (try destruct p as [p|p|])]; try lia; vm_compute in H; inversion H; subst;
    (split; [reflexivity | lia]).
Qed.

Lemma span_operand_len o : N.of_nat (op_span o) = (1 + C04VmProofs.operand_len (op_code o))%N.
Proof. destruct o; reflexivity. Qed.

Definition wsum (ws : list nat) : nat := fold_right Nat.add O ws.

Lemma read_args_spec ws : forall bs args rest, read_args ws bs = Some (args, rest) ->
  rest = skipn (wsum ws) bs /\ wsum ws <= length bs.
Proof.
  induction ws as [|w ws IH]; intros bs args rest H; cbn [read_args] in H.
  - inversion H; subst. cbn. split; [reflexivity | lia].
  - destruct (Nat.ltb_spec (length bs) w); [discriminate|].
    destruct (read_args ws (skipn w bs)) as [[a r]|] eqn:E; [|discriminate]. inversion H; subst.
    destruct (IH _ _ _ E) as [-> Hl]. rewrite skipn_length in Hl. cbn [wsum fold_right]. fold (wsum ws).
    split; [rewrite skipn_skipn'; f_equal; lia | lia].
Qed.

Lemma instr_of_op o args i : instr_of o args = Some i -> instr_op i = o.
Proof.
  destruct o; destruct args as [|a0 [|a1 [|a2 [|a3 [|a4 [|a5 r]]]]]]; cbn [instr_of]; intros H; inversion H; reflexivity.
Qed.

Lemma decode1_spec bs i rest : decode1 bs = Some (i, rest) ->
  exists b r args, bs = b :: r /\ op_of_code b = Some (instr_op i) /\
    read_args (op_widths (instr_op i)) r = Some (args, rest) /\ instr_of (instr_op i) args = Some i /\
    rest = skipn (instr_span i) bs /\ instr_span i <= length bs.
Proof.
  unfold decode1. destruct bs as [|b r]; [discriminate|].
  destruct (op_of_code b) as [o|] eqn:Eo; [|discriminate].
  destruct (read_args (op_widths o) r) as [[args rest']|] eqn:Er; [|discriminate].
  destruct (instr_of o args) as [i'|] eqn:Ei; [|discriminate]. intros H. inversion H; subst.
  pose proof (instr_of_op _ _ _ Ei) as Hop. subst o.
  destruct (read_args_spec _ _ _ _ Er) as [Hrest Hlen].
  exists b, r, args. split; [reflexivity|]. split; [exact Eo|]. split; [exact Er|]. split; [exact Ei|]. split.
  - unfold instr_span, op_span. cbn [skipn]. exact Hrest.
  - unfold instr_span, op_span. cbn [length]. fold (wsum (op_widths (instr_op i))). lia.
Qed.

Lemma instr_span_pos i : 1 <= instr_span i.
Proof. unfold instr_span, op_span. lia. Qed.

Lemma decode_from_head fuel p b r is : decode_from fuel p (b :: r) = Some is -> exists i l, is = (p, i) :: l.
Proof.
  destruct fuel; cbn [decode_from]; [discriminate|]. destruct (decode1 (b :: r)) as [[i rest]|]; [|discriminate].
  destruct (decode_from fuel _ rest); [|discriminate]. intros H. inversion H. eauto.
Qed.

Lemma decode_from_spec : forall fuel p bs is, decode_from fuel p bs = Some is ->
  forall q i, In (q, i) is ->
    p <= q /\ q + instr_span i <= p + length bs /\
    decode1 (skipn (q - p) bs) = Some (i, skipn (q - p + instr_span i) bs) /\
    (q + instr_span i = p + length bs \/ In (q + instr_span i) (map fst is)).
Proof.
  induction fuel as [|f IH]; intros p bs is H q i Hin.
  - destruct bs; cbn [decode_from] in H; [inversion H; subst; destruct Hin | discriminate].
  - destruct bs as [|b r]; cbn [decode_from] in H; [inversion H; subst; destruct Hin|].
    destruct (decode1 (b :: r)) as [[i0 rest]|] eqn:E1; [|discriminate].
    destruct (decode_from f (p + instr_span i0) rest) as [l|] eqn:E2; [|discriminate]. inversion H; subst is; clear H.
    destruct (decode1_spec _ _ _ E1) as (b' & r' & args & _ & _ & _ & _ & Hrest & Hlen).
    destruct Hin as [Hin|Hin].
    + inversion Hin; subst q i. rewrite Nat.sub_diag. cbn [skipn Nat.add]. split; [lia|]. split; [lia|].
      split; [rewrite <- Hrest; exact E1|].
      destruct rest as [|b2 r2] eqn:Erest.
      * left. assert (length (skipn (instr_span i0) (b :: r)) = 0) by (rewrite <- Hrest; reflexivity).
        rewrite skipn_length in H. lia.
      * right. destruct (decode_from_head _ _ _ _ _ E2) as (i2 & l2 & ->). cbn [map fst]. right; left; reflexivity.
    + destruct (IH _ _ _ E2 q i Hin) as (A & B & C & D).
      assert (Hlr : length rest = length (b :: r) - instr_span i0) by (rewrite Hrest; apply skipn_length).
      pose proof (instr_span_pos i0).
      split; [lia|]. split; [lia|]. split.
      * rewrite Hrest in C. rewrite !skipn_skipn' in C.
        replace (q - (p + instr_span i0) + instr_span i0) with (q - p) in C by lia.
        replace (q - (p + instr_span i0) + instr_span i + instr_span i0) with (q - p + instr_span i) in C by lia.
        exact C.
      * destruct D as [D|D]; [left; lia | right; cbn [map fst]; right; exact D].
Qed.

Lemma decode_from_last : forall fuel p bs is' q i, decode_from fuel p bs = Some (is' ++ [(q, i)]) ->
  q + instr_span i = p + length bs.
Proof.
  induction fuel as [|f IH]; intros p bs is' q i H.
  - destruct bs; cbn [decode_from] in H; [|discriminate]. inversion H. destruct is'; discriminate.
  - destruct bs as [|b r]; cbn [decode_from] in H; [inversion H; destruct is'; discriminate|].
    destruct (decode1 (b :: r)) as [[i0 rest]|] eqn:E1; [|discriminate].
    destruct (decode_from f (p + instr_span i0) rest) as [l|] eqn:E2; [|discriminate]. inversion H as [H1]; clear H.
    destruct (decode1_spec _ _ _ E1) as (b' & r' & args & _ & _ & _ & _ & Hrest & Hlen).
    assert (Hlr : length rest = length (b :: r) - instr_span i0) by (rewrite Hrest; apply skipn_length).
    destruct is' as [|x is'']; cbn [app] in H1.
    + injection H1 as Ep Ei El. rewrite El in E2.
      destruct rest as [|b2 r2]; [cbn [length] in *; subst; lia|].
      destruct (decode_from_head _ _ _ _ _ E2) as (i2 & l2 & E). discriminate.
    + injection H1 as Ex El. rewrite El in E2. pose proof (IH _ _ _ _ _ E2) as Hq. lia.
Qed.

Lemma nth_skipn_hd {A} (l : list A) k b r d : skipn k l = b :: r -> nth k l d = b /\ skipn (S k) l = r.
Proof.
  revert l; induction k as [|k IH]; intros l H.
  - cbn [skipn] in H. subst l. split; reflexivity.
  - destruct l as [|x l]; [discriminate|]. cbn [skipn] in H. destruct (IH l H) as [H1 H2]. split; [exact H1 | exact H2].
Qed.

Lemma assoc_in {B} k (l : list (N * B)) v : Vm.assoc k l = Some v -> In (k, v) l.
Proof.
  induction l as [|[k' v'] l IH]; cbn [Vm.assoc]; [discriminate|].
  destruct (N.eqb_spec k k'); [intros H; inversion H; subst; left; reflexivity | intros H; right; apply IH; exact H].
Qed.

Section Link.
Variable w : bool.
Variable B : compiled.
Hypothesis Hwf : wellformed_gen w B.

Definition wf_start (is : list (nat * instr)) (ip : N) : Prop := In (N.to_nat ip) (map fst is).

Theorem wellformed_code_ok : exists is, decode (p_bytecode B) = Some is /\ C04VmProofs5.code_ok (to_vm B) (wf_start is).
Proof.
  destruct Hwf as (is & Hdec & (is' & pe & Hexit) & Hjump & Hlab & _).
  exists is. split; [exact Hdec|].
  set (code := p_bytecode B) in *.
  assert (Hcl : Vm.code_len (to_vm B) = N.of_nat (length code)) by reflexivity.
  unfold decode in Hdec.
  (* facts about an instruction start *)
  assert (Hat : forall ip, wf_start is ip -> exists i,
            In (N.to_nat ip, i) is /\ N.to_nat ip + instr_span i <= length code /\
            decode1 (skipn (N.to_nat ip) code) = Some (i, skipn (N.to_nat ip + instr_span i) code) /\
            (N.to_nat ip + instr_span i = length code \/ In (N.to_nat ip + instr_span i) (map fst is))).
  { intros ip Hs. unfold wf_start in Hs. apply in_map_iff in Hs. destruct Hs as ([q i] & Eq & Hin). cbn [fst] in Eq. subst q.
    destruct (decode_from_spec _ _ _ _ Hdec _ _ Hin) as (_ & A & C & D). rewrite Nat.sub_0_r in C. cbn [Nat.add] in A, D.
    exists i. repeat split; auto. }
  assert (Hopc : forall ip i, decode1 (skipn (N.to_nat ip) code) = Some (i, skipn (N.to_nat ip + instr_span i) code) ->
            C04VmProofs.opcode_at (to_vm B) ip = op_code (instr_op i) /\
            exists args, read_args (op_widths (instr_op i)) (skipn (S (N.to_nat ip)) code) = Some (args, skipn (N.to_nat ip + instr_span i) code) /\
                         instr_of (instr_op i) args = Some i).
  { intros ip i Hd. destruct (decode1_spec _ _ _ Hd) as (b & r & args & Ebs & Eop & Er & Ei & _ & _).
    destruct (nth_skipn_hd _ _ _ _ 255%N Ebs) as [Hn Hr]. destruct (op_of_code_inv _ _ Eop) as [Eb _].
    split; [unfold C04VmProofs.opcode_at; cbn [to_vm Vm.p_code]; fold code; rewrite Hn; exact Eb|].
    exists args. rewrite Hr. split; assumption. }
  assert (Hnext : forall ip i, N.to_nat ip + instr_span i = N.to_nat (ip + 1 + C04VmProofs.operand_len (op_code (instr_op i)))).
  { intros ip i. unfold instr_span. pose proof (span_operand_len (instr_op i)). lia. }
  constructor.
  - intros ip Hs Hl. destruct (Hat ip Hs) as (i & Hin & Hlen & Hd & _). destruct (Hopc ip i Hd) as [Eo _]. rewrite Eo.
    split; [destruct (instr_op i); cbn; lia|]. rewrite Hcl. rewrite (Hnext ip i) in Hlen. lia.
  - intros ip Hs Hl. destruct (Hat ip Hs) as (i & Hin & Hlen & Hd & Hn). destruct (Hopc ip i Hd) as [Eo _]. rewrite Eo.
    intros Hlt. unfold wf_start. rewrite <- (Hnext ip i). destruct Hn as [Hn|Hn]; [|exact Hn].
    rewrite Hcl in Hlt. rewrite (Hnext ip i) in Hn. lia.
  - intros ip Hs Hl Hin raw Eraw. destruct (Hat ip Hs) as (i & Hini & Hlen & Hd & _).
    destruct (Hopc ip i Hd) as [Eo (args & Er & Ei)]. rewrite Eo in Hin.
    assert (Hj : jump_target i = Some (u32_to_i32 raw)).
    { assert (Hraw : raw = le_to_N (firstn 4 (skipn (S (N.to_nat ip)) code))).
      { unfold Vm.op_u32, Vm.read_le in Eraw. cbn [to_vm Vm.p_code] in Eraw. fold code in Eraw.
        destruct (_ <=? _)%N; [|discriminate]. replace (N.to_nat (ip + 1)) with (S (N.to_nat ip)) in Eraw by lia.
        inversion Eraw. reflexivity. }
      clear Eraw.
      destruct (instr_op i); cbn [op_code In] in Hin; try (exfalso; repeat (destruct Hin as [Hin|Hin]; try discriminate Hin); exact Hin);
        cbn [op_widths read_args] in Er; destruct (Nat.ltb _ 4); try discriminate Er; inversion Er; subst args;
        cbn [instr_of] in Ei; inversion Ei; subst i; cbn [jump_target]; rewrite Hraw; reflexivity. }
    destruct (Hjump _ _ _ Hini Hj) as [Hnn Hst]. split; [exact Hnn|].
    intros _. unfold wf_start. rewrite Z_N_nat. exact Hst.
  - intros h pos Ha _. cbn [to_vm Vm.p_labels] in Ha. apply assoc_in in Ha. unfold wf_start. eapply Hlab; eauto.
  - intros _. unfold wf_start, Vm.last_pos. rewrite Hcl. subst is. pose proof (decode_from_last _ _ _ _ _ _ Hdec) as Hq.
    change (instr_span IExit) with 1 in Hq. cbn [Nat.add] in Hq.
    replace (N.to_nat (N.of_nat (length code) - 1)) with pe by lia.
    rewrite map_app. apply in_or_app. right. left. reflexivity.
  - intros Hlt. unfold wf_start. change (N.to_nat 0) with 0. rewrite Hcl in Hlt.
    destruct code as [|b r] eqn:Ec; [cbn in Hlt; lia|]. destruct (decode_from_head _ _ _ _ _ Hdec) as (i & l & ->).
    left; reflexivity.
Qed.

End Link.

(* Vm::run of a compiled program: C10 (every program the compiler returns is well-formed) discharges [code_ok] *)
Theorem compiled_run_no_abort : forall (M : module) (o : options) (B : compiled),
  compile M o = COk B -> program_in_range M o = true -> WellformedSide.program_utf8 M o = true ->
  (N.of_nat (length (p_bytecode B)) < 2147483648)%N -> (N.of_nat (length (p_data B)) < 4294967296)%N ->
  exists is, decode (p_bytecode B) = Some is /\
    forall F bld budget s,
      C04VmProofs6.reenter_ok (to_vm B) (Vm.run_at F bld (to_vm B) false (N.of_nat budget) 129) (wf_start is) (fun _ => False) ->
      C04VmProofs4.vm_inv0 (to_vm B) (wf_start is) s ->
      (forall s1, Vm.push_frame s (Vm.mkFrame 0 0 0 None) = Some s1 ->
         C04VmProofs7.sides_hold F bld (to_vm B) (Vm.run_at F bld (to_vm B) false (N.of_nat budget) 129) 0
           (Vm.set_rem s1 (N.of_nat budget))) ->
      forall a, fst (Vm.run F bld budget (to_vm B) s) <> Vm.OAbort a.
Proof.
  intros M o B Hc Hr Hu Hl1 Hl2.
  destruct (wellformed_code_ok false B (CompilerFull.compile_wellformed M o B Hc Hr Hu Hl1 Hl2)) as (is & Hdec & Hcode).
  exists is. split; [exact Hdec|]. intros F bld budget s Hre Hi Hs a.
  apply (C04VmProofs7.run_no_abort F bld (to_vm B) (wf_start is) budget s Hcode Hre Hi Hs).
Qed.
