(* C06, VM half: the instructions that do NOT touch the open-upvalue list.
   Every instruction except CallNative (4), Return (22), RegisterUpvalue (45), CloseUpvalue (46) - and CallFunction (11)
   when the callee is a native function value - leaves the head of the list and the (slot, next) view of every upvalue
   object as they are: open upvalues stay open at their slot, closed ones stay closed, none is created.
   (SetUpvalue through a CLOSED upvalue changes the object's value, not its state.)
   The proofs are the ones of VmUpvalueStep.v, generic in the invariant. *)
From Coq Require Import NArith ZArith List Lia Bool Sorted.
From Cao Require Import ListUtil Bits Stacks Vm VmUpvalueProofs VmUpvalueStep VmUpvalueSem.
Import ListNotations.

Section Quiet.
  Variable F : fops.
  Variable bld : build.
  Variable P : program.
  Variable reenter : N -> state -> rres.

  (* any predicate that implies vm_ok, is closed under [keep] and does not look at the call frames *)
  Variable Inv : state -> Prop.
  Hypothesis keep_Inv : forall s s1, keep s s1 -> Inv s -> Inv s1.
  Hypothesis inv_vm : forall s, Inv s -> vm_ok s.
  Hypothesis Inv_set_calls : forall s c, Inv s -> frames_lt (cap s) c -> Inv (set_calls s c).
  (* SetUpvalue through a closed upvalue *)
  Definition write_closed_ok : Prop := forall s ua u wv,
    hget (st_heap s) ua = Some (OUp u) -> u_loc u = None -> Inv s -> Inv (write_closed s ua u wv).

  Definition sres_inv (r : sres) : Prop :=
    match r with SNext _ s' | SExit s' | SErr _ _ s' => Inv s' | SStop _ _ => True end.

  (* the value that CallFunction pops is not a native function value *)
  Definition not_native_callee (s : state) : Prop :=
    forall a h, snd (spop s) = VObj a -> hget (st_heap (fst (spop s))) a = Some (ONative h) -> False.

  Lemma push_frame_Inv s f s1 : push_frame s f = Some s1 -> Inv s -> N.to_nat (fr_off f) < cap s -> Inv s1.
  Proof.
    unfold push_frame. destruct (_ <=? _); [discriminate|]. intros H. injection H as <-. intros Hs Hf.
    apply Inv_set_calls; [exact Hs|]. constructor; [exact Hf|apply (inv_vm _ Hs)].
  Qed.

  Ltac inv_peel :=
    cbn [sres_inv];
    repeat first
      [ exact I
      | apply (keep_Inv _ _ (set_globals_keep _ _))
      | apply (keep_Inv _ _ (set_log_keep _ _))
      | apply (keep_Inv _ _ (log_push_keep _ _))
      | apply (keep_Inv _ _ (set_rem_keep _ _))
      | apply (keep_Inv _ _ (tick_keep _))
      | apply (keep_Inv _ _ (spop_n_keep _ _))
      | apply (keep_Inv _ _ (sraw_set_keep _ _ _)) ].
  Ltac inv_chain :=
    repeat match goal with
           | H : keep ?a ?b, H0 : Inv ?a |- _ =>
               let N := fresh "Hok" in pose proof (keep_Inv _ _ H H0) as N; clear H
           end.
  Ltac inv_close := note_keep; inv_peel; inv_chain; try assumption.

  Lemma push_next_ok ip s v : Inv s -> sres_inv (push_next ip s v).
  Proof. unfold push_next. intros H. destruct (spush s v) eqn:E; inv_close. Qed.

  Lemma of_vres_ok ip s r : Inv s -> sres_inv (of_vres ip s r).
  Proof. intros H. destruct r; cbn [of_vres]; try apply push_next_ok; inv_close. Qed.

  Lemma binary_op_ok ip s op : Inv s -> sres_inv (binary_op ip s op).
  Proof.
    intros H. unfold binary_op. destruct (spop s) as [s1 b] eqn:E1. destruct (spop s1) as [s2 a] eqn:E2.
    apply of_vres_ok. inv_close.
  Qed.

  Ltac step_tac :=
    repeat match goal with
           | |- sres_inv (binary_op _ _ _) => apply binary_op_ok
           | |- sres_inv (push_next _ _ _) => apply push_next_ok
           | |- sres_inv (match ?x with _ => _ end) => destruct x eqn:?
           end;
    try inv_close.

  Ltac instr d := intros opc ip0 ip s Hs; unfold d; cbv zeta; step_tac.

  Lemma i_5_ok : forall opc ip0 ip s, Inv s -> sres_inv (i_5 P opc ip0 ip s). Proof. instr i_5. Qed.
  Lemma i_6_ok : forall opc ip0 ip s, Inv s -> sres_inv (i_6 P opc ip0 ip s). Proof. instr i_6. Qed.
  Lemma i_8_ok : forall opc ip0 ip s, Inv s -> sres_inv (i_8 P opc ip0 ip s). Proof. instr i_8. Qed.
  Lemma i_17_ok : forall opc ip0 ip s, Inv s -> sres_inv (i_17 P opc ip0 ip s). Proof. instr i_17. Qed.
  Lemma i_18_ok : forall opc ip0 ip s, Inv s -> sres_inv (i_18 P opc ip0 ip s). Proof. instr i_18. Qed.
  Lemma i_19_ok : forall opc ip0 ip s, Inv s -> sres_inv (i_19 P opc ip0 ip s). Proof. instr i_19. Qed.
  Lemma i_20_ok : forall opc ip0 ip s, Inv s -> sres_inv (i_20 P opc ip0 ip s). Proof. instr i_20. Qed.
  Lemma i_23_ok : forall opc ip0 ip s, Inv s -> sres_inv (i_23 opc ip0 ip s). Proof. instr i_23. Qed.
  Lemma i_27_ok : forall opc ip0 ip s, Inv s -> sres_inv (i_27 F opc ip0 ip s). Proof. instr i_27. Qed.
  Lemma i_28_ok : forall opc ip0 ip s, Inv s -> sres_inv (i_28 bld P opc ip0 ip s). Proof. instr i_28. Qed.
  Lemma i_29_30_ok : forall opc ip0 ip s, Inv s -> sres_inv (i_29_30 F bld P opc ip0 ip s). Proof. instr i_29_30. Qed.
  Lemma i_31_ok : forall opc ip0 ip s, Inv s -> sres_inv (i_31 opc ip0 ip s). Proof. instr i_31. Qed.
  Lemma i_32_ok : forall opc ip0 ip s, Inv s -> sres_inv (i_32 F opc ip0 ip s). Proof. instr i_32. Qed.
  Lemma i_34_ok : forall opc ip0 ip s, Inv s -> sres_inv (i_34 opc ip0 ip s). Proof. instr i_34. Qed.
  Lemma i_35_ok : forall opc ip0 ip s, Inv s -> sres_inv (i_35 P opc ip0 ip s). Proof. instr i_35. Qed.
  Lemma i_36_ok : forall opc ip0 ip s, Inv s -> sres_inv (i_36 F bld P opc ip0 ip s). Proof. instr i_36. Qed.
  Lemma i_37_42_ok : forall opc ip0 ip s, Inv s -> sres_inv (i_37_42 P opc ip0 ip s).
  Proof.
    intros opc ip0 ip s Hs; unfold i_37_42; cbv zeta.
    destruct (op_u32 P ip); [|inv_close]. destruct (op_u32 P (ip + 4)); [|inv_close].
    destruct (salloc s _) as [s1 a] eqn:E. apply push_next_ok.
    apply salloc_keep in E; [inv_close|destruct (opc =? 37)%N; plain_tac].
  Qed.
  Lemma i_38_ok : forall opc ip0 ip s, Inv s -> sres_inv (i_38 P opc ip0 ip s). Proof. instr i_38. Qed.

  (* ---- tables ---- *)
  Lemma set_table_ok s a t t' : hget (st_heap s) a = Some (OTable t) -> Inv s -> Inv (set_table s a t').
  Proof. intros H. apply keep_Inv. eapply set_table_keep. exact H. Qed.

  Lemma i_33_ok : forall opc ip0 ip s, Inv s -> sres_inv (i_33 F opc ip0 ip s).
  Proof.
    intros opc ip0 ip s Hs; unfold i_33; cbv zeta.
    destruct (get_table _ _) as [a t| |] eqn:Eg; try inv_close.
    destruct (tinsert _ _ _ _); [|exact I]. cbn [sres_inv].
    eapply set_table_ok; [eapply get_table_hget; exact Eg|]. inv_close.
  Qed.

  Lemma i_40_ok : forall opc ip0 ip s, Inv s -> sres_inv (i_40 F opc ip0 ip s).
  Proof.
    intros opc ip0 ip s Hs; unfold i_40; cbv zeta.
    destruct (get_table _ _) as [a t| |] eqn:Eg; try inv_close.
    destruct (tappend _ _ _); try exact I. cbn [sres_inv].
    eapply set_table_ok; [eapply get_table_hget; exact Eg|]. inv_close.
  Qed.

  Lemma i_41_ok : forall opc ip0 ip s, Inv s -> sres_inv (i_41 F opc ip0 ip s).
  Proof.
    intros opc ip0 ip s Hs; unfold i_41; cbv zeta.
    destruct (spop s) as [s1 inst] eqn:E1. assert (H1 : Inv s1) by inv_close.
    destruct (get_table _ _) as [a t| |] eqn:Eg; try inv_close.
    destruct (tpop _ _) as [[t' v]|]; [|exact I]. apply push_next_ok.
    eapply set_table_ok; [eapply get_table_hget; exact Eg|exact H1].
  Qed.

  Lemma salloc_hget s o s1 a : salloc s o = (s1, a) -> hget (st_heap s1) a = Some o.
  Proof. intros H. destruct (salloc_heap _ _ _ _ H) as [-> ->]. apply hget_app_new. Qed.
  Lemma salloc_hget_old s o s1 a x ob :
    salloc s o = (s1, a) -> hget (st_heap s) x = Some ob -> hget (st_heap s1) x = Some ob.
  Proof.
    intros H Hx. destruct (salloc_heap _ _ _ _ H) as [-> _]. rewrite hget_app_old; [exact Hx|].
    eapply hget_lt. exact Hx.
  Qed.

  Lemma i_39_ok : forall opc ip0 ip s, Inv s -> sres_inv (i_39 F opc ip0 ip s).
  Proof.
    intros opc ip0 ip s Hs; unfold i_39; cbv zeta.
    assert (H2 : Inv (spop_n s 2)) by inv_close.
    destruct (get_table _ _) as [a t| |] eqn:Eg; try inv_close.
    destruct (speek s 0); try inv_close.
    destruct (_ <? 0)%Z; [inv_close|].
    destruct (if (_ <? _)%Z then _ else _) as [r|]; [|exact I].
    destruct (salloc (spop_n s 2) _) as [s3 row] eqn:E3.
    destruct (salloc s3 _) as [s4 ka] eqn:E4.
    destruct (salloc s4 _) as [s5 va] eqn:E5.
    pose proof (salloc_hget _ _ _ _ E3) as Hrow.
    pose proof (salloc_hget_old _ _ _ _ _ _ E4 Hrow) as Hrow4.
    pose proof (salloc_hget_old _ _ _ _ _ _ E5 Hrow4) as Hrow5.
    destruct (tinsert _ _ _ _); [|exact I]. destruct (tinsert _ _ _ _); [|exact I].
    apply push_next_ok. eapply set_table_ok; [exact Hrow5|]. inv_close.
  Qed.

  (* ---- frames ---- *)
  Lemma top_offset_lt' s off : Inv s -> top_offset s = Some off -> off < cap s.
  Proof. intros H. apply top_offset_lt. apply inv_vm. exact H. Qed.

  Lemma i_21_ok : forall opc ip0 ip s, Inv s -> sres_inv (i_21 opc ip0 ip s).
  Proof.
    intros opc ip0 ip s Hs; unfold i_21.
    destruct (top_offset s) as [off|] eqn:Eo; [|exact I].
    destruct (sclear_until s off) as [s1 v] eqn:E. cbn [fst sres_inv].
    apply sclear_until_keep in E; [inv_close|eapply top_offset_lt'; eauto].
  Qed.

  (* ---- upvalue access ---- *)
  Lemma i_43_44_ok : forall opc ip0 ip s, (opc = 43%N -> write_closed_ok) -> Inv s -> sres_inv (i_43_44 P opc ip0 ip s).
  Proof.
    intros opc ip0 ip s Hw Hs; unfold i_43_44; cbv zeta.
    destruct (op_u32 P ip); [|exact I].
    destruct (N.eqb_spec opc 43) as [Eopc|Eopc].
    - destruct (spop s) as [s1 wv] eqn:E1. assert (H1 : Inv s1) by inv_close.
      destruct (st_calls s1) as [|fr rest]; [exact I|].
      destruct (fr_clo fr) as [ca|]; [|exact H1].
      destruct (hget (st_heap s1) ca) as [[t|b|h ar|h|h ar ups|u]|]; try exact I.
      destruct (nth_error ups _) as [ua|]; [|exact H1].
      destruct (hget (st_heap s1) ua) as [[t|b|h' ar'|h'|h' ar' ups'|u]|] eqn:Eu; try exact H1; try exact I.
      destruct (u_loc u) as [l|] eqn:El; cbn [sres_inv].
      + inv_close.
      + apply (Hw Eopc s1 ua u wv Eu El H1).
    - destruct (st_calls s) as [|fr rest]; [exact I|].
      destruct (fr_clo fr) as [ca|]; [|exact Hs].
      destruct (hget (st_heap s) ca) as [[t|b|h ar|h|h ar ups|u]|]; try exact I.
      destruct (nth_error ups _) as [ua|]; [|exact Hs].
      destruct (hget (st_heap s) ua) as [[t|b|h' ar'|h'|h' ar' ups'|u]|] eqn:Eu; try exact Hs; try exact I.
      apply push_next_ok. exact Hs.
  Qed.

  Lemma off_lt_cap' s ar : Inv s -> N.to_nat (N.of_nat (scount s) - ar) < cap s.
  Proof. intros H. apply off_lt_cap. apply inv_vm. exact H. Qed.

  Lemma i_11_ok : forall opc ip0 ip s, Inv s -> not_native_callee s -> sres_inv (i_11 F P reenter opc ip0 ip s).
  Proof.
    intros opc ip0 ip s Hs Hnn; unfold i_11; cbv zeta. unfold not_native_callee in Hnn.
    destruct (spop s) as [s1 fv] eqn:E1. cbn [fst snd] in Hnn.
    assert (H1 : Inv s1) by inv_close.
    destruct fv as [|z|r|a]; try exact H1.
    destruct (hget (st_heap s1) a) as [o|] eqn:Eo; [|exact I].
    assert (Hgo : forall arity label clo,
      sres_inv
        match st_calls s1 with
        | [] => SStop APanic s1
        | top :: rest =>
            let s2 := set_calls s1 (mkFrame (fr_src top) ip (fr_off top) (fr_clo top) :: rest) in
            let len := N.of_nat (scount s2) in
            if (len <? arity)%N then SErr EMissingArgument ip s2
            else
              match push_frame s2 (mkFrame ip0 ip (len - arity) clo) with
              | None => SErr ECallStackOverflow ip s2
              | Some s3 =>
                  match assoc label (p_labels P) with
                  | None => SErr (EProcedureNotFound label) ip s3
                  | Some pos => SNext pos s3
                  end
              end
        end).
    { intros arity label clo.
      destruct (st_calls s1) as [|top rest] eqn:Ec; [exact I|].
      cbv zeta.
      assert (H2 : Inv (set_calls s1 (mkFrame (fr_src top) ip (fr_off top) (fr_clo top) :: rest))).
      { apply Inv_set_calls; [exact H1|]. destruct (inv_vm _ H1) as (_ & _ & Hf). rewrite Ec in Hf.
        inversion Hf; subst. constructor; assumption. }
      destruct (_ <? _)%N; [exact H2|].
      destruct (push_frame _ _) as [s3|] eqn:E3; [|exact H2].
      assert (H3 : Inv s3).
      { eapply push_frame_Inv; [exact E3|exact H2|]. cbn [fr_off]. apply (off_lt_cap' _ arity H2). }
      destruct (assoc label (p_labels P)); exact H3. }
    destruct o; try apply Hgo; try exact H1.
    exfalso. eapply Hnn; eauto.
  Qed.


  Theorem step_quiet : forall ip0 s,
    ~ In (nth (N.to_nat ip0) (p_code P) 255%N) [4; 22; 45; 46]%N ->
    (nth (N.to_nat ip0) (p_code P) 255%N = 11%N -> not_native_callee s) ->
    (nth (N.to_nat ip0) (p_code P) 255%N = 43%N -> write_closed_ok) ->
    Inv s -> sres_inv (step F bld P reenter ip0 s).
  Proof.
    intros ip0 s Hq H11 H43 Hs. unfold step. cbv zeta.
    destruct (nth (N.to_nat ip0) (p_code P) 255%N) as [|p] eqn:Eop; [apply binary_op_ok; exact Hs|].
    do 6 (try destruct p as [p|p|]).
    all: try (exfalso; apply Hq; cbn; tauto).
    all: first
      [ (apply i_11_ok; [exact Hs|apply H11; reflexivity])
      | (apply binary_op_ok; exact Hs)
      | (apply push_next_ok; exact Hs)
      | (apply i_5_ok; exact Hs) | (apply i_6_ok; exact Hs) | (apply i_8_ok; exact Hs)
      | (apply i_17_ok; exact Hs) | (apply i_18_ok; exact Hs)
      | (apply i_19_ok; exact Hs) | (apply i_20_ok; exact Hs) | (apply i_21_ok; exact Hs)
      | (apply i_23_ok; exact Hs) | (apply i_27_ok; exact Hs) | (apply i_28_ok; exact Hs)
      | (apply i_29_30_ok; exact Hs) | (apply i_31_ok; exact Hs) | (apply i_32_ok; exact Hs) | (apply i_33_ok; exact Hs)
      | (apply i_34_ok; exact Hs) | (apply i_35_ok; exact Hs) | (apply i_36_ok; exact Hs)
      | (apply i_37_42_ok; exact Hs) | (apply i_38_ok; exact Hs) | (apply i_39_ok; exact Hs) | (apply i_40_ok; exact Hs)
      | (apply i_41_ok; exact Hs) | (apply i_43_44_ok; [exact H43|exact Hs]) | (apply i_43_44_ok; [discriminate|exact Hs])
      | (destruct (spop s) as [s1 v1] eqn:E; cbn [fst]; inv_close)
      | exact Hs
      | exact I ].
  Qed.

  (* ---------------------------------------------------------------- *)
  (* the same for EVERY instruction, given that the invariant survives  *)
  (* the four transitions that change upvalue objects and re-entry      *)
  (* ---------------------------------------------------------------- *)
  Definition rres_inv (r : rres) : Prop :=
    match r with ROk s' | RErr _ _ s' => Inv s' | RStop _ _ => True end.
  Definition nres_inv (r : nres) : Prop :=
    match r with NOk _ s' | NErr _ s' => Inv s' | NStop _ _ => True end.

  Hypothesis reenter_inv : forall ip s, Inv s -> rres_inv (reenter ip s).
  Hypothesis Hwrite : write_closed_ok.
  Hypothesis Inv_i_45 : forall opc ip0 ip s, Inv s -> sres_inv (i_45 P opc ip0 ip s).
  Hypothesis Inv_i_46 : forall opc ip0 ip s, Inv s -> sres_inv (i_46 P opc ip0 ip s).
  Hypothesis Inv_i_22 : forall opc ip0 ip s, Inv s -> sres_inv (i_22 opc ip0 ip s).

  Ltac inv_peel ::=
    cbn [sres_inv rres_inv nres_inv];
    repeat first
      [ exact I
      | apply (keep_Inv _ _ (set_globals_keep _ _))
      | apply (keep_Inv _ _ (set_log_keep _ _))
      | apply (keep_Inv _ _ (log_push_keep _ _))
      | apply (keep_Inv _ _ (set_rem_keep _ _))
      | apply (keep_Inv _ _ (tick_keep _))
      | apply (keep_Inv _ _ (spop_n_keep _ _))
      | apply (keep_Inv _ _ (sraw_set_keep _ _ _)) ].

  Lemma run_function_ok (cn : N -> state -> nres) :
    (forall h s, Inv s -> nres_inv (cn h s)) ->
    forall fv s, Inv s -> nres_inv (run_function P reenter cn fv s).
  Proof.
    intros Hcn fv s Hs. unfold run_function.
    destruct fv as [|z|r|a]; try exact Hs.
    destruct (hget (st_heap s) a) as [o|]; [|exact I].
    assert (Hgo : forall arity label clo,
      nres_inv
        (if (code_len P =? 0)%N then NStop APanic s
         else match assoc label (p_labels P) with
              | None => NErr (EProcedureNotFound label) s
              | Some src =>
                  let len := N.of_nat (scount s) in
                  if (len <? arity)%N then NErr EMissingArgument s
                  else
                    let f := mkFrame src (last_pos P) (len - arity) clo in
                    match push_frame s f with
                    | None => NErr ECallStackOverflow s
                    | Some s1 =>
                        match push_frame s1 f with
                        | None => NErr ECallStackOverflow s
                        | Some s2 =>
                            let depth := length (st_calls s) in
                            let unwind (x : state) :=
                              set_calls x (skipn (length (st_calls x) - depth) (st_calls x)) in
                            match reenter src s2 with
                            | ROk s3 => let '(s5, v) := spop (unwind s3) in NOk v s5
                            | RErr e _ s3 => NErr e (unwind s3)
                            | RStop ab s3 => NStop ab s3
                            end
                        end
                    end
              end)).
    { intros arity label clo.
      destruct (code_len P =? 0)%N; [exact I|].
      destruct (assoc label (p_labels P)) as [src|]; [|exact Hs].
      cbv zeta. destruct (_ <? _)%N; [exact Hs|].
      pose proof (off_lt_cap' s arity Hs) as Hoff.
      destruct (push_frame s _) as [s1|] eqn:E1; [|exact Hs].
      assert (H1 : Inv s1) by (eapply push_frame_Inv; eauto).
      assert (Hc1 : cap s1 = cap s).
      { unfold push_frame in E1. destruct (_ <=? _); [discriminate|]. injection E1 as <-. reflexivity. }
      destruct (push_frame s1 _) as [s2|] eqn:E2; [|exact Hs].
      assert (H2 : Inv s2) by (eapply push_frame_Inv; eauto; rewrite Hc1; exact Hoff).
      pose proof (reenter_inv src s2 H2) as Hr.
      destruct (reenter src s2) as [s3|e ip3 s3|ab s3]; cbn [rres_inv] in Hr; [| |exact I].
      - destruct (spop _) as [s5 v] eqn:E5. cbn [nres_inv]. apply spop_keep in E5.
        eapply keep_Inv; [exact E5|]. apply Inv_set_calls; [exact Hr|].
        apply frames_lt_skipn. apply (inv_vm _ Hr).
      - cbn [nres_inv]. apply Inv_set_calls; [exact Hr|]. apply frames_lt_skipn. apply (inv_vm _ Hr). }
    destruct o; try apply Hgo; try exact Hs.
    pose proof (Hcn h s Hs) as Hc. destruct (cn h s) as [v s1|e s1|ab s1]; cbn [nres_inv] in Hc |- *.
    - destruct (spop s1) as [s2 v2] eqn:E. inv_close.
    - exact Hc.
    - exact I.
  Qed.

  Section StdInv.
    Variable self : N -> state -> nres.
    Hypothesis Hrf : forall fv s, Inv s -> nres_inv (run_function P reenter self fv s).

    Lemma minmax_go_ok less key_fn : forall l j i best s, Inv s ->
      match minmax_go F P reenter self less key_fn l j i best s with
      | MMOk _ s' => Inv s'
      | MMFail r => nres_inv r
      end.
    Proof.
      induction l as [|[k v] rest IH]; intros j i best s Hc; cbn [minmax_go]; [exact Hc|].
      destruct (spush s v) as [s1|] eqn:E1; [|exact Hc].
      assert (H1 : Inv s1) by inv_close.
      destruct (spush s1 k) as [s2|] eqn:E2; [|exact H1].
      assert (H2 : Inv s2) by inv_close.
      pose proof (Hrf key_fn s2 H2) as H.
      destruct (run_function P reenter self key_fn s2) as [key s3|e s3|ab s3]; cbn [nres_inv] in H; try exact H.
      destruct (vcmp F (st_heap s3) key best) as [[]| |]; cbv beta iota zeta; cbn [nres_inv]; try exact I;
        destruct less; cbn [negb]; cbv beta iota; apply IH; exact H.
    Qed.

    Lemma make_row_ok s k v : Inv s -> nres_inv (make_row F s k v).
    Proof.
      intros Hc. unfold make_row.
      destruct (salloc s _) as [s3 row] eqn:E3. destruct (salloc s3 _) as [s4 ka] eqn:E4.
      pose proof (salloc_hget _ _ _ _ E3) as Hrow.
      pose proof (salloc_hget_old _ _ _ _ _ _ E4 Hrow) as Hrow4.
      destruct (tinsert _ _ _ k); [|exact I].
      destruct (salloc s4 _) as [s5 va] eqn:E5.
      pose proof (salloc_hget_old _ _ _ _ _ _ E5 Hrow4) as Hrow5.
      destruct (tinsert _ _ _ v); [|exact I]. cbn [nres_inv].
      eapply set_table_ok; [exact Hrow5|]. inv_close.
    Qed.

    Lemma snapshot_ok s t s' ct : snapshot F s t = Some (s', ct) -> Inv s -> Inv s'.
    Proof.
      unfold snapshot. destruct (titer _ t) as [l|]; [|discriminate].
      destruct (salloc s _) as [s1 c] eqn:E1. destruct (insert_pairs _ _ l) as [ct'|]; [|discriminate].
      intros H Hs. injection H as <- <-. pose proof (salloc_hget _ _ _ _ E1) as Hc.
      eapply set_table_ok; [exact Hc|]. inv_close.
    Qed.

    Lemma native_minmax_ok less it kf s0 : Inv s0 -> nres_inv (native_minmax F P reenter self less it kf s0).
    Proof.
      intros Hs0. unfold native_minmax. destruct it; try exact Hs0.
      destruct (hget (st_heap s0) a) as [[t| | | | |]|]; try exact Hs0; try exact I.
      destruct (snapshot F s0 t) as [[s entries]|] eqn:Esn; [|exact I].
      assert (Hs : Inv s) by (eapply snapshot_ok; eauto).
      clear Esn.
      destruct (titer _ entries) as [[|[k0 v0] rest]|]; try exact Hs; try exact I.
      destruct (spush s v0) as [s1|] eqn:E1; [|exact Hs].
      assert (H1 : Inv s1) by inv_close.
      destruct (spush s1 k0) as [s2|] eqn:E2; [|exact H1].
      assert (H2 : Inv s2) by inv_close.
      pose proof (Hrf kf s2 H2) as H.
      destruct (run_function P reenter self kf s2) as [key0 s3|e s3|ab s3]; cbn [nres_inv] in H; try exact H.
      pose proof (minmax_go_ok less kf rest 1 0 key0 s3 H) as Hm.
      destruct (minmax_go F P reenter self less kf rest 1 0 key0 s3) as [i s4|r]; [|exact Hm].
      destruct (tget _ entries _); [|exact I].
      apply make_row_ok. exact Hm.
    Qed.

    Lemma sort_keys_ok kf : forall l s, Inv s ->
      match sort_keys P reenter self kf l s with
      | SKOk _ s' => Inv s'
      | SKFail r => nres_inv r
      end.
    Proof.
      induction l as [|[k v] rest IH]; intros s Hc; cbn [sort_keys]; [exact Hc|].
      destruct (spush s v) as [s1|] eqn:E1; [|exact Hc].
      assert (H1 : Inv s1) by inv_close.
      destruct (spush s1 k) as [s2|] eqn:E2; [|exact H1].
      assert (H2 : Inv s2) by inv_close.
      pose proof (Hrf kf s2 H2) as H.
      destruct (run_function P reenter self kf s2) as [key s3|e s3|ab s3]; cbn [nres_inv] in H; try exact H.
      specialize (IH s3 H).
      destruct (sort_keys P reenter self kf rest s3); exact IH.
    Qed.

    Lemma native_sorted_ok it kf s0 : Inv s0 -> nres_inv (native_sorted F P reenter self it kf s0).
    Proof.
      intros Hs0. unfold native_sorted. destruct it; try exact Hs0.
      destruct (hget (st_heap s0) a) as [[t| | | | |]|]; try exact Hs0; try exact I.
      destruct (snapshot F s0 t) as [[s entries]|] eqn:Esn; [|exact I].
      assert (Hs : Inv s) by (eapply snapshot_ok; eauto).
      clear Esn.
      destruct (titer _ entries) as [l|]; [|exact I].
      pose proof (sort_keys_ok kf l s Hs) as Hk.
      destruct (sort_keys P reenter self kf l s) as [keyed s1|r]; [|exact Hk].
      destruct (stable_sort _ _ _ _); [|exact I].
      destruct (salloc s1 _) as [s2 out] eqn:E2.
      pose proof (salloc_hget _ _ _ _ E2) as Hout.
      destruct (insert_all _ _ _); [|exact I]. cbn [nres_inv].
      eapply set_table_ok; [exact Hout|]. inv_close.
    Qed.
  End StdInv.

  Lemma native_body_ok (self : N -> state -> nres) :
    (forall h s, Inv s -> nres_inv (self h s)) ->
    forall n s, Inv s -> nres_inv (native_body F P reenter self n s).
  Proof.
    intros Hself n s Hs.
    pose proof (run_function_ok self Hself) as Hrf.
    destruct n; cbn [native_body]; cbv zeta.
    - (* log1 *) inv_close.
    - (* sub2 *) destruct (to_i64 _ _ _); [|exact I]. destruct (to_i64 _ _ _); inv_close.
    - exact Hs.
    - (* str1 *) destruct (as_str _ _); inv_close.
    - (* mix3 *) destruct (to_i64 _ _ _); [|exact I]. destruct (to_f64 _ _ _); inv_close.
    - (* call1 *)
      destruct (spush s _) as [s1|] eqn:E1; [|exact Hs].
      assert (H1 : Inv s1) by inv_close.
      apply Hrf. exact H1.
    - (* try1 *)
      destruct (spush s _) as [s1|] eqn:E1; [|exact Hs].
      assert (H1 : Inv s1) by inv_close.
      pose proof (Hrf (speek s 1) s1 H1) as H. destruct (run_function _ _ _ _ s1); inv_close.
    - (* call0 *) apply Hrf. exact Hs.
    - (* t4 *) destruct (as_str _ _); try inv_close.
      destruct (as_bool _ _ _); [|exact I]. destruct (to_f64 _ _ _); [|exact I]. destruct (to_i64 _ _ _); inv_close.
    - (* nil1 *) destruct (speek s 0); try inv_close; destruct (to_i64 _ _ _); inv_close.
    - (* tab1 *) destruct (get_table _ _); inv_close.
    - (* cat2 *) destruct (as_str _ _); try inv_close. destruct (as_str _ _); inv_close.
    - (* rb1 *)
      destruct (spush s _) as [s1|] eqn:E1; [|exact Hs].
      assert (H1 : Inv s1) by inv_close.
      pose proof (Hrf (speek s 1) s1 H1) as H. destruct (run_function _ _ _ _ s1); inv_close.
    - apply native_minmax_ok; [exact Hrf|exact Hs].
    - apply native_minmax_ok; [exact Hrf|exact Hs].
    - apply native_sorted_ok; [exact Hrf|exact Hs].
    - (* to_array *)
      destruct (speek s 0); try exact Hs.
      destruct (hget _ _) as [[]|]; try exact Hs; try exact I.
      destruct (salloc s _) as [s2 out] eqn:E2.
      pose proof (salloc_hget _ _ _ _ E2) as Hout.
      destruct (titer _ _); [|exact I].
      destruct (to_array_go _ _ _ _); [|exact I]. cbn [nres_inv].
      apply (set_table_ok s2 out _ t0 Hout). inv_close.
  Qed.

  Lemma call_native_fuel_ok fuel : forall h s, Inv s -> nres_inv (call_native_fuel F P reenter fuel h s).
  Proof.
    induction fuel as [|f IH]; intros h s Hs; cbn [call_native_fuel]; [exact I|].
    destruct (find_native h all_natives) as [n|]; [|exact Hs].
    pose proof (native_body_ok _ IH n s Hs) as H.
    destruct (native_body _ _ _ _ n s) as [v s1|e s1|ab s1]; cbn [nres_inv] in H.
    - cbv zeta. assert (H' : Inv (spop_n s1 (native_arity n))) by inv_close.
      destruct (spush _ v) eqn:E; inv_close.
    - inv_close.
    - exact I.
  Qed.

  Lemma native_step_ok h ip s : Inv s -> sres_inv (native_step F P reenter h ip s).
  Proof.
    intros Hs. unfold native_step, call_native. pose proof (call_native_fuel_ok 8 h s Hs) as H.
    destruct (call_native_fuel _ _ _ _ h s); exact H.
  Qed.

  Lemma i_4_ok : forall opc ip0 ip s, Inv s -> sres_inv (i_4 F P reenter opc ip0 ip s).
  Proof.
    intros opc ip0 ip s Hs. unfold i_4. destruct (op_u32 P ip); [|exact I]. apply native_step_ok. exact Hs.
  Qed.


  Lemma i_11_inv : forall opc ip0 ip s, Inv s -> sres_inv (i_11 F P reenter opc ip0 ip s).
  Proof.
    intros opc ip0 ip s Hs.
    destruct (spop s) as [s1 fv] eqn:E1.
    assert (H1 : Inv s1) by inv_close.
    destruct fv as [|z|r|a] eqn:Efv;
      try (apply i_11_ok; [exact Hs|]; unfold not_native_callee; rewrite E1; cbn [fst snd]; intros a0 h0 E0; discriminate E0).
    destruct (hget (st_heap s1) a) as [o|] eqn:Eo.
    2:{ apply i_11_ok; [exact Hs|]. unfold not_native_callee. rewrite E1. cbn [fst snd].
        intros a0 h0 E0 E0'. injection E0 as <-. rewrite Eo in E0'. discriminate E0'. }
    destruct o as [t|b|h ar|h|h ar ups|u];
      try (apply i_11_ok; [exact Hs|]; unfold not_native_callee; rewrite E1; cbn [fst snd];
           intros a0 h0 E0 E0'; injection E0 as <-; rewrite Eo in E0'; discriminate E0').
    unfold i_11. rewrite E1, Eo. apply native_step_ok. exact H1.
  Qed.

  Theorem step_inv : forall ip s, Inv s -> sres_inv (step F bld P reenter ip s).
  Proof.
    intros ip0 s Hs.
    destruct (in_dec N.eq_dec (nth (N.to_nat ip0) (p_code P) 255%N) [4; 11; 22; 45; 46]%N) as [Hin|Hnin].
    - unfold step. cbv zeta. cbn [In] in Hin.
      destruct Hin as [E|[E|[E|[E|[E|[]]]]]]; rewrite <- E; cbv iota.
      + apply i_4_ok. exact Hs.
      + apply i_11_inv. exact Hs.
      + apply Inv_i_22. exact Hs.
      + apply Inv_i_45. exact Hs.
      + apply Inv_i_46. exact Hs.
    - apply step_quiet; [| |intros _; exact Hwrite|exact Hs].
      + intros Hin. apply Hnin. cbn in *. tauto.
      + intros E. exfalso. apply Hnin. rewrite E. cbn. tauto.
  Qed.

  Lemma loop_inv : forall fuel ip s, Inv s -> rres_inv (loop F bld P reenter fuel ip s).
  Proof.
    induction fuel as [|f IH]; intros ip s Hs; cbn [loop].
    - destruct (code_len P <=? ip)%N; [exact Hs|].
      cbn [st_rem set_rem]. destruct (N.pred (st_rem s) =? 0)%N; [|exact I].
      cbn [rres_inv]. inv_close.
    - destruct (code_len P <=? ip)%N; [exact Hs|].
      cbn [st_rem set_rem]. destruct (N.pred (st_rem s) =? 0)%N; [cbn [rres_inv]; inv_close|].
      assert (Ht : Inv (tick (set_rem s (N.pred (st_rem s))))) by inv_close.
      pose proof (step_inv ip _ Ht) as H.
      destruct (step F bld P reenter ip _) as [ip' s'|s'|e ip' s'|a s']; cbn [sres_inv rres_inv] in *; try exact H.
      apply IH. exact H.
  Qed.
End Quiet.

(* the instances *)
(* the head of the list and the view of every object are those of s0 *)
Definition same_upvalues (s0 s : state) : Prop :=
  st_open s = st_open s0 /\ forall a, oview (hget (st_heap s) a) = oview (hget (st_heap s0) a).

Lemma same_upvalues_open_list s0 s l : same_upvalues s0 s -> open_list s0 l -> open_list s l.
Proof.
  intros (A & B) H. unfold open_list in *. rewrite A. eapply seg_ext; [|exact H]. intros; apply B.
Qed.

(* an upvalue object is open at slot loc before iff it is after; a closed one stays closed *)
Lemma same_upvalues_object s0 s a : same_upvalues s0 s ->
  (forall loc, (exists v nx, hget (st_heap s0) a = Some (OUp (mkUp (Some loc) v nx))) <->
               (exists v nx, hget (st_heap s) a = Some (OUp (mkUp (Some loc) v nx)))).
Proof.
  intros (_ & B) loc. specialize (B a). split; intros (v & nx & E).
  - rewrite E in B. cbn in B. destruct (oview_some _ _ _ B) as (v' & E'). eauto.
  - rewrite E in B. cbn in B. symmetry in B. destruct (oview_some _ _ _ B) as (v' & E'). eauto.
Qed.

Lemma keep_same_upvalues s0 x x1 : keep x x1 -> same_upvalues s0 x -> same_upvalues s0 x1.
Proof.
  intros ((K1 & K2 & K3 & K4 & K5) & _) (B & C). split; [congruence|]. intros a. rewrite K3. apply C.
Qed.

(* every quiet instruction: the upvalues keep their state and the heap only grows *)
Theorem step_quiet_same_upvalues : forall F bld P reenter ip0 s,
  ~ In (nth (N.to_nat ip0) (p_code P) 255%N) [4; 22; 45; 46]%N ->
  (nth (N.to_nat ip0) (p_code P) 255%N = 11%N -> not_native_callee s) ->
  vm_ok s ->
  match step F bld P reenter ip0 s with
  | SNext _ s' | SExit s' | SErr _ _ s' =>
      vm_ok s' /\ same_upvalues s s' /\ heap_mono (st_heap s) (st_heap s')
  | SStop _ _ => True
  end.
Proof.
  intros F bld P re ip0 s Hq H11 Hs.
  set (J := fun x => vm_ok x /\ same_upvalues s x /\ heap_mono (st_heap s) (st_heap x)).
  assert (G : sres_inv J (step F bld P re ip0 s)).
  { apply step_quiet; try assumption.
    - intros x x1 K (A & B & C). split; [eapply keep_vm_ok; eauto|]. split; [eapply keep_same_upvalues; eauto|].
      eapply heap_mono_trans; [exact C|apply K].
    - intros x (A & _). exact A.
    - intros x c (A & B) Hc. split; [apply vm_ok_set_calls; assumption|exact B].
    - intros _ x ua u wv Hu Hl (A & B & C).
      split; [apply write_closed_vm_ok; assumption|]. split.
      + destruct (write_closed_keep0 x ua u wv Hu Hl) as (K1 & K2 & K3 & _). destruct B as (B1 & B2).
        split; [congruence|]. intros a. rewrite K3. apply B2.
      + eapply heap_mono_trans; [exact C|apply write_closed_mono; assumption].
    - split; [exact Hs|]. split; [split; reflexivity|apply heap_mono_refl]. }
  unfold sres_inv, J in G. destruct (step F bld P re ip0 s); exact G.
Qed.

(* every quiet instruction but SetUpvalue: the upvalue objects are the same objects, values included *)
Definition same_upvalue_objects (s0 s : state) : Prop :=
  forall a u, hget (st_heap s) a = Some (OUp u) <-> hget (st_heap s0) a = Some (OUp u).

Theorem step_quiet_same_objects : forall F bld P reenter ip0 s,
  ~ In (nth (N.to_nat ip0) (p_code P) 255%N) [4; 22; 43; 45; 46]%N ->
  (nth (N.to_nat ip0) (p_code P) 255%N = 11%N -> not_native_callee s) ->
  vm_ok s ->
  match step F bld P reenter ip0 s with
  | SNext _ s' | SExit s' | SErr _ _ s' => vm_ok s' /\ same_upvalue_objects s s'
  | SStop _ _ => True
  end.
Proof.
  intros F bld P re ip0 s Hq H11 Hs.
  set (J := fun x => vm_ok x /\ same_upvalue_objects s x).
  assert (G : sres_inv J (step F bld P re ip0 s)).
  { apply step_quiet; try assumption.
    - intros x x1 K (A & B). split; [eapply keep_vm_ok; eauto|].
      destruct K as (_ & _ & K7 & _). intros a u. rewrite K7. apply B.
    - intros x (A & _). exact A.
    - intros x c (A & B) Hc. split; [apply vm_ok_set_calls; assumption|exact B].
    - intros Hin. apply Hq. cbn in *. tauto.
    - intros E. exfalso. apply Hq. rewrite E. cbn. tauto.
    - split; [exact Hs|]. intros a u. reflexivity. }
  unfold sres_inv, J in G. destruct (step F bld P re ip0 s); exact G.
Qed.

Lemma same_upvalues_refl s : same_upvalues s s.
Proof. split; reflexivity. Qed.
Lemma same_upvalues_trans a b c : same_upvalues a b -> same_upvalues b c -> same_upvalues a c.
Proof. intros (A1 & A2) (B1 & B2). split; [congruence|]. intros x. rewrite B2. apply A2. Qed.

Lemma in_ins_desc a loc l : In (a, loc) (ins_desc a loc l).
Proof.
  induction l as [|y r IH]; cbn [ins_desc]; [left; reflexivity|].
  destruct (loc <? snd y); [right; exact IH|left; reflexivity].
Qed.

(* two closures that capture the same live local hold the same upvalue address: [ua] is the open upvalue of slot
   [loc] in s' (e.g. s' is the state after the RegisterUpvalue that created it: register_shares gives
   open_list s' (ins_desc ua loc l)); t is reached from s' by instructions that leave the upvalues alone
   (step_quiet_same_upvalues, transitively); a RegisterUpvalue in t for the same slot hands out [ua] again *)
Theorem second_capture_shares :
  forall F bld P reenter s' l' ua loc t ip0 index is_local t1 cb ch car cups off,
    open_list s' l' -> In (ua, loc) l' ->
    vm_ok t -> same_upvalues s' t ->
    opcode_at P ip0 = 45%N ->
    read_le (p_code P) (ip0 + 1) 1 = Some index -> read_le (p_code P) (ip0 + 1 + 1) 1 = Some is_local ->
    is_local <> 0%N ->
    spop t = (t1, VObj cb) -> hget (st_heap t1) cb = Some (OClo ch car cups) ->
    top_offset t1 = Some off -> loc = off + N.to_nat index -> loc < scount t1 ->
    step F bld P reenter ip0 t =
    SNext (ip0 + 1 + 2) (set_heap t1 (hset (st_heap t1) cb (OClo ch car (cups ++ [ua])))).
Proof.
  intros F bld P re s' l' ua loc t ip0 index is_local t1 cb ch car cups off Hl Hin Ht Hsame Hop Ei Eil Hnz Ep Hcb Eo El Hlt.
  pose proof (same_upvalues_open_list _ _ _ Hsame Hl) as Hlt'.
  destruct (register_shares F bld P re ip0 t index is_local t1 cb ch car cups off l' loc
              Hop Ei Eil Hnz Ep Hcb Eo El Hlt Ht Hlt') as [A _].
  apply A. exact Hin.
Qed.

(* ------------------------------------------------------------------ *)
(* the objects of the heap are stable under EVERY instruction          *)
(* ------------------------------------------------------------------ *)
(* [stable_from s0 x]: x is good and every object of s0 is still there in x, as a later state of itself *)
Definition stable_from (s0 x : state) : Prop := vm_ok x /\ heap_mono (st_heap s0) (st_heap x).

Section Stable.
  Variable F : fops.
  Variable bld : build.
  Variable P : program.
  Variable s0 : state.
  Notation J := (stable_from s0).

  Lemma stable_keep : forall s s1, keep s s1 -> J s -> J s1.
  Proof.
    intros s s1 K (A & B). split; [eapply keep_vm_ok; eauto|]. eapply heap_mono_trans; [exact B|apply K].
  Qed.
  Lemma stable_vm : forall s, J s -> vm_ok s.
  Proof. intros s (A & _). exact A. Qed.
  Lemma stable_calls : forall s c, J s -> frames_lt (cap s) c -> J (set_calls s c).
  Proof. intros s c (A & B) Hc. split; [apply vm_ok_set_calls; assumption|exact B]. Qed.
  Lemma stable_write : write_closed_ok J.
  Proof.
    intros s ua u wv Hu Hl (A & B). split; [apply write_closed_vm_ok; assumption|].
    eapply heap_mono_trans; [exact B|apply write_closed_mono; assumption].
  Qed.
  Lemma stable_mono s s' : J s -> heap_mono (st_heap s) (st_heap s') -> vm_ok s' -> J s'.
  Proof. intros (_ & B) M A. split; [exact A|eapply heap_mono_trans; eauto]. Qed.

  Lemma push_next_stable ip s v : J s -> sres_inv J (push_next ip s v).
  Proof.
    intros Hs. unfold push_next. destruct (spush s v) as [s1|] eqn:E; cbn [sres_inv]; [|exact Hs].
    eapply stable_keep; [eapply spush_keep; exact E|exact Hs].
  Qed.

  Lemma i_46_stable : forall opc ip0 ip s, J s -> sres_inv J (i_46 P opc ip0 ip s).
  Proof.
    intros opc ip0 ip s Hs; unfold i_46; cbv zeta.
    destruct (op_u32 P ip) as [idx|]; [|exact I].
    destruct (top_offset s) as [off|]; [|exact I].
    pose proof (stable_vm _ Hs) as Hv.
    destruct (close_from_vm_ok (off + N.to_nat idx) s Hv) as (s' & E & H' & _). rewrite E. cbn [sres_inv].
    destruct Hv as ((l & Hl) & _).
    eapply stable_mono; [exact Hs|eapply close_from_mono; eauto|exact H'].
  Qed.

  Lemma i_22_stable : forall opc ip0 ip s, J s -> sres_inv J (i_22 opc ip0 ip s).
  Proof.
    intros opc ip0 ip s Hs; unfold i_22; cbv zeta.
    destruct (st_calls s) as [|fr rest] eqn:Ec; [exact Hs|].
    pose proof (stable_vm _ Hs) as Hv.
    assert (Hfr : N.to_nat (fr_off fr) < cap s /\ frames_lt (cap s) rest).
    { destruct Hv as (_ & _ & Hf). rewrite Ec in Hf. inversion Hf; subst. split; assumption. }
    destruct Hfr as [Hoff Hrest].
    assert (Hs1 : J (set_calls s rest)) by (apply stable_calls; assumption).
    pose proof (stable_vm _ Hs1) as Hv1.
    destruct (close_from_vm_ok (N.to_nat (fr_off fr)) _ Hv1) as (s2 & E & H2 & Hsame). rewrite E.
    assert (J2 : J s2).
    { destruct Hv1 as ((l & Hl) & _).
      eapply stable_mono; [exact Hs1|eapply close_from_mono; eauto|exact H2]. }
    destruct (sclear_until s2 _) as [s3 v] eqn:E3. apply sclear_until_keep in E3.
    - pose proof (stable_keep _ _ E3 J2) as J3.
      destruct rest as [|prev rest']; [exact J3|]. apply push_next_stable. exact J3.
    - destruct Hsame as (A1 & _). unfold cap in *. rewrite A1. exact Hoff.
  Qed.

  Lemma i_45_stable : forall opc ip0 ip s, J s -> sres_inv J (i_45 P opc ip0 ip s).
  Proof.
    intros opc ip0 ip s Hs. pose proof (stable_vm _ Hs) as Hv.
    destruct (read_le (p_code P) ip 1) as [index|] eqn:Ei; [|unfold i_45; rewrite Ei; exact I].
    destruct (read_le (p_code P) (ip + 1) 1) as [is_local|] eqn:Eil; [|unfold i_45; rewrite Ei, Eil; exact I].
    destruct (spop s) as [s1 cv] eqn:E1.
    assert (H1 : J s1) by (eapply stable_keep; [eapply spop_keep; exact E1|exact Hs]).
    pose proof (stable_vm _ H1) as Hv1.
    destruct cv as [|z|r|ca]; try (unfold i_45; rewrite Ei, Eil; cbv zeta; rewrite E1; exact H1).
    destruct (hget (st_heap s1) ca) as [[t|b|h ar|h|ch car cups|u]|] eqn:Eca;
      try (unfold i_45; rewrite Ei, Eil; cbv zeta; rewrite E1, Eca; first [exact H1|exact I]).
    destruct (N.eqb_spec is_local 0) as [Ez|Hnz].
    - unfold i_45. rewrite Ei, Eil. cbv zeta. rewrite E1, Eca. subst is_local. cbn [N.eqb negb].
      destruct (st_calls s1) as [|fr rest]; [exact I|].
      destruct (fr_clo fr) as [fa|]; [|exact I].
      destruct (hget (st_heap s1) fa) as [[t|b|h ar|h|h ar fups|u]|] eqn:Efa; try exact I.
      destruct (nth_error fups _) as [ua|] eqn:Enth; [|exact I]. cbn [sres_inv].
      apply (stable_keep s1); [|exact H1]. apply clo_append_keep; [exact Eca|].
      intros Hok. eapply Hok; [exact Efa|eapply nth_error_In; exact Enth].
    - destruct (top_offset s1) as [off|] eqn:Eo.
      2:{ unfold i_45. rewrite Ei, Eil. cbv zeta. rewrite E1, Eca.
          destruct (N.eqb_spec is_local 0); [contradiction|]. cbn [negb]. rewrite Eo. exact I. }
      destruct (Nat.leb_spec (scount s1) (off + N.to_nat index)) as [Lc|Lc].
      { unfold i_45. rewrite Ei, Eil. cbv zeta. rewrite E1, Eca.
        destruct (N.eqb_spec is_local 0); [contradiction|]. cbn [negb]. rewrite Eo.
        destruct (Nat.leb_spec (scount s1) (off + N.to_nat index)); [exact H1|lia]. }
      pose proof Hv1 as ((l & Hl) & _). destruct Hl as (Hseg & _).
      destruct (i_45_local_spec P opc ip0 ip s index is_local s1 ca ch car cups off l _
                  Ei Eil Hnz E1 Eca Eo eq_refl Lc Hv1 Hseg) as [Hex Hnew].
      destruct (in_dec Nat.eq_dec (off + N.to_nat index) (slots l)) as [Hin|Hnin].
      + unfold slots in Hin. apply in_map_iff in Hin. destruct Hin as ([a k] & Ek & Hin). cbn in Ek. subst k.
        rewrite (Hex a Hin). cbn [sres_inv].
        apply (stable_keep s1); [|exact H1]. apply clo_append_keep; [exact Eca|].
        intros _. destruct (seg_view _ _ _ _ _ _ Hseg Hin) as (nx & Ev). destruct (oview_some _ _ _ Ev) as (v & Hg).
        eexists. exact Hg.
      + destruct (Hnew Hnin) as (s' & E & H' & _ & _ & _ & _ & _ & _ & _ & M). rewrite E. cbn [sres_inv].
        eapply stable_mono; [exact H1|exact M|exact H'].
  Qed.

  (* one instruction - every opcode, every native, re-entry included *)
  Theorem step_stable : forall reenter,
    (forall ip s, J s -> rres_inv J (reenter ip s)) ->
    forall ip s, J s -> sres_inv J (step F bld P reenter ip s).
  Proof.
    intros re Hre. apply step_inv.
    - exact stable_keep.
    - exact stable_vm.
    - exact stable_calls.
    - exact Hre.
    - exact stable_write.
    - exact i_45_stable.
    - exact i_46_stable.
    - exact i_22_stable.
  Qed.

  Lemma run_at_stable max_instr : forall depth ip s,
    J s -> rres_inv J (run_at F bld P false max_instr depth ip s).
  Proof.
    induction depth as [|d IH]; intros ip s Hs; cbn [run_at]; [exact I|].
    unfold run_loop. apply loop_inv; try assumption.
    - exact stable_keep.
    - exact stable_vm.
    - exact stable_calls.
    - exact stable_write.
    - exact i_45_stable.
    - exact i_46_stable.
    - exact i_22_stable.
  Qed.
End Stable.

(* a whole run: every object of the start state is still there at the end, as a later state of itself *)
Theorem run_stable : forall F bld budget P s o s',
  vm_ok s -> run F bld budget P s = (o, s') -> (forall a, o <> OAbort a) ->
  vm_ok s' /\ heap_mono (st_heap s) (st_heap s').
Proof.
  intros F bld budget P s o s' Hs Hr Hna. unfold run, run_gen in Hr.
  destruct (push_frame s _) as [s1|] eqn:E1.
  2:{ injection Hr as <- <-. split; [exact Hs|apply heap_mono_refl]. }
  assert (H1 : stable_from s s1).
  { split; [eapply push_frame_vm_ok; [exact E1|exact Hs|]; cbn; destruct Hs as (_ & Hc & _); lia|].
    unfold push_frame in E1. destruct (_ <=? _); [discriminate|]. injection E1 as <-. apply heap_mono_refl. }
  assert (H2 : stable_from s (set_rem s1 (N.of_nat budget))).
  { eapply stable_keep; [apply set_rem_keep|exact H1]. }
  pose proof (run_at_stable F bld P s (N.of_nat budget) max_depth 0 _ H2) as H.
  unfold finish, outcome_of in Hr.
  destruct (run_at F bld P false (N.of_nat budget) max_depth 0 _) as [x|e ip x|a x]; cbn [rres_inv] in H.
  - injection Hr as <- <-. destruct H as [A B]. split; [apply vm_ok_set_calls; [exact A|constructor]|exact B].
  - injection Hr as <- <-. destruct H as [A B]. split; [apply vm_ok_set_calls; [exact A|constructor]|exact B].
  - injection Hr as <- <-. exfalso. eapply Hna. reflexivity.
Qed.

(* what heap_mono says about closures and upvalues *)
Theorem heap_mono_meaning : forall h h', heap_mono h h' ->
  (forall a lbl ar ups, hget h a = Some (OClo lbl ar ups) ->
     exists more, hget h' a = Some (OClo lbl ar (ups ++ more))) /\
  (forall a u, hget h a = Some (OUp u) -> u_loc u = None ->
     exists u', hget h' a = Some (OUp u') /\ u_loc u' = None) /\
  (forall a u u' l, hget h a = Some (OUp u) -> hget h' a = Some (OUp u') -> u_loc u' = Some l -> u_loc u = Some l) /\
  (forall a lbl ar, hget h a = Some (OFun lbl ar) -> hget h' a = Some (OFun lbl ar)).
Proof.
  intros h h' M. repeat split.
  - intros a lbl ar ups H. destruct (M _ _ H) as (o' & E & L). destruct o'; cbn in L; try contradiction.
    destruct L as (-> & -> & more & ->). exists more. exact E.
  - intros a u H Hl. destruct (M _ _ H) as (o' & E & L). destruct o' as [| | | | |u']; cbn in L; try contradiction.
    exists u'. split; [exact E|]. destruct (u_loc u') as [l|] eqn:El; [|reflexivity].
    specialize (L l eq_refl). congruence.
  - intros a u u' l H H' Hl. destruct (M _ _ H) as (o' & E & L). rewrite H' in E. injection E as <-. cbn in L. auto.
  - intros a lbl ar H. destruct (M _ _ H) as (o' & E & L). destruct o'; cbn in L; try contradiction.
    destruct L as [-> ->]. exact E.
Qed.

(* ------------------------------------------------------------------ *)
(* heap closedness of closures under EVERY instruction                 *)
(* ------------------------------------------------------------------ *)
Definition closed_ok (x : state) : Prop := vm_ok x /\ clo_ok (st_heap x).

Lemma heap_mono_up h h' a u : heap_mono h h' -> hget h a = Some (OUp u) -> exists u', hget h' a = Some (OUp u').
Proof.
  intros M H. destruct (M _ _ H) as (o' & E & L). destruct o' as [| | | | |u']; cbn in L; try contradiction. eauto.
Qed.

Lemma write_closed_clo s ua u wv :
  hget (st_heap s) ua = Some (OUp u) -> clo_ok (st_heap s) -> clo_ok (st_heap (write_closed s ua u wv)).
Proof.
  intros Hu. unfold write_closed. cbn [st_heap set_heap]. apply clo_ok_transfer.
  - intros a u0 H. destruct (N.eq_dec a ua) as [->|Hn].
    + eexists. apply hget_hset_eq. eapply hget_lt; eauto.
    + exists u0. rewrite hget_hset_ne by exact Hn. exact H.
  - intros a lbl ar ups H. left. destruct (N.eq_dec a ua) as [->|Hn].
    + rewrite hget_hset_eq in H by (eapply hget_lt; eauto). discriminate H.
    + rewrite hget_hset_ne in H by exact Hn. exact H.
Qed.

Lemma close_from_clo top s l capn s' :
  hopen_ok (st_heap s) (st_open s) capn l -> close_upvalues_from top s = ClOk s' ->
  clo_ok (st_heap s) -> clo_ok (st_heap s').
Proof.
  intros Hh E. pose proof (close_from_mono _ _ _ _ _ Hh E) as M.
  destruct (close_from_spec top s l capn Hh) as (s'' & E' & _ & _ & Hcl & Hun).
  rewrite E in E'. injection E' as <-.
  apply clo_ok_transfer.
  - intros a u H. eapply heap_mono_up; eauto.
  - intros a lbl ar ups H. left. destruct (in_closed_dec top l a) as [(loc & Hin & Ht)|Hall].
    + destruct (Hcl _ _ Hin Ht) as (nx & E1). rewrite E1 in H. discriminate H.
    + rewrite (Hun _ Hall) in H. exact H.
Qed.

Section Closed.
  Variable F : fops.
  Variable bld : build.
  Variable P : program.
  Notation J := closed_ok.

  Lemma closed_keep : forall s s1, keep s s1 -> J s -> J s1.
  Proof. intros s s1 K (A & B). split; [eapply keep_vm_ok; eauto|]. destruct K as (_ & _ & _ & K3). auto. Qed.
  Lemma closed_vm : forall s, J s -> vm_ok s.
  Proof. intros s (A & _). exact A. Qed.
  Lemma closed_calls : forall s c, J s -> frames_lt (cap s) c -> J (set_calls s c).
  Proof. intros s c (A & B) Hc. split; [apply vm_ok_set_calls; assumption|exact B]. Qed.
  Lemma closed_write : write_closed_ok J.
  Proof.
    intros s ua u wv Hu Hl (A & B). split; [apply write_closed_vm_ok; assumption|].
    apply write_closed_clo; assumption.
  Qed.

  Lemma push_next_closed ip s v : J s -> sres_inv J (push_next ip s v).
  Proof.
    intros Hs. unfold push_next. destruct (spush s v) as [s1|] eqn:E; cbn [sres_inv]; [|exact Hs].
    eapply closed_keep; [eapply spush_keep; exact E|exact Hs].
  Qed.

  Lemma i_46_closed : forall opc ip0 ip s, J s -> sres_inv J (i_46 P opc ip0 ip s).
  Proof.
    intros opc ip0 ip s (Hv & Hc); unfold i_46; cbv zeta.
    destruct (op_u32 P ip) as [idx|]; [|exact I].
    destruct (top_offset s) as [off|]; [|exact I].
    destruct (close_from_vm_ok (off + N.to_nat idx) s Hv) as (s' & E & H' & _). rewrite E. cbn [sres_inv].
    destruct Hv as ((l & Hl) & _). split; [exact H'|eapply close_from_clo; eauto].
  Qed.

  Lemma i_22_closed : forall opc ip0 ip s, J s -> sres_inv J (i_22 opc ip0 ip s).
  Proof.
    intros opc ip0 ip s Hs; unfold i_22; cbv zeta.
    destruct (st_calls s) as [|fr rest] eqn:Ec; [exact Hs|].
    pose proof (closed_vm _ Hs) as Hv.
    assert (Hfr : N.to_nat (fr_off fr) < cap s /\ frames_lt (cap s) rest).
    { destruct Hv as (_ & _ & Hf). rewrite Ec in Hf. inversion Hf; subst. split; assumption. }
    destruct Hfr as [Hoff Hrest].
    assert (Hs1 : J (set_calls s rest)) by (apply closed_calls; assumption).
    destruct Hs1 as (Hv1 & Hc1).
    destruct (close_from_vm_ok (N.to_nat (fr_off fr)) _ Hv1) as (s2 & E & H2 & Hsame). rewrite E.
    assert (J2 : J s2).
    { destruct Hv1 as ((l & Hl) & _). split; [exact H2|eapply close_from_clo; eauto]. }
    destruct (sclear_until s2 _) as [s3 v] eqn:E3. apply sclear_until_keep in E3.
    - pose proof (closed_keep _ _ E3 J2) as J3.
      destruct rest as [|prev rest']; [exact J3|]. apply push_next_closed. exact J3.
    - destruct Hsame as (A1 & _). unfold cap in *. rewrite A1. exact Hoff.
  Qed.

  Lemma i_45_closed : forall opc ip0 ip s, J s -> sres_inv J (i_45 P opc ip0 ip s).
  Proof.
    intros opc ip0 ip s Hs.
    destruct (read_le (p_code P) ip 1) as [index|] eqn:Ei; [|unfold i_45; rewrite Ei; exact I].
    destruct (read_le (p_code P) (ip + 1) 1) as [is_local|] eqn:Eil; [|unfold i_45; rewrite Ei, Eil; exact I].
    destruct (spop s) as [s1 cv] eqn:E1.
    assert (H1 : J s1) by (eapply closed_keep; [eapply spop_keep; exact E1|exact Hs]).
    pose proof H1 as (Hv1 & Hc1).
    destruct cv as [|z|r|ca]; try (unfold i_45; rewrite Ei, Eil; cbv zeta; rewrite E1; exact H1).
    destruct (hget (st_heap s1) ca) as [[t|b|h ar|h|ch car cups|u]|] eqn:Eca;
      try (unfold i_45; rewrite Ei, Eil; cbv zeta; rewrite E1, Eca; first [exact H1|exact I]).
    destruct (N.eqb_spec is_local 0) as [Ez|Hnz].
    - unfold i_45. rewrite Ei, Eil. cbv zeta. rewrite E1, Eca. subst is_local. cbn [N.eqb negb].
      destruct (st_calls s1) as [|fr rest]; [exact I|].
      destruct (fr_clo fr) as [fa|]; [|exact I].
      destruct (hget (st_heap s1) fa) as [[t|b|h ar|h|h ar fups|u]|] eqn:Efa; try exact I.
      destruct (nth_error fups _) as [ua|] eqn:Enth; [|exact I]. cbn [sres_inv].
      apply (closed_keep s1); [|exact H1]. apply clo_append_keep; [exact Eca|].
      intros Hok. eapply Hok; [exact Efa|eapply nth_error_In; exact Enth].
    - destruct (top_offset s1) as [off|] eqn:Eo.
      2:{ unfold i_45. rewrite Ei, Eil. cbv zeta. rewrite E1, Eca.
          destruct (N.eqb_spec is_local 0); [contradiction|]. cbn [negb]. rewrite Eo. exact I. }
      destruct (Nat.leb_spec (scount s1) (off + N.to_nat index)) as [Lc|Lc].
      { unfold i_45. rewrite Ei, Eil. cbv zeta. rewrite E1, Eca.
        destruct (N.eqb_spec is_local 0); [contradiction|]. cbn [negb]. rewrite Eo.
        destruct (Nat.leb_spec (scount s1) (off + N.to_nat index)); [exact H1|lia]. }
      pose proof Hv1 as ((l & Hl) & _). destruct Hl as (Hseg & _).
      destruct (i_45_local_spec P opc ip0 ip s index is_local s1 ca ch car cups off l _
                  Ei Eil Hnz E1 Eca Eo eq_refl Lc Hv1 Hseg) as [Hex Hnew].
      destruct (in_dec Nat.eq_dec (off + N.to_nat index) (slots l)) as [Hin|Hnin].
      + unfold slots in Hin. apply in_map_iff in Hin. destruct Hin as ([a k] & Ek & Hin). cbn in Ek. subst k.
        rewrite (Hex a Hin). cbn [sres_inv].
        apply (closed_keep s1); [|exact H1]. apply clo_append_keep; [exact Eca|].
        intros _. destruct (seg_view _ _ _ _ _ _ Hseg Hin) as (nx & Ev). destruct (oview_some _ _ _ Ev) as (v & Hg).
        eexists. exact Hg.
      + destruct (Hnew Hnin) as (s' & E & H' & _ & Hca' & (nx & Hua') & _ & _ & _ & Hun & M). rewrite E.
        cbn [sres_inv]. split; [exact H'|].
        set (ua := N.of_nat (length (st_heap s1))) in *.
        apply (clo_ok_transfer (st_heap s1)); [| |exact Hc1].
        * intros a u H. eapply heap_mono_up; eauto.
        * intros x lbl ar ups Hx.
          destruct (N.eq_dec x ca) as [->|Hnc].
          { right. rewrite Hca' in Hx. injection Hx as <- <- <-. intros lbl' ar' ups' ua0 E0 Hin0.
            injection E0 as <- <- <-. apply in_app_or in Hin0. destruct Hin0 as [Hin0|[<-|[]]].
            - destruct (Hc1 _ _ _ _ _ Eca Hin0) as (u0 & Hu0). eapply heap_mono_up; eauto.
            - eexists. exact Hua'. }
          destruct (N.eq_dec x ua) as [->|Hnu]; [rewrite Hua' in Hx; discriminate Hx|].
          destruct (oview (hget (st_heap s1) x)) as [p|] eqn:Ev.
          { destruct p as [k nx']. destruct (oview_some _ _ _ Ev) as (v & Hg).
            destruct (heap_mono_up _ _ _ _ M Hg) as (u' & Hu'). rewrite Hu' in Hx. discriminate Hx. }
          left. rewrite <- (Hun x Ev Hnu Hnc). exact Hx.
  Qed.

  Theorem step_closed : forall reenter,
    (forall ip s, J s -> rres_inv J (reenter ip s)) ->
    forall ip s, J s -> sres_inv J (step F bld P reenter ip s).
  Proof.
    intros re Hre. apply step_inv.
    - exact closed_keep.
    - exact closed_vm.
    - exact closed_calls.
    - exact Hre.
    - exact closed_write.
    - exact i_45_closed.
    - exact i_46_closed.
    - exact i_22_closed.
  Qed.

  Lemma run_at_closed max_instr : forall depth ip s,
    J s -> rres_inv J (run_at F bld P false max_instr depth ip s).
  Proof.
    induction depth as [|d IH]; intros ip s Hs; cbn [run_at]; [exact I|].
    unfold run_loop. apply loop_inv; try assumption.
    - exact closed_keep.
    - exact closed_vm.
    - exact closed_calls.
    - exact closed_write.
    - exact i_45_closed.
    - exact i_46_closed.
    - exact i_22_closed.
  Qed.
End Closed.

Lemma fresh_state_closed : closed_ok fresh_state.
Proof.
  split; [apply fresh_state_vm_ok|]. intros ca lbl ar ups ua H. unfold hget in H. cbn in H.
  destruct (N.to_nat ca); discriminate H.
Qed.

Theorem run_closed : forall F bld budget P s o s',
  closed_ok s -> run F bld budget P s = (o, s') -> (forall a, o <> OAbort a) -> closed_ok s'.
Proof.
  intros F bld budget P s o s' Hs Hr Hna. unfold run, run_gen in Hr.
  destruct (push_frame s _) as [s1|] eqn:E1.
  2:{ injection Hr as <- <-. exact Hs. }
  assert (H1 : closed_ok s1).
  { destruct Hs as (Hv & Hc). split.
    - eapply push_frame_vm_ok; [exact E1|exact Hv|]. cbn. destruct Hv as (_ & Hcnt & _). lia.
    - unfold push_frame in E1. destruct (_ <=? _); [discriminate|]. injection E1 as <-. exact Hc. }
  assert (H2 : closed_ok (set_rem s1 (N.of_nat budget))).
  { eapply closed_keep; [apply set_rem_keep|exact H1]. }
  pose proof (run_at_closed F bld P (N.of_nat budget) max_depth 0 _ H2) as H.
  unfold finish, outcome_of in Hr.
  destruct (run_at F bld P false (N.of_nat budget) max_depth 0 _) as [x|e ip x|a x]; cbn [rres_inv] in H.
  - injection Hr as <- <-. destruct H as [A B]. split; [apply vm_ok_set_calls; [exact A|constructor]|exact B].
  - injection Hr as <- <-. destruct H as [A B]. split; [apply vm_ok_set_calls; [exact A|constructor]|exact B].
  - injection Hr as <- <-. exfalso. eapply Hna. reflexivity.
Qed.
