(* C06, VM half: the instructions that do NOT touch the open-upvalue list.
   Every instruction except CallNative (4), Return (22), RegisterUpvalue (45), CloseUpvalue (46) - and CallFunction (11)
   when the callee is a native function value - leaves the head of the list and the (slot, next) view of every upvalue
   object as they are: open upvalues stay open at their slot, closed ones stay closed, none is created.
   (SetUpvalue through a CLOSED upvalue changes the object's value, not its state.)
   The proofs are the ones of VmUpvalueStep.v, generic in the invariant. *)
From Coq Require Import NArith ZArith List Lia Bool Sorted.
From Cao Require Import ListUtil Bits Stacks Vm VmUpvalueProofs VmUpvalueStep VmUpvalueSem.
Import ListNotations.

Section Quiet.
  Variable F : fops.
  Variable bld : build.
  Variable P : program.
  Variable reenter : N -> state -> rres.

  (* any predicate that implies vm_ok, is closed under [keep] and does not look at the call frames *)
  Variable Inv : state -> Prop.
  Hypothesis keep_Inv : forall s s1, keep s s1 -> Inv s -> Inv s1.
  Hypothesis inv_vm : forall s, Inv s -> vm_ok s.
  Hypothesis Inv_set_calls : forall s c, Inv s -> frames_lt (cap s) c -> Inv (set_calls s c).
  (* SetUpvalue through a closed upvalue *)
  Definition write_closed_ok : Prop := forall s ua u wv,
    hget (st_heap s) ua = Some (OUp u) -> u_loc u = None -> Inv s -> Inv (write_closed s ua u wv).

  Definition sres_inv (r : sres) : Prop :=
    match r with SNext _ s' | SExit s' | SErr _ _ s' => Inv s' | SStop _ _ => True end.

  (* the value that CallFunction pops is not a native function value *)
  Definition not_native_callee (s : state) : Prop :=
    forall a h, snd (spop s) = VObj a -> hget (st_heap (fst (spop s))) a = Some (ONative h) -> False.

  Lemma push_frame_Inv s f s1 : push_frame s f = Some s1 -> Inv s -> N.to_nat (fr_off f) < cap s -> Inv s1.
  Proof.
    unfold push_frame. destruct (_ <=? _); [discriminate|]. intros H. injection H as <-. intros Hs Hf.
    apply Inv_set_calls; [exact Hs|]. constructor; [exact Hf|apply (inv_vm _ Hs)].
  Qed.

  Ltac inv_peel :=
    cbn [sres_inv];
    repeat first
      [ exact I
      | apply (keep_Inv _ _ (set_globals_keep _ _))
      | apply (keep_Inv _ _ (set_log_keep _ _))
      | apply (keep_Inv _ _ (log_push_keep _ _))
      | apply (keep_Inv _ _ (set_rem_keep _ _))
      | apply (keep_Inv _ _ (tick_keep _))
      | apply (keep_Inv _ _ (spop_n_keep _ _))
      | apply (keep_Inv _ _ (sraw_set_keep _ _ _)) ].
  Ltac inv_chain :=
    repeat match goal with
           | H : keep ?a ?b, H0 : Inv ?a |- _ =>
               let N := fresh "Hok" in pose proof (keep_Inv _ _ H H0) as N; clear H
           end.
  Ltac inv_close := note_keep; inv_peel; inv_chain; try assumption.

  Lemma push_next_ok ip s v : Inv s -> sres_inv (push_next ip s v).
  Proof. unfold push_next. intros H. destruct (spush s v) eqn:E; inv_close. Qed.

  Lemma of_vres_ok ip s r : Inv s -> sres_inv (of_vres ip s r).
  Proof. intros H. destruct r; cbn [of_vres]; try apply push_next_ok; inv_close. Qed.

  Lemma binary_op_ok ip s op : Inv s -> sres_inv (binary_op ip s op).
  Proof.
    intros H. unfold binary_op. destruct (spop s) as [s1 b] eqn:E1. destruct (spop s1) as [s2 a] eqn:E2.
    apply of_vres_ok. inv_close.
  Qed.

  Ltac step_tac :=
    repeat match goal with
           | |- sres_inv (binary_op _ _ _) => apply binary_op_ok
           | |- sres_inv (push_next _ _ _) => apply push_next_ok
           | |- sres_inv (match ?x with _ => _ end) => destruct x eqn:?
           end;
    try inv_close.

  Ltac instr d := intros opc ip0 ip s Hs; unfold d; cbv zeta; step_tac.

  Lemma i_5_ok : forall opc ip0 ip s, Inv s -> sres_inv (i_5 P opc ip0 ip s). Proof. instr i_5. Qed.
  Lemma i_6_ok : forall opc ip0 ip s, Inv s -> sres_inv (i_6 P opc ip0 ip s). Proof. instr i_6. Qed.
  Lemma i_8_ok : forall opc ip0 ip s, Inv s -> sres_inv (i_8 P opc ip0 ip s). Proof. instr i_8. Qed.
  Lemma i_17_ok : forall opc ip0 ip s, Inv s -> sres_inv (i_17 P opc ip0 ip s). Proof. instr i_17. Qed.
  Lemma i_18_ok : forall opc ip0 ip s, Inv s -> sres_inv (i_18 P opc ip0 ip s). Proof. instr i_18. Qed.
  Lemma i_19_ok : forall opc ip0 ip s, Inv s -> sres_inv (i_19 P opc ip0 ip s). Proof. instr i_19. Qed.
  Lemma i_20_ok : forall opc ip0 ip s, Inv s -> sres_inv (i_20 P opc ip0 ip s). Proof. instr i_20. Qed.
  Lemma i_23_ok : forall opc ip0 ip s, Inv s -> sres_inv (i_23 opc ip0 ip s). Proof. instr i_23. Qed.
  Lemma i_27_ok : forall opc ip0 ip s, Inv s -> sres_inv (i_27 F opc ip0 ip s). Proof. instr i_27. Qed.
  Lemma i_28_ok : forall opc ip0 ip s, Inv s -> sres_inv (i_28 bld P opc ip0 ip s). Proof. instr i_28. Qed.
  Lemma i_29_30_ok : forall opc ip0 ip s, Inv s -> sres_inv (i_29_30 F bld P opc ip0 ip s). Proof. instr i_29_30. Qed.
  Lemma i_31_ok : forall opc ip0 ip s, Inv s -> sres_inv (i_31 opc ip0 ip s). Proof. instr i_31. Qed.
  Lemma i_32_ok : forall opc ip0 ip s, Inv s -> sres_inv (i_32 F opc ip0 ip s). Proof. instr i_32. Qed.
  Lemma i_34_ok : forall opc ip0 ip s, Inv s -> sres_inv (i_34 opc ip0 ip s). Proof. instr i_34. Qed.
  Lemma i_35_ok : forall opc ip0 ip s, Inv s -> sres_inv (i_35 P opc ip0 ip s). Proof. instr i_35. Qed.
  Lemma i_36_ok : forall opc ip0 ip s, Inv s -> sres_inv (i_36 F bld P opc ip0 ip s). Proof. instr i_36. Qed.
  Lemma i_37_42_ok : forall opc ip0 ip s, Inv s -> sres_inv (i_37_42 P opc ip0 ip s).
  Proof.
    intros opc ip0 ip s Hs; unfold i_37_42; cbv zeta.
    destruct (op_u32 P ip); [|inv_close]. destruct (op_u32 P (ip + 4)); [|inv_close].
    destruct (salloc s _) as [s1 a] eqn:E. apply push_next_ok.
    apply salloc_keep in E; [inv_close|destruct (opc =? 37)%N; intros ? ?; discriminate].
  Qed.
  Lemma i_38_ok : forall opc ip0 ip s, Inv s -> sres_inv (i_38 P opc ip0 ip s). Proof. instr i_38. Qed.

  (* ---- tables ---- *)
  Lemma set_table_ok s a t t' : hget (st_heap s) a = Some (OTable t) -> Inv s -> Inv (set_table s a t').
  Proof. intros H. apply keep_Inv. eapply set_table_keep. exact H. Qed.

  Lemma i_33_ok : forall opc ip0 ip s, Inv s -> sres_inv (i_33 F opc ip0 ip s).
  Proof.
    intros opc ip0 ip s Hs; unfold i_33; cbv zeta.
    destruct (get_table _ _) as [a t| |] eqn:Eg; try inv_close.
    destruct (tinsert _ _ _ _); [|exact I]. cbn [sres_inv].
    eapply set_table_ok; [eapply get_table_hget; exact Eg|]. inv_close.
  Qed.

  Lemma i_40_ok : forall opc ip0 ip s, Inv s -> sres_inv (i_40 F opc ip0 ip s).
  Proof.
    intros opc ip0 ip s Hs; unfold i_40; cbv zeta.
    destruct (get_table _ _) as [a t| |] eqn:Eg; try inv_close.
    destruct (tappend _ _ _); try exact I. cbn [sres_inv].
    eapply set_table_ok; [eapply get_table_hget; exact Eg|]. inv_close.
  Qed.

  Lemma i_41_ok : forall opc ip0 ip s, Inv s -> sres_inv (i_41 F opc ip0 ip s).
  Proof.
    intros opc ip0 ip s Hs; unfold i_41; cbv zeta.
    destruct (spop s) as [s1 inst] eqn:E1. assert (H1 : Inv s1) by inv_close.
    destruct (get_table _ _) as [a t| |] eqn:Eg; try inv_close.
    destruct (tpop _ _) as [[t' v]|]; [|exact I]. apply push_next_ok.
    eapply set_table_ok; [eapply get_table_hget; exact Eg|exact H1].
  Qed.

  Lemma salloc_hget s o s1 a : salloc s o = (s1, a) -> hget (st_heap s1) a = Some o.
  Proof. intros H. destruct (salloc_heap _ _ _ _ H) as [-> ->]. apply hget_app_new. Qed.
  Lemma salloc_hget_old s o s1 a x ob :
    salloc s o = (s1, a) -> hget (st_heap s) x = Some ob -> hget (st_heap s1) x = Some ob.
  Proof.
    intros H Hx. destruct (salloc_heap _ _ _ _ H) as [-> _]. rewrite hget_app_old; [exact Hx|].
    eapply hget_lt. exact Hx.
  Qed.

  Lemma i_39_ok : forall opc ip0 ip s, Inv s -> sres_inv (i_39 F opc ip0 ip s).
  Proof.
    intros opc ip0 ip s Hs; unfold i_39; cbv zeta.
    assert (H2 : Inv (spop_n s 2)) by inv_close.
    destruct (get_table _ _) as [a t| |] eqn:Eg; try inv_close.
    destruct (speek s 0); try inv_close.
    destruct (_ <? 0)%Z; [inv_close|].
    destruct (if (_ <? _)%Z then _ else _) as [r|]; [|exact I].
    destruct (salloc (spop_n s 2) _) as [s3 row] eqn:E3.
    destruct (salloc s3 _) as [s4 ka] eqn:E4.
    destruct (salloc s4 _) as [s5 va] eqn:E5.
    pose proof (salloc_hget _ _ _ _ E3) as Hrow.
    pose proof (salloc_hget_old _ _ _ _ _ _ E4 Hrow) as Hrow4.
    pose proof (salloc_hget_old _ _ _ _ _ _ E5 Hrow4) as Hrow5.
    destruct (tinsert _ _ _ _); [|exact I]. destruct (tinsert _ _ _ _); [|exact I].
    apply push_next_ok. eapply set_table_ok; [exact Hrow5|]. inv_close.
  Qed.

  (* ---- frames ---- *)
  Lemma top_offset_lt' s off : Inv s -> top_offset s = Some off -> off < cap s.
  Proof. intros H. apply top_offset_lt. apply inv_vm. exact H. Qed.

  Lemma i_21_ok : forall opc ip0 ip s, Inv s -> sres_inv (i_21 opc ip0 ip s).
  Proof.
    intros opc ip0 ip s Hs; unfold i_21.
    destruct (top_offset s) as [off|] eqn:Eo; [|exact I].
    destruct (sclear_until s off) as [s1 v] eqn:E. cbn [fst sres_inv].
    apply sclear_until_keep in E; [inv_close|eapply top_offset_lt'; eauto].
  Qed.

  (* ---- upvalue access ---- *)
  Lemma i_43_44_ok : forall opc ip0 ip s, (opc = 43%N -> write_closed_ok) -> Inv s -> sres_inv (i_43_44 P opc ip0 ip s).
  Proof.
    intros opc ip0 ip s Hw Hs; unfold i_43_44; cbv zeta.
    destruct (op_u32 P ip); [|exact I].
    destruct (N.eqb_spec opc 43) as [Eopc|Eopc].
    - destruct (spop s) as [s1 wv] eqn:E1. assert (H1 : Inv s1) by inv_close.
      destruct (st_calls s1) as [|fr rest]; [exact I|].
      destruct (fr_clo fr) as [ca|]; [|exact H1].
      destruct (hget (st_heap s1) ca) as [[t|b|h ar|h|h ar ups|u]|]; try exact I.
      destruct (nth_error ups _) as [ua|]; [|exact H1].
      destruct (hget (st_heap s1) ua) as [[t|b|h' ar'|h'|h' ar' ups'|u]|] eqn:Eu; try exact H1; try exact I.
      destruct (u_loc u) as [l|] eqn:El; cbn [sres_inv].
      + inv_close.
      + apply (Hw Eopc s1 ua u wv Eu El H1).
    - destruct (st_calls s) as [|fr rest]; [exact I|].
      destruct (fr_clo fr) as [ca|]; [|exact Hs].
      destruct (hget (st_heap s) ca) as [[t|b|h ar|h|h ar ups|u]|]; try exact I.
      destruct (nth_error ups _) as [ua|]; [|exact Hs].
      destruct (hget (st_heap s) ua) as [[t|b|h' ar'|h'|h' ar' ups'|u]|] eqn:Eu; try exact Hs; try exact I.
      apply push_next_ok. exact Hs.
  Qed.

  Lemma off_lt_cap' s ar : Inv s -> N.to_nat (N.of_nat (scount s) - ar) < cap s.
  Proof. intros H. apply off_lt_cap. apply inv_vm. exact H. Qed.

  Lemma i_11_ok : forall opc ip0 ip s, Inv s -> not_native_callee s -> sres_inv (i_11 F P reenter opc ip0 ip s).
  Proof.
    intros opc ip0 ip s Hs Hnn; unfold i_11; cbv zeta. unfold not_native_callee in Hnn.
    destruct (spop s) as [s1 fv] eqn:E1. cbn [fst snd] in Hnn.
    assert (H1 : Inv s1) by inv_close.
    destruct fv as [|z|r|a]; try exact H1.
    destruct (hget (st_heap s1) a) as [o|] eqn:Eo; [|exact I].
    assert (Hgo : forall arity label clo,
      sres_inv
        match st_calls s1 with
        | [] => SStop APanic s1
        | top :: rest =>
            let s2 := set_calls s1 (mkFrame (fr_src top) ip (fr_off top) (fr_clo top) :: rest) in
            let len := N.of_nat (scount s2) in
            if (len <? arity)%N then SErr EMissingArgument ip s2
            else
              match push_frame s2 (mkFrame ip0 ip (len - arity) clo) with
              | None => SErr ECallStackOverflow ip s2
              | Some s3 =>
                  match assoc label (p_labels P) with
                  | None => SErr (EProcedureNotFound label) ip s3
                  | Some pos => SNext pos s3
                  end
              end
        end).
    { intros arity label clo.
      destruct (st_calls s1) as [|top rest] eqn:Ec; [exact I|].
      cbv zeta.
      assert (H2 : Inv (set_calls s1 (mkFrame (fr_src top) ip (fr_off top) (fr_clo top) :: rest))).
      { apply Inv_set_calls; [exact H1|]. destruct (inv_vm _ H1) as (_ & _ & Hf). rewrite Ec in Hf.
        inversion Hf; subst. constructor; assumption. }
      destruct (_ <? _)%N; [exact H2|].
      destruct (push_frame _ _) as [s3|] eqn:E3; [|exact H2].
      assert (H3 : Inv s3).
      { eapply push_frame_Inv; [exact E3|exact H2|]. cbn [fr_off]. apply (off_lt_cap' _ arity H2). }
      destruct (assoc label (p_labels P)); exact H3. }
    destruct o; try apply Hgo; try exact H1.
    exfalso. eapply Hnn; eauto.
  Qed.


  Theorem step_quiet : forall ip0 s,
    ~ In (nth (N.to_nat ip0) (p_code P) 255%N) [4; 22; 45; 46]%N ->
    (nth (N.to_nat ip0) (p_code P) 255%N = 11%N -> not_native_callee s) ->
    (nth (N.to_nat ip0) (p_code P) 255%N = 43%N -> write_closed_ok) ->
    Inv s -> sres_inv (step F bld P reenter ip0 s).
  Proof.
    intros ip0 s Hq H11 H43 Hs. unfold step. cbv zeta.
    destruct (nth (N.to_nat ip0) (p_code P) 255%N) as [|p] eqn:Eop; [apply binary_op_ok; exact Hs|].
    do 6 (try destruct p as [p|p|]).
    all: try (exfalso; apply Hq; cbn; tauto).
    all: first
      [ (apply i_11_ok; [exact Hs|apply H11; reflexivity])
      | (apply binary_op_ok; exact Hs)
      | (apply push_next_ok; exact Hs)
      | (apply i_5_ok; exact Hs) | (apply i_6_ok; exact Hs) | (apply i_8_ok; exact Hs)
      | (apply i_17_ok; exact Hs) | (apply i_18_ok; exact Hs)
      | (apply i_19_ok; exact Hs) | (apply i_20_ok; exact Hs) | (apply i_21_ok; exact Hs)
      | (apply i_23_ok; exact Hs) | (apply i_27_ok; exact Hs) | (apply i_28_ok; exact Hs)
      | (apply i_29_30_ok; exact Hs) | (apply i_31_ok; exact Hs) | (apply i_32_ok; exact Hs) | (apply i_33_ok; exact Hs)
      | (apply i_34_ok; exact Hs) | (apply i_35_ok; exact Hs) | (apply i_36_ok; exact Hs)
      | (apply i_37_42_ok; exact Hs) | (apply i_38_ok; exact Hs) | (apply i_39_ok; exact Hs) | (apply i_40_ok; exact Hs)
      | (apply i_41_ok; exact Hs) | (apply i_43_44_ok; [exact H43|exact Hs]) | (apply i_43_44_ok; [discriminate|exact Hs])
      | (destruct (spop s) as [s1 v1] eqn:E; cbn [fst]; inv_close)
      | exact Hs
      | exact I ].
  Qed.
End Quiet.

(* the instances *)
(* the head of the list and the view of every object are those of s0 *)
Definition same_upvalues (s0 s : state) : Prop :=
  st_open s = st_open s0 /\ forall a, oview (hget (st_heap s) a) = oview (hget (st_heap s0) a).

Lemma same_upvalues_open_list s0 s l : same_upvalues s0 s -> open_list s0 l -> open_list s l.
Proof.
  intros (A & B) H. unfold open_list in *. rewrite A. eapply seg_ext; [|exact H]. intros; apply B.
Qed.

(* an upvalue object is open at slot loc before iff it is after; a closed one stays closed *)
Lemma same_upvalues_object s0 s a : same_upvalues s0 s ->
  (forall loc, (exists v nx, hget (st_heap s0) a = Some (OUp (mkUp (Some loc) v nx))) <->
               (exists v nx, hget (st_heap s) a = Some (OUp (mkUp (Some loc) v nx)))).
Proof.
  intros (_ & B) loc. specialize (B a). split; intros (v & nx & E).
  - rewrite E in B. cbn in B. destruct (oview_some _ _ _ B) as (v' & E'). eauto.
  - rewrite E in B. cbn in B. symmetry in B. destruct (oview_some _ _ _ B) as (v' & E'). eauto.
Qed.

Lemma keep_same_upvalues s0 x x1 : keep x x1 -> same_upvalues s0 x -> same_upvalues s0 x1.
Proof.
  intros ((K1 & K2 & K3 & K4 & K5) & _) (B & C). split; [congruence|]. intros a. rewrite K3. apply C.
Qed.

(* every quiet instruction: the upvalues keep their state and the heap only grows *)
Theorem step_quiet_same_upvalues : forall F bld P reenter ip0 s,
  ~ In (nth (N.to_nat ip0) (p_code P) 255%N) [4; 22; 45; 46]%N ->
  (nth (N.to_nat ip0) (p_code P) 255%N = 11%N -> not_native_callee s) ->
  vm_ok s ->
  match step F bld P reenter ip0 s with
  | SNext _ s' | SExit s' | SErr _ _ s' =>
      vm_ok s' /\ same_upvalues s s' /\ heap_mono (st_heap s) (st_heap s')
  | SStop _ _ => True
  end.
Proof.
  intros F bld P re ip0 s Hq H11 Hs.
  set (J := fun x => vm_ok x /\ same_upvalues s x /\ heap_mono (st_heap s) (st_heap x)).
  assert (G : sres_inv J (step F bld P re ip0 s)).
  { apply step_quiet; try assumption.
    - intros x x1 K (A & B & C). split; [eapply keep_vm_ok; eauto|]. split; [eapply keep_same_upvalues; eauto|].
      eapply heap_mono_trans; [exact C|apply K].
    - intros x (A & _). exact A.
    - intros x c (A & B) Hc. split; [apply vm_ok_set_calls; assumption|exact B].
    - intros _ x ua u wv Hu Hl (A & B & C).
      split; [apply write_closed_vm_ok; assumption|]. split.
      + destruct (write_closed_keep0 x ua u wv Hu Hl) as (K1 & K2 & K3 & _). destruct B as (B1 & B2).
        split; [congruence|]. intros a. rewrite K3. apply B2.
      + eapply heap_mono_trans; [exact C|apply write_closed_mono; assumption].
    - split; [exact Hs|]. split; [split; reflexivity|apply heap_mono_refl]. }
  unfold sres_inv, J in G. destruct (step F bld P re ip0 s); exact G.
Qed.

(* every quiet instruction but SetUpvalue: the upvalue objects are the same objects, values included *)
Definition same_upvalue_objects (s0 s : state) : Prop :=
  forall a u, hget (st_heap s) a = Some (OUp u) <-> hget (st_heap s0) a = Some (OUp u).

Theorem step_quiet_same_objects : forall F bld P reenter ip0 s,
  ~ In (nth (N.to_nat ip0) (p_code P) 255%N) [4; 22; 43; 45; 46]%N ->
  (nth (N.to_nat ip0) (p_code P) 255%N = 11%N -> not_native_callee s) ->
  vm_ok s ->
  match step F bld P reenter ip0 s with
  | SNext _ s' | SExit s' | SErr _ _ s' => vm_ok s' /\ same_upvalue_objects s s'
  | SStop _ _ => True
  end.
Proof.
  intros F bld P re ip0 s Hq H11 Hs.
  set (J := fun x => vm_ok x /\ same_upvalue_objects s x).
  assert (G : sres_inv J (step F bld P re ip0 s)).
  { apply step_quiet; try assumption.
    - intros x x1 K (A & B). split; [eapply keep_vm_ok; eauto|].
      destruct K as (_ & _ & K7). intros a u. rewrite K7. apply B.
    - intros x (A & _). exact A.
    - intros x c (A & B) Hc. split; [apply vm_ok_set_calls; assumption|exact B].
    - intros Hin. apply Hq. cbn in *. tauto.
    - intros E. exfalso. apply Hq. rewrite E. cbn. tauto.
    - split; [exact Hs|]. intros a u. reflexivity. }
  unfold sres_inv, J in G. destruct (step F bld P re ip0 s); exact G.
Qed.

Lemma same_upvalues_refl s : same_upvalues s s.
Proof. split; reflexivity. Qed.
Lemma same_upvalues_trans a b c : same_upvalues a b -> same_upvalues b c -> same_upvalues a c.
Proof. intros (A1 & A2) (B1 & B2). split; [congruence|]. intros x. rewrite B2. apply A2. Qed.

Lemma in_ins_desc a loc l : In (a, loc) (ins_desc a loc l).
Proof.
  induction l as [|y r IH]; cbn [ins_desc]; [left; reflexivity|].
  destruct (loc <? snd y); [right; exact IH|left; reflexivity].
Qed.

(* two closures that capture the same live local hold the same upvalue address: [ua] is the open upvalue of slot
   [loc] in s' (e.g. s' is the state after the RegisterUpvalue that created it: register_shares gives
   open_list s' (ins_desc ua loc l)); t is reached from s' by instructions that leave the upvalues alone
   (step_quiet_same_upvalues, transitively); a RegisterUpvalue in t for the same slot hands out [ua] again *)
Theorem second_capture_shares :
  forall F bld P reenter s' l' ua loc t ip0 index is_local t1 cb ch car cups off,
    open_list s' l' -> In (ua, loc) l' ->
    vm_ok t -> same_upvalues s' t ->
    opcode_at P ip0 = 45%N ->
    read_le (p_code P) (ip0 + 1) 1 = Some index -> read_le (p_code P) (ip0 + 1 + 1) 1 = Some is_local ->
    is_local <> 0%N ->
    spop t = (t1, VObj cb) -> hget (st_heap t1) cb = Some (OClo ch car cups) ->
    top_offset t1 = Some off -> loc = off + N.to_nat index -> loc < scount t1 ->
    step F bld P reenter ip0 t =
    SNext (ip0 + 1 + 2) (set_heap t1 (hset (st_heap t1) cb (OClo ch car (cups ++ [ua])))).
Proof.
  intros F bld P re s' l' ua loc t ip0 index is_local t1 cb ch car cups off Hl Hin Ht Hsame Hop Ei Eil Hnz Ep Hcb Eo El Hlt.
  pose proof (same_upvalues_open_list _ _ _ Hsame Hl) as Hlt'.
  destruct (register_shares F bld P re ip0 t index is_local t1 cb ch car cups off l' loc
              Hop Ei Eil Hnz Ep Hcb Eo El Hlt Ht Hlt') as [A _].
  apply A. exact Hin.
Qed.
