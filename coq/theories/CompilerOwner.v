(* C15, compile-time half, part 2: WHICH card a trace entry names.

   CompilerTrace.v shows that every trace entry recorded while a function is compiled resolves to SOME card
   of that function.  Here the entry is tied to the card whose compilation emitted the instruction:

   - a [run] is one execution of process_card: the card, the current index at entry, and the byte range
     [r_lo, r_hi) of the code buffer between entry and exit ([run_ok]: it IS such an execution);
   - the triple [JB] produces, for a computation of the compiler monad, the list of the process_card runs
     nested in it (ghost) and shows for every instruction it pushes (address a, recorded location l,
     "is a CallFunction" flag b) that the INNERMOST run r whose byte range contains a - the card that emitted
     the instruction itself rather than through one of its children - satisfies [own_loc]: l is the index of
     r's card, or (finding N-C15-4, kept explicit) r's card is While / IfTrue / IfFalse / IfElse and l is the
     index of its child 1: the conditional and back jumps of these four cards are pushed while sub-index 1
     (the body / then-branch) is the current index;
   - a CallFunction instruction is always the own instruction of a Call or DynamicCall card and carries that
     card's index ((c) of the C15 plan).

   Addresses: push_instr records `len as u32`; all statements are under the guard "the buffer stays
   below 2^32 bytes" ([cs_pc s' <= two32]). *)
From Coq Require Import List NArith ZArith Bool Lia.
From Cao Require Import ListUtil CheckUtil Bits CardAst Bytecode Compiler CompilerGen Wellformed
     CompilerProofs CompilerWf CompilerTrace CompilerLabels.
From Cao Require CardEdit.
Import ListNotations.
Local Open Scope N_scope.

(* ------------------------------------------------------------------ instructions and addresses *)
Definition is_callf (i : instr) : bool := match i with ICallFunction => true | _ => false end.

(* start address and call flag of every instruction of a buffer (newest first) that ends at byte [pc] *)
Fixpoint addrs (code : list instr) (pc : N) : list (N * bool) :=
  match code with
  | [] => []
  | i :: r => (pc - spanN i, is_callf i) :: addrs r (pc - spanN i)
  end.

Lemma set_jump_target_callf i z i' : set_jump_target i z = Some i' -> is_callf i' = is_callf i.
Proof. destruct i; cbn; intros H; try discriminate; injection H as <-; reflexivity. Qed.

Lemma addrs_patch code : forall cur at_pc z code',
  patch_code code cur at_pc z = Some code' -> addrs code' cur = addrs code cur.
Proof.
  induction code as [|i r IH]; intros cur at_pc z code' H; cbn [patch_code] in H; [discriminate|].
  fold (spanN i) in H.
  destruct (_ =? at_pc).
  - destruct (set_jump_target i z) as [i'|] eqn:Ej; [|discriminate]. injection H as <-.
    cbn [addrs]. unfold spanN. rewrite (set_jump_target_span _ _ _ Ej), (set_jump_target_callf _ _ _ Ej).
    reflexivity.
  - destruct (_ <? at_pc); [discriminate|].
    destruct (patch_code r _ at_pc z) as [r'|] eqn:Er; [|discriminate]. injection H as <-.
    cbn [addrs]. rewrite (IH _ _ _ _ Er). reflexivity.
Qed.

(* ------------------------------------------------------------------ runs *)
Record run := mkrun { r_idx : list N; r_card : card; r_lo : N; r_hi : N }.

Definition mkl (ns : list str) (fn : nat) (idx : list N) : loc :=
  (ns, {| ci_function := fn; ci_indices := map N.to_nat (rev idx) |}).

Lemma cur_loc_mkl s : cur_loc s = mkl (cs_ns s) (cs_fn s) (cs_idx s).
Proof. reflexivity. Qed.

(* [r] is an execution of process_card on a card of [cards], at the index that designates it; it is a part of
   the computation between the traces [tlo] and [thi] (the trace only grows at its head): its start state has
   recorded at least [tlo], and everything its end state has recorded is in [thi] *)
Definition run_ok (cards : list card) (ns : list str) (fn : nat) (tlo thi : list (N * loc)) (r : run) : Prop :=
  exists ctx s1 s2,
    at_ctx cards (r_idx r) (r_card r :: ctx) /\ cs_idx s1 = r_idx r /\ cs_ns s1 = ns /\ cs_fn s1 = fn /\
    process_card (r_card r) s1 = ROk tt s2 /\ cs_pc s1 = r_lo r /\ cs_pc s2 = r_hi r /\
    (exists mid, cs_trace s1 = mid ++ tlo) /\ (exists later, thi = later ++ cs_trace s2).

Definition in_run (r : run) (a : N) : Prop := r_lo r <= a < r_hi r.

(* the innermost run of the list that contains [a] *)
Definition deepest (runs : list run) (r : run) (a : N) : Prop :=
  In r runs /\ in_run r a /\
  forall r', In r' runs -> in_run r' a -> r_lo r' <= r_lo r /\ r_hi r <= r_hi r'.

(* the four cards whose jumps are pushed under sub-index 1 (N-C15-4) *)
Definition quirk (c : card) : bool :=
  match c with
  | CBin BWhile _ _ | CBin BIfTrue _ _ | CBin BIfFalse _ _ | CTri TIfElse _ _ _ => true
  | _ => false
  end.
Definition is_call_card (c : card) : bool :=
  match c with CCall _ _ | CDynamicCall _ _ => true | _ => false end.

Definition own_loc (ns : list str) (fn : nat) (r : run) (l : loc) : Prop :=
  l = mkl ns fn (r_idx r) \/ (quirk (r_card r) = true /\ l = mkl ns fn (1 :: r_idx r)).

(* a pushed instruction: ((address, recorded location), is CallFunction) *)
Definition xentry : Type := (N * loc * bool)%type.
Definition xaddr (x : xentry) : N * bool := (fst (fst x), snd x).

Definition attr (runs : list run) (allowed : list (list N * bool)) (ns : list str) (fn : nat) (lo hi : N)
           (x : xentry) : Prop :=
  let a := fst (fst x) in let l := snd (fst x) in let b := snd x in
  lo <= a < hi /\
  ((exists r, deepest runs r a /\ own_loc ns fn r l /\
              (b = true -> is_call_card (r_card r) = true /\ l = mkl ns fn (r_idx r)))
   \/ ((forall r, In r runs -> ~ in_run r a) /\
       exists i mc, In (i, mc) allowed /\ l = mkl ns fn i /\ (b = true -> mc = true))).

Definition runs_in (cards : list card) (ns : list str) (fn : nat) (lo hi : N) (tlo thi : list (N * loc))
           (runs : list run) : Prop :=
  Forall (fun r => run_ok cards ns fn tlo thi r /\ lo <= r_lo r /\ r_lo r <= r_hi r /\ r_hi r <= hi) runs.

(* ------------------------------------------------------------------ the triple *)
Definition JB {A} (cards : list card) (idx : list N) (ctx : list card) (idx' : list N) (ctx' : list card)
           (allowed : list (list N * bool)) (m : M A) : Prop :=
  forall s, cs_idx s = idx -> at_ctx cards idx ctx -> cs_pc s = bytes (cs_code s) ->
    match m s with
    | ROk _ s' =>
        cs_idx s' = idx' /\ at_ctx cards idx' ctx' /\ cs_fn s' = cs_fn s /\ cs_ns s' = cs_ns s /\
        cs_pc s' = bytes (cs_code s') /\ cs_pc s <= cs_pc s' /\
        (cs_pc s' <= two32 ->
         exists newx runs,
           cs_trace s' = map fst newx ++ cs_trace s /\
           addrs (cs_code s') (cs_pc s') = map xaddr newx ++ addrs (cs_code s) (cs_pc s) /\
           runs_in cards (cs_ns s) (cs_fn s) (cs_pc s) (cs_pc s') (cs_trace s) (cs_trace s') runs /\
           Forall (attr runs allowed (cs_ns s) (cs_fn s) (cs_pc s) (cs_pc s')) newx)
    | _ => True
    end.

Lemma JB_ret {A} cards idx ctx allowed (a : A) : JB cards idx ctx idx ctx allowed (ret a).
Proof.
  intros s Hi Hat Hpc. cbn. repeat split; auto; try lia. intros _. exists [], [].
  repeat split; constructor.
Qed.

Lemma runs_in_widen cards ns fn lo hi lo' hi' tlo thi tlo' thi' runs :
  lo' <= lo -> hi <= hi' -> (exists x, tlo = x ++ tlo') -> (exists y, thi' = y ++ thi) ->
  runs_in cards ns fn lo hi tlo thi runs -> runs_in cards ns fn lo' hi' tlo' thi' runs.
Proof.
  intros H1 H2 [x Hx] [y Hy] H. unfold runs_in in *. rewrite Forall_forall in *. intros r Hr.
  destruct (H r Hr) as ((ctx & s1 & s2 & q1 & q2 & q3 & q4 & q5 & q6 & q7 & [mid q8] & [later q9]) & b & c & d).
  split; [|repeat split; lia].
  exists ctx, s1, s2. repeat (split; [assumption|]). split.
  - exists (mid ++ x). rewrite q8, Hx, app_assoc. reflexivity.
  - exists (y ++ later). rewrite Hy, q9, app_assoc. reflexivity.
Qed.

(* entries below [mid] keep their attribution when runs that start at or above [mid] are added, and
   entries at or above [mid] when runs that end at or below [mid] are added *)
Lemma attr_extend_r runs more allowed ns fn lo mid hi x :
  mid <= hi -> (forall r, In r more -> mid <= r_lo r) ->
  attr runs allowed ns fn lo mid x -> attr (runs ++ more) allowed ns fn lo hi x.
Proof.
  intros Hmh Hmore (Hr & H). split; [lia|]. destruct H as [(r & (Hin & Hir & Hd) & Ho)|(Hout & Hp)].
  - left. exists r. split; [|exact Ho]. split; [apply in_or_app; left; exact Hin|]. split; [exact Hir|].
    intros r' Hr' Hir'. apply in_app_or in Hr'. destruct Hr' as [Hr'|Hr']; [apply Hd; assumption|].
    specialize (Hmore r' Hr'). unfold in_run in Hir'. lia.
  - right. split; [|exact Hp]. intros r Hin. apply in_app_or in Hin. destruct Hin as [Hin|Hin]; [apply Hout, Hin|].
    specialize (Hmore r Hin). unfold in_run. lia.
Qed.
Lemma attr_extend_l runs more allowed ns fn lo mid hi x :
  lo <= mid -> (forall r, In r more -> r_hi r <= mid) ->
  attr runs allowed ns fn mid hi x -> attr (more ++ runs) allowed ns fn lo hi x.
Proof.
  intros Hlm Hmore (Hr & H). split; [lia|]. destruct H as [(r & (Hin & Hir & Hd) & Ho)|(Hout & Hp)].
  - left. exists r. split; [|exact Ho]. split; [apply in_or_app; right; exact Hin|]. split; [exact Hir|].
    intros r' Hr' Hir'. apply in_app_or in Hr'. destruct Hr' as [Hr'|Hr']; [|apply Hd; assumption].
    specialize (Hmore r' Hr'). unfold in_run in Hir'. lia.
  - right. split; [|exact Hp]. intros r Hin. apply in_app_or in Hin. destruct Hin as [Hin|Hin]; [|apply Hout, Hin].
    specialize (Hmore r Hin). unfold in_run. lia.
Qed.

Lemma JB_bind {A B} cards i0 c0 i1 c1 i2 c2 allowed (m : M A) (f : A -> M B) :
  JB cards i0 c0 i1 c1 allowed m -> (forall a, JB cards i1 c1 i2 c2 allowed (f a)) ->
  JB cards i0 c0 i2 c2 allowed (bind m f).
Proof.
  intros Hm Hf s Hi Hat Hpc. unfold bind. specialize (Hm s Hi Hat Hpc).
  destruct (m s) as [a s1| | |]; auto.
  destruct Hm as (Hi1 & Hat1 & Hfn1 & Hns1 & Hpc1 & Hle1 & H1).
  specialize (Hf a s1 Hi1 Hat1 Hpc1). destruct (f a s1) as [b s2| | |]; auto.
  destruct Hf as (Hi2 & Hat2 & Hfn2 & Hns2 & Hpc2 & Hle2 & H2).
  repeat split; try congruence; try lia.
  intros Hg. destruct (H1 ltac:(lia)) as (n1 & r1 & Ht1 & Ha1 & Hr1 & Hx1).
  destruct (H2 Hg) as (n2 & r2 & Ht2 & Ha2 & Hr2 & Hx2).
  rewrite Hns1, Hfn1 in Hr2, Hx2.
  exists (n2 ++ n1), (r1 ++ r2). rewrite !map_app, <- !app_assoc.
  split; [rewrite Ht2, Ht1; reflexivity|]. split; [rewrite Ha2, Ha1; reflexivity|]. split.
  - apply Forall_app. split.
    + eapply runs_in_widen; [| | | |exact Hr1]; [lia | lia | exists []; reflexivity | exists (map fst n2); exact Ht2].
    + eapply runs_in_widen; [| | | |exact Hr2]; [lia | lia | exists (map fst n1); exact Ht1 | exists []; reflexivity].
  - apply Forall_app. split.
    + eapply Forall_impl; [|exact Hx2]. intros x Hx. eapply attr_extend_l; [exact Hle1| |exact Hx].
      intros r Hr. unfold runs_in in Hr1. rewrite Forall_forall in Hr1. destruct (Hr1 r Hr) as (_ & _ & _ & H). exact H.
    + eapply Forall_impl; [|exact Hx1]. intros x Hx. eapply attr_extend_r; [exact Hle2| |exact Hx].
      intros r Hr. unfold runs_in in Hr2. rewrite Forall_forall in Hr2. destruct (Hr2 r Hr) as (_ & H & _). exact H.
Qed.

Lemma attr_weaken runs al al' ns fn lo hi x : incl al al' -> attr runs al ns fn lo hi x -> attr runs al' ns fn lo hi x.
Proof.
  intros Hi (Hr & H). split; [exact Hr|]. destruct H as [H|(Hout & i & mc & Hin & Hp)]; [left; exact H|].
  right. split; [exact Hout|]. exists i, mc. split; [apply Hi, Hin | exact Hp].
Qed.
Lemma JB_weaken {A} cards i0 c0 i1 c1 al al' (m : M A) :
  incl al al' -> JB cards i0 c0 i1 c1 al m -> JB cards i0 c0 i1 c1 al' m.
Proof.
  intros Hincl H s Hi Hat Hpc. specialize (H s Hi Hat Hpc). destruct (m s) as [a s'| | |]; auto.
  destruct H as (h1 & h2 & h3 & h4 & h5 & h6 & H). repeat split; auto.
  intros Hg. destruct (H Hg) as (n & r & Ht & Ha & Hr & Hx). exists n, r. repeat split; auto.
  eapply Forall_impl; [|exact Hx]. intros x. apply attr_weaken, Hincl.
Qed.

(* ---- operations that touch neither the code, the trace nor the position ---- *)
Definition framePC {A} (m : M A) : Prop :=
  forall s, match m s with ROk _ s' => cs_code s' = cs_code s /\ cs_pc s' = cs_pc s | _ => True end.
Lemma frame_framePC {A} (m : M A) : frame m -> framePC m.
Proof. intros H s. specialize (H s). destruct (m s); auto. destruct H as (h1 & h2 & _). auto. Qed.
Lemma framePC_bind {A B} (m : M A) (f : A -> M B) : framePC m -> (forall a, framePC (f a)) -> framePC (bind m f).
Proof.
  intros Hm Hf s. unfold bind. specialize (Hm s). destruct (m s) as [a s1| | |]; auto.
  specialize (Hf a s1). destruct (f a s1) as [b s2| | |]; auto.
  destruct Hm, Hf. split; congruence.
Qed.
Lemma framePC_label_entry h : framePC (label_entry_here h).
Proof.
  intros s. unfold label_entry_here. destruct (two32 <=? cs_pc s); [exact I|].
  destruct (h =? 0); [auto|]. destruct (nm_find h (cs_labels s)); cbn; auto.
Qed.
Lemma framePC_label_insert h : framePC (label_insert_here h).
Proof. intros s. unfold label_insert_here. destruct ((two32 <=? cs_pc s) || (h =? 0)); cbn; auto. Qed.
Lemma framePC_card_label : framePC card_label.
Proof.
  unfold card_label. apply framePC_bind; [apply frame_framePC, frame_index_handle | intros; apply framePC_label_entry].
Qed.

Lemma JB_frame {A} cards idx ctx allowed (m : M A) : frame3 m -> framePC m -> JB cards idx ctx idx ctx allowed m.
Proof.
  intros H3 HP s Hi Hat Hpc. specialize (H3 s). specialize (HP s). destruct (m s) as [a s'| | |]; auto.
  destruct H3 as (a1 & a2 & a3 & a4), HP as (b1 & b2).
  repeat split; try congruence; try lia. intros _. exists [], [].
  cbn [map app]. rewrite a4, b1, b2. repeat split; constructor.
Qed.

Lemma JB_patch cards idx ctx allowed q : JB cards idx ctx idx ctx allowed (patch_jump_here q).
Proof.
  intros s Hi Hat Hpc. unfold patch_jump_here.
  destruct (patch_code (cs_code s) (cs_pc s) q (u32_to_i32 (cs_pc s))) as [code'|] eqn:E; [|exact I].
  cbn [cs_idx cs_fn cs_ns cs_pc cs_code cs_trace set_code].
  repeat split; auto; try lia.
  - rewrite (CompilerLabels.patch_code_bytes _ _ _ _ _ E). exact Hpc.
  - intros _. exists [], []. cbn [map app]. rewrite (addrs_patch _ _ _ _ _ E). repeat split; constructor.
Qed.

(* ---- pushing an instruction ---- *)
Definition may_push (idx : list N) (allowed : list (list N * bool)) (i : instr) : Prop :=
  exists mc, In (idx, mc) allowed /\ (is_callf i = true -> mc = true).

Lemma JB_push_instr cards idx ctx allowed i :
  may_push idx allowed i -> JB cards idx ctx idx ctx allowed (push_instr i).
Proof.
  intros (mc & Hin & Hmc) s Hi Hat Hpc. rewrite push_instr_eq. unfold pushed.
  cbn [cs_idx cs_fn cs_ns cs_pc cs_code cs_trace set_code set_trace]. fold (spanN i).
  pose proof (spanN_pos i) as Hsp.
  repeat split; auto; try lia.
  - cbn [bytes]. lia.
  - intros Hg. exists [((cs_pc s mod two32, cur_loc s), is_callf i)], [].
    assert (Hm : cs_pc s mod two32 = cs_pc s) by (apply N.mod_small; lia).
    cbn [map fst app addrs]. unfold xaddr. cbn [fst snd]. rewrite Hm.
    replace (cs_pc s + spanN i - spanN i) with (cs_pc s) by lia.
    split; [reflexivity|]. split; [reflexivity|]. split; [constructor|].
    constructor; [|constructor]. split; [cbn [fst snd]; lia|]. cbn [fst snd].
    right. split; [intros r []|]. exists idx, mc. rewrite cur_loc_mkl, Hi. auto.
Qed.

Lemma JB_push_sub cards idx c c' ctx allowed i :
  CardEdit.get_child c (N.to_nat i) = Some c' ->
  JB cards idx (c :: ctx) (i :: idx) (c' :: c :: ctx) allowed (push_sub i).
Proof.
  intros Hc s Hi Hat Hpc. cbn. rewrite Hi. repeat split; auto; try lia; [constructor; auto|].
  intros _. exists [], []. repeat split; constructor.
Qed.
Lemma JB_pop_sub cards i idx c c' ctx allowed :
  JB cards (i :: idx) (c' :: c :: ctx) idx (c :: ctx) allowed pop_sub.
Proof.
  intros s Hi Hat Hpc. cbn. rewrite Hi. cbn [tl]. inversion Hat; subst.
  repeat split; auto; try lia. intros _. exists [], []. repeat split; constructor.
Qed.
Lemma JB_with_sub {cards idx c c' ctx allowed} i m :
  CardEdit.get_child c (N.to_nat i) = Some c' ->
  JB cards (i :: idx) (c' :: c :: ctx) (i :: idx) (c' :: c :: ctx) allowed m ->
  JB cards idx (c :: ctx) idx (c :: ctx) allowed (with_sub i m).
Proof.
  intros Hc Hm. unfold with_sub.
  eapply JB_bind; [apply JB_push_sub, Hc | intros _].
  eapply JB_bind; [exact Hm | intros _; apply JB_pop_sub].
Qed.

(* ---- closing a card: the instructions that are pending under the card's own index (or, for the four
   quirk cards, under its child 1) become the own instructions of the run of the card ---- *)
Definition own_allowed (c : card) (idx : list N) : list (list N * bool) :=
  (idx, is_call_card c) :: (if quirk c then [(1 :: idx, false)] else []).

Definition card_jb (cards : list card) (c : card) : Prop :=
  forall idx ctx al, JB cards idx (c :: ctx) idx (c :: ctx) al (process_card c).

Lemma JB_close cards c idx ctx :
  JB cards idx (c :: ctx) idx (c :: ctx) (own_allowed c idx) (process_card c) ->
  forall al, JB cards idx (c :: ctx) idx (c :: ctx) al (process_card c).
Proof.
  intros H al s Hi Hat Hpc. specialize (H s Hi Hat Hpc).
  destruct (process_card c s) as [[] s'| | |] eqn:Erun; auto.
  destruct H as (h1 & h2 & h3 & h4 & h5 & h6 & H). repeat split; auto.
  intros Hg. destruct (H Hg) as (n & runs & Ht & Ha & Hr & Hx).
  set (self := mkrun idx c (cs_pc s) (cs_pc s')).
  exists n, (self :: runs). split; [exact Ht|]. split; [exact Ha|]. split.
  - constructor; [|exact Hr]. cbn [r_lo r_hi self]. split; [|lia].
    exists ctx, s, s'. cbn [r_idx r_card r_lo r_hi self].
    repeat (split; [solve [auto]|]). split; exists []; reflexivity.
  - eapply Forall_impl; [|exact Hx]. intros [[a l] b] (Hrg & Hx1). cbn [fst snd] in *. split; [exact Hrg|].
    left. destruct Hx1 as [(r & (Hin & Hir & Hd) & Ho)|(Hout & i & mc & Hin & Hl & Hb)].
    + exists r. split; [|exact Ho]. split; [right; exact Hin|]. split; [exact Hir|].
      intros r' [<-|Hr'] Hir'; [|apply Hd; assumption]. cbn [r_lo r_hi self].
      unfold runs_in in Hr. rewrite Forall_forall in Hr. destruct (Hr r Hin) as (_ & q1 & q2 & q3). lia.
    + exists self. split.
      * split; [left; reflexivity|]. split; [exact Hrg|].
        intros r' [<-|Hr'] Hir'; [lia | destruct (Hout r' Hr' Hir')].
      * unfold own_loc, own_allowed in *. cbn [r_idx r_card self]. destruct Hin as [E|Hin].
        -- injection E as <- <-. split; [left; exact Hl|]. intros Hbt. split; [apply Hb, Hbt | exact Hl].
        -- destruct (quirk c) eqn:Eq; [|destruct Hin]. destruct Hin as [E|[]]. injection E as <- <-.
           split; [right; split; [reflexivity | exact Hl]|]. intros Hbt. specialize (Hb Hbt). discriminate.
Qed.

(* ------------------------------------------------------------------ derived rules *)
Definition okidx (idx : list N) (allowed : list (list N * bool)) : Prop := exists mc, In (idx, mc) allowed.

Lemma may_push_other idx al i : is_callf i = false -> okidx idx al -> may_push idx al i.
Proof. intros Hc [mc Hin]. exists mc. split; [exact Hin|]. rewrite Hc. discriminate. Qed.

Ltac frame_tac :=
  repeat first
    [ apply frame_ret | apply frame_get | apply frame_get_pc | apply frame_get_pc_i32 | apply frame_panic
    | apply frame_diverge | apply frame_error | apply frame_scope_begin | apply frame_compile_begin
    | apply frame_compile_end | apply frame_validate | apply frame_add_local_unchecked
    | apply frame_add_local | apply frame_add_locals | apply frame_handle_from_bytes
    | apply frame_index_handle | apply frame_resolve_var
    | apply frame_global_id | apply frame_resolve_function
    | match goal with |- frame (bind _ _) => apply frame_bind; [|intros ?] end ].
Ltac framePC_tac :=
  repeat first
    [ apply framePC_card_label | apply framePC_label_insert | apply framePC_label_entry
    | apply frame_framePC; solve [frame_tac]
    | match goal with |- framePC (bind _ _) => apply framePC_bind; [|intros ?] end ].
Ltac frame3_tac :=
  repeat first
    [ apply frame3_ret | apply frame3_get | apply frame3_get_pc | apply frame3_get_pc_i32 | apply frame3_panic
    | apply frame3_diverge | apply frame3_error | apply frame3_scope_begin | apply frame3_compile_begin
    | apply frame3_compile_end | apply frame3_validate | apply frame3_add_local_unchecked
    | apply frame3_add_local | apply frame3_add_locals | apply frame3_handle_from_bytes
    | apply frame3_index_handle | apply frame3_card_label | apply frame3_label_insert | apply frame3_resolve_var
    | apply frame3_global_id | apply frame3_resolve_function | apply frame3_patch
    | match goal with |- frame3 (bind _ _) => apply frame3_bind; [|intros ?] end ].
Ltac jframe := apply JB_frame; [solve [frame3_tac] | solve [framePC_tac]].

Lemma JB_push_other cards idx ctx al i :
  is_callf i = false -> okidx idx al -> JB cards idx ctx idx ctx al (push_instr i).
Proof. intros H1 H2. apply JB_push_instr, may_push_other; assumption. Qed.

Lemma JB_push_string cards idx ctx al mk st :
  (forall x, is_callf (mk x) = false) -> okidx idx al -> JB cards idx ctx idx ctx al (push_string mk st).
Proof.
  intros Hmk Hok. unfold push_string. eapply JB_bind; [jframe | intros s0].
  eapply JB_bind; [apply JB_push_other; auto | intros _].
  apply JB_frame.
  - intros s. destruct (two32 <=? N.of_nat (length st)); cbn; [exact I | unfold same3; cbn; repeat split; reflexivity].
  - intros s. destruct (two32 <=? N.of_nat (length st)); cbn; auto.
Qed.

Lemma JB_push_raws cards idx ctx al is :
  Forall (fun i => is_callf i = false) is -> okidx idx al -> JB cards idx ctx idx ctx al (push_raws is).
Proof.
  intros Hall Hok. induction Hall as [|i r Hi _ IH]; cbn [push_raws]; [apply JB_ret|].
  eapply JB_bind; [apply JB_push_other; auto | intros _; exact IH].
Qed.
Lemma pop_locals_nocallf rls d : Forall (fun i => is_callf i = false) (snd (pop_locals rls d)).
Proof.
  induction rls as [|l r IH]; cbn [pop_locals]; [constructor|].
  destruct (d <? l_depth l)%Z; [|constructor]. destruct (pop_locals r d) as [r' is]. cbn [snd] in *.
  constructor; [destruct (l_captured l); reflexivity | exact IH].
Qed.
Lemma JB_scope_end cards idx ctx al : okidx idx al -> JB cards idx ctx idx ctx al scope_end.
Proof.
  intros Hok s Hi Hat Hpc. unfold scope_end.
  set (ds := map_hd _ (cs_depth s)). set (rlis := pop_locals _ _). set (s1 := set_scopes _ _ _ s).
  exact (JB_push_raws cards idx ctx al (snd rlis) (pop_locals_nocallf _ _) Hok s1 Hi Hat Hpc).
Qed.

Lemma JB_encode_if_then cards idx ctx al skip body :
  (forall z, is_callf (skip z) = false) -> okidx idx al ->
  JB cards idx ctx idx ctx al body -> JB cards idx ctx idx ctx al (encode_if_then skip body).
Proof.
  intros Hs Hok Hb. unfold encode_if_then.
  eapply JB_bind; [jframe | intros q].
  eapply JB_bind; [apply JB_push_other; auto | intros _].
  eapply JB_bind; [exact Hb | intros _]. apply JB_patch.
Qed.

Lemma JB_read_props cards idx ctx al props : okidx idx al -> JB cards idx ctx idx ctx al (read_props props).
Proof.
  intros Hok. induction props as [|x r IH]; cbn [read_props]; [apply JB_ret|].
  eapply JB_bind; [|intros _; exact IH].
  destruct (is_empty x); [apply JB_ret|].
  eapply JB_bind; [apply JB_push_string; auto | intros _; apply JB_push_other; auto].
Qed.
Lemma JB_read_var_card cards idx ctx al v : okidx idx al -> JB cards idx ctx idx ctx al (read_var_card v).
Proof.
  intros Hok. unfold read_var_card.
  destruct (match split_once_c c_dot v with Some (v0, p0) => (v0, p0) | None => (v, []) end) as [v0 props].
  eapply JB_bind; [jframe | intros scope].
  eapply JB_bind; [|intros _; apply JB_read_props, Hok].
  destruct scope.
  - eapply JB_bind; [jframe | intros id; apply JB_push_other; auto].
  - apply JB_push_other; auto.
  - apply JB_push_other; auto.
Qed.
Lemma JB_bind_loop_var cards idx ctx al o src : okidx idx al -> JB cards idx ctx idx ctx al (bind_loop_var o src).
Proof.
  intros Hok. destruct o; cbn [bind_loop_var]; [|apply JB_ret].
  eapply JB_bind; [jframe | intros x].
  eapply JB_bind; [apply JB_push_other; auto | intros _; apply JB_push_other; auto].
Qed.
Lemma JB_emit_upvalues cards idx ctx al ups : okidx idx al -> JB cards idx ctx idx ctx al (emit_upvalues ups).
Proof.
  intros Hok. induction ups as [|u r IH]; cbn [emit_upvalues]; [apply JB_ret|].
  eapply JB_bind; [apply JB_push_other; auto | intros _].
  eapply JB_bind; [apply JB_push_other; auto | intros _; exact IH].
Qed.
Lemma JB_process_leaf cards idx ctx al i :
  is_callf i = false -> okidx idx al -> JB cards idx ctx idx ctx al (process_leaf i).
Proof.
  intros Hc Hok. unfold process_leaf.
  eapply JB_bind; [jframe | intros _; apply JB_push_other; auto].
Qed.

(* ------------------------------------------------------------------ induction over cards *)
Section Cards.
  Variable cards : list card.

  Lemma JB_subexpr parent idx ctx al l : Forall (card_jb cards) l -> forall i,
    (forall k x, nth_error l k = Some x -> CardEdit.get_child parent (N.to_nat i + k) = Some x) ->
    JB cards idx (parent :: ctx) idx (parent :: ctx) al
      ((fix subexpr (l : list card) (i : N) {struct l} : M unit :=
          match l with
          | [] => ret tt
          | x :: r => with_sub i (process_card x) ;; subexpr r (i + 1)
          end) l i).
  Proof.
    induction 1 as [|x r Hx _ IH]; intros i Hc; [apply JB_ret|].
    eapply JB_bind.
    - apply (JB_with_sub (c' := x) i); [|apply Hx].
      rewrite <- (Nat.add_0_r (N.to_nat i)). apply (Hc 0%nat x). reflexivity.
    - intros _. apply IH. intros k y Hk.
      replace (N.to_nat (i + 1) + k)%nat with (N.to_nat i + S k)%nat by lia. apply (Hc (S k) y Hk).
  Qed.

  Lemma JB_array_items parent idx ctx al tv l : okidx idx al -> Forall (card_jb cards) l -> forall i,
    (forall k x, nth_error l k = Some x -> CardEdit.get_child parent (N.to_nat i + k) = Some x) ->
    JB cards idx (parent :: ctx) idx (parent :: ctx) al
      ((fix items (l : list card) (i : N) {struct l} : M unit :=
         match l with
         | [] => ret tt
         | x :: r =>
             push_instr IScalarNil ;;
             with_sub i (process_card x) ;;
             read_local tv ;;
             push_instr IAppendTable ;;
             items r (i + 1)
         end) l i).
  Proof.
    intros Hok. induction 1 as [|x r Hx _ IH]; intros i Hc; [apply JB_ret|].
    eapply JB_bind; [apply JB_push_other; auto | intros _].
    eapply JB_bind.
    - apply (JB_with_sub (c' := x) i); [|apply Hx].
      rewrite <- (Nat.add_0_r (N.to_nat i)). apply (Hc 0%nat x). reflexivity.
    - intros _. eapply JB_bind; [apply JB_push_other; auto | intros _].
      eapply JB_bind; [apply JB_push_other; auto | intros _].
      apply IH. intros k y Hk.
      replace (N.to_nat (i + 1) + k)%nat with (N.to_nat i + S k)%nat by lia. apply (Hc (S k) y Hk).
  Qed.

  Ltac side :=
    unfold may_push, okidx, own_allowed; cbn;
    first
      [ solve [eexists; split; [left; reflexivity
                               | first [intros _; reflexivity | intros HH; discriminate HH | intros HH; exact HH]]]
      | solve [eexists; split; [right; left; reflexivity
                               | first [intros _; reflexivity | intros HH; discriminate HH | intros HH; exact HH]]]
      | solve [eexists; left; reflexivity]
      | solve [eexists; right; left; reflexivity]
      | solve [intros; reflexivity] ].

  Ltac stepB :=
    first
      [ apply JB_ret
      | apply JB_pop_sub
      | apply JB_patch
      | apply JB_push_instr; solve [side]
      | apply JB_push_string; [solve [side] | solve [side]]
      | apply JB_scope_end; solve [side]
      | apply JB_read_var_card; solve [side]
      | apply JB_bind_loop_var; solve [side]
      | apply JB_emit_upvalues; solve [side]
      | apply JB_process_leaf; [reflexivity | solve [side]]
      | match goal with H : card_jb _ ?c |- JB _ _ _ _ _ _ (process_card ?c) => apply H end
      | eapply JB_with_sub; [reflexivity|]
      | apply JB_push_sub; reflexivity
      | apply JB_subexpr; [assumption | intros ? ? Hk; cbn; exact Hk]
      | apply JB_encode_if_then; [solve [side] | solve [side] |]
      | jframe
      | match goal with |- JB _ _ _ _ _ _ (bind _ _) => eapply JB_bind; [|intros ?] end ].

  Lemma process_card_jb c : card_jb cards c.
  Proof.
    induction c using card_ind'; intros idx ctx; apply JB_close; cbn [process_card].
    - (* CBin *) destruct op; repeat stepB.
    - destruct op; repeat stepB.
    - destruct op; repeat stepB.
    - repeat stepB.
    - repeat stepB.
    - repeat stepB.
    - repeat stepB.
    - repeat stepB.
    - repeat stepB.
    - repeat stepB.
    - repeat stepB.
    - repeat stepB.
    - repeat stepB.
    - (* CCallNative *) repeat stepB.
    - (* CCall *) repeat stepB.
    - (* CDynamicCall *)
      eapply JB_bind; [stepB | intros _].
      eapply JB_bind.
      { apply JB_subexpr; [assumption|]. intros k x Hk. unfold CardEdit.get_child.
        change (N.to_nat 1 + k)%nat with (S k). cbn [Nat.eqb Nat.sub]. rewrite Nat.sub_0_r. exact Hk. }
      intros _. repeat stepB.
    - (* CSetGlobalVar *)
      eapply JB_bind; [stepB | intros _]. eapply JB_bind; [repeat stepB | intros _].
      destruct (is_empty n); [jframe|]. repeat stepB.
    - (* CSetVar *)
      eapply JB_bind; [stepB | intros _]. eapply JB_bind; [repeat stepB | intros _].
      destruct (rsplit_once_c c_dot n) as [[rp sp]|]; [repeat stepB|].
      eapply JB_bind; [jframe | intros var]. destruct var; repeat stepB.
    - (* CRepeat *) repeat stepB.
    - (* CForEach *) repeat stepB.
    - (* CComposite *) repeat stepB.
    - (* CArray *)
      eapply JB_bind; [stepB | intros _]. eapply JB_bind; [stepB | intros _].
      eapply JB_bind; [stepB | intros tv]. eapply JB_bind; [stepB | intros _].
      eapply JB_bind; [|intros _; stepB].
      apply JB_array_items; [side | assumption|]. intros k x Hk. cbn. exact Hk.
    - (* CClosure *) repeat stepB.
  Qed.
End Cards.
