(* C18: the hypotheses of the generic native theorems and of the registry theorems are satisfiable: concrete,
   non-trivial inputs, evaluated with vm_compute. *)
From Coq Require Import NArith ZArith List Lia Bool.
From Cao Require Import ListUtil Bits Stacks StacksProofs Vm VmProofs VmNativeProofs VmNativeMenu VmNativeMenuProofs
  VmRegistry VmRegistryProofs.
Import ListNotations.

(* a stand-in for binary64 that computes quickly (the theorems are generic in the float instance) *)
Definition toy_ops : fops :=
  mkFops N.add N.sub N.mul N.div (fun a b => Some (N.compare a b)) Z.to_N Z.of_N.

(* a program with one script function at position 3 under the label 77, ending in Exit *)
Definition w_prog : program := mkProgram [22; 22; 22; 22; 10]%N [] [(77%N, 3%N)] [] [] [].
Definition w_re : N -> state -> rres := fun _ s => ROk s.

(* heap: a string "ab", a table with one key, a script function of arity 1; value stack  [nil; 5; 7.0; nil; "ab"] *)
Definition w_heap : heap :=
  [OStr [97; 98]%N; OTable (mkTable [(VInt 1, VInt 2)] [VInt 1]); OFun 77 1].
Definition w_push (vs : list value) : state :=
  fold_left (fun s v => match spush s v with Some s' => s' | None => s end) vs (set_heap fresh_state w_heap).

Definition w_t4 : state := w_push [VNil; VInt 5; VReal 7; VNil; VObj 0].

(* C18_native_args_menu / _simple: t4(i64, f64, bool, &str) *)
Example native_args_menu_witness :
  stack_ok w_t4 /\ stack_of w_t4 = [VNil] ++ [VInt 5; VReal 7; VNil; VObj 0] /\
  length [VInt 5; VReal 7; VNil; VObj 0] = native_arity NT4 /\ simple_native NT4 = true /\
  (forall j, j < native_arity NT4 ->
     conv toy_ops (nth j (native_sig NT4) TyValue) (st_heap w_t4) (nth j [VInt 5; VReal 7; VNil; VObj 0] VNil)
     = CvOk (nth j [AInt 5; AReal 7; ABool false; AStr [97; 98]%N] ANone)) /\
  exists s', call_native_fuel toy_ops w_prog w_re 1 (handle_of_bytes name_t4) w_t4 = NOk VNil s' /\
             stack_of s' = [VNil; VNil] /\
             st_log s' = [[TInt 5; TReal 7; TInt 0; TStr [97; 98]%N]].
Proof.
  split; [unfold stack_ok, vs_inv; vm_compute; lia|].
  split; [vm_compute; reflexivity|]. split; [reflexivity|]. split; [reflexivity|]. split.
  - intros [|[|[|[|j]]]] Hj; cbn [native_arity] in Hj; try lia; vm_compute; reflexivity.
  - eexists. vm_compute. repeat split.
Qed.

(* C18_conversion_error_menu: cat2(&str, &str) called with ("ab", 5): parameter 2 is named;
   called with (5, nil): parameter 2 again (converted first), not parameter 1 *)
Definition w_cat2 : state := w_push [VInt 9; VObj 0; VInt 5].
Definition w_cat2b : state := w_push [VInt 9; VInt 5; VNil].
Example native_conversion_error_menu_witness :
  stack_ok w_cat2 /\ stack_of w_cat2 = [VInt 9] ++ [VObj 0; VInt 5] /\ 1 < native_arity NCat2 /\
  conv toy_ops (nth 1 (native_sig NCat2) TyValue) (st_heap w_cat2) (nth 1 [VObj 0; VInt 5] VNil) = CvFail /\
  (exists s', call_native_fuel toy_ops w_prog w_re 1 (handle_of_bytes name_cat2) w_cat2
              = NErr (ETaskFailure name_cat2 (EConversion 2)) s' /\ stack_of s' = [VInt 9]) /\
  (exists s', call_native_fuel toy_ops w_prog w_re 1 (handle_of_bytes name_cat2) w_cat2b
              = NErr (ETaskFailure name_cat2 (EConversion 2)) s' /\ stack_of s' = [VInt 9]).
Proof.
  split; [unfold stack_ok, vs_inv; vm_compute; lia|].
  split; [vm_compute; reflexivity|]. split; [cbn; lia|]. split; [vm_compute; reflexivity|].
  split; eexists; vm_compute; split; reflexivity.
Qed.

(* C18_reentrant_args / C18_run_function_enters: call1(f, x) with f = the script function (heap object 2), x = 4,
   entered with the stack [9; f; 4]: the nested run starts at position 3 with the stack [9; f; 4; 4] and two frames
   whose offset is 3 (the callee's parameter is the pushed 4) *)
Definition w_call1 : state := w_push [VInt 9; VObj 2; VInt 4].
Definition w_spy : N -> state -> rres :=
  fun ip s => RErr (EVarNotFound (Some [ip; N.of_nat (length (stack_of s)); N.of_nat (length (st_calls s));
                                        match st_calls s with f :: _ => fr_off f | [] => 99%N end])) ip s.
Example reentrant_args_witness :
  pushes_arg NCall1 = true /\ stack_ok w_call1 /\ stack_of w_call1 = [VInt 9] ++ [VObj 2; VInt 4] /\
  S (length [VInt 9] + 2) < length (vdata (st_stack w_call1)) /\
  hget (st_heap w_call1) 2 = Some (callee_obj false 77 1 []) /\ assoc 77%N (p_labels w_prog) = Some 3%N /\
  S (length (st_calls w_call1)) < call_stack_size /\ (code_len w_prog <> 0)%N /\
  exists s', call_native_fuel toy_ops w_prog w_spy 1 (handle_of_bytes name_call1) w_call1
             = NErr (ETaskFailure name_call1 (EVarNotFound (Some [3; 4; 2; 3]%N))) s' /\
             stack_of s' = [VInt 9; VObj 2] /\ st_calls s' = [].
Proof.
  split; [reflexivity|]. split; [unfold stack_ok, vs_inv; vm_compute; lia|].
  split; [vm_compute; reflexivity|]. split; [vm_compute; lia|]. split; [reflexivity|]. split; [reflexivity|].
  split; [vm_compute; lia|]. split; [vm_compute; discriminate|].
  eexists. vm_compute. repeat split.
Qed.

(* C18_std_natives_kept / C18_registry_answers / C18_colliding_name_rejected: a history with reserved, accepted,
   repeated and colliding names *)
Definition w_ops : list (list N * hostfn) :=
  [([95; 95; 109; 105; 110]%N, UserFn 1);        (* "__min": reserved *)
   ([102]%N, UserFn 2);                          (* "f" *)
   (name_collides_min, UserFn 5);                (* "tuewgsg": the handle of __min is held by another name *)
   ([95; 120]%N, UserFn 3);                      (* "_x": accepted *)
   ([102]%N, UserFn 4)].                         (* "f" again: replaces *)
Example std_natives_kept_witness :
  In NStdMin std_natives /\ In (name_collides_min, NStdMin) collisions /\
  snd (run_public vm_new_registry w_ops) = [RegRejected; RegOk; RegCollides; RegOk; RegOk] /\
  reg_get (fst (run_public vm_new_registry w_ops)) (handle_of_bytes [102]%N) = Some (mkProc [102]%N (UserFn 4)) /\
  reg_get (fst (run_public vm_new_registry w_ops)) (handle_of_bytes name_min) = Some (mkProc name_min (StdFn NStdMin)) /\
  last_ok w_ops (snd (run_public vm_new_registry w_ops)) (handle_of_bytes name_min) = None.
Proof. cbn [std_natives collisions In]. repeat split; try tauto; vm_compute; reflexivity. Qed.

(* C18_reentry_balanced_straightline: callee (arity 1) = ScalarNil; CopyLast; Pop; Return at position 0, called by a
   host function through run_function with the stack [9; f] ++ [4] *)
From Cao Require Import VmReentryPushes.
Definition w_prog2 : program := mkProgram [7; 9; 16; 22; 10]%N [] [(77%N, 0%N)] [] [] [].
Definition w_bal : state := set_rem (w_push [VInt 9; VObj 2; VInt 4]) 100.
Example reentry_balanced_straightline_witness :
  stack_ok w_bal /\ stack_of w_bal = [VInt 9; VObj 2] ++ [VInt 4] /\ length [VInt 4] = N.to_nat 1 /\
  hget (st_heap w_bal) 2 = Some (callee_obj false 77 1 []) /\ assoc 77%N (p_labels w_prog2) = Some 0%N /\
  S (length (st_calls w_bal)) < call_stack_size /\ (code_len w_prog2 <> 0)%N /\
  nth (N.to_nat (last_pos w_prog2)) (p_code w_prog2) 255%N = 10%N /\ st_open w_bal = None /\
  body_height [7; 9; 16]%N (length [VInt 4]) = Some (S 1) /\
  (forall i, i < 3 -> nth (N.to_nat 0 + i) (p_code w_prog2) 255%N = nth i [7; 9; 16]%N 255%N) /\
  nth (N.to_nat 0 + 3) (p_code w_prog2) 255%N = 22%N /\ N.to_nat 0 + 3 < length (p_code w_prog2) /\
  (N.of_nat 3 + 3 <= st_rem w_bal)%N /\ length [VInt 9; VObj 2] + 1 + 3 + 1 < cap w_bal /\
  exists s', run_function w_prog2 (fun ip st => loop toy_ops Debug w_prog2 w_re (3 + 2) ip st)
                          (fun _ st => NStop AUnmodelled st) (VObj 2) w_bal = NOk VNil s' /\
             stack_of s' = [VInt 9; VObj 2] /\ st_calls s' = [].
Proof.
  split; [unfold stack_ok, vs_inv; vm_compute; lia|].
  repeat (split; [first [reflexivity | vm_compute; lia | vm_compute; discriminate
                         | (intros [|[|[|i]]] Hi; [reflexivity|reflexivity|reflexivity|lia])]|]).
  eexists. vm_compute. repeat split.
Qed.
