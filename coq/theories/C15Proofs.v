(* C15, run-time half: which trace the VM model (Vm.v) reports when a run fails.

   - loop_error_at        : the dispatch loop returns  RErr e a s'  only when it reached address [a] by successfully
                            executed instructions and (i) the instruction that STARTS at [a] failed with [e], leaving
                            the machine in [s'], or (ii) the budget ran out before dispatching it, or (iii) [a] is past
                            the end of the code: errors carry the address of the failing instruction itself.
   - step_frames_ok       : one instruction (every opcode, every native of the menu, re-entry included) keeps the
                            invariant "the source address of every call frame is 0 (the frame of Vm::run), or the
                            address of a CallFunction instruction, or the position of a label (the two frames of
                            Vm::run_function record the callee's first instruction, A-32)".
   - error_trace_shape    : for `run`: the reported trace is  [trace(a)] ++ [trace(src f) | f <- frames, top first]
                            filtered to existing entries, where [a] and [frames] are as above and every src is of one
                            of the three kinds.
   - nested_error_keeps_payload_only
                          : Vm::run_function turns a failed nested run into  NErr e s''  where the call stack of s''
                            is the one run_function started with (behind the frames the nested run left): neither
                            the address nor the frames of the nested failure survive (known class 12 of C15Check). *)
From Coq Require Import NArith ZArith List Lia Bool.
From Cao Require Import ListUtil Bits Stacks Vm VmProofs.
Import ListNotations.

Set Implicit Arguments.

(* ------------------------------------------------------------------ *)
(* 1. the address of an error                                          *)
(* ------------------------------------------------------------------ *)

(* the budget bookkeeping at the head of every round of `_run` *)
Definition dec (s : state) : state := set_rem s (N.pred (st_rem s)).

Section ErrorAt.
  Variable F : fops.
  Variable bld : build.
  Variable P : program.
  Variable reenter : N -> state -> rres.

  (* [reaches ip s ip' s']: from (ip, s) the loop gets to (ip', s') by instructions that all succeeded *)
  Inductive reaches : N -> state -> N -> state -> Prop :=
  | reaches_refl : forall ip s, reaches ip s ip s
  | reaches_step : forall ip s ip1 s1 ip2 s2,
      (ip < code_len P)%N -> st_rem (dec s) <> 0%N ->
      step F bld P reenter ip (tick (dec s)) = SNext ip1 s1 ->
      reaches ip1 s1 ip2 s2 -> reaches ip s ip2 s2.

  (* what happens at address [a] in state [s0] to produce error [e] and final state [s'] *)
  Inductive fails_at (a : N) (s0 : state) (e : err) (s' : state) : Prop :=
  | fail_end : (code_len P <= a)%N -> e = EUnexpectedEndOfInput -> s' = s0 -> fails_at a s0 e s'
  | fail_timeout : (a < code_len P)%N -> st_rem (dec s0) = 0%N -> e = ETimeout -> s' = dec s0 ->
                   fails_at a s0 e s'
  | fail_instr : forall ip', (a < code_len P)%N -> st_rem (dec s0) <> 0%N ->
                 step F bld P reenter a (tick (dec s0)) = SErr e ip' s' -> fails_at a s0 e s'.

  Theorem loop_error_at : forall fuel ip s e a s',
    loop F bld P reenter fuel ip s = RErr e a s' ->
    exists s0, reaches ip s a s0 /\ fails_at a s0 e s'.
  Proof.
    induction fuel as [|f IH]; intros ip s e a s' H.
    - cbn [loop] in H. destruct (code_len P <=? ip)%N eqn:El.
      + inversion H; subst. exists s'. split; [constructor|]. apply fail_end; auto. apply N.leb_le; exact El.
      + apply N.leb_gt in El. fold (dec s) in H.
        destruct (st_rem (dec s) =? 0)%N eqn:E0; [|discriminate].
        inversion H; subst. exists s. split; [constructor|]. apply fail_timeout; auto. apply N.eqb_eq; exact E0.
    - cbn [loop] in H. destruct (code_len P <=? ip)%N eqn:El.
      + inversion H; subst. exists s'. split; [constructor|]. apply fail_end; auto. apply N.leb_le; exact El.
      + apply N.leb_gt in El. fold (dec s) in H.
        destruct (st_rem (dec s) =? 0)%N eqn:E0.
        * inversion H; subst. exists s. split; [constructor|]. apply fail_timeout; auto. apply N.eqb_eq; exact E0.
        * apply N.eqb_neq in E0.
          destruct (step F bld P reenter ip (tick (dec s))) as [ip1 s1|s1|e1 ip1 s1|ab s1] eqn:Es; try discriminate.
          -- destruct (IH _ _ _ _ _ H) as (s0 & Hr & Hf). exists s0. split; [|exact Hf].
             eapply reaches_step; eauto.
          -- inversion H; subst. exists s. split; [constructor|]. eapply fail_instr; eauto.
  Qed.
End ErrorAt.

(* ------------------------------------------------------------------ *)
(* 2. the source addresses of the call frames                          *)
(* ------------------------------------------------------------------ *)

Section Frames.
  Variable F : fops.
  Variable bld : build.
  Variable P : program.

  (* a predicate on source addresses that holds of label positions and of CallFunction instructions *)
  Variable okS : N -> Prop.
  Hypothesis ok_label : forall label pos, assoc label (p_labels P) = Some pos -> okS pos.
  Hypothesis ok_call : forall ip0, nth (N.to_nat ip0) (p_code P) 255%N = 11%N -> okS ip0.

  Definition Q (l : list frame) : Prop := Forall (fun f => okS (fr_src f)) l.
  Definition frames_ok (s : state) : Prop := Q (st_calls s).

  Definition rres_ok (r : rres) : Prop :=
    match r with ROk s' | RErr _ _ s' | RStop _ s' => frames_ok s' end.
  Definition sres_ok (r : sres) : Prop :=
    match r with SNext _ s' | SExit s' | SErr _ _ s' | SStop _ s' => frames_ok s' end.
  Definition nres_ok (r : nres) : Prop :=
    match r with NOk _ s' | NErr _ s' | NStop _ s' => frames_ok s' end.

  Variable reenter : N -> state -> rres.
  Hypothesis reenter_ok : forall ip s, frames_ok s -> rres_ok (reenter ip s).

  Lemma Q_skipn n l : Q l -> Q (skipn n l).
  Proof.
    unfold Q. revert l. induction n as [|n IH]; intros l H; cbn [skipn]; [exact H|].
    destruct l as [|x l]; [constructor|]. inversion H; subst. apply IH; assumption.
  Qed.

  (* helpers leave the call stack alone *)
  Lemma spush_calls s v s1 : spush s v = Some s1 -> st_calls s1 = st_calls s.
  Proof. unfold spush. destruct (vs_push _ _) as [k []]; intros H; inversion H; reflexivity. Qed.
  Lemma spop_calls s s1 v : spop s = (s1, v) -> st_calls s1 = st_calls s.
  Proof. unfold spop. destruct (vs_pop _ _); intros H; inversion H; reflexivity. Qed.
  Lemma sset_calls s i v s1 : sset s i v = Some s1 -> st_calls s1 = st_calls s.
  Proof. unfold sset. destruct (vs_step _ _ _) as [k []]; intros H; inversion H; reflexivity. Qed.
  Lemma sclear_until_calls s h s1 v : sclear_until s h = (s1, v) -> st_calls s1 = st_calls s.
  Proof. unfold sclear_until. destruct (vs_step _ _ _) as [k []]; intros H; inversion H; reflexivity. Qed.
  Lemma spop_w_offset_calls s h s1 v : spop_w_offset s h = (s1, v) -> st_calls s1 = st_calls s.
  Proof. unfold spop_w_offset. destruct (vs_step _ _ _) as [k []]; intros H; inversion H; reflexivity. Qed.
  Lemma salloc_calls s o s1 a : salloc s o = (s1, a) -> st_calls s1 = st_calls s.
  Proof. unfold salloc, halloc. intros H; inversion H; reflexivity. Qed.
  Lemma write_local_calls s off h v s1 : write_local s off h v = Some s1 -> st_calls s1 = st_calls s.
  Proof. apply sset_calls. Qed.
  Lemma push_frame_calls s f s1 : push_frame s f = Some s1 -> st_calls s1 = f :: st_calls s.
  Proof. unfold push_frame. destruct (_ <=? _); intros H; inversion H; reflexivity. Qed.

  Ltac note_calls :=
    repeat match goal with
           | H : spush _ _ = Some _ |- _ => apply spush_calls in H
           | H : spop _ = (_, _) |- _ => apply spop_calls in H
           | H : sset _ _ _ = Some _ |- _ => apply sset_calls in H
           | H : sclear_until _ _ = (_, _) |- _ => apply sclear_until_calls in H
           | H : spop_w_offset _ _ = (_, _) |- _ => apply spop_w_offset_calls in H
           | H : salloc _ _ = (_, _) |- _ => apply salloc_calls in H
           | H : write_local _ _ _ _ = Some _ |- _ => apply write_local_calls in H
           | H : push_frame _ _ = Some _ |- _ => apply push_frame_calls in H
           end.

  Ltac calls_cbn :=
    cbn [st_calls set_stack set_calls set_globals set_heap set_open set_log set_rem set_table log_push sraw_set
         spop_n tick sres_ok nres_ok rres_ok fst snd] in *.
  Ltac calls_simpl := calls_cbn; unfold frames_ok in *; calls_cbn.

  (* close  frames_ok s'  from the collected equalities *)
  Ltac calls_close :=
    note_calls; calls_simpl;
    repeat match goal with
           | H : st_calls ?a = st_calls ?b |- _ => rewrite H in *; clear H
           | H : st_calls ?a = ?f :: st_calls ?b |- _ => rewrite H in *; clear H
           end;
    calls_simpl;
    first [ assumption | exact I
          | (repeat (apply Forall_cons; [solve [auto]|]); assumption) ].

  Lemma close_upvalues_go_calls fuel top s :
    match close_upvalues_go fuel top s with
    | ClOk s' | ClErr _ s' | ClStop _ s' => st_calls s' = st_calls s
    end.
  Proof.
    revert s. induction fuel as [|f IH]; intros s; cbn [close_upvalues_go]; [reflexivity|].
    destruct (st_open s) as [a|]; [|reflexivity].
    destruct (hget (st_heap s) a) as [[t|b|h ar|h|h ar ups|u]|]; try reflexivity.
    destruct (u_loc u) as [l|]; [|reflexivity].
    destruct (l <? top); [reflexivity|].
    match goal with |- match close_upvalues_go f top ?s1 with _ => _ end => specialize (IH s1) end.
    destruct (close_upvalues_go f top _); cbn in IH; exact IH.
  Qed.
  Lemma close_upvalues_from_calls top s :
    match close_upvalues_from top s with
    | ClOk s' | ClErr _ s' | ClStop _ s' => st_calls s' = st_calls s
    end.
  Proof. apply close_upvalues_go_calls. Qed.

  Lemma push_next_ok ip s v : frames_ok s -> sres_ok (push_next ip s v).
  Proof. unfold push_next. intros H. destruct (spush s v) eqn:E; calls_close. Qed.

  Lemma of_vres_ok ip s r : frames_ok s -> sres_ok (of_vres ip s r).
  Proof. intros H. destruct r; cbn [of_vres]; try apply push_next_ok; calls_close. Qed.

  Lemma binary_op_ok ip s op : frames_ok s -> sres_ok (binary_op ip s op).
  Proof.
    intros H. unfold binary_op. destruct (spop s) as [s1 b] eqn:E1. destruct (spop s1) as [s2 a] eqn:E2.
    apply of_vres_ok. calls_close.
  Qed.

  (* run_function: the two frames it pushes record the position of the callee's label; they are gone afterwards *)
  Lemma run_function_ok (cn : N -> state -> nres) :
    (forall h s, frames_ok s -> nres_ok (cn h s)) ->
    forall fv s, frames_ok s -> nres_ok (run_function P reenter cn fv s).
  Proof.
    intros Hcn fv s Hs. unfold run_function.
    destruct fv as [|z|r|a]; try calls_close.
    destruct (hget (st_heap s) a) as [o|]; [|calls_close].
    assert (Hgo : forall arity label clo,
      nres_ok
        (if (code_len P =? 0)%N then NStop APanic s
         else match assoc label (p_labels P) with
              | None => NErr (EProcedureNotFound label) s
              | Some src =>
                  let len := N.of_nat (scount s) in
                  if (len <? arity)%N then NErr EMissingArgument s
                  else
                    let f := mkFrame src (last_pos P) (len - arity) clo in
                    match push_frame s f with
                    | None => NErr ECallStackOverflow s
                    | Some s1 =>
                        match push_frame s1 f with
                        | None => NErr ECallStackOverflow s
                        | Some s2 =>
                            let depth := length (st_calls s) in
                            let unwind (x : state) :=
                              set_calls x (skipn (length (st_calls x) - depth) (st_calls x)) in
                            match reenter src s2 with
                            | ROk s3 => let '(s5, v) := spop (unwind s3) in NOk v s5
                            | RErr e _ s3 => NErr e (unwind s3)
                            | RStop ab s3 => NStop ab s3
                            end
                        end
                    end
              end)).
    { intros arity label clo.
      destruct (code_len P =? 0)%N; [calls_close|].
      destruct (assoc label (p_labels P)) as [src|] eqn:El; [|calls_close].
      pose proof (ok_label _ El) as Hsrc.
      cbv zeta. destruct (_ <? _)%N; [calls_close|].
      destruct (push_frame s _) as [s1|] eqn:E1; [|calls_close].
      destruct (push_frame s1 _) as [s2|] eqn:E2; [|calls_close].
      assert (H2 : frames_ok s2).
      { apply push_frame_calls in E1. apply push_frame_calls in E2. unfold frames_ok, Q. rewrite E2, E1.
        repeat (apply Forall_cons; [exact Hsrc|]). exact Hs. }
      pose proof (reenter_ok src H2) as Hr.
      destruct (reenter src s2) as [s3|e ip3 s3|ab s3]; cbn [rres_ok] in Hr.
      - destruct (spop _) as [s5 v] eqn:E5. apply spop_calls in E5. cbn [nres_ok]. unfold frames_ok.
        rewrite E5. cbn [st_calls set_calls]. apply Q_skipn. exact Hr.
      - cbn [nres_ok]. unfold frames_ok. cbn [st_calls set_calls]. apply Q_skipn. exact Hr.
      - exact Hr. }
    destruct o; try apply Hgo; try calls_close.
    pose proof (Hcn h s Hs) as Hc. destruct (cn h s) as [v s1|e s1|ab s1]; cbn [nres_ok] in Hc |- *.
    - destruct (spop s1) as [s2 v2] eqn:E. calls_close.
    - calls_close.
    - calls_close.
  Qed.

  Section StdOk.
    Variable self : N -> state -> nres.
    Hypothesis Hrf : forall fv s, frames_ok s -> nres_ok (run_function P reenter self fv s).

    Lemma minmax_go_ok less key_fn : forall l j i best s, frames_ok s ->
      match minmax_go F P reenter self less key_fn l j i best s with
      | MMOk _ s' => frames_ok s'
      | MMFail r => nres_ok r
      end.
    Proof.
      induction l as [|[k v] rest IH]; intros j i best s Hc; cbn [minmax_go]; [exact Hc|].
      destruct (spush s v) as [s1|] eqn:E1; [|calls_close].
      destruct (spush s1 k) as [s2|] eqn:E2; [|calls_close].
      assert (H2 : frames_ok s2) by calls_close.
      pose proof (Hrf key_fn H2) as H.
      destruct (run_function P reenter self key_fn s2) as [key s3|e s3|ab s3]; cbn [nres_ok] in H; try exact H.
      destruct (vcmp F (st_heap s3) key best) as [[]| |]; cbv beta iota zeta; cbn [nres_ok]; try exact H;
        destruct less; cbn [negb]; cbv beta iota; apply IH; exact H.
    Qed.

    Lemma make_row_ok s k v : frames_ok s -> nres_ok (make_row F s k v).
    Proof.
      intros Hc. unfold make_row.
      destruct (salloc s _) as [s3 row] eqn:E3. destruct (salloc s3 _) as [s4 ka] eqn:E4.
      destruct (tinsert _ _ _ k); [|calls_close].
      destruct (salloc s4 _) as [s5 va] eqn:E5.
      destruct (tinsert _ _ _ v); calls_close.
    Qed.

    Lemma snapshot_calls s t s' ct : snapshot F s t = Some (s', ct) -> st_calls s' = st_calls s.
    Proof.
      unfold snapshot. destruct (titer _ t) as [l|]; [|discriminate].
      destruct (salloc s _) as [s1 c] eqn:E1. destruct (insert_pairs _ _ l) as [ct'|]; [|discriminate].
      intros H. injection H as <- <-. apply salloc_calls in E1. cbn. exact E1.
    Qed.

    Lemma native_minmax_ok less it kf s0 : frames_ok s0 -> nres_ok (native_minmax F P reenter self less it kf s0).
    Proof.
      intros Hs0. unfold native_minmax. destruct it; try calls_close.
      destruct (hget (st_heap s0) a) as [[t| | | | |]|]; try calls_close.
      destruct (snapshot F s0 t) as [[s entries]|] eqn:Esn; [|calls_close].
      assert (Hs : frames_ok s) by (apply snapshot_calls in Esn; unfold frames_ok; rewrite Esn; exact Hs0).
      clear Esn.
      destruct (titer _ entries) as [[|[k0 v0] rest]|]; try calls_close.
      destruct (spush s v0) as [s1|] eqn:E1; [|calls_close].
      destruct (spush s1 k0) as [s2|] eqn:E2; [|calls_close].
      assert (H2 : frames_ok s2) by calls_close.
      pose proof (Hrf kf H2) as H.
      destruct (run_function P reenter self kf s2) as [key0 s3|e s3|ab s3]; cbn [nres_ok] in H; try exact H.
      pose proof (@minmax_go_ok less kf rest 1 0 key0 s3 H) as Hm.
      destruct (minmax_go F P reenter self less kf rest 1 0 key0 s3) as [i s4|r]; [|exact Hm].
      destruct (tget _ entries _); [|cbn [nres_ok]; exact Hm].
      apply make_row_ok. exact Hm.
    Qed.

    Lemma sort_keys_ok kf : forall l s, frames_ok s ->
      match sort_keys P reenter self kf l s with
      | SKOk _ s' => frames_ok s'
      | SKFail r => nres_ok r
      end.
    Proof.
      induction l as [|[k v] rest IH]; intros s Hc; cbn [sort_keys]; [exact Hc|].
      destruct (spush s v) as [s1|] eqn:E1; [|calls_close].
      destruct (spush s1 k) as [s2|] eqn:E2; [|calls_close].
      assert (H2 : frames_ok s2) by calls_close.
      pose proof (Hrf kf H2) as H.
      destruct (run_function P reenter self kf s2) as [key s3|e s3|ab s3]; cbn [nres_ok] in H; try exact H.
      specialize (IH s3 H).
      destruct (sort_keys P reenter self kf rest s3); exact IH.
    Qed.

    Lemma native_sorted_ok it kf s0 : frames_ok s0 -> nres_ok (native_sorted F P reenter self it kf s0).
    Proof.
      intros Hs0. unfold native_sorted. destruct it; try calls_close.
      destruct (hget (st_heap s0) a) as [[t| | | | |]|]; try calls_close.
      destruct (snapshot F s0 t) as [[s entries]|] eqn:Esn; [|calls_close].
      assert (Hs : frames_ok s) by (apply snapshot_calls in Esn; unfold frames_ok; rewrite Esn; exact Hs0).
      clear Esn.
      destruct (titer _ entries) as [l|]; [|calls_close].
      pose proof (@sort_keys_ok kf l s Hs) as Hk.
      destruct (sort_keys P reenter self kf l s) as [keyed s1|r]; [|exact Hk].
      destruct (stable_sort _ _ _ _); [|cbn [nres_ok]; exact Hk].
      destruct (salloc s1 _) as [s2 out] eqn:E2.
      destruct (insert_all _ _ _); calls_close.
    Qed.
  End StdOk.

  Lemma native_body_ok (self : N -> state -> nres) :
    (forall h s, frames_ok s -> nres_ok (self h s)) ->
    forall n s, frames_ok s -> nres_ok (native_body F P reenter self n s).
  Proof.
    intros Hself n s Hs.
    pose proof (@run_function_ok self Hself) as Hrf.
    destruct n; cbn [native_body]; cbv zeta.
    - (* log1 *) calls_close.
    - (* sub2 *) destruct (to_i64 _ _ _); [|calls_close]. destruct (to_i64 _ _ _); calls_close.
    - calls_close.
    - (* str1 *) destruct (as_str _ _); calls_close.
    - (* mix3 *) destruct (to_i64 _ _ _); [|calls_close]. destruct (to_f64 _ _ _); calls_close.
    - (* call1 *)
      destruct (spush s _) as [s1|] eqn:E1; [|calls_close].
      assert (H1 : frames_ok s1) by calls_close.
      pose proof (Hrf (speek s 1) s1 H1) as H. destruct (run_function _ _ _ _ s1); calls_close.
    - (* try1 *)
      destruct (spush s _) as [s1|] eqn:E1; [|calls_close].
      assert (H1 : frames_ok s1) by calls_close.
      pose proof (Hrf (speek s 1) s1 H1) as H. destruct (run_function _ _ _ _ s1); calls_close.
    - (* call0 *)
      pose proof (Hrf (speek s 0) s Hs) as H. destruct (run_function _ _ _ _ s); calls_close.
    - (* t4 *) destruct (as_str _ _); try calls_close.
      destruct (as_bool _ _ _); [|calls_close]. destruct (to_f64 _ _ _); [|calls_close]. destruct (to_i64 _ _ _); calls_close.
    - (* nil1 *) destruct (speek s 0); try calls_close; destruct (to_i64 _ _ _); calls_close.
    - (* tab1 *) destruct (get_table _ _); calls_close.
    - (* cat2 *) destruct (as_str _ _); try calls_close. destruct (as_str _ _); calls_close.
    - (* rb1 *)
      destruct (spush s _) as [s1|] eqn:E1; [|calls_close].
      assert (H1 : frames_ok s1) by calls_close.
      pose proof (Hrf (speek s 1) s1 H1) as H. destruct (run_function _ _ _ _ s1); calls_close.
    - apply native_minmax_ok; [exact Hrf|exact Hs].
    - apply native_minmax_ok; [exact Hrf|exact Hs].
    - apply native_sorted_ok; [exact Hrf|exact Hs].
    - (* to_array *)
      destruct (speek s 0); try calls_close.
      destruct (hget _ _) as [[]|]; try calls_close.
      destruct (salloc s _) as [s2 out] eqn:E2.
      destruct (titer _ _); [|calls_close].
      destruct (to_array_go _ _ _ _); calls_close.
  Qed.

  Lemma call_native_fuel_ok fuel : forall h s, frames_ok s -> nres_ok (call_native_fuel F P reenter fuel h s).
  Proof.
    induction fuel as [|f IH]; intros h s Hs; cbn [call_native_fuel]; [calls_close|].
    destruct (find_native h all_natives) as [n|]; [|calls_close].
    pose proof (@native_body_ok _ IH n s Hs) as H.
    destruct (native_body _ _ _ _ n s) as [v s1|e s1|ab s1]; cbn [nres_ok] in H.
    - cbv zeta. destruct (spush _ v) eqn:E; calls_close.
    - calls_close.
    - calls_close.
  Qed.

  Lemma native_step_ok h ip s : frames_ok s -> sres_ok (native_step F P reenter h ip s).
  Proof.
    intros Hs. unfold native_step, call_native. pose proof (call_native_fuel_ok 8 h Hs) as H.
    destruct (call_native_fuel _ _ _ _ h s); calls_close.
  Qed.

  Ltac step_tac :=
    repeat match goal with
           | |- sres_ok (binary_op _ _ _) => apply binary_op_ok
           | |- sres_ok (push_next _ _ _) => apply push_next_ok
           | |- sres_ok (native_step _ _ _ _ _ _) => apply native_step_ok
           | |- sres_ok (match ?x with _ => _ end) => destruct x eqn:?
           end;
    try calls_close.

  Ltac instr d := intros opc ip0 ip s Hs; unfold d; cbv zeta; step_tac.

  Lemma i_4_ok : forall opc ip0 ip s, frames_ok s -> sres_ok (i_4 F P reenter opc ip0 ip s). Proof. instr i_4. Qed.
  Lemma i_5_ok : forall opc ip0 ip s, frames_ok s -> sres_ok (i_5 P opc ip0 ip s). Proof. instr i_5. Qed.
  Lemma i_6_ok : forall opc ip0 ip s, frames_ok s -> sres_ok (i_6 P opc ip0 ip s). Proof. instr i_6. Qed.
  Lemma i_8_ok : forall opc ip0 ip s, frames_ok s -> sres_ok (i_8 P opc ip0 ip s). Proof. instr i_8. Qed.

  (* CallFunction: the caller's frame keeps its source, the new frame records the address of this instruction *)
  Lemma i_11_ok : forall opc ip0 ip s, okS ip0 -> frames_ok s -> sres_ok (i_11 F P reenter opc ip0 ip s).
  Proof.
    intros opc ip0 ip s Hip Hs; unfold i_11; cbv zeta.
    destruct (spop s) as [s1 fv] eqn:E1.
    assert (H1 : frames_ok s1) by calls_close.
    destruct fv as [|z|r|a]; try calls_close.
    destruct (hget (st_heap s1) a) as [o|]; [|calls_close].
    assert (Hgo : forall arity label clo,
      sres_ok
        match st_calls s1 with
        | [] => SStop APanic s1
        | top :: rest =>
            let s2 := set_calls s1 (mkFrame (fr_src top) ip (fr_off top) (fr_clo top) :: rest) in
            let len := N.of_nat (scount s2) in
            if (len <? arity)%N then SErr EMissingArgument ip s2
            else
              match push_frame s2 (mkFrame ip0 ip (len - arity) clo) with
              | None => SErr ECallStackOverflow ip s2
              | Some s3 =>
                  match assoc label (p_labels P) with
                  | None => SErr (EProcedureNotFound label) ip s3
                  | Some pos => SNext pos s3
                  end
              end
        end).
    { intros arity label clo. unfold frames_ok, Q in H1.
      destruct (st_calls s1) as [|top rest] eqn:Ec; [cbn [sres_ok]; unfold frames_ok, Q; rewrite Ec; constructor|].
      inversion H1 as [|? ? Htop Hrest]; subst.
      cbv zeta.
      assert (H2 : frames_ok (set_calls s1 (mkFrame (fr_src top) ip (fr_off top) (fr_clo top) :: rest))).
      { unfold frames_ok, Q. cbn [st_calls set_calls]. apply Forall_cons; [exact Htop|exact Hrest]. }
      destruct (_ <? _)%N; [exact H2|].
      destruct (push_frame _ _) as [s3|] eqn:E3; [|exact H2].
      apply push_frame_calls in E3.
      assert (H3 : frames_ok s3).
      { unfold frames_ok, Q. rewrite E3. apply Forall_cons; [exact Hip|exact H2]. }
      destruct (assoc label (p_labels P)); exact H3. }
    destruct o; try apply Hgo; try calls_close.
    apply native_step_ok. exact H1.
  Qed.

  Lemma i_17_ok : forall opc ip0 ip s, frames_ok s -> sres_ok (i_17 P opc ip0 ip s). Proof. instr i_17. Qed.
  Lemma i_18_ok : forall opc ip0 ip s, frames_ok s -> sres_ok (i_18 P opc ip0 ip s). Proof. instr i_18. Qed.
  Lemma i_19_ok : forall opc ip0 ip s, frames_ok s -> sres_ok (i_19 P opc ip0 ip s). Proof. instr i_19. Qed.
  Lemma i_20_ok : forall opc ip0 ip s, frames_ok s -> sres_ok (i_20 P opc ip0 ip s). Proof. instr i_20. Qed.
  Lemma i_21_ok : forall opc ip0 ip s, frames_ok s -> sres_ok (i_21 opc ip0 ip s). Proof. instr i_21. Qed.

  (* Return pops a frame *)
  Lemma i_22_ok : forall opc ip0 ip s, frames_ok s -> sres_ok (i_22 opc ip0 ip s).
  Proof.
    intros opc ip0 ip s Hs; unfold i_22; cbv zeta.
    unfold frames_ok, Q in Hs.
    destruct (st_calls s) as [|fr rest] eqn:Ec; [cbn [sres_ok]; unfold frames_ok, Q; rewrite Ec; constructor|].
    inversion Hs as [|? ? Hfr Hrest]; subst.
    pose proof (close_upvalues_from_calls (N.to_nat (fr_off fr)) (set_calls s rest)) as Hcl.
    destruct (close_upvalues_from _ _) as [s2|e s2|a s2]; cbn [st_calls set_calls] in Hcl;
      try (cbn [sres_ok]; unfold frames_ok, Q; rewrite Hcl; exact Hrest).
    destruct (sclear_until s2 _) as [s3 v] eqn:E3. apply sclear_until_calls in E3.
    assert (H3 : frames_ok s3) by (unfold frames_ok, Q; rewrite E3, Hcl; exact Hrest).
    destruct rest as [|prev rest']; [exact H3|].
    apply push_next_ok. exact H3.
  Qed.

  Lemma i_23_ok : forall opc ip0 ip s, frames_ok s -> sres_ok (i_23 opc ip0 ip s). Proof. instr i_23. Qed.
  Lemma i_27_ok : forall opc ip0 ip s, frames_ok s -> sres_ok (i_27 F opc ip0 ip s). Proof. instr i_27. Qed.
  Lemma i_28_ok : forall opc ip0 ip s, frames_ok s -> sres_ok (i_28 bld P opc ip0 ip s). Proof. instr i_28. Qed.
  Lemma i_29_30_ok : forall opc ip0 ip s, frames_ok s -> sres_ok (i_29_30 F bld P opc ip0 ip s). Proof. instr i_29_30. Qed.
  Lemma i_31_ok : forall opc ip0 ip s, frames_ok s -> sres_ok (i_31 opc ip0 ip s). Proof. instr i_31. Qed.
  Lemma i_32_ok : forall opc ip0 ip s, frames_ok s -> sres_ok (i_32 F opc ip0 ip s). Proof. instr i_32. Qed.
  Lemma i_33_ok : forall opc ip0 ip s, frames_ok s -> sres_ok (i_33 F opc ip0 ip s). Proof. instr i_33. Qed.
  Lemma i_34_ok : forall opc ip0 ip s, frames_ok s -> sres_ok (i_34 opc ip0 ip s). Proof. instr i_34. Qed.
  Lemma i_35_ok : forall opc ip0 ip s, frames_ok s -> sres_ok (i_35 P opc ip0 ip s). Proof. instr i_35. Qed.
  Lemma i_36_ok : forall opc ip0 ip s, frames_ok s -> sres_ok (i_36 F bld P opc ip0 ip s). Proof. instr i_36. Qed.
  Lemma i_37_42_ok : forall opc ip0 ip s, frames_ok s -> sres_ok (i_37_42 P opc ip0 ip s). Proof. instr i_37_42. Qed.
  Lemma i_38_ok : forall opc ip0 ip s, frames_ok s -> sres_ok (i_38 P opc ip0 ip s). Proof. instr i_38. Qed.
  Lemma i_39_ok : forall opc ip0 ip s, frames_ok s -> sres_ok (i_39 F opc ip0 ip s). Proof. instr i_39. Qed.
  Lemma i_40_ok : forall opc ip0 ip s, frames_ok s -> sres_ok (i_40 F opc ip0 ip s). Proof. instr i_40. Qed.
  Lemma i_41_ok : forall opc ip0 ip s, frames_ok s -> sres_ok (i_41 F opc ip0 ip s). Proof. instr i_41. Qed.
  Lemma i_43_44_ok : forall opc ip0 ip s, frames_ok s -> sres_ok (i_43_44 P opc ip0 ip s).
  Proof.
    intros opc ip0 ip s Hs; unfold i_43_44; cbv zeta.
    destruct (op_u32 P ip); [|calls_close].
    destruct (opc =? 43)%N; cbv beta iota.
    - destruct (spop s) as [s1 wv] eqn:E. step_tac.
    - step_tac.
  Qed.
  Lemma i_45_ok : forall opc ip0 ip s, frames_ok s -> sres_ok (i_45 P opc ip0 ip s).
  Proof.
    intros opc ip0 ip s Hs; unfold i_45; cbv zeta.
    repeat match goal with
           | |- sres_ok (match ?x with _ => _ end) => destruct x eqn:?
           end;
    try calls_close.
    all: cbn [sres_ok st_calls set_heap]; unfold frames_ok; cbn [st_calls set_heap].
    all: repeat match goal with
                | |- context [match ?x with _ => _ end] => destruct x eqn:?
                end; calls_close.
  Qed.
  Lemma i_46_ok : forall opc ip0 ip s, frames_ok s -> sres_ok (i_46 P opc ip0 ip s).
  Proof.
    intros opc ip0 ip s Hs; unfold i_46; cbv zeta.
    destruct (op_u32 P ip) as [idx|]; [|calls_close].
    destruct (top_offset s) as [off|]; [|calls_close].
    pose proof (close_upvalues_from_calls (off + N.to_nat idx) s) as Hcl.
    destruct (close_upvalues_from _ _); calls_close.
  Qed.

  Theorem step_frames_ok : forall ip s, frames_ok s -> sres_ok (step F bld P reenter ip s).
  Proof.
    intros ip0 s Hs. unfold step. cbv zeta.
    destruct (nth (N.to_nat ip0) (p_code P) 255%N) as [|p] eqn:Eop; [apply binary_op_ok; exact Hs|].
    do 6 (try destruct p as [p|p|]).
    all: first
      [ (apply i_11_ok; [apply ok_call; exact Eop | exact Hs])
      | (apply binary_op_ok; exact Hs)
      | (apply push_next_ok; exact Hs)
      | (apply i_4_ok; exact Hs) | (apply i_5_ok; exact Hs) | (apply i_6_ok; exact Hs) | (apply i_8_ok; exact Hs)
      | (apply i_17_ok; exact Hs) | (apply i_18_ok; exact Hs)
      | (apply i_19_ok; exact Hs) | (apply i_20_ok; exact Hs) | (apply i_21_ok; exact Hs) | (apply i_22_ok; exact Hs)
      | (apply i_23_ok; exact Hs) | (apply i_27_ok; exact Hs) | (apply i_28_ok; exact Hs)
      | (apply i_29_30_ok; exact Hs) | (apply i_31_ok; exact Hs) | (apply i_32_ok; exact Hs) | (apply i_33_ok; exact Hs)
      | (apply i_34_ok; exact Hs) | (apply i_35_ok; exact Hs) | (apply i_36_ok; exact Hs)
      | (apply i_37_42_ok; exact Hs) | (apply i_38_ok; exact Hs) | (apply i_39_ok; exact Hs) | (apply i_40_ok; exact Hs)
      | (apply i_41_ok; exact Hs) | (apply i_43_44_ok; exact Hs)
      | (apply i_45_ok; exact Hs) | (apply i_46_ok; exact Hs)
      | (destruct (spop s) as [s1 v1] eqn:E; calls_close)
      | calls_close ].
  Qed.

  (* the dispatch loop keeps the invariant *)
  Lemma loop_frames_ok : forall fuel ip s, frames_ok s -> rres_ok (loop F bld P reenter fuel ip s).
  Proof.
    induction fuel as [|f IH]; intros ip s Hs; cbn [loop].
    - destruct (code_len P <=? ip)%N; [exact Hs|].
      cbn [st_rem set_rem]. destruct (N.pred (st_rem s) =? 0)%N; exact Hs.
    - destruct (code_len P <=? ip)%N; [exact Hs|].
      cbn [st_rem set_rem]. destruct (N.pred (st_rem s) =? 0)%N; [exact Hs|].
      assert (Ht : frames_ok (tick (set_rem s (N.pred (st_rem s))))) by exact Hs.
      pose proof (step_frames_ok ip Ht) as H.
      destruct (step F bld P reenter ip _) as [ip' s'|s'|e ip' s'|a s']; cbn [sres_ok rres_ok] in *; try exact H.
      apply IH. exact H.
  Qed.
End Frames.

(* ------------------------------------------------------------------ *)
(* 3. `run`                                                            *)
(* ------------------------------------------------------------------ *)

(* the three kinds of source address *)
Definition src_ok (P : program) (a : N) : Prop :=
  a = 0%N \/ nth (N.to_nat a) (p_code P) 255%N = 11%N \/ exists label, assoc label (p_labels P) = Some a.

Lemma src_ok_label P label pos : assoc label (p_labels P) = Some pos -> src_ok P pos.
Proof. intros H. right. right. exists label. exact H. Qed.
Lemma src_ok_call P ip0 : nth (N.to_nat ip0) (p_code P) 255%N = 11%N -> src_ok P ip0.
Proof. intros H. right. left. exact H. Qed.

Lemma run_at_frames_ok F bld P max_instr : forall depth ip s,
  frames_ok (src_ok P) s -> rres_ok (src_ok P) (run_at F bld P false max_instr depth ip s).
Proof.
  induction depth as [|d IH]; intros ip s Hs; cbn [run_at]; [exact Hs|].
  unfold run_loop. apply loop_frames_ok.
  - apply src_ok_label.
  - apply src_ok_call.
  - exact IH.
  - exact Hs.
Qed.

(* what the trace of a failed run is made of *)
Theorem error_trace_shape : forall F bld budget P s e t s',
  frames_ok (src_ok P) s ->
  run F bld budget P s = (OErr e t, s') ->
  (t = [] /\ e = ECallStackOverflow /\ push_frame s (mkFrame 0 0 0 None) = None) \/
  exists a s_fail s_start s0,
    (* the trace: the failing address, then the source of every frame, top first; absent entries are skipped *)
    t = opt_list (assoc a (p_trace P) :: map (fun f => assoc (fr_src f) (p_trace P)) (st_calls s_fail)) /\
    (* every frame source is 0, a CallFunction instruction, or a label position *)
    Forall (fun f => src_ok P (fr_src f)) (st_calls s_fail) /\
    (* [a] is the address of the instruction that failed (or was about to be dispatched), reached from address 0 *)
    push_frame s (mkFrame 0 0 0 None) = Some s_start /\
    reaches F bld P (run_at F bld P false (N.of_nat budget) (pred max_depth)) 0
            (set_rem s_start (N.of_nat budget)) a s0 /\
    fails_at F bld P (run_at F bld P false (N.of_nat budget) (pred max_depth)) a s0 e s_fail.
Proof.
  intros F bld budget P s e t s' Hs H. unfold run, run_gen in H.
  destruct (push_frame s (mkFrame 0 0 0 None)) as [s1|] eqn:Ep.
  - right.
    assert (H1 : frames_ok (src_ok P) (set_rem s1 (N.of_nat budget))).
    { unfold frames_ok, Q. cbn [st_calls set_rem]. unfold push_frame in Ep.
      destruct (_ <=? _); inversion Ep; subst. cbn [st_calls set_calls].
      apply Forall_cons; [left; reflexivity|exact Hs]. }
    change max_depth with (S (pred max_depth)) in H. cbn [run_at] in H. unfold run_loop in H.
    set (re := run_at F bld P false (N.of_nat budget) (pred max_depth)) in *.
    assert (Hre : forall ip x, frames_ok (src_ok P) x -> rres_ok (src_ok P) (re ip x))
      by (intros; apply run_at_frames_ok; assumption).
    pose proof (@loop_frames_ok F bld P (src_ok P) (@src_ok_label P) (@src_ok_call P) re Hre
                  (N.to_nat (st_rem (set_rem s1 (N.of_nat budget)))) 0%N _ H1) as Hok.
    destruct (loop F bld P re _ 0 _) as [sf|e1 a sf|ab sf] eqn:El; unfold finish, outcome_of in H.
    + inversion H.
    + inversion H; subst. apply loop_error_at in El. destruct El as (s0 & Hr & Hf).
      exists a, sf, s1, s0. repeat split; auto.
    + inversion H.
  - left. inversion H; subst. auto.
Qed.

(* ------------------------------------------------------------------ *)
(* 4. a failed nested run keeps its payload only                        *)
(* ------------------------------------------------------------------ *)

(* Vm::run_function on a script function whose nested `_run` fails at address [ip] with state [s3]: the result is
   NErr with the same payload; the address is dropped and the call stack is cut back to its height at entry *)
Theorem nested_error_keeps_payload_only :
  forall P reenter cn a h ar s src s1 s2 e ip s3,
    hget (st_heap s) a = Some (OFun h ar) ->
    (code_len P =? 0)%N = false ->
    assoc h (p_labels P) = Some src ->
    (N.of_nat (scount s) <? ar)%N = false ->
    let f := mkFrame src (last_pos P) (N.of_nat (scount s) - ar) None in
    push_frame s f = Some s1 -> push_frame s1 f = Some s2 ->
    reenter src s2 = RErr e ip s3 ->
    exists s', run_function P reenter cn (VObj a) s = NErr e s' /\
               st_calls s' = skipn (length (st_calls s3) - length (st_calls s)) (st_calls s3).
Proof.
  intros P reenter cn a h ar s src s1 s2 e ip s3 Hh Hc Hl Ha f H1 H2 Hr.
  unfold run_function. rewrite Hh, Hc, Hl. cbv zeta. rewrite Ha. fold f. rewrite H1, H2, Hr.
  eexists. split; [reflexivity|]. reflexivity.
Qed.

(* ------------------------------------------------------------------ *)
(* 5. the link to the compiler model                                   *)
(* ------------------------------------------------------------------ *)
From Cao Require Import CardAst Compiler C15Link.

Lemma assoc_index_trace : forall l i a e,
  keys_increasing l = true -> In (a, e) l ->
  exists k, nth_error l k = Some (a, e) /\ assoc a (index_trace i l) = Some (i + N.of_nat k)%N.
Proof.
  induction l as [|[b eb] r IH]; intros i a e Hk Hin; [destruct Hin|].
  cbn [index_trace assoc].
  destruct Hin as [Heq|Hin].
  - inversion Heq; subst. exists 0%nat. rewrite N.eqb_refl. split; [reflexivity|]. f_equal. cbn. lia.
  - assert (Hr : keys_increasing r = true /\ forall x ex, In (x, ex) r -> (b < x)%N).
    { clear IH Hin. revert b eb Hk. induction r as [|[c ec] r' IHr]; intros b eb Hk.
      - split; [reflexivity|]. intros x ex [].
      - cbn [keys_increasing] in Hk. apply andb_true_iff in Hk. destruct Hk as [Hlt Hk'].
        apply N.ltb_lt in Hlt. split; [exact Hk'|].
        intros x ex [Hx|Hx].
        + inversion Hx; subst. exact Hlt.
        + destruct (IHr c ec Hk') as [_ Hall]. specialize (Hall x ex Hx). lia. }
    destruct Hr as [Hkr Hall].
    specialize (Hall a e Hin).
    destruct (N.eqb a b) eqn:Eab; [apply N.eqb_eq in Eab; lia|].
    destruct (IH (i + 1)%N a e Hkr Hin) as (k & Hn & Ha).
    exists (S k). split; [exact Hn|]. rewrite Ha. f_equal. lia.
Qed.

(* if the compiler recorded location [l] for address [a], the first entry of the trace the VM builds for a
   failure at [a] stands for [l] *)
Theorem reported_head_is_compiler_entry : forall B a s l,
  keys_increasing (Compiler.p_trace B) = true ->
  In (a, l) (Compiler.p_trace B) ->
  exists rest, map (trace_loc B) (build_trace (to_vm B) a s) = l :: rest.
Proof.
  intros B a s l Hk Hin.
  destruct (@assoc_index_trace _ 0%N _ _ Hk Hin) as (k & Hn & Ha).
  unfold build_trace. cbn [Vm.p_trace to_vm]. rewrite Ha. cbn [opt_list map].
  eexists. f_equal. unfold trace_loc. rewrite N.add_0_l, Nat2N.id.
  rewrite (nth_error_nth _ _ _ Hn). reflexivity.
Qed.
