(* placeholder, filled in below *)
From Cao Require Import Vm.
