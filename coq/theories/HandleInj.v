(* Handle::from_u32 (hash_u64 with mask 0xFFFF_FFFF, handle_table.rs) is injective on 0 .. 2^32 - 2:
   on 32-bit keys the mixer is a composition of bijections of the 32-bit words (xor-shift by 16,
   multiplication by an odd constant) that fix 0; the key 0 is remapped to 0xFFFF_FFFF first, so no
   key below 2^32 - 1 reaches the value 0 that non_zero would remap.  (0 and 2^32 - 1 collide.)
   Consequence for C10: the ids 0 .. n-1 of the global variables have pairwise distinct keys in
   `variables.names` for every n < 2^32. *)
From Coq Require Import NArith Lia Bool.
From Cao Require Import Bits.
Local Open Scope N_scope.

Definition xs (k : N) : N := N.lxor (N.shiftr k 16) k.
Definition mulc : N := 73207611.
Definition mulc_inv : N := 599585267.
Definition stp (k : N) : N := (xs k * mulc) mod two32.

Lemma lt_pow2_bits k m : k < 2 ^ m -> forall i, m <= i -> N.testbit k i = false.
Proof.
  intros H i Hi. destruct (N.eq_dec k 0) as [->|Hk]; [apply N.bits_0|].
  apply N.bits_above_log2. apply N.log2_lt_pow2 in H; lia.
Qed.
Lemma bits_lt_pow2 k m : (forall i, m <= i -> N.testbit k i = false) -> k < 2 ^ m.
Proof.
  intros H. assert (E : k = k mod 2 ^ m).
  { apply N.bits_inj. intros i. destruct (N.lt_ge_cases i m) as [Hlt|Hge].
    - rewrite N.mod_pow2_bits_low; auto.
    - rewrite N.mod_pow2_bits_high by exact Hge. apply H, Hge. }
  rewrite E. apply N.mod_lt. apply N.pow_nonzero. discriminate.
Qed.

Lemma xs_lt k : k < 2 ^ 32 -> xs k < 2 ^ 32.
Proof.
  intros H. apply bits_lt_pow2. intros i Hi. unfold xs.
  rewrite N.lxor_spec, N.shiftr_spec'.
  rewrite (lt_pow2_bits k 32 H (i + 16)) by lia. rewrite (lt_pow2_bits k 32 H i) by lia. reflexivity.
Qed.
Lemma xs_invol k : k < 2 ^ 32 -> xs (xs k) = k.
Proof.
  intros H. apply N.bits_inj. intros i. unfold xs.
  rewrite !N.lxor_spec, !N.shiftr_spec', !N.lxor_spec, !N.shiftr_spec'.
  replace (i + 16 + 16) with (i + 32) by lia.
  rewrite (lt_pow2_bits k 32 H (i + 32)) by lia.
  destruct (N.testbit k (i + 16)), (N.testbit k i); reflexivity.
Qed.
Lemma xs_inj a b : a < 2 ^ 32 -> b < 2 ^ 32 -> xs a = xs b -> a = b.
Proof. intros Ha Hb E. rewrite <- (xs_invol a Ha), <- (xs_invol b Hb), E. reflexivity. Qed.

Lemma mulc_cancel x : x < 2 ^ 32 -> (((x * mulc) mod two32) * mulc_inv) mod two32 = x.
Proof.
  intros H. rewrite N.mul_mod_idemp_l by discriminate.
  rewrite <- N.mul_assoc. rewrite N.mul_mod by discriminate.
  replace ((mulc * mulc_inv) mod two32) with 1 by (vm_compute; reflexivity).
  rewrite N.mul_1_r, N.mod_mod by discriminate. apply N.mod_small. exact H.
Qed.

Lemma stp_lt k : stp k < 2 ^ 32.
Proof. unfold stp. apply N.mod_lt. discriminate. Qed.
Lemma stp_inj a b : a < 2 ^ 32 -> b < 2 ^ 32 -> stp a = stp b -> a = b.
Proof.
  intros Ha Hb E. unfold stp in E. apply xs_inj; auto.
  rewrite <- (mulc_cancel (xs a) (xs_lt a Ha)), <- (mulc_cancel (xs b) (xs_lt b Hb)), E. reflexivity.
Qed.

(* the mixer on a non-zero 32-bit key *)
Definition mix32 (k : N) : N := xs (stp (stp k)).
Lemma mix32_lt k : mix32 k < 2 ^ 32.
Proof. apply xs_lt, stp_lt. Qed.
Lemma mix32_inj a b : a < 2 ^ 32 -> b < 2 ^ 32 -> mix32 a = mix32 b -> a = b.
Proof.
  intros Ha Hb E. unfold mix32 in E.
  apply xs_inj in E; [|apply stp_lt|apply stp_lt].
  apply stp_inj in E; [|apply stp_lt|apply stp_lt].
  apply stp_inj in E; auto.
Qed.
Lemma mix32_nonzero k : k < 2 ^ 32 -> k <> 0 -> mix32 k <> 0.
Proof.
  intros Hk Hne E. apply Hne. apply (mix32_inj k 0 Hk); [reflexivity|]. rewrite E. reflexivity.
Qed.

Lemma mod64_mod32 a : (a mod two64) mod two32 = a mod two32.
Proof.
  change two64 with (two32 * two32). rewrite N.mod_mul_r by discriminate.
  rewrite N.mul_comm, N.mod_add by discriminate. apply N.mod_mod. discriminate.
Qed.
Lemma land_mask32 a : N.land a mask32 = a mod two32.
Proof. change mask32 with (N.ones 32). rewrite N.land_ones. reflexivity. Qed.

Lemma step_eq k : N.land ((N.lxor (N.shiftr k 16) k * 73207611) mod two64) mask32 = stp k.
Proof. rewrite land_mask32, mod64_mod32. reflexivity. Qed.

Definition remap0 (k : N) : N := if k =? 0 then mask32 else k.

Lemma handle_from_u32_eq k : k < two32 - 1 -> handle_from_u32 k = mix32 (remap0 k).
Proof.
  intros Hk. unfold handle_from_u32, hash_u64. cbv zeta.
  assert (Hr : (k + (if k =? 0 then mask32 else 0)) mod two64 = remap0 k).
  { unfold remap0. destruct (N.eqb_spec k 0) as [->|Hne]; [reflexivity|].
    rewrite N.add_0_r. apply N.mod_small. unfold two32, two64 in *. lia. }
  rewrite Hr, !step_eq.
  assert (Hrl : remap0 k < 2 ^ 32).
  { unfold remap0. destruct (k =? 0); [reflexivity | unfold two32 in Hk; change (2 ^ 32) with 4294967296; lia]. }
  assert (Hrn : remap0 k <> 0).
  { unfold remap0. destruct (N.eqb_spec k 0); [discriminate | assumption]. }
  fold (xs (stp (stp (remap0 k)))). fold (mix32 (remap0 k)).
  pose proof (mix32_lt (remap0 k)) as Hm.
  rewrite land_mask32. change two32 with (2 ^ 32). rewrite (N.mod_small _ _ Hm).
  assert (Hs : N.shiftr (mix32 (remap0 k)) 32 = 0).
  { apply N.bits_inj. intros i. rewrite N.shiftr_spec', N.bits_0.
    apply (lt_pow2_bits _ 32 Hm). lia. }
  rewrite Hs, N.lxor_0_l, (N.mod_small _ _ Hm).
  unfold non_zero, nonzero_hash.
  destruct (N.eqb_spec (mix32 (remap0 k)) 0) as [E|_]; [|reflexivity].
  exfalso. apply (mix32_nonzero (remap0 k) Hrl Hrn E).
Qed.

Theorem handle_from_u32_inj i j :
  i < two32 - 1 -> j < two32 - 1 -> handle_from_u32 i = handle_from_u32 j -> i = j.
Proof.
  intros Hi Hj E. rewrite (handle_from_u32_eq i Hi), (handle_from_u32_eq j Hj) in E.
  assert (Hl : forall k, k < two32 - 1 -> remap0 k < 2 ^ 32).
  { intros k Hk. unfold remap0. destruct (k =? 0); [reflexivity|].
    unfold two32 in Hk. change (2 ^ 32) with 4294967296. lia. }
  apply mix32_inj in E; auto.
  unfold remap0 in E. unfold two32, mask32 in *.
  destruct (N.eqb_spec i 0), (N.eqb_spec j 0); subst; lia.
Qed.
