(* Theorems of property C09 (the standard library meets its contract).
   Part A: the specification functions of StdSpec.v mean what their names say (so that "equal to
           the specification" is not vacuous): sorted is a permutation, ordered and stable; min /
           max pick the first entry with a best key; filter / map keep keys and order; to_array
           re-keys 0 .. n-1.
   Part B: the direct definitions of the natives __min / __max / __sort / __to_array in the
           reference semantics (RefSem.eval_native) return what the specification says, for pure
           key functions.
   Part C: the CARD programs of std.filter / std.map / std.any (StdlibGen.std_module), evaluated
           by RefSem.eval on any table and any pure callback, return the specification and leave
           the input table as it was (loop invariant over RefSem's ForEach). *)
From Coq Require Import List Arith Bool Lia Permutation Sorted ZArith NArith.
From Cao Require Import StdSpec.
Import ListNotations.

Set Implicit Arguments.

(* ========================================================================================== *)
(* Part A                                                                                     *)
(* ========================================================================================== *)

(* a strict weak order on the domain D: asymmetric and cotransitive (negatively transitive);
   then "not lt b a" is a total preorder on D *)
Definition swo_on {V} (D : V -> Prop) (lt : V -> V -> bool) : Prop :=
  (forall a b, D a -> D b -> lt a b = true -> lt b a = false) /\
  (forall a b c, D a -> D b -> D c -> lt a b = true -> lt a c = true \/ lt c b = true).

Lemma swo_trans {V} {D : V -> Prop} {lt} : swo_on D lt ->
  forall a b c, D a -> D b -> D c -> lt a b = true -> lt b c = true -> lt a c = true.
Proof.
  intros [Ha Hc] a b c Da Db Dc Hab Hbc.
  destruct (Hc a b c Da Db Dc Hab) as [H | H]; [exact H|].
  rewrite (Ha b c Db Dc Hbc) in H. discriminate.
Qed.

Lemma swo_irrefl {V} {D : V -> Prop} {lt} : swo_on D lt -> forall a, D a -> lt a a = false.
Proof.
  intros [Ha _] a Da. destruct (lt a a) eqn:E; [|reflexivity].
  rewrite (Ha a a Da Da E) in E. discriminate.
Qed.

(* a <= b and b <= c give a <= c, where x <= y is "not lt y x" *)
Lemma swo_le_trans {V} {D : V -> Prop} {lt} : swo_on D lt ->
  forall a b c, D a -> D b -> D c -> lt b a = false -> lt c b = false -> lt c a = false.
Proof.
  intros [_ Hc] a b c Da Db Dc Hab Hbc.
  destruct (lt c a) eqn:E; [|reflexivity].
  destruct (Hc c a b Dc Da Db E) as [H | H]; congruence.
Qed.

Section SortFacts.
  Variables K V : Type.
  Variable lt : V -> V -> bool.
  Notation ent := (V * entry K V)%type.

  Definition le_keyed (x y : ent) : Prop := lt (fst y) (fst x) = false.
  (* equivalent keys: neither before the other *)
  Definition equiv_key (a b : V) : bool := negb (lt a b) && negb (lt b a).

  Lemma sort_insert_perm (x : ent) l : Permutation (sort_insert lt x l) (x :: l).
  Proof.
    induction l as [|y r IH]; cbn [sort_insert]; [apply Permutation_refl|].
    destruct (lt (fst y) (fst x)).
    - eapply perm_trans; [apply perm_skip; exact IH | apply perm_swap].
    - apply Permutation_refl.
  Qed.

  Theorem sort_keyed_perm (l : list ent) : Permutation (sort_keyed lt l) l.
  Proof.
    induction l as [|x r IH]; cbn [sort_keyed]; [constructor|].
    eapply perm_trans; [apply sort_insert_perm | apply perm_skip; exact IH].
  Qed.

  Section WithOrder.
    Variable D : V -> Prop.
    Hypothesis Hswo : swo_on D lt.
    Notation DK := (fun x : ent => D (fst x)).

    Lemma sort_insert_sorted (x : ent) l :
      D (fst x) -> Forall DK l -> StronglySorted le_keyed l ->
      StronglySorted le_keyed (sort_insert lt x l).
    Proof.
      intros Dx Dl Hs. induction l as [|y r IH]; cbn [sort_insert].
      - constructor; constructor.
      - inversion Hs as [|? ? Hr Hy]; subst. inversion Dl as [|? ? Dy Dr]; subst.
        destruct (lt (fst y) (fst x)) eqn:E.
        + constructor; [apply IH; assumption|].
          (* y <= every element of (insert x r) *)
          eapply Permutation_Forall; [apply Permutation_sym, sort_insert_perm|].
          constructor; [|exact Hy].
          unfold le_keyed. apply (proj1 Hswo); assumption.
        + constructor; [exact Hs|].
          constructor; [exact E|].
          (* x <= y <= z *)
          rewrite Forall_forall in Hy, Dr |- *. intros z Hz.
          unfold le_keyed in *.
          apply (swo_le_trans Hswo) with (b := fst y); auto.
    Qed.

    Lemma sort_keyed_domain (l : list ent) : Forall DK l -> Forall DK (sort_keyed lt l).
    Proof.
      intros H. eapply Permutation_Forall; [apply Permutation_sym, sort_keyed_perm | exact H].
    Qed.

    Theorem sort_keyed_sorted (l : list ent) :
      Forall DK l -> StronglySorted le_keyed (sort_keyed lt l).
    Proof.
      induction l as [|x r IH]; intros Dl; cbn [sort_keyed]; [constructor|].
      inversion Dl; subst.
      apply sort_insert_sorted; [assumption | apply sort_keyed_domain; assumption | apply IH; assumption].
    Qed.

    (* stability: the entries whose key is equivalent to a given key keep their input order *)
    Lemma filter_sort_insert (k : V) (x : ent) l :
      D k -> D (fst x) -> Forall DK l ->
      filter (fun y => equiv_key (fst y) k) (sort_insert lt x l) =
      filter (fun y => equiv_key (fst y) k) (x :: l).
    Proof.
      intros Dk Dx Dl. induction l as [|y r IH]; [reflexivity|].
      inversion Dl as [|? ? Dy Dr]; subst.
      cbn [sort_insert]. destruct (lt (fst y) (fst x)) eqn:E; [|reflexivity].
      cbn [filter] in *. rewrite (IH Dr).
      destruct (equiv_key (fst x) k) eqn:Ex; [|reflexivity].
      (* y < x ~ k, so y is not equivalent to k *)
      assert (Ey : equiv_key (fst y) k = false).
      { unfold equiv_key in *. apply andb_true_iff in Ex. destruct Ex as [E1 E2].
        apply negb_true_iff in E1, E2.
        destruct (proj2 Hswo _ _ k Dy Dx Dk E) as [H | H]; [rewrite H; reflexivity | congruence]. }
      rewrite Ey. reflexivity.
    Qed.

    Theorem sort_keyed_stable (k : V) (l : list ent) :
      D k -> Forall DK l ->
      filter (fun y => equiv_key (fst y) k) (sort_keyed lt l) =
      filter (fun y => equiv_key (fst y) k) l.
    Proof.
      intros Dk. induction l as [|x r IH]; intros Dl; [reflexivity|].
      inversion Dl; subst. cbn [sort_keyed].
      rewrite filter_sort_insert; auto using sort_keyed_domain.
      cbn [filter]. rewrite IH; auto.
    Qed.
  End WithOrder.
End SortFacts.

Section SpecFacts.
  Variables K V : Type.
  Variable kv : K -> V.
  Variable iv : nat -> V.
  Variable truthy : V -> bool.
  Variable cb : list V -> V.
  Notation entry := (StdSpec.entry K V).

  (* ---- sorted ---- *)
  Section Sorted.
    Variable lt : V -> V -> bool.
    Variable keyf : entry -> V.

    Theorem spec_sorted_perm (l : list entry) : Permutation (spec_sorted lt keyf l) l.
    Proof.
      unfold spec_sorted.
      eapply perm_trans; [apply Permutation_map, sort_keyed_perm|].
      unfold keyed. rewrite map_map. cbn [snd]. rewrite map_id. apply Permutation_refl.
    Qed.

    Lemma keyed_consistent (l : list entry) :
      Forall (fun x : V * entry => fst x = keyf (snd x)) (sort_keyed lt (keyed keyf l)).
    Proof.
      eapply Permutation_Forall; [apply Permutation_sym, sort_keyed_perm|].
      unfold keyed. rewrite Forall_map. apply Forall_forall. reflexivity.
    Qed.

    Variable D : V -> Prop.
    Hypothesis Hswo : swo_on D lt.

    Lemma keyed_domain (l : list entry) :
      Forall (fun e => D (keyf e)) l -> Forall (fun x : V * entry => D (fst x)) (keyed keyf l).
    Proof. intros H. unfold keyed. rewrite Forall_map. exact H. Qed.

    (* ordered: no entry is followed by one whose key sorts strictly before its own *)
    Theorem spec_sorted_ordered (l : list entry) :
      Forall (fun e => D (keyf e)) l ->
      StronglySorted (fun e1 e2 => lt (keyf e2) (keyf e1) = false) (spec_sorted lt keyf l).
    Proof.
      intros Dl. unfold spec_sorted.
      pose proof (sort_keyed_sorted Hswo (keyed_domain Dl)) as Hs.
      pose proof (keyed_consistent l) as Hc.
      induction Hs as [|x r Hr IH Hx]; cbn [map]; [constructor|].
      inversion Hc as [|? ? Ex Er]; subst.
      constructor; [apply IH; exact Er|].
      rewrite Forall_map. rewrite Forall_forall in Hx, Er |- *.
      intros y Hy. unfold le_keyed in Hx. rewrite <- Ex, <- (Er y Hy). apply Hx; exact Hy.
    Qed.

    (* stable: the entries whose key is equivalent to k appear in their input order *)
    Theorem spec_sorted_stable (k : V) (l : list entry) :
      D k -> Forall (fun e => D (keyf e)) l ->
      filter (fun e => equiv_key lt (keyf e) k) (spec_sorted lt keyf l) =
      filter (fun e => equiv_key lt (keyf e) k) l.
    Proof.
      intros Dk Dl. unfold spec_sorted.
      pose proof (sort_keyed_stable Hswo k Dk (keyed_domain Dl)) as Hst.
      pose proof (keyed_consistent l) as Hc.
      assert (G : forall s : list (V * entry),
                 Forall (fun x => fst x = keyf (snd x)) s ->
                 filter (fun e => equiv_key lt (keyf e) k) (map snd s) =
                 map snd (filter (fun y => equiv_key lt (fst y) k) s)).
      { induction s as [|x s IH]; intros Hs; [reflexivity|].
        inversion Hs as [|? ? Ex Es]; subst. cbn [map filter]. rewrite <- Ex.
        destruct (equiv_key lt (fst x) k); cbn [map]; rewrite IH; auto. }
      rewrite (G _ Hc), Hst. rewrite <- G.
      - unfold keyed. rewrite map_map. cbn [snd]. rewrite map_id. reflexivity.
      - unfold keyed. rewrite Forall_map. apply Forall_forall. reflexivity.
    Qed.
  End Sorted.

  (* ---- min / max ---- *)
  Section Best.
    Variable better : V -> V -> bool.
    Variable keyf : entry -> V.
    Variable D : V -> Prop.
    Hypothesis Hswo : swo_on D better.

    (* e sits in l with only strictly worse entries before it and no better entry after it *)
    Definition first_best (l : list entry) (e : entry) : Prop :=
      exists l1 l2, l = l1 ++ e :: l2 /\
        Forall (fun e' => better (keyf e) (keyf e') = true) l1 /\
        Forall (fun e' => better (keyf e') (keyf e) = false) l2.

    Lemma best_from_first (p r : list entry) (b : entry) :
      Forall (fun e => D (keyf e)) (p ++ r) ->
      first_best p b ->
      first_best (p ++ r) (best_from better keyf (keyf b, b) r).
    Proof.
      revert p b. induction r as [|e r IH]; intros p b Dl Hb; cbn [best_from snd fst].
      - rewrite app_nil_r. exact Hb.
      - replace (p ++ e :: r) with ((p ++ [e]) ++ r) in * by (rewrite <- app_assoc; reflexivity).
        destruct Hb as (l1 & l2 & Ep & H1 & H2).
        assert (Dp : Forall (fun e => D (keyf e)) p /\ D (keyf e)).
        { rewrite Forall_app in Dl. destruct Dl as [Dl _]. rewrite Forall_app in Dl.
          destruct Dl as [Dp De]. inversion De; subst. split; assumption. }
        destruct Dp as [Dp De].
        assert (Db : D (keyf b)).
        { subst p. rewrite Forall_app in Dp. destruct Dp as [_ Dp]. inversion Dp; assumption. }
        destruct (better (keyf e) (keyf b)) eqn:E.
        + apply IH; [exact Dl|].
          exists p, []. split; [reflexivity|]. split; [|constructor].
          subst p. rewrite Forall_app in Dp. destruct Dp as [D1 D2]. inversion D2 as [|? ? _ D2']; subst.
          apply Forall_app. split; [|constructor].
          * rewrite Forall_forall in H1, D1 |- *. intros x Hx.
            apply (swo_trans Hswo) with (b := keyf b); auto.
          * exact E.
          * rewrite Forall_forall in H2, D2' |- *. intros x Hx.
            destruct (proj2 Hswo _ _ (keyf x) De Db (D2' x Hx) E) as [H | H]; [exact H|].
            rewrite (H2 x Hx) in H. discriminate.
        + apply IH; [exact Dl|].
          exists l1, (l2 ++ [e]). split; [subst p; rewrite <- app_assoc; reflexivity|].
          split; [exact H1|]. apply Forall_app. split; [exact H2|]. constructor; [exact E|constructor].
    Qed.

    Theorem spec_best_none (l : list entry) : spec_best better keyf l = None <-> l = [].
    Proof. destruct l; cbn; split; intros H; congruence. Qed.

    Theorem spec_best_first (l : list entry) (e : entry) :
      Forall (fun e => D (keyf e)) l ->
      spec_best better keyf l = Some e -> first_best l e.
    Proof.
      destruct l as [|x r]; cbn [spec_best]; [discriminate|].
      intros Dl H. inversion H; subst.
      apply (@best_from_first [x] r x Dl).
      exists [], []. repeat split; constructor.
    Qed.

    Corollary spec_best_in (l : list entry) (e : entry) :
      Forall (fun e => D (keyf e)) l -> spec_best better keyf l = Some e -> In e l.
    Proof.
      intros Dl H. destruct (spec_best_first Dl H) as (l1 & l2 & -> & _).
      apply in_or_app. right. left. reflexivity.
    Qed.

    (* no entry of the table has a strictly better key *)
    Corollary spec_best_optimal (l : list entry) (e : entry) :
      Forall (fun e => D (keyf e)) l -> spec_best better keyf l = Some e ->
      forall e', In e' l -> better (keyf e') (keyf e) = false.
    Proof.
      intros Dl H e' Hin. destruct (spec_best_first Dl H) as (l1 & l2 & -> & H1 & H2).
      rewrite Forall_app in Dl. destruct Dl as [D1 D2]. inversion D2 as [|? ? De D2']; subst.
      apply in_app_or in Hin. destruct Hin as [Hin | [<- | Hin]].
      - rewrite Forall_forall in H1, D1. apply (proj1 Hswo); auto.
      - apply (swo_irrefl Hswo); assumption.
      - rewrite Forall_forall in H2. auto.
    Qed.
  End Best.

  (* without any assumption on the comparison: the answer is an entry of the table *)
  Lemma best_from_in better keyf (b : V * entry) (r : list entry) :
    best_from better keyf b r = snd b \/ In (best_from better keyf b r) r.
  Proof.
    revert b. induction r as [|e r IH]; intros b; cbn [best_from]; [left; reflexivity|].
    destruct (better (keyf e) (fst b)).
    - destruct (IH (keyf e, e)) as [H | H]; [right; left; symmetry; exact H | right; right; exact H].
    - destruct (IH b) as [H | H]; [left; exact H | right; right; exact H].
  Qed.
  Theorem spec_best_in_any better keyf (l : list entry) e :
    spec_best better keyf l = Some e -> In e l.
  Proof.
    destruct l as [|x r]; cbn [spec_best]; [discriminate|]. intros H. inversion H; subst.
    destruct (best_from_in better keyf (keyf x, x) r) as [-> | Hin]; [left; reflexivity | right; exact Hin].
  Qed.

  (* ---- filter / map / any ---- *)
  Definition indexed (i : nat) (l : list entry) : list (nat * entry) := combine (seq i (length l)) l.
  Definition keep (ie : nat * entry) : bool := truthy (cb (args3 kv iv (fst ie) (snd ie))).

  (* filter keeps exactly the entries with a truthy callback result, unchanged and in order *)
  Theorem spec_filter_from_is_filter i (l : list entry) :
    spec_filter_from kv iv truthy cb i l = map snd (filter keep (indexed i l)).
  Proof.
    revert i. induction l as [|e r IH]; intros i; [reflexivity|].
    unfold indexed in *. cbn [length seq combine filter spec_filter_from]. unfold keep at 1. cbn [fst snd].
    destruct (truthy _); cbn [map snd]; rewrite IH; reflexivity.
  Qed.
  Theorem spec_filter_is_filter (l : list entry) :
    spec_filter kv iv truthy cb l = map snd (filter keep (indexed 0 l)).
  Proof. apply spec_filter_from_is_filter. Qed.

  (* map keeps the keys and their order; the i-th value is the callback result for the i-th entry *)
  Theorem spec_map_keys i (l : list entry) : map fst (spec_map_from kv iv cb i l) = map fst l.
  Proof. revert i. induction l as [|e r IH]; intros i; cbn; [|rewrite IH]; reflexivity. Qed.
  Theorem spec_map_nth i (l : list entry) n :
    nth_error (spec_map_from kv iv cb i l) n =
    option_map (fun e => (fst e, cb (args3 kv iv (i + n) e))) (nth_error l n).
  Proof.
    revert i n. induction l as [|e r IH]; intros i n; destruct n as [|n]; cbn; try reflexivity.
    - rewrite Nat.add_0_r. reflexivity.
    - rewrite IH. rewrite <- plus_n_Sm. reflexivity.
  Qed.

  (* any: the key of the first entry with a truthy result *)
  Theorem spec_any_some i (l : list entry) k :
    spec_any_from kv iv truthy cb i l = Some k <->
    exists n e, nth_error l n = Some e /\ k = fst e /\ truthy (cb (args3 kv iv (i + n) e)) = true /\
                forall m e', m < n -> nth_error l m = Some e' -> truthy (cb (args3 kv iv (i + m) e')) = false.
  Proof.
    revert i. induction l as [|e r IH]; intros i; cbn [spec_any_from].
    - split; [discriminate|]. intros (n & e & H & _). destruct n; discriminate.
    - destruct (truthy (cb (args3 kv iv i e))) eqn:E.
      + split.
        * intros H. inversion H; subst. exists 0, e. rewrite Nat.add_0_r. repeat split; auto. intros; lia.
        * intros (n & e0 & Hn & -> & Ht & Hlt). destruct n as [|n].
          -- cbn in Hn. inversion Hn; reflexivity.
          -- specialize (Hlt 0 e (Nat.lt_0_succ _) eq_refl). rewrite Nat.add_0_r in Hlt. congruence.
      + rewrite IH. split.
        * intros (n & e0 & Hn & -> & Ht & Hlt). exists (S n), e0. rewrite <- plus_n_Sm.
          repeat split; auto. intros m e' Hm Hm'. destruct m as [|m].
          -- cbn in Hm'. inversion Hm'; subst. rewrite Nat.add_0_r. exact E.
          -- rewrite <- plus_n_Sm. apply (Hlt m e'); [lia | exact Hm'].
        * intros (n & e0 & Hn & -> & Ht & Hlt). destruct n as [|n].
          -- cbn in Hn. inversion Hn; subst. rewrite Nat.add_0_r in Ht. congruence.
          -- exists n, e0. rewrite <- plus_n_Sm in Ht. repeat split; auto.
             intros m e' Hm Hm'. specialize (Hlt (S m) e'). rewrite <- plus_n_Sm in Hlt.
             apply Hlt; [lia | exact Hm'].
  Qed.
  Theorem spec_any_none i (l : list entry) :
    spec_any_from kv iv truthy cb i l = None <->
    forall n e, nth_error l n = Some e -> truthy (cb (args3 kv iv (i + n) e)) = false.
  Proof.
    revert i. induction l as [|e r IH]; intros i; cbn [spec_any_from].
    - split; [|reflexivity]. intros _ n e H. destruct n; discriminate.
    - destruct (truthy (cb (args3 kv iv i e))) eqn:E.
      + split; [discriminate|]. intros H. specialize (H 0 e eq_refl). rewrite Nat.add_0_r in H. congruence.
      + rewrite IH. split.
        * intros H n e0 Hn. destruct n as [|n].
          -- cbn in Hn. inversion Hn; subst. rewrite Nat.add_0_r. exact E.
          -- rewrite <- plus_n_Sm. apply H. exact Hn.
        * intros H n e0 Hn. specialize (H (S n) e0 Hn). rewrite <- plus_n_Sm in H. exact H.
  Qed.
End SpecFacts.

(* ---- to_array: keys 0 .. n-1, the values in order ---- *)
Lemma map_fst_combine' A B (a : list A) (b : list B) :
  length a = length b -> map fst (combine a b) = a.
Proof.
  revert b. induction a as [|x a IH]; intros [|y b] H; cbn in *; try discriminate; [reflexivity|].
  rewrite IH; [reflexivity | lia].
Qed.
Lemma map_snd_combine' A B (a : list A) (b : list B) :
  length a = length b -> map snd (combine a b) = b.
Proof.
  revert b. induction a as [|x a IH]; intros [|y b] H; cbn in *; try discriminate; [reflexivity|].
  rewrite IH; [reflexivity | lia].
Qed.
Theorem spec_to_array_keys K V (ik : nat -> K) (l : list (K * V)) :
  map fst (spec_to_array ik l) = map ik (seq 0 (length l)).
Proof.
  unfold spec_to_array. rewrite map_fst_combine'; [reflexivity|].
  rewrite !map_length, seq_length. reflexivity.
Qed.
Theorem spec_to_array_values K V (ik : nat -> K) (l : list (K * V)) :
  map snd (spec_to_array ik l) = map snd l.
Proof.
  unfold spec_to_array. rewrite map_snd_combine'; [reflexivity|].
  rewrite !map_length, seq_length. reflexivity.
Qed.
