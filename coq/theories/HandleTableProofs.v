(* HandleTable (HandleTable.v) refines a map on non-zero handles; every operation terminates for
   every initial capacity and every mix of insertion paths.  Built on HashMapProofs with K := unit. *)
From Coq Require Import Arith Lia List Bool NArith.
Import ListNotations.
From Cao Require Import Cyc ProbeDefs ProbeProofs HashMap HashMapProofs HandleTable.

Set Implicit Arguments.

Lemma ueqb_spec : forall a b : unit, reflect (a = b) (ueqb a b).
Proof. intros [] []. constructor. reflexivity. Qed.

(* pad_pot returns a power of two not below its argument *)
Lemma pad_pot_ge c : c <= pad_pot c.
Proof.
  unfold pad_pot. destruct (Nat.leb_spec c 1) as [H|H]; [lia|].
  destruct (Nat.log2_spec (c - 1) ltac:(lia)) as [_ Hhi]. lia.
Qed.

Definition is_pow2 (n : nat) : Prop := exists k, n = 2 ^ k.

Lemma pad_pot_pow2 c : is_pow2 (pad_pot c).
Proof.
  unfold pad_pot. destruct (c <=? 1); [exists 0; reflexivity|].
  eexists. reflexivity.
Qed.

(* `x & (capacity - 1)` is `x mod capacity` for a power-of-two capacity *)
Lemma mask_is_mod (x : N) (k : N) : N.land x (2 ^ k - 1) = (x mod 2 ^ k)%N.
Proof.
  rewrite <- N.land_ones. f_equal. rewrite N.ones_equiv, N.sub_1_r. reflexivity.
Qed.

Section HTP.
  Variable V : Type.
  Variable home : nat -> N -> nat.
  Variable needs_grow : nat -> nat -> bool.
  Variable grow_cap : nat -> nat.
  Variable min_cap : nat.
  Variable reserve_cap : nat -> nat.
  Variable clone_v : V -> V.

  Hypothesis home_lt : forall n h, 0 < n -> home n h < n.
  Hypothesis ng_lt : forall c cap, needs_grow (S c) cap = false -> S c < cap.
  Hypothesis grow_cap_gt : forall c, c < grow_cap c.
  Hypothesis min_cap_pos : 2 <= min_cap.
  Hypothesis min_cap_pow2 : is_pow2 min_cap.
  Hypothesis reserve_cap_ge : forall n, n <= reserve_cap n.

  Notation htable := (hmap unit V).
  Notation HInv := (Inv (K:=unit) (V:=V) home).
  Notation hlook := (lookup ueqb home).
  Notation norm := (norm_cap min_cap).

  (* table invariant: the probing invariant, no zero handle stored, power-of-two capacity *)
  Definition TInv (m : htable) : Prop :=
    HInv m /\ (forall e, Ent m e -> e_hash e <> 0%N) /\ is_pow2 (hcap m).

  Lemma norm_ge c : c <= norm c.
  Proof. unfold norm_cap. pose proof (pad_pot_ge c). lia. Qed.

  Lemma norm_pow2 c : is_pow2 (norm c).
  Proof.
    unfold norm_cap. destruct (Nat.max_spec (pad_pot c) min_cap) as [[_ ->]|[_ ->]];
      [exact min_cap_pow2|apply pad_pot_pow2].
  Qed.

  Lemma hk_ek h (v : V) : ek (hk h v) = (h, tt).
  Proof. reflexivity. Qed.

  Lemma ek_unit (e : entry unit V) : ek e = (e_hash e, tt).
  Proof. destruct e as [h [] v]. reflexivity. Qed.

  Lemma ht_new_inv c : TInv (ht_new V min_cap c).
  Proof.
    unfold ht_new. split; [|split].
    - unfold Inv, hcap. cbn [hm_slots hm_count]. rewrite repeat_length.
      pose proof (norm_ge c). assert (0 < norm c) by (unfold norm_cap; lia).
      split; [assumption|]. split; [symmetry; apply occ_empty|]. split; [assumption|].
      split; [apply chain_empty|apply distinct_empty].
    - intros e He. exfalso. unfold Ent, hcap in He. cbn [hm_slots] in He. rewrite repeat_length in He.
      eapply in_tbl_empty; eauto.
    - unfold hcap. cbn [hm_slots]. rewrite repeat_length. apply norm_pow2.
  Qed.

  (* adjust_capacity *)
  Lemma ht_adjust_spec m c : TInv m -> hm_count m < norm c ->
    exists m', ht_adjust home min_cap m c true = Ok m' /\ TInv m' /\ hcap m' = norm c /\
      hm_count m' = hm_count m /\ (forall e, Ent m' e <-> Ent m e).
  Proof.
    intros (HI & Hnz & _) Hc. unfold ht_adjust.
    destruct (adjust_spec ueqb ueqb_spec home_lt HI Hc) as [m' [Ha [HI' [Hcap [Hcnt Hent]]]]].
    exists m'. split; [exact Ha|]. split; [|auto].
    split; [exact HI'|]. split.
    - intros e He. apply Hnz. apply Hent. exact He.
    - rewrite Hcap. apply norm_pow2.
  Qed.

  Lemma ht_grow_spec m : TInv m ->
    exists m', ht_grow home grow_cap min_cap m true = Ok m' /\ TInv m' /\ hcap m < hcap m' /\
      hm_count m' = hm_count m /\ (forall e, Ent m' e <-> Ent m e).
  Proof.
    intros HT. unfold ht_grow.
    pose proof (grow_cap_gt (hcap m)) as Hg. pose proof (norm_ge (grow_cap (hcap m))) as Hn.
    assert (Hc : hm_count m < norm (grow_cap (hcap m))).
    { destruct HT as ((_ & _ & Hlt & _) & _). lia. }
    destruct (ht_adjust_spec _ HT Hc) as [m' [Ha [HT' [Hcap [Hcnt Hent]]]]].
    exists m'. split; [exact Ha|]. split; [exact HT'|]. split; [lia|]. split; [exact Hcnt|exact Hent].
  Qed.

  (* _insert, given room for a new handle *)
  Lemma ht_insert_raw_spec m h v : TInv m -> h <> 0%N ->
    (hlook m (h, tt) = None -> S (hm_count m) < hcap m) ->
    match hlook m (h, tt) with
    | Some e0 =>
        exists m', ht_insert_raw home m h v = (Ok m', [e_val e0]) /\ TInv m' /\ hcap m' = hcap m /\
          hm_count m' = hm_count m /\
          (forall e, Ent m' e <-> (e = hk h v \/ (Ent m e /\ ek e <> (h, tt))))
    | None =>
        exists m', ht_insert_raw home m h v = (Ok m', []) /\ TInv m' /\ hcap m' = hcap m /\
          hm_count m' = S (hm_count m) /\
          (forall e, Ent m' e <-> (e = hk h v \/ Ent m e))
    end.
  Proof.
    intros (HI & Hnz & Hp2) Hh Hroom.
    destruct (hfind_spec ueqb ueqb_spec home_lt h tt HI) as [q [Hq [Hf [[e0 [Hg Hk]]|[Hnone [Habs _]]]]]].
    - rewrite (lookup_find ueqb home m h tt Hf), Hg. unfold ht_insert_raw. rewrite Hf, Hg.
      assert (Hke : ek (hk h v) = ek e0) by (rewrite Hk; reflexivity).
      destruct (replace_present HI Hq Hg Hke) as [HI' [Hcap Hent]].
      eexists. split; [reflexivity|]. split; [|split; [exact Hcap|split; [reflexivity|]]].
      + split; [exact HI'|]. split.
        * intros e He. apply Hent in He. destruct He as [->|[He _]]; [exact Hh|apply Hnz; exact He].
        * rewrite Hcap. exact Hp2.
      + intros e. rewrite Hent, Hk. reflexivity.
    - rewrite (lookup_find ueqb home m h tt Hf), Hnone in *. unfold ht_insert_raw. rewrite Hf, Hnone.
      specialize (Hroom eq_refl).
      destruct (insert_fresh ueqb ueqb_spec home_lt v HI Habs Hroom) as [q1 [Hf1 [_ [HI' [Hcap Hent]]]]].
      assert (q1 = q) by congruence. subst q1.
      eexists. split; [reflexivity|]. split; [|split; [exact Hcap|split; [reflexivity|exact Hent]]].
      split; [exact HI'|]. split.
      + intros e He. apply Hent in He. destruct He as [->|He]; [exact Hh|apply Hnz; exact He].
      + replace (hcap _) with (hcap m) by (symmetry; exact Hcap). exact Hp2.
  Qed.

  (* insert(handle, value) *)
  Theorem ht_insert_spec m h v ok : TInv m -> h <> 0%N ->
    (ok = false /\ ht_insert home needs_grow grow_cap min_cap m h v ok = (Ok m, Some EAlloc, [v])) \/
    match hlook m (h, tt) with
    | Some e0 =>
        exists m', ht_insert home needs_grow grow_cap min_cap m h v ok = (Ok m', None, [e_val e0]) /\
          TInv m' /\ hm_count m' = hm_count m /\
          (forall e, Ent m' e <-> (e = hk h v \/ (Ent m e /\ ek e <> (h, tt))))
    | None =>
        exists m', ht_insert home needs_grow grow_cap min_cap m h v ok = (Ok m', None, []) /\
          TInv m' /\ hm_count m' = S (hm_count m) /\
          (forall e, Ent m' e <-> (e = hk h v \/ Ent m e))
    end.
  Proof.
    intros HT Hh. unfold ht_insert. rewrite (proj2 (N.eqb_neq h 0) Hh).
    assert (G : (ok = false /\ (if needs_grow (S (hm_count m)) (hcap m) then ht_grow home grow_cap min_cap m ok else Ok m) = AllocErr) \/
                exists m1, (if needs_grow (S (hm_count m)) (hcap m) then ht_grow home grow_cap min_cap m ok else Ok m) = Ok m1 /\
                  TInv m1 /\ hm_count m1 = hm_count m /\ S (hm_count m1) < hcap m1 /\ (forall e, Ent m1 e <-> Ent m e)).
    { destruct (needs_grow (S (hm_count m)) (hcap m)) eqn:Hng.
      - destruct ok.
        + right. destruct (ht_grow_spec HT) as [m1 [Ha [HT1 [Hcap [Hcnt Hent]]]]].
          exists m1. split; [exact Ha|]. split; [exact HT1|]. split; [exact Hcnt|]. split; [|exact Hent].
          destruct HT as ((_ & _ & Hlt & _) & _). lia.
        + left. split; [reflexivity|]. reflexivity.
      - right. exists m. apply ng_lt in Hng. split; [reflexivity|]. split; [exact HT|].
        split; [reflexivity|]. split; [exact Hng|]. intros e; reflexivity. }
    destruct G as [[Hok G]|[m1 [G [HT1 [Hcnt1 [Hroom Hent1]]]]]]; rewrite G.
    - left. split; [exact Hok|reflexivity].
    - right.
      assert (Hl : hlook m1 (h, tt) = hlook m (h, tt)).
      { apply (lookup_ext ueqb ueqb_spec home_lt); [apply HT1|apply HT|exact Hent1]. }
      pose proof (ht_insert_raw_spec v HT1 Hh (fun _ => Hroom)) as P. rewrite Hl in P.
      destruct (hlook m (h, tt)) as [e0|].
      + destruct P as [m' [E [HT' [_ [Hc Hent]]]]]. rewrite E.
        exists m'. split; [reflexivity|]. split; [exact HT'|]. split; [lia|].
        intros e. rewrite Hent, Hent1. reflexivity.
      + destruct P as [m' [E [HT' [_ [Hc Hent]]]]]. rewrite E.
        exists m'. split; [reflexivity|]. split; [exact HT'|]. split; [lia|].
        intros e. rewrite Hent, Hent1. reflexivity.
  Qed.

  (* entry(handle) [+ or_insert_with] *)
  Theorem ht_entry_spec m h ins ok : TInv m -> h <> 0%N ->
    match hlook m (h, tt) with
    | Some e0 => ht_entry home needs_grow grow_cap min_cap m h ins ok = Ok (m, Some (e_val e0))
    | None =>
        (ok = false /\ ht_entry home needs_grow grow_cap min_cap m h ins ok = Panic) \/
        match ins with
        | None => exists m', ht_entry home needs_grow grow_cap min_cap m h ins ok = Ok (m', None) /\
                    TInv m' /\ hm_count m' = hm_count m /\ (forall e, Ent m' e <-> Ent m e)
        | Some v => exists m', ht_entry home needs_grow grow_cap min_cap m h ins ok = Ok (m', Some v) /\
                    TInv m' /\ hm_count m' = S (hm_count m) /\
                    (forall e, Ent m' e <-> (e = hk h v \/ Ent m e))
        end
    end.
  Proof.
    intros HT Hh. pose proof HT as (HI & Hnz & Hp2).
    destruct (hfind_spec ueqb ueqb_spec home_lt h tt HI) as [q [Hq [Hf [[e0 [Hg Hk]]|[Hnone [Habs _]]]]]].
    - rewrite (lookup_find ueqb home m h tt Hf), Hg. unfold ht_entry. rewrite Hf, Hg. reflexivity.
    - rewrite (lookup_find ueqb home m h tt Hf), Hnone. unfold ht_entry. rewrite Hf, Hnone.
      assert (G : (ok = false /\ (if needs_grow (S (hm_count m)) (hcap m) then ht_grow home grow_cap min_cap m ok else Ok m) = AllocErr) \/
                  exists m1, (if needs_grow (S (hm_count m)) (hcap m) then ht_grow home grow_cap min_cap m ok else Ok m) = Ok m1 /\
                    TInv m1 /\ hm_count m1 = hm_count m /\ S (hm_count m1) < hcap m1 /\ (forall e, Ent m1 e <-> Ent m e)).
      { destruct (needs_grow (S (hm_count m)) (hcap m)) eqn:Hng.
        - destruct ok.
          + right. destruct (ht_grow_spec HT) as [m1 [Ha [HT1 [Hcap [Hcnt Hent]]]]].
            exists m1. split; [exact Ha|]. split; [exact HT1|]. split; [exact Hcnt|]. split; [|exact Hent].
            destruct HI as (_ & _ & Hlt & _). lia.
          + left. split; [reflexivity|]. reflexivity.
        - right. exists m. apply ng_lt in Hng. split; [reflexivity|]. split; [exact HT|].
          split; [reflexivity|]. split; [exact Hng|]. intros e; reflexivity. }
      destruct G as [[Hok G]|[m1 [G [HT1 [Hcnt1 [Hroom Hent1]]]]]]; rewrite G.
      + left. split; [exact Hok|reflexivity].
      + right. destruct ins as [v|].
        * assert (Habs1 : forall e, Ent m1 e -> ek e <> (h, tt)).
          { intros e He. apply Habs. apply Hent1. exact He. }
          destruct HT1 as (HI1 & Hnz1 & Hp1).
          destruct (insert_fresh ueqb ueqb_spec home_lt v HI1 Habs1 Hroom) as [q1 [Hf1 [_ [HI' [Hcap Hent']]]]].
          rewrite Hf1. eexists. split; [reflexivity|]. split; [|split; [cbn; lia|]].
          -- split; [exact HI'|]. split.
             ++ intros e He. apply Hent' in He. destruct He as [->|He]; [exact Hh|apply Hnz1; exact He].
             ++ replace (hcap _) with (hcap m1) by (symmetry; exact Hcap). exact Hp1.
          -- intros e. rewrite Hent', Hent1. reflexivity.
        * exists m1. auto.
  Qed.

  (* remove / get: directly the hash map's *)
  Theorem ht_remove_spec m h : TInv m ->
    match hlook m (h, tt) with
    | Some e0 =>
        exists m', ht_remove home m h = Ok (m', Some (e_val e0)) /\ TInv m' /\
          S (hm_count m') = hm_count m /\ (forall e, Ent m' e <-> (Ent m e /\ ek e <> (h, tt)))
    | None => ht_remove home m h = Ok (m, None)
    end.
  Proof.
    intros (HI & Hnz & Hp2). unfold ht_remove.
    pose proof (remove_h_spec ueqb ueqb_spec home_lt h tt HI) as P.
    destruct (hlook m (h, tt)) as [e0|].
    - destruct P as [m' [E [HI' [Hcap [Hcnt Hent]]]]]. rewrite E. cbn [fst].
      exists m'. split; [reflexivity|]. split; [|auto].
      split; [exact HI'|]. split.
      + intros e He. apply Hent in He. apply Hnz. tauto.
      + rewrite Hcap. exact Hp2.
    - rewrite P. reflexivity.
  Qed.

  Theorem ht_get_spec m h : TInv m ->
    ht_get home m h = Ok (option_map (@e_val unit V) (hlook m (h, tt))).
  Proof. intros (HI & _). apply (get_h_spec ueqb ueqb_spec home_lt h tt HI). Qed.

  Lemma ht_clear_inv m : TInv m -> TInv (fst (ht_clear m)) /\ forall e, ~ Ent (fst (ht_clear m)) e.
  Proof.
    intros (HI & Hnz & Hp2). destruct (clear_inv HI) as [HI' [Hcap Hno]].
    unfold ht_clear, clear_op in *. cbn [fst] in *.
    split; [|exact Hno]. split; [exact HI'|]. split.
    - intros e He. exfalso. eapply Hno; eauto.
    - rewrite Hcap. exact Hp2.
  Qed.

  Lemma ht_reserve_spec m add : TInv m ->
    exists m', ht_reserve home min_cap reserve_cap m add true = Ok m' /\ TInv m' /\
      hm_count m' = hm_count m /\ (forall e, Ent m' e <-> Ent m e).
  Proof.
    intros HT. unfold ht_reserve. destruct (hcap m <? add + hm_count m) eqn:E.
    - assert (Hc : hm_count m < norm (reserve_cap (add + hm_count m))).
      { apply Nat.ltb_lt in E. pose proof (reserve_cap_ge (add + hm_count m)).
        pose proof (norm_ge (reserve_cap (add + hm_count m))).
        destruct HT as ((_ & _ & Hlt & _) & _). lia. }
      destruct (ht_adjust_spec _ HT Hc) as [m' [Ha [HT' [_ [Hcnt Hent]]]]].
      exists m'. auto.
    - exists m. split; [reflexivity|]. split; [exact HT|]. split; [reflexivity|]. intros e; reflexivity.
  Qed.

  Lemma ht_clone_fill_ok : forall es m0, TInv m0 -> (forall e, In e es -> e_hash e <> 0%N) ->
    exists c, ht_clone_fill home needs_grow grow_cap min_cap clone_v es m0 = Ok c /\ TInv c.
  Proof.
    induction es as [|e r IH]; intros m0 HT Hnz; cbn [ht_clone_fill].
    - exists m0. auto.
    - assert (Hh : e_hash e <> 0%N) by (apply Hnz; left; reflexivity).
      pose proof (ht_insert_spec (clone_v (e_val e)) true HT Hh) as P.
      destruct P as [[Hc _]|P]; [discriminate|].
      destruct (hlook m0 (e_hash e, tt)).
      + destruct P as [m' [E [HT' _]]]. rewrite E. apply IH; auto. intros e' He'. apply Hnz. right. exact He'.
      + destruct P as [m' [E [HT' _]]]. rewrite E. apply IH; auto. intros e' He'. apply Hnz. right. exact He'.
  Qed.

  (* ---------- every history ---------- *)
  Definition valid_top (o : top V) : Prop :=
    match o with
    | TEntryIns h _ _ => h <> 0%N
    | TEntryDrop _ h _ => h <> 0%N
    | _ => True
    end.

  (* the only panics are the documented ones: indexing an absent handle, and `entry` when the
     allocation of the grown table fails; nothing diverges *)
  Definition good_tout (o : top V) (out : tout V) : Prop :=
    match out with
    | TODiverge _ => False
    | TOPanic _ => match o with
                   | TIndex _ _ => True
                   | TEntryIns _ _ ok => ok = false
                   | TEntryDrop _ _ ok => ok = false
                   | _ => False
                   end
    | _ => True
    end.

  Notation step := (ht_step home needs_grow grow_cap min_cap reserve_cap clone_v).
  Notation run := (ht_run home needs_grow grow_cap min_cap reserve_cap clone_v).

  Theorem ht_step_inv m o : TInv m -> valid_top o ->
    let '(m', out, d) := step m o in TInv m' /\ good_tout o out.
  Proof.
    intros HT Hv. destruct o; cbn [ht_step].
    - (* insert *)
      destruct (N.eqb_spec h 0) as [->|Hh].
      + unfold ht_insert. cbn. auto.
      + pose proof (ht_insert_spec v ok HT Hh) as P.
        destruct P as [[_ E]|P]; [rewrite E; cbn; auto|].
        destruct (hlook m (h, tt)); destruct P as [m' [E [HT' _]]]; rewrite E; cbn; auto.
    - pose proof (ht_entry_spec (Some v) ok HT Hv) as P.
      destruct (hlook m (h, tt)).
      + rewrite P. cbn. auto.
      + destruct P as [[Hok E]|[m' [E [HT' _]]]]; rewrite E; cbn; auto.
    - pose proof (ht_entry_spec None ok HT Hv) as P.
      destruct (hlook m (h, tt)).
      + rewrite P. cbn. auto.
      + destruct P as [[Hok E]|[m' [E [HT' _]]]]; rewrite E; cbn; auto.
    - pose proof (ht_remove_spec h HT) as P.
      destruct (hlook m (h, tt)).
      + destruct P as [m' [E [HT' _]]]. rewrite E. cbn. auto.
      + rewrite P. cbn. auto.
    - rewrite (ht_get_spec h HT). cbn. auto.
    - rewrite (ht_get_spec h HT). cbn. auto.
    - (* get_mut + write *)
      rewrite (ht_get_spec h HT).
      destruct (hlook m (h, tt)) as [e0|] eqn:El; cbn [option_map].
      + destruct (N.eqb_spec h 0) as [->|Hh].
        { exfalso. destruct HT as (HI & Hnz & _).
          apply (lookup_ent ueqb ueqb_spec home_lt (0%N, tt) e0 HI) in El. destruct El as [He Hk].
          apply (Hnz e0 He). rewrite ek_unit in Hk. congruence. }
        pose proof (ht_insert_raw_spec v HT Hh) as P. rewrite El in P.
        destruct P as [m' [E [HT' _]]]; [intros; discriminate|]. rewrite E. cbn. auto.
      + cbn. auto.
    - rewrite (ht_get_spec h HT). destruct (hlook m (h, tt)); cbn; auto.
    - destruct ok.
      + destruct (ht_reserve_spec add HT) as [m' [E [HT' _]]]. rewrite E. cbn. auto.
      + unfold ht_reserve. destruct (hcap m <? add + hm_count m); cbn; auto.
    - pose proof (ht_clear_inv HT) as [H _]. destruct (ht_clear m) as [m' d]. cbn in *. auto.
    - unfold ht_clone.
      destruct (@ht_clone_fill_ok (contents (hm_slots m)) (ht_new V min_cap (hcap m)) (ht_new_inv (hcap m)))
        as [c [E _]].
      { intros e He. destruct HT as (_ & Hnz & _). apply Hnz. apply ent_contents. exact He. }
      rewrite E. cbn. auto.
    - cbn. auto.
    - cbn. auto.
    - cbn. auto.
  Qed.

  Theorem ht_run_inv : forall ops m, TInv m -> Forall valid_top ops ->
    let '(m', outs) := run m ops in
    TInv m' /\ Forall2 (fun o x => good_tout o (fst x)) ops outs.
  Proof.
    induction ops as [|o r IH]; intros m HT Hv; cbn [ht_run].
    - split; [exact HT|constructor].
    - inversion Hv as [|? ? Hvo Hvr]; subst.
      pose proof (ht_step_inv o HT Hvo) as P. destruct (step m o) as [[m1 x] d].
      destruct P as [HT1 Hx]. specialize (IH m1 HT1 Hvr). destruct (run m1 r) as [m2 xs].
      destruct IH as [HT2 Hxs]. split; [exact HT2|]. constructor; [exact Hx|exact Hxs].
  Qed.
End HTP.
