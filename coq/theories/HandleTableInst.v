(* Side conditions of HandleTableProofs.v for the crate's constants (regenerated Consts.v). *)
From Coq Require Import Arith NArith Lia List Bool.
From Cao Require Import Consts Bits F32Load F32LoadProofs HashMap HashMapProofs HandleTable
     HandleTableProofs HandleTableConsts.

Lemma fib_home32_lt : forall n h, 0 < n -> fib_home32 n h < n.
Proof.
  intros n h Hn. unfold fib_home32.
  assert (H : (((h * c_ht_fib_mult) mod two32) mod N.of_nat n < N.of_nat n)%N) by (apply N.mod_lt; lia).
  lia.
Qed.

(* the model's `mod capacity` is the code's `& (capacity - 1)` on power-of-two capacities *)
Lemma fib_home32_is_mask : forall k h,
  fib_home32 (2 ^ k) h = N.to_nat (N.land ((h * c_ht_fib_mult) mod two32) (N.of_nat (2 ^ k) - 1)).
Proof.
  intros k h. unfold fib_home32. f_equal.
  replace (N.of_nat (2 ^ k)) with (2 ^ N.of_nat k)%N.
  - symmetry. apply mask_is_mod.
  - induction k as [|k IH]; [reflexivity|].
    rewrite Nat.pow_succ_r', Nat2N.inj_mul, <- IH, Nat2N.inj_succ, N.pow_succ_r'. reflexivity.
Qed.

Lemma ht_load_num_pos : (0 < ht_load_num)%N.
Proof. reflexivity. Qed.
Lemma ht_load_below_one : (ht_load_num * (2 ^ 23 + 1) < 2 ^ ht_load_shift * 2 ^ 23)%N.
Proof. reflexivity. Qed.

Lemma ht_needs_grow_lt : forall c cap, ht_needs_grow (S c) cap = false -> S c < cap.
Proof.
  intros c cap H. destruct cap as [|cap'].
  - exfalso. unfold ht_needs_grow, needs_grow_nat, needs_grow_N in H.
    replace (N.of_nat 0 * ht_load_num)%N with 0%N in H by reflexivity.
    replace (rne_shift 0 (N.size 0 - 24)) with 0%N in H by reflexivity.
    apply N.ltb_ge in H.
    assert (0 < N.of_nat (S c) * 2 ^ ht_load_shift)%N.
    { apply N.mul_pos_pos; [lia|]. apply N.neq_0_lt_0, N.pow_nonzero. lia. }
    lia.
  - apply (needs_grow_nat_false_lt ht_load_num ht_load_shift); auto using ht_load_num_pos, ht_load_below_one.
    lia.
Qed.

Lemma ht_grow_cap_gt : forall c, c < ht_grow_cap c.
Proof.
  intros c. unfold ht_grow_cap.
  change (N.to_nat ht_grow_min) with 2. change (N.to_nat ht_grow_mul) with 3.
  change (N.to_nat ht_grow_div) with 2.
  assert (H : 2 * c < Nat.max c 2 * 3) by lia.
  apply Nat.div_le_lower_bound; lia.
Qed.

Lemma ht_min_cap_ge2 : 2 <= ht_min_cap_nat.
Proof. unfold ht_min_cap_nat. change (N.to_nat ht_min_cap) with 4. lia. Qed.
Lemma ht_min_cap_pow2 : is_pow2 ht_min_cap_nat.
Proof. exists 2. reflexivity. Qed.

Lemma ht_reserve_factor_ge_one : (2 ^ ht_reserve_shift * 2 ^ 23 <= ht_reserve_num * (2 ^ 23 - 1))%N.
Proof. vm_compute. discriminate. Qed.

Lemma ht_reserve_cap_ge : forall n, n <= ht_reserve_cap n.
Proof.
  intros n. unfold ht_reserve_cap.
  pose proof (f32_mul_trunc_ge ht_reserve_num ht_reserve_shift (N.of_nat n) ht_reserve_factor_ge_one).
  lia.
Qed.
