(* C18: Vm::register_native_function / Vm::_register_native_function / Vm::register_native_stdlib (vm.rs) on the
   table of callables. Definitions only; proofs in VmRegistryProofs.v.

   `callables: HandleTable<Procedure<Aux>>` is keyed by Handle::from_str(name) (FNV-1a-32 of the name, Bits.v);
   the model is an association list handle -> procedure with at most one entry per handle (HandleTable::insert on a
   present key overwrites key and value: C07); since d80a79a _register_native_function refuses a name whose handle
   is held by an entry registered under another name (finding N-C18-1).  A procedure = the registered name (what TaskFailure reports) and
   the host function.  Not modelled: the allocation failure of HandleTable::grow (OutOfMemory). *)
From Coq Require Import NArith ZArith List Bool.
From Cao Require Import ListUtil CheckUtil Bits Stacks Vm.
Import ListNotations.

(* the host function behind a procedure: one of the library's natives, or a function of the embedder *)
Inductive hostfn := StdFn (n : native) | UserFn (id : N).

Record proc := mkProc { pr_name : list N; pr_fun : hostfn }.

Definition registry := list (N * proc).

(* name.as_ref().starts_with("__") *)
Definition starts_reserved (name : list N) : bool :=
  match name with
  | 95%N :: 95%N :: _ => true
  | _ => false
  end.

Fixpoint reg_remove (h : N) (r : registry) : registry :=
  match r with
  | [] => []
  | (k, p) :: r' => if N.eqb h k then reg_remove h r' else (k, p) :: reg_remove h r'
  end.

(* HandleTable::insert(key, value): a present key is overwritten *)
Definition reg_insert (r : registry) (h : N) (p : proc) : registry := (h, p) :: reg_remove h r.

(* HandleTable::get *)
Definition reg_get (r : registry) (h : N) : option proc := assoc h r.

(* answer of a registration: Ok(()), Err(InvalidArgument "Native function name may not begin with __"), or
   Err(InvalidArgument "Native function name .. collides with ..") (d80a79a) *)
Inductive regres := RegOk | RegRejected | RegCollides.

Definition name_eqb (a b : list N) : bool := list_eqb N.eqb a b.

(* Vm::_register_native_function (private: used by register_native_stdlib). d80a79a: the handle is looked up first;
   an entry registered under a DIFFERENT name is kept and the registration fails; the same name replaces.
   (Before: the entry was overwritten whatever its name, finding N-C18-1.) *)
Definition register_private (r : registry) (name : list N) (f : hostfn) : registry * regres :=
  let h := handle_of_bytes name in
  match reg_get r h with
  | Some p => if name_eqb (pr_name p) name then (reg_insert r h (mkProc name f), RegOk) else (r, RegCollides)
  | None => (reg_insert r h (mkProc name f), RegOk)
  end.

(* Vm::register_native_function (public) *)
Definition register_public (r : registry) (name : list N) (f : hostfn) : registry * regres :=
  if starts_reserved name then (r, RegRejected) else register_private r name f.

(* the answer alone: rejected exactly when the name starts with "__" or its handle is held by another name *)
Definition register_answer (r : registry) (name : list N) : regres :=
  if starts_reserved name then RegRejected
  else match reg_get r (handle_of_bytes name) with
       | Some p => if name_eqb (pr_name p) name then RegOk else RegCollides
       | None => RegOk
       end.

Definition std_natives : list native := [NStdMin; NStdMax; NStdSort; NStdToArray].

(* Vm::new: an empty table, then register_native_stdlib *)
Definition vm_new_registry : registry :=
  fold_left (fun r n => fst (register_private r (native_name n) (StdFn n))) std_natives [].

(* a history of calls of the public entry *)
Fixpoint run_public (r : registry) (ops : list (list N * hostfn)) : registry * list regres :=
  match ops with
  | [] => (r, [])
  | (name, f) :: rest =>
      let '(r1, a) := register_public r name f in
      let '(r2, l) := run_public r1 rest in
      (r2, a :: l)
  end.

(* the menu of harness/src/vmrun.rs new_vm, in registration order *)
Definition harness_menu : list native :=
  [NLog1; NSub2; NFail0; NStr1; NMix3; NCall1; NTry1; NCall0; NT4; NNil1; NTab1; NCat2; NRb1].
Definition menu_registry : registry :=
  fst (run_public vm_new_registry (map (fun n => (native_name n, StdFn n)) harness_menu)).

Definition is_ok (a : regres) : bool := match a with RegOk => true | _ => false end.

(* the last registration of a history that was answered Ok(()) and whose name has the handle h *)
Definition last_ok (ops : list (list N * hostfn)) (answers : list regres) (h : N) : option (list N * hostfn) :=
  match find (fun oa => is_ok (snd oa) && N.eqb (handle_of_bytes (fst (fst oa))) h) (rev (combine ops answers)) with
  | Some (op, _) => Some op
  | None => None
  end.

(* ordinary names with the handle of a library native (found by a meet-in-the-middle search on FNV-1a-32) *)
Definition name_collides_max : list N := [122; 106; 121; 108; 105; 113; 111]%N.       (* "zjyliqo"  ~ "__max" *)
Definition name_collides_sort : list N := [99; 97; 116; 112; 112; 114; 110]%N.        (* "catpprn"  ~ "__sort" *)
Definition name_collides_to_array : list N := [104; 99; 115; 118; 104; 102; 111]%N.   (* "hcsvhfo"  ~ "__to_array" *)
(* "tuewgsg": an ordinary name with Handle::from_str("tuewgsg") = Handle::from_str("__min") = 1036830421 *)
Definition name_collides_min : list N := [116; 117; 101; 119; 103; 115; 103]%N.
